(* C18 - T7: non-interference, from the read sets go2v regenerates (Gen/Effects_gen.v).
   GR (GenProofs/C17G.v) maps every function to the package variables it reads through any chain of
   calls; it is checked closed there (GR_closed), so a variable outside GR(f) is never read by f.
   Here GR is also shown EXACT (everything in it is read along a real call chain), which lets the
   documented exceptions be stated positively. *)
From Mxj Require Import Gen.GenSupport Gen.Effects_gen Gen.Setters_gen GenProofs.EffectsTheory GenProofs.C17G.
Local Open Scope string_scope.

(* ------------------------------------------------------------------ *)
(* the iteration only adds justified entries                            *)

Section Exact.
Variable eff : list finfo.
Variable sel : finfo -> list string.

Definition justified (tbl : vtable) : Prop :=
  forall f v, In v (lookup_s [] f tbl) -> touches_var eff sel f v.

Lemma dedup_strs_in : forall l v, In v (dedup_strs l) -> In v l.
Proof.
  intros l v. induction l as [|a l IH]; intros H; [exact H|].
  cbn [dedup_strs] in H. destruct (mem_str a l).
  - right. exact (IH H).
  - destruct H as [H|H]; [left; exact H | right; exact (IH H)].
Qed.

Lemma lookup_map_in : forall (g : finfo -> list string) (l : list finfo) f v,
  In v (lookup_s [] f (map (fun fi => (f_name fi, g fi)) l)) ->
  exists fi, In fi l /\ f_name fi = f /\ In v (g fi).
Proof.
  intros g l f v. induction l as [|a l IH]; intros H; [contradiction H|].
  cbn [map lookup_s] in H. destruct (String.eqb f (f_name a)) eqn:E.
  - apply String.eqb_eq in E. exists a. split; [left; reflexivity|]. split; [symmetry; exact E | exact H].
  - destruct (IH H) as [fi [Hin [Hn Hv]]]. exists fi. split; [right; exact Hin|]. split; assumption.
Qed.

Lemma justified0 : justified (vtable0 eff).
Proof.
  intros f v H. unfold vtable0 in H.
  destruct (lookup_map_in (fun _ => []) eff f v H) as [fi [_ [_ Hv]]]. contradiction Hv.
Qed.

Lemma justified_step : forall tbl, justified tbl -> justified (vstep eff sel tbl).
Proof.
  intros tbl Hj f v H. unfold vstep in H.
  destruct (lookup_map_in (fun fi => dedup_strs (vstep1 sel tbl fi)) eff f v H) as [fi [Hfi [Hn Hv]]].
  subst f. apply dedup_strs_in in Hv. unfold vstep1 in Hv. apply in_app_or in Hv. destruct Hv as [Hv|Hv].
  - exact (tv_direct eff sel fi v Hfi Hv).
  - apply in_flat_map in Hv. destruct Hv as [c [Hc Hv]].
    exact (tv_call eff sel fi c v Hfi Hc (Hj (fst c) v Hv)).
Qed.

Lemma justified_iter : forall n tbl, justified tbl -> justified (viter eff sel n tbl).
Proof.
  intros n. induction n as [|n IH]; intros tbl Hj; [exact Hj|].
  cbn [viter]. destruct (vclosed eff sel tbl); [exact Hj|]. apply IH. apply justified_step. exact Hj.
Qed.
End Exact.

Lemma GR_is_iteration : GR = viter effects f_greads fuel (vtable0 effects).
Proof. vm_compute. reflexivity. Qed.

Theorem GR_exact : forall f v, In v (lookup_s [] f GR) <-> touches_var effects f_greads f v.
Proof.
  intros f v. split.
  - assert (Hj : justified effects f_greads GR).
    { rewrite GR_is_iteration.
      exact (justified_iter effects f_greads fuel (vtable0 effects) (justified0 effects f_greads)). }
    exact (Hj f v).
  - exact (vclosed_sound effects f_greads GR GR_closed f v).
Qed.

(* ------------------------------------------------------------------ *)
(* the documented (option, entry point) pairs                           *)

Definition attr_case_vars : list string := ["attrPrefix"; "lenAttrPrefix"; "lowerCase"].
(* the sequence codec; NOT MapSeq.XmlIndent / XmlIndentWriter (see below) *)
Definition seq_entry : list string :=
  ["NewMapXmlSeq"; "NewMapXmlSeqReader"; "NewMapXmlSeqReaderRaw"; "NewMapFormattedXmlSeq"; "MapSeq.Xml"; "MapSeq.XmlWriter"].
Definition json_entry : list string :=
  ["Map.Json"; "Map.JsonIndent"; "Map.JsonWriter"; "Map.JsonWriterRaw"; "Map.JsonIndentWriter"; "Map.JsonIndentWriterRaw";
   "NewMapJson"; "NewMapJsonReader"; "NewMapJsonReaderRaw"].

Definition encoder_switches : list string := ["xmlEscapeChars"; "useGoXmlEmptyElemSyntax"; "xmlCheckIsValid"].
Definition decoder_entry : list string :=
  ["NewMapXml"; "NewMapXmlReader"; "NewMapXmlReaderRaw"; "NewMapXmlSeq"; "NewMapXmlSeqReader"; "NewMapXmlSeqReaderRaw";
   "NewMapJson"; "NewMapJsonReader"; "NewMapJsonReaderRaw"].

Definition decoder_switches : list string :=
  ["includeTagSeqNum"; "lowerCase"; "snakeCaseKeys"; "decodeSimpleValuesAsMap"; "trimRunes"; "disableTrimWhiteSpace";
   "castToInt"; "castToFloat"; "castToBool"; "castNanInf"; "xmlEscapeCharsDecoder"; "handleXMPPStreamTag";
   "checkTagToSkip"; "XmlCharsetReader"; "CustomDecoder"].
Definition map_encoder_query_entry : list string :=
  ["Map.Xml"; "Map.XmlIndent"; "Map.XmlWriter"; "Map.XmlIndentWriter"; "Map.Json"; "Map.JsonIndent"; "MapSeq.Xml";
   "Map.ValuesForPath"; "Map.ValuesForKey"; "Map.ValueForPath"; "Map.ValueForKey"; "Map.ValueForPathString";
   "Map.PathsForKey"; "Map.PathForKeyShortest"; "Map.Exists"; "Map.LeafNodes"; "Map.LeafPaths"; "Map.LeafValues";
   "Map.Elements"; "Map.Attributes"; "Map.Root";
   "Map.UpdateValuesForPath"; "Map.SetValueForPath"; "Map.Remove"; "Map.RenameKey"; "Map.NewMap"].

Definition cross (vs fs : list string) : list (string * string) :=
  flat_map (fun v => map (fun f => (v, f)) fs) vs.

Definition ni_pairs : list (string * string) :=
  cross attr_case_vars seq_entry ++ cross attr_case_vars json_entry ++
  cross encoder_switches decoder_entry ++
  cross decoder_switches map_encoder_query_entry.

Lemma ni_pairs_check :
  forallb (fun p => known (snd p) && mem_str (fst p) option_vars && negb (mem_str (fst p) (lookup_s [] (snd p) GR))) ni_pairs = true.
Proof. vm_compute. reflexivity. Qed.

Theorem noninterference : forall v f, In (v, f) ni_pairs -> ~ touches_var effects f_greads f v.
Proof.
  intros v f Hp Ht. apply GR_exact in Ht.
  pose proof ni_pairs_check as Hc. rewrite forallb_forall in Hc. specialize (Hc (v, f) Hp).
  cbn [fst snd] in Hc. apply andb_true_iff in Hc. destruct Hc as [_ Hc]. apply negb_true_iff in Hc.
  apply mem_str_in in Ht. rewrite Ht in Hc. discriminate Hc.
Qed.

Lemma in_cross : forall vs fs v f, In v vs -> In f fs -> In (v, f) (cross vs fs).
Proof.
  intros vs fs v f Hv Hf. unfold cross. apply in_flat_map. exists v. split; [exact Hv|].
  apply in_map_iff. exists f. split; [reflexivity | exact Hf].
Qed.

(* the four groups, as the documentation words them *)
Theorem seq_codec_ignores_attr_prefix_and_case : forall v f,
  In v attr_case_vars -> In f seq_entry -> ~ touches_var effects f_greads f v.
Proof.
  intros v f Hv Hf. apply noninterference. unfold ni_pairs.
  apply in_or_app. left. exact (in_cross _ _ v f Hv Hf).
Qed.

Theorem json_ignores_attr_prefix_and_case : forall v f,
  In v attr_case_vars -> In f json_entry -> ~ touches_var effects f_greads f v.
Proof.
  intros v f Hv Hf. apply noninterference. unfold ni_pairs.
  apply in_or_app. right. apply in_or_app. left. exact (in_cross _ _ v f Hv Hf).
Qed.

Theorem decoders_ignore_encoder_switches : forall v f,
  In v encoder_switches -> In f decoder_entry -> ~ touches_var effects f_greads f v.
Proof.
  intros v f Hv Hf. apply noninterference. unfold ni_pairs.
  apply in_or_app. right. apply in_or_app. right. apply in_or_app. left. exact (in_cross _ _ v f Hv Hf).
Qed.

Theorem encoders_queries_ignore_decoder_switches : forall v f,
  In v decoder_switches -> In f map_encoder_query_entry -> ~ touches_var effects f_greads f v.
Proof.
  intros v f Hv Hf. apply noninterference. unfold ni_pairs.
  apply in_or_app. right. apply in_or_app. right. apply in_or_app. right. exact (in_cross _ _ v f Hv Hf).
Qed.

(* ------------------------------------------------------------------ *)
(* whole read sets                                                      *)

Lemma lookup_s_in_tbl : forall (tbl : vtable) f v,
  In v (lookup_s [] f tbl) -> exists e, In e tbl /\ fst e = f /\ In v (snd e).
Proof.
  intros tbl f v. induction tbl as [|[k vs] tbl IH]; intros H; [contradiction H|].
  cbn [lookup_s] in H. destruct (String.eqb f k) eqn:E.
  - apply String.eqb_eq in E. exists (k, vs). split; [left; reflexivity|]. split; [symmetry; exact E | exact H].
  - destruct (IH H) as [e [He [Hf Hv]]]. exists e. split; [right; exact He|]. split; assumption.
Qed.

(* JSON: the encoders read no option at all, the decoders only JsonUseNumber *)
Lemma json_reads_check :
  forallb (fun f => forallb (fun v => String.eqb v "JsonUseNumber") (lookup_s [] f GR)) json_entry = true.
Proof. vm_compute. reflexivity. Qed.

Theorem json_reads_only_JsonUseNumber : forall f v,
  In f json_entry -> touches_var effects f_greads f v -> v = "JsonUseNumber".
Proof.
  intros f v Hf Ht. apply GR_exact in Ht.
  pose proof json_reads_check as Hc. rewrite forallb_forall in Hc. specialize (Hc f Hf).
  rewrite forallb_forall in Hc. apply String.eqb_eq. exact (Hc v Ht).
Qed.

(* disableTrimWhiteSpace is read by no function but its own setter: the decoders read trimRunes *)
Lemma dtws_readers_check :
  forallb (fun e => implb (mem_str "disableTrimWhiteSpace" (snd e)) (String.eqb (fst e) "DisableTrimWhiteSpace")) GR = true.
Proof. vm_compute. reflexivity. Qed.

Theorem disableTrimWhiteSpace_read_only_by_setter : forall f,
  touches_var effects f_greads f "disableTrimWhiteSpace" -> f = "DisableTrimWhiteSpace".
Proof.
  intros f Ht. apply GR_exact in Ht. destruct (lookup_s_in_tbl GR f _ Ht) as [e [He [Hf Hv]]].
  pose proof dtws_readers_check as Hc. rewrite forallb_forall in Hc. specialize (Hc e He).
  apply mem_str_in in Hv. rewrite Hv in Hc. cbn [implb] in Hc. apply String.eqb_eq in Hc.
  rewrite <- Hf. exact Hc.
Qed.

(* ------------------------------------------------------------------ *)
(* the exceptions, positively                                           *)

(* MapSeq.XmlIndent (and its Writer form) validates its output with NewMapXml when xmlCheckIsValid is on,
   so it DOES read the attribute prefix and the case-folding switch *)
Theorem seq_indent_exception :
  touches_var effects f_greads "MapSeq.XmlIndent" "attrPrefix" /\
  touches_var effects f_greads "MapSeq.XmlIndent" "lowerCase" /\
  touches_var effects f_greads "MapSeq.XmlIndentWriter" "attrPrefix" /\
  ~ touches_var effects f_greads "MapSeq.XmlIndent" "lenAttrPrefix".
Proof.
  repeat split; try (apply GR_exact; vm_compute; tauto).
  intro Ht. apply GR_exact in Ht. vm_compute in Ht. repeat (destruct Ht as [Ht|Ht]; [discriminate Ht|]). exact Ht.
Qed.

(* the sequence decoder is not free of key coercion: it reads snakeCaseKeys (but not lowerCase) *)
Theorem seq_decoder_reads_snakeCaseKeys :
  touches_var effects f_greads "NewMapXmlSeq" "snakeCaseKeys".
Proof. apply GR_exact. vm_compute. tauto. Qed.

(* sanity: the analysis does see the documented dependencies *)
Theorem documented_reads_present :
  touches_var effects f_greads "NewMapXml" "attrPrefix" /\
  touches_var effects f_greads "NewMapXml" "lowerCase" /\
  touches_var effects f_greads "Map.Xml" "attrPrefix" /\
  touches_var effects f_greads "Map.Xml" "lenAttrPrefix" /\
  touches_var effects f_greads "Map.Xml" "xmlEscapeChars" /\
  touches_var effects f_greads "NewMapXml" "xmlEscapeCharsDecoder" /\
  touches_var effects f_greads "NewMapXml" "trimRunes" /\
  touches_var effects f_greads "Map.ValuesForPath" "fieldSep" /\
  touches_var effects f_greads "Map.ValuesForKey" "defaultArraySize" /\
  touches_var effects f_greads "Map.LeafNodes" "useDotNotation" /\
  touches_var effects f_greads "NewMapJson" "JsonUseNumber".
Proof. repeat split; apply GR_exact; vm_compute; tauto. Qed.
