(* The file writers Maps.JsonFile / JsonFileIndent / XmlFile / XmlFileIndent (files.go) as go2v translated them from /repo's
   CURRENT sources (Gen/Pure_gen.v; handler mode: the files the function creates are the hidden state p_fs, os.Create is the
   environment function ext_os_Create): for ANY string form (the callee Maps.JsonString / ...) and ANY behaviour of os.Create,
     - the string form fails: its error is returned and no file is touched;
     - the file cannot be created: that error is returned and no file is touched;
     - otherwise the file is created with exactly the string as its content, and nil is returned
   - which is the model maps_file of Model/Files.v (C16: the file forms are the string forms; C19: what is written). *)
From Coq Require Import Lia.
From Mxj Require Import Gen.GenSupport Gen.Setters_gen Gen.PureSupport Gen.Pure_gen Model.Files.
From Mxj Require Import GenProofs.PureG5 GenProofs.PureG13.

Lemma fs_append_last (fs : fslog) (f c x : str) :
  fs_append (fs ++ [(f, c)]) (length fs) x = fs ++ [(f, c ++ x)].
Proof. induction fs as [|[n c0] t IH]; cbn [app length fs_append]; [reflexivity|]. rewrite IH. reflexivity. Qed.

(* what every one of the four does, given the result of its string form *)
Definition file_writer_spec (sres : res str) (create : str -> res unit) (file : str) (fs : fslog)
  : ctl unit (option err * fslog) :=
  match sres with
  | Panic => Crash
  | Err e => Ret (Some e, fs)
  | Ok x =>
      match create file with
      | Panic => Crash
      | Err e => Ret (Some e, fs)
      | Ok _ => Ret (None, fs ++ [(file, x)])
      end
  end.

Ltac writer_proof :=
  match goal with |- context [file_writer_spec ?r ?c ?f ?fs] => destruct r as [x|e|]; cbn [file_writer_spec bindc negb]; try reflexivity;
    destruct (c f) as [u|e|]; cbn [bindc negb]; try reflexivity; rewrite fs_append_last; reflexivity end.

Theorem xml_file_code : forall (xs : list entries -> res str) create st mvs file fs,
  fn_XmlFile xs create st mvs file fs = file_writer_spec (xs mvs) create file fs.
Proof. intros xs create st mvs file fs. unfold fn_XmlFile. cbv zeta. writer_proof. Qed.
Print Assumptions xml_file_code.

Theorem xml_file_indent_code : forall (xs : list entries -> str -> str -> res str) create st mvs file prefix indent fs,
  fn_XmlFileIndent xs create st mvs file prefix indent fs = file_writer_spec (xs mvs prefix indent) create file fs.
Proof. intros xs create st mvs file prefix indent fs. unfold fn_XmlFileIndent. cbv zeta. writer_proof. Qed.
Print Assumptions xml_file_indent_code.

Theorem json_file_code : forall (js : list entries -> list bool -> res str) create st mvs file safe fs,
  fn_JsonFile js create st mvs file safe fs = file_writer_spec (js mvs [opt_flag safe]) create file fs.
Proof.
  intros js create st mvs file safe fs. unfold fn_JsonFile. cbv zeta. rewrite flag_select. writer_proof.
Qed.
Print Assumptions json_file_code.

Theorem json_file_indent_code : forall (js : list entries -> str -> str -> list bool -> res str) create st mvs file prefix indent safe fs,
  fn_JsonFileIndent js create st mvs file prefix indent safe fs
  = file_writer_spec (js mvs prefix indent [opt_flag safe]) create file fs.
Proof.
  intros js create st mvs file prefix indent safe fs. unfold fn_JsonFileIndent. cbv zeta. rewrite flag_select. writer_proof.
Qed.
Print Assumptions json_file_indent_code.

(* the model: maps_file gives the new content of the file (None = not touched) and whether an error is returned *)
Definition writer_outcome (r : ctl unit (option err * fslog)) (file : str) (fs : fslog) : option (option bytes * bool) :=
  match r with
  | Ret (None, fs') => match skipn (length fs) fs' with (f, c) :: nil => if str_eqb f file then Some (Some c, false) else None | _ => None end
  | Ret (Some _, fs') => if Nat.eqb (length fs') (length fs) then Some (None, true) else None
  | _ => None
  end.

Theorem file_writer_spec_is_maps_file : forall {M : Type} (enc : M -> option bytes) (indent_json : bool) (ms : list M) (sres : res str) (create : str -> res unit) (file : str) (fs : fslog) (creatable : bool),
  sres = (let (x, err) := maps_string enc indent_json ms in if err then Err EOther else Ok x) ->
  create file = (if creatable then Ok tt else Err EOther) ->
  writer_outcome (file_writer_spec sres create file fs) file fs = Some (maps_file enc indent_json ms creatable).
Proof.
  intros M enc ij ms sres create file fs creatable Hs Hc. unfold maps_file.
  destruct (maps_string enc ij ms) as [x err]. subst sres. destruct err; cbn [file_writer_spec writer_outcome].
  - rewrite Nat.eqb_refl. reflexivity.
  - rewrite Hc. destruct creatable; cbn [writer_outcome].
    + rewrite skipn_app, skipn_all, Nat.sub_diag. cbn [skipn app].
      replace (str_eqb file file) with true; [reflexivity|].
      symmetry. clear. induction file as [|c t IH]; [reflexivity|]. unfold str_eqb in *. cbn. rewrite Ascii.eqb_refl. exact IH.
    + rewrite Nat.eqb_refl. reflexivity.
Qed.
Print Assumptions file_writer_spec_is_maps_file.

Example file_writer_example :
  fn_XmlFile (fun _ => Ok (s "<a/>")) (fun _ => Ok tt) gstate0 [] (s "f.xml") [(s "old", s "x")]
    = Ret (None, [(s "old", s "x"); (s "f.xml", s "<a/>")]) /\
  fn_XmlFile (fun _ => Err EOther) (fun _ => Ok tt) gstate0 [] (s "f.xml") [] = Ret (Some EOther, []) /\
  fn_XmlFile (fun _ => Ok (s "<a/>")) (fun _ => Err EOther) gstate0 [] (s "f.xml") [] = Ret (Some EOther, []).
Proof. repeat split; reflexivity. Qed.
