(* Map.LeafPaths and Map.LeafValues (leafnode.go), as go2v translated them from /repo's CURRENT sources
   (Gen/Pure_gen.v: make([]T, len(ln)), then the counting loop `for i := 0; i < len(ln); i++ { xs[i] = ln[i].F }`):
   the paths / the values of what LeafNodes returns, in the same order - for ANY LeafNodes (a Section variable of the
   translation), so in particular for the translated one (GenProofs/PureG5.v). *)
From Coq Require Import Lia.
From Mxj Require Import Gen.GenSupport Gen.Setters_gen Gen.PureSupport Gen.Pure_gen Model.TreeOps.
From Mxj Require Import GenProofs.PureG3 GenProofs.PureG5.

Lemma lset_fill {A} (pre : list A) z k x :
  lset (pre ++ repeat z (S k)) (length pre) x = (pre ++ [x]) ++ repeat z k.
Proof. induction pre as [|h t IH]; [reflexivity|]. cbn [app length lset]. rewrite IH. reflexivity. Qed.

Lemma nth_error_mid {A} (l1 : list A) x l2 : nth_error (l1 ++ x :: l2) (length l1) = Some x.
Proof. induction l1 as [|h t IH]; [reflexivity|exact IH]. Qed.

(* the loop that fills cell i with (f ln[i]) *)
Section Fill.
  Context {T A R : Type} (f : T -> A) (z : A) (ln : list T).
  Definition fill_body (st_ : Z * list A) : ctl (Z * list A) R :=
    let '(i, xs) := st_ in
    if Z.ltb i (Z.of_nat (length ln))
    then (if Z.ltb i 0 then Crash else
          match nth_error ln (Z.to_nat i) with
          | None => Crash
          | Some e => if (Z.ltb i 0 || Z.leb (Z.of_nat (length xs)) i)%bool then Crash
                      else let xs := lset xs (Z.to_nat i) (f e) in let i := (i + 1)%Z in Next (i, xs)
          end)
    else Brk (i, xs).

  Lemma fill_loop : forall rest done fuel, ln = done ++ rest -> length rest < fuel ->
    for_loop fuel fill_body (Z.of_nat (length done), map f done ++ repeat z (length rest))
    = Next (Z.of_nat (length ln), map f ln).
  Proof.
    induction rest as [|e rest IH]; intros done fuel Hln Hf; (destruct fuel as [|fuel]; [cbn in Hf; lia|]).
    - rewrite app_nil_r in Hln. subst done. cbn [for_loop fill_body length repeat].
      rewrite Z.ltb_irrefl. rewrite app_nil_r. reflexivity.
    - cbn [for_loop fill_body].
      assert (Hlen : length ln = length done + S (length rest)) by (rewrite Hln, app_length; reflexivity).
      replace (Z.ltb (Z.of_nat (length done)) (Z.of_nat (length ln))) with true by (symmetry; apply Z.ltb_lt; lia).
      replace (Z.ltb (Z.of_nat (length done)) 0) with false by (symmetry; apply Z.ltb_ge; lia).
      rewrite Nat2Z.id. rewrite Hln at 1. rewrite nth_error_mid.
      cbn [orb]. rewrite app_length, map_length, repeat_length.
      replace (Z.leb (Z.of_nat (length done + length (e :: rest))) (Z.of_nat (length done))) with false
        by (symmetry; apply Z.leb_gt; cbn [length]; lia).
      cbn [length]. rewrite <- (map_length f done) at 2. rewrite lset_fill.
      replace (Z.of_nat (length done) + 1)%Z with (Z.of_nat (length (done ++ [e]))) by (rewrite app_length; cbn [length]; lia).
      replace (map f done ++ [f e]) with (map f (done ++ [e])) by (rewrite map_app; reflexivity).
      apply IH; [rewrite <- app_assoc; exact Hln|cbn [length] in Hf; lia].
  Qed.
End Fill.

Theorem leaf_paths_code : forall (LeafNodes : entries -> list bool -> list t_LeafNode) st m no_attr,
  fn_LeafPaths LeafNodes st m no_attr = Ret (map LeafNode_Path (LeafNodes m no_attr)).
Proof.
  intros LN st m na. unfold fn_LeafPaths. cbv zeta.
  set (ln := LN m na).
  replace (Z.ltb (Z.of_nat (length ln)) 0) with false by (symmetry; apply Z.ltb_ge; lia).
  rewrite Nat2Z.id.
  change (for_loop ?fuel _ _) with
    (for_loop (S (S (Z.to_nat (Z.of_nat (length ln) - 0 + 1)))) (@fill_body _ _ (list str) LeafNode_Path ln)
       (Z.of_nat (length (@nil t_LeafNode)), map LeafNode_Path [] ++ repeat ([] : str) (length ln))).
  rewrite (fill_loop LeafNode_Path [] ln ln [] _ eq_refl) by lia. reflexivity.
Qed.

Theorem leaf_values_code : forall (LeafNodes : entries -> list bool -> list t_LeafNode) st m no_attr,
  fn_LeafValues LeafNodes st m no_attr = Ret (map LeafNode_Value (LeafNodes m no_attr)).
Proof.
  intros LN st m na. unfold fn_LeafValues. cbv zeta.
  set (ln := LN m na).
  replace (Z.ltb (Z.of_nat (length ln)) 0) with false by (symmetry; apply Z.ltb_ge; lia).
  rewrite Nat2Z.id.
  change (for_loop ?fuel _ _) with
    (for_loop (S (S (Z.to_nat (Z.of_nat (length ln) - 0 + 1)))) (@fill_body _ _ (list value) LeafNode_Value ln)
       (Z.of_nat (length (@nil t_LeafNode)), map LeafNode_Value [] ++ repeat VNil (length ln))).
  rewrite (fill_loop LeafNode_Value VNil ln ln [] _ eq_refl) by lia. reflexivity.
Qed.

(* with the translated LeafNodes plugged in: the paths and the values of the model's leaf nodes, in order *)
Definition run_LeafNodes (st : gstate) (m : entries) (no_attr : list bool) : list t_LeafNode :=
  match fn_LeafNodes (run_getLeafNodes st) st m no_attr with Ret ns => ns | _ => [] end.

Lemma run_LeafNodes_eq st m no_attr :
  map leaf_pair (run_LeafNodes st m no_attr)
  = leaf_nodes (g_attrPrefix st) (g_textK st) (g_useDotNotation st) (VMap m) (match no_attr with [b] => b | _ => false end).
Proof.
  unfold run_LeafNodes. destruct (leaf_nodes_entry_code_is_model st m no_attr) as (ns & E & H). rewrite E. exact H.
Qed.

Theorem leaf_paths_code_is_model : forall st m no_attr,
  exists ps, fn_LeafPaths (run_LeafNodes st) st m no_attr = Ret ps /\
    ps = map fst (leaf_nodes (g_attrPrefix st) (g_textK st) (g_useDotNotation st) (VMap m)
                    (match no_attr with [b] => b | _ => false end)).
Proof.
  intros st m na. eexists. split; [apply leaf_paths_code|].
  rewrite <- run_LeafNodes_eq, map_map. apply map_ext. intros [p v]. reflexivity.
Qed.

Theorem leaf_values_code_is_model : forall st m no_attr,
  exists vs, fn_LeafValues (run_LeafNodes st) st m no_attr = Ret vs /\
    vs = map snd (leaf_nodes (g_attrPrefix st) (g_textK st) (g_useDotNotation st) (VMap m)
                    (match no_attr with [b] => b | _ => false end)).
Proof.
  intros st m na. eexists. split; [apply leaf_values_code|].
  rewrite <- run_LeafNodes_eq, map_map. apply map_ext. intros [p v]. reflexivity.
Qed.
