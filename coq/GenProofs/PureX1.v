(* The eight tree walkers of package x2j (x2j-wrapper: x2j.go, x2j_findPath.go, x2j_valuesAt.go, x2j_valuesFrom.go), as go2v
   translated them from /repo's CURRENT sources (Gen/PureX2j_gen.v: recursion on explicit fuel, the out-parameters
   *[]interface{} / *map[string]bool threaded as state), ARE the hand-written models of Model/X2jWrap.v:
     xfn_hasKey            = xw_has_key (appended to ret)             xfn_ValuesForKey      = xw_values_for_key
     xfn_valuesFromKeyPath = xw_vfkp (appended to ret)                xfn_ValuesFromKeyPath = xw_values_from
     xfn_ValuesAtKeyPath   = xw_values_at
     xfn_hasKeyPath        = the basket with xw_has_key_path put in   xfn_PathsForKey       = a permutation of xw_paths_for_key
     xfn_PathForKeyShortest = xw_shortest_of of what PathsForKey returned.
   The entry points call other functions of the package, which in the translation are Section variables; they are
   instantiated with the TRANSLATED callees (run_x*: the recursive walker run with fuel above the bound of its theorem),
   so the statements are about translated code only. *)
From Coq Require Import Lia Permutation.
From Mxj Require Import Gen.GenSupport Gen.Setters_gen Gen.PureSupport Model.KeyValues Model.X2jWrap Spec.KeySearch.
From Mxj Require Import Proofs.StrLemmas Proofs.C08P Proofs.C20P.
From Mxj Require Import Gen.PureX2j_gen.
From Mxj Require Import GenProofs.PureG2 GenProofs.PureG3 GenProofs.PureG4 GenProofs.PureG5 GenProofs.PureG8 GenProofs.PureG10.

(* ------------------------------------------------------------------ loops that append to ret *)

Lemma loop_app_in {T A} (g : T -> list value) (body : list value -> T -> ctl (list value) A) l :
  (forall r x, In x l -> body r x = Next (r ++ g x)) ->
  forall r, range_loop body l r = Next (r ++ flat_map g l).
Proof.
  induction l as [|x l IH]; intros Hb r.
  - cbn. rewrite app_nil_r. reflexivity.
  - cbn [range_loop flat_map]. rewrite Hb by (left; reflexivity).
    rewrite IH by (intros; apply Hb; right; assumption).
    rewrite <- app_assoc. reflexivity.
Qed.

Lemma loop_app {T A} (g : T -> list value) (body : list value -> T -> ctl (list value) A) :
  (forall r x, body r x = Next (r ++ g x)) ->
  forall l r, range_loop body l r = Next (r ++ flat_map g l).
Proof. intros Hb l r. apply loop_app_in. intros; apply Hb. Qed.

Lemma flat_map_single {A} (l : list A) : flat_map (fun v => [v]) l = l.
Proof. induction l as [|x l IH]; [reflexivity|]. cbn. rewrite IH. reflexivity. Qed.

(* the variadic getAttrs ...bool: the flag is getAttrs[0] when exactly one is given *)
Definition attrs_flag (getAttrs : list bool) : bool := match getAttrs with [b] => b | _ => false end.

Lemma attrs_flag_code (getAttrs : list bool) (A : Type) (K : bool -> ctl unit A) :
  bindc (S := bool)
    (if Z.eqb (Z.of_nat (length getAttrs)) 1
     then match nth_error getAttrs 0 with None => Crash | Some idx1 => Next idx1 end
     else Next false) K = K (attrs_flag getAttrs).
Proof.
  destruct getAttrs as [|b [|b2 t]]; try reflexivity.
  replace (Z.eqb (Z.of_nat (length (b :: b2 :: t))) 1) with false by (symmetry; apply Z.eqb_neq; cbn [length]; lia).
  reflexivity.
Qed.

(* ================================================================== 1. hasKey / ValuesForKey (x2j.go) *)

Theorem xw_has_key_code_is_model : forall iv fuel st key ret,
  vd iv < fuel ->
  xfn_hasKey fuel st iv key ret = Ret (ret ++ xw_has_key iv key).
Proof.
  induction iv as [x|b| |z|z|z|fl|x|mv IHm|l IHl] using value_ind2; intros fuel st key ret Hf;
    (destruct fuel as [|f]; [lia|]); cbn [xfn_hasKey xw_has_key]; cbv zeta;
    try (rewrite app_nil_r; reflexivity).
  - (* a map *)
    assert (Hwalk : forall r (body : list value -> str * value -> ctl (list value) (list value)),
       (forall r' kv, In kv mv -> body r' kv = bindr (xfn_hasKey f st (snd kv) key r') (fun p_ret => Next p_ret)) ->
       range_loop body mv r = Next (r ++ flat_map (fun kv : str * value => xw_has_key (snd kv) key) mv)).
    { intros r body Hb. apply loop_app_in. intros r' kv Hin. rewrite Hb by exact Hin.
      rewrite Forall_forall in IHm. rewrite (IHm kv Hin) by (pose proof (vd_entry kv mv Hin); lia). reflexivity. }
    destruct (lookup key mv) as [v0|]; cbn [bindc].
    + rewrite Hwalk by (intros r' [k v] _; reflexivity). cbn [bindc]. rewrite <- app_assoc. reflexivity.
    + rewrite Hwalk by (intros r' [k v] _; reflexivity). reflexivity.
  - (* a list *)
    rewrite (loop_app_in (fun v => xw_has_key v key)).
    2:{ intros r v Hin. rewrite Forall_forall in IHl.
        rewrite (IHl v Hin) by (pose proof (vd_member v l Hin); lia). reflexivity. }
    reflexivity.
Qed.

Corollary xw_has_key_code_no_panic : forall iv fuel st key ret, vd iv < fuel -> xfn_hasKey fuel st iv key ret <> Crash.
Proof. intros. rewrite xw_has_key_code_is_model by assumption. discriminate. Qed.

(* ValuesForKey, for ANY hasKey: what hasKey put into the (empty) ret; nil when that is empty *)
Theorem xw_values_for_key_entry_code : forall (hasKey : value -> str -> list value -> list value) st m key,
  xfn_ValuesForKey hasKey st m key = Ret (hasKey (VMap m) key []).
Proof.
  intros HK st m key. unfold xfn_ValuesForKey. cbv zeta.
  destruct (HK (VMap m) key []) as [|v0 r]; [reflexivity|].
  replace (Z.gtb (Z.of_nat (length (v0 :: r))) 0) with true by (symmetry; apply Z.gtb_lt; cbn [length]; lia).
  reflexivity.
Qed.

(* the translated hasKey as a function *)
Definition run_xhasKey (st : gstate) (iv : value) (key : str) (ret : list value) : list value :=
  match xfn_hasKey (S (vd iv)) st iv key ret with Ret r => r | _ => ret end.

Lemma run_xhasKey_eq st iv key ret : run_xhasKey st iv key ret = ret ++ xw_has_key iv key.
Proof. unfold run_xhasKey. rewrite xw_has_key_code_is_model by lia. reflexivity. Qed.

Theorem xw_values_for_key_code_is_model : forall st m key,
  xfn_ValuesForKey (run_xhasKey st) st m key = Ret (xw_values_for_key (VMap m) key).
Proof. intros st m key. rewrite xw_values_for_key_entry_code, run_xhasKey_eq. reflexivity. Qed.

(* ================================================================== 2. valuesFromKeyPath / ValuesFromKeyPath / ValuesAtKeyPath *)

Theorem xw_vfkp_code_is_model : forall keys fuel st ret m getAttrs,
  length keys < fuel ->
  xfn_valuesFromKeyPath fuel st ret m keys getAttrs = Ret (ret ++ xw_vfkp keys getAttrs m).
Proof.
  induction keys as [|key rest IH]; intros fuel st ret m ga Hf;
    (destruct fuel as [|f]; [lia|]); cbn [xfn_valuesFromKeyPath]; cbv zeta.
  - (* end of path *)
    cbn [length Z.of_nat Z.eqb bindc xw_vfkp].
    destruct m as [x|b| |z|z|z|fl|x|mv|l]; cbn [bindc]; try reflexivity.
    rewrite (loop_app (fun v : value => [v])) by (intros; reflexivity).
    cbn [bindc]. rewrite flat_map_single. reflexivity.
  - (* a key *)
    cbn [length] in Hf.
    replace (Z.eqb (Z.of_nat (length (key :: rest))) 0) with false by (symmetry; apply Z.eqb_neq; cbn [length]; lia).
    cbn [bindc nth_error length Nat.ltb Nat.leb skipn existsb]. rewrite Bool.orb_false_r.
    change (s "*") with star.
    assert (IH' : forall r v, xfn_valuesFromKeyPath f st r v rest ga = Ret (r ++ xw_vfkp rest ga v))
      by (intros; apply IH; lia).
    cbn [xw_vfkp].
    set (entry := fun kv : str * value => if xw_skip_attr (fst kv) ga then [] else xw_vfkp rest ga (snd kv)).
    assert (Hentry : forall (r : list value) (kv : str * value),
      (let '(l_k, l_v) := kv in
       if go_has_prefix l_k (s "-")
       then if ga
            then bindr (xfn_valuesFromKeyPath f st r l_v rest ga) (fun p_ret => (Next p_ret : ctl (list value) (list value)))
            else Next r
       else bindr (xfn_valuesFromKeyPath f st r l_v rest ga) (fun p_ret => Next p_ret))
      = Next (r ++ entry kv)).
    { intros r [k v]. unfold entry, xw_skip_attr, go_has_prefix. cbn [fst snd]. change (s "-") with [hyphen].
      destruct (prefixb [hyphen] k); cbn [andb]; [destruct ga; cbn [negb]|]; rewrite ?IH', ?app_nil_r; reflexivity. }
    destruct (str_eqb key star).
    + destruct m as [x|b| |z|z|z|fl|x|mv|l]; try (rewrite app_nil_r; reflexivity).
      * rewrite (loop_app entry) by (intros r kv; apply Hentry). reflexivity.
      * rewrite (loop_app (fun v => match v with
                                    | VMap mm => flat_map entry mm
                                    | _ => xw_vfkp rest ga v end)); [reflexivity|].
        intros r v. destruct v as [x|b| |z|z|z|fl|x|mm|l']; try (rewrite IH'; reflexivity).
        rewrite (loop_app entry) by (intros r' kv; apply Hentry). reflexivity.
    + destruct m as [x|b| |z|z|z|fl|x|mv|l]; try (rewrite app_nil_r; reflexivity).
      * destruct (lookup key mv) as [v|]; [rewrite IH'; reflexivity|]. rewrite app_nil_r. reflexivity.
      * rewrite (loop_app (fun v => match v with
                                    | VMap mm => match lookup key mm with Some vv => xw_vfkp rest ga vv | None => [] end
                                    | _ => [] end)); [reflexivity|].
        intros r v. destruct v as [x|b| |z|z|z|fl|x|mm|l']; try (rewrite app_nil_r; reflexivity).
        destruct (lookup key mm) as [vv|]; [rewrite IH'; reflexivity|]. rewrite app_nil_r. reflexivity.
Qed.

Corollary xw_vfkp_code_no_panic : forall keys fuel st ret m getAttrs,
  length keys < fuel -> xfn_valuesFromKeyPath fuel st ret m keys getAttrs <> Crash.
Proof. intros. rewrite xw_vfkp_code_is_model by assumption. discriminate. Qed.

(* the translated valuesFromKeyPath as a function *)
Definition run_xvaluesFromKeyPath (st : gstate) (ret : list value) (m : value) (keys : list str) (getAttrs : bool) : list value :=
  match xfn_valuesFromKeyPath (S (length keys)) st ret m keys getAttrs with Ret r => r | _ => ret end.

Lemma run_xvaluesFromKeyPath_eq st ret m keys ga :
  run_xvaluesFromKeyPath st ret m keys ga = ret ++ xw_vfkp keys ga m.
Proof. unfold run_xvaluesFromKeyPath. rewrite xw_vfkp_code_is_model by lia. reflexivity. Qed.

(* ValuesFromKeyPath, for ANY valuesFromKeyPath *)
Theorem xw_values_from_entry_code :
  forall (vfk : list value -> value -> list str -> bool -> list value) st m path getAttrs,
  xfn_ValuesFromKeyPath vfk st m path getAttrs = Ret (vfk [] (VMap m) (split1 dot path) (attrs_flag getAttrs)).
Proof.
  intros vfk st m path ga. unfold xfn_ValuesFromKeyPath. cbv zeta. rewrite attrs_flag_code.
  change (s ".") with [dot]. rewrite go_split_single.
  destruct (vfk [] (VMap m) (split1 dot path) (attrs_flag ga)) as [|v0 r]; [reflexivity|].
  replace (Z.eqb (Z.of_nat (length (v0 :: r))) 0) with false by (symmetry; apply Z.eqb_neq; cbn [length]; lia).
  reflexivity.
Qed.

Theorem xw_values_from_code_is_model : forall st m path getAttrs,
  xfn_ValuesFromKeyPath (run_xvaluesFromKeyPath st) st m path getAttrs
  = Ret (xw_values_from (VMap m) path (attrs_flag getAttrs)).
Proof. intros. rewrite xw_values_from_entry_code, run_xvaluesFromKeyPath_eq. reflexivity. Qed.

(* ValuesAtKeyPath: the scan of ret for a map that has the last key *)
Lemma at_loop (key : str) (R : list value) (body : unit -> value -> ctl unit (list value)) :
  (forall v, body tt v = if xw_map_has key v then Ret R else Next tt) ->
  forall l, range_loop body l tt = if existsb (xw_map_has key) l then Ret R else Next tt.
Proof.
  intros Hb. induction l as [|v l IH]; [reflexivity|].
  cbn [range_loop existsb]. rewrite Hb. destruct (xw_map_has key v); [reflexivity|apply IH].
Qed.

Theorem xw_values_at_code_is_model : forall st m path getAttrs,
  xfn_ValuesAtKeyPath (run_xvaluesFromKeyPath st) st m path getAttrs
  = Ret (xw_values_at (VMap m) path (attrs_flag getAttrs)).
Proof.
  intros st m path ga. unfold xfn_ValuesAtKeyPath, xw_values_at. cbv zeta. rewrite attrs_flag_code.
  change (s ".") with [dot]. rewrite go_split_single. change (s "*") with star.
  set (a := attrs_flag ga). set (keys := split1 dot path).
  pose proof (split1_nonempty dot path) as Hne. fold keys in Hne.
  assert (Hlast : nth_error keys (Z.to_nat (Z.of_nat (length keys) - 1)) = Some (last keys [])).
  { replace (Z.to_nat (Z.of_nat (length keys) - 1)) with (length keys - 1) by lia. apply last_nth. exact Hne. }
  assert (Hpos : Z.ltb (Z.of_nat (length keys) - 1) 0 = false).
  { apply Z.ltb_ge. destruct keys; [congruence|cbn [length]; lia]. }
  (* the tail of the function, once ret (non-empty) is known *)
  assert (Htail : forall ret : list value, ret <> [] ->
    (if Z.ltb (Z.of_nat (length keys) - 1) 0 then (Crash : ctl unit (list value))
     else match nth_error keys (Z.to_nat (Z.of_nat (length keys) - 1)) with
          | None => Crash
          | Some idx2 =>
              bindc (S := unit) (if str_eqb idx2 star then Ret ret else Next tt)
                (fun _ => bindc (S := unit)
                   (range_loop (fun (st_ : unit) (el_ : value) =>
                      (match el_ with
                       | VMap _ => match el_ with
                                   | VMap as3 => let '(_, l_ok) := match lookup idx2 as3 with Some v => (v, true) | None => (VNil, false) end in
                                                 if l_ok then Ret ret else Next tt
                                   | _ => Crash end
                       | _ => Next tt end : ctl unit (list value))) ret tt)
                   (fun _ => Ret ([] : list value)))
          end)
    = Ret (match ret with
           | [] => []
           | _ => if str_eqb (last keys []) star then ret
                  else if existsb (xw_map_has (last keys [])) ret then ret else []
           end)).
  { intros ret Hret. rewrite Hpos, Hlast.
    destruct ret as [|r0 ret']; [congruence|]. set (ret := r0 :: ret').
    destruct (str_eqb (last keys []) star); cbn [bindc]; [reflexivity|].
    rewrite (at_loop (last keys []) ret).
    - destruct (existsb (xw_map_has (last keys [])) ret); reflexivity.
    - intros v. destruct v as [x|b| |z|z|z|fl|x|mm|l']; try reflexivity.
      cbn [xw_map_has]. unfold has_key. destruct (lookup (last keys []) mm); reflexivity. }
  destruct keys as [|k0 [|k1 ks]] eqn:Ek; [congruence| |].
  - (* one key: ret = [m] *)
    cbn [length Z.of_nat Z.gtb Z.compare Pos.of_succ_nat bindc app].
    apply (Htail [VMap m]). discriminate.
  - (* several keys *)
    replace (Z.gtb (Z.of_nat (length (k0 :: k1 :: ks))) 1) with true by (symmetry; apply Z.gtb_lt; cbn [length]; lia).
    rewrite Hpos.
    replace (Z.ltb (Z.of_nat (length (k0 :: k1 :: ks))) (Z.of_nat (length (k0 :: k1 :: ks)) - 1)) with false
      by (symmetry; apply Z.ltb_ge; lia).
    cbn [orb].
    replace (Z.to_nat (Z.of_nat (length (k0 :: k1 :: ks)) - 1)) with (pred (length (k0 :: k1 :: ks))) by lia.
    rewrite <- removelast_firstn_len. rewrite run_xvaluesFromKeyPath_eq. cbn [app].
    destruct (xw_vfkp (removelast (k0 :: k1 :: ks)) a (VMap m)) as [|r0 ret'] eqn:Er; [reflexivity|].
    replace (Z.eqb (Z.of_nat (length (r0 :: ret'))) 0) with false by (symmetry; apply Z.eqb_neq; cbn [length]; lia).
    cbn [bindc].
    replace (pred (length (k0 :: k1 :: ks))) with (Z.to_nat (Z.of_nat (length (k0 :: k1 :: ks)) - 1)) by lia.
    specialize (Htail (r0 :: ret') ltac:(discriminate)). rewrite Hpos in Htail. exact Htail.
Qed.

(* ================================================================== 3. hasKeyPath / PathsForKey / PathForKeyShortest *)

Theorem xw_has_key_path_code_is_model : forall iv fuel st crumb0 key basket,
  vd iv < fuel ->
  xfn_hasKeyPath fuel st crumb0 iv key basket = Ret (bins (xw_has_key_path crumb0 iv key) basket).
Proof.
  induction iv as [x|b| |z|z|z|fl|x|mv IHm|l IHl] using value_ind2; intros fuel st crumbs key basket Hf;
    (destruct fuel as [|f]; [lia|]); cbn [xfn_hasKeyPath xw_has_key_path]; cbv zeta; try reflexivity.
  - (* a map *)
    unfold has_key. rewrite bins_app.
    assert (Hwalk : forall b0 (body : list (str * bool) -> str * value -> ctl (list (str * bool)) (list (str * bool))),
       (forall b1 kv, In kv mv -> body b1 kv = bindr (xfn_hasKeyPath f st (crumb crumbs (fst kv)) (snd kv) key b1) (fun p_basket => Next p_basket)) ->
       range_loop body mv b0 = Next (bins (flat_map (fun kv : str * value => xw_has_key_path (crumb crumbs (fst kv)) (snd kv) key) mv) b0)).
    { intros b0 body Hb. apply loop_bins. intros b1 kv Hin. rewrite Hb by exact Hin.
      rewrite Forall_forall in IHm. rewrite (IHm kv Hin) by (pose proof (vd_entry kv mv Hin); lia). reflexivity. }
    assert (Hbody : forall b1 (kv : str * value),
       (let '(l_k, l_v) := kv in
        bindc (S := str) (if str_eqb crumbs [] then Next l_k else Next ((crumbs ++ s ".") ++ l_k))
          (fun l_nbc : str => bindr (xfn_hasKeyPath f st l_nbc l_v key b1) (fun p_basket => (Next p_basket : ctl (list (str * bool)) (list (str * bool))))))
       = bindr (xfn_hasKeyPath f st (crumb crumbs (fst kv)) (snd kv) key b1) (fun p_basket => Next p_basket)).
    { intros b1 [k v]. cbn [fst snd]. unfold crumb. change (s ".") with sdot.
      destruct crumbs; cbn [str_eqb bindc]; [reflexivity|]. rewrite <- app_assoc. reflexivity. }
    destruct (lookup key mv) as [v|]; cbn [bindc bins fold_left].
    + unfold crumb at 1. change (s ".") with sdot.
      destruct crumbs as [|c0 cr]; cbn [str_eqb negb bindc];
        (rewrite Hwalk by (intros b1 kv _; apply Hbody)); cbn [bindc]; rewrite <- ?app_assoc; reflexivity.
    + rewrite Hwalk by (intros b1 kv _; apply Hbody). reflexivity.
  - (* a list *)
    rewrite (loop_bins (fun v => xw_has_key_path crumbs v key)).
    2:{ intros b1 v Hin. rewrite Forall_forall in IHl.
        rewrite (IHl v Hin) by (pose proof (vd_member v l Hin); lia). reflexivity. }
    reflexivity.
Qed.

Corollary xw_has_key_path_code_no_panic : forall iv fuel st crumb0 key basket,
  vd iv < fuel -> xfn_hasKeyPath fuel st crumb0 iv key basket <> Crash.
Proof. intros. rewrite xw_has_key_path_code_is_model by assumption. discriminate. Qed.

(* the keys of the final basket are distinct and are a permutation of the model's xw_paths_for_key *)
Theorem xw_paths_for_key_code_perm : forall m fuel st key,
  vd m < fuel ->
  exists basket, xfn_hasKeyPath fuel st [] m key [] = Ret basket /\
                 NoDup (map fst basket) /\
                 Permutation (map fst basket) (xw_paths_for_key m key).
Proof.
  intros m fuel st key Hf. exists (bins (xw_has_key_path [] m key) []).
  split; [apply xw_has_key_path_code_is_model; exact Hf|].
  assert (Hnd : NoDup (map fst (bins (xw_has_key_path [] m key) []))) by (apply bins_keys_nodup; constructor).
  split; [exact Hnd|].
  apply NoDup_Permutation.
  - exact Hnd.
  - apply dedup_nodup.
  - intros k. unfold xw_paths_for_key. rewrite bins_keys_in, dedup_in. cbn [map In]. tauto.
Qed.

(* PathsForKey, for ANY hasKeyPath: the keys of the basket, in the basket's iteration order; nil for an empty basket *)
Theorem xw_paths_for_key_entry_code :
  forall (hasKeyPath : str -> value -> str -> list (str * bool) -> list (str * bool)) st m key,
  xfn_PathsForKey hasKeyPath st m key = Ret (map fst (hasKeyPath [] (VMap m) key [])).
Proof.
  intros HKP st m key. unfold xfn_PathsForKey. cbv zeta.
  generalize (HKP [] (VMap m) key []). intros basket.
  destruct basket as [|e b']; [reflexivity|].
  replace (Z.eqb (Z.of_nat (length (e :: b'))) 0) with false by (symmetry; apply Z.eqb_neq; cbn [length]; lia).
  cbn [bindc].
  replace (Z.ltb (Z.of_nat (length (e :: b'))) 0) with false by (symmetry; apply Z.ltb_ge; lia).
  rewrite Nat2Z.id.
  change (range_loop _ (e :: b') _) with
    (range_loop (@copy_body (list str)) (e :: b')
       (map fst (@nil (str * bool)) ++ repeat ([] : str) (length (e :: b')), Z.of_nat (length (@nil (str * bool))))).
  rewrite copy_loop. reflexivity.
Qed.

(* the translated hasKeyPath as a function *)
Definition run_xhasKeyPath (st : gstate) (crumb0 : str) (iv : value) (key : str) (basket : list (str * bool)) : list (str * bool) :=
  match xfn_hasKeyPath (S (vd iv)) st crumb0 iv key basket with Ret r => r | _ => basket end.

Lemma run_xhasKeyPath_eq st crumb0 iv key basket :
  run_xhasKeyPath st crumb0 iv key basket = bins (xw_has_key_path crumb0 iv key) basket.
Proof. unfold run_xhasKeyPath. rewrite xw_has_key_path_code_is_model by lia. reflexivity. Qed.

Theorem xw_paths_for_key_code_is_model : forall st m key,
  exists ps, xfn_PathsForKey (run_xhasKeyPath st) st m key = Ret ps /\
             NoDup ps /\ Permutation ps (xw_paths_for_key (VMap m) key).
Proof.
  intros st m key. eexists. split; [apply xw_paths_for_key_entry_code|].
  unfold run_xhasKeyPath.
  destruct (xw_paths_for_key_code_perm (VMap m) (S (vd (VMap m))) st key) as (basket & E & Hnd & HP); [lia|].
  rewrite E. split; [exact Hnd|exact HP].
Qed.

(* PathForKeyShortest, for ANY PathsForKey: the model's loop over what PathsForKey returned *)
Theorem xw_shortest_code_is_model : forall (PathsForKey : entries -> str -> list str) st m key,
  xfn_PathForKeyShortest PathsForKey st m key = Ret (xw_shortest_of (PathsForKey m key)).
Proof.
  intros ext st m key. rewrite xw_shortest_of_spec. unfold xfn_PathForKeyShortest. cbv zeta.
  destruct (ext m key) as [|p [|q ps]]; try reflexivity.
  replace (Z.eqb (Z.of_nat (length (p :: q :: ps))) 0) with false by (symmetry; apply Z.eqb_neq; cbn [length]; lia).
  replace (Z.eqb (Z.of_nat (length (p :: q :: ps))) 1) with false by (symmetry; apply Z.eqb_neq; cbn [length]; lia).
  cbn [bindc nth_error skipn].
  match goal with |- context [range_loop ?f _ _] => rewrite (shortest_loop f) end; [reflexivity|].
  intros best x. cbv zeta. rewrite seg_lt. destruct (seg_count x <? seg_count best); reflexivity.
Qed.

Corollary xw_shortest_code_no_panic : forall ext st m key, xfn_PathForKeyShortest ext st m key <> Crash.
Proof. intros. rewrite xw_shortest_code_is_model. discriminate. Qed.

(* the translated PathsForKey as a function, and the whole chain of translated code *)
Definition run_xPathsForKey (st : gstate) (m : entries) (key : str) : list str :=
  match xfn_PathsForKey (run_xhasKeyPath st) st m key with Ret ps => ps | _ => [] end.

Lemma run_xPathsForKey_eq st m key : run_xPathsForKey st m key = map fst (bins (xw_has_key_path [] (VMap m) key) []).
Proof. unfold run_xPathsForKey. rewrite xw_paths_for_key_entry_code, run_xhasKeyPath_eq. reflexivity. Qed.

Theorem xw_path_for_key_shortest_code_is_model : forall st m key,
  exists ps, xfn_PathsForKey (run_xhasKeyPath st) st m key = Ret ps /\
             Permutation ps (xw_paths_for_key (VMap m) key) /\
             xfn_PathForKeyShortest (run_xPathsForKey st) st m key = Ret (xw_shortest_of ps).
Proof.
  intros st m key. destruct (xw_paths_for_key_code_is_model st m key) as (ps & E & _ & HP).
  exists ps. split; [exact E|]. split; [exact HP|].
  rewrite xw_shortest_code_is_model. unfold run_xPathsForKey. rewrite E. reflexivity.
Qed.

(* ------------------------------------------------------------------ non-vacuity: a concrete Map run through the translated code *)
Local Open Scope string_scope.
Definition x1_map : entries :=
  [(s "a", VMap [(s "b", VStr (s "x")); (s "-c", VInt 1); (s "a", VList [VMap [(s "b", VInt 2)]; VStr (s "q")])]);
   (s "b", VList [VMap [(s "a", VNil); (s "b", VBool true)]; VMap [(s "b", VList [VInt 3; VInt 4])]])].

Example x1_values_for_key :
  xfn_ValuesForKey (run_xhasKey gstate0) gstate0 x1_map (s "b")
  = Ret [VList [VMap [(s "a", VNil); (s "b", VBool true)]; VMap [(s "b", VList [VInt 3; VInt 4])]];
         VStr (s "x"); VInt 2; VBool true; VList [VInt 3; VInt 4]].
Proof. vm_compute. reflexivity. Qed.
Example x1_values_from :
  xfn_ValuesFromKeyPath (run_xvaluesFromKeyPath gstate0) gstate0 x1_map (s "a.*") [true]
  = Ret [VStr (s "x"); VInt 1; VMap [(s "b", VInt 2)]; VStr (s "q")]
  /\ xfn_ValuesFromKeyPath (run_xvaluesFromKeyPath gstate0) gstate0 x1_map (s "a.*") []
  = Ret [VStr (s "x"); VMap [(s "b", VInt 2)]; VStr (s "q")].
Proof. vm_compute. split; reflexivity. Qed.
Example x1_values_at :
  xfn_ValuesAtKeyPath (run_xvaluesFromKeyPath gstate0) gstate0 x1_map (s "b.b") []
  = Ret [VMap [(s "a", VNil); (s "b", VBool true)]; VMap [(s "b", VList [VInt 3; VInt 4])]]
  /\ xfn_ValuesAtKeyPath (run_xvaluesFromKeyPath gstate0) gstate0 x1_map (s "a.zz") [] = Ret [].
Proof. vm_compute. split; reflexivity. Qed.
Example x1_paths :
  xfn_PathsForKey (run_xhasKeyPath gstate0) gstate0 x1_map (s "b") = Ret [s "b"; s "a.b"; s "a.a.b"; s "b.b"]
  /\ xfn_PathForKeyShortest (run_xPathsForKey gstate0) gstate0 x1_map (s "b") = Ret (s "b").
Proof. vm_compute. split; reflexivity. Qed.
