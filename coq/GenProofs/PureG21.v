(* The in-place updaters of updatevalues.go as go2v translated them in write-back mode from /repo's CURRENT sources
   (Gen/Pure_gen.v: fn_updateValueForKey, fn_updateValue, fn_updateValuesForKeyPath, fn_UpdateValuesForPath) ARE the
   functional model of Model/TreeOps.v (update_value_key / upd_members, update_value, update_kp,
   update_values_for_path): the returned tree is the model's tree, the returned counter is the counter given plus the
   model's count.  Callees are plugged in as run_ wrappers of the translated callees themselves. *)
From Coq Require Import Lia.
From Mxj Require Import Gen.GenSupport Gen.Setters_gen Gen.PureSupport Model.KeyValues Model.TreeOps.
From Mxj Require Import Proofs.StrLemmas Proofs.KVTotal GenProofs.PureG GenProofs.PureG2 GenProofs.PureG3 GenProofs.PureG5.
From Mxj Require Import Gen.Pure_gen.

(* ------------------------------------------------------------------ loops that rebuild their collection *)

(* one pass over a collection: every element replaced by its update, the updates counted *)
Definition rebuild {T} (g : T -> T * nat) (l : list T) : list T * nat :=
  fold_right (fun el acc => (fst (g el) :: fst acc, snd (g el) + snd acc)) ([], 0) l.

Lemma loop_rebuild {X T A} (g : T -> T * nat) (body : X * Z * list T -> T -> ctl (X * Z * list T) A) :
  (forall x c rb el, body (x, c, rb) el = Next (x, (c + Z.of_nat (snd (g el)))%Z, rb ++ [fst (g el)])) ->
  forall l x c rb, range_loop body l (x, c, rb)
                   = Next (x, (c + Z.of_nat (snd (rebuild g l)))%Z, rb ++ fst (rebuild g l)).
Proof.
  intros Hb. induction l as [|el l IH]; intros x c rb.
  - cbn. rewrite app_nil_r, Z.add_0_r. reflexivity.
  - cbn [range_loop]. rewrite Hb, IH. cbn [rebuild fold_right fst snd]. fold (rebuild g l).
    rewrite <- app_assoc, Nat2Z.inj_add, Z.add_assoc. reflexivity.
Qed.

Lemma rebuild_cons {T} (g : T -> T * nat) el l :
  rebuild g (el :: l) = (fst (g el) :: fst (rebuild g l), snd (g el) + snd (rebuild g l)).
Proof. reflexivity. Qed.

Lemma upd_list_rebuild f l : upd_list f l = rebuild f l.
Proof.
  induction l as [|v l IH]; [reflexivity|].
  change (upd_list f (v :: l)) with (let '(v', n) := f v in let '(t, k) := upd_list f l in (v' :: t, n + k)).
  rewrite IH, rebuild_cons. destruct (f v), (rebuild f l). reflexivity.
Qed.

Definition on_snd (f : value -> value * nat) (kv : str * value) : (str * value) * nat :=
  ((fst kv, fst (f (snd kv))), snd (f (snd kv))).

Lemma upd_vals_rebuild f m : upd_vals f m = rebuild (on_snd f) m.
Proof.
  induction m as [|kv m IH]; [reflexivity|].
  change (upd_vals f (kv :: m)) with (let '(v', n) := f (snd kv) in let '(t, k) := upd_vals f m in ((fst kv, v') :: t, n + k)).
  rewrite IH, rebuild_cons. destruct (rebuild (on_snd f) m) as [t k]. unfold on_snd. cbn [fst snd].
  destruct (f (snd kv)). reflexivity.
Qed.

(* the update of one list member by updateValueForKey *)
Definition member_upd (key : str) (value : value) (sk : entries) (v : Value.value) : Value.value * nat :=
  match v with
  | VMap mm => if has_key key mm && has_sub_keys v sk then (VMap (set key value mm), 1) else (v, 0)
  | _ => (v, 0)
  end.

Lemma upd_members_rebuild key value sk l : upd_members key value sk l = rebuild (member_upd key value sk) l.
Proof.
  induction l as [|v l IH]; [reflexivity|]. cbn [upd_members]. rewrite rebuild_cons.
  rewrite IH. destruct (rebuild (member_upd key value sk) l) as [t' n]. cbn [fst snd].
  destruct v as [x|b| |z|z|z|fl|x|mm|l']; cbn [member_upd fst snd]; try reflexivity.
  destruct (has_key key mm && has_sub_keys (VMap mm) sk); reflexivity.
Qed.

Lemma set_lookup_same k v m : lookup k m = Some v -> set k v m = m.
Proof.
  induction m as [|[k' v'] m IH]; cbn [lookup set]; [discriminate|].
  destruct (str_eqb k k') eqn:E; intros H.
  - injection H as ->. reflexivity.
  - rewrite IH by exact H. reflexivity.
Qed.

(* ------------------------------------------------------------------ 1. updateValueForKey *)

(* the model of updateValueForKey: one literal last key *)
Definition update_value_for_key (key : str) (value : value) (m : Value.value) (keys0 : str) (sk : entries) : Value.value * nat :=
  match m with
  | VMap mm => let '(mm', n) := update_value_key key value mm keys0 sk in (VMap mm', n)
  | VList l => let '(l', n) := upd_members key value sk l in (VList l', n)
  | _ => (m, 0)
  end.

Definition ures (cnt : Z) (r : value * nat) : ctl unit (value * Z) := Ret (fst r, (cnt + Z.of_nat (snd r))%Z).

(* the loop that replaces the matching members of the list at keys0 by the new value *)
Lemma loop_replace {A} (p : value -> bool) (value : value)
      (body : list Value.value * bool * Z -> Value.value -> ctl (list Value.value * bool * Z) A) :
  (forall nv vm c v, body (nv, vm, c) v = if p v then Next (nv ++ [value], true, (c + 1)%Z) else Next (nv ++ [v], vm, c)) ->
  forall l nv vm c, range_loop body l (nv, vm, c)
    = Next (nv ++ map (fun v => if p v then value else v) l,
            match filter p l with [] => vm | _ => true end,
            (c + Z.of_nat (length (filter p l)))%Z).
Proof.
  intros Hb. induction l as [|v l IH]; intros nv vm c.
  - cbn. rewrite app_nil_r, Z.add_0_r. reflexivity.
  - cbn [range_loop map filter]. rewrite Hb. destruct (p v); rewrite IH, <- app_assoc; cbn [app length].
    + destruct (filter p l); f_equal; f_equal; lia.
    + reflexivity.
Qed.

Theorem update_value_for_key_code_is_model_gen : forall hsk, (forall v s, hsk v s = has_sub_keys v s) ->
  forall st key value m keys0 sk cnt,
  fn_updateValueForKey hsk st key value m keys0 sk cnt = ures cnt (update_value_for_key key value m keys0 sk).
Proof.
  intros hsk Hh st key value m keys0 sk cnt. unfold fn_updateValueForKey, ures.
  destruct m as [x|b| |z|z|z|fl|x|mm|l]; cbn [update_value_for_key fst snd]; rewrite ?Z.add_0_r; try reflexivity.
  - (* a map *)
    cbv zeta. unfold update_value_key.
    destruct (str_eqb key keys0) eqn:Ek.
    + (* the new value's key is the last key *)
      destruct (lookup keys0 mm) as [ev|] eqn:El.
      * destruct ev as [x|b| |z|z|z|fl|x|em|el]; rewrite ?Hh;
          try (destruct (has_sub_keys (VMap mm) sk); cbn [fst snd]; rewrite ?Z.add_0_r; reflexivity).
        destruct (has_sub_keys (VMap mm) sk); [reflexivity|].
        match goal with |- context [range_loop ?body _ _] =>
          rewrite (loop_replace (fun v => has_sub_keys v sk) value body) end.
        -- cbn [bindc app]. destruct (filter (fun v => has_sub_keys v sk) el); cbn [fst snd length]; rewrite ?Z.add_0_r; reflexivity.
        -- intros nv vm c v. rewrite Hh. destruct (has_sub_keys v sk); reflexivity.
      * rewrite Hh. destruct (has_sub_keys (VMap mm) sk); cbn [fst snd]; rewrite ?Z.add_0_r; reflexivity.
    + (* the new value's key is a key of the value at the last key *)
      destruct (lookup keys0 mm) as [ev|] eqn:El; [|cbn [fst snd]; rewrite Z.add_0_r; reflexivity].
      destruct ev as [x|b| |z|z|z|fl|x|em|el]; cbn [fst snd]; rewrite ?Z.add_0_r; try reflexivity.
      * rewrite Hh. destruct (has_sub_keys (VMap em) sk); cbn [bindc andb]; [|rewrite Z.add_0_r; reflexivity].
        unfold has_key. destruct (lookup key em); cbn [fst snd]; rewrite ?Z.add_0_r; reflexivity.
      * match goal with |- context [range_loop ?body _ _] =>
          rewrite (loop_rebuild (member_upd key value sk) body) end.
        -- cbn [bindc app]. rewrite upd_members_rebuild.
           destruct (rebuild (member_upd key value sk) el) as [l' n] eqn:Er. cbn [fst snd].
           destruct n as [|n]; cbn [fst snd]; [|reflexivity].
           (* nothing changed: the write-back stores the list it read *)
           assert (Hl : l' = el).
           { clear - Er. revert l' Er. induction el as [|v el IH]; intros l' Er; cbn [rebuild fold_right] in Er.
             - injection Er as <-. reflexivity.
             - fold (rebuild (member_upd key value sk) el) in Er.
               destruct (rebuild (member_upd key value sk) el) as [t k]. cbn [fst snd] in Er.
               injection Er as <- Hn. assert (k = 0) by lia. subst k. rewrite (IH t eq_refl). f_equal.
               destruct v as [x|b| |z|z|z|fl|x|mm|l']; cbn [member_upd fst snd] in *; try reflexivity.
               destruct (has_key key mm && has_sub_keys (VMap mm) sk); cbn [fst snd] in *; [lia|reflexivity]. }
           subst l'. rewrite set_lookup_same by exact El. reflexivity.
        -- intros [ev pm] c rb v. destruct v as [x|b| |z|z|z|fl|x|vm|l']; cbn [member_upd fst snd]; rewrite ?Z.add_0_r; try reflexivity.
           unfold has_key. destruct (lookup key vm); cbn [andb fst snd]; rewrite ?Z.add_0_r; [|reflexivity].
           rewrite Hh. destruct (has_sub_keys (VMap vm) sk); cbn [fst snd]; rewrite ?Z.add_0_r; reflexivity.
  - (* a list *)
    cbv zeta.
    match goal with |- context [range_loop ?body _ _] =>
      rewrite (loop_rebuild (member_upd key value sk) body) end.
    + cbn [bindc app]. rewrite upd_members_rebuild. destruct (rebuild (member_upd key value sk) l). reflexivity.
    + intros pm c rb v. destruct v as [x|b| |z|z|z|fl|x|vm|l']; cbn [member_upd fst snd]; rewrite ?Z.add_0_r; try reflexivity.
      unfold has_key. destruct (lookup key vm); cbn [andb fst snd]; rewrite ?Z.add_0_r; [|reflexivity].
      rewrite Hh. destruct (has_sub_keys (VMap vm) sk); cbn [fst snd]; rewrite ?Z.add_0_r; reflexivity.
Qed.

Theorem update_value_for_key_code_is_model : forall st key value m keys0 sk cnt,
  fn_updateValueForKey has_sub_keys st key value m keys0 sk cnt = ures cnt (update_value_for_key key value m keys0 sk).
Proof. apply update_value_for_key_code_is_model_gen. reflexivity. Qed.

(* the translated updateValueForKey (with the translated hasSubKeys plugged in) as a function *)
Definition run_updateValueForKey (st : gstate) (key : str) (newv m : value) (keys0 : str) (sk : entries) (cnt : Z) : value * Z :=
  match fn_updateValueForKey (run_hasSubKeys st) st key newv m keys0 sk cnt with Ret r => r | _ => (m, cnt) end.

Definition upair (cnt : Z) (r : value * nat) : value * Z := (fst r, (cnt + Z.of_nat (snd r))%Z).

Lemma run_updateValueForKey_eq st key value m keys0 sk cnt :
  run_updateValueForKey st key value m keys0 sk cnt = upair cnt (update_value_for_key key value m keys0 sk).
Proof.
  unfold run_updateValueForKey.
  rewrite (update_value_for_key_code_is_model_gen (run_hasSubKeys st) (run_hasSubKeys_eq st)). reflexivity.
Qed.

(* ------------------------------------------------------------------ 2. updateValue *)

Definition uv_step (key : str) (value : Value.value) (sk : entries) (acc : entries * nat) (k : str) : entries * nat :=
  let '(cur, n) := acc in let '(cur', n') := update_value_key key value cur k sk in (cur', n + n').

Lemma loop_star_keys {A} key value sk (body : Value.value * Z -> str * Value.value -> ctl (Value.value * Z) A) :
  (forall cur c k v, body (VMap cur, c) (k, v)
     = Next (VMap (fst (update_value_key key value cur k sk)), (c + Z.of_nat (snd (update_value_key key value cur k sk)))%Z)) ->
  forall (l : entries) cur c0 n0,
  range_loop body l (VMap cur, (c0 + Z.of_nat n0)%Z)
  = Next (VMap (fst (fold_left (uv_step key value sk) (keys l) (cur, n0))),
          (c0 + Z.of_nat (snd (fold_left (uv_step key value sk) (keys l) (cur, n0))))%Z).
Proof.
  intros Hb. induction l as [|[k v] l IH]; intros cur c0 n0; [reflexivity|].
  cbn [range_loop keys map fold_left fst]. rewrite Hb. unfold uv_step at 2 4.
  destruct (update_value_key key value cur k sk) as [cur' n']. cbn [fst snd].
  rewrite <- Z.add_assoc, <- Nat2Z.inj_add. apply IH.
Qed.

Theorem update_value_code_is_model_gen : forall uvk,
  (forall key value m keys0 sk cnt, uvk key value m keys0 sk cnt = upair cnt (update_value_for_key key value m keys0 sk)) ->
  forall st key value m keys0 sk cnt,
  fn_updateValue uvk st key value m keys0 sk cnt = ures cnt (update_value key value m keys0 sk).
Proof.
  intros uvk Hu st key value m keys0 sk cnt. unfold fn_updateValue, ures.
  destruct m as [x|b| |z|z|z|fl|x|mm|l]; cbn [bindc update_value]; rewrite ?Hu; try reflexivity.
  (* a list: by computation; a map: *)
  change (s "*") with star. destruct (str_eqb keys0 star).
    + match goal with |- context [range_loop ?body _ _] =>
        pose proof (loop_star_keys key value sk body) as Hl end.
      rewrite <- (Z.add_0_r cnt) at 1. change 0%Z with (Z.of_nat 0). rewrite Hl.
      * cbn [bindc]. fold (uv_step key value sk).
        destruct (fold_left (uv_step key value sk) (keys mm) (mm, 0)) as [mm' n]. reflexivity.
      * intros cur c k v. rewrite Hu. unfold upair. cbn [update_value_for_key].
        destruct (update_value_key key value cur k sk). reflexivity.
    + cbn [bindc update_value_for_key]. destruct (update_value_key key value mm keys0 sk). reflexivity.
Qed.

Theorem update_value_code_is_model : forall st key value m keys0 sk cnt,
  fn_updateValue (run_updateValueForKey st) st key value m keys0 sk cnt = ures cnt (update_value key value m keys0 sk).
Proof. intros st. apply update_value_code_is_model_gen. intros. apply run_updateValueForKey_eq. Qed.

(* the translated updateValue (with the translated updateValueForKey plugged in) as a function *)
Definition run_updateValue (st : gstate) (key : str) (newv m : value) (keys0 : str) (sk : entries) (cnt : Z) : value * Z :=
  match fn_updateValue (run_updateValueForKey st) st key newv m keys0 sk cnt with Ret r => r | _ => (m, cnt) end.

Lemma run_updateValue_eq st key value m keys0 sk cnt :
  run_updateValue st key value m keys0 sk cnt = upair cnt (update_value key value m keys0 sk).
Proof. unfold run_updateValue. rewrite update_value_code_is_model. reflexivity. Qed.

(* ------------------------------------------------------------------ 3. updateValuesForKeyPath *)

Theorem update_kp_code_is_model_gen : forall uv,
  (forall key value m keys0 sk cnt, uv key value m keys0 sk cnt = upair cnt (update_value key value m keys0 sk)) ->
  forall keys fuel st key value m sk cnt,
  keys <> [] -> length keys <= fuel ->
  fn_updateValuesForKeyPath uv fuel st key value m keys sk cnt = ures cnt (update_kp key value keys sk m).
Proof.
  intros uv Hu.
  induction keys as [|k0 rest IH]; intros fuel st key value m sk cnt Hne Hf; [congruence|].
  destruct fuel as [|f]; [cbn [length] in Hf; lia|]. cbn [fn_updateValuesForKeyPath]; cbv zeta.
  destruct rest as [|k1 rest].
  - (* the last key *)
    cbn [length Z.of_nat Pos.of_succ_nat Z.eqb Pos.eqb nth_error bindc update_kp]. rewrite Hu. reflexivity.
  - replace (Z.eqb (Z.of_nat (length (k0 :: k1 :: rest))) 1) with false by (symmetry; apply Z.eqb_neq; cbn [length]; lia).
    cbn [length] in Hf.
    cbn [bindc nth_error length Nat.ltb Nat.leb skipn existsb]. rewrite Bool.orb_false_r.
    change (s "*") with star.
    assert (IH' : forall v c, fn_updateValuesForKeyPath uv f st key value v (k1 :: rest) sk c
                              = ures c (update_kp key value (k1 :: rest) sk v))
      by (intros; apply IH; [discriminate|cbn [length]; lia]).
    set (rec := update_kp key value (k1 :: rest) sk) in *.
    change (update_kp key value (k0 :: k1 :: rest) sk m) with
      (if str_eqb k0 star then
        match m with
        | VMap mm => let '(mm', n) := upd_vals rec mm in (VMap mm', n)
        | VList l =>
            let '(l', n) := upd_list (fun v => match v with
                                               | VMap mm => let '(mm', n) := upd_vals rec mm in (VMap mm', n)
                                               | _ => rec v
                                               end) l in (VList l', n)
        | _ => (m, 0)
        end
      else
        match m with
        | VMap mm => match lookup k0 mm with
                     | Some v => let '(v', n) := rec v in (VMap (set k0 v' mm), n)
                     | None => (m, 0)
                     end
        | VList l =>
            let '(l', n) := upd_list (fun v => match v with
                                               | VMap mm => match lookup k0 mm with
                                                            | Some vv => let '(vv', n) := rec vv in
                                                                         (VMap (set k0 vv' mm), n)
                                                            | None => (v, 0)
                                                            end
                                               | _ => (v, 0)
                                               end) l in (VList l', n)
        | _ => (m, 0)
        end).
    unfold ures in *.
    destruct (str_eqb k0 star).
    + (* wildcard *)
      destruct m as [x|b| |z|z|z|fl|x|mm|l]; cbn [fst snd]; rewrite ?Z.add_0_r; try reflexivity.
      * match goal with |- context [range_loop ?body _ _] => rewrite (loop_rebuild (on_snd rec) body) end.
        -- cbn [bindc app]. rewrite upd_vals_rebuild. destruct (rebuild (on_snd rec) mm). reflexivity.
        -- intros x c rb [k v]. rewrite IH'. reflexivity.
      * rewrite upd_list_rebuild.
        match goal with |- context [rebuild ?g l] =>
          match goal with |- context [range_loop ?body _ _] => rewrite (loop_rebuild g body) end;
          [ cbn [bindc app]; destruct (rebuild g l); reflexivity | ] end.
        intros x c rb v. destruct v as [?x|?b| |?z|?z|?z|?fl|?x|vm|?l]; try (rewrite IH'; reflexivity).
        match goal with |- context [range_loop ?body _ _] => rewrite (loop_rebuild (on_snd rec) body) end.
        -- cbn [bindc app]. rewrite upd_vals_rebuild. destruct (rebuild (on_snd rec) vm). reflexivity.
        -- intros [x1 x2] c' rb' [k v]. rewrite IH'. reflexivity.
    + (* a key *)
      destruct m as [x|b| |z|z|z|fl|x|mm|l]; cbn [fst snd]; rewrite ?Z.add_0_r; try reflexivity.
      * destruct (lookup k0 mm) as [v|]; [|cbn [fst snd]; rewrite Z.add_0_r; reflexivity].
        rewrite IH'. cbn [bindr]. destruct (rec v). reflexivity.
      * rewrite upd_list_rebuild.
        match goal with |- context [rebuild ?g l] =>
          match goal with |- context [range_loop ?body _ _] => rewrite (loop_rebuild g body) end;
          [ cbn [bindc app]; destruct (rebuild g l); reflexivity | ] end.
        intros x c rb v. destruct v as [?x|?b| |?z|?z|?z|?fl|?x|vm|?l]; cbn [fst snd]; rewrite ?Z.add_0_r; try reflexivity.
        destruct (lookup k0 vm) as [vv|]; [|cbn [fst snd]; rewrite Z.add_0_r; reflexivity].
        rewrite IH'. cbn [bindr]. destruct (rec vv). reflexivity.
Qed.

Theorem update_kp_code_is_model : forall keys fuel st key value m sk cnt,
  keys <> [] -> length keys <= fuel ->
  fn_updateValuesForKeyPath (run_updateValue st) fuel st key value m keys sk cnt = ures cnt (update_kp key value keys sk m).
Proof. intros keys fuel st. apply update_kp_code_is_model_gen. intros. apply run_updateValue_eq. Qed.

(* why keys <> []: on an empty key list the Go code indexes keys[0] and panics (the model returns the tree unchanged);
   strings.Split never returns an empty slice, so the entry point cannot get there *)
Lemma update_kp_code_empty_keys uv f st key value m sk cnt :
  fn_updateValuesForKeyPath uv (S f) st key value m [] sk cnt = Crash.
Proof. reflexivity. Qed.

(* the translated updateValuesForKeyPath (with the translated updateValue plugged in) as a function *)
Definition run_updateValuesForKeyPath (st : gstate) (key : str) (newv m : value) (keys : list str) (sk : entries) (cnt : Z) : value * Z :=
  match fn_updateValuesForKeyPath (run_updateValue st) (S (length keys)) st key newv m keys sk cnt with Ret r => r | _ => (m, cnt) end.

Lemma run_updateValuesForKeyPath_eq st key value m keys sk cnt : keys <> [] ->
  run_updateValuesForKeyPath st key value m keys sk cnt = upair cnt (update_kp key value keys sk m).
Proof. intros H. unfold run_updateValuesForKeyPath. rewrite update_kp_code_is_model by (auto; lia). reflexivity. Qed.

(* ------------------------------------------------------------------ 4. Map.UpdateValuesForPath *)

(* an updated Map is a Map *)
Lemma update_kp_map key value keys sk mm : exists mm', fst (update_kp key value keys sk (VMap mm)) = VMap mm'.
Proof.
  destruct keys as [|k0 [|k1 rest]].
  - exists mm. reflexivity.
  - cbn [update_kp update_value]. destruct (str_eqb k0 star).
    + match goal with |- context [fold_left ?f ?l ?a] => destruct (fold_left f l a) as [mm' n] end. exists mm'. reflexivity.
    + destruct (update_value_key key value mm k0 sk) as [mm' n]. exists mm'. reflexivity.
  - cbn [update_kp]. destruct (str_eqb k0 star).
    + match goal with |- context [upd_vals ?f mm] => destruct (upd_vals f mm) as [mm' n] end. exists mm'. reflexivity.
    + destruct (lookup k0 mm) as [v|]; [|exists mm; reflexivity].
      match goal with |- context [let '(v', n) := ?e in _] => destruct e as [v' n] end.
      eexists. reflexivity.
Qed.

(* the newVal argument (an interface{}) as the model sees it: a map, a string, anything else *)
Definition newval_of (v : value) : newval :=
  match v with VMap m => NVMap m | VStr x => NVStr x | _ => NVOther end.

Definition entries_or (d : entries) (v : value) : entries := match v with VMap x => x | _ => d end.

(* the result of Map.UpdateValuesForPath: (count, error) and the receiver afterwards *)
Definition uvp_result (mv : entries) (r : res (value * nat)) : ctl unit (res Z * entries) :=
  match r with
  | Ok (m', n) => Ret (Ok (Z.of_nat n), entries_or mv m')
  | Err e => Ret (Err e, mv)
  | Panic => Crash
  end.

Lemma go_split_nonempty_sep x sep : sep <> [] -> go_split x sep = split sep x.
Proof. destruct sep; [congruence|reflexivity]. Qed.

Theorem update_values_for_path_code_is_model_gen : forall pf st gskm ukp,
  (forall kv, gskm kv = get_sub_key_map pf (g_fieldSep st) kv) ->
  (forall key value m keys sk cnt, keys <> [] -> ukp key value m keys sk cnt = upair cnt (update_kp key value keys sk m)) ->
  g_fieldSep st <> [] ->
  forall mv newVal path subkeys,
  fn_UpdateValuesForPath pf (fun m => m) gskm ukp st mv newVal path subkeys
  = uvp_result mv (update_values_for_path pf (g_fieldSep st) (VMap mv) (newval_of newVal) path subkeys).
Proof.
  intros pf st gskm ukp Hg Hu Hs mv newVal path subkeys.
  unfold fn_UpdateValuesForPath, update_values_for_path. cbv zeta.
  match goal with |- bindc _ ?k = _ =>
    assert (Htail : forall sk made,
      k (sk, made) = uvp_result mv (bind (parse_newval pf (g_fieldSep st) (newval_of newVal))
                                         (fun kv => Ok (update_kp (fst kv) (snd kv) (split1 dot path) sk (VMap mv))))) end.
  { intros sk made. cbv beta iota.
    assert (Hfin : forall k v,
      (let '(l_m_b, l_count) := ukp k v (VMap mv) (go_split path (s ".")) sk 0%Z in
       Ret (Ok l_count, match l_m_b with VMap x_ => x_ | _ => mv end) : ctl unit (res Z * entries))
      = uvp_result mv (Ok (update_kp k v (split1 dot path) sk (VMap mv)))).
    { intros k v. change (s ".") with [dot]. rewrite go_split_single. rewrite Hu by apply split1_nonempty.
      unfold upair, uvp_result. destruct (update_kp k v (split1 dot path) sk (VMap mv)) as [m' n]. reflexivity. }
    destruct newVal as [x|b| |z|z|z|fl|x|nm|l]; cbn [newval_of parse_newval bind uvp_result bindc]; try reflexivity.
    - (* "key:value[:type]" *)
      rewrite go_split_nonempty_sep by exact Hs.
      destruct (split (g_fieldSep st) x) as [|a [|b [|c [|d t]]]].
      + reflexivity.
      + reflexivity.
      + cbn [length Z.of_nat Pos.of_succ_nat Pos.succ Z.ltb Z.gtb Z.eqb Z.compare Pos.compare Pos.compare_cont Pos.eqb bindc nth_error].
        apply Hfin.
      + cbn [length Z.of_nat Pos.of_succ_nat Pos.succ Z.ltb Z.gtb Z.eqb Z.compare Pos.compare Pos.compare_cont Pos.eqb bindc nth_error].
        destruct (existsb (str_eqb c) [s "bool"; s "boolean"]).
        * destruct (parse_bool b) as [bb|]; cbn [negb bindc bind uvp_result]; [apply Hfin|reflexivity].
        * destruct (existsb (str_eqb c) [s "num"; s "numeric"; s "float"; s "int"]); [|reflexivity].
          destruct (pf b) as [ff|]; cbn [negb bindc bind uvp_result]; [apply Hfin|reflexivity].
      + replace (Z.ltb (Z.of_nat (length (a :: b :: c :: d :: t))) 2) with false by (symmetry; apply Z.ltb_ge; cbn [length]; lia).
        replace (Z.gtb (Z.of_nat (length (a :: b :: c :: d :: t))) 3) with true by (symmetry; apply Z.gtb_lt; cbn [length]; lia).
        reflexivity.
    - (* a one-entry map *)
      destruct nm as [|[k v] [|e t]].
      + reflexivity.
      + cbn [length Z.of_nat Pos.of_succ_nat Z.eqb Pos.eqb negb bindc last]. apply Hfin.
      + replace (Z.eqb (Z.of_nat (length ((k, v) :: e :: t))) 1) with false by (symmetry; apply Z.eqb_neq; cbn [length]; lia).
        reflexivity. }
  destruct subkeys as [|s0 sks].
  - cbn [length Z.of_nat Z.gtb Z.compare bindc]. rewrite (Htail [] false).
    change (get_sub_key_map pf (g_fieldSep st) []) with (Ok ([] : entries)). reflexivity.
  - replace (Z.gtb (Z.of_nat (length (s0 :: sks))) 0) with true by (symmetry; apply Z.gtb_lt; cbn [length]; lia).
    rewrite Hg.
    destruct (get_sub_key_map pf (g_fieldSep st) (s0 :: sks)) as [sk|e|]; cbn [bindc bind negb uvp_result]; try reflexivity.
    apply (Htail sk false).
Qed.

(* everything plugged in: the translated getSubKeyMap, updateValuesForKeyPath (which runs the translated updateValue, which
   runs the translated updateValueForKey, which runs the translated hasSubKeys); Map.Old is the identity conversion *)
Theorem update_values_for_path_code_is_model : forall pf st mv newVal path subkeys,
  g_fieldSep st <> [] ->
  fn_UpdateValuesForPath pf (fun m => m) (run_getSubKeyMap pf st) (run_updateValuesForKeyPath st) st mv newVal path subkeys
  = uvp_result mv (update_values_for_path pf (g_fieldSep st) (VMap mv) (newval_of newVal) path subkeys).
Proof.
  intros pf st mv newVal path subkeys Hs. apply update_values_for_path_code_is_model_gen.
  - intros kv. apply run_getSubKeyMap_eq. exact Hs.
  - intros. apply run_updateValuesForKeyPath_eq. assumption.
  - exact Hs.
Qed.

(* the same, read off case by case: an error of the sub-key or newVal parsing leaves the receiver alone; otherwise the
   receiver becomes the model's updated Map and the count is the model's count *)
Corollary update_values_for_path_code_cases : forall pf st mv newVal path subkeys,
  g_fieldSep st <> [] ->
  (exists e, update_values_for_path pf (g_fieldSep st) (VMap mv) (newval_of newVal) path subkeys = Err e /\
             fn_UpdateValuesForPath pf (fun m => m) (run_getSubKeyMap pf st) (run_updateValuesForKeyPath st) st mv newVal path subkeys
             = Ret (Err e, mv))
  \/ (exists mv' n, update_values_for_path pf (g_fieldSep st) (VMap mv) (newval_of newVal) path subkeys = Ok (VMap mv', n) /\
             fn_UpdateValuesForPath pf (fun m => m) (run_getSubKeyMap pf st) (run_updateValuesForKeyPath st) st mv newVal path subkeys
             = Ret (Ok (Z.of_nat n), mv')).
Proof.
  intros pf st mv newVal path subkeys Hs. rewrite update_values_for_path_code_is_model by exact Hs.
  pose proof (Proofs.KVTotal.update_no_panic pf (g_fieldSep st) (VMap mv) (newval_of newVal) path subkeys) as Hnp.
  destruct (update_values_for_path pf (g_fieldSep st) (VMap mv) (newval_of newVal) path subkeys) as [[m' n]|e|] eqn:E; [| |congruence].
  - right. unfold update_values_for_path in E.
    destruct (get_sub_key_map pf (g_fieldSep st) subkeys) as [sk| |]; cbn [bind] in E; try discriminate.
    destruct (parse_newval pf (g_fieldSep st) (newval_of newVal)) as [kv| |]; cbn [bind] in E; try discriminate.
    injection E as E. destruct (update_kp_map (fst kv) (snd kv) (split1 dot path) sk mv) as [mm' Hm].
    rewrite E in Hm. cbn [fst] in Hm. subst m'. exists mm', n. split; reflexivity.
  - left. exists e. split; reflexivity.
Qed.

Corollary update_values_for_path_code_no_panic : forall pf st mv newVal path subkeys,
  g_fieldSep st <> [] ->
  fn_UpdateValuesForPath pf (fun m => m) (run_getSubKeyMap pf st) (run_updateValuesForKeyPath st) st mv newVal path subkeys <> Crash.
Proof.
  intros pf st mv newVal path subkeys Hs.
  destruct (update_values_for_path_code_cases pf st mv newVal path subkeys Hs) as [[e [_ H]]|[mv' [n [_ H]]]]; rewrite H; discriminate.
Qed.

(* ------------------------------------------------------------------ non-vacuity: the translated code run on a concrete Map *)
Local Open Scope string_scope.
Definition ex_doc : entries :=
  [(s "books", VList [VMap [(s "title", VStr (s "a")); (s "id", VStr (s "1"))];
                      VMap [(s "title", VStr (s "b")); (s "id", VStr (s "2"))]; VStr (s "q")]);
   (s "shelf", VMap [(s "title", VStr (s "c")); (s "books", VList [VMap [(s "title", VNil)]])])].

Example ex_update_subkey :
  fn_UpdateValuesForPath (fun _ => None) (fun m => m) (run_getSubKeyMap (fun _ => None) gstate0) (run_updateValuesForKeyPath gstate0)
    gstate0 ex_doc (VStr (s "title:NEW")) (s "books") [s "id:2"]
  = Ret (Ok 1%Z,
         [(s "books", VList [VMap [(s "title", VStr (s "a")); (s "id", VStr (s "1"))];
                             VMap [(s "title", VStr (s "NEW")); (s "id", VStr (s "2"))]; VStr (s "q")]);
          (s "shelf", VMap [(s "title", VStr (s "c")); (s "books", VList [VMap [(s "title", VNil)]])])]).
Proof. vm_compute. reflexivity. Qed.

Example ex_update_wildcard :
  fn_UpdateValuesForPath (fun _ => None) (fun m => m) (run_getSubKeyMap (fun _ => None) gstate0) (run_updateValuesForKeyPath gstate0)
    gstate0 ex_doc (VMap [(s "title", VBool true)]) (s "*.title") []
  = Ret (Ok 3%Z,
         [(s "books", VList [VMap [(s "title", VBool true); (s "id", VStr (s "1"))];
                             VMap [(s "title", VBool true); (s "id", VStr (s "2"))]; VStr (s "q")]);
          (s "shelf", VMap [(s "title", VBool true); (s "books", VList [VMap [(s "title", VNil)]])])]).
Proof. vm_compute. reflexivity. Qed.

Example ex_update_error :
  fn_UpdateValuesForPath (fun _ => None) (fun m => m) (run_getSubKeyMap (fun _ => None) gstate0) (run_updateValuesForKeyPath gstate0)
    gstate0 ex_doc (VStr (s "title")) (s "books") []
  = Ret (Err EOther, ex_doc).
Proof. vm_compute. reflexivity. Qed.

Print Assumptions update_value_for_key_code_is_model_gen.
Print Assumptions update_value_for_key_code_is_model.
Print Assumptions update_value_code_is_model_gen.
Print Assumptions update_value_code_is_model.
Print Assumptions update_kp_code_is_model_gen.
Print Assumptions update_kp_code_is_model.
Print Assumptions update_values_for_path_code_is_model_gen.
Print Assumptions update_values_for_path_code_is_model.
Print Assumptions update_values_for_path_code_cases.
Print Assumptions update_values_for_path_code_no_panic.
