(* Map.PathsForKey (keyvalues.go), as go2v translated it from /repo's CURRENT sources (Gen/Pure_gen.v: the basket map
   handed to hasKeyPath, the nil result for an empty basket, make([]string, len(basket)) and the range loop that copies
   the keys out): the keys of the basket, in the basket's iteration order - for ANY hasKeyPath; with the translated
   hasKeyPath plugged in, a permutation of the model's paths_for_key (Go ranges over the basket in hash order). *)
From Coq Require Import Lia Permutation.
From Mxj Require Import Gen.GenSupport Gen.Setters_gen Gen.PureSupport Gen.Pure_gen Model.KeyValues.
From Mxj Require Import GenProofs.PureG3 GenProofs.PureG4 GenProofs.PureG8.

Section Copy.
  Context {R : Type}.
  Definition copy_body (st_ : list str * Z) (el_ : str * bool) : ctl (list str * Z) R :=
    let '(res, i) := st_ in let '(k, _) := el_ in
    if (Z.ltb i 0 || Z.leb (Z.of_nat (length res)) i)%bool then Crash
    else let res := lset res (Z.to_nat i) k in let i := (i + 1)%Z in Next (res, i).

  Lemma copy_loop : forall rest done,
    range_loop copy_body rest (map fst done ++ repeat ([] : str) (length rest), Z.of_nat (length done))
    = Next (map fst (done ++ rest), Z.of_nat (length (done ++ rest))).
  Proof.
    induction rest as [|[k b] rest IH]; intros done.
    - cbn [range_loop length repeat]. rewrite !app_nil_r. reflexivity.
    - cbn [range_loop copy_body].
      replace (Z.ltb (Z.of_nat (length done)) 0) with false by (symmetry; apply Z.ltb_ge; lia).
      rewrite app_length, map_length, repeat_length. cbn [orb].
      replace (Z.leb (Z.of_nat (length done + length ((k, b) :: rest))) (Z.of_nat (length done))) with false
        by (symmetry; apply Z.leb_gt; cbn [length]; lia).
      rewrite Nat2Z.id. cbn [length]. rewrite <- (map_length fst done) at 1. rewrite lset_fill.
      replace (Z.of_nat (length done) + 1)%Z with (Z.of_nat (length (done ++ [(k, b)]))) by (rewrite app_length; cbn [length]; lia).
      replace (map fst done ++ [k]) with (map fst (done ++ [(k, b)])) by (rewrite map_app; reflexivity).
      rewrite IH. rewrite <- app_assoc. reflexivity.
  Qed.
End Copy.

Theorem paths_for_key_entry_code : forall (hasKeyPath : str -> value -> str -> list (str * bool) -> list (str * bool)) st m key,
  fn_PathsForKey hasKeyPath st m key = Ret (map fst (hasKeyPath [] (VMap m) key [])).
Proof.
  intros HKP st m key. unfold fn_PathsForKey. cbv zeta.
  generalize (HKP [] (VMap m) key []). intros basket.
  destruct basket as [|e b']; [reflexivity|].
  replace (Z.eqb (Z.of_nat (length (e :: b'))) 0) with false by (symmetry; apply Z.eqb_neq; cbn [length]; lia).
  cbn [bindc].
  replace (Z.ltb (Z.of_nat (length (e :: b'))) 0) with false by (symmetry; apply Z.ltb_ge; lia).
  rewrite Nat2Z.id.
  change (range_loop _ (e :: b') _) with
    (range_loop (@copy_body (list str)) (e :: b')
       (map fst (@nil (str * bool)) ++ repeat ([] : str) (length (e :: b')), Z.of_nat (length (@nil (str * bool))))).
  rewrite copy_loop. reflexivity.
Qed.

(* with the translated hasKeyPath plugged in *)
Definition run_hasKeyPath (st : gstate) (crumbs : str) (iv : value) (key : str) (basket : list (str * bool)) : list (str * bool) :=
  match fn_hasKeyPath (S (vd iv)) st crumbs iv key basket with Ret r => r | _ => basket end.

Theorem paths_for_key_entry_code_is_model : forall st m key,
  exists ps, fn_PathsForKey (run_hasKeyPath st) st m key = Ret ps /\ Permutation ps (paths_for_key (VMap m) key).
Proof.
  intros st m key. eexists. split; [apply paths_for_key_entry_code|].
  unfold run_hasKeyPath. destruct (paths_for_key_code_perm (VMap m) (S (vd (VMap m))) st key) as (basket & E & HP); [lia|].
  rewrite E. exact HP.
Qed.
