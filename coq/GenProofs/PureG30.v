(* Map.NewMap (newmap.go), as go2v translated it from /repo's CURRENT source (Gen/Pure_gen.v: fn_NewMap), IS the model
   new_map of Model/TreeOps.v: the key-pair loop (skip of empty pairs, split at ':', the three validity checks, the
   ValuesForPath call and its error, the skip of value-less old keys, the split of the new key at '.', the trailing-dot
   rule) returns exactly the Map built so far together with the error class.  The two callees are Section variables of
   the translation: ValuesForPath (instantiated below with the TRANSLATED run_ValuesForPath) and addNewVal (the model
   add_new_val applied to the value Go's addNewVal packs itself: the single value, or the list).  Every C12 theorem
   (Proofs/C12*.v, Props/C12.v) is stated with new_map and is thereby re-checked against what the code says. *)
From Coq Require Import Lia.
From Mxj Require Import Gen.GenSupport Gen.Setters_gen Gen.PureSupport Gen.Pure_gen Model.KeyValues Model.TreeOps.
From Mxj Require Import Proofs.StrLemmas Proofs.C07P.
From Mxj Require Import GenProofs.PureG GenProofs.PureG2 GenProofs.PureG5 GenProofs.PureG7.

(* ------------------------------------------------------------------ the result conversion *)

(* (Map, error) of Go: the Map built so far, nil or the error; a Panic of the model is a crash of the code *)
Definition new_map_ctl (r : entries * res unit) : ctl unit (entries * option err) :=
  match r with
  | (n, Ok _) => Ret (n, None)
  | (n, Err e) => Ret (n, Some e)
  | (_, Panic) => Crash
  end.

(* Go's addNewVal packs the value list itself *)
Definition pack_vals (oldVal : list value) : value := match oldVal with [x] => x | _ => VList oldVal end.

(* ------------------------------------------------------------------ arithmetic / list facts the translation needs *)

Lemma len0_cons {A} (a : A) l : Z.eqb (Z.of_nat (length (a :: l))) 0 = false.
Proof. apply Z.eqb_neq. cbn [length]. lia. Qed.

Lemma len_gt2 {A} (a b c : A) l : Z.gtb (Z.of_nat (length (a :: b :: c :: l))) 2 = true.
Proof. rewrite Z.gtb_ltb. apply Z.ltb_lt. cbn [length]. lia. Qed.

Lemma go_index_gt x c : Z.gtb (go_index x [c]) (-1) = mem_ascii c x.
Proof.
  pose proof (go_index_single x c) as H. rewrite Z.gtb_ltb.
  destruct (mem_ascii c x); cbn [negb] in H.
  - apply Z.ltb_ge in H. apply Z.ltb_lt. lia.
  - apply Z.ltb_lt in H. apply Z.ltb_ge. lia.
Qed.

Lemma nth_error_last {A} (l : list A) d : l <> [] -> nth_error l (length l - 1) = Some (last l d).
Proof.
  induction l as [|a l IH]; intros H; [congruence|].
  destruct l as [|b l]; [reflexivity|].
  change (last (a :: b :: l) d) with (last (b :: l) d).
  rewrite <- IH by discriminate.
  replace (length (a :: b :: l) - 1) with (S (length (b :: l) - 1)) by (cbn [length]; lia).
  reflexivity.
Qed.

Lemma ltb_len1 {A} (l : list A) : l <> [] -> Nat.ltb (length l) 1 = false.
Proof. destruct l; [congruence|]. reflexivity. Qed.

(* ------------------------------------------------------------------ the model's pair step, as a function of the split *)

Section NewMapG.
Variable pf : str -> option flt.
Variable sep : str.

Definition pair_tail (mv : value) (n : entries) (oldKey newKey : str) : res entries :=
  if mem_ascii "*"%char newKey then Err EOther
  else if mem_ascii lbr newKey then Err EOther
  else match oldKey, newKey with
       | [], _ | _, [] => Err EOther
       | _, _ =>
         bind (values_for_path pf sep mv oldKey []) (fun oldVal =>
           match oldVal with
           | [] => Ok n
           | _ =>
             let path := split1 dot newKey in
             let path := match last path [dot] with [] => removelast path | _ => path end in
             Ok (add_new_val path (pack_vals oldVal) n)
           end)
       end.

Lemma new_map_pair_split mv n v :
  new_map_pair pf sep mv n v =
  match v with
  | [] => Ok n
  | _ => match split1 colon v with
         | _ :: _ :: _ :: _ => Err EOther
         | [o; nw] => pair_tail mv n o nw
         | [o] => pair_tail mv n o o
         | [] => pair_tail mv n [] []
         end
  end.
Proof.
  destruct v as [|a v]; [reflexivity|].
  unfold new_map_pair. cbv zeta.
  destruct (split1 colon (a :: v)) as [|o [|nw [|x t]]]; reflexivity.
Qed.

(* ------------------------------------------------------------------ one iteration of the translated loop *)

Variable vfp : entries -> str -> list str -> res (list value).
Variable anv : entries -> list str -> list value -> entries.
Hypothesis Hvfp : forall m p, vfp m p [] = values_for_path pf sep (VMap m) p [].
Hypothesis Hanv : forall n path oldVal, anv n path oldVal = add_new_val path (pack_vals oldVal) n.

Definition NMState : Type := (str * str * list str * entries)%type.
Definition NMRes : Type := (entries * option err)%type.

(* what an iteration of the loop does, against the model's pair step from the Map n *)
Definition step_ok (n : entries) (r : ctl NMState NMRes) (m : res entries) : Prop :=
  match m with
  | Ok n' => exists a b c, r = Next (a, b, c, n')
  | Err e => r = Ret (n, Some e)
  | Panic => r = Crash
  end.

Lemma new_map_loop mv (body : NMState -> str -> ctl NMState NMRes) :
  (forall a b c n v, step_ok n (body (a, b, c, n) v) (new_map_pair pf sep mv n v)) ->
  forall pairs a b c n,
    bindc (S := NMState) (S' := unit) (range_loop body pairs (a, b, c, n))
          (fun '(_, _, _, l_n) => Ret (l_n, None))
    = new_map_ctl (new_map_pairs pf sep mv n pairs).
Proof.
  intros Hb. induction pairs as [|v pairs IH]; intros a b c n; [reflexivity|].
  cbn [range_loop new_map_pairs]. specialize (Hb a b c n v). unfold step_ok in Hb.
  destruct (new_map_pair pf sep mv n v) as [n'|e|].
  - destruct Hb as (a' & b' & c' & Hb). rewrite Hb. apply IH.
  - rewrite Hb. reflexivity.
  - rewrite Hb. reflexivity.
Qed.

(* ------------------------------------------------------------------ Map.NewMap *)

Theorem new_map_code_is_model_gen_sec : forall st mv keypairs,
  fn_NewMap vfp anv st mv keypairs = new_map_ctl (new_map pf sep (VMap mv) keypairs).
Proof.
  intros st mv keypairs. unfold fn_NewMap, new_map. cbv zeta.
  destruct keypairs as [|kp0 kps]; [reflexivity|].
  rewrite len0_cons. cbn [bindc].
  match goal with |- context [range_loop ?f _ _] => rewrite (new_map_loop (VMap mv) f) end; [reflexivity|].
  clear kp0 kps. intros a b c n v. cbv zeta.
  rewrite new_map_pair_split.
  destruct v as [|c0 v0]; [cbn; exists a, b, c; reflexivity|].
  rewrite len0_cons.
  remember (c0 :: v0) as v eqn:Ev. clear Ev c0 v0.
  change (s ":") with [colon]. rewrite go_split_single.
  pose proof (split1_nonempty colon v) as Hne.
  assert (Htail : forall o nw,
    step_ok n
      (let l_i : Z := go_index nw (s "*") in
       bindc (S := unit) (if Z.gtb l_i (-1) then Ret (n, Some EOther) else Next tt)
       (fun _ => let l_i_1 : Z := go_index nw (s "[") in
       bindc (S := unit) (if Z.gtb l_i_1 (-1) then Ret (n, Some EOther) else Next tt)
       (fun _ => bindc (S := unit) (if str_eqb o [] then Ret (n, Some EOther)
                                    else if str_eqb nw [] then Ret (n, Some EOther) else Next tt)
       (fun _ => match vfp mv o ([] : list str) with
                 | Panic => Crash
                 | rr5 => let '(l_oldVal, l_err) := match rr5 with
                                                    | Ok v => (v, None)
                                                    | Err e => (([] : list value), Some e)
                                                    | Panic => (([] : list value), None) end in
                   bindc (S := unit) (if negb (match l_err with None => true | Some _ => false end)
                                      then Ret (n, l_err) else Next tt)
                   (fun _ => if Z.eqb (Z.of_nat (length l_oldVal)) 0 then Next (o, nw, c, n)
                             else let l_path := go_split nw (s ".") in
                               bindc (S := list str)
                                 (match nth_error l_path (length l_path - 1) with
                                  | None => Crash
                                  | Some idx6 => if str_eqb idx6 []
                                                 then (if Nat.ltb (length l_path) 1 then Crash
                                                       else let l_path := removelast l_path in Next l_path)
                                                 else Next l_path end)
                                 (fun l_path => let l_n := anv n l_path l_oldVal in Next (o, nw, l_path, l_n)))
                 end))) : ctl NMState NMRes)
      (pair_tail (VMap mv) n o nw)).
  { intros o nw. cbv zeta. unfold pair_tail.
    change (s "*") with ["*"%char]. change (s "[") with [lbr]. rewrite !go_index_gt.
    destruct (mem_ascii "*"%char nw); [reflexivity|]. cbn [bindc].
    destruct (mem_ascii lbr nw); [reflexivity|]. cbn [bindc].
    destruct o as [|o0 o']; [reflexivity|].
    destruct nw as [|w0 w']; [reflexivity|].
    cbn [str_eqb bindc]. rewrite Hvfp.
    remember (o0 :: o') as o eqn:Eo. remember (w0 :: w') as nw eqn:Enw.
    destruct (values_for_path pf sep (VMap mv) o []) as [vs|e|]; cbn [bind step_ok negb bindc]; [|reflexivity|reflexivity].
    destruct vs as [|x vs]; [exists o, nw, c; reflexivity|].
    rewrite len0_cons. change (s ".") with [dot]. rewrite go_split_single.
    pose proof (split1_nonempty dot nw) as Hp.
    rewrite (nth_error_last (A:=str) _ [dot]) by exact Hp.
    destruct (last (split1 dot nw) [dot]) as [|l0 l'].
    - cbn [str_eqb]. rewrite ltb_len1 by exact Hp. cbn [bindc]. rewrite Hanv.
      exists o, nw, (removelast (split1 dot nw)). reflexivity.
    - cbn [str_eqb bindc]. rewrite Hanv. exists o, nw, (split1 dot nw). reflexivity. }
  destruct (split1 colon v) as [|o [|nw [|x t]]]; [congruence| | |].
  - cbn [length Z.of_nat Pos.of_succ_nat Z.gtb Z.compare Pos.compare Pos.compare_cont Z.eqb Pos.eqb bindc nth_error].
    apply Htail.
  - cbn [length Z.of_nat Pos.of_succ_nat Pos.succ Z.gtb Z.compare Pos.compare Pos.compare_cont Z.eqb Pos.eqb bindc nth_error].
    apply Htail.
  - rewrite len_gt2. reflexivity.
Qed.

End NewMapG.

(* 1. the translated Map.NewMap is the model, for any callees that are ValuesForPath and addNewVal *)
Theorem new_map_code_is_model_gen : forall pf sep
    (vfp : entries -> str -> list str -> res (list value))
    (anv : entries -> list str -> list value -> entries),
  (forall m p, vfp m p [] = values_for_path pf sep (VMap m) p []) ->
  (forall n path oldVal, anv n path oldVal = add_new_val path (match oldVal with [x] => x | _ => VList oldVal end) n) ->
  forall st mv keypairs,
    fn_NewMap vfp anv st mv keypairs = new_map_ctl (new_map pf sep (VMap mv) keypairs).
Proof. intros pf sep vfp anv Hv Ha. exact (new_map_code_is_model_gen_sec pf sep vfp anv Hv Ha). Qed.
Print Assumptions new_map_code_is_model_gen.

(* Go's addNewVal over the model insertion *)
Definition run_addNewVal (n : entries) (path : list str) (oldVal : list value) : entries :=
  add_new_val path (match oldVal with [x] => x | _ => VList oldVal end) n.

(* 2. with the TRANSLATED ValuesForPath as the callee *)
Theorem new_map_code_is_model : forall pf st mv keypairs,
  g_fieldSep st <> [] ->
  fn_NewMap (run_ValuesForPath pf st) run_addNewVal st mv keypairs
  = new_map_ctl (new_map pf (g_fieldSep st) (VMap mv) keypairs).
Proof.
  intros pf st mv keypairs H. apply new_map_code_is_model_gen.
  - intros m p. apply run_ValuesForPath_eq. exact H.
  - reflexivity.
Qed.
Print Assumptions new_map_code_is_model.

(* 3. the model never panics, so the code never crashes *)
Lemma new_map_pair_no_panic pf sep mv n v : new_map_pair pf sep mv n v <> Panic.
Proof.
  rewrite new_map_pair_split. destruct v as [|a v]; [discriminate|].
  assert (Ht : forall o nw, pair_tail pf sep mv n o nw <> Panic).
  { intros o nw. unfold pair_tail.
    destruct (mem_ascii "*"%char nw); [discriminate|]. destruct (mem_ascii lbr nw); [discriminate|].
    destruct o as [|o0 o']; [discriminate|]. destruct nw as [|w0 w']; [discriminate|].
    pose proof (values_for_path_no_panic pf sep mv (o0 :: o') []) as Hv.
    destruct (values_for_path pf sep mv (o0 :: o') []) as [[|x vs]|e|]; cbn [bind]; try discriminate. congruence. }
  destruct (split1 colon (a :: v)) as [|o [|nw [|x t]]]; try apply Ht. discriminate.
Qed.

Lemma new_map_pairs_no_panic pf sep mv pairs : forall n, snd (new_map_pairs pf sep mv n pairs) <> Panic.
Proof.
  induction pairs as [|v pairs IH]; intros n; cbn [new_map_pairs]; [discriminate|].
  pose proof (new_map_pair_no_panic pf sep mv n v) as Hp.
  destruct (new_map_pair pf sep mv n v) as [n'|e|]; [apply IH|discriminate|congruence].
Qed.

Theorem new_map_no_panic pf sep mv pairs : snd (new_map pf sep mv pairs) <> Panic.
Proof. apply new_map_pairs_no_panic. Qed.

Theorem new_map_code_no_crash_gen : forall pf sep
    (vfp : entries -> str -> list str -> res (list value))
    (anv : entries -> list str -> list value -> entries),
  (forall m p, vfp m p [] = values_for_path pf sep (VMap m) p []) ->
  (forall n path oldVal, anv n path oldVal = add_new_val path (match oldVal with [x] => x | _ => VList oldVal end) n) ->
  forall st mv keypairs,
    fn_NewMap vfp anv st mv keypairs <> Crash.
Proof.
  intros pf sep vfp anv Hv Ha st mv keypairs.
  rewrite (new_map_code_is_model_gen pf sep vfp anv Hv Ha).
  pose proof (new_map_no_panic pf sep (VMap mv) keypairs) as Hn.
  destruct (new_map pf sep (VMap mv) keypairs) as [n [u|e|]]; cbn [new_map_ctl snd] in *; [discriminate|discriminate|congruence].
Qed.
Print Assumptions new_map_code_no_crash_gen.

Theorem new_map_code_no_crash : forall pf st mv keypairs,
  g_fieldSep st <> [] ->
  fn_NewMap (run_ValuesForPath pf st) run_addNewVal st mv keypairs <> Crash.
Proof.
  intros pf st mv keypairs H. apply (new_map_code_no_crash_gen pf (g_fieldSep st)).
  - intros m p. apply run_ValuesForPath_eq. exact H.
  - reflexivity.
Qed.
Print Assumptions new_map_code_no_crash.

(* the code returns a Map and nil, or the Map built so far and an error - exactly the model's pair *)
Corollary new_map_code_result : forall pf st mv keypairs,
  g_fieldSep st <> [] ->
  exists n oe,
    fn_NewMap (run_ValuesForPath pf st) run_addNewVal st mv keypairs = Ret (n, oe)
    /\ new_map pf (g_fieldSep st) (VMap mv) keypairs = (n, match oe with None => Ok tt | Some e => Err e end).
Proof.
  intros pf st mv keypairs H. rewrite new_map_code_is_model by exact H.
  pose proof (new_map_no_panic pf (g_fieldSep st) (VMap mv) keypairs) as Hn.
  destruct (new_map pf (g_fieldSep st) (VMap mv) keypairs) as [n [[]|e|]]; cbn [new_map_ctl snd] in *.
  - exists n, None. split; reflexivity.
  - exists n, (Some e). split; reflexivity.
  - congruence.
Qed.
Print Assumptions new_map_code_result.

(* ------------------------------------------------------------------ non-vacuity: the translated code run on concrete inputs *)

Definition g30_mv : entries :=
  [(s "a", VMap [(s "b", VStr (s "1")); (s "c", VList [VStr (s "x"); VStr (s "y")])]); (s "d", VStr (s "2")); (s "e", VNil)].

Example new_map_code_run_ok :
  fn_NewMap (run_ValuesForPath (fun _ => None) gstate0) run_addNewVal gstate0 g30_mv
            [s "a.b:x"; s ""; s "a.c:x"; s "d:x.y."; s "zz:q"]
  = Ret ([(s "x", VList [VStr (s "1"); VList [VStr (s "x"); VStr (s "y")]; VMap [(s "y", VStr (s "2"))]])], None).
Proof. vm_compute. reflexivity. Qed.

Example new_map_code_run_err :
  fn_NewMap (run_ValuesForPath (fun _ => None) gstate0) run_addNewVal gstate0 g30_mv
            [s "a.b:x"; s "d:x.y"; s "a:b:c"; s "e:z"]
  = Ret ([(s "x", VList [VStr (s "1"); VMap [(s "y", VStr (s "2"))]])], Some EOther).
Proof. vm_compute. reflexivity. Qed.

Example gstate0_fieldSep : g_fieldSep gstate0 <> [].
Proof. vm_compute. discriminate. Qed.
