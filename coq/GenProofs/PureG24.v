(* The two ValuesForPath models agree: the located one (values_for_path_loc, Model/TreeOps.v: every value together with the
   position it lives at), with the positions dropped, IS the ordinary one (values_for_path, Model/KeyValues.v) called
   without sub-keys - same values, same order, same error, for every receiver, every path, every ParseFloat oracle and
   every field separator (no hypothesis at all: without sub-keys neither the oracle nor the separator is consulted).
   Consequence: the lens vfp_lens of GenProofs/PureG23.v (first located value + put function), which the proof of
   fn_SetValueForPath takes for its Map.ValueForPath call, reports exactly the value the translated Map.ValueForPath
   (Gen/Pure_gen.v fn_ValueForPath, GenProofs/PureG7.v) returns, with the same error otherwise; neither ever panics. *)
From Coq Require Import Lia.
From Mxj Require Import Gen.GenSupport Gen.Setters_gen Gen.PureSupport Gen.Pure_gen Model.KeyValues Model.TreeOps.
From Mxj Require Import Proofs.StrLemmas Proofs.KVTotal GenProofs.PureG2 GenProofs.PureG5 GenProofs.PureG7 GenProofs.PureG23.

(* ------------------------------------------------------------------ list helpers *)
Lemma flat_mapi_values {A} (f : nat -> A -> list (pos * value)) (g : A -> list value) (l : list A) :
  (forall i x, map snd (f i x) = g x) -> forall i, map snd (flat_mapi f l i) = flat_map g l.
Proof.
  intros H. induction l as [|x t IH]; intros i; [reflexivity|].
  cbn [flat_mapi flat_map]. rewrite map_app, H, IH. reflexivity.
Qed.

Lemma flat_map_values {A} (f : A -> list (pos * value)) (g : A -> list value) (l : list A) :
  (forall x, map snd (f x) = g x) -> map snd (flat_map f l) = flat_map g l.
Proof.
  intros H. induction l as [|x t IH]; [reflexivity|].
  cbn [flat_map]. rewrite map_app, H, IH. reflexivity.
Qed.

Lemma flat_map_values_snd (f : pos * value -> list (pos * value)) (g : value -> list value) (l : list (pos * value)) :
  (forall x, map snd (f x) = g (snd x)) -> map snd (flat_map f l) = flat_map g (map snd l).
Proof.
  intros H. induction l as [|x t IH]; [reflexivity|].
  cbn [flat_map map]. rewrite map_app, H, IH. reflexivity.
Qed.

Lemma flat_map_single {A} (l : list A) : flat_map (fun v => [v]) l = l.
Proof. induction l as [|x t IH]; [reflexivity|]. cbn [flat_map app]. rewrite IH. reflexivity. Qed.

Lemma filter_true {A} (l : list A) : filter (fun _ => true) l = l.
Proof. induction l as [|x t IH]; [reflexivity|]. cbn [filter]. rewrite IH. reflexivity. Qed.

Lemma nth_z_values (vals : list (pos * value)) z :
  nth_z (map snd vals) z = match nth_z vals z with Some x => Some (snd x) | None => None end.
Proof.
  unfold nth_z. rewrite map_length.
  destruct (Z.ltb z (Z.of_nat (length vals))); [|reflexivity].
  rewrite nth_error_map. destruct (nth_error vals (Z.to_nat z)); reflexivity.
Qed.

(* without sub-keys every value passes hasSubKeys *)
Lemma filter_no_sub_keys (l : list value) : filter (fun v => has_sub_keys v []) l = l.
Proof. exact (filter_true l). Qed.

(* ------------------------------------------------------------------ valuesForKeyPath *)
Lemma vfkp_loc_values keys : forall m p, map snd (vfkp_loc keys m p) = vfkp keys [] m.
Proof.
  induction keys as [|key rest IH]; intros m p.
  - cbn [vfkp_loc vfkp vfkp_leaf]. destruct m; try reflexivity.
    cbn [vfkp_leaf has_sub_keys]. rewrite filter_true.
    rewrite (flat_mapi_values _ (fun v => [v])) by (intros; reflexivity).
    apply flat_map_single.
  - cbn [vfkp_loc vfkp]. destruct (str_eqb key star).
    + destruct m; try reflexivity.
      * apply flat_map_values. intros kv. apply IH.
      * apply flat_mapi_values. intros i v. destruct v; try apply IH.
        apply flat_map_values. intros kv. apply IH.
    + destruct m; try reflexivity.
      * destruct (lookup key m); [apply IH|reflexivity].
      * apply flat_mapi_values. intros i v. destruct v; try reflexivity.
        destruct (lookup key m); [apply IH|reflexivity].
Qed.

Lemma ovfp_loc_values m path p : map snd (ovfp_loc m path p) = ovfp m path.
Proof. apply vfkp_loc_values. Qed.

(* ------------------------------------------------------------------ valuesForArray *)
Lemma vfa_loc_values keys : forall m p tmp vals,
  map snd (vfa_loc keys m p tmp vals) = vfa keys m tmp (map snd vals).
Proof.
  induction keys as [|k rest IH]; intros m p tmp vals; [reflexivity|].
  cbn [vfa_loc vfa]. cbv zeta.
  destruct (negb (pk_arr k) && match rest with [] => false | k2 :: _ => pk_arr k2 end).
  - rewrite <- (ovfp_loc_values m (tmp_path tmp (pk_name k)) p).
    apply flat_map_values_snd. intros [q v]. cbn [fst snd].
    destruct v; try reflexivity. apply (IH _ q None []).
  - destruct (pk_arr k || match rest with [] => true | _ :: _ => false end).
    + rewrite <- (ovfp_loc_values m (tmp_path tmp (pk_name k)) p).
      destruct rest as [|k2 rest'].
      * destruct (pk_arr k); [|reflexivity].
        rewrite nth_z_values. destruct (nth_z _ (pk_pos k)) as [x|]; reflexivity.
      * rewrite nth_z_values.
        destruct (pk_arr k);
          (destruct (nth_z (ovfp_loc m (tmp_path tmp (pk_name k)) p) (pk_pos k)) as [[q v]|]; [|reflexivity];
           cbn [fst snd]; destruct v; try reflexivity; apply IH).
    + apply IH.
Qed.

(* ------------------------------------------------------------------ 1. ValuesForPath *)
Theorem values_for_path_loc_values : forall pf sep m path,
  values_for_path pf sep m path [] = bind (values_for_path_loc m path) (fun l => Ok (map snd l)).
Proof.
  intros pf sep m path. unfold values_for_path, values_for_path_loc, old_values_for_path.
  change (get_sub_key_map pf sep []) with (Ok ([] : entries)). cbn [bind].
  destruct (negb (mem_ascii lbr path)).
  - cbn [bind]. unfold ovfp_loc. rewrite vfkp_loc_values. reflexivity.
  - destruct (parse_path path) as [ks|e|]; cbn [bind]; try reflexivity.
    rewrite filter_no_sub_keys. unfold values_for_array.
    rewrite (vfa_loc_values ks m [] None []). reflexivity.
Qed.
Print Assumptions values_for_path_loc_values.

(* the same, outcome by outcome; the located model never panics (KVTotal.values_for_path_loc_no_panic), so neither does
   ValuesForPath without sub-keys *)
Theorem values_for_path_loc_values_outcome : forall pf sep m path,
  (exists l, values_for_path_loc m path = Ok l /\ values_for_path pf sep m path [] = Ok (map snd l))
  \/ (exists e, values_for_path_loc m path = Err e /\ values_for_path pf sep m path [] = Err e).
Proof.
  intros pf sep m path. rewrite values_for_path_loc_values.
  pose proof (values_for_path_loc_no_panic m path) as NP.
  destruct (values_for_path_loc m path) as [l|e|]; cbn [bind].
  - left. exists l. split; reflexivity.
  - right. exists e. split; reflexivity.
  - exfalso. apply NP. reflexivity.
Qed.
Print Assumptions values_for_path_loc_values_outcome.

(* the number of located values is the number of values *)
Corollary values_for_path_loc_length : forall pf sep m path l,
  values_for_path_loc m path = Ok l ->
  exists vs, values_for_path pf sep m path [] = Ok vs /\ length vs = length l /\ vs = map snd l.
Proof.
  intros pf sep m path l H. exists (map snd l). rewrite values_for_path_loc_values, H. cbn [bind].
  rewrite map_length. repeat split; reflexivity.
Qed.

(* ------------------------------------------------------------------ 2. ValueForPath and the lens *)
(* model level: ValueForPath is the first component of the lens *)
Theorem value_for_path_is_lens_get : forall pf sep mv path,
  value_for_path pf sep (VMap mv) path = bind (vfp_lens mv path) (fun x => Ok (fst x)).
Proof.
  intros pf sep mv path. unfold value_for_path, vfp_lens. rewrite values_for_path_loc_values.
  destruct (values_for_path_loc (VMap mv) path) as [l|e|]; cbn [bind]; try reflexivity.
  destruct l as [|[p v] l]; reflexivity.
Qed.
Print Assumptions value_for_path_is_lens_get.

Lemma vfp_lens_no_panic mv path : vfp_lens mv path <> Panic.
Proof.
  unfold vfp_lens. pose proof (values_for_path_loc_no_panic (VMap mv) path) as NP.
  destruct (values_for_path_loc (VMap mv) path) as [l|e|]; [|discriminate|congruence].
  destruct l as [|[p v] l]; discriminate.
Qed.

(* code level: Map.ValueForPath as translated from the current sources, its ValuesForPath call being the translated
   Map.ValuesForPath, returns the value the lens reports, or the lens's error *)
Theorem value_for_path_code_is_lens : forall pf st mv path, g_fieldSep st <> [] ->
  fn_ValueForPath (run_ValuesForPath pf st) st mv path
  = match vfp_lens mv path with
    | Ok (v, _) => Ret (Ok v)
    | Err e => Ret (Err e)
    | Panic => Crash
    end.
Proof.
  intros pf st mv path H. rewrite value_for_path_code_is_model by exact H.
  rewrite value_for_path_is_lens_get.
  destruct (vfp_lens mv path) as [[v put]|e|]; reflexivity.
Qed.
Print Assumptions value_for_path_code_is_lens.

(* the Panic branch never occurs: value found, or error *)
Theorem value_for_path_code_lens_outcome : forall pf st mv path, g_fieldSep st <> [] ->
  (exists v put, vfp_lens mv path = Ok (v, put)
                 /\ fn_ValueForPath (run_ValuesForPath pf st) st mv path = Ret (Ok v))
  \/ (exists e, vfp_lens mv path = Err e
                /\ fn_ValueForPath (run_ValuesForPath pf st) st mv path = Ret (Err e)).
Proof.
  intros pf st mv path H. rewrite value_for_path_code_is_lens by exact H.
  pose proof (vfp_lens_no_panic mv path) as NP.
  destruct (vfp_lens mv path) as [[v put]|e|].
  - left. exists v, put. split; reflexivity.
  - right. exists e. split; reflexivity.
  - exfalso. apply NP. reflexivity.
Qed.
Print Assumptions value_for_path_code_lens_outcome.

Theorem value_for_path_code_no_crash : forall pf st mv path, g_fieldSep st <> [] ->
  fn_ValueForPath (run_ValuesForPath pf st) st mv path <> Crash.
Proof.
  intros pf st mv path H.
  destruct (value_for_path_code_lens_outcome pf st mv path H) as [[v [put [_ ->]]]|[e [_ ->]]]; discriminate.
Qed.
Print Assumptions value_for_path_code_no_crash.

(* ------------------------------------------------------------------ concrete runs (both sides computed) *)
Definition ex24 : entries :=
  [(s"a", VList [VMap [(s"b", VInt 1); (s"c", VList [VInt 10; VInt 11])];
                 VMap [(s"b", VInt 2); (s"c", VStr (s"x"))];
                 VInt 3]);
   (s"d", VMap [(s"b", VList []); (s"e", VNil)]);
   (s"f", VInt 7)].
Definition nopf24 : str -> option flt := fun _ => None.

Example ex24_plain :
  values_for_path_loc (VMap ex24) (s"a.b") = Ok [([SK (s"a"); SI 0; SK (s"b")], VInt 1); ([SK (s"a"); SI 1; SK (s"b")], VInt 2)] /\
  values_for_path nopf24 (s":") (VMap ex24) (s"a.b") [] = Ok [VInt 1; VInt 2] /\
  values_for_path_loc (VMap ex24) (s"a") = Ok [([SK (s"a"); SI 0], VMap [(s"b", VInt 1); (s"c", VList [VInt 10; VInt 11])]);
                                              ([SK (s"a"); SI 1], VMap [(s"b", VInt 2); (s"c", VStr (s"x"))]);
                                              ([SK (s"a"); SI 2], VInt 3)] /\
  values_for_path_loc (VMap ex24) (s"zz.b") = Ok [] /\ values_for_path nopf24 [] (VMap ex24) (s"zz.b") [] = Ok [] /\
  (* the empty path: the receiver itself, at the root position *)
  values_for_path_loc (VMap ex24) [] = Ok [([], VMap ex24)] /\ values_for_path nopf24 [] (VMap ex24) [] [] = Ok [VMap ex24] /\
  values_for_path_loc (VMap ex24) (s"d.b") = Ok [] /\ values_for_path nopf24 (s":") (VMap ex24) (s"d.b") [] = Ok [].
Proof. vm_compute. repeat split. Qed.

Example ex24_star :
  values_for_path_loc (VMap ex24) (s"*.b") = Ok [([SK (s"a"); SI 0; SK (s"b")], VInt 1); ([SK (s"a"); SI 1; SK (s"b")], VInt 2)] /\
  values_for_path nopf24 (s":") (VMap ex24) (s"*.b") [] = Ok [VInt 1; VInt 2] /\
  values_for_path nopf24 (s":") (VMap ex24) (s"a.*") [] = Ok [VInt 1; VInt 10; VInt 11; VInt 2; VStr (s"x"); VInt 3] /\
  bind (values_for_path_loc (VMap ex24) (s"a.*")) (fun l => Ok (map snd l))
    = Ok [VInt 1; VInt 10; VInt 11; VInt 2; VStr (s"x"); VInt 3] /\
  values_for_path_loc (VMap ex24) (s"*") = Ok [([SK (s"a"); SI 0], VMap [(s"b", VInt 1); (s"c", VList [VInt 10; VInt 11])]);
                                              ([SK (s"a"); SI 1], VMap [(s"b", VInt 2); (s"c", VStr (s"x"))]);
                                              ([SK (s"a"); SI 2], VInt 3);
                                              ([SK (s"d")], VMap [(s"b", VList []); (s"e", VNil)]);
                                              ([SK (s"f")], VInt 7)].
Proof. vm_compute. repeat split. Qed.

Example ex24_indexed :
  values_for_path_loc (VMap ex24) (s"a[1].b") = Ok [([SK (s"a"); SI 1; SK (s"b")], VInt 2)] /\
  values_for_path nopf24 (s":") (VMap ex24) (s"a[1].b") [] = Ok [VInt 2] /\
  values_for_path_loc (VMap ex24) (s"a[0].c[1]") = Ok [([SK (s"a"); SI 0; SK (s"c"); SI 1], VInt 11)] /\
  values_for_path nopf24 (s":") (VMap ex24) (s"a[0].c[1]") [] = Ok [VInt 11] /\
  values_for_path_loc (VMap ex24) (s"a[9]") = Ok [] /\ values_for_path nopf24 (s":") (VMap ex24) (s"a[9]") [] = Ok [] /\
  values_for_path_loc (VMap ex24) (s"a[2].b") = Ok [] /\ values_for_path nopf24 (s":") (VMap ex24) (s"a[2].b") [] = Ok [] /\
  values_for_path_loc (VMap ex24) (s"a[x]") = Err EOther /\ values_for_path nopf24 (s":") (VMap ex24) (s"a[x]") [] = Err EOther /\
  values_for_path_loc (VMap ex24) (s"a[-1]") = Err EOther /\ values_for_path nopf24 (s":") (VMap ex24) (s"a[-1]") [] = Err EOther /\
  values_for_path_loc (VMap ex24) (s"a[") = Err EOther /\ values_for_path nopf24 (s":") (VMap ex24) (s"a[") [] = Err EOther.
Proof. vm_compute. repeat split. Qed.

(* the lens and ValueForPath on the same inputs *)
Example ex24_lens :
  (exists put, vfp_lens ex24 (s"a[1].b") = Ok (VInt 2, put) /\
     put (VInt 9) = [(s"a", VList [VMap [(s"b", VInt 1); (s"c", VList [VInt 10; VInt 11])];
                                   VMap [(s"b", VInt 9); (s"c", VStr (s"x"))];
                                   VInt 3]);
                     (s"d", VMap [(s"b", VList []); (s"e", VNil)]);
                     (s"f", VInt 7)]) /\
  value_for_path nopf24 (s":") (VMap ex24) (s"a[1].b") = Ok (VInt 2) /\
  vfp_lens ex24 (s"zz") = Err EOther /\ value_for_path nopf24 (s":") (VMap ex24) (s"zz") = Err EOther /\
  vfp_lens ex24 (s"a[x]") = Err EOther /\ value_for_path nopf24 (s":") (VMap ex24) (s"a[x]") = Err EOther.
Proof. vm_compute. repeat split. eexists. split; reflexivity. Qed.
