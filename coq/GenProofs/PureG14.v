(* xmlToMapParser (xml.go:370-538, the core of NewMapXml), as go2v translated it from /repo's CURRENT sources
   (Gen/Pure_gen.v: fn_xmlToMapParser - key transformation, the attribute loop, the XMPP early return, the token loop
   `for { t, err := p.Token() ... switch t.(type) }` with the recursion for child elements, the _seq augmentation, list
   building on repeated keys, the three shapes at the end tag, character data) IS the model decoder of Model/XmlDec.v
   (top_loop / elem_loop / xml_decode_rest), for every option setting (dec_view), every cast flag, every terminator and
   every token list whose start tags have a non-empty local name (start_ok; encoding/xml never returns an empty name;
   without it code and model differ: xml_parser_code_is_model_empty_name_refuted).

   Method: the loop body is taken out of the translated function itself (dec_body, the recursive occurrence abstracted
   as [rec]; dec_attr_body for the attribute loop); one lemma per token kind computes one iteration (body_eof, body_end,
   body_char, body_start_ok/err/crash, body_other and the top-level variants with the nil maps); fn_prelude computes
   the statements before the loop; elem_loop_code is the induction over the tokens of one element (state
   (p, seq, na, true, enc skey n, true) of the code versus (n, na, seq, ts) of the model), fn_elem the induction on the
   recursion fuel, top_loop_code the top-level call.  The callees escapeChars / cast are any functions pointwise equal
   to the model's (so both the model functions and the translated fn_escapeChars / fn_cast can be plugged in). *)
From Coq Require Import Lia.
From Mxj Require Import Gen.GenSupport Gen.Setters_gen Gen.PureSupport Gen.Pure_gen Model.XmlDec.
From Mxj Require Import Proofs.StrLemmas Spec.ConvClauses Proofs.C01P Proofs.C01E GenProofs.PureG.

Definition dec_result : Type := (res entries * xdecoder)%type.
Definition dec_state : Type := (xdecoder * Z * entries * bool * entries * bool)%type.
Definition dec_rec : Type := gstate -> str -> list xattr -> xdecoder -> bool -> ctl unit dec_result.

Definition dec_body_f (esc : str -> str) (ecast : str -> bool -> str -> value) (f : nat) (st : gstate) (skey : str) (r : bool)
  : dec_state -> ctl dec_state dec_result :=
  ltac:(let t := eval cbv beta iota zeta delta [fn_xmlToMapParser] in (fn_xmlToMapParser ecast esc (S f) st skey [] ([], TermEOF) r) in
        match t with @bindc _ _ _ _ ?k1 =>
          let t1 := eval cbv beta in (k1 skey) in
          match t1 with @bindc _ _ _ _ ?k2 =>
            let t2 := eval cbv beta in (k2 skey) in
            match t2 with context [for_loop _ ?b _] => exact b end
          end
        end).

Definition dec_body (esc : str -> str) (ecast : str -> bool -> str -> value) (rec : dec_rec) (st : gstate) (skey : str) (r : bool)
  : dec_state -> ctl dec_state dec_result :=
  ltac:(let F := eval cbv beta iota zeta delta [fn_xmlToMapParser] in (fn_xmlToMapParser ecast esc) in
        let b := eval cbv beta iota zeta delta [dec_body_f fn_xmlToMapParser] in (fun f => dec_body_f esc ecast f st skey r) in
        let b' := eval pattern F in b in
        match b' with ?g _ => let r := eval cbv beta in (g (fun _ : nat => rec) O) in exact r end).

(* the body of the attribute loop *)
Definition dec_attr_body (esc : str -> str) (ecast : str -> bool -> str -> value) (st : gstate) (r : bool)
  : entries * bool -> xattr -> ctl (entries * bool) dec_result :=
  ltac:(let t := eval cbv beta iota zeta delta [fn_xmlToMapParser] in (fn_xmlToMapParser ecast esc 1 st [] [] ([], TermEOF) r) in
        match t with context [range_loop ?b _ _] => exact b end).

Definition dec_after : dec_state -> ctl unit dec_result := fun '(_, _, _, _, _, _) => Fall.

Lemma fn_xmlToMapParser_unfold esc ecast f st skey a p r :
  fn_xmlToMapParser ecast esc (S f) st skey a p r =
  bindc (if g_lowerCase st then Next (to_lower skey) else Next skey) (fun sk1 =>
  bindc (if g_snakeCaseKeys st then Next (go_replace sk1 (s "-") (s "_") (-1)) else Next sk1) (fun sk =>
  bindc (S := (entries * bool * entries * bool))
        (if negb (str_eqb sk [])
         then if Z.gtb (Z.of_nat (length a)) 0
              then bindc (range_loop (dec_attr_body esc ecast st r) a ([], true))
                         (fun '(l_na, l_na_made) => Next ([], true, l_na, l_na_made))
              else Next ([], true, [], true)
         else Next ([], false, [], false))
  (fun '(l_n, l_n_made, l_na, l_na_made) =>
  bindc (S := unit) (if g_handleXMPPStreamTag st
         then if str_eqb sk (s "stream")
              then if negb l_n_made then Crash else Ret (Ok (set sk (VMap l_na) l_n), p)
              else Next tt
         else Next tt)
  (fun _ => bindc (for_loop (S (length (fst p))) (dec_body esc ecast (fn_xmlToMapParser ecast esc f) st sk r)
                            (p, 0%Z, l_na, l_na_made, l_n, l_n_made)) dec_after)))).
Proof. reflexivity. Qed.

(* ------------------------------------------------------------------ the view of the package state *)

Definition dec_view (st : gstate) (o : opts) : Prop :=
  lowerCase o = g_lowerCase st /\ snakeCaseKeys o = g_snakeCaseKeys st /\ attrPrefix o = g_attrPrefix st /\
  xmlEscapeCharsDecoder o = g_xmlEscapeCharsDecoder st /\ handleXMPPStreamTag o = g_handleXMPPStreamTag st /\
  includeTagSeqNum o = g_includeTagSeqNum st /\ textK o = g_textK st /\ trimRunes o = g_trimRunes st /\
  decodeSimpleValuesAsMap o = g_decodeSimpleValuesAsMap st.

(* ------------------------------------------------------------------ small facts *)

Lemma repl1_neg c rep x : forall n, (n < 0)%Z -> repl_aux [c] rep x n 0 = replace1 c rep x.
Proof.
  induction x as [|a x IH]; intros n Hn; [reflexivity|].
  cbn [repl_aux prefixb length Nat.sub]. unfold replace1. cbn [flat_map].
  rewrite (Ascii.eqb_sym a c).
  replace (Z.eqb n 0) with false by (symmetry; apply Z.eqb_neq; lia). cbn [negb andb].
  destruct (Ascii.eqb c a) eqn:E; cbn [andb].
  - f_equal. apply IH. lia.
  - cbn [app]. f_equal. apply IH. exact Hn.
Qed.

Lemma replace1_char c d x : replace1 c [d] x = replace_char c d x.
Proof.
  unfold replace1, replace_char. induction x as [|a x IH]; [reflexivity|].
  cbn [flat_map map]. rewrite IH. destruct (Ascii.eqb a c); reflexivity.
Qed.

Lemma go_replace_dash x : go_replace x (s "-") (s "_") (-1) = replace_char "-"%char "_"%char x.
Proof.
  unfold go_replace, bytes_replace. cbn [s list_ascii_of_string].
  rewrite repl1_neg by lia. apply replace1_char.
Qed.

Lemma len_gtb {A} (l : list A) : Z.gtb (Z.of_nat (length l)) 0 = match l with [] => false | _ => true end.
Proof. destruct l; reflexivity. Qed.

Lemma for_loop_S {S A} f (body : S -> ctl S A) s0 :
  for_loop (Datatypes.S f) body s0 =
  match body s0 with Next s' => for_loop f body s' | Brk s' => Next s' | r => r end.
Proof. reflexivity. Qed.

(* the map n of the code: empty, or the one entry skey -> the character data *)
Definition enc (skey : str) (n : option value) : entries :=
  match n with None => [] | Some v => [(skey, v)] end.

Section Dec.
Variable pf : str -> option flt.
Variable skip : str -> bool.
Variable o : opts.
Variable r : bool.
Variable st : gstate.
Variable esc : str -> str.
Variable ecast : str -> bool -> str -> value.
Hypothesis Hview : dec_view st o.
Hypothesis Hesc : forall x, esc x = escape_chars x.
Hypothesis Hcast : forall x b t, ecast x b t = cast pf skip o x b t.

Ltac view_rw :=
  let V1 := fresh "V" in let V2 := fresh "V" in let V3 := fresh "V" in let V4 := fresh "V" in let V5 := fresh "V" in
  let V6 := fresh "V" in let V7 := fresh "V" in let V8 := fresh "V" in let V9 := fresh "V" in
  destruct Hview as (V1 & V2 & V3 & V4 & V5 & V6 & V7 & V8 & V9);
  rewrite ?V1, ?V2, ?V3, ?V4, ?V5, ?V6, ?V7, ?V8, ?V9.

Notation body := (dec_body esc ecast).

(* ---- one iteration of the token loop, by token ---- *)

Lemma body_eof rec skey tm seq na nam n nm :
  body rec st skey r (([], tm), seq, na, nam, n, nm) = Ret (Err (err_of tm), ([], tm)).
Proof. unfold dec_body. cbn [go_token fst snd bindc negb]. destruct tm; reflexivity. Qed.

Lemma body_other rec skey tk ts tm seq na nam n nm :
  other_ok tk = true ->
  body rec st skey r ((tk :: ts, tm), seq, na, nam, n, nm) = Next ((ts, tm), seq, na, nam, n, nm).
Proof.
  intros Hk. unfold dec_body. cbn [go_token fst snd bindc negb].
  destruct tk; cbn [other_ok] in Hk; try discriminate; reflexivity.
Qed.

Lemma body_end rec skey nm ts tm seq na n :
  body rec st skey r ((TEnd nm :: ts, tm), seq, na, true, enc skey n, true)
  = Ret (Ok [(skey, finish_elem o n na)], (ts, tm)).
Proof.
  unfold dec_body. cbn [go_token fst snd bindc negb]. unfold finish_elem. view_rw.
  rewrite len_gtb.
  destruct n as [v|]; destruct na as [|e na']; cbn [enc length Z.of_nat Z.eqb bindc negb set range_loop];
    rewrite ?str_eqb_refl; reflexivity.
Qed.

Lemma body_end_top rec nm ts tm seq :
  body rec st [] r ((TEnd nm :: ts, tm), seq, [], false, [], false) = Crash.
Proof. unfold dec_body. cbn [go_token fst snd bindc negb]. reflexivity. Qed.

Lemma body_char_top rec x ts tm seq :
  body rec st [] r ((TChar x :: ts, tm), seq, [], false, [], false) = Next ((ts, tm), seq, [], false, [], false).
Proof.
  unfold dec_body. cbn [go_token fst snd bindc negb str_eqb].
  destruct (g_xmlEscapeCharsDecoder st); cbn [bindc];
    match goal with |- context [Z.gtb ?a 0] => destruct (Z.gtb a 0) end; reflexivity.
Qed.

Lemma body_char rec skey x ts tm seq na n :
  skey <> [] ->
  body rec st skey r ((TChar x :: ts, tm), seq, na, true, enc skey n, true)
  = Next ((ts, tm), seq, snd (on_chardata pf skip o r skey x n na), true,
          enc skey (fst (on_chardata pf skip o r skey x n na)), true).
Proof.
  intros Hne. apply str_eqb_neq in Hne.
  unfold dec_body. cbn [go_token fst snd bindc negb]. unfold on_chardata, go_trim. view_rw.
  rewrite Hne. cbn [negb].
  destruct (g_xmlEscapeCharsDecoder st); cbn [bindc]; rewrite ?Hesc, !len_gtb, !Hcast;
    [ generalize (escape_chars (trim (g_trimRunes st) x)) | generalize (trim (g_trimRunes st) x) ].
  all: intros [|c0 tt']; [reflexivity|].
  all: destruct na as [|e na']; cbn [orb negb].
  all: try (destruct (g_decodeSimpleValuesAsMap st)); cbn [fst snd enc]; try reflexivity.
  all: destruct n as [v|]; cbn [enc set]; rewrite ?str_eqb_refl; reflexivity.
Qed.

Lemma body_start_top (rec : dec_rec) nm a ts tm seq :
  body rec st [] r ((TStart nm a :: ts, tm), seq, [], false, [], false)
  = bindr (rec st (xlocal nm) a (ts, tm) r) (fun r_ => Ret r_).
Proof.
  unfold dec_body. cbn [go_token fst snd bindc negb str_eqb].
  destruct (rec st (xlocal nm) a (ts, tm) r); reflexivity.
Qed.

Lemma body_start_ok (rec : dec_rec) skey nm a ts tm seq na n k v p' :
  skey <> [] ->
  rec st (xlocal nm) a (ts, tm) r = Ret (Ok [(k, v)], p') ->
  body rec st skey r ((TStart nm a :: ts, tm), seq, na, true, n, true)
  = Next (p', snd (tag_seq o v seq), add_child k (fst (tag_seq o v seq)) na, true, n, true).
Proof.
  intros Hne Hr. apply str_eqb_neq in Hne.
  unfold dec_body. cbn [go_token fst snd bindc negb]. rewrite Hne, Hr. cbn [bindc bindr negb].
  unfold tag_seq, add_child, seq_key. view_rw.
  destruct (g_includeTagSeqNum st); [destruct v|]; cbn [bindc fst snd set];
    (destruct (lookup k na) as [[ | | | | | | | | | ]|]; reflexivity).
Qed.

Lemma body_start_err (rec : dec_rec) skey nm a ts tm seq na n e p' :
  skey <> [] ->
  rec st (xlocal nm) a (ts, tm) r = Ret (Err e, p') ->
  body rec st skey r ((TStart nm a :: ts, tm), seq, na, true, n, true) = Ret (Err e, p').
Proof.
  intros Hne Hr. apply str_eqb_neq in Hne.
  unfold dec_body. cbn [go_token fst snd bindc negb]. rewrite Hne, Hr. reflexivity.
Qed.

Lemma body_start_crash (rec : dec_rec) skey nm a ts tm seq na n :
  skey <> [] ->
  rec st (xlocal nm) a (ts, tm) r = Crash ->
  body rec st skey r ((TStart nm a :: ts, tm), seq, na, true, n, true) = Crash.
Proof.
  intros Hne Hr. apply str_eqb_neq in Hne.
  unfold dec_body. cbn [go_token fst snd bindc negb]. rewrite Hne, Hr. reflexivity.
Qed.

(* ---- the attribute loop ---- *)

Definition attr_step (na : entries) (at_ : xattr) : entries :=
  let key := attr_key o (xlocal (aname at_)) in
  let v := if xmlEscapeCharsDecoder o then escape_chars (avalue at_) else avalue at_ in
  set key (cast pf skip o v r key) na.

Lemma attr_body_step na at_ :
  dec_attr_body esc ecast st r (na, true) at_ = Next (attr_step na at_, true).
Proof.
  destruct at_ as [[sp loc] v]. unfold dec_attr_body, attr_step, attr_key. cbn [aname avalue xlocal].
  view_rw.
  destruct (g_snakeCaseKeys st); destruct (g_lowerCase st); destruct (g_xmlEscapeCharsDecoder st);
    cbn [bindc negb]; rewrite ?go_replace_dash, ?Hesc, Hcast; reflexivity.
Qed.

Lemma attr_loop a : forall na,
  range_loop (dec_attr_body esc ecast st r) a (na, true) = Next (fold_left attr_step a na, true).
Proof.
  induction a as [|at_ a IH]; intros na; [reflexivity|].
  cbn [range_loop fold_left]. rewrite attr_body_step. apply IH.
Qed.

Lemma attr_entries_fold a : attr_entries pf skip o r a = fold_left attr_step a [].
Proof. reflexivity. Qed.

(* ---- the statements before the loop ---- *)

Definition dec_loop (rec : dec_rec) (skey : str) (fuel : nat) (s0 : dec_state) : ctl unit dec_result :=
  bindc (for_loop fuel (body rec st skey r) s0) dec_after.

Lemma fn_prelude f skey a ts tm :
  fn_xmlToMapParser ecast esc (S f) st skey a (ts, tm) r =
  match xform_key o skey with
  | [] => dec_loop (fn_xmlToMapParser ecast esc f) [] (S (length ts)) ((ts, tm), 0%Z, [], false, [], false)
  | ckey => if handleXMPPStreamTag o && str_eqb ckey (s "stream")
            then Ret (Ok [(ckey, VMap (attr_entries pf skip o r a))], (ts, tm))
            else dec_loop (fn_xmlToMapParser ecast esc f) ckey (S (length ts))
                          ((ts, tm), 0%Z, attr_entries pf skip o r a, true, [], true)
  end.
Proof.
  rewrite fn_xmlToMapParser_unfold. unfold xform_key, dec_loop. view_rw.
  assert (E1 : forall (k : str -> ctl unit dec_result),
            bindc (if g_lowerCase st then Next (to_lower skey) else Next skey) k
            = k (if g_lowerCase st then to_lower skey else skey)) by (intros k; destruct (g_lowerCase st); reflexivity).
  rewrite E1. clear E1. set (sk1 := if g_lowerCase st then to_lower skey else skey). clearbody sk1.
  assert (E2 : forall (k : str -> ctl unit dec_result),
            bindc (if g_snakeCaseKeys st then Next (go_replace sk1 (s "-") (s "_") (-1)) else Next sk1) k
            = k (if g_snakeCaseKeys st then replace_char "-"%char "_"%char sk1 else sk1))
    by (intros k; rewrite go_replace_dash; destruct (g_snakeCaseKeys st); reflexivity).
  rewrite E2. clear E2. set (sk := if g_snakeCaseKeys st then _ else sk1). clearbody sk.
  assert (En : negb (str_eqb sk []) = match sk with [] => false | _ => true end) by (destruct sk; reflexivity).
  rewrite En. clear En.
  destruct sk as [|c0 sk'].
  - cbn [str_eqb negb bindc fst]. destruct (g_handleXMPPStreamTag st); reflexivity.
  - rewrite len_gtb, attr_loop, <- attr_entries_fold.
    generalize (str_eqb (c0 :: sk') (s "stream")) as isst. intros isst.
    assert (Ea : match a with [] => true | _ => false end = true -> attr_entries pf skip o r a = []).
    { destruct a; [reflexivity|discriminate]. }
    destruct a as [|at_ a']; cbn [bindc fst negb andb set]; rewrite ?(Ea eq_refl);
      destruct (g_handleXMPPStreamTag st); cbn [andb bindc];
      try (destruct isst; reflexivity); reflexivity.
Qed.

(* ---- what a call for a child element returns, in the vocabulary of the model ---- *)

Definition conv_elem (tm : term) (x : res ((str * value) * list tok)) : ctl unit dec_result :=
  match x with
  | Ok (kv, rest) => Ret (Ok [kv], (rest, tm))
  | Err e => Ret (Err e, ([], tm))
  | Panic => Crash
  end.

Definition conv_top (tm : term) (x : res (entries * list tok)) : ctl unit dec_result :=
  match x with
  | Ok (m, rest) => Ret (Ok m, (rest, tm))
  | Err e => Ret (Err e, ([], tm))
  | Panic => Crash
  end.

(* the model's treatment of a start tag: the singleton of the child element and the tokens after it *)
Definition child_model (f2 : nat) (nm : xname) (a : list xattr) (ts : list tok) (tm : term)
  : res ((str * value) * list tok) :=
  if is_stream o nm
  then Ok ((xform_key o (xlocal nm), VMap (attr_entries pf skip o r a)), ts)
  else elem_loop pf skip o r f2 (xform_key o (xlocal nm)) None (attr_entries pf skip o r a) 0 ts tm.

Lemma child_post f2 nm a ts tm kv rest :
  child_model f2 nm a ts tm = Ok (kv, rest) -> length ts < f2 -> forallb start_ok ts = true ->
  length rest <= length ts /\ forallb start_ok rest = true.
Proof.
  unfold child_model. intros Hc Hf Hs. destruct (is_stream o nm).
  - injection Hc as _ <-. split; [lia|exact Hs].
  - pose proof (elem_loop_char pf skip o r tm f2 ts (xform_key o (xlocal nm)) None (attr_entries pf skip o r a) 0%Z Hf Hs) as HP.
    rewrite Hc in HP. cbn [loop_post] in HP. destruct HP as (_ & _ & H3 & H4). split; [lia|exact H4].
Qed.

Section Loop.
Variable rec : dec_rec.
Variable B : nat.
Variable tm : term.
Hypothesis Hrec : forall nm a ts f2,
  xlocal nm <> [] -> length ts < B -> length ts < f2 -> forallb start_ok ts = true ->
  rec st (xlocal nm) a (ts, tm) r = conv_elem tm (child_model f2 nm a ts tm).

Lemma elem_loop_code : forall N ts, length ts < N ->
  forall skey lf f2 n na seq,
  skey <> [] -> length ts <= B -> length ts < lf -> length ts < f2 -> forallb start_ok ts = true ->
  dec_loop rec skey lf ((ts, tm), seq, na, true, enc skey n, true)
  = conv_elem tm (elem_loop pf skip o r f2 skey n na seq ts tm).
Proof.
  induction N as [|N IH]; intros ts HN skey lf f2 n na seq Hne HB Hlf Hf2 Hs; [lia|].
  destruct lf as [|lf]; [lia|]. destruct f2 as [|f2]; [lia|].
  unfold dec_loop. rewrite for_loop_S.
  destruct ts as [|tk ts'].
  - rewrite body_eof, el_nil. reflexivity.
  - cbn [forallb] in Hs. apply andb_true_iff in Hs as [Hk Hs']. cbn [length] in HN, HB, Hlf, Hf2.
    destruct tk as [nm a|nm|x|x|x y|x].
    + cbn [start_ok] in Hk. apply negb_true_iff in Hk.
      assert (Hloc : xlocal nm <> []) by (intros H; rewrite H in Hk; discriminate).
      assert (Hx : xform_key o (xlocal nm) <> []) by (intros H; apply xform_key_nil in H; contradiction).
      rewrite (el_start_gen pf skip o r tm f2 skey n na seq nm a ts' Hx).
      pose proof (Hrec nm a ts' f2 Hloc ltac:(lia) ltac:(lia) Hs') as Hr.
      fold (child_model f2 nm a ts' tm).
      destruct (child_model f2 nm a ts' tm) as [[[k v] rest]|e|] eqn:EC; cbn [conv_elem] in Hr.
      * destruct (child_post f2 nm a ts' tm (k, v) rest EC ltac:(lia) Hs') as [Hl Hsr].
        rewrite (body_start_ok rec skey nm a ts' tm seq na (enc skey n) k v (rest, tm) Hne Hr).
        cbn [fst snd]. apply (IH rest ltac:(lia) skey lf f2 n); [exact Hne|lia|lia|lia|exact Hsr].
      * rewrite (body_start_err rec skey nm a ts' tm seq na (enc skey n) e ([], tm) Hne Hr). reflexivity.
      * rewrite (body_start_crash rec skey nm a ts' tm seq na (enc skey n) Hne Hr). reflexivity.
    + rewrite body_end, el_end. reflexivity.
    + rewrite (body_char rec skey x ts' tm seq na n Hne), el_char.
      apply (IH ts' ltac:(lia) skey lf f2); [exact Hne|lia|lia|lia|exact Hs'].
    + rewrite (body_other rec skey (TComment x) ts' tm seq na true (enc skey n) true eq_refl).
      rewrite (el_other pf skip o r f2 skey n na seq (TComment x) ts' tm eq_refl).
      apply (IH ts' ltac:(lia) skey lf f2); [exact Hne|lia|lia|lia|exact Hs'].
    + rewrite (body_other rec skey (TProcInst x y) ts' tm seq na true (enc skey n) true eq_refl).
      rewrite (el_other pf skip o r f2 skey n na seq (TProcInst x y) ts' tm eq_refl).
      apply (IH ts' ltac:(lia) skey lf f2); [exact Hne|lia|lia|lia|exact Hs'].
    + rewrite (body_other rec skey (TDirective x) ts' tm seq na true (enc skey n) true eq_refl).
      rewrite (el_other pf skip o r f2 skey n na seq (TDirective x) ts' tm eq_refl).
      apply (IH ts' ltac:(lia) skey lf f2); [exact Hne|lia|lia|lia|exact Hs'].
Qed.
End Loop.

(* ---- a call with the name of a start tag: the child element ---- *)

Lemma fn_elem : forall f nm a ts tm f2,
  xlocal nm <> [] -> length ts < f -> length ts < f2 -> forallb start_ok ts = true ->
  fn_xmlToMapParser ecast esc f st (xlocal nm) a (ts, tm) r = conv_elem tm (child_model f2 nm a ts tm).
Proof.
  induction f as [|f IHf]; intros nm a ts tm f2 Hloc Hf Hf2 Hs; [lia|].
  rewrite fn_prelude. unfold child_model, is_stream.
  destruct (xform_key o (xlocal nm)) as [|c0 k0] eqn:Ek; [apply xform_key_nil in Ek; contradiction|].
  destruct (handleXMPPStreamTag o && str_eqb (c0 :: k0) (s "stream")); [reflexivity|].
  apply (elem_loop_code (fn_xmlToMapParser ecast esc f) f tm) with (N := S (length ts)) (n := None).
  - intros nm' a' ts' f2' H1 H2 H3 H4. apply IHf; assumption.
  - lia.
  - discriminate.
  - lia.
  - lia.
  - exact Hf2.
  - exact Hs.
Qed.

(* ---- the top-level call: skey = "", nil maps ---- *)

Lemma top_loop_code f tm : forall ts lf F,
  length ts <= f -> length ts < lf -> length ts <= F -> forallb start_ok ts = true ->
  dec_loop (fn_xmlToMapParser ecast esc f) [] lf ((ts, tm), 0%Z, [], false, [], false)
  = conv_top tm (top_loop pf skip o r F ts tm).
Proof.
  induction ts as [|tk ts' IH]; intros lf F Hf Hlf HF Hs; (destruct lf as [|lf]; [cbn [length] in Hlf; lia|]);
    unfold dec_loop; rewrite for_loop_S.
  - rewrite body_eof. destruct tm; reflexivity.
  - cbn [forallb] in Hs. apply andb_true_iff in Hs as [Hk Hs']. cbn [length] in Hf, Hlf, HF.
    destruct tk as [nm a|nm|x|x|x y|x].
    + cbn [start_ok] in Hk. apply negb_true_iff in Hk.
      assert (Hloc : xlocal nm <> []) by (intros H; rewrite H in Hk; discriminate).
      rewrite body_start_top.
      rewrite (fn_elem f nm a ts' tm F Hloc ltac:(lia) ltac:(lia) Hs').
      cbn [top_loop]. unfold child_model, is_stream.
      destruct (xform_key o (xlocal nm)) as [|c0 k0] eqn:Ek; [apply xform_key_nil in Ek; contradiction|].
      destruct (handleXMPPStreamTag o && str_eqb (c0 :: k0) (s "stream")); [reflexivity|].
      destruct (elem_loop pf skip o r F (c0 :: k0) None (attr_entries pf skip o r a) 0 ts' tm) as [[kv rest]|e|];
        reflexivity.
    + rewrite body_end_top. reflexivity.
    + rewrite body_char_top. cbn [top_loop]. apply IH; [lia|lia|lia|exact Hs'].
    + rewrite (body_other _ [] (TComment x) ts' tm 0%Z [] false [] false eq_refl). cbn [top_loop].
      apply IH; [lia|lia|lia|exact Hs'].
    + rewrite (body_other _ [] (TProcInst x y) ts' tm 0%Z [] false [] false eq_refl). cbn [top_loop].
      apply IH; [lia|lia|lia|exact Hs'].
    + rewrite (body_other _ [] (TDirective x) ts' tm 0%Z [] false [] false eq_refl). cbn [top_loop].
      apply IH; [lia|lia|lia|exact Hs'].
Qed.

Lemma xform_key_empty : xform_key o [] = [].
Proof. unfold xform_key. destruct (lowerCase o); destruct (snakeCaseKeys o); reflexivity. Qed.

Theorem xml_parser_code_is_model_gen fuel ts tm :
  length ts < fuel -> forallb start_ok ts = true ->
  fn_xmlToMapParser ecast esc fuel st [] [] (ts, tm) r
  = conv_top tm (xml_decode_rest pf skip o r ts tm).
Proof.
  intros Hf Hs. destruct fuel as [|f]; [lia|].
  rewrite fn_prelude, xform_key_empty. unfold xml_decode_rest.
  apply top_loop_code; [lia|lia|lia|exact Hs].
Qed.
End Dec.

(* ------------------------------------------------------------------ the theorems *)

(* what the top-level call returns, in the vocabulary of the translation: the Map and the decoder after the root
   element; the error of the terminator with the decoder exhausted; a panic *)
Definition dec_top_result (tm : term) (x : res (entries * list tok)) : ctl unit (res entries * xdecoder) :=
  match x with
  | Ok (m, rest) => Ret (Ok m, (rest, tm))
  | Err e => Ret (Err e, ([], tm))
  | Panic => Crash
  end.

(* 1. the translated parser, called as NewMapXml calls it (skey = "", no attributes), with the model's cast and
   escapeChars as callees, IS the model decoder - on every token list whose start tags have a non-empty local name *)
Theorem xml_parser_code_is_model : forall pf skip o r st ts tm,
  dec_view st o -> forallb start_ok ts = true ->
  fn_xmlToMapParser (fun x b t => cast pf skip o x b t) escape_chars (S (length ts)) st [] [] (ts, tm) r
  = dec_top_result tm (xml_decode_rest pf skip o r ts tm).
Proof.
  intros pf skip o r st ts tm Hv Hs.
  apply (xml_parser_code_is_model_gen pf skip o r st escape_chars (fun x b t => cast pf skip o x b t) Hv);
    [reflexivity|reflexivity|lia|exact Hs].
Qed.

(* the same for any fuel above the number of tokens *)
Theorem xml_parser_code_is_model_fuel : forall pf skip o r st fuel ts tm,
  dec_view st o -> length ts < fuel -> forallb start_ok ts = true ->
  fn_xmlToMapParser (fun x b t => cast pf skip o x b t) escape_chars fuel st [] [] (ts, tm) r
  = dec_top_result tm (xml_decode_rest pf skip o r ts tm).
Proof.
  intros pf skip o r st fuel ts tm Hv Hf Hs.
  apply (xml_parser_code_is_model_gen pf skip o r st escape_chars (fun x b t => cast pf skip o x b t) Hv);
    [reflexivity|reflexivity|exact Hf|exact Hs].
Qed.

(* a call for an element (skey = the local name of its start tag, its attributes): the singleton Map of the element *)
Theorem xml_parser_elem_code_is_model : forall pf skip o r st fuel nm a ts tm,
  dec_view st o -> xlocal nm <> [] -> length ts < fuel -> forallb start_ok ts = true ->
  fn_xmlToMapParser (fun x b t => cast pf skip o x b t) escape_chars fuel st (xlocal nm) a (ts, tm) r
  = match (if is_stream o nm
           then Ok ((xform_key o (xlocal nm), VMap (attr_entries pf skip o r a)), ts)
           else elem_loop pf skip o r (S (length ts)) (xform_key o (xlocal nm)) None (attr_entries pf skip o r a) 0 ts tm) with
    | Ok (kv, rest) => Ret (Ok [kv], (rest, tm))
    | Err e => Ret (Err e, ([], tm))
    | Panic => Crash
    end.
Proof.
  intros pf skip o r st fuel nm a ts tm Hv Hloc Hf Hs.
  apply (fn_elem pf skip o r st escape_chars (fun x b t => cast pf skip o x b t) Hv (fun _ => eq_refl) (fun _ _ _ => eq_refl)
           fuel nm a ts tm (S (length ts)) Hloc Hf ltac:(lia) Hs).
Qed.

(* 2. with the TRANSLATED callees plugged in *)
Definition run_cast (pf : str -> option flt) (callskip : str -> bool) (st : gstate) (x : str) (b : bool) (t : str) : value :=
  match fn_cast pf callskip st x b t with Ret v => v | _ => VNil end.
Definition run_escapeChars (st : gstate) (x : str) : str :=
  match fn_escapeChars st x with Ret v => v | _ => [] end.

Theorem xml_parser_code_is_model_translated : forall pf callskip o r st fuel ts tm,
  dec_view st o -> cast_view st o -> length ts < fuel -> forallb start_ok ts = true ->
  fn_xmlToMapParser (run_cast pf callskip st) (run_escapeChars st) fuel st [] [] (ts, tm) r
  = dec_top_result tm (xml_decode_rest pf (skip_of st callskip) o r ts tm).
Proof.
  intros pf callskip o r st fuel ts tm Hv Hc Hf Hs.
  apply (xml_parser_code_is_model_gen pf (skip_of st callskip) o r st (run_escapeChars st) (run_cast pf callskip st) Hv);
    [ |  |exact Hf|exact Hs].
  - intros x. unfold run_escapeChars. rewrite escape_code_is_model. reflexivity.
  - intros x b t. unfold run_cast. rewrite (cast_code_is_model pf callskip st o x b t Hc). reflexivity.
Qed.

(* 3. no panic: on a token list without a stray end tag before the root element *)
Lemma decode_rest_no_panic pf skip o r ts tm :
  forallb start_ok ts = true -> top_ok ts = true -> xml_decode_rest pf skip o r ts tm <> Panic.
Proof.
  intros Hs Ht H. apply (decode_no_panic pf skip o r tm ts Hs Ht). unfold xml_decode. rewrite H. reflexivity.
Qed.

Corollary xml_parser_code_no_panic : forall pf callskip o r st fuel ts tm,
  dec_view st o -> cast_view st o -> length ts < fuel -> forallb start_ok ts = true -> top_ok ts = true ->
  fn_xmlToMapParser (run_cast pf callskip st) (run_escapeChars st) fuel st [] [] (ts, tm) r <> Crash.
Proof.
  intros pf callskip o r st fuel ts tm Hv Hc Hf Hs Ht.
  rewrite (xml_parser_code_is_model_translated pf callskip o r st fuel ts tm Hv Hc Hf Hs).
  pose proof (decode_rest_no_panic pf (skip_of st callskip) o r ts tm Hs Ht) as Hn.
  destruct (xml_decode_rest pf (skip_of st callskip) o r ts tm) as [[m rest]|e|]; [discriminate|discriminate|congruence].
Qed.

Corollary xml_parser_model_callees_no_panic : forall pf skip o r st fuel ts tm,
  dec_view st o -> length ts < fuel -> forallb start_ok ts = true -> top_ok ts = true ->
  fn_xmlToMapParser (fun x b t => cast pf skip o x b t) escape_chars fuel st [] [] (ts, tm) r <> Crash.
Proof.
  intros pf skip o r st fuel ts tm Hv Hf Hs Ht.
  rewrite (xml_parser_code_is_model_fuel pf skip o r st fuel ts tm Hv Hf Hs).
  pose proof (decode_rest_no_panic pf skip o r ts tm Hs Ht) as Hn.
  destruct (xml_decode_rest pf skip o r ts tm) as [[m rest]|e|]; [discriminate|discriminate|congruence].
Qed.

(* the stray end tag is the panic of the code: the store n[skey] = "" into the nil map *)
Lemma xml_parser_code_stray_end_panics : forall pf skip o r st nm ts tm,
  dec_view st o -> forallb start_ok ts = true ->
  fn_xmlToMapParser (fun x b t => cast pf skip o x b t) escape_chars (S (S (length ts))) st [] [] (TEnd nm :: ts, tm) r = Crash.
Proof.
  intros pf skip o r st nm ts tm Hv Hs.
  rewrite (xml_parser_code_is_model_fuel pf skip o r st _ (TEnd nm :: ts) tm Hv); [reflexivity|cbn [length]; lia|exact Hs].
Qed.

(* the side condition cannot be dropped: on a root start tag with an empty local name (which encoding/xml never
   returns) the code starts over as if at top level, the model says Panic *)
Lemma xml_parser_code_is_model_empty_name_refuted :
  exists pf skip o r st ts tm, dec_view st o /\
    fn_xmlToMapParser (fun x b t => cast pf skip o x b t) escape_chars (S (length ts)) st [] [] (ts, tm) r
    <> dec_top_result tm (xml_decode_rest pf skip o r ts tm).
Proof.
  exists (fun _ => None), (fun _ => false), opts0, true, gstate0,
    [TStart {| xspace := []; xlocal := [] |} []; TStart {| xspace := []; xlocal := s "a" |} []; TEnd {| xspace := []; xlocal := s "a" |}],
    TermEOF.
  split; [repeat split|]. vm_compute. discriminate.
Qed.

(* the hypotheses are met by a non-trivial input *)
Definition ex_name (x : string) : xname := {| xspace := []; xlocal := s x |}.
Example xml_parser_code_example :
  let ts := [TChar (s " "); TStart (ex_name "a") [{| aname := ex_name "k"; avalue := s "v" |}]; TChar (s " hi ");
             TStart (ex_name "b") []; TChar (s "true"); TEnd (ex_name "b"); TStart (ex_name "b") []; TEnd (ex_name "b"); TEnd (ex_name "a"); TChar (s "z")] in
  dec_view gstate0 opts0 /\ cast_view gstate0 opts0 /\ forallb start_ok ts = true /\ top_ok ts = true /\
  fn_xmlToMapParser (run_cast (fun _ => None) (fun _ => false) gstate0) (run_escapeChars gstate0) (S (length ts)) gstate0 [] [] (ts, TermEOF) true
  = Ret (Ok [(s "a", VMap [(s "-k", VStr (s "v")); (s "#text", VStr (s "hi")); (s "b", VList [VBool true; VStr []])])],
         ([TChar (s "z")], TermEOF)).
Proof. cbv zeta. repeat split. Qed.

Print Assumptions xml_parser_code_is_model.
Print Assumptions xml_parser_code_is_model_fuel.
Print Assumptions xml_parser_elem_code_is_model.
Print Assumptions xml_parser_code_is_model_translated.
Print Assumptions xml_parser_code_no_panic.
Print Assumptions xml_parser_model_callees_no_panic.
Print Assumptions xml_parser_code_stray_end_panics.
Print Assumptions xml_parser_code_is_model_empty_name_refuted.
