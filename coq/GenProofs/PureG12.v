(* The Maps string forms of files.go - Maps.JsonString, Maps.JsonStringIndent, Maps.XmlString, Maps.XmlStringIndent - as
   go2v translated them from /repo's CURRENT sources (Gen/Pure_gen.v: the range loop over the Maps, the per-Map encoder
   call, the early return of the string built so far together with the error, the newline between indented JSON
   documents) ARE the model [maps_concat] of Model/EncForms.v applied to the per-Map encodings, for ANY per-Map encoder
   (a Section variable of the translation) that does not panic. *)
From Coq Require Import Lia.
From Mxj Require Import Gen.GenSupport Gen.Setters_gen Gen.PureSupport Gen.Pure_gen Model.EncForms.

Definition no_panic {A} (r : res A) : Prop := r <> Panic.

Section Concat.
  Context (enc : entries -> res str).

  (* the loop body of JsonString / XmlString / XmlStringIndent *)
  Definition cat_body (s0 : str) (v : entries) : ctl str (str * option err) :=
    match enc v with
    | Panic => Crash
    | rr1 => let '(l_j, l_err) := match rr1 with Ok v => (v, None) | Err e => (([] : str), Some e) | Panic => (([] : str), None) end in
             bindc (S := unit) (if negb (match l_err with None => true | Some _ => false end) then Ret (s0, l_err) else Next tt)
               (fun _ => let l_s := app s0 l_j in Next l_s)
    end.

  Lemma cat_loop : forall mvs acc first, Forall (fun m => no_panic (enc m)) mvs -> (first = true -> acc = []) ->
    bindc (S' := unit) (range_loop cat_body mvs acc) (fun l_s => Ret (l_s, None))
    = Ret (maps_concat [] first (map enc mvs) acc).
  Proof.
    induction mvs as [|m mvs IH]; intros acc first Hnp Hf; [reflexivity|].
    inversion Hnp as [|? ? Hm Hrest]; subst. cbn [range_loop map maps_concat]. unfold cat_body at 1.
    destruct (enc m) as [x|e|]; [| |exfalso; apply Hm; reflexivity].
    - cbn [negb bindc]. rewrite (IH (acc ++ x) false Hrest) by discriminate.
      destruct first; cbn [app]; reflexivity.
    - reflexivity.
  Qed.

  (* the loop body of JsonStringIndent: a newline before every document but the first *)
  Definition cat_nl_body (st_ : str * bool) (v : entries) : ctl (str * bool) (str * option err) :=
    let '(l_s, l_haveFirst) := st_ in
    match enc v with
    | Panic => Crash
    | rr1 => let '(l_j, l_err) := match rr1 with Ok v => (v, None) | Err e => (([] : str), Some e) | Panic => (([] : str), None) end in
             bindc (S := unit) (if negb (match l_err with None => true | Some _ => false end) then Ret (l_s, l_err) else Next tt)
               (fun _ => bindc (S := (str * bool))
                           (if l_haveFirst then let l_s := app l_s (hx"0a") in Next (l_s, l_haveFirst)
                            else let l_haveFirst := true in Next (l_s, l_haveFirst))
                           (fun '(l_s, l_haveFirst) => let l_s := app l_s l_j in Next (l_s, l_haveFirst)))
    end.

  Lemma cat_nl_loop : forall mvs acc hf, Forall (fun m => no_panic (enc m)) mvs ->
    bindc (S' := unit) (range_loop cat_nl_body mvs (acc, hf)) (fun '(l_s, _) => Ret (l_s, None))
    = Ret (maps_concat [nl] (negb hf) (map enc mvs) acc).
  Proof.
    induction mvs as [|m mvs IH]; intros acc hf Hnp; [reflexivity|].
    inversion Hnp as [|? ? Hm Hrest]; subst. cbn [range_loop map maps_concat]. unfold cat_nl_body at 1.
    destruct (enc m) as [x|e|]; [| |exfalso; apply Hm; reflexivity].
    - cbn [negb bindc]. destruct hf; cbn [bindc negb].
      + rewrite (IH _ true Hrest). cbn [negb]. rewrite <- app_assoc. reflexivity.
      + rewrite (IH _ true Hrest). cbn [negb app]. reflexivity.
    - reflexivity.
  Qed.
End Concat.

Theorem maps_json_string_code_is_model : forall (Json : entries -> list bool -> res str) st mvs safe,
  Forall (fun m => no_panic (Json m safe)) mvs ->
  fn_JsonString Json st mvs safe = Ret (maps_concat [] true (map (fun m => Json m safe) mvs) []).
Proof.
  intros Json st mvs safe H. unfold fn_JsonString. cbv zeta.
  exact (cat_loop (fun m => Json m safe) mvs [] true H (fun _ => eq_refl)).
Qed.

Theorem maps_xml_string_code_is_model : forall (Xml : entries -> list str -> res str) st mvs,
  Forall (fun m => no_panic (Xml m [])) mvs ->
  fn_XmlString Xml st mvs = Ret (maps_xml_string (map (fun m => Xml m []) mvs)).
Proof.
  intros Xml st mvs H. unfold fn_XmlString, maps_xml_string. cbv zeta.
  exact (cat_loop (fun m => Xml m []) mvs [] true H (fun _ => eq_refl)).
Qed.

Theorem maps_xml_string_indent_code_is_model : forall (XmlIndent : entries -> str -> str -> list str -> res str) st mvs p i,
  Forall (fun m => no_panic (XmlIndent m p i [])) mvs ->
  fn_XmlStringIndent XmlIndent st mvs p i = Ret (maps_xml_string (map (fun m => XmlIndent m p i []) mvs)).
Proof.
  intros XI st mvs p i H. unfold fn_XmlStringIndent, maps_xml_string. cbv zeta.
  exact (cat_loop (fun m => XI m p i []) mvs [] true H (fun _ => eq_refl)).
Qed.

Theorem maps_json_string_indent_code_is_model : forall (JsonIndent : entries -> str -> str -> list bool -> res str) st mvs p i safe,
  Forall (fun m => no_panic (JsonIndent m p i safe)) mvs ->
  fn_JsonStringIndent JsonIndent st mvs p i safe = Ret (maps_concat [nl] true (map (fun m => JsonIndent m p i safe) mvs) []).
Proof.
  intros JI st mvs p i safe H. unfold fn_JsonStringIndent. cbv zeta.
  exact (cat_nl_loop (fun m => JI m p i safe) mvs [] false H).
Qed.
