(* The functions go2v translated from /repo's CURRENT sources (Gen/Pure_gen.v: cast of xml.go, escapeChars and
   its table of escapechars.go) ARE the hand-written model functions of Model/XmlDec.v.  Every theorem about
   [cast] (C14, C01, C02) and [escape_chars] (C05, C02, C03) is thereby re-checked against what the code says
   on this run; a change to either Go function breaks these proofs (or the translator's fragment). *)
From Coq Require Import Lia.
From Mxj Require Import Gen.GenSupport Gen.Setters_gen Gen.PureSupport Gen.Pure_gen Model.XmlDec.

(* ------------------------------------------------------------------ escapeChars *)

Lemma escape_table_is_code :
  tbl_escapechars = map (fun pr : ascii * str => [[fst pr]; snd pr]) escape_table.
Proof. reflexivity. Qed.

Lemma count1_nonneg c x : (0 <= count_aux [c] x 0)%Z.
Proof.
  induction x as [|a x IH]; cbn [count_aux]; [lia|].
  cbn [prefixb length Nat.sub]. destruct (Ascii.eqb c a); cbn [andb]; lia.
Qed.

Lemma repl1_all c rep x : forall n, (count_aux [c] x 0 <= n)%Z -> repl_aux [c] rep x n 0 = replace1 c rep x.
Proof.
  induction x as [|a x IH]; intros n Hn; [reflexivity|].
  cbn [repl_aux count_aux prefixb length Nat.sub] in *. unfold replace1. cbn [flat_map].
  rewrite (Ascii.eqb_sym a c).
  destruct (Ascii.eqb c a) eqn:E; cbn [andb] in *.
  - pose proof (count1_nonneg c x) as Hc.
    destruct (Z.eqb n 0) eqn:En; [apply Z.eqb_eq in En; lia|]. cbn [negb andb].
    f_equal. apply IH. lia.
  - rewrite Bool.andb_false_r. cbn [app]. f_equal. apply IH. exact Hn.
Qed.

Lemma count1_zero c rep x : count_aux [c] x 0 = 0%Z -> replace1 c rep x = x.
Proof.
  induction x as [|a x IH]; intros H; [reflexivity|].
  cbn [count_aux prefixb length Nat.sub] in H. unfold replace1. cbn [flat_map].
  rewrite (Ascii.eqb_sym a c).
  destruct (Ascii.eqb c a) eqn:E; cbn [andb] in H.
  - pose proof (count1_nonneg c x). lia.
  - cbn [app]. f_equal. apply IH. exact H.
Qed.

(* a loop body that maps a row [[c]; rep] to the model's replace1 makes the loop the model's fold *)
Lemma loop_rows (body : str -> list str -> ctl str str) (tbl : list (ascii * str)) :
  (forall b c rep, body b [[c]; rep] = Next (replace1 c rep b)) ->
  forall b, range_loop body (map (fun pr : ascii * str => [[fst pr]; snd pr]) tbl) b
            = Next (fold_left (fun acc pr => replace1 (fst pr) (snd pr) acc) tbl b).
Proof.
  intros Hbody. induction tbl as [|[c rep] tbl IH]; intros b; [reflexivity|].
  cbn [map range_loop fst snd fold_left]. rewrite Hbody. apply IH.
Qed.

Theorem escape_code_is_model : forall st x, fn_escapeChars st x = Ret (escape_chars x).
Proof.
  intros st x. unfold fn_escapeChars.
  destruct x as [|a x]; [reflexivity|].
  cbn [length]. replace (Z.eqb (Z.of_nat (S (length x))) 0) with false by (symmetry; apply Z.eqb_neq; lia).
  cbn [bindc]. cbv zeta. rewrite escape_table_is_code.
  match goal with |- context [range_loop ?f _ _] => rewrite (loop_rows f escape_table) end; [reflexivity|].
  intros b c rep. cbn [nth_error]. cbv zeta. unfold bytes_count, bytes_replace.
  destruct (Z.eqb (count_aux [c] b 0) 0) eqn:E.
  - apply Z.eqb_eq in E. rewrite (count1_zero c rep b E). reflexivity.
  - rewrite repl1_all by lia. reflexivity.
Qed.

(* ------------------------------------------------------------------ cast *)

(* the skip function the model's cast takes: the registered function, or "never" when none is registered *)
Definition skip_of (st : gstate) (callskip : str -> bool) : str -> bool :=
  match g_checkTagToSkip st with None => fun _ => false | Some _ => callskip end.

(* the model's option record agrees with the package state on the four switches cast reads *)
Definition cast_view (st : gstate) (o : opts) : Prop :=
  castNanInf o = g_castNanInf st /\ castToInt o = g_castToInt st /\
  castToFloat o = g_castToFloat st /\ castToBool o = g_castToBool st.

Lemma first_char_tTfF x : x <> [] ->
  existsb (str_eqb (firstn 1 (skipn 0 x))) [s "t"; s "T"; s "f"; s "F"]
  = match x with c :: _ => mem_ascii c (s "tTfF") | [] => false end.
Proof.
  destruct x as [|c x]; [congruence|]. intros _.
  cbn [skipn firstn existsb]. unfold mem_ascii. cbn [s list_ascii_of_string existsb str_eqb].
  rewrite !Bool.andb_true_r. reflexivity.
Qed.

(* the guarded ParseBool screen of the translated code is the model's conjunction *)
Lemma bool_screen (A : Type) (x : str) (yes no crash : A) :
  (if Z.gtb (Z.of_nat (length x)) 0
   then if Z.ltb (Z.of_nat (length x)) 6
        then if Nat.ltb (length x) 1 then crash
             else if existsb (str_eqb (firstn 1 (skipn 0 x))) [s "t"; s "T"; s "f"; s "F"] then yes else no
        else no
   else no)
  = if (match x with [] => false | _ => true end) && (length x <? 6)
       && (match x with c :: _ => mem_ascii c (s "tTfF") | [] => false end)
    then yes else no.
Proof.
  destruct x as [|c x']; [reflexivity|].
  replace (Z.gtb (Z.of_nat (length (c :: x'))) 0) with true by (symmetry; apply Z.gtb_lt; cbn [length]; lia).
  replace (Z.ltb (Z.of_nat (length (c :: x'))) 6) with (length (c :: x') <? 6)
    by (destruct (Nat.ltb_spec (length (c :: x')) 6); symmetry; [apply Z.ltb_lt|apply Z.ltb_ge]; lia).
  replace (Nat.ltb (length (c :: x')) 1) with false by (symmetry; apply Nat.ltb_ge; cbn [length]; lia).
  rewrite first_char_tTfF by discriminate. cbn [andb].
  destruct (length (c :: x') <? 6); reflexivity.
Qed.

(* case analysis on the atoms (variables, string comparisons, oracle results) of a goal between two decision trees *)
Ltac is_atom b :=
  first [ is_var b
        | lazymatch b with
          | andb _ _ => fail | orb _ _ => fail | negb _ => fail
          | str_eqb _ _ => idtac
          | existsb _ _ => idtac
          | parse_int _ _ => idtac
          | parse_uint _ _ => idtac
          | parse_bool _ => idtac
          | lookup _ _ => idtac
          | ?f ?a => first [ is_var f | is_var a; is_const f ]
          end ].
Ltac crush_trees :=
  repeat (cbn [bindc negb andb orb fst snd];
    first [ reflexivity
          | match goal with
            | |- context [if ?b then _ else _] => is_atom b; destruct b
            | |- context [match ?o with Some _ => _ | None => _ end] => is_atom o; destruct o
            | |- context [andb ?b _] => is_atom b; destruct b
            | |- context [orb ?b _] => is_atom b; destruct b
            | |- context [negb ?b] => is_atom b; destruct b
            end ]).

Theorem cast_code_is_model : forall pf callskip st o x r t, cast_view st o ->
  fn_cast pf callskip st x r t = Ret (cast pf (skip_of st callskip) o x r t).
Proof.
  intros pf callskip st o x r t (Hn & Hi & Hf & Hb).
  unfold fn_cast, cast, skip_of. rewrite Hn, Hi, Hf, Hb. clear Hn Hi Hf Hb o.
  assert (Ht : negb (str_eqb t []) = match t with [] => false | _ => true end) by (destruct t; reflexivity).
  rewrite Ht. clear Ht. cbv zeta.
  rewrite bool_screen.
  unfold flt_is_nan, flt_is_inf, is_naninf.
  destruct (g_checkTagToSkip st) as [f|]; cbn beta iota;
    try generalize (callskip t) as sk;
    generalize (match t with [] => false | _ :: _ => true end) as tne;
    generalize (existsb (str_eqb (to_lower x)) [s "nan"; s "inf"; s "-inf"]) as special;
    generalize (match x with c :: _ => mem_ascii c (s "tTfF") | [] => false end) as first;
    generalize (length x <? 6) as short;
    generalize (match x with [] => false | _ :: _ => true end) as ne;
    intros; crush_trees.
Qed.

(* consequence: the translated cast never panics (the only partial operations, the call of a nil function value and
   the slice s[:1], are guarded by the tests in front of them) *)
Corollary cast_code_no_panic : forall pf callskip st x r t, fn_cast pf callskip st x r t <> Crash.
Proof.
  intros pf callskip st x r t.
  set (o := {| attrPrefix := []; lenAttrPrefix := 0; includeTagSeqNum := false; lowerCase := false; snakeCaseKeys := false;
               disableTrimWhiteSpace := false; trimRunes := []; decodeSimpleValuesAsMap := false;
               castToInt := g_castToInt st; castToFloat := g_castToFloat st; castToBool := g_castToBool st;
               castNanInf := g_castNanInf st; handleXMPPStreamTag := false; useGoXmlEmptyElemSyntax := false;
               xmlCheckIsValid := false; xmlEscapeChars := false; xmlEscapeCharsDecoder := false;
               textK := []; seqK := []; commentK := []; attrK := []; directiveK := []; procinstK := []; targetK := [];
               instK := []; fieldSep := []; useDotNotation := false; defaultArraySize := 0; jsonUseNumber := false |}).
  rewrite (cast_code_is_model pf callskip st o x r t) by (repeat split). discriminate.
Qed.

Corollary escape_code_no_panic : forall st x, fn_escapeChars st x <> Crash.
Proof. intros st x. rewrite escape_code_is_model. discriminate. Qed.
