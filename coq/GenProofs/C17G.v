(* C17 - static half: receiver purity and absence of writes to shared state, decided on the effect
   summaries go2v regenerates from /repo's current sources (Gen/Effects_gen.v).
   Tables are computed by vm_compute and CHECKED closed under propagation (also by vm_compute);
   EffectsTheory.wclosed_sound then covers every finite chain of calls. *)
From Mxj Require Import Gen.GenSupport Gen.Effects_gen Gen.Setters_gen GenProofs.EffectsTheory.
Local Open Scope string_scope.

(* ---- the classification of the exported methods (hand-written, checked complete below) ---- *)
Definition readonly_api : list string := [
  "Map.ValuesForKey"; "Map.ValuesForPath"; "Map.ValueForKey"; "Map.ValueForPath"; "Map.ValueForPathString";
  "Map.ValueOrEmptyForPathString"; "Map.PathsForKey"; "Map.PathForKeyShortest"; "Map.Exists";
  "Map.LeafNodes"; "Map.LeafPaths"; "Map.LeafValues"; "Map.Elements"; "Map.Attributes"; "Map.Root";
  "Map.Xml"; "Map.XmlIndent"; "Map.XmlWriter"; "Map.XmlIndentWriter";
  "Map.Json"; "Map.JsonIndent"; "Map.JsonWriter"; "Map.JsonWriterRaw"; "Map.JsonIndentWriter"; "Map.JsonIndentWriterRaw";
  "Map.Gob"; "Map.Copy"; "Map.Old"; "Map.StringIndent"; "Map.StringIndentNoTypeInfo"; "Map.Struct";
  "MapSeq.Xml"; "MapSeq.XmlIndent"; "MapSeq.XmlWriter"; "MapSeq.XmlIndentWriter"; "MapSeq.StringIndent"; "MapSeq.StringIndentNoTypeInfo";
  "Maps.XmlString"; "Maps.XmlStringIndent"; "Maps.JsonString"; "Maps.JsonStringIndent";
  "Maps.XmlFile"; "Maps.XmlFileIndent"; "Maps.JsonFile"; "Maps.JsonFileIndent" ].
(* Map.NewMap leaves its receiver unchanged too, but that needs the path-sensitive argument of C12
   (Proofs/C12Own.v: every write of the insertion walk goes to a freshly allocated or copied container);
   the flow-insensitive summary cannot see it, so NewMap is classified separately and not claimed here. *)
Definition readonly_by_c12 : list string := [ "Map.NewMap" ].
(* the four operations documented to modify their receiver *)
Definition mutating_api : list string := [ "Map.SetValueForPath"; "Map.Remove"; "Map.RenameKey"; "Map.UpdateValuesForPath" ].
(* entry points without a receiver that take the data they work on as an argument: decoders, AnyXml, BeautifyXml, handlers *)
Definition decoder_api : list string := [
  "NewMapXml"; "NewMapXmlReader"; "NewMapXmlReaderRaw"; "NewMapXmlSeq"; "NewMapXmlSeqReader"; "NewMapXmlSeqReaderRaw";
  "NewMapFormattedXmlSeq"; "NewMapJson"; "NewMapJsonReader"; "NewMapJsonReaderRaw"; "NewMapGob"; "BeautifyXml"; "AnyXml"; "AnyXmlIndent" ].

Definition fuel := 600.
Definition W : wtable := Eval vm_compute in witer effects fuel (wtable0 effects).
Definition GW : vtable := Eval vm_compute in viter effects f_gwrites fuel (vtable0 effects).
Definition GR : vtable := Eval vm_compute in viter effects f_greads fuel (vtable0 effects).
Definition CB : rtable := Eval vm_compute in riter effects f_callback fuel (rtable0 effects).
Definition SP : rtable := Eval vm_compute in riter effects f_spawns fuel (rtable0 effects).

Lemma W_closed : wclosed effects W = true.  Proof. vm_compute. reflexivity. Qed.
Lemma GW_closed : vclosed effects f_gwrites GW = true.  Proof. vm_compute. reflexivity. Qed.
Lemma GR_closed : vclosed effects f_greads GR = true.  Proof. vm_compute. reflexivity. Qed.
Lemma CB_closed : rclosed effects f_callback CB = true.  Proof. vm_compute. reflexivity. Qed.
Lemma SP_closed : rclosed effects f_spawns SP = true.  Proof. vm_compute. reflexivity. Qed.

Definition shared_root (r : root) : bool := match r with Pt 0 | Pd 0 | G => true | _ => false end.
Definition global_root (r : root) : bool := match r with G => true | _ => false end.

(* ---- decided by evaluation over the finite tables ---- *)
Definition known (f : string) : bool := existsb (fun fi => String.eqb (f_name fi) f) effects.
Lemma api_names_exist : forallb known (readonly_api ++ readonly_by_c12 ++ mutating_api ++ decoder_api) = true.
Proof. vm_compute. reflexivity. Qed.

Definition is_data_method (fi : finfo) : bool :=
  String.eqb (f_pkg fi) "mxj" && f_exported fi && mem_str (f_recv fi) ["Map"; "MapSeq"; "Maps"].
(* every exported method of Map, MapSeq and Maps is classified: a new method must be added to one of the lists *)
Lemma methods_classified :
  forallb (fun fi => implb (is_data_method fi) (mem_str (f_name fi) (readonly_api ++ readonly_by_c12 ++ mutating_api))) effects = true.
Proof. vm_compute. reflexivity. Qed.

Lemma readonly_tables_clean :
  forallb (fun f => negb (existsb shared_root (lookup_s [] f W))
                    && match lookup_s [] f GW with [] => true | _ => false end
                    && negb (lookup_s false f SP)) readonly_api = true.
Proof. vm_compute. reflexivity. Qed.

Lemma decoder_tables_clean :
  forallb (fun f => negb (existsb global_root (lookup_s [] f W))
                    && match lookup_s [] f GW with [] => true | _ => false end) decoder_api = true.
Proof. vm_compute. reflexivity. Qed.

(* the functions that assign a package-level variable are exactly the option setters go2v translated *)
Lemma only_setters_assign_globals :
  forallb (fun fi => match f_gwrites fi with
                     | [] => true
                     | ws => if String.eqb (f_pkg fi) "mxj"
                             then incl_strs ws (lookup_s [] (f_name fi) setter_writes)
                             else forallb (fun w => negb (mem_str w option_vars)) ws   (* a sub-package's own switch *)
                     end) effects = true.
Proof. vm_compute. reflexivity. Qed.

(* the mutating operations do write their receiver (the analysis is not vacuous) *)
Lemma mutating_detected :
  forallb (fun f => existsb shared_root (lookup_s [] f W)) mutating_api = true.
Proof. vm_compute. reflexivity. Qed.

(* ---- the statements ---- *)
Theorem readonly_no_shared_write : forall f r,
  In f readonly_api -> writes_root effects f r -> r <> Pt 0 /\ r <> Pd 0 /\ r <> G.
Proof.
  intros f r Hf Hw.
  pose proof (wclosed_sound effects W W_closed f r Hw) as Hin.
  pose proof readonly_tables_clean as Hc. rewrite forallb_forall in Hc. specialize (Hc f Hf).
  apply andb_true_iff in Hc. destruct Hc as [Hc _]. apply andb_true_iff in Hc. destruct Hc as [Hc _].
  apply negb_true_iff in Hc.
  assert (Hs : shared_root r = false).
  { destruct (shared_root r) eqn:E; [|reflexivity]. exfalso.
    assert (X : existsb shared_root (lookup_s [] f W) = true) by (apply existsb_exists; exists r; split; assumption).
    rewrite X in Hc. discriminate. }
  repeat split; intro; subst; discriminate.
Qed.

Theorem readonly_no_global_assign : forall f v,
  In f readonly_api -> ~ touches_var effects f_gwrites f v.
Proof.
  intros f v Hf Ht.
  pose proof (vclosed_sound effects f_gwrites GW GW_closed f v Ht) as Hin.
  pose proof readonly_tables_clean as Hc. rewrite forallb_forall in Hc. specialize (Hc f Hf).
  apply andb_true_iff in Hc. destruct Hc as [Hc _]. apply andb_true_iff in Hc. destruct Hc as [_ Hc].
  destruct (lookup_s [] f GW); [exact Hin | discriminate].
Qed.

Theorem readonly_no_goroutine : forall f, In f readonly_api -> ~ reaches effects f_spawns f.
Proof.
  intros f Hf Hr.
  pose proof (rclosed_sound effects f_spawns SP SP_closed f Hr) as Ht.
  pose proof readonly_tables_clean as Hc. rewrite forallb_forall in Hc. specialize (Hc f Hf).
  apply andb_true_iff in Hc. destruct Hc as [_ Hc]. rewrite Ht in Hc. discriminate.
Qed.

Theorem decoders_no_global_write : forall f,
  In f decoder_api -> (forall r, writes_root effects f r -> r <> G) /\ (forall v, ~ touches_var effects f_gwrites f v).
Proof.
  intros f Hf.
  pose proof decoder_tables_clean as Hc. rewrite forallb_forall in Hc. specialize (Hc f Hf).
  apply andb_true_iff in Hc. destruct Hc as [Hc1 Hc2]. split.
  - intros r Hw E. subst r. pose proof (wclosed_sound effects W W_closed f G Hw) as Hin.
    apply negb_true_iff in Hc1.
    assert (X : existsb global_root (lookup_s [] f W) = true) by (apply existsb_exists; exists G; split; [assumption|reflexivity]).
    rewrite X in Hc1. discriminate.
  - intros v Ht. pose proof (vclosed_sound effects f_gwrites GW GW_closed f v Ht) as Hin.
    destruct (lookup_s [] f GW); [exact Hin | discriminate].
Qed.
