(* Map.Xml (xml.go:702) and MapSeq.Xml (xmlseq.go:459) as go2v translated them (Gen/Pure_gen.v: fn_Map_Xml, fn_MapSeq_Xml), RUNNING
   THE TRANSLATED ENCODERS (fn_marshalMapToXmlIndent / fn_mapToXmlSeqIndent with the translated escapeChars and Less, under
   fuel), are the hand-written models: map_xml_items (Model/XmlEnc.v) rendered by emit, seq_xml_items (Model/SeqEnc.v)
   rendered by semit, followed by the validity check of Model/EscOpts.v (checked_bytes / checked_enc with
   accept b := the token stream of b ends with io.EOF).  Properties C03 / C05 / C16; COMPACT mode (the indented mode's
   bytes are not in the models).

   From GenProofs/PureG25.v: the entry point is one encoder call on root_sel followed by [finish]; from GenProofs/PureG18.v /
   PureG17.v: the translated encoders in compact mode are enc / senc.  Hypotheses are theirs: enc_view / senc_view (the option
   record describes the package state), text_dom / text_ok (no Map has a Map or a list as #text member), the fuel above the
   depth of the Map; for the error case of the sequence encoder also no uint64 / json.Number (the xml.Marshal arm).

   The rootTag of the models is rt_opt rt: None without tag, Some tag with one tag, Some "doc" with two or more.

   DEVIATION from checked_enc, kept visible (map_xml_code_error / map_xml_error_swallowed): when the model says Err (an
   invalid attribute value) and the check is ON, the translated code - like the Go code - hands the verdict to the tokenizer:
   it returns (nil, error) if the bytes written before the failure do not tokenize, and (those bytes, NIL error) if they do;
   checked_enc returns Err in both cases. *)
From Coq Require Import Lia.
From Mxj Require Import Gen.GenSupport Gen.Setters_gen Gen.PureSupport Gen.Pure_gen Model.XmlEnc Model.SeqEnc Model.EscOpts.
From Mxj Require Import Spec.JsonRT Proofs.C06Struct GenProofs.PureG GenProofs.PureG3 GenProofs.PureG15 GenProofs.PureG17 GenProofs.PureG18.
From Mxj Require Import GenProofs.PureG25.

(* ------------------------------------------------------------------ the translated encoders as encoder functions *)

(* marshalMapToXmlIndent as the entry points call it: the translated function under fuel, anything but a return is a panic *)
Definition run_mm (ind outd : str -> Z -> str -> Z -> Z -> pp5) (xm : value -> res str) (xmi : value -> str -> str -> res str)
  (st : gstate) (fuel : nat) : enc_fn :=
  fun di b key v i c p m t =>
    match fn_marshalMapToXmlIndent (run_escapeChars st) ind outd sort_rows sort_vrows xm xmi fuel st di b key v i c p m t with
    | Ret x => Some x
    | _ => None
    end.
(* mapToXmlSeqIndent likewise, with the insertion sort over the translated elemListSeq.Less *)
Definition run_ms (ind outd : str -> Z -> str -> Z -> Z -> pp5) (mar : value -> res str) (mari : value -> str -> str -> res str)
  (st : gstate) (fuel : nat) : enc_fn :=
  fun di sb key v i c p d e =>
    match fn_mapToXmlSeqIndent (run_escapeChars st) ind outd (run_sort st) mar mari fuel st di sb key v i c p d e with
    | Ret x => Some x
    | _ => None
    end.

(* ------------------------------------------------------------------ the value handed to the encoder is the Map or its only member *)

Lemma root_sel_sub m rt : snd (root_sel m rt) = VMap m \/ exists k, m = [(k, snd (root_sel m rt))].
Proof.
  destruct rt as [|x [|x' rt]]; cbn [root_sel snd]; try (left; reflexivity).
  destruct m as [|[k v] [|kv' m]]; try (left; reflexivity).
  destruct v; try (right; exists k; reflexivity). destruct (all_maps l); [right; exists k; reflexivity|left; reflexivity].
Qed.

Lemma sub_vdepth m v f : v = VMap m \/ (exists k, m = [(k, v)]) -> vdepth (VMap m) <= f -> vdepth v <= f.
Proof.
  intros [->|[k ->]] H; [exact H|].
  destruct f as [|f]; [pose proof (vdepth_pos (VMap [(k, v)])); lia|].
  pose proof (vdepth_map_F f _ H) as F. inversion F as [|? ? Hv _]. cbn [snd] in Hv. lia.
Qed.
Lemma sub_text_dom o m v : v = VMap m \/ (exists k, m = [(k, v)]) -> text_dom o (VMap m) = true -> text_dom o v = true.
Proof.
  intros [->|[k ->]] H; [exact H|]. cbn [text_dom forallb snd] in H.
  apply andb_true_iff in H. destruct H as [_ H]. apply andb_true_iff in H. exact (proj1 H).
Qed.
Lemma sub_vd m v f : v = VMap m \/ (exists k, m = [(k, v)]) -> vd (VMap m) < f -> vd v < f.
Proof.
  intros [->|[k ->]] H; [exact H|]. pose proof (vd_entry (k, v) [(k, v)] (or_introl eq_refl)) as Hv. cbn [snd] in Hv. lia.
Qed.
Lemma sub_text_ok o m v : v = VMap m \/ (exists k, m = [(k, v)]) -> text_ok o (VMap m) = true -> text_ok o v = true.
Proof.
  intros [->|[k ->]] H; [exact H|]. cbn [text_ok forallb snd] in H.
  apply andb_true_iff in H. destruct H as [_ H]. apply andb_true_iff in H. exact (proj1 H).
Qed.
Lemma sub_no_marshal m v : v = VMap m \/ (exists k, m = [(k, v)]) ->
  PureG17.no_marshal (VMap m) = true -> PureG17.no_marshal v = true.
Proof.
  intros [->|[k ->]] H; [exact H|]. cbn [PureG17.no_marshal forallb snd] in H.
  apply andb_true_iff in H. exact (proj1 H).
Qed.

(* ------------------------------------------------------------------ Map.Xml = map_xml_items + the check *)

Section MapXml.
Variables (o : opts) (st : gstate).
Hypothesis Hview : enc_view st o.
Variables ind outd : str -> Z -> str -> Z -> Z -> pp5.
Variable xm : value -> res str.
Variable xmi : value -> str -> str -> res str.
Variable dec : str -> xdecoder.
Variables (f : nat) (m : entries) (rt : list str).
Hypothesis Hf : vdepth (VMap m) <= f.
Hypothesis Hd : text_dom o (VMap m) = true.

Notation entry := (fn_Map_Xml (run_mm ind outd xm xmi st f) dec st m rt).

Lemma mm_call_conv :
  match map_xml_items o m (rt_opt rt) with
  | Ok its => xml_call (run_mm ind outd xm xmi st f) m rt = Some (None, (emit its, [], 0%Z, [], 0%Z, 0%Z))
  | Err _ => exists e b, xml_call (run_mm ind outd xm xmi st f) m rt = Some (Some e, (b, [], 0%Z, [], 0%Z, 0%Z))
  | Panic => False
  end.
Proof.
  rewrite root_sel_is_map_xml_items. unfold xml_call, run_mm.
  pose proof (root_sel_sub m rt) as Hs.
  pose proof (sub_vdepth m _ f Hs Hf) as Hf'. pose proof (sub_text_dom o m _ Hs Hd) as Hd'.
  destruct (marshal_map_code_is_enc_translated o st Hview ind outd xm xmi (snd (root_sel m rt)) f (fst (root_sel m rt))
              [] [] 0%Z [] 0%Z 0%Z Hf' Hd') as (Hok & Herr & Hnp).
  destruct (enc o (snd (root_sel m rt)) (fst (root_sel m rt))) as [its|e|].
  - rewrite (Hok its eq_refl). reflexivity.
  - destruct (Herr e eq_refl) as (e' & b' & E). rewrite E. exists e', b'. reflexivity.
  - apply Hnp. reflexivity.
Qed.

(* the model returns items: their bytes with a nil error, unless the check is on and the tokenizer rejects them *)
Lemma map_xml_code_ok_ : forall its, map_xml_items o m (rt_opt rt) = Ok its ->
  entry = if g_xmlCheckIsValid st && negb (acceptb dec (emit its)) then Ret ([], Some EOther) else Ret (emit its, None).
Proof.
  intros its E. pose proof mm_call_conv as H. rewrite E in H.
  rewrite map_xml_is_root_sel. fold (xml_call (run_mm ind outd xm xmi st f) m rt). rewrite H.
  cbn [finish]. unfold scan. destruct (g_xmlCheckIsValid st); [|reflexivity].
  destruct (acceptb dec (emit its)); reflexivity.
Qed.

(* the model returns an error: the encoder stopped with an error e' after writing b'; without the check (b', e') is the result,
   with the check the verdict of the tokenizer on b' *)
Lemma map_xml_code_error_ : forall e, map_xml_items o m (rt_opt rt) = Err e ->
  exists e' b',
    entry = if g_xmlCheckIsValid st
            then (if acceptb dec b' then Ret (b', None) else Ret ([], Some EOther))
            else Ret (b', Some e').
Proof.
  intros e E. pose proof mm_call_conv as H. rewrite E in H. destruct H as (e' & b' & H).
  exists e', b'. rewrite map_xml_is_root_sel. fold (xml_call (run_mm ind outd xm xmi st f) m rt). rewrite H. reflexivity.
Qed.

Lemma map_xml_model_no_panic_ : map_xml_items o m (rt_opt rt) <> Panic.
Proof. intros E. pose proof mm_call_conv as H. rewrite E in H. exact H. Qed.
End MapXml.

(* 1. Map.Xml with the translated encoder IS map_xml_items rendered by emit, followed by the check *)
Theorem map_xml_code_is_model : forall o st, enc_view st o ->
  forall ind outd xm xmi dec f m rt, vdepth (VMap m) <= f -> text_dom o (VMap m) = true ->
  forall its, map_xml_items o m (rt_opt rt) = Ok its ->
  fn_Map_Xml (run_mm ind outd xm xmi st f) dec st m rt =
    if g_xmlCheckIsValid st && negb (acceptb dec (emit its)) then Ret ([], Some EOther) else Ret (emit its, None).
Proof. intros o st Hv ind outd xm xmi dec f m rt Hf Hd. exact (map_xml_code_ok_ o st Hv ind outd xm xmi dec f m rt Hf Hd). Qed.

(* ... in particular: the check off, or the tokenizer accepts the bytes: exactly the model's bytes and a nil error *)
Corollary map_xml_code_is_model_accepted : forall o st, enc_view st o ->
  forall ind outd xm xmi dec f m rt, vdepth (VMap m) <= f -> text_dom o (VMap m) = true ->
  forall its, map_xml_items o m (rt_opt rt) = Ok its ->
  g_xmlCheckIsValid st = false \/ accepts dec (emit its) ->
  fn_Map_Xml (run_mm ind outd xm xmi st f) dec st m rt = Ret (emit its, None).
Proof.
  intros o st Hv ind outd xm xmi dec f m rt Hf Hd its E Hc.
  rewrite (map_xml_code_is_model o st Hv ind outd xm xmi dec f m rt Hf Hd its E).
  destruct Hc as [Hc|Hc]; [rewrite Hc; reflexivity|].
  apply acceptb_accepts in Hc. rewrite Hc. rewrite andb_false_r. reflexivity.
Qed.

(* ... and in the vocabulary of Model/EscOpts.v: checked_bytes / checked_enc with accept := acceptb dec *)
Corollary map_xml_code_is_checked_bytes : forall o st, enc_view st o -> xmlCheckIsValid o = g_xmlCheckIsValid st ->
  forall ind outd xm xmi dec f m rt, vdepth (VMap m) <= f -> text_dom o (VMap m) = true ->
  forall its, map_xml_items o m (rt_opt rt) = Ok its ->
  entry_conv (checked_bytes o (acceptb dec) (Ok (emit its))) (fn_Map_Xml (run_mm ind outd xm xmi st f) dec st m rt) /\
  entry_conv (match checked_enc o (acceptb dec) (map_xml_items o m (rt_opt rt)) with
              | Ok i => Ok (emit i) | Err e => Err e | Panic => Panic end)
             (fn_Map_Xml (run_mm ind outd xm xmi st f) dec st m rt).
Proof.
  intros o st Hv Hc ind outd xm xmi dec f m rt Hf Hd its E.
  rewrite E, <- checked_bytes_enc. split;
  (rewrite (map_xml_code_is_model o st Hv ind outd xm xmi dec f m rt Hf Hd its E);
   cbn [checked_bytes]; rewrite Hc;
   destruct (g_xmlCheckIsValid st && negb (acceptb dec (emit its))); cbn [entry_conv]; [eexists; reflexivity|reflexivity]).
Qed.

(* 2. the model returns an error (invalid attribute value) *)
Theorem map_xml_code_error : forall o st, enc_view st o ->
  forall ind outd xm xmi dec f m rt, vdepth (VMap m) <= f -> text_dom o (VMap m) = true ->
  forall e, map_xml_items o m (rt_opt rt) = Err e ->
  exists e' b',
    fn_Map_Xml (run_mm ind outd xm xmi st f) dec st m rt =
      if g_xmlCheckIsValid st
      then (if acceptb dec b' then Ret (b', None) else Ret ([], Some EOther))
      else Ret (b', Some e').
Proof. intros o st Hv ind outd xm xmi dec f m rt Hf Hd. exact (map_xml_code_error_ o st Hv ind outd xm xmi dec f m rt Hf Hd). Qed.

(* ... with the check off: an error result, with the bytes written before the failure *)
Corollary map_xml_code_error_is_error : forall o st, enc_view st o ->
  forall ind outd xm xmi dec f m rt, vdepth (VMap m) <= f -> text_dom o (VMap m) = true ->
  forall e, map_xml_items o m (rt_opt rt) = Err e ->
  g_xmlCheckIsValid st = false ->
  exists b' e', fn_Map_Xml (run_mm ind outd xm xmi st f) dec st m rt = Ret (b', Some e').
Proof.
  intros o st Hv ind outd xm xmi dec f m rt Hf Hd e E Hc.
  destruct (map_xml_code_error o st Hv ind outd xm xmi dec f m rt Hf Hd e E) as (e' & b' & H). rewrite H, Hc.
  exists b', e'. reflexivity.
Qed.
(* ... with the check on: (nil, error), or what was written and a nil error when the tokenizer accepts it; never (bytes, error) *)
Corollary map_xml_code_error_check_on : forall o st, enc_view st o ->
  forall ind outd xm xmi dec f m rt, vdepth (VMap m) <= f -> text_dom o (VMap m) = true ->
  forall e, map_xml_items o m (rt_opt rt) = Err e ->
  g_xmlCheckIsValid st = true ->
  fn_Map_Xml (run_mm ind outd xm xmi st f) dec st m rt = Ret ([], Some EOther) \/
  exists b', accepts dec b' /\ fn_Map_Xml (run_mm ind outd xm xmi st f) dec st m rt = Ret (b', None).
Proof.
  intros o st Hv ind outd xm xmi dec f m rt Hf Hd e E Hc.
  destruct (map_xml_code_error o st Hv ind outd xm xmi dec f m rt Hf Hd e E) as (e' & b' & H). rewrite H, Hc.
  destruct (acceptb dec b') eqn:Ea; [right; exists b'; split; [apply acceptb_accepts; exact Ea|reflexivity]|left; reflexivity].
Qed.

(* the model never panics on the domain *)
Theorem map_xml_model_no_panic : forall o st, enc_view st o ->
  forall f m rt, vdepth (VMap m) <= f -> text_dom o (VMap m) = true -> map_xml_items o m (rt_opt rt) <> Panic.
Proof.
  intros o st Hv f m rt Hf Hd.
  exact (map_xml_model_no_panic_ o st Hv idp5 idp5 PureG18.no_marshal no_marshal_indent f m rt Hf Hd).
Qed.

(* in EVERY package state (the option record of the state is in view; no hypothesis on the state) *)
Corollary map_xml_code_is_model_any_state : forall st ind outd xm xmi dec f m rt,
  vdepth (VMap m) <= f -> text_dom (state_opts st) (VMap m) = true ->
  match checked_enc (state_opts st) (acceptb dec) (map_xml_items (state_opts st) m (rt_opt rt)) with
  | Ok its => fn_Map_Xml (run_mm ind outd xm xmi st f) dec st m rt = Ret (emit its, None)
  | Err _ => match map_xml_items (state_opts st) m (rt_opt rt) with
             | Ok _ => fn_Map_Xml (run_mm ind outd xm xmi st f) dec st m rt = Ret ([], Some EOther)
             | _ => exists e' b', fn_Map_Xml (run_mm ind outd xm xmi st f) dec st m rt =
                                   if g_xmlCheckIsValid st
                                   then (if acceptb dec b' then Ret (b', None) else Ret ([], Some EOther))
                                   else Ret (b', Some e')
             end
  | Panic => False
  end.
Proof.
  intros st ind outd xm xmi dec f m rt Hf Hd.
  pose proof (state_opts_enc_view st) as Hv.
  destruct (map_xml_items (state_opts st) m (rt_opt rt)) as [its|e|] eqn:E; cbn [checked_enc].
  - rewrite (map_xml_code_is_model _ st Hv ind outd xm xmi dec f m rt Hf Hd its E).
    change (xmlCheckIsValid (state_opts st)) with (g_xmlCheckIsValid st).
    destruct (g_xmlCheckIsValid st && negb (acceptb dec (emit its))); reflexivity.
  - exact (map_xml_code_error _ st Hv ind outd xm xmi dec f m rt Hf Hd e E).
  - exact (map_xml_model_no_panic _ st Hv f m rt Hf Hd E).
Qed.

(* the deviation from checked_enc is real for a tokenizer that accepts everything: the error of the encoder is lost *)
Definition dec_all (b : str) : xdecoder := ([], TermEOF).
Theorem map_xml_error_swallowed :
  exists st m rt,
    g_xmlCheckIsValid st = true /\ vdepth (VMap m) <= 5 /\ text_dom (state_opts st) (VMap m) = true /\
    checked_enc (state_opts st) (acceptb dec_all) (map_xml_items (state_opts st) m (rt_opt rt)) = Err EOther /\
    fn_Map_Xml (run_mm idp5 idp5 PureG18.no_marshal no_marshal_indent st 5) dec_all st m rt = Ret (s "<a", None).
Proof.
  exists (with_xmlCheckIsValid true gstate0), [(s "a", VMap [(s "-k", VMap [])])], [].
  split; [reflexivity|]. split; [vm_compute; lia|]. repeat split; vm_compute; reflexivity.
Qed.

(* ------------------------------------------------------------------ MapSeq.Xml = seq_xml_items + the check *)

Section SeqXml.
Variables (o : opts) (st : gstate).
Hypothesis Hview : senc_view st o.
Variables ind outd : str -> Z -> str -> Z -> Z -> pp5.
Variable mar : value -> res str.
Variable mari : value -> str -> str -> res str.
Variable dec : str -> xdecoder.
Variables (f : nat) (m : entries) (rt : list str).
Hypothesis Hf : vd (VMap m) < f.
Hypothesis Hd : text_ok o (VMap m) = true.

Notation entry := (fn_MapSeq_Xml (run_ms ind outd mar mari st f) dec st m rt).

Lemma ms_call_conv :
  match seq_xml_items o m (rt_opt rt) with
  | Ok its => xml_call (run_ms ind outd mar mari st f) m rt = Some (None, (semit its, [], 0%Z, [], 0%Z, 0%Z))
  | Err _ => PureG17.no_marshal (VMap m) = true ->
             exists b, xml_call (run_ms ind outd mar mari st f) m rt = Some (Some EOther, (b, [], 0%Z, [], 0%Z, 0%Z))
  | Panic => xml_call (run_ms ind outd mar mari st f) m rt = None
  end.
Proof.
  rewrite root_sel_is_seq_xml_items. unfold xml_call, run_ms.
  pose proof (root_sel_sub m rt) as Hs.
  pose proof (sub_vd m _ f Hs Hf) as Hf'. pose proof (sub_text_ok o m _ Hs Hd) as Hd'.
  destruct (senc o (snd (root_sel m rt)) (fst (root_sel m rt))) as [its|e|] eqn:E.
  - rewrite (senc_code_is_model_translated o st ind outd mar mari Hview f _ [] _ [] 0%Z [] 0%Z 0%Z its Hf' Hd' E). reflexivity.
  - intros Hn. pose proof (sub_no_marshal m _ Hs Hn) as Hn'.
    destruct (senc_code_error_translated o st ind outd mar mari Hview f _ [] _ [] 0%Z [] 0%Z 0%Z e Hf' Hd' Hn' E) as [sb' E'].
    rewrite E'. exists sb'. reflexivity.
  - assert (Hsort : forall l, run_sort st l = isort (fun a => seq_num o (keyval_v a)) l).
    { intros l. apply run_sort_is_model. destruct Hview as (_ & _ & _ & Vseq & _). exact Vseq. }
    rewrite (senc_code_panic o st (run_escapeChars st) ind outd (run_sort st) mar mari Hview (run_escapeChars_eq st) Hsort
               f _ [] _ [] 0%Z [] 0%Z 0%Z Hf' Hd' E). reflexivity.
Qed.

Lemma mapseq_xml_code_ok_ : forall its, seq_xml_items o m (rt_opt rt) = Ok its ->
  entry = if g_xmlCheckIsValid st && negb (acceptb dec (semit its)) then Ret ([], Some EOther) else Ret (semit its, None).
Proof.
  intros its E. pose proof ms_call_conv as H. rewrite E in H.
  rewrite mapseq_xml_is_root_sel. fold (xml_call (run_ms ind outd mar mari st f) m rt). rewrite H.
  cbn [finish]. unfold scan. destruct (g_xmlCheckIsValid st); [|reflexivity].
  destruct (acceptb dec (semit its)); reflexivity.
Qed.
Lemma mapseq_xml_code_error_ : forall e, seq_xml_items o m (rt_opt rt) = Err e -> PureG17.no_marshal (VMap m) = true ->
  exists b',
    entry = if g_xmlCheckIsValid st
            then (if acceptb dec b' then Ret (b', None) else Ret ([], Some EOther))
            else Ret (b', Some EOther).
Proof.
  intros e E Hn. pose proof ms_call_conv as H. rewrite E in H. destruct (H Hn) as (b' & H').
  exists b'. rewrite mapseq_xml_is_root_sel. fold (xml_call (run_ms ind outd mar mari st f) m rt). rewrite H'. reflexivity.
Qed.
Lemma mapseq_xml_code_panic_ : seq_xml_items o m (rt_opt rt) = Panic -> entry = Crash.
Proof.
  intros E. pose proof ms_call_conv as H. rewrite E in H.
  rewrite mapseq_xml_is_root_sel. fold (xml_call (run_ms ind outd mar mari st f) m rt). rewrite H. reflexivity.
Qed.
End SeqXml.

(* 3. MapSeq.Xml with the translated encoder IS seq_xml_items rendered by semit, followed by the check *)
Theorem mapseq_xml_code_is_model : forall o st, senc_view st o ->
  forall ind outd mar mari dec f m rt, vd (VMap m) < f -> text_ok o (VMap m) = true ->
  forall its, seq_xml_items o m (rt_opt rt) = Ok its ->
  fn_MapSeq_Xml (run_ms ind outd mar mari st f) dec st m rt =
    if g_xmlCheckIsValid st && negb (acceptb dec (semit its)) then Ret ([], Some EOther) else Ret (semit its, None).
Proof. intros o st Hv ind outd mar mari dec f m rt Hf Hd. exact (mapseq_xml_code_ok_ o st Hv ind outd mar mari dec f m rt Hf Hd). Qed.

Corollary mapseq_xml_code_is_model_accepted : forall o st, senc_view st o ->
  forall ind outd mar mari dec f m rt, vd (VMap m) < f -> text_ok o (VMap m) = true ->
  forall its, seq_xml_items o m (rt_opt rt) = Ok its ->
  g_xmlCheckIsValid st = false \/ accepts dec (semit its) ->
  fn_MapSeq_Xml (run_ms ind outd mar mari st f) dec st m rt = Ret (semit its, None).
Proof.
  intros o st Hv ind outd mar mari dec f m rt Hf Hd its E Hc.
  rewrite (mapseq_xml_code_is_model o st Hv ind outd mar mari dec f m rt Hf Hd its E).
  destruct Hc as [Hc|Hc]; [rewrite Hc; reflexivity|].
  apply acceptb_accepts in Hc. rewrite Hc. rewrite andb_false_r. reflexivity.
Qed.

Corollary mapseq_xml_code_is_checked_bytes : forall o st, senc_view st o -> xmlCheckIsValid o = g_xmlCheckIsValid st ->
  forall ind outd mar mari dec f m rt, vd (VMap m) < f -> text_ok o (VMap m) = true ->
  forall its, seq_xml_items o m (rt_opt rt) = Ok its ->
  entry_conv (checked_bytes o (acceptb dec) (Ok (semit its))) (fn_MapSeq_Xml (run_ms ind outd mar mari st f) dec st m rt).
Proof.
  intros o st Hv Hc ind outd mar mari dec f m rt Hf Hd its E.
  rewrite (mapseq_xml_code_is_model o st Hv ind outd mar mari dec f m rt Hf Hd its E).
  cbn [checked_bytes]. rewrite Hc.
  destruct (g_xmlCheckIsValid st && negb (acceptb dec (semit its))); cbn [entry_conv]; [eexists; reflexivity|reflexivity].
Qed.

(* 4. the model returns an error (an attribute whose #text is no scalar), no uint64 / json.Number in the Map *)
Theorem mapseq_xml_code_error : forall o st, senc_view st o ->
  forall ind outd mar mari dec f m rt, vd (VMap m) < f -> text_ok o (VMap m) = true ->
  forall e, seq_xml_items o m (rt_opt rt) = Err e -> PureG17.no_marshal (VMap m) = true ->
  exists b',
    fn_MapSeq_Xml (run_ms ind outd mar mari st f) dec st m rt =
      if g_xmlCheckIsValid st
      then (if acceptb dec b' then Ret (b', None) else Ret ([], Some EOther))
      else Ret (b', Some EOther).
Proof. intros o st Hv ind outd mar mari dec f m rt Hf Hd. exact (mapseq_xml_code_error_ o st Hv ind outd mar mari dec f m rt Hf Hd). Qed.

Corollary mapseq_xml_code_error_is_error : forall o st, senc_view st o ->
  forall ind outd mar mari dec f m rt, vd (VMap m) < f -> text_ok o (VMap m) = true ->
  forall e, seq_xml_items o m (rt_opt rt) = Err e -> PureG17.no_marshal (VMap m) = true ->
  g_xmlCheckIsValid st = false ->
  exists b', fn_MapSeq_Xml (run_ms ind outd mar mari st f) dec st m rt = Ret (b', Some EOther).
Proof.
  intros o st Hv ind outd mar mari dec f m rt Hf Hd e E Hn Hc.
  destruct (mapseq_xml_code_error o st Hv ind outd mar mari dec f m rt Hf Hd e E Hn) as (b' & H). rewrite H, Hc.
  exists b'. reflexivity.
Qed.
Corollary mapseq_xml_code_error_check_on : forall o st, senc_view st o ->
  forall ind outd mar mari dec f m rt, vd (VMap m) < f -> text_ok o (VMap m) = true ->
  forall e, seq_xml_items o m (rt_opt rt) = Err e -> PureG17.no_marshal (VMap m) = true ->
  g_xmlCheckIsValid st = true ->
  fn_MapSeq_Xml (run_ms ind outd mar mari st f) dec st m rt = Ret ([], Some EOther) \/
  exists b', accepts dec b' /\ fn_MapSeq_Xml (run_ms ind outd mar mari st f) dec st m rt = Ret (b', None).
Proof.
  intros o st Hv ind outd mar mari dec f m rt Hf Hd e E Hn Hc.
  destruct (mapseq_xml_code_error o st Hv ind outd mar mari dec f m rt Hf Hd e E Hn) as (b' & H). rewrite H, Hc.
  destruct (acceptb dec b') eqn:Ea; [right; exists b'; split; [apply acceptb_accepts; exact Ea|reflexivity]|left; reflexivity].
Qed.

(* 5. the model panics (a failed type assertion under a special key / of an attribute): so does the entry point *)
Theorem mapseq_xml_code_panic : forall o st, senc_view st o ->
  forall ind outd mar mari dec f m rt, vd (VMap m) < f -> text_ok o (VMap m) = true ->
  seq_xml_items o m (rt_opt rt) = Panic ->
  fn_MapSeq_Xml (run_ms ind outd mar mari st f) dec st m rt = Crash.
Proof. intros o st Hv ind outd mar mari dec f m rt Hf Hd. exact (mapseq_xml_code_panic_ o st Hv ind outd mar mari dec f m rt Hf Hd). Qed.

(* ------------------------------------------------------------------ non-vacuity *)

(* a tokenizer for the examples: accepts exactly the two documents below *)
Definition ex_doc1 : str := s "<doc><a>1</a><b>y</b></doc>".
Definition ex_doc2 : str := s "<a k=""v"">t</a>".
Definition ex_dec26 (b : str) : xdecoder := if str_eqb b ex_doc1 || str_eqb b ex_doc2 then ([], TermEOF) else ([], TermErr).
Definition ex_st_on : gstate := with_xmlCheckIsValid true gstate0.

Example map_xml_examples :
  enc_view ex_st_on (state_opts ex_st_on) /\ g_xmlCheckIsValid ex_st_on = true /\
  (let m := [(s "a", VInt 1); (s "b", VStr (s "y"))] in
   vdepth (VMap m) <= 5 /\ text_dom (state_opts ex_st_on) (VMap m) = true /\
   (exists its, map_xml_items (state_opts ex_st_on) m (rt_opt []) = Ok its /\ emit its = ex_doc1) /\
   fn_Map_Xml (run_mm idp5 idp5 PureG18.no_marshal no_marshal_indent ex_st_on 5) ex_dec26 ex_st_on m [] = Ret (ex_doc1, None) /\
   fn_Map_Xml (run_mm idp5 idp5 PureG18.no_marshal no_marshal_indent ex_st_on 5) ex_dec26 ex_st_on m [s "r"] = Ret ([], Some EOther) /\
   fn_Map_Xml (run_mm idp5 idp5 PureG18.no_marshal no_marshal_indent gstate0 5) ex_dec26 gstate0 m [s "r"]
     = Ret (s "<r><a>1</a><b>y</b></r>", None)) /\
  (let m := [(s "a", VMap [(s "-k", VStr (s "v")); (s "#text", VStr (s "t"))])] in
   fn_Map_Xml (run_mm idp5 idp5 PureG18.no_marshal no_marshal_indent ex_st_on 5) ex_dec26 ex_st_on m [] = Ret (ex_doc2, None) /\
   fn_Map_Xml (run_mm idp5 idp5 PureG18.no_marshal no_marshal_indent gstate0 5) ex_dec26 gstate0 m [s "r1"; s "r2"]
     = Ret (s "<doc><a k=""v"">t</a></doc>", None)) /\
  (let m := [(s "a", VMap [(s "-k", VMap [])])] in
   vdepth (VMap m) <= 5 /\ text_dom (state_opts ex_st_on) (VMap m) = true /\
   map_xml_items (state_opts ex_st_on) m (rt_opt []) = Err EOther /\
   fn_Map_Xml (run_mm idp5 idp5 PureG18.no_marshal no_marshal_indent ex_st_on 5) ex_dec26 ex_st_on m [] = Ret ([], Some EOther) /\
   fn_Map_Xml (run_mm idp5 idp5 PureG18.no_marshal no_marshal_indent gstate0 5) ex_dec26 gstate0 m [] = Ret (s "<a", Some EOther)).
Proof.
  split; [apply state_opts_enc_view|]. split; [reflexivity|]. cbv zeta.
  split; [split; [vm_compute; lia|]; split; [reflexivity|]; split; [eexists; split; vm_compute; reflexivity|]; repeat split; vm_compute; reflexivity|].
  split; [split; vm_compute; reflexivity|].
  split; [vm_compute; lia|]. repeat split; vm_compute; reflexivity.
Qed.

Definition ex_sq (x : str) (n : Z) : value := VMap [(s "#text", VStr x); (s "#seq", VInt n)].
Example mapseq_xml_examples :
  senc_view ex_st_on (state_opts ex_st_on) /\
  (let m := [(s "doc", VMap [(s "b", ex_sq (s "y") 1); (s "a", ex_sq (s "1") 0); (s "#seq", VInt 0)])] in
   vd (VMap m) < 5 /\ text_ok (state_opts ex_st_on) (VMap m) = true /\
   (exists its, seq_xml_items (state_opts ex_st_on) m (rt_opt []) = Ok its /\ semit its = ex_doc1) /\
   fn_MapSeq_Xml (run_ms idp5 idp5 PureG18.no_marshal no_marshal_indent ex_st_on 5) ex_dec26 ex_st_on m [] = Ret (ex_doc1, None) /\
   fn_MapSeq_Xml (run_ms idp5 idp5 PureG18.no_marshal no_marshal_indent ex_st_on 5) ex_dec26 ex_st_on m [s "r"] = Ret ([], Some EOther)) /\
  (let m := [(s "a", VMap [(s "#attr", VMap [(s "k", VMap [(s "#text", VNil)])]); (s "#seq", VInt 0)])] in
   vd (VMap m) < 5 /\ text_ok (state_opts gstate0) (VMap m) = true /\ PureG17.no_marshal (VMap m) = true /\
   seq_xml_items (state_opts gstate0) m (rt_opt []) = Err EOther /\
   fn_MapSeq_Xml (run_ms idp5 idp5 PureG18.no_marshal no_marshal_indent gstate0 5) ex_dec26 gstate0 m [] = Ret (s "<a", Some EOther)) /\
  (let m := [(s "#comment", VMap [])] in
   vd (VMap m) < 5 /\ text_ok (state_opts gstate0) (VMap m) = true /\
   seq_xml_items (state_opts gstate0) m (rt_opt []) = Panic /\
   fn_MapSeq_Xml (run_ms idp5 idp5 PureG18.no_marshal no_marshal_indent gstate0 5) ex_dec26 gstate0 m [] = Crash).
Proof.
  split; [apply state_opts_senc_view|]. cbv zeta.
  split; [split; [vm_compute; lia|]; split; [reflexivity|]; split; [eexists; split; vm_compute; reflexivity|]; split; vm_compute; reflexivity|].
  split; [split; [vm_compute; lia|]; repeat split; vm_compute; reflexivity|].
  split; [vm_compute; lia|]. repeat split; vm_compute; reflexivity.
Qed.

(* the table of the translator's test (T8_example.v), with rt_opt as the model's root tag: code and model agree on every row,
   the rows with two root tags included *)
Definition t8_go (m : entries) (rt : list str) := fn_Map_Xml (run_mm idp5 idp5 PureG18.no_marshal no_marshal_indent gstate0 50) dec_all gstate0 m rt.
Definition t8_mdl (m : entries) (rt : list str) :=
  match map_xml_items opts0 m (rt_opt rt) with Ok its => Some (emit its) | _ => None end.
Definition t8_ms : list entries :=
  [ [(s "a", VInt 1)];
    [(s "a", VList [VMap [(s "b", VInt 1)]; VMap [(s "c", VStr (s "x"))]])];
    [(s "a", VList [VMap [(s "b", VInt 1)]; VInt 3])];
    [(s "a", VList [])];
    [(s "a", VInt 1); (s "b", VStr (s "y"))];
    [];
    [(s "a", VMap [(s "-k", VStr (s "v")); (s "#text", VStr (s "t"))])];
    [(s "a", VMap [(s "-k", VMap [])])] ].
Definition t8_same (m : entries) (rt : list str) : bool :=
  match t8_go m rt, t8_mdl m rt with
  | Ret (b, None), Some b' => str_eqb b b'
  | Ret (_, Some _), None => true
  | _, _ => false
  end.
Example t8_table_agrees :
  forallb (fun m => forallb (t8_same m) [[]; [s "root"]; [s "r1"; s "r2"]]) t8_ms = true.
Proof. vm_compute. reflexivity. Qed.

Print Assumptions map_xml_code_is_model.
Print Assumptions map_xml_code_is_model_accepted.
Print Assumptions map_xml_code_is_checked_bytes.
Print Assumptions map_xml_code_error.
Print Assumptions map_xml_code_error_is_error.
Print Assumptions map_xml_code_error_check_on.
Print Assumptions map_xml_model_no_panic.
Print Assumptions map_xml_code_is_model_any_state.
Print Assumptions map_xml_error_swallowed.
Print Assumptions mapseq_xml_code_is_model.
Print Assumptions mapseq_xml_code_is_model_accepted.
Print Assumptions mapseq_xml_code_is_checked_bytes.
Print Assumptions mapseq_xml_code_error.
Print Assumptions mapseq_xml_code_error_is_error.
Print Assumptions mapseq_xml_code_error_check_on.
Print Assumptions mapseq_xml_code_panic.
