(* The exported query entry points go2v translated from /repo's CURRENT sources (Gen/Pure_gen.v: Map.ValuesForKey,
   Map.oldValuesForPath, Map.ValuesForPath of keyvalues.go and Map.LeafNodes of leafnode.go) ARE the model entry points.
   Each of them calls other functions of the package, which in the translation are Section variables; here they are
   instantiated with the TRANSLATED callees themselves (getSubKeyMap, hasSubKeys, parsePath, hasKey, valuesForKeyPath,
   getLeafNodes; the recursive ones run with fuel above the bound of their theorems), so the statements are about
   translated code only.  The one exception is valuesForArray (the indexed-path loop), which is not translated: it is
   instantiated with the hand-written model [values_for_array], tied to the code by the correspondence run. *)
From Coq Require Import Lia.
From Mxj Require Import Gen.GenSupport Gen.Setters_gen Gen.PureSupport Gen.Pure_gen Model.KeyValues Model.TreeOps Spec.KeySearch.
From Mxj Require Import Proofs.StrLemmas Proofs.C07P GenProofs.PureG GenProofs.PureG2 GenProofs.PureG3.

(* ------------------------------------------------------------------ the translated callees as functions *)

Definition run_hasSubKeys (st : gstate) (v : value) (sk : entries) : bool :=
  match fn_hasSubKeys st v sk with Ret b => b | _ => false end.
Definition run_getSubKeyMap pf (st : gstate) (kv : list str) : res entries :=
  match fn_getSubKeyMap pf st kv with Ret r => r | _ => Panic end.
Definition run_parsePath (st : gstate) (p : str) : res (list t_key) :=
  match fn_parsePath st p with Ret r => r | _ => Panic end.
Definition run_hasKey (st : gstate) (iv : value) (key : str) (ret : list value) (cnt : Z) (sk : entries) : list value * Z :=
  match fn_hasKey (run_hasSubKeys st) (S (vd iv)) st iv key ret cnt sk with Ret r => r | _ => (ret, cnt) end.
Definition run_valuesForKeyPath (st : gstate) (ret : list value) (cnt : Z) (m : value) (keys : list str) (sk : entries) : list value * Z :=
  match fn_valuesForKeyPath (run_hasSubKeys st) (S (length keys)) st ret cnt m keys sk with Ret r => r | _ => (ret, cnt) end.
Definition run_getLeafNodes (st : gstate) (path node : str) (mv : value) (l : list t_LeafNode) (noattr : bool) : list t_LeafNode :=
  match fn_getLeafNodes (S (vd mv)) st path node mv l noattr with Ret r => r | _ => l end.

Lemma run_hasSubKeys_eq st v sk : run_hasSubKeys st v sk = has_sub_keys v sk.
Proof. unfold run_hasSubKeys. rewrite has_sub_keys_code_is_model. reflexivity. Qed.

Lemma run_getSubKeyMap_eq pf st kv : g_fieldSep st <> [] ->
  run_getSubKeyMap pf st kv = get_sub_key_map pf (g_fieldSep st) kv.
Proof.
  intros H. unfold run_getSubKeyMap. rewrite get_sub_key_map_code_is_model by exact H.
  destruct (get_sub_key_map pf (g_fieldSep st) kv); reflexivity.
Qed.

Lemma run_parsePath_eq st p :
  run_parsePath st p = match parse_path p with Ok ks => Ok (map to_key ks) | Err e => Err e | Panic => Panic end.
Proof. unfold run_parsePath. rewrite parse_path_code_is_model. destruct (parse_path p); reflexivity. Qed.

Lemma run_hasKey_eq st iv key ret cnt sk :
  run_hasKey st iv key ret cnt sk = (ret ++ has_key_walk iv key sk, (cnt + Z.of_nat (length (has_key_walk iv key sk)))%Z).
Proof.
  unfold run_hasKey. rewrite (has_key_code_is_model_gen (run_hasSubKeys st) (run_hasSubKeys_eq st)) by lia. reflexivity.
Qed.

Lemma run_valuesForKeyPath_eq st ret cnt m keys sk :
  run_valuesForKeyPath st ret cnt m keys sk = (ret ++ vfkp keys sk m, (cnt + Z.of_nat (length (vfkp keys sk m)))%Z).
Proof.
  unfold run_valuesForKeyPath. rewrite (vfkp_code_is_model_gen (run_hasSubKeys st) (run_hasSubKeys_eq st)) by lia. reflexivity.
Qed.

Lemma run_getLeafNodes_eq st path node mv l noattr :
  exists ns, run_getLeafNodes st path node mv l noattr = l ++ ns /\
             map leaf_pair ns = get_leaf_nodes (g_attrPrefix st) (g_textK st) (g_useDotNotation st) path node mv noattr.
Proof.
  unfold run_getLeafNodes.
  destruct (leaf_nodes_code_is_model mv (S (vd mv)) st path node l noattr ltac:(lia)) as (ns & E & F).
  rewrite E. exists ns. split; [reflexivity|exact F].
Qed.

Definition of_res {A} (r : res A) : ctl unit (res A) :=
  match r with Ok a => Ret (Ok a) | Err e => Ret (Err e) | Panic => Crash end.

Lemma take_all (l : list value) :
  (if (Z.ltb (0 + Z.of_nat (length l)) 0 || Z.ltb (Z.of_nat (length ([] ++ l))) (0 + Z.of_nat (length l)))%bool
   then (Crash : ctl unit (res (list value)))
   else Ret (Ok (firstn (Z.to_nat (0 + Z.of_nat (length l))) ([] ++ l)))) = Ret (Ok l).
Proof.
  cbn [app]. rewrite Z.add_0_l.
  replace (Z.ltb (Z.of_nat (length l)) 0) with false by (symmetry; apply Z.ltb_ge; lia).
  rewrite Z.ltb_irrefl. cbn [orb]. rewrite Nat2Z.id, firstn_all. reflexivity.
Qed.

(* ------------------------------------------------------------------ Map.ValuesForKey *)

Theorem values_for_key_code_is_model : forall pf st m key subkeys,
  g_fieldSep st <> [] ->
  fn_ValuesForKey (run_getSubKeyMap pf st) (run_hasKey st) st m key subkeys
  = of_res (values_for_key pf (g_fieldSep st) (VMap m) key subkeys).
Proof.
  intros pf st m key subkeys Hs. unfold fn_ValuesForKey, values_for_key. cbv zeta.
  destruct subkeys as [|s0 sks].
  - cbn [length Z.of_nat Z.gtb Z.compare bindc]. rewrite run_hasKey_eq.
    change (get_sub_key_map pf (g_fieldSep st) []) with (Ok ([] : entries)). cbn [bind of_res].
    apply take_all.
  - replace (Z.gtb (Z.of_nat (length (s0 :: sks))) 0) with true by (symmetry; apply Z.gtb_lt; cbn [length]; lia).
    rewrite run_getSubKeyMap_eq by exact Hs.
    destruct (get_sub_key_map pf (g_fieldSep st) (s0 :: sks)) as [sk|e|]; cbn [bindc bind negb of_res]; try reflexivity.
    rewrite run_hasKey_eq. apply take_all.
Qed.

(* ------------------------------------------------------------------ Map.oldValuesForPath *)

Lemma last_nth {A} (l : list A) (d : A) : l <> [] -> nth_error l (length l - 1) = Some (last l d).
Proof.
  induction l as [|a l IH]; intros H; [congruence|].
  destruct l as [|b l]; [reflexivity|].
  replace (length (a :: b :: l) - 1) with (S (length (b :: l) - 1)) by (cbn [length]; lia).
  cbn [nth_error]. rewrite IH by discriminate. reflexivity.
Qed.

Lemma path_keys_code path (A : Type) (K : list str -> ctl unit A) :
  bindc (S := list str)
    (match nth_error (go_split path (s ".")) (length (go_split path (s ".")) - 1) with
     | None => Crash
     | Some idx2 =>
         if str_eqb idx2 []
         then if Nat.ltb (length (go_split path (s "."))) 1 then Crash else Next (removelast (go_split path (s ".")))
         else Next (go_split path (s "."))
     end) K = K (path_keys path).
Proof.
  change (s ".") with [dot]. rewrite go_split_single. unfold path_keys.
  pose proof (split1_nonempty dot path) as Hne.
  rewrite (last_nth (split1 dot path) [dot] Hne).
  destruct (last (split1 dot path) [dot]) as [|c t]; cbn [str_eqb bindc]; [|reflexivity].
  destruct (split1 dot path) as [|a l]; [congruence|]. reflexivity.
Qed.

Theorem old_values_for_path_code_is_model : forall pf st m path subkeys,
  g_fieldSep st <> [] ->
  fn_oldValuesForPath (run_getSubKeyMap pf st) (run_valuesForKeyPath st) st m path subkeys
  = of_res (old_values_for_path pf (g_fieldSep st) (VMap m) path subkeys).
Proof.
  intros pf st m path subkeys Hs. unfold fn_oldValuesForPath, old_values_for_path. cbv zeta.
  destruct subkeys as [|s0 sks].
  - cbn [length Z.of_nat Z.gtb Z.compare bindc]. rewrite path_keys_code. rewrite run_valuesForKeyPath_eq.
    change (get_sub_key_map pf (g_fieldSep st) []) with (Ok ([] : entries)). cbn [bind of_res].
    apply take_all.
  - replace (Z.gtb (Z.of_nat (length (s0 :: sks))) 0) with true by (symmetry; apply Z.gtb_lt; cbn [length]; lia).
    rewrite run_getSubKeyMap_eq by exact Hs.
    destruct (get_sub_key_map pf (g_fieldSep st) (s0 :: sks)) as [sk|e|]; cbn [bindc bind negb of_res]; try reflexivity.
    rewrite path_keys_code. rewrite run_valuesForKeyPath_eq. apply take_all.
Qed.

(* ------------------------------------------------------------------ Map.ValuesForPath *)

Definition of_key (k : t_key) : pkey := {| pk_name := key_name k; pk_arr := key_isArray k; pk_pos := key_position k |}.
Lemma of_to_key ks : map of_key (map to_key ks) = ks.
Proof. induction ks as [|[n a p] ks IH]; [reflexivity|]. cbn. rewrite IH. reflexivity. Qed.

(* the translated oldValuesForPath as a function, and the (untranslated) indexed-path loop as its model *)
Definition run_oldValuesForPath pf (st : gstate) (m : entries) (path : str) (subkeys : list str) : res (list value) :=
  match fn_oldValuesForPath (run_getSubKeyMap pf st) (run_valuesForKeyPath st) st m path subkeys with Ret r => r | _ => Panic end.
Definition model_valuesForArray (ks : list t_key) (m : entries) : res (list value) :=
  Ok (values_for_array (map of_key ks) (VMap m)).

Lemma filter_loop (p : value -> bool) (body : list value -> value -> ctl (list value) (res (list value))) l :
  (forall acc v, body acc v = Next (if p v then acc ++ [v] else acc)) ->
  forall acc, range_loop body l acc = Next (acc ++ filter p l).
Proof.
  intros Hb. induction l as [|v l IH]; intros acc; cbn [range_loop filter]; [rewrite app_nil_r; reflexivity|].
  rewrite Hb, IH. destruct (p v); [rewrite <- app_assoc|]; reflexivity.
Qed.

Theorem values_for_path_code_is_model : forall pf st m path subkeys,
  g_fieldSep st <> [] ->
  fn_ValuesForPath (run_oldValuesForPath pf st) (run_getSubKeyMap pf st) (run_hasSubKeys st) (run_parsePath st) model_valuesForArray
    st m path subkeys
  = of_res (values_for_path pf (g_fieldSep st) (VMap m) path subkeys).
Proof.
  intros pf st m path subkeys Hs. unfold fn_ValuesForPath, values_for_path. cbv zeta.
  change (s "[") with [lbr]. rewrite go_index_single.
  destruct (mem_ascii lbr path); cbn [negb bindc].
  - (* indexed *)
    assert (Hrest : forall sk,
      (match run_parsePath st path with
       | Panic => Crash
       | rr2 =>
           let '(l_keys, l_kerr) := match rr2 with Ok v => (v, None) | Err e => (([] : list t_key), Some e) | Panic => (([] : list t_key), None) end in
           bindc (S := unit)
             (if negb (match l_kerr with None => true | Some _ => false end)
              then match l_kerr with Some e => Ret (Err e) | None => Ret (Ok ([] : list value)) end
              else Next tt)
             (fun _ =>
                match model_valuesForArray l_keys m with
                | Panic => Crash
                | rr3 =>
                    let '(l_vals, l_verr) := match rr3 with Ok v => (v, None) | Err e => (([] : list value), Some e) | Panic => (([] : list value), None) end in
                    bindc (S := unit)
                      (if negb (match l_verr with None => true | Some _ => false end)
                       then match l_verr with Some e => Ret (Err e) | None => Ret (Ok ([] : list value)) end
                       else Next tt)
                      (fun _ =>
                         bindc (S := list value)
                           (range_loop (fun (st_ : list value) (el_ : value) =>
                              (if run_hasSubKeys st el_ sk then Next (st_ ++ [el_]) else Next st_ : ctl (list value) (res (list value)))) l_vals ([] : list value))
                           (fun l_retvals => Ret (Ok l_retvals)))
                end)
       end)
      = of_res (bind (parse_path path) (fun ks => Ok (filter (fun v => has_sub_keys v sk) (values_for_array ks (VMap m)))))).
    { intros sk. rewrite run_parsePath_eq.
      destruct (parse_path path) as [ks|e|]; cbn [bind of_res negb bindc]; try reflexivity.
      unfold model_valuesForArray. rewrite of_to_key. cbn [negb bindc].
      rewrite (filter_loop (fun v => has_sub_keys v sk)).
      - reflexivity.
      - intros acc v. rewrite run_hasSubKeys_eq. destruct (has_sub_keys v sk); reflexivity. }
    destruct subkeys as [|s0 sks].
    + cbn [length Z.of_nat Z.gtb Z.compare bindc].
      change (get_sub_key_map pf (g_fieldSep st) []) with (Ok ([] : entries)). cbn [bind].
      apply Hrest.
    + replace (Z.gtb (Z.of_nat (length (s0 :: sks))) 0) with true by (symmetry; apply Z.gtb_lt; cbn [length]; lia).
      rewrite run_getSubKeyMap_eq by exact Hs.
      destruct (get_sub_key_map pf (g_fieldSep st) (s0 :: sks)) as [sk|e|]; cbn [bindc bind negb of_res]; try reflexivity.
      apply Hrest.
  - (* no index: the legacy walk *)
    unfold run_oldValuesForPath. rewrite old_values_for_path_code_is_model by exact Hs.
    destruct (old_values_for_path pf (g_fieldSep st) (VMap m) path subkeys); reflexivity.
Qed.

(* ------------------------------------------------------------------ Map.LeafNodes *)

Theorem leaf_nodes_entry_code_is_model : forall st m (no_attr : list bool),
  exists ns, fn_LeafNodes (run_getLeafNodes st) st m no_attr = Ret ns /\
             map leaf_pair ns = leaf_nodes (g_attrPrefix st) (g_textK st) (g_useDotNotation st) (VMap m)
                                  (match no_attr with [b] => b | _ => false end).
Proof.
  intros st m no_attr. unfold fn_LeafNodes, leaf_nodes. cbv zeta.
  assert (Ha : forall (K : bool -> ctl unit (list t_LeafNode)),
    bindc (S := bool)
      (if Z.eqb (Z.of_nat (length no_attr)) 1
       then match nth_error no_attr 0 with None => Crash | Some idx1 => Next idx1 end
       else Next false) K = K (match no_attr with [b] => b | _ => false end)).
  { intros K. destruct no_attr as [|b [|b2 t]]; try reflexivity.
    replace (Z.eqb (Z.of_nat (length (b :: b2 :: t))) 1) with false by (symmetry; apply Z.eqb_neq; cbn [length]; lia).
    reflexivity. }
  rewrite Ha.
  destruct (run_getLeafNodes_eq st [] [] (VMap m) [] (match no_attr with [b] => b | _ => false end)) as (ns & E & F).
  rewrite E. exists ns. split; [reflexivity|exact F].
Qed.
