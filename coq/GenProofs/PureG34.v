(* C13, the bulk handlers as go2v translated them from /repo's CURRENT sources (Gen/Pure_gen.v, handler mode):
     fn_HandleXmlReader, fn_HandleXmlReaderRaw (xml.go:817, 857), fn_HandleJsonReader, fn_HandleJsonReaderRaw (json.go:265, 304)
   ARE the model handle_reader of Model/Reader.v.

   1. handlers_code_feed (no hypothesis, ANY handler state, ANY handlers, ANY reader callee): the translated function is
      `feed` over the successive results of the reader callee (`reads`): mapHandler is called exactly on the non-nil Maps the
      reader returns with a nil (or io.EOF) error, in order, until it answers false; errHandler on every error other than
      io.EOF, with the NEW error made by fmt.Errorf (EOther); the handler state is threaded through the calls in that order.
   2. with the history state (the mapHandler calls so far, the number of errHandler calls) and handlers made of the model's
      mh / eh, that is the model: *_code_is_model, for every reader function `next` that returns Maps only.
   3. the model's own readers (handle_json_reader[_raw] nmj, handle_xml_reader[_raw] M); the code returns exactly when the
      model has an outcome other than Panic (handlers_code_returns_iff); for ANY handlers it returns when the reader callee
      never panics and consumes an event for every result other than io.EOF (handlers_code_returns), which the model's JSON
      readers always do and its XML readers do when the decoder answers io.EOF at the end of the input.
   4. any_handlers_are_model: whatever the handlers and their state, the error returned and the reader left behind are those
      of the model for some mh, eh. *)
From Mxj Require Import Gen.GenSupport Gen.Setters_gen Gen.PureSupport Gen.Pure_gen Model.Reader.
From Mxj Require Import Proofs.C13Top Proofs.C15XApi.
Import ListNotations.

(* ------------------------------------------------------------------ for_loop *)

Lemma for_loop_ext : forall {S A} (b1 b2 : S -> ctl S A), (forall s, b1 s = b2 s) ->
  forall fuel s, for_loop fuel b1 s = for_loop fuel b2 s.
Proof.
  intros S A b1 b2 Hb. induction fuel as [|f IH]; intro s; [reflexivity|].
  cbn [for_loop]. rewrite Hb. destruct (b2 s); auto.
Qed.

(* ------------------------------------------------------------------ 1. any handler state, any handlers, any reader callee *)

Section AnyHandlers.
Variable H : Type.                                         (* the common state of the two handlers *)
Variable mapH : H -> entries -> str -> bool * H.           (* mapHandler(m, raw) *)
Variable errH : H -> err -> str -> bool * H.               (* errHandler(err, raw) *)

(* one result of the nil-aware reader callee: (m, raw, merr) and the reader afterwards *)
Definition rdres : Type := ((option entries * str * option err) * list rev)%type.

(* the successive results of the reader callee, at most `fuel` of them, up to its first panic *)
Fixpoint reads (rd : list rev -> option rdres) (fuel : nat) (S : list rev) : list rdres :=
  match fuel with
  | O => []
  | Datatypes.S f => match rd S with
                     | None => []
                     | Some (x, S') => (x, S') :: reads rd f S'
                     end
  end.

(* what the handler loop does with them: the error returned, the reader and the handler state afterwards;
   Crash = the reader callee panicked, or the results ran out (the loop was still running after 2 + length S reads) *)
Fixpoint feed (h : H) (l : list rdres) : ctl unit (option err * (list rev * H)) :=
  match l with
  | [] => Crash
  | ((om, raw, oe), S') :: rest =>
      match oe with
      | Some EEOF =>                                   (* merr == io.EOF: the Map, if there is one, is handled; break; return nil *)
          match om with
          | Some m => Ret (None, (S', snd (mapH h m raw)))
          | None => Ret (None, (S', h))
          end
      | Some _ =>                                      (* errHandler(fmt.Errorf(...), raw); false: return that error; true: continue *)
          let '(ok, h') := errH h EOther raw in
          if ok then feed h' rest else Ret (Some EOther, (S', h'))
      | None =>
          match om with
          | Some m =>                                  (* mapHandler(m, raw); false: break; return nil *)
              let '(ok, h') := mapH h m raw in
              if ok then feed h' rest else Ret (None, (S', h'))
          | None => feed h rest                        (* sleep; next iteration *)
          end
      end
  end.

Theorem handle_json_reader_raw_code_feed : forall rd st S h,
  fn_HandleJsonReaderRaw H rd st S mapH errH h = feed h (reads rd (2 + length S) S).
Proof.
  intros rd st S h. unfold fn_HandleJsonReaderRaw. cbv zeta.
  change (2 + length S) with (Datatypes.S (Datatypes.S (length S))).
  generalize (Datatypes.S (Datatypes.S (length S))) as fuel. generalize 0%Z as n.
  match goal with |- forall n fuel, bindc (for_loop fuel ?b _) ?k = _ => set (B := b); set (K := k) end.
  intros n fuel. revert S n h.
  induction fuel as [|f IH]; intros S n h; [reflexivity|].
  cbn [for_loop reads]. unfold B at 1.
  destruct (rd S) as [[[[om raw] oe] S']|]; [|reflexivity].
  cbn [feed]. destruct oe as [[| |]|]; cbn [negb].
  - destruct om as [m|]; [destruct (mapH h m raw) as [[|] h']|]; reflexivity.
  - destruct (errH h EOther raw) as [[|] h']; cbn [bindc]; [apply IH|reflexivity].
  - destruct (errH h EOther raw) as [[|] h']; cbn [bindc]; [apply IH|reflexivity].
  - destruct om as [m|]; [destruct (mapH h m raw) as [[|] h']|]; cbn [bindc]; try reflexivity; apply IH.
Qed.
End AnyHandlers.

(* the XML function is the JSON one up to the reader callee (its variadic `cast ...bool` argument is always empty) *)
Lemma handle_xml_raw_is_json_raw : forall H rd st S mapH errH h,
  fn_HandleXmlReaderRaw H rd st S mapH errH h = fn_HandleJsonReaderRaw H (fun S => rd S []) st S mapH errH h.
Proof. reflexivity. Qed.
Lemma handle_xml_is_json : forall H rd st S mapH errH h,
  fn_HandleXmlReader H rd st S mapH errH h = fn_HandleJsonReader H (fun S => rd S []) st S mapH errH h.
Proof. reflexivity. Qed.

(* the functions without raw are the raw ones with handlers that ignore it *)
Definition add_raw (rd : list rev -> option ((option entries * option err) * list rev)) (S : list rev) : option rdres :=
  match rd S with Some ((om, oe), S') => Some ((om, [], oe), S') | None => None end.
Definition no_raw {H X} (f : H -> X -> bool * H) : H -> X -> str -> bool * H := fun h x _ => f h x.

Lemma handle_json_is_raw : forall H rd st S (mapH : H -> entries -> bool * H) (errH : H -> err -> bool * H) h,
  fn_HandleJsonReader H rd st S mapH errH h = fn_HandleJsonReaderRaw H (add_raw rd) st S (no_raw mapH) (no_raw errH) h.
Proof.
  intros H rd st S mapH errH h. unfold fn_HandleJsonReader, fn_HandleJsonReaderRaw. cbv zeta.
  f_equal. apply for_loop_ext. intros [[S0 n] h0]. unfold add_raw, no_raw.
  destruct (rd S0) as [[[om oe] S']|]; reflexivity.
Qed.

Theorem handle_xml_reader_raw_code_feed : forall H mapH errH rd st S h,
  fn_HandleXmlReaderRaw H rd st S mapH errH h = feed H mapH errH h (reads (fun S => rd S []) (2 + length S) S).
Proof. intros. rewrite handle_xml_raw_is_json_raw. apply handle_json_reader_raw_code_feed. Qed.
Theorem handle_json_reader_code_feed : forall H (mapH : H -> entries -> bool * H) (errH : H -> err -> bool * H) rd st S h,
  fn_HandleJsonReader H rd st S mapH errH h = feed H (no_raw mapH) (no_raw errH) h (reads (add_raw rd) (2 + length S) S).
Proof. intros. rewrite handle_json_is_raw. apply handle_json_reader_raw_code_feed. Qed.
Theorem handle_xml_reader_code_feed : forall H (mapH : H -> entries -> bool * H) (errH : H -> err -> bool * H) rd st S h,
  fn_HandleXmlReader H rd st S mapH errH h
  = feed H (no_raw mapH) (no_raw errH) h (reads (add_raw (fun S => rd S [])) (2 + length S) S).
Proof. intros. rewrite handle_xml_is_json. apply handle_json_reader_code_feed. Qed.
Print Assumptions handle_json_reader_raw_code_feed.
Print Assumptions handle_xml_reader_raw_code_feed.
Print Assumptions handle_json_reader_code_feed.
Print Assumptions handle_xml_reader_code_feed.

(* ------------------------------------------------------------------ 2. the history state: the model *)

(* the handlers' state: the mapHandler calls so far (Map, raw), the number of errHandler calls *)
Definition hst : Type := (list (value * str) * nat)%type.
Definition hst0 : hst := ([], 0).
(* handlers that answer as the model's mh (by call index and Map) / eh (by call index) say *)
Definition map_handler (mh : nat -> value -> bool) (h : hst) (m : entries) (raw : str) : bool * hst :=
  (mh (length (fst h)) (VMap m), (fst h ++ [(VMap m, raw)], snd h)).
Definition err_handler (eh : nat -> bool) (h : hst) (e : err) (raw : str) : bool * hst :=
  (eh (snd h), (fst h, Datatypes.S (snd h))).
Definition map_handler0 mh (h : hst) (m : entries) : bool * hst := map_handler mh h m [].
Definition err_handler0 eh (h : hst) (e : err) : bool * hst := err_handler eh h e [].

(* the nil-aware reader callee of a model reader function: VNil is the nil Map, a panic is None *)
Definition conv_res {T} (r : res value * T) : option (option entries * T * option err) :=
  match r with
  | (Ok (VMap m), t) => Some (Some m, t, None)
  | (Ok _, t) => Some (None, t, None)
  | (Err e, t) => Some (None, t, Some e)
  | (Panic, _) => None
  end.
Definition conv_raw (next : list rev -> option (res value * str * list rev)) (S : list rev) : option rdres :=
  match next S with
  | Some (r, raw, S') => match conv_res (r, raw) with Some x => Some (x, S') | None => None end
  | None => None
  end.
Definition conv (next : list rev -> option (res value * list rev)) (S : list rev)
  : option ((option entries * option err) * list rev) :=
  match next S with
  | Some (r, S') => match conv_res (r, tt) with Some (om, _, oe) => Some ((om, oe), S') | None => None end
  | None => None
  end.

(* the model's outcome as the translated function returns it *)
Definition hout_ctl (o : option hout) : ctl unit (option err * (list rev * hst)) :=
  match o with
  | None => Crash                                       (* the loop was still running after 2 + length S reads, or the reader panicked *)
  | Some o => match h_ret o with
              | Ok _ => Ret (None, (h_rest o, (h_calls o, h_errs o)))
              | Err e => Ret (Some e, (h_rest o, (h_calls o, h_errs o)))
              | Panic => Crash
              end
  end.

(* a reader function returns Maps: a Map or the nil Map (the Go type of its first result) *)
Definition map_or_nil (v : value) : bool := match v with VMap _ | VNil => true | _ => false end.
Definition maps_only {T} (next : list rev -> option (res value * T * list rev)) : Prop :=
  forall S v t S', next S = Some (Ok v, t, S') -> map_or_nil v = true.

Lemma model_loop_feed : forall next mh eh, maps_only next ->
  forall fuel calls nerr S,
  hout_ctl (handle_loop next mh eh fuel calls nerr S)
  = feed hst (map_handler mh) (err_handler eh) (calls, nerr) (reads (conv_raw next) fuel S).
Proof.
  intros next mh eh Hm. induction fuel as [|f IH]; intros calls nerr S; [reflexivity|].
  cbn [handle_loop reads]. unfold conv_raw at 1.
  destruct (next S) as [[[r raw] S']|] eqn:E; [|reflexivity].
  destruct r as [v|e|]; [| |reflexivity].
  - pose proof (Hm S v raw S' E) as Hv.
    destruct v; try discriminate Hv; cbn [conv_res feed non_nil].
    + apply IH.
    + unfold map_handler at 1. cbn [fst snd]. destruct (mh (length calls) (VMap m)); [apply IH|reflexivity].
  - destruct e; cbn [conv_res feed]; try reflexivity;
      unfold err_handler at 1; cbn [fst snd]; (destruct (eh nerr); [apply IH|reflexivity]).
Qed.

Lemma reads_ext : forall rd1 rd2, (forall S, rd1 S = rd2 S) -> forall fuel S, reads rd1 fuel S = reads rd2 fuel S.
Proof.
  intros rd1 rd2 Hr. induction fuel as [|f IH]; intro S; [reflexivity|].
  cbn [reads]. rewrite Hr. destruct (rd2 S) as [[x S']|]; [|reflexivity]. now rewrite IH.
Qed.

(* HandleJsonReaderRaw / HandleXmlReaderRaw *)
Theorem handle_json_reader_raw_code_is_model : forall next mh eh st S, maps_only next ->
  fn_HandleJsonReaderRaw hst (conv_raw next) st S (map_handler mh) (err_handler eh) hst0
  = hout_ctl (handle_reader next mh eh S).
Proof.
  intros next mh eh st S Hm. rewrite handle_json_reader_raw_code_feed. unfold handle_reader, hst0.
  symmetry. apply model_loop_feed, Hm.
Qed.
Print Assumptions handle_json_reader_raw_code_is_model.

Theorem handle_xml_reader_raw_code_is_model : forall next mh eh st S, maps_only next ->
  fn_HandleXmlReaderRaw hst (fun S (_ : list bool) => conv_raw next S) st S (map_handler mh) (err_handler eh) hst0
  = hout_ctl (handle_reader next mh eh S).
Proof. intros next mh eh st S Hm. rewrite handle_xml_raw_is_json_raw. now apply handle_json_reader_raw_code_is_model. Qed.
Print Assumptions handle_xml_reader_raw_code_is_model.

(* HandleJsonReader / HandleXmlReader: the reader function returns no raw; the model records [] *)
Lemma add_raw_conv : forall next S, add_raw (conv next) S = conv_raw (with_unit_raw next) S.
Proof.
  intros next S. unfold add_raw, conv, conv_raw, with_unit_raw. destruct (next S) as [[r S']|]; [|reflexivity].
  destruct r as [v|e|]; [destruct v| |]; reflexivity.
Qed.

Definition raw_of (x : rdres) : str := snd (fst (fst x)).
Lemma feed_ext_raw : forall H (m1 m2 : H -> entries -> str -> bool * H) (e1 e2 : H -> err -> str -> bool * H) (P : str -> Prop),
  (forall h m raw, P raw -> m1 h m raw = m2 h m raw) -> (forall h e raw, P raw -> e1 h e raw = e2 h e raw) ->
  forall l, Forall (fun x => P (raw_of x)) l -> forall h, feed H m1 e1 h l = feed H m2 e2 h l.
Proof.
  intros H m1 m2 e1 e2 P Hm He. induction l as [|[[[om raw] oe] S'] l IH]; intros Hl h; [reflexivity|].
  inversion Hl as [|? ? Hx Hl']; subst. cbn in Hx. cbn [feed].
  rewrite (He h EOther raw Hx). destruct oe as [[| |]|].
  - destruct om as [m|]; [rewrite (Hm h m raw Hx)|]; reflexivity.
  - destruct (e2 h EOther raw) as [[|] h']; [apply IH, Hl'|reflexivity].
  - destruct (e2 h EOther raw) as [[|] h']; [apply IH, Hl'|reflexivity].
  - destruct om as [m|]; [|apply IH, Hl']. rewrite (Hm h m raw Hx).
    destruct (m2 h m raw) as [[|] h']; [apply IH, Hl'|reflexivity].
Qed.
Lemma reads_add_raw_nil : forall rd fuel S, Forall (fun x => raw_of x = []) (reads (add_raw rd) fuel S).
Proof.
  intros rd. induction fuel as [|f IH]; intro S; [constructor|].
  cbn [reads]. unfold add_raw at 1. destruct (rd S) as [[[om oe] S']|]; constructor; [reflexivity|apply IH].
Qed.

Theorem handle_json_reader_code_is_model : forall next mh eh st S, maps_only (with_unit_raw next) ->
  fn_HandleJsonReader hst (conv next) st S (map_handler0 mh) (err_handler0 eh) hst0
  = hout_ctl (handle_reader (with_unit_raw next) mh eh S).
Proof.
  intros next mh eh st S Hm. rewrite handle_json_reader_code_feed.
  rewrite (feed_ext_raw hst _ (map_handler mh) _ (err_handler eh) (fun raw => raw = []));
    [| intros h m raw ->; reflexivity | intros h e raw ->; reflexivity | apply reads_add_raw_nil ].
  rewrite (reads_ext _ _ (add_raw_conv next)). unfold handle_reader, hst0.
  symmetry. apply (model_loop_feed (with_unit_raw next) mh eh Hm).
Qed.
Print Assumptions handle_json_reader_code_is_model.

Theorem handle_xml_reader_code_is_model : forall next mh eh st S, maps_only (with_unit_raw next) ->
  fn_HandleXmlReader hst (fun S (_ : list bool) => conv next S) st S (map_handler0 mh) (err_handler0 eh) hst0
  = hout_ctl (handle_reader (with_unit_raw next) mh eh S).
Proof. intros next mh eh st S Hm. rewrite handle_xml_is_json. now apply handle_json_reader_code_is_model. Qed.
Print Assumptions handle_xml_reader_code_is_model.

(* maps_only is a typing condition, not a restriction of the Go code: a model reader function whose first result is a
   value that is neither a Map nor nil has no counterpart of Go type (Map, []byte, error); the model would hand that value
   to mapHandler, conv_raw can only turn it into the nil Map *)
Example maps_only_needed : exists next mh eh st S,
  fn_HandleJsonReaderRaw hst (conv_raw next) st S (map_handler mh) (err_handler eh) hst0
  <> hout_ctl (handle_reader next mh eh S).
Proof.
  exists (fun S => match S with [] => Some (Err EEOF, [], []) | _ :: t => Some (Ok (VStr []), [], t) end),
         (fun _ _ => true), (fun _ => true), gstate0, [Eof].
  vm_compute. discriminate.
Qed.

(* ------------------------------------------------------------------ 3. the model's own readers *)

Lemma maps_only_unit : forall next, (forall S v S', next S = Some (Ok v, S') -> map_or_nil v = true) ->
  maps_only (with_unit_raw next).
Proof.
  intros next Hn S v t S' E. unfold with_unit_raw in E. destruct (next S) as [[r S1]|] eqn:E1; [|discriminate E].
  injection E as -> _ <-. apply (Hn S v S1 E1).
Qed.

(* JSON: NewMapJson (the oracle nmj) returns Maps *)
Definition nmj_maps (nmj : str -> res value) : Prop := forall b v, nmj b = Ok v -> map_or_nil v = true.

Lemma json_reader_raw_maps : forall nmj, nmj_maps nmj -> maps_only (new_map_json_reader_raw nmj).
Proof.
  intros nmj Hn S v t S' E. unfold new_map_json_reader_raw in E.
  destruct (get_json S) as [[[b|b e] S1]|]; [|discriminate E|discriminate E].
  injection E as E _ _. destruct b as [|c b]; [injection E as <-; reflexivity|]. apply (Hn _ _ E).
Qed.
Lemma json_reader_maps : forall nmj, nmj_maps nmj -> maps_only (with_unit_raw (new_map_json_reader nmj)).
Proof.
  intros nmj Hn. apply maps_only_unit. intros S v S' E. unfold new_map_json_reader in E.
  destruct (get_json S) as [[[b|b e] S1]|]; [|discriminate E|discriminate E].
  injection E as E _. destruct b as [|c b]; [injection E as <-; reflexivity|]. apply (Hn _ _ E).
Qed.

Theorem handle_json_reader_code_is_handle_json_reader : forall nmj mh eh st S, nmj_maps nmj ->
  fn_HandleJsonReader hst (conv (new_map_json_reader nmj)) st S (map_handler0 mh) (err_handler0 eh) hst0
  = hout_ctl (handle_json_reader nmj mh eh S).
Proof. intros nmj mh eh st S Hn. apply handle_json_reader_code_is_model, json_reader_maps, Hn. Qed.
Print Assumptions handle_json_reader_code_is_handle_json_reader.

Theorem handle_json_reader_raw_code_is_handle_json_reader_raw : forall nmj mh eh st S, nmj_maps nmj ->
  fn_HandleJsonReaderRaw hst (conv_raw (new_map_json_reader_raw nmj)) st S (map_handler mh) (err_handler eh) hst0
  = hout_ctl (handle_json_reader_raw nmj mh eh S).
Proof. intros nmj mh eh st S Hn. apply handle_json_reader_raw_code_is_model, json_reader_raw_maps, Hn. Qed.
Print Assumptions handle_json_reader_raw_code_is_handle_json_reader_raw.

(* the model of NewMapJson (Model/Json.v) over ANY behaviour decv of encoding/json returns Maps: no hypothesis *)
Lemma new_map_json_maps : forall decv, nmj_maps (Json.new_map_json decv).
Proof.
  intros decv b v E. unfold Json.new_map_json in E. destruct b as [|c b]; [injection E as <-; reflexivity|].
  destruct (decv (c :: b)) as [w|e|]; [|discriminate E|discriminate E].
  destruct w; try discriminate E; injection E as <-; reflexivity.
Qed.
Theorem handle_json_reader_code_new_map_json : forall decv mh eh st S,
  fn_HandleJsonReader hst (conv (new_map_json_reader (Json.new_map_json decv))) st S (map_handler0 mh) (err_handler0 eh) hst0
  = hout_ctl (handle_json_reader (Json.new_map_json decv) mh eh S) /\
  fn_HandleJsonReaderRaw hst (conv_raw (new_map_json_reader_raw (Json.new_map_json decv))) st S
    (map_handler mh) (err_handler eh) hst0
  = hout_ctl (handle_json_reader_raw (Json.new_map_json decv) mh eh S).
Proof.
  intros decv mh eh st S. split.
  - apply handle_json_reader_code_is_handle_json_reader, new_map_json_maps.
  - apply handle_json_reader_raw_code_is_handle_json_reader_raw, new_map_json_maps.
Qed.
Print Assumptions handle_json_reader_code_new_map_json.

(* XML: the decoder machine answers Maps *)
Definition machine_maps (M : xmachine) : Prop :=
  (forall st b v, m_step M st b = inr (Ok v) -> map_or_nil v = true) /\
  (forall st v, m_eof M st = Ok v -> map_or_nil v = true) /\
  (forall st v, m_noprog M st = Ok v -> map_or_nil v = true).

Lemma drive_maps {A} (M : xmachine) (rb : A -> rbres * A) : machine_maps M ->
  forall fuel st a v a', drive M rb fuel st a = Some (Ok v, a') -> map_or_nil v = true.
Proof.
  intros (H1 & H2 & H3). induction fuel as [|f IH]; intros st a v a' E; [discriminate E|].
  cbn [drive] in E. destruct (rb a) as [x a1]. destruct x as [b|[|]].
  - destruct (m_step M st b) as [st'|r0] eqn:Es; [apply (IH _ _ _ _ E)|].
    injection E as -> _. apply (H1 st b v Es).
  - injection E as E _. apply (H2 st v E).
  - injection E as E _. apply (H3 st v E).
Qed.
Lemma xml_reader_raw_maps : forall M, machine_maps M -> maps_only (new_map_xml_reader_raw M).
Proof.
  intros M HM S v t S' E. unfold new_map_xml_reader_raw in E.
  destruct (drive M tr_read_byte (Datatypes.S (length S)) (m_init M) (my_tee_reader S)) as [[r t1]|] eqn:E1; [|discriminate E].
  injection E as -> _ _. apply (drive_maps M tr_read_byte HM _ _ _ _ _ E1).
Qed.
Lemma xml_reader_maps : forall M, machine_maps M -> maps_only (with_unit_raw (new_map_xml_reader M)).
Proof.
  intros M HM. apply maps_only_unit. intros S v S' E. apply (drive_maps M br_read_byte HM _ _ _ _ _ E).
Qed.

Theorem handle_xml_reader_code_is_handle_xml_reader : forall M mh eh st S, machine_maps M ->
  fn_HandleXmlReader hst (fun S (_ : list bool) => conv (new_map_xml_reader M) S) st S (map_handler0 mh) (err_handler0 eh) hst0
  = hout_ctl (handle_xml_reader M mh eh S).
Proof. intros M mh eh st S HM. apply handle_xml_reader_code_is_model, xml_reader_maps, HM. Qed.
Print Assumptions handle_xml_reader_code_is_handle_xml_reader.

Theorem handle_xml_reader_raw_code_is_handle_xml_reader_raw : forall M mh eh st S, machine_maps M ->
  fn_HandleXmlReaderRaw hst (fun S (_ : list bool) => conv_raw (new_map_xml_reader_raw M) S) st S
    (map_handler mh) (err_handler eh) hst0
  = hout_ctl (handle_xml_reader_raw M mh eh S).
Proof. intros M mh eh st S HM. apply handle_xml_reader_raw_code_is_model, xml_reader_raw_maps, HM. Qed.
Print Assumptions handle_xml_reader_raw_code_is_handle_xml_reader_raw.

(* ------------------------------------------------------------------ no panic, no spinning *)

(* the code returns exactly when the model has an outcome other than Panic *)
Theorem handlers_code_returns_iff : forall next mh eh st S, maps_only next ->
  (exists r, fn_HandleJsonReaderRaw hst (conv_raw next) st S (map_handler mh) (err_handler eh) hst0 = Ret r) <->
  (exists o, handle_reader next mh eh S = Some o /\ h_ret o <> Panic).
Proof.
  intros next mh eh st S Hm. rewrite (handle_json_reader_raw_code_is_model next mh eh st S Hm).
  destruct (handle_reader next mh eh S) as [o|]; cbn [hout_ctl].
  - destruct (h_ret o) as [u|e|] eqn:Er; split.
    + intros _. exists o. split; [reflexivity|congruence].
    + intros _. eexists. reflexivity.
    + intros _. exists o. split; [reflexivity|congruence].
    + intros _. eexists. reflexivity.
    + intros [r Hr]. discriminate Hr.
    + intros (o' & Ho & Hp). injection Ho as <-. congruence.
  - split; [intros [r Hr]; discriminate Hr|intros (o & Ho & _); discriminate Ho].
Qed.
Print Assumptions handlers_code_returns_iff.

(* for ANY handler state and handlers: the reader callee never panics, and every result other than io.EOF consumed at
   least one event of the schedule - then the loop ends within 2 + length S reads and the function returns *)
Definition rd_total (rd : list rev -> option rdres) : Prop := forall S, rd S <> None.
Definition rd_consumes (rd : list rev -> option rdres) : Prop :=
  forall S om raw oe S', rd S = Some ((om, raw, oe), S') -> oe <> Some EEOF -> length S' < length S.

Lemma feed_reads_returns : forall H mapH errH rd, rd_total rd -> rd_consumes rd ->
  forall fuel h S, length S < fuel -> exists r, feed H mapH errH h (reads rd fuel S) = Ret r.
Proof.
  intros H mapH errH rd Ht Hc. induction fuel as [|f IH]; intros h S Hf; [lia|].
  cbn [reads]. destruct (rd S) as [[[[om raw] oe] S']|] eqn:E; [|exfalso; apply (Ht S E)].
  pose proof (Hc S om raw oe S' E) as Hlt. cbn [feed]. destruct oe as [[| |]|].
  - destruct om as [m|]; eexists; reflexivity.
  - destruct (errH h EOther raw) as [[|] h']; [|eexists; reflexivity]. apply IH. specialize (Hlt ltac:(discriminate)). lia.
  - destruct (errH h EOther raw) as [[|] h']; [|eexists; reflexivity]. apply IH. specialize (Hlt ltac:(discriminate)). lia.
  - specialize (Hlt ltac:(discriminate)).
    destruct om as [m|]; [destruct (mapH h m raw) as [[|] h']; [|eexists; reflexivity]|]; apply IH; lia.
Qed.

Theorem handlers_code_returns : forall H mapH errH rd st S h, rd_total rd -> rd_consumes rd ->
  exists r, fn_HandleJsonReaderRaw H rd st S mapH errH h = Ret r.
Proof.
  intros H mapH errH rd st S h Ht Hc. rewrite handle_json_reader_raw_code_feed.
  apply feed_reads_returns; [exact Ht|exact Hc|cbn; lia].
Qed.
Print Assumptions handlers_code_returns.

(* the same hypotheses on a model reader function *)
Definition next_total {T} (next : list rev -> option (res value * T * list rev)) : Prop := forall S, next S <> None.
Definition next_consumes {T} (next : list rev -> option (res value * T * list rev)) : Prop :=
  forall S r t S', next S = Some (r, t, S') -> r <> Err EEOF -> length S' < length S.

Lemma conv_raw_total : forall next, next_total next -> next_safe next -> rd_total (conv_raw next).
Proof.
  intros next Ht Hs S. unfold conv_raw. destruct (next S) as [[[r raw] S']|] eqn:E; [|exfalso; apply (Ht S E)].
  pose proof (Hs S r raw S' E) as Hp. destruct r as [v|e|]; [destruct v| |congruence]; discriminate.
Qed.
Lemma conv_raw_consumes : forall next, next_consumes next -> rd_consumes (conv_raw next).
Proof.
  intros next Hc S om raw oe S' E Hoe. unfold conv_raw in E.
  destruct (next S) as [[[r raw1] S1]|] eqn:E1; [|discriminate E].
  destruct (conv_res (r, raw1)) as [x|] eqn:Ex; [|discriminate E]. injection E as -> <-.
  apply (Hc S r raw1 S1 E1). intros ->. cbn in Ex. injection Ex as _ _ <-. congruence.
Qed.

(* the model does not run out of fuel for such a reader function (no typing condition needed) *)
Lemma handle_loop_some : forall next mh eh, next_total next -> next_safe next -> next_consumes next ->
  forall fuel calls nerr S, length S < fuel ->
  exists o, handle_loop next mh eh fuel calls nerr S = Some o /\ h_ret o <> Panic.
Proof.
  intros next mh eh Ht Hs Hc. induction fuel as [|f IH]; intros calls nerr S Hf; [lia|].
  cbn [handle_loop]. destruct (next S) as [[[r raw] S']|] eqn:E; [|exfalso; apply (Ht S E)].
  pose proof (Hs S r raw S' E) as Hp. pose proof (Hc S r raw S' E) as Hlt.
  destruct r as [v|e|]; [| |congruence].
  - specialize (Hlt ltac:(discriminate)).
    destruct (non_nil v); [destruct (mh (length calls) v)|]; try (apply IH; lia).
    eexists. split; [reflexivity|discriminate].
  - destruct e.
    + eexists. split; [reflexivity|discriminate].
    + specialize (Hlt ltac:(discriminate)). destruct (eh nerr); [apply IH; lia|]. eexists. split; [reflexivity|discriminate].
    + specialize (Hlt ltac:(discriminate)). destruct (eh nerr); [apply IH; lia|]. eexists. split; [reflexivity|discriminate].
Qed.
Theorem handle_reader_some : forall next mh eh S, next_total next -> next_safe next -> next_consumes next ->
  exists o, handle_reader next mh eh S = Some o /\ h_ret o <> Panic.
Proof. intros next mh eh S Ht Hs Hc. apply handle_loop_some; [exact Ht|exact Hs|exact Hc|cbn; lia]. Qed.
Print Assumptions handle_reader_some.

(* the model's own readers consume an event for every result other than io.EOF *)
Lemma drive_len : forall {R A} (M : machine R) (rb : A -> rbres * A) (src : A -> list rev),
  (forall a, length (src (snd (rb a))) <= length (src a)) ->
  forall fuel st a r a', drive M rb fuel st a = Some (r, a') -> length (src a') <= length (src (snd (rb a))).
Proof.
  intros R A M rb src Hle. induction fuel as [|f IH]; intros st a r a' E; [discriminate E|].
  cbn [drive] in E. destruct (rb a) as [x a1] eqn:Ea. cbn [snd]. destruct x as [b|[|]].
  - destruct (m_step M st b) as [st'|r0].
    + pose proof (IH _ _ _ _ E) as H1. pose proof (Hle a1) as H2. lia.
    + injection E as _ <-. lia.
  - injection E as _ <-. lia.
  - injection E as _ <-. lia.
Qed.

Lemma get_json_consumes : forall S j S', get_json S = Some (j, S') -> length S' < length S \/ j = JErr [] EEOF.
Proof.
  intros S j S' E. unfold get_json in E. destruct S as [|e S].
  - cbn in E. injection E as <- _. right. reflexivity.
  - left. pose proof (drive_len jmachine jr_read_byte (fun a => a) (fun a => proj1 (jr_len a)) _ _ _ _ _ E) as H1.
    destruct (jr_len (e :: S)) as [_ H2]. specialize (H2 ltac:(discriminate)). lia.
Qed.
Lemma json_reader_raw_consumes : forall nmj, next_consumes (new_map_json_reader_raw nmj).
Proof.
  intros nmj S r t S' E Hr. unfold new_map_json_reader_raw in E.
  destruct (get_json S) as [[j S1]|] eqn:Eg; [|discriminate E].
  destruct (get_json_consumes S j S1 Eg) as [Hlt| ->].
  - destruct j; injection E as _ _ <-; exact Hlt.
  - injection E as <- _ _. congruence.
Qed.
Lemma json_reader_consumes : forall nmj, next_consumes (with_unit_raw (new_map_json_reader nmj)).
Proof.
  intros nmj S r t S' E Hr. unfold with_unit_raw, new_map_json_reader in E.
  destruct (get_json S) as [[j S1]|] eqn:Eg; [|discriminate E].
  destruct (get_json_consumes S j S1 Eg) as [Hlt| ->].
  - destruct j; injection E as _ _ <-; exact Hlt.
  - injection E as <- _ _. congruence.
Qed.

(* XML: the decoder answers io.EOF when the very first ReadByte does (xml.Decoder.Token at the end of the input) *)
Definition eof_at_start (M : xmachine) : Prop := m_eof M (m_init M) = Err EEOF.

Lemma xml_reader_consumes : forall M, eof_at_start M -> next_consumes (with_unit_raw (new_map_xml_reader M)).
Proof.
  intros M He S r t S' E Hr. unfold with_unit_raw, new_map_xml_reader in E.
  destruct (drive M br_read_byte (Datatypes.S (length S)) (m_init M) S) as [[r1 S1]|] eqn:Ed; [|discriminate E].
  injection E as -> _ ->. destruct S as [|e S].
  - cbn in Ed. injection Ed as <- _. congruence.
  - pose proof (drive_len M br_read_byte (fun a => a) (fun a => proj1 (br_loop_len 100 a)) _ _ _ _ _ Ed) as H1.
    destruct (br_loop_len 100 (e :: S)) as [_ H2]. specialize (H2 ltac:(discriminate) ltac:(lia)).
    unfold br_read_byte in H1. lia.
Qed.
Lemma xml_reader_raw_consumes : forall M, eof_at_start M -> next_consumes (new_map_xml_reader_raw M).
Proof.
  intros M He S r t S' E Hr. unfold new_map_xml_reader_raw in E.
  destruct (drive M tr_read_byte (Datatypes.S (length S)) (m_init M) (my_tee_reader S)) as [[r1 t1]|] eqn:Ed; [|discriminate E].
  injection E as -> _ <-. destruct S as [|e S].
  - cbn in Ed. injection Ed as <- _. congruence.
  - pose proof (drive_len M tr_read_byte tr_r (fun a => proj1 (tr_loop_len 100 a)) _ _ _ _ _ Ed) as H1.
    destruct (tr_loop_len 100 (my_tee_reader (e :: S))) as [_ H2]. cbn [my_tee_reader tr_r] in H2.
    specialize (H2 ltac:(discriminate) ltac:(lia)).
    unfold tr_read_byte in H1. cbn [length] in *. lia.
Qed.

Lemma next_total_unit : forall next, (forall S, next S <> None) -> next_total (with_unit_raw next).
Proof. intros next Hn S. unfold with_unit_raw. specialize (Hn S). destruct (next S) as [[r S']|]; [discriminate|congruence]. Qed.

(* the function without raw, any handler state: the reader callee given in pair form *)
Theorem handlers_noraw_code_returns : forall H (mapH : H -> entries -> bool * H) (errH : H -> err -> bool * H) next st S h,
  next_total (with_unit_raw next) -> next_safe (with_unit_raw next) -> next_consumes (with_unit_raw next) ->
  exists r, fn_HandleJsonReader H (conv next) st S mapH errH h = Ret r.
Proof.
  intros H mapH errH next st S h Ht Hs Hc. rewrite handle_json_is_raw. apply handlers_code_returns.
  - intro S0. rewrite add_raw_conv. now apply conv_raw_total.
  - intros S0 om raw oe S' E. rewrite add_raw_conv in E. revert E. now apply conv_raw_consumes.
Qed.

(* JSON: for ANY handlers with ANY state, on EVERY schedule: HandleJsonReader[Raw] return when NewMapJson does not panic *)
Theorem handle_json_code_returns : forall H nmj st S h, (forall b, nmj b <> Panic) ->
  (forall (mapH : H -> entries -> bool * H) (errH : H -> err -> bool * H),
     exists r, fn_HandleJsonReader H (conv (new_map_json_reader nmj)) st S mapH errH h = Ret r) /\
  (forall (mapH : H -> entries -> str -> bool * H) (errH : H -> err -> str -> bool * H),
     exists r, fn_HandleJsonReaderRaw H (conv_raw (new_map_json_reader_raw nmj)) st S mapH errH h = Ret r).
Proof.
  intros H nmj st S h Hn. split; intros mapH errH.
  - apply handlers_noraw_code_returns.
    + apply next_total_unit. intro S0. apply (readers_total {| m_st := unit; m_init := tt; m_step := fun _ _ => inr (Err EOther);
                                       m_eof := fun _ => Err EEOF; m_noprog := fun _ => Err EOther |} nmj S0).
    + intros S0 r raw S' E. unfold with_unit_raw in E.
      destruct (new_map_json_reader nmj S0) as [[r0 s0]|] eqn:E0; [|discriminate E].
      injection E as <- _ _. apply (json_reader_no_panic nmj S0 r0 s0 Hn E0).
    + apply json_reader_consumes.
  - apply handlers_code_returns.
    + apply conv_raw_total.
      * intro S0. apply (readers_total {| m_st := unit; m_init := tt; m_step := fun _ _ => inr (Err EOther);
                                       m_eof := fun _ => Err EEOF; m_noprog := fun _ => Err EOther |} nmj S0).
      * intros S0 r raw S' E. apply (json_reader_raw_no_panic nmj S0 r raw S' Hn E).
    + apply conv_raw_consumes, json_reader_raw_consumes.
Qed.
Print Assumptions handle_json_code_returns.

(* XML: the same when the decoder machine never answers Panic and answers io.EOF at the end of the input *)
Theorem handle_xml_code_returns : forall H (M : xmachine) st S h, machine_safe M -> eof_at_start M ->
  (forall (mapH : H -> entries -> bool * H) (errH : H -> err -> bool * H),
     exists r, fn_HandleXmlReader H (fun S (_ : list bool) => conv (new_map_xml_reader M) S) st S mapH errH h = Ret r) /\
  (forall (mapH : H -> entries -> str -> bool * H) (errH : H -> err -> str -> bool * H),
     exists r, fn_HandleXmlReaderRaw H (fun S (_ : list bool) => conv_raw (new_map_xml_reader_raw M) S) st S mapH errH h = Ret r).
Proof.
  intros H M st S h Hs He. split; intros mapH errH.
  - rewrite handle_xml_is_json. apply handlers_noraw_code_returns.
    + apply next_total_unit. intro S0. apply (readers_total M (fun _ => Panic) S0).
    + apply xml_next_safe, Hs.
    + apply xml_reader_consumes, He.
  - rewrite handle_xml_raw_is_json_raw. apply handlers_code_returns.
    + apply conv_raw_total; [|apply xml_next_raw_safe, Hs]. intro S0. apply (readers_total M (fun _ => Panic) S0).
    + apply conv_raw_consumes, xml_reader_raw_consumes, He.
Qed.
Print Assumptions handle_xml_code_returns.

(* and the model has an outcome for them: handle_reader does not run out of its fuel *)
Theorem handle_json_model_some : forall nmj mh eh S, (forall b, nmj b <> Panic) ->
  (exists o, handle_json_reader nmj mh eh S = Some o /\ h_ret o <> Panic) /\
  (exists o, handle_json_reader_raw nmj mh eh S = Some o /\ h_ret o <> Panic).
Proof.
  intros nmj mh eh S Hn. split; apply handle_reader_some.
  - apply next_total_unit. intro S0. apply (readers_total {| m_st := unit; m_init := tt; m_step := fun _ _ => inr (Err EOther);
                                       m_eof := fun _ => Err EEOF; m_noprog := fun _ => Err EOther |} nmj S0).
  - intros S0 r raw S' E. unfold with_unit_raw in E.
    destruct (new_map_json_reader nmj S0) as [[r0 s0]|] eqn:E0; [|discriminate E].
    injection E as <- _ _. apply (json_reader_no_panic nmj S0 r0 s0 Hn E0).
  - apply json_reader_consumes.
  - intro S0. apply (readers_total {| m_st := unit; m_init := tt; m_step := fun _ _ => inr (Err EOther);
                                       m_eof := fun _ => Err EEOF; m_noprog := fun _ => Err EOther |} nmj S0).
  - intros S0 r raw S' E. apply (json_reader_raw_no_panic nmj S0 r raw S' Hn E).
  - apply json_reader_raw_consumes.
Qed.
Print Assumptions handle_json_model_some.

Theorem handle_xml_model_some : forall (M : xmachine) mh eh S, machine_safe M -> eof_at_start M ->
  (exists o, handle_xml_reader M mh eh S = Some o /\ h_ret o <> Panic) /\
  (exists o, handle_xml_reader_raw M mh eh S = Some o /\ h_ret o <> Panic).
Proof.
  intros M mh eh S Hs He. split; apply handle_reader_some.
  - apply next_total_unit. intro S0. apply (readers_total M (fun _ => Panic) S0).
  - apply xml_next_safe, Hs.
  - apply xml_reader_consumes, He.
  - intro S0. apply (readers_total M (fun _ => Panic) S0).
  - apply xml_next_raw_safe, Hs.
  - apply xml_reader_raw_consumes, He.
Qed.
Print Assumptions handle_xml_model_some.

(* eof_at_start is needed: a decoder that answers (nil, nil) at the end of the input makes the handler spin for ever
   (the model runs out of fuel, the translation reports Crash) *)
Example spin_without_eof : exists (M : xmachine) mh eh S, machine_safe M /\ handle_xml_reader M mh eh S = None.
Proof.
  exists {| m_st := unit; m_init := tt; m_step := fun _ _ => inl tt; m_eof := fun _ => Ok VNil; m_noprog := fun _ => Err EOther |},
         (fun _ _ => true), (fun _ => true), [].
  split; [|reflexivity]. repeat split; discriminate.
Qed.

(* ------------------------------------------------------------------ 4. why the history state is enough *)

(* handlers_code_feed above is the general statement.  The model quantifies over answer functions mh (by call index and
   Map) and eh (by call index); that covers EVERY pair of handlers over ANY common state: the error returned and the
   reader left behind by the code with arbitrary stateful handlers are those of the model for some mh, eh (the answers
   the handlers give on that run) *)
Definition erase {X} (c : ctl unit (option err * (list rev * X))) : ctl unit (option err * list rev) :=
  match c with Ret (e, (S', _)) => Ret (e, S') | Next u => Next u | Fall => Fall | Crash => Crash | Brk u => Brk u end.

Section Answers.
Variable H : Type.
Variable mapH : H -> entries -> str -> bool * H.
Variable errH : H -> err -> str -> bool * H.

(* the answers of mapHandler and of errHandler during feed, in order *)
Fixpoint answers (h : H) (l : list rdres) : list bool * list bool :=
  match l with
  | [] => ([], [])
  | ((om, raw, oe), S') :: rest =>
      match oe with
      | Some EEOF => match om with Some m => ([fst (mapH h m raw)], []) | None => ([], []) end
      | Some _ => let '(ok, h') := errH h EOther raw in
                  if ok then (fst (answers h' rest), true :: snd (answers h' rest)) else ([], [false])
      | None => match om with
                | Some m => let '(ok, h') := mapH h m raw in
                            if ok then (true :: fst (answers h' rest), snd (answers h' rest)) else ([false], [])
                | None => answers h rest
                end
      end
  end.

Lemma any_handlers_loop : forall next, maps_only next ->
  forall fuel h S mh eh calls nerr,
  (forall j v, mh (length calls + j) v = nth j (fst (answers h (reads (conv_raw next) fuel S))) true) ->
  (forall j, eh (nerr + j) = nth j (snd (answers h (reads (conv_raw next) fuel S))) true) ->
  erase (feed H mapH errH h (reads (conv_raw next) fuel S)) = erase (hout_ctl (handle_loop next mh eh fuel calls nerr S)).
Proof.
  intros next Hm. induction fuel as [|f IH]; intros h S mh eh calls nerr Hmh Heh; [reflexivity|].
  cbn [handle_loop reads] in *. unfold conv_raw at 1. unfold conv_raw at 1 in Hmh. unfold conv_raw at 1 in Heh.
  destruct (next S) as [[[r raw] S']|] eqn:E; [|reflexivity].
  destruct r as [v|e|]; [| |reflexivity].
  - pose proof (Hm S v raw S' E) as Hv.
    destruct v; try discriminate Hv; cbn [conv_res feed answers non_nil] in *.
    + apply IH; assumption.
    + destruct (mapH h m raw) as [[|] h'] eqn:Ea.
      * pose proof (Hmh 0 (VMap m)) as H0. rewrite Nat.add_0_r in H0. cbn in H0. rewrite H0.
        apply IH.
        -- intros j v. rewrite app_length. cbn [length]. rewrite <- Nat.add_assoc. cbn [Nat.add]. rewrite (Hmh (Datatypes.S j) v).
           reflexivity.
        -- intros j. rewrite (Heh j). reflexivity.
      * pose proof (Hmh 0 (VMap m)) as H0. rewrite Nat.add_0_r in H0. cbn in H0. rewrite H0. reflexivity.
  - destruct e; cbn [conv_res feed answers] in *; try reflexivity.
    + destruct (errH h EOther raw) as [[|] h'] eqn:Ea.
      * pose proof (Heh 0) as H0. rewrite Nat.add_0_r in H0. cbn in H0. rewrite H0.
        apply IH.
        -- intros j v. rewrite (Hmh j v). reflexivity.
        -- intros j. pose proof (Heh (Datatypes.S j)) as Hj. rewrite Nat.add_succ_r in Hj. exact Hj.
      * pose proof (Heh 0) as H0. rewrite Nat.add_0_r in H0. cbn in H0. rewrite H0. reflexivity.
    + destruct (errH h EOther raw) as [[|] h'] eqn:Ea.
      * pose proof (Heh 0) as H0. rewrite Nat.add_0_r in H0. cbn in H0. rewrite H0.
        apply IH.
        -- intros j v. rewrite (Hmh j v). reflexivity.
        -- intros j. pose proof (Heh (Datatypes.S j)) as Hj. rewrite Nat.add_succ_r in Hj. exact Hj.
      * pose proof (Heh 0) as H0. rewrite Nat.add_0_r in H0. cbn in H0. rewrite H0. reflexivity.
Qed.
End Answers.

Theorem any_handlers_are_model : forall H (mapH : H -> entries -> str -> bool * H) (errH : H -> err -> str -> bool * H) h
  next st S, maps_only next ->
  exists mh eh,
    erase (fn_HandleJsonReaderRaw H (conv_raw next) st S mapH errH h) = erase (hout_ctl (handle_reader next mh eh S)).
Proof.
  intros H mapH errH h next st S Hm.
  exists (fun k _ => nth k (fst (answers H mapH errH h (reads (conv_raw next) (2 + length S) S))) true),
         (fun k => nth k (snd (answers H mapH errH h (reads (conv_raw next) (2 + length S) S))) true).
  rewrite handle_json_reader_raw_code_feed. unfold handle_reader.
  apply (any_handlers_loop H mapH errH next Hm); intros; reflexivity.
Qed.
Print Assumptions any_handlers_are_model.

(* ------------------------------------------------------------------ witnesses *)

(* a toy NewMapJson: "{}" is the empty Map, "{!..." an error, any other object a one-entry Map *)
Definition toy_nmj (b : str) : res value :=
  match b with
  | c :: _ :: [] => Ok (VMap [])
  | c :: d :: _ => if Ascii.eqb d "!"%char then Err EOther else Ok (VMap [(s"doc", VStr b)])
  | _ => Ok VNil
  end.
Example toy_nmj_maps : nmj_maps toy_nmj /\ (forall b, toy_nmj b <> Panic).
Proof.
  split.
  - intros b v E. unfold toy_nmj in E. destruct b as [|c [|d [|x b]]]; try (injection E as <-; reflexivity);
      destruct (Ascii.eqb d "!"%char); try discriminate E; injection E as <-; reflexivity.
  - intros b. unfold toy_nmj. destruct b as [|c [|d [|x b]]]; try discriminate; destruct (Ascii.eqb d "!"%char); discriminate.
Qed.

(* three documents, the second one in error; errHandler answers true: both Maps are handled, nil is returned *)
Example handle_json_raw_run :
  fn_HandleJsonReaderRaw hst (conv_raw (new_map_json_reader_raw toy_nmj)) gstate0 (map Data (s"{a} {!x} {c}"))
    (map_handler (fun _ _ => true)) (err_handler (fun _ => true)) hst0
  = Ret (None, ([], ([(VMap [(s"doc", VStr (s"{a}"))], s"{a}"); (VMap [(s"doc", VStr (s"{c}"))], s"{c}")], 1))).
Proof. vm_compute. reflexivity. Qed.
(* errHandler answers false: the new error is returned, the rest of the stream is not read *)
Example handle_json_raw_run_stop :
  fn_HandleJsonReaderRaw hst (conv_raw (new_map_json_reader_raw toy_nmj)) gstate0 (map Data (s"{a} {!x} {c}"))
    (map_handler (fun _ _ => true)) (err_handler (fun _ => false)) hst0
  = Ret (Some EOther, (map Data (s" {c}"), ([(VMap [(s"doc", VStr (s"{a}"))], s"{a}")], 1))).
Proof. vm_compute. reflexivity. Qed.
(* mapHandler answers false on its second call: nil is returned, the third document is not read *)
Example handle_json_run_break :
  fn_HandleJsonReader hst (conv (new_map_json_reader toy_nmj)) gstate0 (map Data (s"{a}{b}{c}"))
    (map_handler0 (fun k _ => Nat.ltb k 1)) (err_handler0 (fun _ => false)) hst0
  = Ret (None, (map Data (s"{c}"), ([(VMap [(s"doc", VStr (s"{a}"))], []); (VMap [(s"doc", VStr (s"{b}"))], [])], 0))).
Proof. vm_compute. reflexivity. Qed.
