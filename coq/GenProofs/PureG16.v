(* The Writer forms of the encoders - Map.JsonWriter, JsonWriterRaw, JsonIndentWriter, JsonIndentWriterRaw (json.go),
   Map.XmlWriter, Map.XmlIndentWriter (xml.go), MapSeq.XmlWriter, MapSeq.XmlIndentWriter (xmlseq.go) - as go2v translated
   them from /repo's CURRENT sources (Gen/Pure_gen.v: the encoder call, the early return of its error, the Write of the
   bytes; the io.Writer is the bytes written so far, Write appends and does not fail) ARE the models [writer_form] /
   [writer_raw_form] of Model/EncForms.v applied to the result of the byte-returning encoder, for ANY such encoder (a
   Section variable of the translation): they write exactly the bytes the byte-returning form returns, nothing on error. *)
From Mxj Require Import Gen.GenSupport Gen.Setters_gen Gen.PureSupport Gen.Pure_gen Model.EncForms.

(* the results in the vocabulary of the translation *)
Definition wf_result (r : res unit * str) : ctl unit (option err * str) :=
  match r with
  | (Ok _, sink) => Ret (None, sink)
  | (Err e, sink) => Ret (Some e, sink)
  | (Panic, _) => Crash
  end.
Definition wrf_result (r : res str * str) : ctl unit ((str * option err) * str) :=
  match r with
  | (Ok x, sink) => Ret ((x, None), sink)
  | (Err e, sink) => Ret (([], Some e), sink)
  | (Panic, _) => Crash
  end.

Ltac wf_tac enc := destruct enc; reflexivity.

Theorem json_writer_code : forall (Json : entries -> list bool -> res str) st mv w safe,
  fn_JsonWriter Json st mv w safe = wf_result (writer_form (Json mv safe) w).
Proof. intros J st mv w safe. unfold fn_JsonWriter, writer_form, wf_result. wf_tac (J mv safe). Qed.

Theorem json_writer_raw_code : forall (Json : entries -> list bool -> res str) st mv w safe,
  fn_JsonWriterRaw Json st mv w safe = wrf_result (writer_raw_form (Json mv safe) w).
Proof. intros J st mv w safe. unfold fn_JsonWriterRaw, writer_raw_form, wrf_result. wf_tac (J mv safe). Qed.

Theorem json_indent_writer_code : forall (JsonIndent : entries -> str -> str -> list bool -> res str) st mv w p i safe,
  fn_JsonIndentWriter JsonIndent st mv w p i safe = wf_result (writer_form (JsonIndent mv p i safe) w).
Proof. intros J st mv w p i safe. unfold fn_JsonIndentWriter, writer_form, wf_result. wf_tac (J mv p i safe). Qed.

Theorem json_indent_writer_raw_code : forall (JsonIndent : entries -> str -> str -> list bool -> res str) st mv w p i safe,
  fn_JsonIndentWriterRaw JsonIndent st mv w p i safe = wrf_result (writer_raw_form (JsonIndent mv p i safe) w).
Proof. intros J st mv w p i safe. unfold fn_JsonIndentWriterRaw, writer_raw_form, wrf_result. wf_tac (J mv p i safe). Qed.

Theorem map_xml_writer_code : forall (Xml : entries -> list str -> res str) st mv w rt,
  fn_Map_XmlWriter Xml st mv w rt = wf_result (writer_form (Xml mv rt) w).
Proof. intros X st mv w rt. unfold fn_Map_XmlWriter, writer_form, wf_result. wf_tac (X mv rt). Qed.

Theorem map_xml_indent_writer_code : forall (XmlIndent : entries -> str -> str -> list str -> res str) st mv w p i rt,
  fn_Map_XmlIndentWriter XmlIndent st mv w p i rt = wf_result (writer_form (XmlIndent mv p i rt) w).
Proof. intros X st mv w p i rt. unfold fn_Map_XmlIndentWriter, writer_form, wf_result. wf_tac (X mv p i rt). Qed.

Theorem seq_xml_writer_code : forall (Xml : entries -> list str -> res str) st mv w rt,
  fn_MapSeq_XmlWriter Xml st mv w rt = wf_result (writer_form (Xml mv rt) w).
Proof. intros X st mv w rt. unfold fn_MapSeq_XmlWriter, writer_form, wf_result. wf_tac (X mv rt). Qed.

Theorem seq_xml_indent_writer_code : forall (XmlIndent : entries -> str -> str -> list str -> res str) st mv w p i rt,
  fn_MapSeq_XmlIndentWriter XmlIndent st mv w p i rt = wf_result (writer_form (XmlIndent mv p i rt) w).
Proof. intros X st mv w p i rt. unfold fn_MapSeq_XmlIndentWriter, writer_form, wf_result. wf_tac (X mv p i rt). Qed.
