(* AnyXml / AnyXmlIndent (anyxml.go:59 / 131), as go2v translated them from /repo's CURRENT sources (Gen/Pure_gen.v: fn_AnyXml,
   fn_AnyXmlIndent), against the model any_xml_items of Model/XmlEnc.v (property C03).

   1. STRUCTURE (any_xml_code_structure), generic in the encoder, Map.Xml and xml.Marshal arguments: the tags in effect are
      any_tags tags; nil is the empty element of the package state; a Map is Map.Xml(rt) - bytes AND error as it returns them;
      a list is "<rt>", one encoder call per member (member_call: a single-entry Map {tag: val} as tag / val - the Go loop
      `for tag, val := range m` over a one-entry map is the range over the one-entry list -, any other member under et) on the
      buffer and the pretty record the previous call left, stopping at the first error, then "</rt>"; on an error NO bytes are
      returned (Go: `return nil, err`; any_xml_code_list_error); any other value is one encoder call under rt, returning the
      buffer and the error.  A panic of an argument is a Crash; the xml.Marshal branch (reflect Kind() == Struct) is not reached.
   2. COMPACT MODE = MODEL (any_xml_code_is_model, _translated, _all_translated): with the translated Map encoder as the encoder
      (run_mm, fuel above the depth of the value; GenProofs/PureG18.v: mm_is_enc) and any Map.Xml that agrees with the model on the
      Maps of the domain (xmlp_agrees) - in particular the translated Map.Xml without the validity check (run_xml_agrees) - the
      translated AnyXml returns (emit its, nil) when any_xml_items says Ok its, some bytes and some error when it says Err, and
      never Crashes; any_xml_items never says Panic.  Domain: text_dom (the #text member of a Map is not a Map / list), as for
      the encoder.  No disagreement between translation and model was found.
   3. STRUCTURE of AnyXmlIndent (any_xml_indent_code_structure): the same shape with doIndent = true, the pretty record
      {indent, 0, prefix, 0, 0}, one p.Indent() before the members of a list, p.start = 1 and a newline after a Map member that
      is not a single-entry Map, p.start = 0 for non-Map members.  The indented bytes are not in the model.

   Method: as GenProofs/PureG18.v - the loop bodies are taken out of the translated functions by Ltac (any_body, anyi_body),
   one lemma per iteration (any_body_step) and per loop (any_loop), the model's loop is members_conv. *)
From Coq Require Import Lia.
From Mxj Require Import Gen.GenSupport Gen.Setters_gen Gen.PureSupport Gen.Pure_gen Model.XmlEnc.
From Mxj Require Import Spec.JsonRT Proofs.StrLemmas Proofs.C06Struct GenProofs.PureG GenProofs.PureG15 GenProofs.PureG18.

(* ------------------------------------------------------------------ vocabulary *)

(* the tags in effect: rt = tags[0] when 1 or 2 tags are given, else DefaultRootTag; et = tags[1] when exactly 2, else DefaultElementTag *)
Definition any_tags (tags : list str) : str * str :=
  match tags with
  | [x] => (x, default_elem)
  | [x; y] => (x, y)
  | _ => (default_root, default_elem)
  end.

(* marshalMapToXmlIndent as AnyXml sees it: doIndent, buffer, key, value, the 5 pretty fields; None = it panicked *)
Definition mm_ext : Type := bool -> str -> str -> value -> str -> Z -> str -> Z -> Z -> option mm_res.
Definition xmlp_ext : Type := entries -> list str -> option (str * option err).
Definition st7 : Type := (option err * str * str * Z * str * Z * Z)%type.

(* a list member: a single-entry Map {tag: val} is encoded as tag / val, any other member under et *)
Definition member_call (et : str) (vv : value) : str * value :=
  match vv with VMap [(tag, val)] => (tag, val) | _ => (et, vv) end.

(* the loop over the members: one encoder call each, on the buffer and the pretty record the previous call left;
   stops at the first error (or panic) *)
Fixpoint any_members (ext : mm_ext) (et : str) (l : list value) (b : str) (i : str) (c : Z) (p : str) (m t : Z) : option mm_res :=
  match l with
  | [] => Some (None, (b, i, c, p, m, t))
  | vv :: l' =>
      match ext false b (fst (member_call et vv)) (snd (member_call et vv)) i c p m t with
      | None => None
      | Some (Some e, r) => Some (Some e, r)
      | Some (None, (b', i', c', p', m', t')) => any_members ext et l' b' i' c' p' m' t'
      end
  end.

(* what AnyXml does, given the tags in effect *)
Definition any_xml_spec (xmlp : xmlp_ext) (ext : mm_ext) (st : gstate) (v : value) (rt et : str) : ctl unit (str * option err) :=
  match v with
  | VNil => Ret ((if g_useGoXmlEmptyElemSyntax st then s "<" ++ rt ++ s "></" ++ rt ++ s ">" else s "<" ++ rt ++ s "/>"), None)
  | VMap m => match xmlp m [rt] with None => Crash | Some r => Ret r end
  | VList l =>
      match any_members ext et l (s "<" ++ rt ++ s ">") [] 0%Z [] 0%Z 0%Z with
      | None => Crash
      | Some (Some e, _) => Ret ([], Some e)
      | Some (None, (b, _, _, _, _, _)) => Ret (b ++ s "</" ++ rt ++ s ">", None)
      end
  | _ => match ext false [] rt v [] 0%Z [] 0%Z 0%Z with
         | None => Crash
         | Some (e, (b, _, _, _, _, _)) => Ret (b, e)
         end
  end.

(* ------------------------------------------------------------------ small facts *)
Lemma len_eqb1 {A} (l : list A) : Z.eqb (Z.of_nat (length l)) 1 = match l with [_] => true | _ => false end.
Proof. destruct l as [|a [|b l]]; try reflexivity. apply Z.eqb_neq. cbn [length]. lia. Qed.
Lemma len_eqb2 {A} (l : list A) : Z.eqb (Z.of_nat (length l)) 2 = match l with [_; _] => true | _ => false end.
Proof. destruct l as [|a [|b [|c l]]]; try reflexivity. apply Z.eqb_neq. cbn [length]. lia. Qed.

(* ------------------------------------------------------------------ part 1: the structure of the translated AnyXml *)
Section Structure.
Variable xmlp : xmlp_ext.
Variable ext : mm_ext.
Variable xm : value -> res str.
Variable st : gstate.
Notation fn := (fn_AnyXml xmlp ext xm st).

(* the tags are read first *)
Lemma any_code_tags v tags : fn v tags = fn v [fst (any_tags tags); snd (any_tags tags)].
Proof.
  unfold fn_AnyXml. rewrite !len_eqb1, !len_eqb2.
  destruct tags as [|x [|y [|z tags]]]; reflexivity.
Qed.

(* the body of the loop over the members of a list *)
Definition any_body (rt et : str) : st7 -> value -> ctl st7 (str * option err) :=
  ltac:(let T := eval cbv beta zeta delta [fn_AnyXml] in (fn (VList []) [rt; et]) in
        match T with bindc _ ?k1 =>
          let t2 := eval cbv beta zeta in (k1 rt) in
          match t2 with bindc _ ?k2 =>
            let t3 := eval cbv beta zeta in (k2 et) in
            match t3 with context [@range_loop _ _ value ?B _ _] => exact B end
          end
        end).

Lemma any_code_list rt et l :
  fn (VList l) [rt; et] =
  match range_loop (any_body rt et) l (None, s "<" ++ rt ++ s ">", [], 0%Z, [], 0%Z, 0%Z) with
  | Next (None, b, _, _, _, _, _) => Ret (b ++ s "</" ++ rt ++ s ">", None)
  | Next (Some e, _, _, _, _, _, _) => Ret ([], Some e)
  | Ret r => Ret r
  | Fall => Fall
  | _ => Crash
  end.
Proof.
  unfold fn_AnyXml. cbn [length Z.of_nat Z.eqb Pos.of_succ_nat Pos.succ Pos.eqb nth_error bindc negb].
  match goal with |- context [@range_loop ?S ?A value ?B l ?i] => change (@range_loop S A value B l i) with (range_loop (any_body rt et) l i) end.
  destruct (range_loop (any_body rt et) l _) as [r|[[[[[[[e|] b] i] c] p] m] t]| | |x]; reflexivity.
Qed.

Ltac case_ext e b' i' c' p' m' t' :=
  match goal with |- context [ext ?a1 ?a2 ?a3 ?a4 ?a5 ?a6 ?a7 ?a8 ?a9] =>
    destruct (ext a1 a2 a3 a4 a5 a6 a7 a8 a9) as [[[e|] [[[[[b' i'] c'] p'] m'] t']]|] end.

(* one iteration: one call of the encoder; an error leaves the loop *)
Lemma any_body_step rt et e0 b i c p m t vv :
  any_body rt et (e0, b, i, c, p, m, t) vv =
  match ext false b (fst (member_call et vv)) (snd (member_call et vv)) i c p m t with
  | None => Crash
  | Some (Some e, (b', i', c', p', m', t')) => Brk (Some e, b', i', c', p', m', t')
  | Some (None, (b', i', c', p', m', t')) => Next (None, b', i', c', p', m', t')
  end.
Proof.
  unfold any_body.
  destruct vv as [x|x| |z|z|z|x|x|mm|l]; cbn [member_call fst snd bindc];
    try (case_ext e b' i' c' p' m' t'; reflexivity).
  rewrite len_eqb1.
  destruct mm as [|[tag val] [|kv mm]]; cbn [range_loop bindc member_call fst snd];
    case_ext e b' i' c' p' m' t'; reflexivity.
Qed.

Lemma any_loop rt et : forall l b i c p m t,
  range_loop (any_body rt et) l (None, b, i, c, p, m, t) =
  match any_members ext et l b i c p m t with
  | None => Crash
  | Some (e, (b', i', c', p', m', t')) => Next (e, b', i', c', p', m', t')
  end.
Proof.
  induction l as [|vv l IH]; intros b i c p m t; [reflexivity|].
  cbn [range_loop any_members]. rewrite any_body_step.
  case_ext e b' i' c' p' m' t'; try reflexivity. apply IH.
Qed.

(* 1. THE STRUCTURE of the translated AnyXml, for every encoder, every Map.Xml, every xml.Marshal (not reached), every
   package state, every value, every tag list *)
Theorem any_xml_code_structure v tags :
  fn v tags = any_xml_spec xmlp ext st v (fst (any_tags tags)) (snd (any_tags tags)).
Proof.
  rewrite any_code_tags. generalize (fst (any_tags tags)) (snd (any_tags tags)). intros rt et.
  destruct v as [x|x| |z|z|z|x|x|mm|l];
    try (unfold fn_AnyXml, any_xml_spec; cbn [length Z.of_nat Z.eqb Pos.of_succ_nat Pos.succ Pos.eqb nth_error bindc negb];
         case_ext e b' i' c' p' m' t'; reflexivity).
  - unfold fn_AnyXml, any_xml_spec. cbn [length Z.of_nat Z.eqb Pos.of_succ_nat Pos.succ Pos.eqb nth_error bindc negb].
    destruct (g_useGoXmlEmptyElemSyntax st); cbn [bindc]; rewrite <- ?app_assoc; reflexivity.
  - unfold fn_AnyXml, any_xml_spec. cbn [length Z.of_nat Z.eqb Pos.of_succ_nat Pos.succ Pos.eqb nth_error bindc negb].
    destruct (xmlp mm [rt]) as [[b e]|]; reflexivity.
  - rewrite any_code_list, any_loop. cbn [any_xml_spec].
    destruct (any_members ext et l _ _ _ _ _ _) as [[[e|] [[[[[b' i'] c'] p'] m'] t']]|]; reflexivity.
Qed.

End Structure.

(* ------------------------------------------------------------------ part 2: compact mode = the model *)

(* the translated Map encoder as an encoder argument: run with [fuel] (the Go stack); anything but a return = it panicked *)
Definition run_mm (escf : str -> str) (ind outd : str -> Z -> str -> Z -> Z -> pp5) (xm : value -> res str)
    (xmi : value -> str -> str -> res str) (st : gstate) (fuel : nat) : mm_ext :=
  fun di b key v i c p m t =>
    match fn_marshalMapToXmlIndent escf ind outd sort_rows sort_vrows xm xmi fuel st di b key v i c p m t with
    | Ret x => Some x
    | _ => None
    end.

(* Map.Xml as AnyXml needs it: on the Maps of the domain that the fuel covers, called with ONE root tag, it returns the
   model's items rendered by emit with a nil error, and some bytes with some error when the model says Err *)
Definition xmlp_agrees (o : opts) (fuel : nat) (xmlp : xmlp_ext) : Prop :=
  forall m rt, text_dom o (VMap m) = true -> vdepth (VMap m) <= fuel ->
    (forall its, map_xml_items o m (Some rt) = Ok its -> xmlp m [rt] = Some (emit its, None)) /\
    (forall e, map_xml_items o m (Some rt) = Err e -> exists e' b, xmlp m [rt] = Some (b, Some e')).

(* what the translated AnyXml returns against what the model returns *)
Definition any_conv (r : res (list item)) (x : ctl unit (str * option err)) : Prop :=
  match r with
  | Ok its => x = Ret (emit its, None)
  | Err _ => exists e b, x = Ret (b, Some e)
  | Panic => False
  end.

(* the model's treatment of a list member *)
Definition member_enc (o : opts) (et : str) (vv : value) : res (list item) :=
  match vv with VMap [(tag, val)] => enc o val tag | _ => enc o vv et end.

Lemma member_enc_eq o et vv : member_enc o et vv = enc o (snd (member_call et vv)) (fst (member_call et vv)).
Proof.
  destruct vv as [x|x| |z|z|z|x|x|mm|l]; try reflexivity.
  destruct mm as [|[tag val] [|kv mm]]; reflexivity.
Qed.
Lemma member_dom o et vv : text_dom o vv = true -> text_dom o (snd (member_call et vv)) = true.
Proof.
  destruct vv as [x|x| |z|z|z|x|x|mm|l]; try (intro H; exact H).
  destruct mm as [|[tag val] [|kv mm]]; try (intro H; exact H).
  cbn [member_call snd text_dom forallb]. intro H. apply andb_true_iff in H. destruct H as [_ H].
  apply andb_true_iff in H. exact (proj1 H).
Qed.
Lemma member_depth et vv : vdepth (snd (member_call et vv)) <= vdepth vv.
Proof.
  destruct vv as [x|x| |z|z|z|x|x|mm|l]; try (cbn [member_call snd]; lia).
  destruct mm as [|[tag val] [|kv mm]]; try (cbn [member_call snd]; lia).
  cbn [member_call snd vdepth]. lia.
Qed.

Lemma vdepth_list_le_members l vv : In vv l -> vdepth vv <= vdepth (VList l).
Proof.
  intro Hin. assert (H : vdepth (VList l) <= S (pred (vdepth (VList l)))) by lia.
  assert (HF := vdepth_list_F _ _ H). rewrite Forall_forall in HF. specialize (HF vv Hin). lia.
Qed.

Lemma emit_app' a b : emit (a ++ b) = emit a ++ emit b.
Proof. apply flat_map_app. Qed.
Lemma emit_wrapped rt body :
  emit (IOpen rt [] :: body ++ [IClose rt]) = ((s "<" ++ rt ++ s ">") ++ emit body) ++ s "</" ++ rt ++ s ">".
Proof.
  change (emit (IOpen rt [] :: body ++ [IClose rt])) with (emit1 (IOpen rt []) ++ emit (body ++ [IClose rt])).
  rewrite emit_app'. cbn [emit flat_map emit1 emit_attrs]. rewrite !app_nil_r, <- !app_assoc. reflexivity.
Qed.

Section Compact.
Variables (st : gstate) (o : opts).
Hypothesis Hview : enc_view st o.
Variable escf : str -> str.
Hypothesis Hesc : forall x, escf x = escape_chars x.
Variables ind outd : str -> Z -> str -> Z -> Z -> pp5.
Variable xm : value -> res str.
Variable xmi : value -> str -> str -> res str.
Variable fuel : nat.
Notation ext := (run_mm escf ind outd xm xmi st fuel).

Lemma run_mm_conv v key b i c p m t : vdepth v <= fuel -> text_dom o v = true ->
  match enc o v key with
  | Ok its => ext false b key v i c p m t = Some (None, (b ++ emit its, i, c, p, m, t))
  | Err _ => exists e b', ext false b key v i c p m t = Some (Some e, (b', i, c, p, m, t))
  | Panic => False
  end.
Proof.
  intros Hf Hd.
  assert (H := mm_is_enc st o Hview escf Hesc ind outd xm xmi v fuel key b i c p m t Hf Hd).
  unfold run_mm. destruct (enc o v key) as [its|e|]; cbn [mm_conv] in H.
  - rewrite H. reflexivity.
  - destruct H as (e' & b' & H). exists e', b'. rewrite H. reflexivity.
  - exact H.
Qed.

(* the loop over the members of a list against the model's concat_res *)
Lemma members_conv et : forall l b i c p m t,
  (forall vv, In vv l -> vdepth vv <= fuel) -> forallb (text_dom o) l = true ->
  match concat_res (map (member_enc o et) l) with
  | Ok body => any_members ext et l b i c p m t = Some (None, (b ++ emit body, i, c, p, m, t))
  | Err _ => exists e b', any_members ext et l b i c p m t = Some (Some e, (b', i, c, p, m, t))
  | Panic => False
  end.
Proof.
  induction l as [|vv l IH]; intros b i c p m t Hf Hd.
  - cbn [map concat_res any_members emit flat_map]. rewrite app_nil_r. reflexivity.
  - cbn [forallb] in Hd. apply andb_true_iff in Hd. destruct Hd as [Hd1 Hd2].
    cbn [map concat_res any_members]. rewrite member_enc_eq.
    assert (H := run_mm_conv (snd (member_call et vv)) (fst (member_call et vv)) b i c p m t
                   ltac:(pose proof (member_depth et vv); pose proof (Hf vv (or_introl eq_refl)); lia)
                   (member_dom o et vv Hd1)).
    destruct (enc o (snd (member_call et vv)) (fst (member_call et vv))) as [a|e|]; cbn [bind].
    + rewrite H.
      assert (IH' := IH (b ++ emit a) i c p m t (fun x Hx => Hf x (or_intror Hx)) Hd2).
      destruct (concat_res (map (member_enc o et) l)) as [body|e|]; cbn [bind].
      * rewrite IH', emit_app', app_assoc. reflexivity.
      * exact IH'.
      * exact IH'.
    + destruct H as (e' & b' & H). exists e', b'. rewrite H. reflexivity.
    + exact H.
Qed.

Lemma any_items_list l rt et :
  any_xml_items o (VList l) rt et =
  bind (concat_res (map (member_enc o et) l)) (fun body => Ok (IOpen rt [] :: body ++ [IClose rt])).
Proof. reflexivity. Qed.

Variable xmlp : xmlp_ext.
Hypothesis Hxmlp : xmlp_agrees o fuel xmlp.
Variable xm' : value -> res str.

Lemma any_is_model v rt et : vdepth v <= fuel -> text_dom o v = true ->
  any_conv (any_xml_items o v rt et) (any_xml_spec xmlp ext st v rt et).
Proof.
  intros Hf Hd.
  destruct v as [x|x| |z|z|z|x|x|mm|l].
  1,2,4,5,6,7,8:
    (cbn [any_xml_items any_xml_spec];
     match goal with |- any_conv (enc _ ?v ?k) _ =>
       assert (H := run_mm_conv v k [] [] 0%Z [] 0%Z 0%Z Hf Hd); destruct (enc o v k) as [its|e|]; cbn [any_conv] end;
     [rewrite H; reflexivity | destruct H as (e' & b' & H); exists e', b'; rewrite H; reflexivity | exact H]).
  - (* nil *)
    cbn [any_xml_items any_xml_spec any_conv]. unfold close_or_empty.
    destruct Hview as (_ & _ & _ & _ & Hg). rewrite Hg.
    destruct (g_useGoXmlEmptyElemSyntax st); cbn [emit flat_map emit1 emit_attrs]; rewrite ?app_nil_r, <- ?app_assoc; reflexivity.
  - (* Map *)
    cbn [any_xml_items any_xml_spec].
    destruct (Hxmlp mm rt Hd Hf) as [H1 H2].
    assert (Hnp : map_xml_items o mm (Some rt) <> Panic).
    { cbn [map_xml_items].
      exact (proj2 (proj2 (marshal_map_code_is_enc o st Hview escf Hesc ind outd xm xmi (VMap mm) fuel rt [] [] 0%Z [] 0%Z 0%Z Hf Hd))). }
    destruct (map_xml_items o mm (Some rt)) as [its|e|]; cbn [any_conv].
    + rewrite (H1 its eq_refl). reflexivity.
    + destruct (H2 e eq_refl) as (e' & b & H). exists e', b. rewrite H. reflexivity.
    + apply Hnp. reflexivity.
  - (* list *)
    rewrite any_items_list. cbn [any_xml_spec].
    assert (HF := vdepth_list_le_members l).
    assert (H := members_conv et l (s "<" ++ rt ++ s ">") [] 0%Z [] 0%Z 0%Z
                   (fun vv Hin => Nat.le_trans _ _ _ (HF vv Hin) Hf) Hd).
    destruct (concat_res (map (member_enc o et) l)) as [body|e|]; cbn [bind any_conv].
    + rewrite H. rewrite emit_wrapped. reflexivity.
    + destruct H as (e' & b' & H). rewrite H. exists e', []. reflexivity.
    + exact H.
Qed.
End Compact.

(* ------------------------------------------------------------------ statements *)

(* 2. COMPACT MODE = MODEL.  The translated AnyXml, with the translated Map encoder as its encoder (escapeChars = any function
   computing the model's escape_chars; sort.Sort = sort_by_key on the rows; pretty.Indent / Outdent, xml.Marshal / MarshalIndent
   arbitrary) and with ANY Map.Xml that agrees with the model on the Maps of the domain (xmlp_agrees), IS any_xml_items rendered
   by emit: on EVERY value of the domain (Maps, lists, scalars, nil), every tag list, every fuel above the depth of the value. *)
Theorem any_xml_code_is_model : forall o st, enc_view st o ->
  forall escf, (forall x, escf x = escape_chars x) ->
  forall ind outd xm xmi fuel xmlp xm', xmlp_agrees o fuel xmlp ->
  forall v tags, vdepth v <= fuel -> text_dom o v = true ->
  let rt := fst (any_tags tags) in
  let et := snd (any_tags tags) in
  let code := fn_AnyXml xmlp (run_mm escf ind outd xm xmi st fuel) xm' st v tags in
  (forall its, any_xml_items o v rt et = Ok its -> code = Ret (emit its, None)) /\
  (forall e, any_xml_items o v rt et = Err e -> exists e' b, code = Ret (b, Some e')) /\
  any_xml_items o v rt et <> Panic /\
  code <> Crash.
Proof.
  intros o st Hview escf Hesc ind outd xm xmi fuel xmlp xm' Hx v tags Hf Hd rt et code.
  assert (H := any_is_model st o Hview escf Hesc ind outd xm xmi fuel xmlp Hx v rt et Hf Hd).
  assert (E : code = any_xml_spec xmlp (run_mm escf ind outd xm xmi st fuel) st v rt et) by apply any_xml_code_structure.
  rewrite <- E in H. clear E.
  destruct (any_xml_items o v rt et) as [its|e|]; cbn [any_conv] in H.
  - split; [intros its' E; injection E as <-; exact H|]. split; [intros e E; discriminate E|].
    split; [discriminate|rewrite H; discriminate].
  - split; [intros its' E; discriminate E|]. split; [intros e' E; exact H|].
    split; [discriminate|destruct H as (e' & b & H); rewrite H; discriminate].
  - destruct H.
Qed.

(* what exactly a LIST returns on an error: Go's `return nil, err` - no bytes (for EVERY encoder); a Map / scalar hands back
   whatever Map.Xml / the encoder left in the buffer *)
Theorem any_xml_code_list_error : forall xmlp ext xm st l tags b e,
  fn_AnyXml xmlp ext xm st (VList l) tags = Ret (b, Some e) -> b = [].
Proof.
  intros xmlp ext xm st l tags b e H. rewrite any_xml_code_structure in H. cbn [any_xml_spec] in H.
  destruct (any_members ext _ l _ _ _ _ _ _) as [[[e'|] [[[[[b' i'] c'] p'] m'] t']]|]; [|discriminate H|discriminate H].
  injection H as <- _. reflexivity.
Qed.

(* 2'. the same with escapeChars as go2v translated it *)
Theorem any_xml_code_is_model_translated : forall o st, enc_view st o ->
  forall ind outd xm xmi fuel xmlp xm', xmlp_agrees o fuel xmlp ->
  forall v tags, vdepth v <= fuel -> text_dom o v = true ->
  let rt := fst (any_tags tags) in
  let et := snd (any_tags tags) in
  let code := fn_AnyXml xmlp (run_mm (run_escapeChars st) ind outd xm xmi st fuel) xm' st v tags in
  (forall its, any_xml_items o v rt et = Ok its -> code = Ret (emit its, None)) /\
  (forall e, any_xml_items o v rt et = Err e -> exists e' b, code = Ret (b, Some e')) /\
  any_xml_items o v rt et <> Panic /\
  code <> Crash.
Proof. intros o st Hview. apply (any_xml_code_is_model o st Hview (run_escapeChars st) (run_escapeChars_eq st)). Qed.

(* ------------------------------------------------------------------ the translated Map.Xml as the Map.Xml argument *)

(* Map.Xml (xml.go:702) as translated, as a Map.Xml argument *)
Definition run_xml (ext : mm_ext) (dec : str -> xdecoder) (st : gstate) : xmlp_ext :=
  fun m rt => match fn_Map_Xml ext dec st m rt with Ret x => Some x | _ => None end.

(* with ONE root tag and without the validity check (xmlCheckIsValid = false, the default), Map.Xml is one call of the encoder
   on the Map under that tag, for every encoder *)
Lemma map_xml_code_one_tag ext dec st m rt : g_xmlCheckIsValid st = false ->
  fn_Map_Xml ext dec st m [rt] =
  match ext false [] rt (VMap m) [] 0%Z [] 0%Z 0%Z with
  | None => Crash
  | Some (e, (b, _, _, _, _, _)) => Ret (b, e)
  end.
Proof.
  intro Hv. unfold fn_Map_Xml. rewrite Hv, len_eqb1.
  cbn [length Z.of_nat Z.eqb Pos.of_succ_nat Pos.succ Pos.eqb nth_error bindc].
  destruct m as [|kv [|kv' m]];
    (destruct (ext false [] rt _ [] 0%Z [] 0%Z 0%Z) as [[e [[[[[b' i'] c'] p'] m'] t']]|]; reflexivity).
Qed.

Lemma run_xml_agrees o st (Hview : enc_view st o) escf (Hesc : forall x, escf x = escape_chars x) ind outd xm xmi fuel dec :
  g_xmlCheckIsValid st = false ->
  xmlp_agrees o fuel (run_xml (run_mm escf ind outd xm xmi st fuel) dec st).
Proof.
  intros Hv m rt Hd Hf. unfold run_xml. rewrite (map_xml_code_one_tag _ dec st m rt Hv).
  assert (H := run_mm_conv st o Hview escf Hesc ind outd xm xmi fuel (VMap m) rt [] [] 0%Z [] 0%Z 0%Z Hf Hd).
  cbn [map_xml_items].
  destruct (enc o (VMap m) rt) as [its|e|].
  - split; [intros its' E; injection E as <-; rewrite H; reflexivity|intros e E; discriminate E].
  - split; [intros its' E; discriminate E|]. intros e0 _. destruct H as (e' & b' & H). exists e', b'. rewrite H. reflexivity.
  - destruct H.
Qed.

(* 2''. TRANSLATED CODE ONLY: AnyXml over the translated Map.Xml over the translated encoder over the translated escapeChars,
   in a package state without the validity check (XmlCheckIsValid not set: the default) *)
Theorem any_xml_code_is_model_all_translated : forall o st, enc_view st o -> g_xmlCheckIsValid st = false ->
  forall ind outd xm xmi dec fuel xm',
  forall v tags, vdepth v <= fuel -> text_dom o v = true ->
  let rt := fst (any_tags tags) in
  let et := snd (any_tags tags) in
  let enc_code := run_mm (run_escapeChars st) ind outd xm xmi st fuel in
  let code := fn_AnyXml (run_xml enc_code dec st) enc_code xm' st v tags in
  (forall its, any_xml_items o v rt et = Ok its -> code = Ret (emit its, None)) /\
  (forall e, any_xml_items o v rt et = Err e -> exists e' b, code = Ret (b, Some e')) /\
  any_xml_items o v rt et <> Panic /\
  code <> Crash.
Proof.
  intros o st Hview Hv ind outd xm xmi dec fuel xm' v tags Hf Hd.
  apply (any_xml_code_is_model_translated o st Hview ind outd xm xmi fuel _ xm'
           (run_xml_agrees o st Hview (run_escapeChars st) (run_escapeChars_eq st) ind outd xm xmi fuel dec Hv) v tags Hf Hd).
Qed.

(* ------------------------------------------------------------------ part 3: the structure of the translated AnyXmlIndent *)

Definition xmlpi_ext : Type := entries -> str -> str -> list str -> option (str * option err).
Definition pind_ext : Type := str -> Z -> str -> Z -> Z -> pp5.

(* one member in indented mode: a single-entry Map {tag: val} as tag / val with p.start as it is; any other Map under et with
   p.start = 1 and a newline after it when there was no error; anything else under et with p.start = 0 *)
Definition member_indent (ext : mm_ext) (et : str) (vv : value) (b : str) (i : str) (c : Z) (p : str) (m t : Z) : option mm_res :=
  match vv with
  | VMap [(tag, val)] => ext true b tag val i c p m t
  | VMap _ =>
      match ext true b et vv i c p m 1%Z with
      | Some (None, (b', i', c', p', m', t')) => Some (None, (b' ++ hx "0a", i', c', p', m', t'))
      | r => r
      end
  | _ => ext true b et vv i c p m 0%Z
  end.
Fixpoint any_members_indent (ext : mm_ext) (et : str) (l : list value) (b : str) (i : str) (c : Z) (p : str) (m t : Z) : option mm_res :=
  match l with
  | [] => Some (None, (b, i, c, p, m, t))
  | vv :: l' =>
      match member_indent ext et vv b i c p m t with
      | None => None
      | Some (Some e, r) => Some (Some e, r)
      | Some (None, (b', i', c', p', m', t')) => any_members_indent ext et l' b' i' c' p' m' t'
      end
  end.

(* what AnyXmlIndent does, given the tags in effect: the pretty record starts as {indent, 0, prefix, 0, 0}; for a list
   p.Indent() is called ONCE, before the members (and p.Outdent() never: the end tag is written right after the last member) *)
Definition any_xml_indent_spec (xmlpi : xmlpi_ext) (ext : mm_ext) (pind : pind_ext) (st : gstate) (v : value)
    (prefix indent rt et : str) : ctl unit (str * option err) :=
  match v with
  | VNil => Ret ((if g_useGoXmlEmptyElemSyntax st then prefix ++ s "<" ++ rt ++ s "></" ++ rt ++ s ">"
                  else prefix ++ s "<" ++ rt ++ s "/>"), None)
  | VMap m => match xmlpi m prefix indent [rt] with None => Crash | Some r => Ret r end
  | VList l =>
      let '(i, c, p, m, t) := pind indent 0%Z prefix 0%Z 0%Z in
      match any_members_indent ext et l (s "<" ++ rt ++ hx "3e0a") i c p m t with
      | None => Crash
      | Some (Some e, _) => Ret ([], Some e)
      | Some (None, (b, _, _, _, _, _)) => Ret (b ++ s "</" ++ rt ++ s ">", None)
      end
  | _ => match ext true [] rt v indent 0%Z prefix 0%Z 0%Z with
         | None => Crash
         | Some (e, (b, _, _, _, _, _)) => Ret (b, e)
         end
  end.

Section StructureIndent.
Variable xmlpi : xmlpi_ext.
Variable ext : mm_ext.
Variable pind : pind_ext.
Variable xmi : value -> str -> str -> res str.
Variable st : gstate.
Variables prefix indent : str.
Notation fni v tags := (fn_AnyXmlIndent xmlpi ext pind xmi st v prefix indent tags).

Lemma anyi_code_tags v tags : fni v tags = fni v [fst (any_tags tags); snd (any_tags tags)].
Proof.
  unfold fn_AnyXmlIndent. rewrite !len_eqb1, !len_eqb2.
  destruct tags as [|x [|y [|z tags]]]; reflexivity.
Qed.

Definition anyi_body (rt et : str) : st7 -> value -> ctl st7 (str * option err) :=
  ltac:(let T := eval cbv beta zeta delta [fn_AnyXmlIndent] in (fni (VList []) [rt; et]) in
        match T with bindc _ ?k1 =>
          let t2 := eval cbv beta zeta in (k1 rt) in
          match t2 with bindc _ ?k2 =>
            let t3 := eval cbv beta zeta in (k2 et) in
            match t3 with context [@range_loop _ _ value ?B _ _] => exact B end
          end
        end).

Lemma anyi_code_list rt et l :
  fni (VList l) [rt; et] =
  let '(i, c, p, m, t) := pind indent 0%Z prefix 0%Z 0%Z in
  match range_loop (anyi_body rt et) l (None, s "<" ++ rt ++ hx "3e0a", i, c, p, m, t) with
  | Next (None, b, _, _, _, _, _) => Ret (b ++ s "</" ++ rt ++ s ">", None)
  | Next (Some e, _, _, _, _, _, _) => Ret ([], Some e)
  | Ret r => Ret r
  | Fall => Fall
  | _ => Crash
  end.
Proof.
  unfold fn_AnyXmlIndent. cbn [length Z.of_nat Z.eqb Pos.of_succ_nat Pos.succ Pos.eqb nth_error bindc negb].
  destruct (pind indent 0%Z prefix 0%Z 0%Z) as [[[[i c] p] m] t].
  match goal with |- context [@range_loop ?S ?A value ?B l ?i] => change (@range_loop S A value B l i) with (range_loop (anyi_body rt et) l i) end.
  destruct (range_loop (anyi_body rt et) l _) as [r|[[[[[[[e|] b] i'] c'] p'] m'] t']| | |x]; reflexivity.
Qed.

Ltac case_exti e b' i' c' p' m' t' :=
  match goal with |- context [ext ?a1 ?a2 ?a3 ?a4 ?a5 ?a6 ?a7 ?a8 ?a9] =>
    destruct (ext a1 a2 a3 a4 a5 a6 a7 a8 a9) as [[[e|] [[[[[b' i'] c'] p'] m'] t']]|] end.

Lemma anyi_body_step rt et e0 b i c p m t vv :
  anyi_body rt et (e0, b, i, c, p, m, t) vv =
  match member_indent ext et vv b i c p m t with
  | None => Crash
  | Some (Some e, (b', i', c', p', m', t')) => Brk (Some e, b', i', c', p', m', t')
  | Some (None, (b', i', c', p', m', t')) => Next (None, b', i', c', p', m', t')
  end.
Proof.
  unfold anyi_body.
  destruct vv as [x|x| |z|z|z|x|x|mm|l]; cbn [member_indent bindc];
    try (case_exti e b' i' c' p' m' t'; reflexivity).
  rewrite len_eqb1.
  destruct mm as [|[tag val] [|kv mm]]; cbn [range_loop bindc member_indent];
    case_exti e b' i' c' p' m' t'; reflexivity.
Qed.

Lemma anyi_loop rt et : forall l b i c p m t,
  range_loop (anyi_body rt et) l (None, b, i, c, p, m, t) =
  match any_members_indent ext et l b i c p m t with
  | None => Crash
  | Some (e, (b', i', c', p', m', t')) => Next (e, b', i', c', p', m', t')
  end.
Proof.
  induction l as [|vv l IH]; intros b i c p m t; [reflexivity|].
  cbn [range_loop any_members_indent]. rewrite anyi_body_step.
  destruct (member_indent ext et vv b i c p m t) as [[[e|] [[[[[b' i'] c'] p'] m'] t']]|]; try reflexivity. apply IH.
Qed.

(* 3. THE STRUCTURE of the translated AnyXmlIndent, for every encoder, every Map.XmlIndent, every pretty.Indent, every
   xml.MarshalIndent (not reached), every package state, value, prefix, indent and tag list.  (The indented bytes are not in the
   model: no model equality here.) *)
Theorem any_xml_indent_code_structure v tags :
  fni v tags = any_xml_indent_spec xmlpi ext pind st v prefix indent (fst (any_tags tags)) (snd (any_tags tags)).
Proof.
  rewrite anyi_code_tags. generalize (fst (any_tags tags)) (snd (any_tags tags)). intros rt et.
  destruct v as [x|x| |z|z|z|x|x|mm|l];
    try (unfold fn_AnyXmlIndent, any_xml_indent_spec; cbn [length Z.of_nat Z.eqb Pos.of_succ_nat Pos.succ Pos.eqb nth_error bindc negb];
         case_exti e b' i' c' p' m' t'; reflexivity).
  - unfold fn_AnyXmlIndent, any_xml_indent_spec. cbn [length Z.of_nat Z.eqb Pos.of_succ_nat Pos.succ Pos.eqb nth_error bindc negb].
    destruct (g_useGoXmlEmptyElemSyntax st); cbn [bindc]; rewrite <- ?app_assoc; reflexivity.
  - unfold fn_AnyXmlIndent, any_xml_indent_spec. cbn [length Z.of_nat Z.eqb Pos.of_succ_nat Pos.succ Pos.eqb nth_error bindc negb].
    destruct (xmlpi mm prefix indent [rt]) as [[b e]|]; reflexivity.
  - rewrite anyi_code_list. cbn [any_xml_indent_spec].
    destruct (pind indent 0%Z prefix 0%Z 0%Z) as [[[[i c] p] m] t]. rewrite anyi_loop.
    destruct (any_members_indent ext et l _ _ _ _ _ _) as [[[e|] [[[[[b' i'] c'] p'] m'] t']]|]; reflexivity.
Qed.
End StructureIndent.

(* ------------------------------------------------------------------ non-vacuity: tags, a value of the domain, errors, options *)

Example any_tags_examples :
  any_tags [] = (s "doc", s "element") /\ any_tags [s "r"] = (s "r", s "element") /\ any_tags [s "r"; s "e"] = (s "r", s "e") /\
  any_tags [s "a"; s "b"; s "c"] = (s "doc", s "element").
Proof. repeat split. Qed.

Definition ex_enc (st : gstate) (fuel : nat) : mm_ext := run_mm (run_escapeChars st) idp5 idp5 no_marshal no_marshal_indent st fuel.
Definition ex_dec (b : str) : xdecoder := ([], TermEOF).
Definition ex_any (st : gstate) (fuel : nat) (v : value) (tags : list str) : ctl unit (str * option err) :=
  fn_AnyXml (run_xml (ex_enc st fuel) ex_dec st) (ex_enc st fuel) no_marshal st v tags.
Definition ex_list : value :=
  VList [VMap [(s "a", VInt 1)]; VInt 5; VMap [(s "a", VStr (s "x<y")); (s "-b", VInt 3)]; VList [VInt 1; VNil]; VNil; VMap []].

(* a list with a single-entry Map member (its own tag), a two-entry Map member (under et, with an attribute), a nested list,
   nil and the empty Map (under et); two tags *)
Example any_xml_example :
  enc_view gstate0 opts0 /\ g_xmlCheckIsValid gstate0 = false /\ text_dom opts0 ex_list = true /\ vdepth ex_list <= 3 /\
  any_xml_items opts0 ex_list (s "r1") (s "e2") =
    Ok [IOpen (s "r1") []; IOpen (s "a") []; IText (s "1"); IClose (s "a"); IOpen (s "e2") []; IText (s "5"); IClose (s "e2");
        IOpen (s "e2") [(s "b", s "3")]; IOpen (s "a") []; IText (s "x<y"); IClose (s "a"); IClose (s "e2");
        IOpen (s "e2") []; IText (s "1"); IClose (s "e2"); IEmpty (s "e2") []; IEmpty (s "e2") []; IEmpty (s "e2") [];
        IClose (s "r1")] /\
  ex_any gstate0 3 ex_list [s "r1"; s "e2"] =
    Ret (s "<r1><a>1</a><e2>5</e2><e2 b=""3""><a>x<y</a></e2><e2>1</e2><e2/><e2/><e2/></r1>", None).
Proof. split; [repeat split|]. split; [reflexivity|]. split; [reflexivity|]. split; [vm_compute; lia|]. split; vm_compute; reflexivity. Qed.

(* with XMLEscapeChars(true), the Go empty-element syntax, the attribute prefix "@"; one tag *)
Example any_xml_example_options :
  text_dom (state_opts ex_state) ex_list = true /\ g_xmlCheckIsValid ex_state = false /\
  ex_any ex_state 3 ex_list [s "r1"] =
    Ret (s "<r1><a>1</a><element>5</element><element><-b>3</-b><a>x&lt;y</a></element><element>1</element><element></element><element></element><element></element></r1>", None) /\
  ex_any ex_state 1 VNil [s "a"; s "b"; s "c"] = Ret (s "<doc></doc>", None) /\
  ex_any gstate0 1 VNil [s "a"; s "b"] = Ret (s "<a/>", None) /\
  ex_any gstate0 1 (VFlt (s "1.5")) [] = Ret (s "<doc>1.5</doc>", None) /\
  ex_any gstate0 2 (VMap [(s "k", VBool true)]) [s "m"] = Ret (s "<m><k>true</k></m>", None).
Proof. split; [reflexivity|]. split; [reflexivity|]. repeat split; vm_compute; reflexivity. Qed.

(* an invalid attribute value inside a list member: the model says Err, the code returns NO bytes and the error;
   inside a Map: the model says Err, the code returns the bytes written so far and the error *)
Example any_xml_example_error :
  let l := VList [VInt 1; VMap [(s "a", VMap [(s "-x", VList [])])]; VInt 2] in
  let m := VMap [(s "a", VMap [(s "-x", VList [])])] in
  text_dom opts0 l = true /\ vdepth l <= 4 /\ text_dom opts0 m = true /\ vdepth m <= 4 /\
  any_xml_items opts0 l (s "doc") (s "element") = Err EOther /\ ex_any gstate0 4 l [] = Ret ([], Some EOther) /\
  any_xml_items opts0 m (s "doc") (s "element") = Err EOther /\ ex_any gstate0 4 m [] = Ret (s "<doc><a", Some EOther).
Proof. cbv zeta. split; [reflexivity|]. split; [vm_compute; lia|]. split; [reflexivity|]. split; [vm_compute; lia|]. repeat split; vm_compute; reflexivity. Qed.

(* outside the domain (a Map as #text member, inside a list member) the translated encoder stands as Crash, and so does AnyXml *)
Lemma any_xml_text_container_outside :
  exists v, text_dom opts0 v = false /\ ex_any gstate0 5 v [] = Crash.
Proof. exists (VList [VMap [(s "#text", VMap []); (s "b", VInt 1)]]). split; vm_compute; reflexivity. Qed.

(* the 11 values x 4 tag lists of the translator's differential test: code (all translated) = model *)
Definition ex_same (v : value) (tags : list str) : bool :=
  match ex_any gstate0 50 v tags, any_xml_items opts0 v (fst (any_tags tags)) (snd (any_tags tags)) with
  | Ret (b, None), Ok its => str_eqb b (emit its)
  | Ret (_, Some _), Err _ => true
  | _, _ => false
  end.
Example any_xml_examples_agree :
  forallb (fun v => forallb (ex_same v) [[]; [s "root"]; [s "r1"; s "e2"]; [s "a"; s "b"; s "c"]])
    [ VNil; VInt 3; VStr (s "x<y"); VList []; VList [VInt 1; VStr (s "a")];
      VList [VMap [(s "a", VInt 1)]; VInt 5; VMap [(s "a", VInt 2); (s "b", VInt 3)]; VList [VInt 1; VInt 2]];
      VMap [(s "a", VInt 1)]; VMap [(s "a", VInt 1); (s "b", VNil)]; VMap [];
      VList [VMap [(s "-k", VMap [])]; VInt 2];
      VMap [(s "a", VMap [(s "-k", VMap [])])]; ex_list ] = true.
Proof. vm_compute. reflexivity. Qed.

(* AnyXmlIndent with the translated encoder, pretty.Indent and pretty.Outdent: what the Go code writes for ex_list with prefix ">"
   and indent "  " (neither "<r1>" nor "</r1>" gets the prefix; the members of the nested list are indented twice) *)
Definition ex_pp (f : gstate -> str -> Z -> str -> Z -> Z -> ctl unit pp5) (st : gstate) (a : str) (b : Z) (c : str) (d e : Z) : pp5 :=
  match f st a b c d e with Ret x => x | _ => (a, b, c, d, e) end.
Definition ex_enc_indent (st : gstate) (fuel : nat) : mm_ext :=
  run_mm (run_escapeChars st) (ex_pp fn_Indent st) (ex_pp fn_Outdent st) no_marshal no_marshal_indent st fuel.
Example any_xml_indent_example :
  fn_AnyXmlIndent (fun _ _ _ _ => None) (ex_enc_indent gstate0 3) (ex_pp fn_Indent gstate0) no_marshal_indent gstate0
    ex_list (s ">") (s "  ") [s "r1"; s "e2"] =
  Ret (s "<r1>" ++ hx "0a" ++
       s ">  <a>1</a>" ++ hx "0a" ++
       s ">  <e2>5</e2>" ++ hx "0a" ++
       s ">  <e2 b=""3"">" ++ hx "0a" ++
       s ">    <a>x<y</a>" ++ hx "0a" ++
       s ">  </e2>" ++ hx "0a" ++
       s ">    <e2>1</e2>" ++ hx "0a" ++
       s ">    <e2/>" ++ hx "0a" ++
       s ">  <e2/>" ++ hx "0a" ++
       s ">  <e2/>" ++ hx "0a" ++
       s "</r1>", None).
Proof. vm_compute. reflexivity. Qed.

Print Assumptions any_xml_code_structure.
Print Assumptions any_xml_code_is_model.
Print Assumptions any_xml_indent_code_structure.
Print Assumptions any_xml_code_list_error.
Print Assumptions any_xml_code_is_model_translated.
Print Assumptions any_xml_code_is_model_all_translated.
