(* marshalMapToXmlIndent (xml.go:1033-1432, the Map encoder behind Map.Xml / XmlIndent / AnyXml / the Writer forms), as go2v
   translated it from /repo's CURRENT sources (Gen/Pure_gen.v: fn_marshalMapToXmlIndent - the coercion switch at the top, the
   start tag, the attribute scan into attrlist with sort.Sort(attrList), the #text member, the element scan into elemlist with
   sort.Sort(elemList) and the recursion over it, the recursion over list members, the scalar cases, the end tag), in COMPACT
   mode (doIndent = false), IS the model encoder [enc] of Model/XmlEnc.v rendered by [emit] (properties C03 / C05 / C16 / C02).

   Domain.  Translation and model agree on [text_dom o v]: the #text member of a Map is not a Map / list.  The Go code writes
   such a member with %v, whose text for containers is outside the translated fragment (Crash stands for it:
   marshal_map_text_container_outside; the model writes the placeholder "?").  There is no other condition: a uint64 under an
   attribute key is "invalid attribute value" for the code and Err for the model (marshal_map_attr_u64_agree), an empty
   json.Number is an empty element for both (marshal_map_empty_number_agree; /repo 9f7c997 repaired the code, which wrote
   "<k>/>" before).  On text_dom the translation never Crashes, in any package state: the case body that go2v leaves outside
   the fragment (reflection on foreign map types), the xml.Marshal branch, the guards of slice expressions / element stores /
   type assertions are unreachable, and the fuel (above vdepth) is not exhausted.

   Method (GenProofs/PureG6.v, PureG9.v, PureG14.v, PureG15.v): the pieces are taken out of the translated function itself by Ltac
   (mm_end: the statements after the type switch; mm_big: the switch with the recursive occurrence abstracted as [rec];
   mm_map / mm_list: its Map and list cases; the five loop bodies attr_body, attr_write_body, coll_body, elem_body, list_body;
   the continuations mm_k1 .. mm_k4 of the Map case); one lemma per loop (attr_loop, attr_write_loop, coll_loop, elem_loop,
   list_loop) and per stage (k1_k2, k2_all, k2_more, k3_none, k3_simple, k3_complex, k4_true); enc_map_eq is the model's Map
   case with selection and sort moved in front of the recursive calls; mm_is_enc is the induction on the value (value_ind2).
   sort.Sort(attrList(xs)) / sort.Sort(elemList(xs)) are the model's sort_by_key transported to the rows (sort_rows / sort_vrows);
   escapeChars is any function computing the model's escape_chars (the translated one in the _translated statements);
   pretty.Indent / Outdent, xml.Marshal / MarshalIndent are arbitrary.  The indented mode is NOT covered (its whitespace is
   not in the model).

   Theorems: marshal_map_code_is_enc(_translated) (against enc, on text_dom), marshal_map_code_returns /
   marshal_map_code_no_crash (every package state, text_dom), the examples on which code and model used to differ, the
   counterexample outside text_dom, and non-vacuity examples. *)
From Coq Require Import Lia.
From Mxj Require Import Gen.GenSupport Gen.Setters_gen Gen.PureSupport Gen.Pure_gen Model.XmlEnc.
From Mxj Require Import Spec.JsonRT Proofs.StrLemmas Proofs.XmlStr Proofs.XmlRT Proofs.C03P Proofs.C06Struct GenProofs.PureG GenProofs.PureG15.

Definition pp5 : Type := (str * Z * str * Z * Z)%type.
Definition mm_res : Type := (option err * (str * str * Z * str * Z * Z))%type.
Definition mm_st15 : Type := (option err * str * bool * Z * bool * Z * str * Z * str * Z * str * Z * str * Z * Z)%type.
Definition mm_rec : Type := gstate -> bool -> str -> str -> value -> str -> Z -> str -> Z -> Z -> ctl unit mm_res.

(* sort.Sort(attrList(xs)) / sort.Sort(elemList(xs)): the model's sort_by_key transported to the rows ([2]string, [2]interface{}) *)
Definition row_of (kv : str * str) : list str := [fst kv; snd kv].
Definition sort_rows (l : list (list str)) : list (list str) :=
  map row_of (sort_by_key (map (fun r => (nth 0 r [], nth 1 r [])) l)).
Definition vrow_key (r : list value) : str := match r with VStr k :: _ => k | _ => [] end.
Definition vrow_of (kv : str * value) : list value := [VStr (fst kv); snd kv].
Definition sort_vrows (l : list (list value)) : list (list value) :=
  map vrow_of (sort_by_key (map (fun r => (vrow_key r, nth 1 r VNil)) l)).

(* ------------------------------------------------------------------ the pieces of the translated function *)
Section Pieces.
Variable esc : str -> str.
Variables ind outd : str -> Z -> str -> Z -> Z -> pp5.
Variable sortA : list (list str) -> list (list str).
Variable sortE : list (list value) -> list (list value).
Variable xm : value -> res str.
Variable xmi : value -> str -> str -> res str.
Variable st : gstate.

Notation fn := (fn_marshalMapToXmlIndent esc ind outd sortA sortE xm xmi).

(* the statements after the big type switch (end tag), compact mode *)
Definition mm_end (key : str) (i : str) (c : Z) (p : str) (m t : Z) : mm_st15 -> ctl unit mm_res :=
  ltac:(let T := eval cbv beta iota zeta delta [fn_marshalMapToXmlIndent negb] in (fn (S O) st false [] key VNil i c p m t) in
        match T with bindc _ ?k1 =>
          let t2 := eval cbv beta iota zeta in (k1 VNil) in
          match t2 with bindc _ ?k2 =>
            let t3 := eval cbv beta iota zeta in (k2 (VStr [])) in
            match t3 with bindc _ ?k3 =>
              let t4 := eval cbv beta iota zeta in (k3 (@None err, @nil ascii)) in
              match t4 with bindc _ ?k4 =>
                let t5 := eval cbv beta iota zeta in (k4 (@None err, @nil ascii)) in
                match t5 with bindc _ ?k5 => exact k5 end
              end
            end
          end
        end).

(* the big type switch on the (normalised) value, with the function's own fixpoint inside; b is the buffer after "<key" *)
Definition mm_big_f (f : nat) (b key : str) (v : value) (i : str) (c : Z) (p : str) (m t : Z) : ctl mm_st15 mm_res :=
  ltac:(let T := eval cbv beta iota zeta delta [fn_marshalMapToXmlIndent negb] in (fn (S f) st false b key v i c p m t) in
        match T with bindc _ ?k1 =>
          let t2 := eval cbv beta iota zeta in (k1 v) in
          match t2 with bindc _ ?k2 =>
            let t3 := eval cbv beta iota zeta in (k2 v) in
            match t3 with bindc _ ?k3 =>
              let t4 := eval cbv beta iota zeta in (k3 (@None err, b)) in
              match t4 with bindc _ ?k4 =>
                let t5 := eval cbv beta iota zeta in (k4 (@None err, b)) in
                match t5 with bindc ?a5 _ => exact a5 end
              end
            end
          end
        end).

(* the same with the recursive occurrence abstracted *)
Definition mm_big (rec : mm_rec) (b key : str) (v : value) (i : str) (c : Z) (p : str) (m t : Z) : ctl mm_st15 mm_res :=
  ltac:(let F := eval cbv beta iota zeta delta [fn_marshalMapToXmlIndent negb] in fn in
        let b := eval cbv beta iota zeta delta [mm_big_f fn_marshalMapToXmlIndent negb] in (fun f => mm_big_f f b key v i c p m t) in
        let b' := eval pattern F in b in
        match b' with ?g _ => let r := eval cbv beta in (g (fun _ : nat => rec) O) in exact r end).

Lemma mm_unfold_map f b key vv i c p m t :
  fn (S f) st false b key (VMap vv) i c p m t =
  bindc (mm_big (fn f) (b ++ s "<" ++ key) key (VMap vv) i c p m t) (mm_end key i c p m t).
Proof. reflexivity. Qed.
Lemma mm_unfold_list f b key l i c p m t :
  fn (S f) st false b key (VList l) i c p m t =
  bindc (mm_big (fn f) b key (VList l) i c p m t) (mm_end key i c p m t).
Proof. reflexivity. Qed.

Section Bodies.
Variable rec : mm_rec.
Variables (b key : str) (vv : entries) (l : list value) (i : str) (c : Z) (p : str) (m t : Z).

(* the Map case and the list case of the switch *)
Definition mm_map : ctl mm_st15 mm_res :=
  ltac:(let T := eval cbv beta iota zeta delta [mm_big] in (mm_big rec b key (VMap vv) i c p m t) in exact T).
Definition mm_list : ctl mm_st15 mm_res :=
  ltac:(let T := eval cbv beta iota zeta delta [mm_big] in (mm_big rec b key (VList l) i c p m t) in exact T).

(* the five loops *)
Definition attr_body : (str * list (list str) * Z) -> (str * value) -> ctl (str * list (list str) * Z) mm_res :=
  ltac:(let T := eval cbv beta delta [mm_map] in mm_map in
        match T with context [@range_loop (str * list (list str) * Z)%type _ _ ?B _ _] => exact B end).
Definition attr_write_body : (option err * str) -> list str -> ctl (option err * str) mm_res :=
  ltac:(let T := eval cbv beta delta [mm_map] in mm_map in
        match T with context [@range_loop (option err * str)%type _ (list str) ?B _ _] => exact B end).
Definition coll_body : (list (list value) * Z) -> (str * value) -> ctl (list (list value) * Z) mm_res :=
  ltac:(let T := eval cbv beta delta [mm_map] in mm_map in
        match T with context [@range_loop (list (list value) * Z)%type _ _ ?B _ _] => exact B end).
Definition elem_body : (str * Z * str * Z * Z * Z * str * str * Z * str * Z * Z) -> list value -> ctl (str * Z * str * Z * Z * Z * str * str * Z * str * Z * Z) mm_res :=
  ltac:(let T := eval cbv beta delta [mm_map] in mm_map in
        match T with context [@range_loop (str * Z * str * Z * Z * Z * str * str * Z * str * Z * Z)%type _ _ ?B _ _] => exact B end).
Definition list_body : (str * Z * str * Z * Z * str * str * Z * str * Z * Z) -> value -> ctl (str * Z * str * Z * Z * str * str * Z * str * Z * Z) mm_res :=
  ltac:(let T := eval cbv beta delta [mm_list] in mm_list in
        match T with context [@range_loop (str * Z * str * Z * Z * str * str * Z * str * Z * Z)%type _ _ ?B _ _] => exact B end).
End Bodies.
End Pieces.

(* ------------------------------------------------------------------ the view of the package state, the domain *)

(* the package state agrees with the model's option record on what the encoder reads (a negative lenAttrPrefix, which no setter
   produces, behaves like 0: no key is an attribute key) *)
Definition enc_view (st : gstate) (o : opts) : Prop :=
  attrPrefix o = g_attrPrefix st /\ lenAttrPrefix o = Z.to_nat (g_lenAttrPrefix st) /\ textK o = g_textK st /\
  xmlEscapeChars o = g_xmlEscapeChars st /\ useGoXmlEmptyElemSyntax o = g_useGoXmlEmptyElemSyntax st.

Definition is_container (v : value) : bool := match v with VMap _ | VList _ => true | _ => false end.
(* the domain of the statement: the #text member of a Map is not a Map or a list (the Go code writes it with %v, whose text
   for containers is outside the translated fragment) *)
Section Dom.
Variable o : opts.
Fixpoint text_dom (v : value) : bool :=
  match v with
  | VMap vv =>
      match lookup (textK o) vv with Some tv => negb (is_container tv) | None => true end
      && forallb (fun kv => text_dom (snd kv)) vv
  | VList l => forallb text_dom l
  | _ => true
  end.
End Dom.

(* what the translated encoder returns against what the model returns *)
Definition mm_conv (b : str) (i : str) (c : Z) (p : str) (m t : Z) (r : res (list item)) (x : ctl unit mm_res) : Prop :=
  match r with
  | Ok its => x = Ret (None, (b ++ emit its, i, c, p, m, t))
  | Err _ => exists e b', x = Ret (Some e, (b', i, c, p, m, t))
  | Panic => False
  end.

(* ------------------------------------------------------------------ small facts *)

Lemma nth_error_app_here {A} (pre : list A) x rest : nth_error (pre ++ x :: rest) (length pre) = Some x.
Proof. induction pre as [|h pre IH]; [reflexivity|exact IH]. Qed.
Lemma lset_app_here {A} (pre : list A) x y rest : lset (pre ++ x :: rest) (length pre) y = pre ++ y :: rest.
Proof. induction pre as [|h pre IH]; [reflexivity|]. cbn [app length lset]. rewrite IH. reflexivity. Qed.
Lemma firstn_app_exact {A} (l1 l2 : list A) : firstn (length l1) (l1 ++ l2) = l1.
Proof. induction l1 as [|h l1 IH]; [destruct l2; reflexivity|]. cbn [length app firstn]. rewrite IH. reflexivity. Qed.

Lemma ntoa_aux_nonempty fuel : forall n acc, acc <> [] -> ntoa_aux fuel n acc <> [].
Proof.
  induction fuel as [|f IH]; intros n acc Ha; cbn [ntoa_aux]; [exact Ha|].
  destruct (n <? 10)%N; [discriminate | apply IH; discriminate].
Qed.
Lemma ntoa_aux_S_nonempty f n acc : ntoa_aux (S f) n acc <> [].
Proof. cbn [ntoa_aux]. destruct (n <? 10)%N; [discriminate | apply ntoa_aux_nonempty; discriminate]. Qed.
Lemma ztoa_nonempty z : ztoa z <> [].
Proof. unfold ztoa. destruct (z <? 0)%Z; [discriminate | apply (ntoa_aux_S_nonempty 39)]. Qed.

Lemma len_gtb0 {A} (l : list A) : Z.gtb (Z.of_nat (length l)) 0 = match l with [] => false | _ => true end.
Proof. destruct l; reflexivity. Qed.
Lemma len_ltb0 {A} (l : list A) : Z.ltb (Z.of_nat (length l)) 0 = false.
Proof. apply Z.ltb_ge. lia. Qed.

(* the sorts on rows *)
Lemma sort_rows_map ps : sort_rows (map row_of ps) = map row_of (sort_by_key ps).
Proof.
  unfold sort_rows. rewrite map_map. f_equal. f_equal.
  rewrite <- (map_id ps) at 2. apply map_ext. intros [k v]. reflexivity.
Qed.
Lemma sort_vrows_map ps : sort_vrows (map vrow_of ps) = map vrow_of (sort_by_key ps).
Proof.
  unfold sort_vrows. rewrite map_map. f_equal. f_equal.
  rewrite <- (map_id ps) at 2. apply map_ext. intros [k v]. reflexivity.
Qed.

Section AttrKey.
Variables (st : gstate) (o : opts).
Hypothesis Hview : enc_view st o.

(* lenAttrPrefix > 0 && lenAttrPrefix < len(k) && k[:lenAttrPrefix] == attrPrefix, with the slice guard of the translation *)
Lemma attr_key_code {X} (k : str) (A B C : X) :
  (if (g_lenAttrPrefix st >? 0)%Z
   then if (g_lenAttrPrefix st <? Z.of_nat (length k))%Z
        then if (0 <? 0)%Z || (g_lenAttrPrefix st <? 0)%Z || (Z.of_nat (length k) <? g_lenAttrPrefix st)%Z
             then C
             else if str_eqb (firstn (Z.to_nat (g_lenAttrPrefix st - 0)) (skipn (Z.to_nat 0) k)) (g_attrPrefix st) then A else B
        else B
   else B) = if is_attr_key o k then A else B.
Proof.
  destruct Hview as (Vp & Vl & _). unfold is_attr_key. rewrite Vp, Vl.
  destruct (Z.gtb_spec (g_lenAttrPrefix st) 0) as [Hg|Hg].
  - replace (0 <? Z.to_nat (g_lenAttrPrefix st)) with true by (symmetry; apply Nat.ltb_lt; lia).
    destruct (Z.ltb_spec (g_lenAttrPrefix st) (Z.of_nat (length k))) as [Hl|Hl].
    + replace (Z.to_nat (g_lenAttrPrefix st) <? length k) with true by (symmetry; apply Nat.ltb_lt; lia).
      replace (g_lenAttrPrefix st <? 0)%Z with false by (symmetry; apply Z.ltb_ge; lia).
      replace (Z.of_nat (length k) <? g_lenAttrPrefix st)%Z with false by (symmetry; apply Z.ltb_ge; lia).
      cbn [orb andb Z.ltb Z.compare]. rewrite Z.sub_0_r. reflexivity.
    + replace (Z.to_nat (g_lenAttrPrefix st) <? length k) with false by (symmetry; apply Nat.ltb_ge; lia).
      reflexivity.
  - replace (0 <? Z.to_nat (g_lenAttrPrefix st)) with false by (symmetry; apply Nat.ltb_ge; lia). reflexivity.
Qed.

Lemma attr_key_len k : is_attr_key o k = true ->
  ((g_lenAttrPrefix st <? 0)%Z || (Z.of_nat (length k) <? g_lenAttrPrefix st)%Z = false) /\
  Z.to_nat (g_lenAttrPrefix st) = lenAttrPrefix o.
Proof.
  destruct Hview as (Vp & Vl & _). unfold is_attr_key. rewrite Vl. intro H.
  apply andb_true_iff in H. destruct H as [H _]. apply andb_true_iff in H. destruct H as [H1 H2].
  apply Nat.ltb_lt in H1, H2. split; [|reflexivity].
  apply orb_false_iff. split; apply Z.ltb_ge; lia.
Qed.
End AttrKey.

(* ------------------------------------------------------------------ the loops, the list case, the scalar cases *)
Section Loops.
Variables (st : gstate) (o : opts).
Hypothesis Hview : enc_view st o.
Variable escf : str -> str.
Hypothesis Hesc : forall x, escf x = escape_chars x.

Definition blank : list str := repeat [] 2.
Lemma esc_code x : (if g_xmlEscapeChars st then escf x else x) = esc o x.
Proof. destruct Hview as (_ & _ & _ & Ve & _). unfold esc. rewrite Ve, Hesc. reflexivity. Qed.

Lemma attr_step b i c p m t ss pre r k v :
  attr_body escf st b i c p m t (ss, pre ++ repeat blank (S r), Z.of_nat (length pre)) (k, v) =
  if is_attr_key o k
  then match v with
       | VU64 _ | VNil | VMap _ | VList _ => Ret (Some EOther, (b, i, c, p, m, t))
       | VStr x => Next (esc o x, pre ++ [skipn (lenAttrPrefix o) k; esc o x] :: repeat blank r, (Z.of_nat (length pre) + 1)%Z)
       | _ => Next (ss, pre ++ [skipn (lenAttrPrefix o) k; fmt_v v] :: repeat blank r, (Z.of_nat (length pre) + 1)%Z)
       end
  else Next (ss, pre ++ repeat blank (S r), Z.of_nat (length pre)).
Proof.
  unfold attr_body. cbv beta iota. rewrite (attr_key_code st o Hview).
  destruct (is_attr_key o k) eqn:Ek; [|reflexivity].
  destruct (attr_key_len st o Hview k Ek) as [Hg Hn].
  rewrite Hg, len_ltb0, Nat2Z.id, Hn.
  change (repeat blank (S r)) with ([[]; []] :: repeat blank r).
  rewrite nth_error_app_here. cbn [length Nat.leb lset]. rewrite lset_app_here, nth_error_app_here.
  cbn [length Nat.leb lset]. 
  destruct v; try reflexivity.
  - rewrite <- esc_code. destruct (g_xmlEscapeChars st); cbn [bindc]; rewrite lset_app_here; reflexivity.
  - cbn [bindc]. rewrite lset_app_here. reflexivity.
  - cbn [bindc]. rewrite lset_app_here. reflexivity.
  - cbn [bindc]. rewrite lset_app_here. reflexivity.
  - cbn [bindc]. rewrite lset_app_here. reflexivity.
  - cbn [bindc]. rewrite lset_app_here. reflexivity.
Qed.

(* the attribute scan: the rows of attrs_of, or its error *)
Lemma attr_loop b i c p m t : forall l ss pre r, length l <= r ->
  match attrs_of o l with
  | Ok ps => exists ss', range_loop (attr_body escf st b i c p m t) l (ss, pre ++ repeat blank r, Z.of_nat (length pre)) =
                         Next (ss', (pre ++ map row_of ps) ++ repeat blank (r - length ps), Z.of_nat (length (pre ++ map row_of ps)))
                         /\ length ps <= length l
  | Err _ => range_loop (attr_body escf st b i c p m t) l (ss, pre ++ repeat blank r, Z.of_nat (length pre)) = Ret (Some EOther, (b, i, c, p, m, t))
  | Panic => False
  end.
Proof.
  induction l as [|[k v] l IH]; intros ss pre r Hr.
  - cbn [attrs_of range_loop map length]. exists ss. rewrite app_nil_r, Nat.sub_0_r. split; [reflexivity|lia].
  - cbn [length] in Hr. destruct r as [|r]; [lia|].
    cbn [attrs_of range_loop]. rewrite attr_step.
    destruct (is_attr_key o k) eqn:Ek.
    + assert (Hstep : forall x ss1, match bind (attrs_of o l) (fun r0 => Ok ((skipn (lenAttrPrefix o) k, x) :: r0)) with
        | Ok ps => exists ss', range_loop (attr_body escf st b i c p m t) l (ss1, pre ++ [skipn (lenAttrPrefix o) k; x] :: repeat blank r, (Z.of_nat (length pre) + 1)%Z) =
                         Next (ss', (pre ++ map row_of ps) ++ repeat blank (S r - length ps), Z.of_nat (length (pre ++ map row_of ps)))
                         /\ length ps <= S (length l)
        | Err _ => range_loop (attr_body escf st b i c p m t) l (ss1, pre ++ [skipn (lenAttrPrefix o) k; x] :: repeat blank r, (Z.of_nat (length pre) + 1)%Z) = Ret (Some EOther, (b, i, c, p, m, t))
        | Panic => False end).
      { intros x ss1. specialize (IH ss1 (pre ++ [[skipn (lenAttrPrefix o) k; x]]) r ltac:(lia)).
        replace (Z.of_nat (length pre) + 1)%Z with (Z.of_nat (length (pre ++ [[skipn (lenAttrPrefix o) k; x]]))) by (rewrite app_length; cbn [length]; lia).
        replace (pre ++ [skipn (lenAttrPrefix o) k; x] :: repeat blank r) with ((pre ++ [[skipn (lenAttrPrefix o) k; x]]) ++ repeat blank r) by (rewrite <- app_assoc; reflexivity).
        destruct (attrs_of o l) as [ps|e|]; cbn [bind]; [|exact IH|exact IH].
        destruct IH as (ss' & IH & Hl). exists ss'. cbn [map length Nat.sub]. unfold row_of at 2 4. cbn [fst snd].
        rewrite <- !app_assoc in IH. rewrite <- !app_assoc. cbn [app] in IH |- *. split; [exact IH|exact (le_n_S _ _ Hl)]. }
      destruct v; cbn [attr_text]; try reflexivity; apply Hstep.
    + assert (IH' := IH ss pre (S r) ltac:(lia)).
      destruct (attrs_of o l) as [ps|e|]; [|exact IH'|exact IH'].
      destruct IH' as (ss' & IH' & Hl). exists ss'. split; [exact IH'|exact (le_S _ _ Hl)].
Qed.

(* writing the attributes *)
Lemma attr_write_loop : forall ps b,
  range_loop attr_write_body (map row_of ps) (None, b) = Next (None, b ++ emit_attrs ps).
Proof.
  induction ps as [|[k x] ps IH]; intro b; cbn [map range_loop emit_attrs flat_map].
  - rewrite app_nil_r. reflexivity.
  - unfold attr_write_body at 1. unfold row_of at 1 2. cbn [nth_error fst snd]. rewrite IH. fold (emit_attrs ps).
    rewrite <- !app_assoc. reflexivity.
Qed.

(* collecting the sub-elements: everything but the #text member and the attributes *)
Definition blankv : list value := repeat VNil 2.
Definition keep_elem (k : str) : bool := negb (str_eqb k (textK o)) && negb (is_attr_key o k).

Lemma coll_step pre r k v :
  coll_body st (pre ++ repeat blankv (S r), Z.of_nat (length pre)) (k, v) =
  if keep_elem k
  then Next (pre ++ [VStr k; v] :: repeat blankv r, (Z.of_nat (length pre) + 1)%Z)
  else Next (pre ++ repeat blankv (S r), Z.of_nat (length pre)).
Proof.
  unfold coll_body, keep_elem. cbv beta iota.
  destruct Hview as (_ & _ & Vt & _). rewrite <- Vt.
  destruct (str_eqb k (textK o)); cbn [bindc negb andb]; [reflexivity|].
  rewrite (attr_key_code st o Hview).
  destruct (is_attr_key o k); cbn [bindc negb]; [reflexivity|].
  rewrite len_ltb0, Nat2Z.id.
  change (repeat blankv (S r)) with ([VNil; VNil] :: repeat blankv r).
  rewrite nth_error_app_here. cbn [length Nat.leb lset]. rewrite lset_app_here, nth_error_app_here.
  cbn [length Nat.leb lset]. rewrite lset_app_here. reflexivity.
Qed.

Lemma coll_loop : forall (l : entries) pre r, length l <= r ->
  let ps := filter (fun kv => keep_elem (fst kv)) l in
  range_loop (coll_body st) l (pre ++ repeat blankv r, Z.of_nat (length pre)) =
  Next ((pre ++ map vrow_of ps) ++ repeat blankv (r - length ps), Z.of_nat (length (pre ++ map vrow_of ps))) /\ length ps <= length l.
Proof.
  induction l as [|[k v] l IH]; intros pre r Hr.
  - cbn [filter range_loop map length]. rewrite app_nil_r, Nat.sub_0_r. split; [reflexivity|lia].
  - cbn [length] in Hr. destruct r as [|r]; [lia|].
    cbn [filter range_loop fst]. rewrite coll_step.
    destruct (keep_elem k).
    + destruct (IH (pre ++ [[VStr k; v]]) r ltac:(lia)) as [IH1 IH2].
      replace (Z.of_nat (length pre) + 1)%Z with (Z.of_nat (length (pre ++ [[VStr k; v]]))) by (rewrite app_length; cbn [length]; lia).
      replace (pre ++ [VStr k; v] :: repeat blankv r) with ((pre ++ [[VStr k; v]]) ++ repeat blankv r) by (rewrite <- app_assoc; reflexivity).
      cbv zeta. rewrite IH1. cbn [map length Nat.sub]. unfold vrow_of at 3 5. cbn [fst snd].
      rewrite <- !app_assoc. cbn [app]. split; [reflexivity|apply le_n_S, IH2].
    + destruct (IH pre (S r) ltac:(lia)) as [IH1 IH2]. cbv zeta. rewrite IH1. split; [reflexivity|apply le_S, IH2].
Qed.

Lemma emit_app a b : emit (a ++ b) = emit a ++ emit b.
Proof. apply flat_map_app. Qed.

Lemma elem_pre {S A} (k : str) (v : value) (li : Z) (a : ctl S A) :
  match nth_error [VStr k; v] 1 with Some (VList _) => a | None => Crash | _ => if (li =? 0)%Z then a else a end = a.
Proof. cbn [nth_error]. destruct v; destruct (li =? 0)%Z; reflexivity. Qed.

Lemma elem_step (rec : mm_rec) k v li b i c p m t i0 c0 p0 m0 t0 :
  elem_body st rec (i, c, p, m, t, li, b, i0, c0, p0, m0, t0) (vrow_of (k, v)) =
  bindr (rec st false b k v i c p m t)
    (fun '(e, (b1, i1, c1, p1, m1, t1)) =>
     match e with
     | Some _ => Ret (e, (b1, i0, c0, p0, m0, t0))
     | None => Next (i1, c1, p1, m1, t1, li, b1, i0, c0, p0, m0, t0)
     end).
Proof.
  unfold elem_body. cbv beta iota. unfold vrow_of. cbn [fst snd]. rewrite elem_pre. cbn [bindc nth_error].
  destruct (rec st false b k v i c p m t) as [[e [[[[[b1 i1] c1] p1] m1] t1]]| | | |]; try reflexivity.
  cbn [bindr]. destruct e; cbn [bindc]; [reflexivity|]. rewrite Z.add_simpl_r. destruct v; reflexivity.
Qed.
Lemma list_step (rec : mm_rec) key v b i c p m t i0 c0 p0 m0 t0 :
  list_body st rec key (i, c, p, m, t, b, i0, c0, p0, m0, t0) v =
  bindr (rec st false b key v i c p m t)
    (fun '(e, (b1, i1, c1, p1, m1, t1)) =>
     match e with
     | Some _ => Ret (e, (b1, i0, c0, p0, m0, t0))
     | None => Next (i1, c1, p1, m1, t1, b1, i0, c0, p0, m0, t0)
     end).
Proof.
  unfold list_body. cbv beta iota. cbn [bindc].
  destruct (rec st false b key v i c p m t) as [[e [[[[[b1 i1] c1] p1] m1] t1]]| | | |]; try reflexivity.
  cbn [bindr]. destruct e; cbn [bindc]; reflexivity.
Qed.

(* encoding the sub-elements in order *)
Lemma elem_loop (rec : mm_rec) : forall (l : entries),
  (forall k v, In (k, v) l -> forall b i c p m t, mm_conv b i c p m t (enc o v k) (rec st false b k v i c p m t)) ->
  forall li b i c p m t i0 c0 p0 m0 t0,
  match concat_res (map (fun kv => enc o (snd kv) (fst kv)) l) with
  | Ok body => range_loop (elem_body st rec) (map vrow_of l) (i, c, p, m, t, li, b, i0, c0, p0, m0, t0) =
               Next (i, c, p, m, t, li, b ++ emit body, i0, c0, p0, m0, t0)
  | Err _ => exists e b', range_loop (elem_body st rec) (map vrow_of l) (i, c, p, m, t, li, b, i0, c0, p0, m0, t0) =
                          Ret (Some e, (b', i0, c0, p0, m0, t0))
  | Panic => False
  end.
Proof.
  induction l as [|[k v] l IH]; intros Hrec li b i c p m t i0 c0 p0 m0 t0.
  - cbn [map concat_res range_loop emit flat_map]. rewrite app_nil_r. reflexivity.
  - cbn [map concat_res range_loop fst snd].
    assert (H1 := Hrec k v (or_introl eq_refl) b i c p m t).
    rewrite elem_step.
    specialize (IH (fun k' v' Hin => Hrec k' v' (or_intror Hin))).
    destruct (enc o v k) as [its|e|]; cbn [mm_conv bind] in H1 |- *.
    + rewrite H1. cbn [bindr bindc].
      specialize (IH li (b ++ emit its) i c p m t i0 c0 p0 m0 t0).
      destruct (concat_res (map (fun kv => enc o (snd kv) (fst kv)) l)) as [body|e|]; cbn [bind]; [|exact IH|exact IH].
      rewrite IH, emit_app, app_assoc. reflexivity.
    + destruct H1 as (e' & b' & H1). rewrite H1. cbn [bindr bindc]. exists e', b'. reflexivity.
    + exact H1.
Qed.

(* encoding the members of a list under the same key *)
Lemma list_loop (rec : mm_rec) key : forall (l : list value),
  (forall v, In v l -> forall b i c p m t, mm_conv b i c p m t (enc o v key) (rec st false b key v i c p m t)) ->
  forall b i c p m t i0 c0 p0 m0 t0,
  match concat_res (map (fun v => enc o v key) l) with
  | Ok body => range_loop (list_body st rec key) l (i, c, p, m, t, b, i0, c0, p0, m0, t0) =
               Next (i, c, p, m, t, b ++ emit body, i0, c0, p0, m0, t0)
  | Err _ => exists e b', range_loop (list_body st rec key) l (i, c, p, m, t, b, i0, c0, p0, m0, t0) =
                          Ret (Some e, (b', i0, c0, p0, m0, t0))
  | Panic => False
  end.
Proof.
  induction l as [|v l IH]; intros Hrec b i c p m t i0 c0 p0 m0 t0.
  - cbn [map concat_res range_loop emit flat_map]. rewrite app_nil_r. reflexivity.
  - cbn [map concat_res range_loop].
    assert (H1 := Hrec v (or_introl eq_refl) b i c p m t).
    rewrite list_step.
    specialize (IH (fun v' Hin => Hrec v' (or_intror Hin))).
    destruct (enc o v key) as [its|e|]; cbn [mm_conv bind] in H1 |- *.
    + rewrite H1. cbn [bindr bindc].
      specialize (IH (b ++ emit its) i c p m t i0 c0 p0 m0 t0).
      destruct (concat_res (map (fun v => enc o v key) l)) as [body|e|]; cbn [bind]; [|exact IH|exact IH].
      rewrite IH, emit_app, app_assoc. reflexivity.
    + destruct H1 as (e' & b' & H1). rewrite H1. cbn [bindr bindc]. exists e', b'. reflexivity.
    + exact H1.
Qed.

(* the list case *)
Lemma mm_list_conv (rec : mm_rec) key l b i c p m t :
  (forall v, In v l -> forall b i c p m t, mm_conv b i c p m t (enc o v key) (rec st false b key v i c p m t)) ->
  mm_conv b i c p m t (enc o (VList l) key) (bindc (mm_list st rec b key l i c p m t) (mm_end st key i c p m t)).
Proof.
  intro Hrec. unfold mm_list.
  destruct l as [|v l].
  - cbn [length Z.of_nat Z.eqb bindc enc mm_conv]. unfold mm_end. cbn [bindc Z.gtb Z.compare Z.eqb].
    destruct Hview as (_ & _ & _ & _ & Vg). unfold close_or_empty. rewrite Vg.
    destruct (g_useGoXmlEmptyElemSyntax st); cbn [bindc emit flat_map emit1 emit_attrs]; rewrite <- ?app_assoc; reflexivity.
  - replace (Z.of_nat (length (v :: l)) =? 0)%Z with false by (symmetry; apply Z.eqb_neq; cbn [length]; lia).
    match goal with |- context [range_loop ?B (v :: l) _] => change B with (list_body st rec key) end.
    cbn [bindc].
    assert (HL := list_loop rec key (v :: l) Hrec b i c p m t i c p m t). unfold mm_res in HL.
    change (enc o (VList (v :: l)) key) with (concat_res (map (fun v => enc o v key) (v :: l))).
    destruct (concat_res (map (fun v => enc o v key) (v :: l))) as [body|e|]; cbn [mm_conv].
    + rewrite HL. reflexivity.
    + destruct HL as (e' & b' & HL). rewrite HL. exists e', b'. reflexivity.
    + exact HL.
Qed.

Variables ind outd : str -> Z -> str -> Z -> Z -> pp5.
Variable xm : value -> res str.
Variable xmi : value -> str -> str -> res str.
Notation fn := (fn_marshalMapToXmlIndent escf ind outd sort_rows sort_vrows xm xmi).

Lemma esc_special_free x : special_free' x = true -> esc o x = x.
Proof. intro H. unfold esc. destruct (xmlEscapeChars o); [apply escape_special_free, H|reflexivity]. Qed.

Ltac fin_scalar Vg :=
  cbn [length Z.of_nat Z.gtb Z.compare Z.eqb enc mm_conv emit flat_map emit1 emit_attrs];
  unfold close_or_empty; rewrite ?Vg; try destruct (g_useGoXmlEmptyElemSyntax st);
  cbn [emit flat_map emit1 emit_attrs]; rewrite <- ?app_assoc; reflexivity.

Lemma mm_scalar_conv f b key v i c p m t : is_container v = false ->
  mm_conv b i c p m t (enc o v key) (fn (S f) st false b key v i c p m t).
Proof.
  intros Hc. destruct Hview as (_ & _ & _ & Ve & Vg).
  assert (E : forall x, (if g_xmlEscapeChars st then Next (escf x) else Next x) = Next (S := str) (A := mm_res) (esc o x)).
  { intro x. unfold esc. rewrite Ve, Hesc. destruct (g_xmlEscapeChars st); reflexivity. }
  unfold mm_res in E.
  destruct v; try discriminate Hc; cbv beta iota zeta delta [fn_marshalMapToXmlIndent bindc negb go_fmt_v fmt_v].
  - rewrite E. cbn [enc]. destruct (esc o x) as [|ch e]; fin_scalar Vg.
  - destruct b0; cbn [enc fmt_v]; [change (s "true") with ("t"%char :: s "rue") | change (s "false") with ("f"%char :: s "alse")]; fin_scalar Vg.
  - rewrite E. cbn [enc]. replace (esc o []) with (@nil ascii) by (unfold esc; destruct (xmlEscapeChars o); reflexivity). fin_scalar Vg.
  - cbn [enc fmt_v]. destruct (ztoa z) as [|ch e] eqn:Ez; [destruct (ztoa_nonempty z Ez)|]. fin_scalar Vg.
  - cbn [enc fmt_v]. destruct (ztoa z) as [|ch e] eqn:Ez; [destruct (ztoa_nonempty z Ez)|]. fin_scalar Vg.
  - rewrite E, (esc_special_free _ (ztoa_sf z)). cbn [enc fmt_v]. destruct (ztoa z) as [|ch e] eqn:Ez; [destruct (ztoa_nonempty z Ez)|]. fin_scalar Vg.
  - cbn [enc fmt_v]. destruct f0 as [|ch e]; fin_scalar Vg.
  - cbn [enc fmt_v]. destruct x as [|ch e]; fin_scalar Vg.
Qed.
End Loops.

(* ------------------------------------------------------------------ the Map case, stage by stage *)
Section Stages.
Variable esc : str -> str.
Variable sortA : list (list str) -> list (list str).
Variable sortE : list (list value) -> list (list value).
Variable st : gstate.
Variable rec : mm_rec.
Variables (b key : str) (vv : entries) (i : str) (c : Z) (p : str) (m t : Z).

Definition mm_k1 : (str * list (list str) * Z) -> ctl mm_st15 mm_res :=
  ltac:(let T := eval cbv beta delta [mm_map] in (mm_map esc sortA sortE st rec b key vv i c p m t) in
        match T with (if _ then Crash else bindc _ ?K) => exact K end).
Definition mm_k2 (n : Z) : (list (list str) * option err * str) -> ctl mm_st15 mm_res :=
  ltac:(let T := eval cbv beta iota delta [mm_k1] in (fun (ss : str) (al : list (list str)) => mm_k1 (ss, al, n)) in
        match T with (fun ss al => bindc _ ?K) => exact K end).
Definition mm_k3 (n : Z) : ((option err * str) + ctl mm_st15 mm_res) -> ctl mm_st15 mm_res :=
  ltac:(let T := eval cbv beta iota delta [mm_k2] in (fun al e b => mm_k2 n (al, e, b)) in
        match T with (fun al e b => bindc _ ?K) => exact K end).
Definition mm_k4 : ((value * option err * str * bool * Z * bool * bool) + ctl mm_st15 mm_res) -> ctl mm_st15 mm_res :=
  ltac:(let T := eval cbv beta iota delta [mm_k3] in (fun n e b => mm_k3 n (inl (e, b))) in
        match T with context [@bindc (sum (value * option err * str * bool * Z * bool * bool) _) _ _ _ ?K] => exact K end).
End Stages.

Section MapCase.
Variables (st : gstate) (o : opts).
Hypothesis Hview : enc_view st o.
Variable escf : str -> str.
Hypothesis Hesc : forall x, escf x = escape_chars x.
Variable rec : mm_rec.

Notation k1 := (mm_k1 escf sort_rows sort_vrows st rec).
Notation k2 := (mm_k2 escf sort_vrows st rec).
Notation k3 := (mm_k3 escf sort_vrows st rec).
Notation k4 := (mm_k4 sort_vrows st rec).

Lemma mm_map_k1 b key vv i c p m t :
  mm_map escf sort_rows sort_vrows st rec b key vv i c p m t =
  bindc (range_loop (attr_body escf st b i c p m t) vv ([], repeat (repeat [] 2) (Z.to_nat (Z.of_nat (length vv))), 0%Z))
        (k1 b key vv i c p m t).
Proof. unfold mm_map. rewrite len_ltb0 at 1. reflexivity. Qed.

Lemma attr_loop0 b i c p m t vv :
  match attrs_of o vv with
  | Ok ps => exists ss', range_loop (attr_body escf st b i c p m t) vv ([], repeat (repeat [] 2) (Z.to_nat (Z.of_nat (length vv))), 0%Z) =
                         Next (ss', map row_of ps ++ repeat blank (length vv - length ps), Z.of_nat (length ps))
                         /\ length ps <= length vv
  | Err _ => range_loop (attr_body escf st b i c p m t) vv ([], repeat (repeat [] 2) (Z.to_nat (Z.of_nat (length vv))), 0%Z) = Ret (Some EOther, (b, i, c, p, m, t))
  | Panic => False
  end.
Proof.
  assert (H := attr_loop st o Hview escf Hesc b i c p m t vv [] [] (length vv) (le_n _)).
  rewrite Nat2Z.id. cbn [app length Z.of_nat] in H. fold blank.
  destruct (attrs_of o vv) as [ps|e|]; [|exact H|exact H].
  destruct H as (ss' & H & Hl). exists ss'. rewrite map_length in H. split; [exact H|exact Hl].
Qed.

Lemma k1_k2 b key vv i c p m t ss ps r :
  exists al, k1 b key vv i c p m t (ss, map row_of ps ++ repeat blank r, Z.of_nat (length ps)) =
             k2 key vv i c p m t (Z.of_nat (length ps)) (al, None, b ++ emit_attrs (sort_by_key ps)).
Proof.
  destruct ps as [|p1 ps]; cbv beta iota delta [mm_k1].
  - exists []. cbn [length Z.of_nat Z.gtb Z.compare bindc sort_by_key fold_right emit_attrs flat_map]. rewrite app_nil_r. reflexivity.
  - rewrite len_gtb0, len_ltb0.
    replace (Z.of_nat (length (map row_of (p1 :: ps) ++ repeat blank r)) <? Z.of_nat (length (p1 :: ps)))%Z with false
      by (symmetry; apply Z.ltb_ge; rewrite app_length, map_length; lia).
    cbn [orb Z.ltb Z.compare]. rewrite Z.sub_0_r, Nat2Z.id. cbn [Z.to_nat skipn].
    rewrite <- (map_length row_of (p1 :: ps)), firstn_app_exact, sort_rows_map, attr_write_loop. cbn [bindc].
    exists []. reflexivity.
Qed.

Lemma k2_all key vv i c p m t al b :
  bindc (k2 key vv i c p m t (Z.of_nat (length vv)) (al, None, b)) (mm_end st key i c p m t) =
  Ret (None, (if g_useGoXmlEmptyElemSyntax st then b ++ (s "></" ++ key) ++ s ">" else b ++ s "/>", i, c, p, m, t)).
Proof.
  cbv beta iota delta [mm_k2]. rewrite Z.eqb_refl.
  destruct (g_useGoXmlEmptyElemSyntax st); reflexivity.
Qed.

Lemma k2_more key vv i c p m t n al b : (n =? Z.of_nat (length vv))%Z = false ->
  k2 key vv i c p m t n (al, None, b) = k3 vv i c p m t n (inl (None, b)).
Proof. intro H. cbv beta iota delta [mm_k2]. rewrite H. reflexivity. Qed.

Lemma text_code (tv : value) : is_container tv = false ->
  go_fmt_v match tv with VStr x => VStr (if g_xmlEscapeChars st then escf x else x) | VNil => VStr [] | _ => tv end = text_text o tv.
Proof.
  intro H. destruct tv; try discriminate H; try reflexivity.
  cbn [text_text go_fmt_v fmt_v]. apply (esc_code st o Hview escf Hesc).
Qed.

Lemma k3_none vv i c p m t n b : lookup (g_textK st) vv = None ->
  k3 vv i c p m t n (inl (None, b)) = k4 vv i c p m t (inl (VNil, None, b, false, 0%Z, false, false)).
Proof. intro H. cbv beta iota delta [mm_k3]. rewrite H. reflexivity. Qed.

Lemma k3_simple key vv i c p m t n b tv : lookup (g_textK st) vv = Some tv -> is_container tv = false ->
  (n + 1 =? Z.of_nat (length vv))%Z = true ->
  bindc (k3 vv i c p m t n (inl (None, b))) (mm_end st key i c p m t) =
  Ret (None, (b ++ s ">" ++ text_text o tv ++ s "</" ++ key ++ s ">", i, c, p, m, t)).
Proof.
  intros H Hc Hn. cbv beta iota delta [mm_k3]. rewrite H, Hn. cbv beta iota.
  rewrite <- (text_code tv Hc).
  destruct tv; try discriminate Hc; try (destruct (g_xmlEscapeChars st)); cbn [bindc mm_end Z.gtb Z.compare Z.eqb]; rewrite <- ?app_assoc; reflexivity.
Qed.

Lemma k3_complex vv i c p m t n b tv : lookup (g_textK st) vv = Some tv -> is_container tv = false ->
  (n + 1 =? Z.of_nat (length vv))%Z = false ->
  exists v', k3 vv i c p m t n (inl (None, b)) = k4 vv i c p m t (inl (v', None, b ++ s ">" ++ text_text o tv, false, 0%Z, false, true)).
Proof.
  intros H Hc Hn. cbv beta iota delta [mm_k3]. rewrite H, Hn. cbv beta iota.
  rewrite <- (text_code tv Hc).
  destruct tv; try discriminate Hc; try (destruct (g_xmlEscapeChars st)); cbn [bindc]; exists VNil; reflexivity.
Qed.

Lemma coll_loop0 (vv : entries) :
  let ps := filter (fun kv => keep_elem o (fst kv)) vv in
  range_loop (coll_body st) vv (repeat (repeat VNil 2) (Z.to_nat (Z.of_nat (length vv))), 0%Z) =
  Next (map vrow_of ps ++ repeat blankv (length vv - length ps), Z.of_nat (length ps)) /\ length ps <= length vv.
Proof.
  assert (H := coll_loop st o Hview vv [] (length vv) (le_n _)). cbv zeta in H |- *.
  rewrite Nat2Z.id. cbn [app length Z.of_nat] in H. fold blankv. rewrite map_length in H. exact H.
Qed.

Lemma k4_false_eq vv i c p m t v' b et el sim :
  k4 vv i c p m t (inl (v', None, b, et, el, sim, false)) = k4 vv i c p m t (inl (v', None, b ++ s ">", et, el, sim, true)).
Proof. reflexivity. Qed.

Lemma k4_true key vv i c p m t v' b et el sim :
  (forall k v, In (k, v) vv -> forall b i c p m t, mm_conv b i c p m t (enc o v k) (rec st false b k v i c p m t)) ->
  match concat_res (map (fun kv => enc o (snd kv) (fst kv)) (sort_by_key (filter (fun kv => keep_elem o (fst kv)) vv))) with
  | Ok body => bindc (k4 vv i c p m t (inl (v', None, b, et, el, sim, true))) (mm_end st key i c p m t) =
               Ret (None, (b ++ emit body ++ s "</" ++ key ++ s ">", i, c, p, m, t))
  | Err _ => exists e b', bindc (k4 vv i c p m t (inl (v', None, b, et, el, sim, true))) (mm_end st key i c p m t) =
                          Ret (Some e, (b', i, c, p, m, t))
  | Panic => False
  end.
Proof.
  intro Hrec. cbv beta iota delta [mm_k4]. cbn [bindc]. rewrite len_ltb0.
  match goal with |- context [range_loop ?B vv _] => change B with (coll_body st) end.
  destruct (coll_loop0 vv) as [HC Hlen]. cbv zeta in HC, Hlen. unfold mm_res in HC. rewrite HC. clear HC. cbn [bindc].
  set (ps := filter (fun kv => keep_elem o (fst kv)) vv) in *.
  rewrite len_ltb0.
  replace (Z.of_nat (length (map vrow_of ps ++ repeat blankv (length vv - length ps))) <? Z.of_nat (length ps))%Z with false
    by (symmetry; apply Z.ltb_ge; rewrite app_length, map_length; lia).
  cbn [orb Z.ltb Z.compare]. rewrite Z.sub_0_r, Nat2Z.id. cbn [Z.to_nat skipn].
  rewrite <- (map_length vrow_of ps), firstn_app_exact, sort_vrows_map.
  match goal with |- context [range_loop ?B (map vrow_of _) _] => change B with (elem_body st rec) end.
  assert (Hrec' : forall k v, In (k, v) (sort_by_key ps) -> forall b i c p m t, mm_conv b i c p m t (enc o v k) (rec st false b k v i c p m t)).
  { intros k v Hin. apply Hrec. apply (proj1 (sort_by_key_in ps (k, v))) in Hin. subst ps. apply filter_In in Hin. exact (proj1 Hin). }
  assert (HE := elem_loop st o rec (sort_by_key ps) Hrec' 0%Z b i c p (m + 1)%Z t i c p m t). unfold mm_res in HE.
  destruct (concat_res (map (fun kv => enc o (snd kv) (fst kv)) (sort_by_key ps))) as [body|e|].
  - rewrite HE. cbn [bindc mm_end Z.gtb Z.compare Z.eqb]. rewrite <- !app_assoc. reflexivity.
  - destruct HE as (e' & b' & HE). rewrite HE. exists e', b'. reflexivity.
  - exact HE.
Qed.

Lemma lookup_none_neq k (mm : entries) : lookup k mm = None -> forall kv, In kv mm -> str_eqb (fst kv) k = false.
Proof.
  induction mm as [|[k' v'] mm IH]; intros H kv Hin; [destruct Hin|].
  cbn [lookup] in H. destruct (str_eqb k k') eqn:E; [discriminate H|].
  destruct Hin as [<-|Hin]; [cbn [fst]; rewrite str_eqb_sym; exact E | apply IH; assumption].
Qed.

(* the model's Map case, with the children encoded after the selection and the sort *)
Lemma enc_map_eq vv key :
  enc o (VMap vv) key =
  bind (attrs_of o vv) (fun ps =>
    let attrs := sort_by_key ps in
    if Nat.eqb (length ps) (length vv) then Ok (close_or_empty o key attrs)
    else
      let kids := concat_res (map (fun kv => enc o (snd kv) (fst kv)) (sort_by_key (filter (fun kv => keep_elem o (fst kv)) vv))) in
      match lookup (textK o) vv with
      | Some tv =>
          if Nat.eqb (S (length ps)) (length vv)
          then Ok [IOpen key attrs; IText (text_text o tv); IClose key]
          else bind kids (fun body => Ok (IOpen key attrs :: IText (text_text o tv) :: body ++ [IClose key]))
      | None => bind kids (fun body => Ok (IOpen key attrs :: body ++ [IClose key]))
      end).
Proof.
  cbn [enc]. destruct (attrs_of o vv) as [ps|e|]; [|reflexivity|reflexivity]. cbn [bind]. cbv zeta.
  rewrite sort_by_key_length.
  destruct (Nat.eqb (length ps) (length vv)); [reflexivity|].
  set (g := fun kv : str * value => (fst kv, enc o (snd kv) (fst kv))).
  assert (Hg : forall x, fst (g x) = fst x) by reflexivity.
  assert (Hk : map snd (sort_by_key (filter (fun kr => keep_elem o (fst kr)) (map g vv))) =
               map (fun kv => enc o (snd kv) (fst kv)) (sort_by_key (filter (fun kv => keep_elem o (fst kv)) vv))).
  { rewrite (filter_map_key (keep_elem o) g Hg), (sort_by_key_map g Hg), map_map. reflexivity. }
  destruct (lookup (textK o) vv) as [tv|] eqn:El.
  - destruct (Nat.eqb (S (length ps)) (length vv)); [reflexivity|].
    change (fun kr : str * res (list item) => negb (str_eqb (fst kr) (textK o)) && negb (is_attr_key o (fst kr)))
      with (fun kr : str * res (list item) => keep_elem o (fst kr)).
    rewrite Hk. reflexivity.
  - replace (filter (fun kr : str * res (list item) => negb (is_attr_key o (fst kr))) (map g vv))
      with (filter (fun kr : str * res (list item) => keep_elem o (fst kr)) (map g vv)).
    + rewrite Hk. reflexivity.
    + apply filter_ext_in. intros kr Hin. unfold keep_elem.
      apply in_map_iff in Hin. destruct Hin as (kv & <- & Hin). rewrite Hg.
      rewrite (lookup_none_neq _ _ El kv Hin). reflexivity.
Qed.

Lemma mm_map_conv key vv b i c p m t :
  match lookup (textK o) vv with Some tv => negb (is_container tv) | None => true end = true ->
  (forall k v, In (k, v) vv -> forall b i c p m t, mm_conv b i c p m t (enc o v k) (rec st false b k v i c p m t)) ->
  mm_conv b i c p m t (enc o (VMap vv) key)
    (bindc (mm_map escf sort_rows sort_vrows st rec (b ++ s "<" ++ key) key vv i c p m t) (mm_end st key i c p m t)).
Proof.
  intros Hd2 Hrec. rewrite enc_map_eq, mm_map_k1.
  assert (HA := attr_loop0 (b ++ s "<" ++ key) i c p m t vv).
  destruct (attrs_of o vv) as [ps|e|]; cbn [bind].
  2:{ rewrite HA. cbn [bindc mm_conv]. eexists _, _. reflexivity. }
  2:{ exact HA. }
  destruct HA as (ss' & HA & Hl). rewrite HA. clear HA. cbn [bindc].
  destruct (k1_k2 (b ++ s "<" ++ key) key vv i c p m t ss' ps (length vv - length ps)) as [al Hk]. rewrite Hk. clear Hk.
  cbv zeta.
  assert (Vt : g_textK st = textK o) by (symmetry; apply Hview).
  assert (Vg : useGoXmlEmptyElemSyntax o = g_useGoXmlEmptyElemSyntax st) by apply Hview.
  destruct (Nat.eqb (length ps) (length vv)) eqn:En.
  - apply Nat.eqb_eq in En. rewrite En, k2_all. unfold close_or_empty. rewrite Vg.
    destruct (g_useGoXmlEmptyElemSyntax st); cbn [mm_conv emit flat_map emit1]; rewrite <- ?app_assoc; reflexivity.
  - apply Nat.eqb_neq in En.
    rewrite k2_more by (apply Z.eqb_neq; lia).
    specialize (k4_true key vv i c p m t) as HK.
    destruct (lookup (textK o) vv) as [tv|] eqn:El.
    + apply negb_true_iff in Hd2. rewrite <- Vt in El.
      destruct (Nat.eqb (S (length ps)) (length vv)) eqn:En1.
      * apply Nat.eqb_eq in En1. rewrite (k3_simple key vv i c p m t _ _ tv El Hd2) by (apply Z.eqb_eq; lia).
        cbn [mm_conv emit flat_map emit1]. rewrite <- ?app_assoc. reflexivity.
      * apply Nat.eqb_neq in En1.
        destruct (k3_complex vv i c p m t (Z.of_nat (length ps)) ((b ++ s "<" ++ key) ++ emit_attrs (sort_by_key ps)) tv El Hd2) as [v' Hk3];
          [apply Z.eqb_neq; lia|]. rewrite Hk3. clear Hk3.
        specialize (HK v' (((b ++ s "<" ++ key) ++ emit_attrs (sort_by_key ps)) ++ s ">" ++ text_text o tv) false 0%Z false Hrec).
        destruct (concat_res (map (fun kv => enc o (snd kv) (fst kv)) (sort_by_key (filter (fun kv => keep_elem o (fst kv)) vv)))) as [body|e|];
          cbn [bind mm_conv].
        -- refine (eq_trans HK _). cbn [emit flat_map emit1]. rewrite emit_app. cbn [emit flat_map emit1]. rewrite <- ?app_assoc. reflexivity.
        -- exact HK.
        -- exact HK.
    + rewrite <- Vt in El. rewrite (k3_none vv i c p m t _ _ El), k4_false_eq.
      specialize (HK VNil (((b ++ s "<" ++ key) ++ emit_attrs (sort_by_key ps)) ++ s ">") false 0%Z false Hrec).
      destruct (concat_res (map (fun kv => enc o (snd kv) (fst kv)) (sort_by_key (filter (fun kv => keep_elem o (fst kv)) vv)))) as [body|e|];
        cbn [bind mm_conv].
      * refine (eq_trans HK _). cbn [emit flat_map emit1]. rewrite emit_app. cbn [emit flat_map emit1]. rewrite <- ?app_assoc. reflexivity.
      * exact HK.
      * exact HK.
Qed.
End MapCase.

(* ------------------------------------------------------------------ the theorem *)
Section Main.
Variables (st : gstate) (o : opts).
Hypothesis Hview : enc_view st o.
Variable escf : str -> str.
Hypothesis Hesc : forall x, escf x = escape_chars x.
Variables ind outd : str -> Z -> str -> Z -> Z -> pp5.
Variable xm : value -> res str.
Variable xmi : value -> str -> str -> res str.
Notation fn := (fn_marshalMapToXmlIndent escf ind outd sort_rows sort_vrows xm xmi).

Lemma mm_is_enc : forall v f key b i c p m t, vdepth v <= f -> text_dom o v = true ->
  mm_conv b i c p m t (enc o v key) (fn f st false b key v i c p m t).
Proof.
  induction v as [x|x| |z|z|z|x|x|mm IH|l IH] using value_ind2; intros f key b i c p m t Hf Hd;
    (destruct f as [|f]; [exfalso; revert Hf; match goal with |- vdepth ?v <= 0 -> _ => generalize (vdepth_pos v) end; lia|]);
    try (apply (mm_scalar_conv st o Hview escf Hesc); reflexivity).
  - rewrite mm_unfold_map.
    cbn [text_dom] in Hd. apply andb_true_iff in Hd. destruct Hd as [Hd2 Hd3].
    apply (mm_map_conv st o Hview escf Hesc); [exact Hd2|].
    intros k v Hin b' i' c' p' m' t'.
    rewrite Forall_forall in IH. apply (IH (k, v) Hin).
    + assert (HF := vdepth_map_F f mm Hf). rewrite Forall_forall in HF. exact (HF (k, v) Hin).
    + rewrite forallb_forall in Hd3. exact (Hd3 (k, v) Hin).
  - rewrite mm_unfold_list.
    cbn [text_dom] in Hd.
    apply (mm_list_conv st o Hview).
    intros v Hin b' i' c' p' m' t'.
    rewrite Forall_forall in IH. apply (IH v Hin).
    + assert (HF := vdepth_list_F f l Hf). rewrite Forall_forall in HF. exact (HF v Hin).
    + rewrite forallb_forall in Hd. exact (Hd v Hin).
Qed.
End Main.

(* ------------------------------------------------------------------ statements *)

(* 1. the translated Map encoder, compact mode, IS the model encoder [enc] of Model/XmlEnc.v rendered by emit:
   on EVERY value whose #text members are not containers, for every key, every buffer contents, every pretty record, every
   fuel above the depth of the value; sort.Sort = the model's sort_by_key on the rows, escapeChars = any function computing
   the model's escape_chars; pretty.Indent / Outdent, xml.Marshal / MarshalIndent arbitrary (they are not reached). *)
Theorem marshal_map_code_is_enc : forall o st, enc_view st o ->
  forall escf, (forall x, escf x = escape_chars x) ->
  forall ind outd xm xmi v f key b i c p m t, vdepth v <= f -> text_dom o v = true ->
  (forall its, enc o v key = Ok its ->
     fn_marshalMapToXmlIndent escf ind outd sort_rows sort_vrows xm xmi f st false b key v i c p m t =
     Ret (None, (b ++ emit its, i, c, p, m, t))) /\
  (forall e, enc o v key = Err e ->
     exists e' b', fn_marshalMapToXmlIndent escf ind outd sort_rows sort_vrows xm xmi f st false b key v i c p m t =
                   Ret (Some e', (b', i, c, p, m, t))) /\
  enc o v key <> Panic.
Proof.
  intros o st Hview escf Hesc ind outd xm xmi v f key b i c p m t Hf Hd.
  assert (H := mm_is_enc st o Hview escf Hesc ind outd xm xmi v f key b i c p m t Hf Hd).
  destruct (enc o v key) as [its|e|]; cbn [mm_conv] in H.
  - split; [intros its' E; injection E as <-; exact H|]. split; [intros e E; discriminate E|discriminate].
  - split; [intros its' E; discriminate E|]. split; [intros e' E; exact H|discriminate].
  - destruct H.
Qed.

(* 2. the same with escapeChars as go2v translated it (GenProofs/PureG.v: escape_code_is_model): translated code only *)
Theorem marshal_map_code_is_enc_translated : forall o st, enc_view st o ->
  forall ind outd xm xmi v f key b i c p m t, vdepth v <= f -> text_dom o v = true ->
  (forall its, enc o v key = Ok its ->
     fn_marshalMapToXmlIndent (run_escapeChars st) ind outd sort_rows sort_vrows xm xmi f st false b key v i c p m t =
     Ret (None, (b ++ emit its, i, c, p, m, t))) /\
  (forall e, enc o v key = Err e ->
     exists e' b', fn_marshalMapToXmlIndent (run_escapeChars st) ind outd sort_rows sort_vrows xm xmi f st false b key v i c p m t =
                   Ret (Some e', (b', i, c, p, m, t))) /\
  enc o v key <> Panic.
Proof. intros o st Hview. apply (marshal_map_code_is_enc o st Hview (run_escapeChars st) (run_escapeChars_eq st)). Qed.

(* the option record of a package state is a view of it *)
Lemma state_opts_enc_view st : enc_view st (state_opts st).
Proof. repeat split. Qed.

(* 3. no Crash: in every package state, on every value of the universe whose #text members are not containers, the translated
   encoder (compact mode) returns - the guards of the slice expressions, of the element stores and of the type assertions
   never fire, the case body outside the translated fragment (reflection on foreign map types) and the xml.Marshal branch
   are not reached, the fuel is not exhausted - and hands the pretty record back unchanged.  (A container as #text member is
   written with %v by the Go code, whose text is outside the translated fragment: marshal_map_text_container_outside.) *)
Theorem marshal_map_code_returns : forall st ind outd xm xmi v f key b i c p m t,
  vdepth v <= f -> text_dom (state_opts st) v = true ->
  exists e b', fn_marshalMapToXmlIndent (run_escapeChars st) ind outd sort_rows sort_vrows xm xmi f st false b key v i c p m t =
               Ret (e, (b', i, c, p, m, t)).
Proof.
  intros st ind outd xm xmi v f key b i c p m t Hf Hd.
  assert (H := mm_is_enc st (state_opts st) (state_opts_enc_view st) (run_escapeChars st) (run_escapeChars_eq st)
                 ind outd xm xmi v f key b i c p m t Hf Hd).
  destruct (enc (state_opts st) v key) as [its|e|]; cbn [mm_conv] in H.
  - eexists _, _. exact H.
  - destruct H as (e' & b' & H). eexists _, _. exact H.
  - destruct H.
Qed.
Corollary marshal_map_code_no_crash : forall st ind outd xm xmi v f key b i c p m t,
  vdepth v <= f -> text_dom (state_opts st) v = true ->
  fn_marshalMapToXmlIndent (run_escapeChars st) ind outd sort_rows sort_vrows xm xmi f st false b key v i c p m t <> Crash.
Proof.
  intros st ind outd xm xmi v f key b i c p m t Hf Hd.
  destruct (marshal_map_code_returns st ind outd xm xmi v f key b i c p m t Hf Hd) as (e & b' & H). rewrite H. discriminate.
Qed.

(* ------------------------------------------------------------------ the former deviations, the condition of the domain *)

Definition idp5 (a : str) (b : Z) (c : str) (d e : Z) : pp5 := (a, b, c, d, e).
Definition no_marshal (v : value) : res str := Err EOther.
Definition no_marshal_indent (v : value) (a b : str) : res str := Err EOther.
Notation fn0 := (fn_marshalMapToXmlIndent escape_chars idp5 idp5 sort_rows sort_vrows no_marshal no_marshal_indent).

(* a uint64 under an attribute key: the Go code has no case for it ("invalid attribute value"), and the model says Err
   (before the correction of attr_text the model wrote it with %v) *)
Example marshal_map_attr_u64_agree :
  let v := VMap [(s "-x", VU64 9)] in
  text_dom opts0 v = true /\ vdepth v <= 5 /\ enc opts0 v (s "a") = Err EOther /\
  fn0 5 gstate0 false [] (s "a") v [] 0%Z [] 0%Z 0%Z = Ret (Some EOther, (s "<a", [], 0%Z, [], 0%Z, 0%Z)).
Proof. cbv zeta. split; [reflexivity|]. split; [vm_compute; lia|split; vm_compute; reflexivity]. Qed.
(* ... while a uint64 as an element value or as the #text member is written with %v by both *)
Example marshal_map_elem_u64_agree :
  let v := VMap [(s "n", VU64 18446744073709551615); (s "#text", VU64 7); (s "-k", VInt 1)] in
  text_dom opts0 v = true /\ vdepth v <= 5 /\
  enc opts0 v (s "a") = Ok [IOpen (s "a") [(s "k", s "1")]; IText (s "7");
                            IOpen (s "n") []; IText (s "18446744073709551615"); IClose (s "n"); IClose (s "a")] /\
  fn0 5 gstate0 false [] (s "a") v [] 0%Z [] 0%Z 0%Z =
    Ret (None, (s "<a k=""1"">7<n>18446744073709551615</n></a>", [], 0%Z, [], 0%Z, 0%Z)).
Proof. cbv zeta. split; [reflexivity|]. split; [vm_compute; lia|split; vm_compute; reflexivity]. Qed.

(* json.Number(""): an empty element for the code (after /repo 9f7c997; "<a>/>" before) and for the model,
   in both empty-element syntaxes *)
Example marshal_map_empty_number_agree :
  let v := VJNum [] in
  text_dom opts0 v = true /\ vdepth v <= 5 /\
  enc opts0 v (s "a") = Ok [IEmpty (s "a") []] /\
  fn0 5 gstate0 false [] (s "a") v [] 0%Z [] 0%Z 0%Z = Ret (None, (s "<a/>", [], 0%Z, [], 0%Z, 0%Z)) /\
  let st := with_useGoXmlEmptyElemSyntax true gstate0 in
  enc (state_opts st) v (s "a") = Ok [IOpen (s "a") []; IClose (s "a")] /\
  fn0 5 st false [] (s "a") v [] 0%Z [] 0%Z 0%Z = Ret (None, (s "<a></a>", [], 0%Z, [], 0%Z, 0%Z)).
Proof. cbv zeta. split; [reflexivity|]. split; [vm_compute; lia|]. repeat split; vm_compute; reflexivity. Qed.

(* a Map as the #text member: the Go code writes its %v text, which is outside the translated fragment (Crash stands for it) *)
Lemma marshal_map_text_container_outside :
  exists v key, vdepth v <= 5 /\ enc opts0 v key = Ok [IOpen key []; IText (s "?"); IClose key] /\
    fn0 5 gstate0 false [] key v [] 0%Z [] 0%Z 0%Z = Crash.
Proof. exists (VMap [(s "#text", VMap [])]), (s "a"). split; [vm_compute; lia|split; vm_compute; reflexivity]. Qed.

(* ------------------------------------------------------------------ non-vacuity: a value of the domain, an error, the options *)

Definition ex_doc : value :=
  VMap [(s "-k", VStr (s "v&")); (s "b", VList [VStr (s "x"); VMap [(s "c", VNil)]; VFlt (s "1.5")]); (s "#text", VStr (s "lead"));
        (s "z", VMap [(s "y", VStr []); (s "-q", VInt 3); (s "n", VU64 7)]); (s "e", VList [])].

Example marshal_map_example :
  enc_view gstate0 opts0 /\ text_dom opts0 ex_doc = true /\ vdepth ex_doc <= 4 /\
  enc opts0 ex_doc (s "doc") =
    Ok [IOpen (s "doc") [(s "k", s "v&")]; IText (s "lead");
        IOpen (s "b") []; IText (s "x"); IClose (s "b");
        IOpen (s "b") []; IEmpty (s "c") []; IClose (s "b");
        IOpen (s "b") []; IText (s "1.5"); IClose (s "b");
        IEmpty (s "e") [];
        IOpen (s "z") [(s "q", s "3")]; IOpen (s "n") []; IText (s "7"); IClose (s "n"); IEmpty (s "y") []; IClose (s "z");
        IClose (s "doc")] /\
  fn0 4 gstate0 false (s "<?xml?>") (s "doc") ex_doc (s "  ") 1%Z (s "pad") 2%Z 3%Z =
    Ret (None, (s "<?xml?><doc k=""v&"">lead<b>x</b><b><c/></b><b>1.5</b><e/><z q=""3""><n>7</n><y/></z></doc>", s "  ", 1%Z, s "pad", 2%Z, 3%Z)).
Proof. split; [repeat split|]. split; [reflexivity|]. split; [vm_compute; lia|]. split; vm_compute; reflexivity. Qed.

(* with XMLEscapeChars(true) and the Go empty-element syntax; the attribute prefix "@" *)
Definition ex_state : gstate := with_attrPrefix (s "@") (with_useGoXmlEmptyElemSyntax true (with_xmlEscapeChars true gstate0)).
Example marshal_map_example_options :
  let v := VMap [(s "@id", VStr (s "a<b")); (s "#text", VStr (s "x&y")); (s "e", VNil); (s "-k", VBool true)] in
  text_dom (state_opts ex_state) v = true /\ vdepth v <= 2 /\
  fn_marshalMapToXmlIndent (run_escapeChars ex_state) idp5 idp5 sort_rows sort_vrows no_marshal no_marshal_indent
    2 ex_state false [] (s "r") v [] 0%Z [] 0%Z 0%Z =
  Ret (None, (s "<r id=""a&lt;b"">x&amp;y<-k>true</-k><e></e></r>", [], 0%Z, [], 0%Z, 0%Z)).
Proof. cbv zeta. split; [reflexivity|]. split; [vm_compute; lia|vm_compute; reflexivity]. Qed.

(* an invalid attribute value is an error of both *)
Example marshal_map_example_error :
  let v := VMap [(s "a", VMap [(s "-x", VList [])])] in
  text_dom opts0 v = true /\ enc opts0 v (s "r") = Err EOther /\
  fn0 3 gstate0 false [] (s "r") v [] 0%Z [] 0%Z 0%Z = Ret (Some EOther, (s "<r><a", [], 0%Z, [], 0%Z, 0%Z)).
Proof. cbv zeta. split; [reflexivity|]. split; vm_compute; reflexivity. Qed.

(* without fuel the translation reports Crash (the fuel stands for the Go stack) *)
Lemma marshal_map_code_fuel_exhausted escf ind outd sa se xm xmi st d b key v i c p m t :
  fn_marshalMapToXmlIndent escf ind outd sa se xm xmi 0 st d b key v i c p m t = Crash.
Proof. reflexivity. Qed.

Print Assumptions marshal_map_code_is_enc.
Print Assumptions marshal_map_code_is_enc_translated.
Print Assumptions marshal_map_code_returns.
Print Assumptions marshal_map_code_no_crash.
Print Assumptions marshal_map_text_container_outside.
