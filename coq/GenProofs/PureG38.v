(* AnyXmlIndent (anyxml.go:131) as go2v translated it from /repo's CURRENT sources (Gen/Pure_gen.v: fn_AnyXmlIndent), running the
   translated Map encoder in indented mode (fn_marshalMapToXmlIndent, doIndent = true), the translated pretty.Indent / Outdent
   and - for a Map value - the translated Map.XmlIndent: it writes THE ITEMS AnyXml WRITES (the model any_xml_items of
   Model/XmlEnc.v, which GenProofs/PureG27.v proves to be what the translated AnyXml writes), each rendered as emit renders it, with
   only padding before / between / after them (properties C03 / C16).

   From GenProofs/PureG27.v: the call structure (any_xml_indent_code_structure / any_xml_indent_spec).  From GenProofs/PureG28.v:
   the indented encoder writes [padded prefix indent its out] from every pretty record (indent, n, prefix ++ indent^n, m, t), for
   EVERY p.start t (mi_is_enc) - AnyXmlIndent changes p.start between the members of a list, which is why the per-member statement is
   used with a different t for each member.  From GenProofs/PureG25.v: Map.XmlIndent is one encoder call on root_sel_indent followed
   by finish (map_xmlindent_is_root_sel).

   The padding language is PureG28's, unchanged: [pad_ok prefix indent w] = w is a concatenation of "\n" and of strings
   prefix ++ indent^n (any n); [padded prefix indent its out] = out is the items, each rendered by emit1, a pad before each tag and
   after the last item, character data only directly after its start tag, NO padding inside the bytes of an item.  It is wide enough:
   the root tags of a list, which are written WITHOUT the prefix ("<rt>\n" ... "</rt>"), have the empty pad in front, and the
   members of a nested list, which are indented two levels, have pdg 2.

   Root rule of Map.XmlIndent (root_sel_indent differs from root_sel for a single-key Map whose value is a list): it does NOT
   matter here - AnyXmlIndent passes exactly one root tag, and with one tag both rules select (tag, the whole Map)
   (root_sel_one_tag); the items are map_xml_items o m (Some rt) = enc o (VMap m) rt in both modes.

   RESULT: the statement is TRUE (no item missing / duplicated / reordered, no padding inside a tag or inside text, no missing or
   extra tag).  What was found is layout only, inside the pad language, and is recorded by examples at the end:
   (a) for a list neither "<rt>" nor "</rt>" gets the prefix, while nil, a Map and a scalar do get it (any_xml_indent_list_shape);
   (b) p.start = 1, set for a Map member that is not a single-entry Map, is NOT reset by a following single-entry Map member
       (only the default arm resets it), so that member is not followed by a newline: "<c>3</c>" ++ padding ++ "<e>5</e>" on one
       line (any_xml_indent_stale_start_example);
   (c) a list member of a list is written one level deeper than its siblings (PureG27's example). *)
From Coq Require Import Lia.
From Mxj Require Import Gen.GenSupport Gen.Setters_gen Gen.PureSupport Gen.Pure_gen Model.XmlEnc.
From Mxj Require Import Spec.JsonRT Proofs.StrLemmas Proofs.C06Struct GenProofs.PureG GenProofs.PureG15 GenProofs.PureG18.
From Mxj Require Import Spec.Items GenProofs.PureG25 GenProofs.PureG27 GenProofs.PureG28.

(* ------------------------------------------------------------------ Map.XmlIndent as a Map.XmlIndent argument *)

(* Map.XmlIndent (xml.go:971) as translated, as AnyXmlIndent's Map.XmlIndent argument; anything but a return = it panicked *)
Definition run_xmlindent (ext : mm_ext) (dec : str -> xdecoder) (st : gstate) : xmlpi_ext :=
  fun m prefix indent rt => match fn_Map_XmlIndent ext dec st m prefix indent rt with Ret x => Some x | _ => None end.

(* with ONE root tag the two root rules agree: the whole Map under that tag *)
Lemma root_sel_one_tag m rt : root_sel_indent m [rt] = (rt, VMap m) /\ root_sel m [rt] = (rt, VMap m).
Proof. split; reflexivity. Qed.

(* with ONE root tag and without the validity check, Map.XmlIndent is one call of the encoder on the Map under that tag with the
   pretty record {indent, 0, prefix, 0, 0}, for every encoder *)
Lemma map_xmlindent_code_one_tag (ext : mm_ext) dec st m prefix indent rt : g_xmlCheckIsValid st = false ->
  run_xmlindent ext dec st m prefix indent [rt] =
  match ext true [] rt (VMap m) indent 0%Z prefix 0%Z 0%Z with
  | None => None
  | Some (e, (b, _, _, _, _, _)) => Some (b, e)
  end.
Proof.
  intro Hv. unfold run_xmlindent. rewrite (map_xmlindent_is_root_sel ext dec st m prefix indent [rt]).
  cbn [root_sel_indent fst snd].
  destruct (ext true [] rt (VMap m) indent 0%Z prefix 0%Z 0%Z) as [[e [[[[[b i] c] p] mm] t]]|]; cbn [finish]; [|reflexivity].
  rewrite Hv. reflexivity.
Qed.

(* ------------------------------------------------------------------ small facts about padded *)
Section PadFacts.
Variables prefix indent : str.
Notation pdg := (pdg prefix indent).
Notation padded := (padded prefix indent).
Notation pad_ok := (pad_ok prefix indent).

Lemma pdg_0 : pdg 0 = prefix.
Proof. unfold PureG28.pdg. cbn [repeat concat]. apply app_nil_r. Qed.

(* more padding behind *)
Lemma padded_post its out w : padded its out -> pad_ok w -> padded its (out ++ w).
Proof.
  intros H Hw. rewrite <- (app_nil_r its). apply padded_app; [exact H|constructor; exact Hw].
Qed.

(* the root element of a list: "<rt>" with NOTHING in front, a newline, the padded members, "</rt>" with nothing in front and
   nothing behind *)
Lemma padded_wrapped rt body out : padded body out ->
  padded (IOpen rt [] :: body ++ [IClose rt]) (((s "<" ++ rt ++ hx "3e0a") ++ out) ++ s "</" ++ rt ++ s ">").
Proof.
  intro H.
  replace (((s "<" ++ rt ++ hx "3e0a") ++ out) ++ s "</" ++ rt ++ s ">")
    with ([] ++ emit1 (IOpen rt []) ++ (nl_str ++ out ++ [] ++ emit [IClose rt] ++ [])).
  - apply pd_tag; [constructor|reflexivity|]. apply padded_pre; [apply pad_nl1|].
    apply padded_app; [exact H|]. apply padded_one; [constructor|constructor|reflexivity].
  - cbn [emit flat_map emit1 emit_attrs app]. unfold nl_str.
    rewrite ?app_nil_r, <- ?app_assoc. cbn [app]. rewrite <- ?app_assoc. reflexivity.
Qed.
End PadFacts.

(* ------------------------------------------------------------------ the members of a list, the whole value *)
Section Indent.
Variables (st : gstate) (o : opts).
Hypothesis Hview : enc_view st o.
Variable escf : str -> str.
Hypothesis Hesc : forall x, escf x = escape_chars x.
Variables prefix indent : str.
Variables ind outd : str -> Z -> str -> Z -> Z -> pp5.
Hypothesis Hind : forall i c p m t, ind i c p m t = (i, (c + 1)%Z, p ++ i, m, t).
Hypothesis Houtd : forall i c p m t, (0 <= c)%Z -> outd i (c + 1)%Z (p ++ i) m t = (i, c, p, m, t).
Variable xm : value -> res str.
Variable xmi : value -> str -> str -> res str.
Variable fuel : nat.

Notation pdg := (pdg prefix indent).
Notation padded := (padded prefix indent).
Notation pad_ok := (pad_ok prefix indent).
Notation ext := (PureG27.run_mm escf ind outd xm xmi st fuel).

(* one call of the encoder in indented mode, from the pretty record (indent, n, pdg n, m, t), ANY p.start t *)
Lemma run_mm_convI v key b n m t : vdepth v <= fuel -> text_dom o v = true ->
  match enc o v key with
  | Ok its => exists out,
      ext true b key v indent (Z.of_nat n) (pdg n) m t = Some (None, (b ++ out, indent, Z.of_nat n, pdg n, m, t)) /\ padded its out
  | Err _ => exists e b', ext true b key v indent (Z.of_nat n) (pdg n) m t = Some (Some e, (b', indent, Z.of_nat n, pdg n, m, t))
  | Panic => False
  end.
Proof.
  intros Hf Hd.
  assert (H := mi_is_enc st o Hview escf Hesc prefix indent ind outd Hind Houtd t xm xmi v fuel key b n m Hf Hd).
  unfold PureG27.run_mm. destruct (enc o v key) as [its|e|]; cbn [mi_conv] in H.
  - destruct H as (out & H & Hp). exists out. rewrite H. split; [reflexivity|exact Hp].
  - destruct H as (e' & b' & H). exists e', b'. rewrite H. reflexivity.
  - exact H.
Qed.

(* what a member does to the buffer and the pretty record: the padded items of the model's member, the record unchanged but for
   p.start *)
Definition memb_conv (b : str) (n : nat) (m : Z) (r : res (list item)) (x : option mm_res) : Prop :=
  match r with
  | Ok its => exists out t', x = Some (None, (b ++ out, indent, Z.of_nat n, pdg n, m, t')) /\ padded its out
  | Err _ => exists e r', x = Some (Some e, r')
  | Panic => False
  end.

Lemma memb_conv_plain v key b n m t : vdepth v <= fuel -> text_dom o v = true ->
  memb_conv b n m (enc o v key) (ext true b key v indent (Z.of_nat n) (pdg n) m t).
Proof.
  intros Hf Hd. assert (H := run_mm_convI v key b n m t Hf Hd).
  destruct (enc o v key) as [its|e|]; cbn [memb_conv].
  - destruct H as (out & H & Hp). exists out, t. split; assumption.
  - destruct H as (e' & b' & H). eexists _, _. exact H.
  - exact H.
Qed.

(* a Map member that is not a single-entry Map: p.start = 1, then a newline *)
Lemma memb_conv_nl v key b n m : vdepth v <= fuel -> text_dom o v = true ->
  memb_conv b n m (enc o v key)
    (match ext true b key v indent (Z.of_nat n) (pdg n) m 1%Z with
     | Some (None, (b', i', c', p', m', t')) => Some (None, (b' ++ hx "0a", i', c', p', m', t'))
     | r => r
     end).
Proof.
  intros Hf Hd. assert (H := run_mm_convI v key b n m 1%Z Hf Hd).
  destruct (enc o v key) as [its|e|]; cbn [memb_conv].
  - destruct H as (out & H & Hp). rewrite H. exists (out ++ nl_str), 1%Z. split; [rewrite app_assoc; reflexivity|].
    apply padded_post; [exact Hp|apply pad_nl1].
  - destruct H as (e' & b' & H). rewrite H. eexists _, _. reflexivity.
  - exact H.
Qed.

Lemma member_indent_conv et vv b n m t : vdepth vv <= fuel -> text_dom o vv = true ->
  memb_conv b n m (member_enc o et vv) (member_indent ext et vv b indent (Z.of_nat n) (pdg n) m t).
Proof.
  intros Hf Hd.
  destruct vv as [x|x| |z|z|z|x|x|mm|l]; try (apply memb_conv_plain; assumption).
  destruct mm as [|[tag val] [|kv mm]]; cbn [member_enc member_indent].
  - apply memb_conv_nl; assumption.
  - apply memb_conv_plain.
    + pose proof (member_depth et (VMap [(tag, val)])) as Hm. cbn [member_call snd] in Hm. lia.
    + exact (member_dom o et (VMap [(tag, val)]) Hd).
  - apply memb_conv_nl; assumption.
Qed.

(* the loop over the members against the model's concat_res *)
Lemma members_indent_conv et : forall l b n m t,
  (forall vv, In vv l -> vdepth vv <= fuel) -> forallb (text_dom o) l = true ->
  memb_conv b n m (concat_res (map (member_enc o et) l)) (any_members_indent ext et l b indent (Z.of_nat n) (pdg n) m t).
Proof.
  induction l as [|vv l IH]; intros b n m t Hf Hd.
  - cbn [map concat_res any_members_indent memb_conv]. exists [], t. rewrite app_nil_r. split; [reflexivity|constructor; constructor].
  - cbn [forallb] in Hd. apply andb_true_iff in Hd. destruct Hd as [Hd1 Hd2].
    cbn [map concat_res any_members_indent].
    assert (H := member_indent_conv et vv b n m t (Hf vv (or_introl eq_refl)) Hd1).
    destruct (member_enc o et vv) as [a|e|]; cbn [bind memb_conv] in H |- *.
    + destruct H as (out1 & t1 & H & Hp1). rewrite H.
      assert (IH' := IH (b ++ out1) n m t1 (fun x Hx => Hf x (or_intror Hx)) Hd2).
      destruct (concat_res (map (member_enc o et) l)) as [body|e|]; cbn [bind memb_conv] in IH' |- *.
      * destruct IH' as (out2 & t2 & IH' & Hp2). exists (out1 ++ out2), t2. rewrite app_assoc.
        split; [exact IH'|apply padded_app; assumption].
      * exact IH'.
      * exact IH'.
    + destruct H as (e' & r' & H). rewrite H. eexists _, _. reflexivity.
    + exact H.
Qed.

(* what the translated AnyXmlIndent returns against what the model of AnyXml returns *)
Definition anyi_conv (r : res (list item)) (x : ctl unit (str * option err)) : Prop :=
  match r with
  | Ok its => exists out, x = Ret (out, None) /\ padded its out
  | Err _ => exists e b, x = Ret (b, Some e)
  | Panic => False
  end.

Variable dec : str -> xdecoder.

Lemma anyi_is_model v rt et : (is_map v = true -> g_xmlCheckIsValid st = false) ->
  vdepth v <= fuel -> text_dom o v = true ->
  anyi_conv (any_xml_items o v rt et) (any_xml_indent_spec (run_xmlindent ext dec st) ext ind st v prefix indent rt et).
Proof.
  intros Hv Hf Hd.
  destruct v as [x|x| |z|z|z|x|x|mm|l].
  1,2,4,5,6,7,8:
    (cbn [any_xml_items any_xml_indent_spec];
     match goal with |- anyi_conv (enc _ ?v ?k) _ =>
       assert (H := run_mm_convI v k [] 0 0%Z 0%Z Hf Hd); rewrite pdg_0 in H; change (Z.of_nat 0) with 0%Z in H;
       destruct (enc o v k) as [its|e|]; cbn [anyi_conv] end;
     [destruct H as (out & H & Hp); rewrite H; exists out; split; [reflexivity|exact Hp]
     |destruct H as (e' & b' & H); exists e', b'; rewrite H; reflexivity
     |exact H]).
  - (* nil: the prefix, the empty element *)
    cbn [any_xml_items any_xml_indent_spec anyi_conv].
    destruct Hview as (_ & _ & _ & _ & Hg).
    exists (pdg 0 ++ emit (close_or_empty o rt []) ++ []). split; [|apply padded_coe; [apply pad_pdg1|constructor]].
    rewrite pdg_0, app_nil_r. unfold close_or_empty. rewrite Hg.
    destruct (g_useGoXmlEmptyElemSyntax st); cbn [emit flat_map emit1 emit_attrs]; rewrite ?app_nil_r, <- ?app_assoc; reflexivity.
  - (* Map: Map.XmlIndent with the one root tag *)
    cbn [any_xml_items any_xml_indent_spec map_xml_items].
    rewrite (map_xmlindent_code_one_tag ext dec st mm prefix indent rt (Hv eq_refl)).
    assert (H := run_mm_convI (VMap mm) rt [] 0 0%Z 0%Z Hf Hd). rewrite pdg_0 in H. change (Z.of_nat 0) with 0%Z in H.
    destruct (enc o (VMap mm) rt) as [its|e|]; cbn [anyi_conv].
    + destruct H as (out & H & Hp). rewrite H. exists out. split; [reflexivity|exact Hp].
    + destruct H as (e' & b' & H). rewrite H. exists e', b'. reflexivity.
    + exact H.
  - (* list *)
    rewrite any_items_list. cbn [any_xml_indent_spec].
    assert (E := ind_S prefix indent ind Hind 0%Z 0 0%Z). rewrite pdg_0 in E. change (Z.of_nat 0) with 0%Z in E. rewrite E. clear E.
    assert (HF := vdepth_list_le_members l).
    assert (H := members_indent_conv et l (s "<" ++ rt ++ hx "3e0a") 1 0%Z 0%Z
                   (fun vv Hin => Nat.le_trans _ _ _ (HF vv Hin) Hf) Hd).
    destruct (concat_res (map (member_enc o et) l)) as [body|e|]; cbn [bind anyi_conv memb_conv] in H |- *.
    + destruct H as (out & t' & H & Hp). rewrite H. eexists. split; [reflexivity|]. apply padded_wrapped. exact Hp.
    + destruct H as (e' & [[[[[b' i'] c'] p'] m'] t'] & H). rewrite H. exists e', []. reflexivity.
    + exact H.
Qed.

(* the exact shape of what a list returns: "<rt>" and a newline WITHOUT the prefix, the padded members, "</rt>" without the prefix
   and with nothing after it *)
Lemma anyi_list_shape l rt et body : vdepth (VList l) <= fuel -> text_dom o (VList l) = true ->
  concat_res (map (member_enc o et) l) = Ok body ->
  exists mid,
    any_xml_indent_spec (run_xmlindent ext dec st) ext ind st (VList l) prefix indent rt et =
      Ret (s "<" ++ rt ++ s ">" ++ nl_str ++ mid ++ s "</" ++ rt ++ s ">", None) /\
    padded body mid.
Proof.
  intros Hf Hd Eb. cbn [any_xml_indent_spec].
  assert (E := ind_S prefix indent ind Hind 0%Z 0 0%Z). rewrite pdg_0 in E. change (Z.of_nat 0) with 0%Z in E. rewrite E. clear E.
  assert (HF := vdepth_list_le_members l).
  assert (H := members_indent_conv et l (s "<" ++ rt ++ hx "3e0a") 1 0%Z 0%Z
                 (fun vv Hin => Nat.le_trans _ _ _ (HF vv Hin) Hf) Hd).
  rewrite Eb in H. cbn [memb_conv] in H. destruct H as (out & t' & H & Hp). rewrite H. exists out. split; [|exact Hp].
  unfold nl_str. rewrite <- ?app_assoc. cbn [app]. rewrite <- ?app_assoc. reflexivity.
Qed.
End Indent.

(* ------------------------------------------------------------------ statements *)

(* 1. AnyXmlIndent WRITES THE ITEMS AnyXml WRITES, WITH ONLY PADDING BETWEEN THEM.  The translated AnyXmlIndent, with the translated
   Map encoder as its encoder (run with fuel above the depth of the value; escapeChars = any function computing the model's
   escape_chars; sort.Sort = sort_by_key on the rows; xml.Marshal / MarshalIndent arbitrary, not reached), pretty.Indent / Outdent any
   functions with the two equations of Indent / Outdent, and the translated Map.XmlIndent over the same encoder (any tokenizer),
   the validity check off when the value is a Map (it is not consulted otherwise): on EVERY value of the domain (Maps, lists,
   scalars, nil), every prefix, indent and tag list,
   - when any_xml_items returns items its it returns (out, nil) with [padded prefix indent its out];
   - when any_xml_items returns an error it returns an error result;
   - any_xml_items never says Panic and the code never Crashes. *)
Theorem any_xml_indent_code_is_padded : forall o st, enc_view st o ->
  forall escf, (forall x, escf x = escape_chars x) ->
  forall ind outd,
  (forall i c p m t, ind i c p m t = (i, (c + 1)%Z, p ++ i, m, t)) ->
  (forall i c p m t, (0 <= c)%Z -> outd i (c + 1)%Z (p ++ i) m t = (i, c, p, m, t)) ->
  forall xm xmi dec fuel xmi' v prefix indent tags,
  (is_map v = true -> g_xmlCheckIsValid st = false) -> vdepth v <= fuel -> text_dom o v = true ->
  let rt := fst (any_tags tags) in
  let et := snd (any_tags tags) in
  let enc_code := PureG27.run_mm escf ind outd xm xmi st fuel in
  let code := fn_AnyXmlIndent (run_xmlindent enc_code dec st) enc_code ind xmi' st v prefix indent tags in
  (forall its, any_xml_items o v rt et = Ok its -> exists out, code = Ret (out, None) /\ padded prefix indent its out) /\
  (forall e, any_xml_items o v rt et = Err e -> exists e' b, code = Ret (b, Some e')) /\
  any_xml_items o v rt et <> Panic /\
  code <> Crash.
Proof.
  intros o st Hview escf Hesc ind outd Hind Houtd xm xmi dec fuel xmi' v prefix indent tags Hv Hf Hd rt et enc_code code.
  assert (H := anyi_is_model st o Hview escf Hesc prefix indent ind outd Hind Houtd xm xmi fuel dec v rt et Hv Hf Hd).
  assert (E : code = any_xml_indent_spec (run_xmlindent enc_code dec st) enc_code ind st v prefix indent rt et)
    by apply any_xml_indent_code_structure.
  fold enc_code in H. rewrite <- E in H. clear E.
  destruct (any_xml_items o v rt et) as [its|e|]; cbn [anyi_conv] in H.
  - split; [intros its' E; injection E as <-; exact H|]. split; [intros e E; discriminate E|].
    split; [discriminate|destruct H as (out & H & _); rewrite H; discriminate].
  - split; [intros its' E; discriminate E|]. split; [intros e' E; exact H|].
    split; [discriminate|destruct H as (e' & b & H); rewrite H; discriminate].
  - destruct H.
Qed.

(* 1'. TRANSLATED CODE ONLY: AnyXmlIndent over the translated Map.XmlIndent over the translated encoder over the translated
   escapeChars, pretty.Indent and pretty.Outdent *)
Theorem any_xml_indent_code_is_padded_all_translated : forall o st, enc_view st o ->
  forall xm xmi dec fuel xmi' v prefix indent tags,
  (is_map v = true -> g_xmlCheckIsValid st = false) -> vdepth v <= fuel -> text_dom o v = true ->
  let rt := fst (any_tags tags) in
  let et := snd (any_tags tags) in
  let enc_code := PureG27.run_mm (run_escapeChars st) (run_Indent st) (run_Outdent st) xm xmi st fuel in
  let code := fn_AnyXmlIndent (run_xmlindent enc_code dec st) enc_code (run_Indent st) xmi' st v prefix indent tags in
  (forall its, any_xml_items o v rt et = Ok its -> exists out, code = Ret (out, None) /\ padded prefix indent its out) /\
  (forall e, any_xml_items o v rt et = Err e -> exists e' b, code = Ret (b, Some e')) /\
  any_xml_items o v rt et <> Panic /\
  code <> Crash.
Proof.
  intros o st Hview.
  exact (any_xml_indent_code_is_padded o st Hview (run_escapeChars st) (run_escapeChars_eq st) (run_Indent st) (run_Outdent st)
           (run_Indent_eq st) (run_Outdent_eq st)).
Qed.

(* 2. AnyXmlIndent AGAINST AnyXml, both translated, no model in the statement: when AnyXml (compact: the translated Map.Xml, the
   same encoder) returns (b, nil), b = emit its for items its of which AnyXmlIndent returns a padded rendering; when AnyXml returns
   an error so does AnyXmlIndent (a list: both return no bytes) *)
Theorem any_xml_indent_code_pads_any_xml_code : forall st, g_xmlCheckIsValid st = false ->
  forall xm xmi dec fuel xm' xmi' v prefix indent tags,
  vdepth v <= fuel -> text_dom (state_opts st) v = true ->
  let enc_code := PureG27.run_mm (run_escapeChars st) (run_Indent st) (run_Outdent st) xm xmi st fuel in
  let compact := fn_AnyXml (run_xml enc_code dec st) enc_code xm' st v tags in
  let indented := fn_AnyXmlIndent (run_xmlindent enc_code dec st) enc_code (run_Indent st) xmi' st v prefix indent tags in
  (exists its out, compact = Ret (emit its, None) /\ indented = Ret (out, None) /\ padded prefix indent its out) \/
  (exists e b e' b', compact = Ret (b, Some e) /\ indented = Ret (b', Some e')).
Proof.
  intros st Hv xm xmi dec fuel xm' xmi' v prefix indent tags Hf Hd enc_code compact indented.
  pose proof (state_opts_enc_view st) as Hview.
  destruct (any_xml_code_is_model_all_translated (state_opts st) st Hview Hv (run_Indent st) (run_Outdent st) xm xmi dec fuel xm' v tags Hf Hd)
    as (C1 & C2 & _ & _).
  destruct (any_xml_indent_code_is_padded_all_translated (state_opts st) st Hview xm xmi dec fuel xmi' v prefix indent tags (fun _ => Hv) Hf Hd)
    as (I1 & I2 & Hnp & _).
  cbv zeta in C1, C2, I1, I2, Hnp. fold enc_code in C1, C2, I1, I2. fold compact in C1, C2. fold indented in I1, I2.
  destruct (any_xml_items (state_opts st) v (fst (any_tags tags)) (snd (any_tags tags))) as [its|e|].
  - left. destruct (I1 its eq_refl) as (out & HI & Hp). exists its, out. split; [exact (C1 its eq_refl)|]. split; assumption.
  - right. destruct (C2 e eq_refl) as (e1 & b1 & HC). destruct (I2 e eq_refl) as (e2 & b2 & HI). exists e1, b1, e2, b2. split; assumption.
  - destruct (Hnp eq_refl).
Qed.

(* 3. the gap form (Spec/Items.v: insert_ws; the form under which Props/C03.v decodes the document): the bytes are
   emit (insert_ws ws its), every ws i a pad; with a prefix and an indent of blanks the decoder trims, ws is ws_ok *)
Theorem any_xml_indent_code_insert_ws : forall o st, enc_view st o ->
  forall xm xmi dec fuel xmi' v prefix indent tags its,
  (is_map v = true -> g_xmlCheckIsValid st = false) -> vdepth v <= fuel -> text_dom o v = true ->
  any_xml_items o v (fst (any_tags tags)) (snd (any_tags tags)) = Ok its ->
  let enc_code := PureG27.run_mm (run_escapeChars st) (run_Indent st) (run_Outdent st) xm xmi st fuel in
  exists ws,
    fn_AnyXmlIndent (run_xmlindent enc_code dec st) enc_code (run_Indent st) xmi' st v prefix indent tags =
      Ret (emit (insert_ws ws its), None) /\
    (forall j, pad_ok prefix indent (ws j)) /\
    (forall o', ws_str o' prefix = true -> ws_str o' indent = true -> ws_str o' nl_str = true -> ws_ok o' ws).
Proof.
  intros o st Hview xm xmi dec fuel xmi' v prefix indent tags its Hv Hf Hd E enc_code.
  destruct (any_xml_indent_code_is_padded_all_translated o st Hview xm xmi dec fuel xmi' v prefix indent tags Hv Hf Hd) as (H1 & _).
  destruct (H1 its E) as (out & H & Hp).
  destruct (padded_gaps prefix indent its out Hp) as (ws & Hws & ->).
  exists ws. split; [exact H|]. split; [exact Hws|].
  intros o' H1' H2 H3 j. unfold ws_str. apply (pad_ok_forallb _ prefix indent (ws j) H1' H2 H3 (Hws j)).
Qed.

(* 4. the exact frame of a LIST: "<rt>" newline ... "</rt>", neither tag with the prefix, nothing after the end tag; between them
   the padded members *)
Theorem any_xml_indent_list_shape : forall o st, enc_view st o ->
  forall xm xmi dec fuel xmi' l prefix indent tags body,
  vdepth (VList l) <= fuel -> text_dom o (VList l) = true ->
  concat_res (map (member_enc o (snd (any_tags tags))) l) = Ok body ->
  let rt := fst (any_tags tags) in
  let enc_code := PureG27.run_mm (run_escapeChars st) (run_Indent st) (run_Outdent st) xm xmi st fuel in
  any_xml_items o (VList l) rt (snd (any_tags tags)) = Ok (IOpen rt [] :: body ++ [IClose rt]) /\
  exists mid,
    fn_AnyXmlIndent (run_xmlindent enc_code dec st) enc_code (run_Indent st) xmi' st (VList l) prefix indent tags =
      Ret (s "<" ++ rt ++ s ">" ++ nl_str ++ mid ++ s "</" ++ rt ++ s ">", None) /\
    padded prefix indent body mid.
Proof.
  intros o st Hview xm xmi dec fuel xmi' l prefix indent tags body Hf Hd Eb rt enc_code.
  split; [rewrite any_items_list, Eb; reflexivity|].
  rewrite any_xml_indent_code_structure.
  exact (anyi_list_shape st o Hview (run_escapeChars st) (run_escapeChars_eq st) prefix indent (run_Indent st) (run_Outdent st)
           (run_Indent_eq st) (run_Outdent_eq st) xm xmi fuel dec l rt (snd (any_tags tags)) body Hf Hd Eb).
Qed.

(* 5. on an error a LIST returns no bytes (Go: `return nil, err`), for EVERY encoder, Map.XmlIndent and pretty.Indent *)
Theorem any_xml_indent_code_list_error : forall xmlpi ext pind xmi st l prefix indent tags b e,
  fn_AnyXmlIndent xmlpi ext pind xmi st (VList l) prefix indent tags = Ret (b, Some e) -> b = [].
Proof.
  intros xmlpi ext pind xmi st l prefix indent tags b e H. rewrite any_xml_indent_code_structure in H. cbn [any_xml_indent_spec] in H.
  destruct (pind indent 0%Z prefix 0%Z 0%Z) as [[[[i c] p] m] t].
  destruct (any_members_indent ext _ l _ _ _ _ _ _) as [[[e'|] [[[[[b' i'] c'] p'] m'] t']]|]; [|discriminate H|discriminate H].
  injection H as <- _. reflexivity.
Qed.

Print Assumptions any_xml_indent_code_is_padded.
Print Assumptions any_xml_indent_code_is_padded_all_translated.
Print Assumptions any_xml_indent_code_pads_any_xml_code.
Print Assumptions any_xml_indent_code_insert_ws.
Print Assumptions any_xml_indent_list_shape.
Print Assumptions any_xml_indent_code_list_error.

(* ------------------------------------------------------------------ non-vacuity; the layout findings *)

Definition ex_encI (st : gstate) (fuel : nat) : mm_ext :=
  PureG27.run_mm (run_escapeChars st) (run_Indent st) (run_Outdent st) no_marshal no_marshal_indent st fuel.
Definition ex_anyI (st : gstate) (fuel : nat) (v : value) (prefix indent : str) (tags : list str) : ctl unit (str * option err) :=
  fn_AnyXmlIndent (run_xmlindent (ex_encI st fuel) PureG27.ex_dec st) (ex_encI st fuel) (run_Indent st) no_marshal_indent st v prefix indent tags.

(* PureG27's ex_list (a single-entry Map member, a scalar, a two-entry Map member with an attribute, a nested list, nil, the empty
   Map), prefix ">", indent "  ", two tags: every hypothesis of the statements holds, the items are those of AnyXml
   (any_xml_example), and these are the bytes *)
Example any_xml_indent_padded_example :
  enc_view gstate0 opts0 /\ (is_map ex_list = true -> g_xmlCheckIsValid gstate0 = false) /\ text_dom opts0 ex_list = true /\
  vdepth ex_list <= 3 /\
  any_xml_items opts0 ex_list (s "r1") (s "e2") =
    Ok [IOpen (s "r1") []; IOpen (s "a") []; IText (s "1"); IClose (s "a"); IOpen (s "e2") []; IText (s "5"); IClose (s "e2");
        IOpen (s "e2") [(s "b", s "3")]; IOpen (s "a") []; IText (s "x<y"); IClose (s "a"); IClose (s "e2");
        IOpen (s "e2") []; IText (s "1"); IClose (s "e2"); IEmpty (s "e2") []; IEmpty (s "e2") []; IEmpty (s "e2") [];
        IClose (s "r1")] /\
  ex_anyI gstate0 3 ex_list (s ">") (s "  ") [s "r1"; s "e2"] =
    Ret (s "<r1>" ++ nl_str ++
         s ">  <a>1</a>" ++ nl_str ++
         s ">  <e2>5</e2>" ++ nl_str ++
         s ">  <e2 b=""3"">" ++ nl_str ++
         s ">    <a>x<y</a>" ++ nl_str ++
         s ">  </e2>" ++ nl_str ++
         s ">    <e2>1</e2>" ++ nl_str ++
         s ">    <e2/>" ++ nl_str ++
         s ">  <e2/>" ++ nl_str ++
         s ">  <e2/>" ++ nl_str ++
         s "</r1>", None).
Proof.
  split; [repeat split|]. split; [intros _; reflexivity|]. split; [reflexivity|]. split; [vm_compute; lia|].
  split; vm_compute; reflexivity.
Qed.

(* nil, a scalar and a Map get the prefix in front of the root tag (and a Map before its end tag); a list does not.  A single-key
   Map whose value is a list - the input on which Map.XmlIndent's own root rule differs from Map.Xml's - is written under the
   root tag AnyXmlIndent passes, with or without tags, and its items are AnyXml's *)
Example any_xml_indent_roots_example :
  ex_anyI gstate0 1 VNil (s ">") (s "  ") [] = Ret (s "><doc/>", None) /\
  ex_anyI (with_useGoXmlEmptyElemSyntax true gstate0) 1 VNil (s ">") (s "  ") [s "a"] = Ret (s "><a></a>", None) /\
  ex_anyI gstate0 1 (VInt 7) (s ">") (s "  ") [] = Ret (s "><doc>7</doc>", None) /\
  ex_anyI gstate0 1 (VList []) (s ">") (s "  ") [] = Ret (s "<doc>" ++ nl_str ++ s "</doc>", None) /\
  (let v := VMap [(s "a", VList [VInt 1; VInt 2])] in
   text_dom opts0 v = true /\ vdepth v <= 3 /\ g_xmlCheckIsValid gstate0 = false /\
   any_xml_items opts0 v (s "doc") (s "element") =
     Ok [IOpen (s "doc") []; IOpen (s "a") []; IText (s "1"); IClose (s "a"); IOpen (s "a") []; IText (s "2"); IClose (s "a"); IClose (s "doc")] /\
   PureG27.ex_any gstate0 3 v [] = Ret (s "<doc><a>1</a><a>2</a></doc>", None) /\
   ex_anyI gstate0 3 v (s ">") (s "  ") [] =
     Ret (s "><doc>" ++ nl_str ++ s ">  <a>1</a>" ++ nl_str ++ s ">  <a>2</a>" ++ nl_str ++ s "></doc>", None) /\
   ex_anyI gstate0 3 v (s ">") (s "  ") [s "r"; s "e"] =
     Ret (s "><r>" ++ nl_str ++ s ">  <a>1</a>" ++ nl_str ++ s ">  <a>2</a>" ++ nl_str ++ s "></r>", None)).
Proof.
  cbv zeta. do 4 (split; [vm_compute; reflexivity|]). split; [reflexivity|]. split; [vm_compute; lia|]. split; [reflexivity|].
  repeat split; vm_compute; reflexivity.
Qed.

(* LAYOUT FINDING (b), inside the pad language.  p.start = 1, set for the two-entry Map member, is still in effect for the
   single-entry Map member {c: 3} that follows (only the default arm writes p.start = 0): the encoder writes its newline when
   cnt > start, 1 > 1 is false, and "<c>3</c>" is followed directly by the padding of the next member.  The same member is followed
   by a newline when nothing before it set p.start, or after a non-Map member has reset it (the last member here).
   /repo's Go code returns exactly these bytes (checked with a scratch module). *)
Example any_xml_indent_stale_start_example :
  let v := VList [VMap [(s "a", VInt 1); (s "b", VInt 2)]; VMap [(s "c", VInt 3)]; VInt 5; VMap [(s "c", VInt 3)]] in
  text_dom opts0 v = true /\ vdepth v <= 3 /\
  any_xml_items opts0 v (s "r") (s "e") =
    Ok [IOpen (s "r") []; IOpen (s "e") []; IOpen (s "a") []; IText (s "1"); IClose (s "a"); IOpen (s "b") []; IText (s "2"); IClose (s "b");
        IClose (s "e"); IOpen (s "c") []; IText (s "3"); IClose (s "c"); IOpen (s "e") []; IText (s "5"); IClose (s "e");
        IOpen (s "c") []; IText (s "3"); IClose (s "c"); IClose (s "r")] /\
  ex_anyI gstate0 3 v (s ">") (s "  ") [s "r"; s "e"] =
    Ret (s "<r>" ++ nl_str ++
         s ">  <e>" ++ nl_str ++
         s ">    <a>1</a>" ++ nl_str ++
         s ">    <b>2</b>" ++ nl_str ++
         s ">  </e>" ++ nl_str ++
         s ">  <c>3</c>>  <e>5</e>" ++ nl_str ++
         s ">  <c>3</c>" ++ nl_str ++
         s "</r>", None) /\
  ex_anyI gstate0 3 (VList [VMap [(s "c", VInt 3)]; VInt 5]) (s ">") (s "  ") [s "r"; s "e"] =
    Ret (s "<r>" ++ nl_str ++ s ">  <c>3</c>" ++ nl_str ++ s ">  <e>5</e>" ++ nl_str ++ s "</r>", None).
Proof. cbv zeta. split; [reflexivity|]. split; [vm_compute; lia|]. repeat split; vm_compute; reflexivity. Qed.

(* an invalid attribute value: the model says Err; a list returns NO bytes and the error, a Map the bytes written so far *)
Example any_xml_indent_example_error :
  let l := VList [VInt 1; VMap [(s "a", VMap [(s "-x", VList [])])]; VInt 2] in
  let m := VMap [(s "a", VMap [(s "-x", VList [])])] in
  text_dom opts0 l = true /\ vdepth l <= 4 /\ text_dom opts0 m = true /\ vdepth m <= 4 /\
  any_xml_items opts0 l (s "doc") (s "element") = Err EOther /\ ex_anyI gstate0 4 l (s ">") (s "  ") [] = Ret ([], Some EOther) /\
  any_xml_items opts0 m (s "doc") (s "element") = Err EOther /\
  ex_anyI gstate0 4 m (s ">") (s "  ") [] = Ret (s "><doc>" ++ nl_str ++ s ">  <a", Some EOther).
Proof. cbv zeta. split; [reflexivity|]. split; [vm_compute; lia|]. split; [reflexivity|]. split; [vm_compute; lia|]. repeat split; vm_compute; reflexivity. Qed.

(* the values x tag lists of PureG27's differential test (and the single-key Map with a list value), three blank prefix / indent
   pairs: dropping the XML whitespace characters from the indented bytes and from the compact bytes of the translated AnyXml gives
   the same string; both return an error on the same inputs *)
Definition drop_ws (b : str) : str := filter (fun c => negb (xml_ws_char c)) b.
Definition ex_sameI (prefix indent : str) (v : value) (tags : list str) : bool :=
  match ex_anyI gstate0 50 v prefix indent tags, PureG27.ex_any gstate0 50 v tags with
  | Ret (b, None), Ret (b', None) => str_eqb (drop_ws b) (drop_ws b')
  | Ret (_, Some _), Ret (_, Some _) => true
  | _, _ => false
  end.
Example any_xml_indent_examples_agree :
  forallb (fun pi => forallb (fun v => forallb (ex_sameI (fst pi) (snd pi) v) [[]; [s "root"]; [s "r1"; s "e2"]; [s "a"; s "b"; s "c"]])
    [ VNil; VInt 3; VStr (s "x<y"); VList []; VList [VInt 1; VStr (s "a")];
      VList [VMap [(s "a", VInt 1)]; VInt 5; VMap [(s "a", VInt 2); (s "b", VInt 3)]; VList [VInt 1; VInt 2]];
      VMap [(s "a", VInt 1)]; VMap [(s "a", VInt 1); (s "b", VNil)]; VMap [];
      VList [VMap [(s "-k", VMap [])]; VInt 2];
      VMap [(s "a", VMap [(s "-k", VMap [])])]; VMap [(s "a", VList [VInt 1; VInt 2])]; ex_list ])
    [([], []); ([], s "  "); (s " ", hx "09")] = true.
Proof. vm_compute. reflexivity. Qed.
