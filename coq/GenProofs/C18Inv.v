(* C18 - the invariant of the option state (T5): definition, preservation by every call of the property's
   domain, reachability, totality of the setters under it, and idempotence of the key-prefix setter (T3). *)
From Coq Require Import Lia.
From Mxj Require Import Gen.GenSupport Gen.Setters_gen GenProofs.C18G GenProofs.C18Idem.
Local Open Scope string_scope.
Local Open Scope list_scope.

(* ------------------------------------------------------------------ *)
(* strings.ReplaceAll(k, k[0:1], new) on a key whose first character does not occur again *)

Lemma split_aux_absent : forall (c : ascii) (x cur : str),
  ~ In c x -> split_aux [c] x 0 cur = [rev cur ++ x].
Proof.
  intros c x. induction x as [|a x IH]; intros cur Hc.
  - cbn. rewrite app_nil_r. reflexivity.
  - cbn [split_aux prefixb].
    assert (Hne : Ascii.eqb c a = false).
    { apply Ascii.eqb_neq. intro E. apply Hc. left. symmetry. exact E. }
    rewrite Hne. cbn [andb].
    rewrite IH by (intro Hin; apply Hc; right; exact Hin).
    cbn [rev]. rewrite <- app_assoc. reflexivity.
Qed.

Lemma rekey_prefixed : forall (c : ascii) (suf new : str),
  ~ In c suf -> rekey new (c :: suf) = new ++ suf.
Proof.
  intros c suf new Hc. unfold rekey, replace_all. cbn [firstn].
  unfold split. cbn [split_aux prefixb]. rewrite Ascii.eqb_refl. cbn [andb length Nat.sub rev].
  rewrite split_aux_absent by exact Hc. reflexivity.
Qed.

Definition key_suffixes : list str :=
  [s"text"; s"seq"; s"comment"; s"attr"; s"directive"; s"procinst"; s"target"; s"inst"].

Lemma puncts_length : length puncts = 32%nat.
Proof. reflexivity. Qed.

Lemma puncts_not_in_suffixes :
  forallb (fun p => forallb (fun suf => negb (mem_ascii p suf)) key_suffixes) puncts = true.
Proof. vm_compute. reflexivity. Qed.

Lemma mem_ascii_In : forall c l, mem_ascii c l = true <-> In c l.
Proof.
  intros c l. unfold mem_ascii. rewrite existsb_exists. split.
  - intros [x [Hx E]]. apply Ascii.eqb_eq in E. subst x. exact Hx.
  - intros H. exists c. split; [exact H | apply Ascii.eqb_refl].
Qed.

Lemma rekey_punct : forall p new suf,
  In p puncts -> In suf key_suffixes -> rekey new (p :: suf) = new ++ suf.
Proof.
  intros p new suf Hp Hs. apply rekey_prefixed.
  pose proof puncts_not_in_suffixes as H. rewrite forallb_forall in H. specialize (H p Hp).
  rewrite forallb_forall in H. specialize (H suf Hs). apply negb_true_iff in H.
  intro Hin. apply mem_ascii_In in Hin. rewrite Hin in H. discriminate H.
Qed.

(* ------------------------------------------------------------------ *)
(* the invariant                                                        *)

Definition keys_at (p : ascii) (st : gstate) : Prop :=
  g_textK st = p :: s"text" /\ g_seqK st = p :: s"seq" /\ g_commentK st = p :: s"comment" /\
  g_attrK st = p :: s"attr" /\ g_directiveK st = p :: s"directive" /\ g_procinstK st = p :: s"procinst" /\
  g_targetK st = p :: s"target" /\ g_instK st = p :: s"inst".

Definition Inv (st : gstate) : Prop :=
  g_lenAttrPrefix st = Z.of_nat (length (g_attrPrefix st)) /\
  g_trimRunes st = (if g_disableTrimWhiteSpace st then hx"090d080a" else hx"090d080a20") /\
  ~ (g_xmlEscapeChars st = true /\ g_xmlEscapeCharsDecoder st = true) /\
  (32 <= g_defaultArraySize st)%Z /\
  g_fieldSep st <> [] /\
  exists p, In p puncts /\ keys_at p st.

(* the calls of the property's domain: the key prefix is one punctuation character; nothing else is restricted *)
Definition call_ok (c : call) : bool :=
  match c with
  | C_SetGlobalKeyMapPrefix [p] => mem_ascii p puncts
  | C_SetGlobalKeyMapPrefix _ => false
  | _ => true
  end.

Definition hist_ok (h : list call) : Prop := forallb call_ok h = true.

Fixpoint run (h : list call) (st : gstate) : option gstate :=
  match h with
  | [] => Some st
  | c :: t => match apply_call st c with Some st' => run t st' | None => None end
  end.

Lemma hist_ok_spec : forall h,
  hist_ok h <-> (forall a, In (C_SetGlobalKeyMapPrefix a) h -> exists p, In p puncts /\ a = [p]).
Proof.
  intros h. unfold hist_ok. rewrite forallb_forall. split.
  - intros H a Hin. specialize (H _ Hin). destruct a as [|p [|q r]]; try discriminate H.
    cbn [call_ok] in H. exists p. split; [apply mem_ascii_In; exact H | reflexivity].
  - intros H c Hc.
    destruct c as [a|a|a|a|a|a|a|a|a|a|a|a|a|a|a|a|a|a|a| | |a|a|a|a]; try reflexivity.
    destruct (H a Hc) as [p [Hp E]]. subst a. cbn [call_ok]. apply mem_ascii_In. exact Hp.
Qed.

Lemma Inv_init : Inv gstate0.
Proof.
  unfold Inv. cbn.
  split; [reflexivity|]. split; [reflexivity|].
  split; [intros [Ha _]; discriminate Ha|].
  split; [lia|]. split; [discriminate|].
  exists "#"%char. split; [vm_compute; auto 40|].
  unfold keys_at. cbn. repeat split.
Qed.

Lemma keys_nonempty : forall p st, keys_at p st -> forallb nonempty (key_list st) = true.
Proof.
  intros p st (H1 & H2 & H3 & H4 & H5 & H6 & H7 & H8).
  unfold key_list. rewrite H1, H2, H3, H4, H5, H6, H7, H8. reflexivity.
Qed.

Lemma keys_step : forall p0 p st,
  In p0 puncts -> keys_at p0 st -> keys_at p (map_keys (rekey [p]) st).
Proof.
  intros p0 p st Hp0 (H1 & H2 & H3 & H4 & H5 & H6 & H7 & H8).
  unfold keys_at, map_keys. cbn -[rekey s].
  rewrite H1, H2, H3, H4, H5, H6, H7, H8.
  rewrite !(rekey_punct p0) by (try exact Hp0; unfold key_suffixes; cbn [In]; auto 10).
  repeat split.
Qed.

(* the same for an arbitrary new prefix string (used for the characterisation only) *)
Definition keys_with (pre : str) (st : gstate) : Prop :=
  g_textK st = pre ++ s"text" /\ g_seqK st = pre ++ s"seq" /\ g_commentK st = pre ++ s"comment" /\
  g_attrK st = pre ++ s"attr" /\ g_directiveK st = pre ++ s"directive" /\ g_procinstK st = pre ++ s"procinst" /\
  g_targetK st = pre ++ s"target" /\ g_instK st = pre ++ s"inst".

Lemma keys_step_gen : forall p0 new st,
  In p0 puncts -> keys_at p0 st -> keys_with new (map_keys (rekey new) st).
Proof.
  intros p0 new st Hp0 (H1 & H2 & H3 & H4 & H5 & H6 & H7 & H8).
  unfold keys_with, map_keys. cbn -[rekey s app].
  rewrite H1, H2, H3, H4, H5, H6, H7, H8.
  rewrite !(rekey_punct p0) by (try exact Hp0; unfold key_suffixes; cbn [In]; auto 10).
  repeat split.
Qed.

Lemma SetGlobalKeyMapPrefix_inv_char : forall st p0 new,
  In p0 puncts -> keys_at p0 st ->
  exists st', set_SetGlobalKeyMapPrefix st new = Some st' /\ keys_with new st'.
Proof.
  intros st p0 new Hp0 Hk. exists (map_keys (rekey new) st). split.
  - rewrite SetGlobalKeyMapPrefix_char, (keys_nonempty p0 st Hk). reflexivity.
  - exact (keys_step_gen p0 new st Hp0 Hk).
Qed.

Lemma keys_fix : forall p st, In p puncts -> keys_at p st -> map_keys (rekey [p]) st = st.
Proof.
  intros p st Hp (H1 & H2 & H3 & H4 & H5 & H6 & H7 & H8).
  apply st_ext. unfold fields, map_keys. cbn -[rekey s].
  rewrite H1, H2, H3, H4, H5, H6, H7, H8.
  rewrite !(rekey_punct p) by (try exact Hp; unfold key_suffixes; cbn [In]; auto 10).
  reflexivity.
Qed.

Ltac char_rewrite H :=
  cbn [apply_call] in H;
  rewrite ?XMLEscapeChars_char, ?XMLEscapeCharsDecoder_char, ?SetArraySize_char, ?LeafUseDotNotation_char,
          ?SetFieldSeparator_char, ?SetGlobalKeyMapPrefix_char, ?PrependAttrWithHyphen_char,
          ?IncludeTagSeqNum_char, ?CoerceKeysToLower_char, ?DisableTrimWhiteSpace_char, ?SetAttrPrefix_char,
          ?CoerceKeysToSnakeCase_char, ?CastValuesToInt_char, ?HandleXMPPStreamTag_char,
          ?DecodeSimpleValuesAsMap_char, ?CastNanInf_char, ?CastValuesToFloat_char, ?CastValuesToBool_char,
          ?SetCheckTagToSkipFunc_char, ?XmlGoEmptyElemSyntax_char, ?XmlDefaultEmptyElemSyntax_char,
          ?XmlCheckIsValid_char in H.

(* the components a call does not touch are carried over by conversion *)
Ltac inv_split HI :=
  let Hlen := fresh "Hlen" in let Htrim := fresh "Htrim" in let Hesc := fresh "Hesc" in
  let Hsz := fresh "Hsz" in let Hsep := fresh "Hsep" in let Hkeys := fresh "Hkeys" in
  destruct HI as (Hlen & Htrim & Hesc & Hsz & Hsep & Hkeys);
  unfold Inv;
  split; [try exact Hlen | split; [try exact Htrim | split; [try exact Hesc | split; [try exact Hsz | split; [try exact Hsep | try exact Hkeys]]]]].

Lemma inv_step : forall st c st',
  Inv st -> call_ok c = true -> apply_call st c = Some st' -> Inv st'.
Proof.
  intros st c st' HI Hok H.
  destruct c as [a|a|a|a|a|a|a|a|a|a|a|a|a|a|a|a|a|a|a| | |a|a|a|a]; char_rewrite H; unfold toggle_spec in H.
  - (* XMLEscapeChars *)
    injection H as H; subst st'. inv_split HI. cbn.
    destruct (arg_or (negb (g_xmlEscapeChars st)) a), (g_xmlEscapeCharsDecoder st); cbn; intros [Ha Hb]; discriminate.
  - (* XMLEscapeCharsDecoder *)
    injection H as H; subst st'. inv_split HI. unfold set_escdec. cbn.
    destruct (arg_or (negb (g_xmlEscapeCharsDecoder st)) a), (g_xmlEscapeChars st); cbn; intros [Ha Hb]; discriminate.
  - (* SetArraySize *)
    injection H as H; subst st'. inv_split HI. cbn. lia.
  - injection H as H; subst st'. exact HI.
  - (* SetFieldSeparator *)
    injection H as H; subst st'. inv_split HI. cbn.
    destruct a as [|[|ch x] r]; cbn; discriminate.
  - (* SetGlobalKeyMapPrefix [p] *)
    destruct a as [|p [|q r]]; try discriminate Hok. cbn [call_ok] in Hok. apply mem_ascii_In in Hok.
    destruct (forallb nonempty (key_list st)); [|discriminate H].
    injection H as H; subst st'. inv_split HI.
    destruct Hkeys as (p0 & Hp0 & Hk). exists p. split; [exact Hok|]. exact (keys_step p0 p st Hp0 Hk).
  - (* PrependAttrWithHyphen *)
    injection H as H; subst st'. inv_split HI. reflexivity.
  - destruct a as [|x [|y r]]; injection H as H; subst st'; exact HI.
  - destruct a as [|x [|y r]]; injection H as H; subst st'; exact HI.
  - (* DisableTrimWhiteSpace *)
    injection H as H; subst st'. inv_split HI. reflexivity.
  - (* SetAttrPrefix *)
    injection H as H; subst st'. inv_split HI. reflexivity.
  - destruct a as [|x [|y r]]; injection H as H; subst st'; exact HI.
  - destruct a as [|x [|y r]]; injection H as H; subst st'; exact HI.
  - destruct a as [|x [|y r]]; injection H as H; subst st'; exact HI.
  - destruct a as [|x [|y r]]; injection H as H; subst st'; exact HI.
  - destruct a as [|x [|y r]]; injection H as H; subst st'; exact HI.
  - destruct a as [|x [|y r]]; injection H as H; subst st'; exact HI.
  - destruct a as [|x [|y r]]; injection H as H; subst st'; exact HI.
  - injection H as H; subst st'. exact HI.
  - injection H as H; subst st'. exact HI.
  - injection H as H; subst st'. exact HI.
  - destruct a as [|x [|y r]]; injection H as H; subst st'; exact HI.
  - injection H as H; subst st'. exact HI.
  - injection H as H; subst st'. exact HI.
  - injection H as H; subst st'. exact HI.
Qed.

Lemma inv_run : forall h st st', Inv st -> hist_ok h -> run h st = Some st' -> Inv st'.
Proof.
  intros h. induction h as [|c t IH]; intros st st' HI Hh Hr.
  - cbn in Hr. injection Hr as Hr. subst st'. exact HI.
  - unfold hist_ok in Hh. cbn [forallb] in Hh. apply andb_true_iff in Hh. destruct Hh as [Hc Ht].
    cbn [run] in Hr. destruct (apply_call st c) as [st1|] eqn:Ea; [|discriminate Hr].
    apply (IH st1 st'); [exact (inv_step st c st1 HI Hc Ea) | exact Ht | exact Hr].
Qed.

Theorem inv_reachable : forall h st, hist_ok h -> run h gstate0 = Some st -> Inv st.
Proof. intros h st Hh Hr. exact (inv_run h gstate0 st Inv_init Hh Hr). Qed.

Theorem setters_total : forall st c, Inv st -> call_ok c = true -> apply_call st c <> None.
Proof.
  intros st c HI Hok H.
  destruct c as [a|a|a|a|a|a|a|a|a|a|a|a|a|a|a|a|a|a|a| | |a|a|a|a]; char_rewrite H; unfold toggle_spec in H;
    try discriminate H;
    try (destruct a as [|x [|y r]]; discriminate H).
  (* SetGlobalKeyMapPrefix: the keys are non-empty under the invariant *)
  destruct HI as (_ & _ & _ & _ & _ & p0 & _ & Hk). rewrite (keys_nonempty p0 st Hk) in H. discriminate H.
Qed.

(* a well-formed history never panics *)
Theorem run_total : forall h st, Inv st -> hist_ok h -> run h st <> None.
Proof.
  intros h. induction h as [|c t IH]; intros st HI Hh.
  - cbn. discriminate.
  - unfold hist_ok in Hh. cbn [forallb] in Hh. apply andb_true_iff in Hh. destruct Hh as [Hc Ht].
    cbn [run]. destruct (apply_call st c) as [st1|] eqn:Ea.
    + apply IH; [exact (inv_step st c st1 HI Hc Ea) | exact Ht].
    + exfalso. exact (setters_total st c HI Hc Ea).
Qed.

(* outside the domain: emptying the key prefix repeatedly eats the keys and the fifth call panics
   (textK[0:1] on an empty string) *)
Example keyprefix_panic_reachable :
  run (repeat (C_SetGlobalKeyMapPrefix []) 4) gstate0 <> None /\
  run (repeat (C_SetGlobalKeyMapPrefix []) 5) gstate0 = None.
Proof. split; [vm_compute; discriminate | vm_compute; reflexivity]. Qed.

(* ------------------------------------------------------------------ *)
(* T3 - idempotence, every explicit form                                *)

Theorem set_idempotent : forall st c st1,
  Inv st -> explicit c = true -> apply_call st c = Some st1 -> apply_call st1 c = Some st1.
Proof.
  intros st c st1 HI He H.
  destruct (is_keyprefix c) eqn:Ek; [|exact (set_idempotent_any_state st c st1 He Ek H)].
  destruct c as [a|a|a|a|a|a|a|a|a|a|a|a|a|a|a|a|a|a|a| | |a|a|a|a]; try discriminate Ek.
  destruct a as [|p [|q r]]; try discriminate He. cbn [explicit] in He. apply mem_ascii_In in He.
  destruct HI as (_ & _ & _ & _ & _ & p0 & Hp0 & Hk).
  cbn [apply_call] in *. rewrite SetGlobalKeyMapPrefix_char in *.
  rewrite (keys_nonempty p0 st Hk) in H. injection H as H. subst st1.
  pose proof (keys_step p0 p st Hp0 Hk) as Hk1.
  rewrite (keys_nonempty p _ Hk1). f_equal. exact (keys_fix p _ He Hk1).
Qed.

(* outside the domain idempotence fails: a two-character prefix grows on the second call *)
Example keyprefix_not_idempotent_outside_domain :
  exists st1 st2, apply_call gstate0 (C_SetGlobalKeyMapPrefix (s"ab")) = Some st1 /\
                  apply_call st1 (C_SetGlobalKeyMapPrefix (s"ab")) = Some st2 /\
                  g_textK st1 = s"abtext" /\ g_textK st2 = s"abbtext".
Proof.
  exists (map_keys (rekey (s"ab")) gstate0), (map_keys (rekey (s"ab")) (map_keys (rekey (s"ab")) gstate0)).
  split; [vm_compute; reflexivity|]. split; [vm_compute; reflexivity|]. split; vm_compute; reflexivity.
Qed.
