(* The functions go2v translated from /repo's CURRENT keyvalues.go (Gen/Pure_gen.v: parsePath, getSubKeyMap, hasSubKeys,
   Map.PathForKeyShortest) ARE the hand-written model functions of Model/KeyValues.v / Spec/KeySearch.v.  Every theorem
   about [parse_path], [get_sub_key_map], [has_sub_keys] and [shortest] (C07, C08, C09, C10, C15, C20) is thereby re-checked
   against what the code says on this run. *)
From Coq Require Import Lia.
From Mxj Require Import Gen.GenSupport Gen.Setters_gen Gen.PureSupport Gen.Pure_gen Model.KeyValues Spec.KeySearch.
From Mxj Require Import Proofs.StrLemmas GenProofs.PureG.

(* ------------------------------------------------------------------ strings.Split / strings.Index on one-byte patterns *)

Lemma split_aux_single c x : forall cur, split_aux [c] x 0 cur = split1_aux c x cur.
Proof.
  induction x as [|a x IH]; intros cur; [reflexivity|].
  cbn [split_aux split1_aux prefixb length Nat.sub]. rewrite Bool.andb_true_r, (Ascii.eqb_sym c a).
  destruct (Ascii.eqb a c); [f_equal|]; apply IH.
Qed.
Lemma go_split_single x c : go_split x [c] = split1 c x.
Proof. unfold go_split, split, split1. apply split_aux_single. Qed.

Lemma index_from_single c x : forall i, (0 <= i)%Z ->
  (index_from [c] x i <? 0)%Z = negb (mem_ascii c x).
Proof.
  induction x as [|a x IH]; intros i Hi; [reflexivity|].
  cbn [index_from prefixb]. unfold mem_ascii. cbn [existsb]. rewrite Bool.andb_true_r.
  destruct (Ascii.eqb c a); cbn [orb negb].
  - apply Z.ltb_ge. exact Hi.
  - apply IH. lia.
Qed.
Lemma go_index_single x c : (go_index x [c] <? 0)%Z = negb (mem_ascii c x).
Proof. apply index_from_single. lia. Qed.

(* ------------------------------------------------------------------ Map.PathForKeyShortest *)

Lemma seg_lt p q :
  (Z.of_nat (length (go_split p (s "."))) <? Z.of_nat (length (go_split q (s "."))))%Z = (seg_count p <? seg_count q).
Proof.
  change (s ".") with [dot]. rewrite !go_split_single. unfold seg_count.
  destruct (Nat.ltb_spec (length (split1 dot p)) (length (split1 dot q))); [apply Z.ltb_lt|apply Z.ltb_ge]; lia.
Qed.

Lemma shortest_loop (body : (str * Z) -> str -> ctl (str * Z) str) :
  (forall best p, body (best, Z.of_nat (length (go_split best (s ".")))) p =
     Next (if seg_count p <? seg_count best then (p, Z.of_nat (length (go_split p (s ".")))) else (best, Z.of_nat (length (go_split best (s ".")))))) ->
  forall ps best, range_loop body ps (best, Z.of_nat (length (go_split best (s ".")))) =
                  Next (shortest_from best ps, Z.of_nat (length (go_split (shortest_from best ps) (s ".")))).
Proof.
  intros Hb. induction ps as [|p ps IH]; intros best; [reflexivity|].
  cbn [range_loop shortest_from]. rewrite Hb. destruct (seg_count p <? seg_count best); apply IH.
Qed.

Theorem shortest_code_is_model : forall (ext : entries -> str -> list str) st mv key,
  fn_PathForKeyShortest ext st mv key = Ret (shortest (ext mv key)).
Proof.
  intros ext st mv key. unfold fn_PathForKeyShortest. cbv zeta.
  destruct (ext mv key) as [|p [|q ps]]; try reflexivity.
  replace (Z.eqb (Z.of_nat (length (p :: q :: ps))) 0) with false by (symmetry; apply Z.eqb_neq; cbn [length]; lia).
  replace (Z.eqb (Z.of_nat (length (p :: q :: ps))) 1) with false by (symmetry; apply Z.eqb_neq; cbn [length]; lia).
  cbn [bindc nth_error skipn].
  match goal with |- context [range_loop ?f _ _] => rewrite (shortest_loop f) end; [reflexivity|].
  intros best x. cbv zeta. rewrite seg_lt. destruct (seg_count x <? seg_count best); reflexivity.
Qed.

(* ------------------------------------------------------------------ getSubKeyMap *)

Definition of_res {S A} (r : res A) (k : A -> ctl S (res A)) : ctl S (res A) :=
  match r with Ok a => k a | Err e => Ret (Err e) | Panic => Crash end.

Lemma sub_key_loop pf sep (body : entries -> str -> ctl entries (res entries)) :
  (forall m v, body m v = match sub_key_entry pf sep v with
                          | Ok (k, x) => Next (set k x m) | Err e => Ret (Err e) | Panic => Crash end) ->
  forall kv m, range_loop body kv m = match get_sub_key_map_aux pf sep kv m with
                                      | Ok m' => Next m' | Err e => Ret (Err e) | Panic => Crash end.
Proof.
  intros Hb. induction kv as [|v kv IH]; intros m; [reflexivity|].
  cbn [range_loop get_sub_key_map_aux]. rewrite Hb.
  destruct (sub_key_entry pf sep v) as [[k x]| |]; [apply IH|reflexivity|reflexivity].
Qed.

Theorem get_sub_key_map_code_is_model : forall pf st kv,
  g_fieldSep st <> [] ->
  fn_getSubKeyMap pf st kv =
    match get_sub_key_map pf (g_fieldSep st) kv with Ok m => Ret (Ok m) | Err e => Ret (Err e) | Panic => Crash end.
Proof.
  intros pf st kv Hsep. unfold fn_getSubKeyMap, get_sub_key_map.
  destruct kv as [|v0 kv0]; [reflexivity|].
  replace (Z.eqb (Z.of_nat (length (v0 :: kv0))) 0) with false by (symmetry; apply Z.eqb_neq; cbn [length]; lia).
  cbn [bindc]. cbv zeta.
  match goal with |- context [range_loop ?f _ _] => rewrite (sub_key_loop pf (g_fieldSep st) f) end.
  - destruct (get_sub_key_map_aux pf (g_fieldSep st) (v0 :: kv0) []); reflexivity.
  - intros m v. cbv zeta. unfold sub_key_entry, go_split.
    destruct (g_fieldSep st) as [|c0 sep0] eqn:Es; [congruence|].
    destruct (split (c0 :: sep0) v) as [|a [|b [|c [|d l]]]]; try reflexivity.
    + (* three fields *)
      cbn [length nth_error].
      change (existsb (Z.eqb (Z.of_nat 3)) [2%Z]) with false. change (existsb (Z.eqb (Z.of_nat 3)) [3%Z]) with true.
      cbv beta iota.
      destruct (existsb (str_eqb c) [s "string"; s "char"; s "text"]); [reflexivity|].
      destruct (existsb (str_eqb c) [s "bool"; s "boolean"]).
      * destruct (parse_bool b); reflexivity.
      * destruct (existsb (str_eqb c) [s "float"; s "float64"; s "num"; s "number"; s "numeric"]); [|reflexivity].
        destruct (pf b); reflexivity.
    + (* four or more fields *)
      cbn [length].
      replace (existsb (Z.eqb (Z.of_nat (S (S (S (S (length l))))))) [2%Z]) with false
        by (symmetry; cbn [existsb]; rewrite Bool.orb_false_r; apply Z.eqb_neq; lia).
      replace (existsb (Z.eqb (Z.of_nat (S (S (S (S (length l))))))) [3%Z]) with false
        by (symmetry; cbn [existsb]; rewrite Bool.orb_false_r; apply Z.eqb_neq; lia).
      reflexivity.
Qed.

(* ------------------------------------------------------------------ parsePath *)

Definition to_key (k : pkey) : t_key := mk_key (pk_name k) (pk_arr k) (pk_pos k).

Lemma parse_path_loop (body : list t_key -> str -> ctl (list t_key) (res (list t_key))) :
  (forall acc, body acc [] = Next acc) ->
  (forall acc seg, seg <> [] -> body acc seg = match parse_seg seg with
                                                | Ok k => Next (acc ++ [to_key k]) | Err e => Ret (Err e) | Panic => Crash end) ->
  forall segs acc, range_loop body segs acc = match parse_path_segs segs with
                                              | Ok ks => Next (acc ++ map to_key ks) | Err e => Ret (Err e) | Panic => Crash end.
Proof.
  intros He Hb. induction segs as [|seg segs IH]; intros acc.
  - cbn. rewrite app_nil_r. reflexivity.
  - destruct seg as [|c seg].
    + cbn [range_loop parse_path_segs]. rewrite He. apply IH.
    + cbn [range_loop]. rewrite Hb by discriminate.
      change (parse_path_segs ((c :: seg) :: segs))
        with (bind (parse_seg (c :: seg)) (fun k => bind (parse_path_segs segs) (fun ks => Ok (k :: ks)))).
      destruct (parse_seg (c :: seg)) as [k| |]; cbn [bind]; try reflexivity.
      rewrite IH. destruct (parse_path_segs segs) as [ks| |]; cbn [bind map]; try reflexivity.
      rewrite <- app_assoc. reflexivity.
Qed.

Theorem parse_path_code_is_model : forall st path,
  fn_parsePath st path =
    match parse_path path with Ok ks => Ret (Ok (map to_key ks)) | Err e => Ret (Err e) | Panic => Crash end.
Proof.
  intros st path. unfold fn_parsePath, parse_path. cbv zeta.
  change (s ".") with [dot]. rewrite go_split_single. cbn [skipn].
  match goal with |- context [range_loop ?f _ _] => rewrite (parse_path_loop f) end.
  - destruct (parse_path_segs (split1 dot path)); reflexivity.
  - intros acc. reflexivity.
  - intros acc seg Hne.
    destruct seg as [|c0 seg0]; [congruence|]. set (seg := c0 :: seg0). cbn [str_eqb].
    change (s "[") with [lbr]. change (s "]") with [rbr]. rewrite go_index_single, !go_split_single.
    unfold parse_seg. fold seg.
    destruct (mem_ascii lbr seg); cbn [negb]; [|reflexivity].
    destruct (split1 lbr seg) as [|name [|p1 rest]]; cbn [nth_error]; try reflexivity.
    rewrite go_split_single.
    destruct (split1 rbr p1) as [|idx rest2]; cbn [nth_error]; [reflexivity|].
    destruct idx as [|i0 idx0]; cbn [str_eqb bindc]; [reflexivity|].
    destruct (parse_int 32 (i0 :: idx0)) as [z|]; cbn [negb bindc]; [|reflexivity].
    destruct (z <? 0)%Z; reflexivity.
Qed.

(* ------------------------------------------------------------------ hasSubKeys *)

Lemma bang_prefix (A : Type) (k : str) (f : str -> A) (g : A) :
  match k with "!"%char :: t => f t | _ => g end = if prefixb (s "!") k then f (skipn 1 k) else g.
Proof.
  destruct k as [|c t]; [reflexivity|].
  cbn [prefixb s list_ascii_of_string skipn]. rewrite Bool.andb_true_r.
  destruct c as [[] [] [] [] [] [] [] []]; reflexivity.
Qed.

Lemma has_sub_keys_loop mv (body : unit -> str * value -> ctl unit bool) :
  (forall kv, body tt kv = if sub_key_ok mv kv then Next tt else Ret false) ->
  forall sk, range_loop body sk tt = if forallb (sub_key_ok mv) sk then Next tt else Ret false.
Proof.
  intros Hb. induction sk as [|kv sk IH]; [reflexivity|].
  cbn [range_loop forallb]. rewrite Hb. destruct (sub_key_ok mv kv); [apply IH|reflexivity].
Qed.

Ltac sym_eqbs :=
  repeat match goal with
         | |- context [str_eqb ?a ?b] =>
             tryif constr_eq a b then fail else
             match goal with |- context [str_eqb b a] => rewrite (str_eqb_sym b a) end
         end.
Ltac crush_vals :=
  repeat (cbn [bindc negb andb orb fst snd Bool.eqb]; sym_eqbs;
    first [ reflexivity
          | match goal with
            | |- context [if ?b then _ else _] => is_atom b; destruct b
            | |- context [match ?o with Some _ => _ | None => _ end] => is_atom o; destruct o
            | |- context [match ?v with VStr _ => _ | _ => _ end] => is_var v; destruct v
            | |- context [Bool.eqb ?b _] => is_var b; destruct b
            | |- context [Bool.eqb _ ?b] => is_var b; destruct b
            | |- context [andb ?b _] => is_atom b; destruct b
            | |- context [orb ?b _] => is_atom b; destruct b
            | |- context [negb ?b] => is_atom b; destruct b
            end ]).

Theorem has_sub_keys_code_is_model : forall st v subkeys,
  fn_hasSubKeys st v subkeys = Ret (has_sub_keys v subkeys).
Proof.
  intros st v subkeys. unfold fn_hasSubKeys, has_sub_keys.
  destruct subkeys as [|kv0 sk0]; [reflexivity|].
  replace (Z.eqb (Z.of_nat (length (kv0 :: sk0))) 0) with false by (symmetry; apply Z.eqb_neq; cbn [length]; lia).
  cbn [bindc].
  destruct v as [x|b| |z|z|z|f|x|mv|l]; try reflexivity.
  cbv zeta.
  match goal with |- context [range_loop ?f _ _] => rewrite (has_sub_keys_loop mv f) end.
  - destruct (forallb (sub_key_ok mv) (kv0 :: sk0)); reflexivity.
  - intros [skey0 sval]. unfold sub_key_ok, is_star_val, sub_val_matches, go_has_prefix, flt_eqb, star.
    cbv zeta. rewrite bang_prefix. change ["*"%char] with (s "*").
    destruct (prefixb (s "!") skey0) eqn:Ep; cbn [bindc].
    + assert (Hl : Nat.ltb (length skey0) 1 = false).
      { destruct skey0; [discriminate|]. reflexivity. }
      rewrite Hl. generalize (skipn 1 skey0) as skey. intros skey.
      crush_vals.
    + crush_vals.
Qed.

(* ------------------------------------------------------------------ consequences: the translated code never panics *)
From Mxj Require Import Proofs.C07P.

Corollary parse_path_code_no_panic : forall st path, fn_parsePath st path <> Crash.
Proof.
  intros st path. rewrite parse_path_code_is_model. pose proof (parse_path_no_panic path) as H.
  destruct (parse_path path); [discriminate|discriminate|congruence].
Qed.
Corollary get_sub_key_map_code_no_panic : forall pf st kv, g_fieldSep st <> [] -> fn_getSubKeyMap pf st kv <> Crash.
Proof.
  intros pf st kv Hs. rewrite get_sub_key_map_code_is_model by exact Hs.
  pose proof (get_sub_key_map_no_panic pf (g_fieldSep st) kv) as H.
  destruct (get_sub_key_map pf (g_fieldSep st) kv); [discriminate|discriminate|congruence].
Qed.
Corollary has_sub_keys_code_no_panic : forall st v sk, fn_hasSubKeys st v sk <> Crash.
Proof. intros. rewrite has_sub_keys_code_is_model. discriminate. Qed.
Corollary shortest_code_no_panic : forall ext st mv key, fn_PathForKeyShortest ext st mv key <> Crash.
Proof. intros. rewrite shortest_code_is_model. discriminate. Qed.
