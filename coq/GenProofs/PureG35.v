(* files.go as go2v translated it from /repo's CURRENT sources (Gen/Pure_gen.v):
     NewMapsFromJsonFile (files.go:21) and NewMapsFromXmlFile (files.go:86)
   - os.Stat / fi.Mode().IsRegular() / os.Open, then the loop around NewMapJsonReaderRaw / NewMapXmlReaderRaw -
   ARE the model of Model/Reader.v (maps_loop / drop_raw; new_maps_from_json_file / new_maps_from_xml_file over the
   schedule of an *os.File), for ANY reader function and ANY behaviour of os.Stat / os.Open.

   Environment of the translation: ext_os_Stat name = Err e (Stat failed) | Ok b (b: a regular file);
   ext_os_Open name = Err e | Ok S (S: the schedule of Read results the opened file delivers);
   the reader callee is nil-aware: Some ((m, raw, err), reader afterwards), m = None for the nil Map; None = it panicked.
   Result: ctl unit (list entries * option err): the Maps collected TOGETHER with the error. *)
From Mxj Require Import Gen.GenSupport Gen.Setters_gen Gen.PureSupport Gen.Pure_gen Model.Reader.
From Mxj Require Import Spec.StreamSpec Proofs.C13P Proofs.C13H Proofs.C13Top Proofs.C15XApi.
Import ListNotations.

(* ------------------------------------------------------------------ conversions *)

(* a reader function of the model as the nil-aware callee of the translation:
   Ok (VMap m) = (m, raw, nil); Ok VNil = (nil, raw, nil) - and so is Ok of any value that is not a Map, which no reader
   returns (the translated callee cannot express it; see maps_of below); Err e = (nil, raw, e); Panic / None = a panic *)
Definition conv_next (next : list rev -> option (res value * str * list rev)) (sc : list rev)
  : option ((option entries * str * option err) * list rev) :=
  match next sc with
  | None => None
  | Some (Panic, _, _) => None
  | Some (Ok (VMap m), raw, sc') => Some ((Some m, raw, None), sc')
  | Some (Ok _, raw, sc') => Some ((None, raw, None), sc')
  | Some (Err e, raw, sc') => Some ((None, raw, Some e), sc')
  end.

(* the Maps among the values the model collected (the model keeps every non-nil value; a reader returns Maps only) *)
Fixpoint maps_of (vs : list value) : list entries :=
  match vs with
  | [] => []
  | VMap m :: t => m :: maps_of t
  | _ :: t => maps_of t
  end.

(* the model's result as the translation's: None (fuel / the reader gave no answer) and Panic are a Crash *)
Definition conv_out (r : option (list value * res unit)) : ctl unit (list entries * option err) :=
  match r with
  | None => Crash
  | Some (_, Panic) => Crash
  | Some (vs, Ok _) => Ret (maps_of vs, None)
  | Some (vs, Err e) => Ret (maps_of vs, Some e)
  end.

Lemma maps_of_app : forall a b, maps_of (a ++ b) = maps_of a ++ maps_of b.
Proof.
  induction a as [|v a IH]; intro b; [reflexivity|].
  cbn [app maps_of]. destruct v; rewrite ?IH; reflexivity.
Qed.

Lemma maps_of_vmaps : forall ms, maps_of (map VMap ms) = ms.
Proof. induction ms as [|m ms IH]; [reflexivity|]. cbn [map maps_of]. now rewrite IH. Qed.

Lemma maps_of_vmaps_map {A} (f : A -> entries) : forall l, maps_of (map (fun x => VMap (f x)) l) = map f l.
Proof. induction l as [|x l IH]; [reflexivity|]. cbn [map maps_of]. now rewrite IH. Qed.

Definition all_maps (vs : list value) : Prop := Forall (fun v => exists m, v = VMap m) vs.
Lemma all_maps_of : forall vs, all_maps vs -> map VMap (maps_of vs) = vs.
Proof.
  induction 1 as [|v vs [m ->] _ IH]; [reflexivity|]. cbn [maps_of map]. now rewrite IH.
Qed.

(* ------------------------------------------------------------------ the loop *)

(* the body of the translated loop, for a callee c (JSON: the callee itself; XML: the callee applied to no cast argument) *)
Definition file_body (c : list rev -> option ((option entries * str * option err) * list rev))
  : (list rev * list entries) -> ctl (list rev * list entries) (list entries * option err) :=
  fun (st_ : ((list rev) * (list entries))) => let '(l_fh, l_am) := st_ in
    (match (c l_fh) with None => Crash | Some ((l_m, l_raw, l_err_1), l_fh) =>
  bindc (S := unit) (if (negb (match l_err_1 with None => true | Some _ => false end))
    then (if (negb (match l_err_1 with Some EEOF => true | _ => false end))
    then (Ret (l_am, (Some EOther)))
    else (Next tt))
    else (Next tt))
  (fun _ => bindc (S := (list entries)) (if (match l_m with Some _ => true | None => false end)
    then (let l_am := (app l_am [(match l_m with Some m_ => m_ | None => [] end)]) in
  Next l_am)
    else (Next l_am))
  (fun l_am => if (match l_err_1 with Some EEOF => true | _ => false end)
    then (Brk (l_fh, l_am))
    else (Next (l_fh, l_am)))) end : ctl ((list rev) * (list entries)) ((list entries) * (option err))).

(* the translated loop followed by `return am, nil`, from the reader state sc with am collected so far: what the model's
   loop returns from sc with the (Map, raw) pairs amv collected so far - for every fuel, the same on both sides *)
Lemma file_loop_is_model : forall next c, (forall sc, c sc = conv_next next sc) ->
  forall fuel sc amv,
  bindc (for_loop fuel (file_body c) (sc, maps_of (map fst amv)))
        (fun '(l_fh, l_am) => Ret (l_am, None) : ctl unit (list entries * option err))
  = conv_out (drop_raw (maps_loop next fuel amv sc)).
Proof.
  intros next c Hc. induction fuel as [|f IH]; intros sc amv; [reflexivity|].
  cbn [for_loop maps_loop]. unfold file_body at 1. rewrite Hc. unfold conv_next.
  destruct (next sc) as [[[r raw] sc']|]; [|reflexivity].
  destruct r as [v|e|]; [| |reflexivity].
  - assert (Hnext : forall amv', maps_of (map fst amv') = maps_of (map fst amv) ++ match v with VMap m => [m] | _ => [] end ->
        bindc (for_loop f (file_body c) (sc', maps_of (map fst amv) ++ match v with VMap m => [m] | _ => [] end))
              (fun '(l_fh, l_am) => Ret (l_am, None) : ctl unit (list entries * option err))
        = conv_out (drop_raw (maps_loop next f amv' sc'))).
    { intros amv' E. rewrite <- E. apply IH. }
    destruct v; cbn [bindc negb non_nil];
      try (rewrite <- (Hnext (amv ++ [(_, raw)])); [rewrite ?app_nil_r; reflexivity|
           rewrite map_app, maps_of_app; reflexivity]).
    rewrite <- (Hnext amv); [rewrite ?app_nil_r; reflexivity|now rewrite app_nil_r].
  - destruct e; reflexivity.
Qed.

(* ------------------------------------------------------------------ the functions *)

(* what the two functions return, in terms of the model's loop: by cases on os.Stat and os.Open *)
Definition files_model (next : list rev -> option (res value * str * list rev))
    (open : str -> res (list rev)) (stat : str -> res bool) (name : str) : ctl unit (list entries * option err) :=
  match stat name with
  | Panic => Crash
  | Err e => Ret ([], Some e)                       (* return nil, err *)
  | Ok false => Ret ([], Some EOther)               (* return nil, fmt.Errorf("file %s is not a regular file", name) *)
  | Ok true =>
      match open name with
      | Panic => Crash
      | Err e => Ret ([], Some e)                   (* return nil, err *)
      | Ok sc => conv_out (drop_raw (maps_loop next (2 + length sc) [] sc))
      end
  end.

Theorem new_maps_from_json_file_code_is_model : forall next callee open stat st name,
  (forall sc, callee sc = conv_next next sc) ->
  fn_NewMapsFromJsonFile callee open stat st name = files_model next open stat name.
Proof.
  intros next callee open stat st name Hc. unfold fn_NewMapsFromJsonFile, files_model.
  destruct (stat name) as [[|]|e|]; try reflexivity.
  destruct (open name) as [sc|e|]; try reflexivity.
  exact (file_loop_is_model next callee Hc (2 + length sc) sc []).
Qed.
Print Assumptions new_maps_from_json_file_code_is_model.

Theorem new_maps_from_xml_file_code_is_model : forall next callee open stat st name,
  (forall sc, callee sc [] = conv_next next sc) ->
  fn_NewMapsFromXmlFile callee open stat st name = files_model next open stat name.
Proof.
  intros next callee open stat st name Hc. unfold fn_NewMapsFromXmlFile, files_model.
  destruct (stat name) as [[|]|e|]; try reflexivity.
  destruct (open name) as [sc|e|]; try reflexivity.
  exact (file_loop_is_model next (fun sc => callee sc []) Hc (2 + length sc) sc []).
Qed.
Print Assumptions new_maps_from_xml_file_code_is_model.

(* the two translated functions are the same function of their reader callee *)
Theorem xml_file_code_is_json_file_code : forall callee open stat st name,
  fn_NewMapsFromXmlFile callee open stat st name = fn_NewMapsFromJsonFile (fun sc => callee sc []) open stat st name.
Proof. reflexivity. Qed.
Print Assumptions xml_file_code_is_json_file_code.

(* ------------------------------------------------------------------ the model's readers over an *os.File *)

Lemma file_schedule_length : forall X, length (file_schedule X) = length X.
Proof. intro X. apply map_length. Qed.

(* on a regular file that opens and holds the bytes X, the translated functions return what the model's
   new_maps_from_json_file / new_maps_from_xml_file return on X *)
Theorem new_maps_from_json_file_code_on_file : forall nmj callee open stat st name X,
  (forall sc, callee sc = conv_next (new_map_json_reader_raw nmj) sc) ->
  stat name = Ok true -> open name = Ok (file_schedule X) ->
  fn_NewMapsFromJsonFile callee open stat st name = conv_out (new_maps_from_json_file nmj X).
Proof.
  intros nmj callee open stat st name X Hc Hs Ho.
  rewrite (new_maps_from_json_file_code_is_model _ callee open stat st name Hc).
  unfold files_model. rewrite Hs, Ho, file_schedule_length. reflexivity.
Qed.
Print Assumptions new_maps_from_json_file_code_on_file.

Theorem new_maps_from_xml_file_code_on_file : forall (M : xmachine) callee open stat st name X,
  (forall sc, callee sc [] = conv_next (new_map_xml_reader_raw M) sc) ->
  stat name = Ok true -> open name = Ok (file_schedule X) ->
  fn_NewMapsFromXmlFile callee open stat st name = conv_out (new_maps_from_xml_file M X).
Proof.
  intros M callee open stat st name X Hc Hs Ho.
  rewrite (new_maps_from_xml_file_code_is_model _ callee open stat st name Hc).
  unfold files_model. rewrite Hs, Ho, file_schedule_length. reflexivity.
Qed.
Print Assumptions new_maps_from_xml_file_code_on_file.

(* ------------------------------------------------------------------ no Crash *)

(* the reader function always answers; a nil error means it consumed at least one event of the schedule *)
Definition next_total (next : list rev -> option (res value * str * list rev)) : Prop :=
  forall sc, next sc <> None.
Definition next_progress (next : list rev -> option (res value * str * list rev)) : Prop :=
  forall sc v raw sc', next sc = Some (Ok v, raw, sc') -> length sc' < length sc.

Lemma maps_loop_total next : next_total next -> next_progress next ->
  forall fuel am sc, length sc < fuel -> maps_loop next fuel am sc <> None.
Proof.
  intros Ht Hp. induction fuel as [|f IH]; intros am sc Hf; [lia|].
  cbn [maps_loop]. destruct (next sc) as [[[r raw] sc']|] eqn:E; [|exfalso; exact (Ht sc E)].
  destruct r as [v|e|]; [|destruct e; discriminate|discriminate].
  apply IH. pose proof (Hp sc v raw sc' E). lia.
Qed.

Theorem files_model_no_crash : forall next open stat name,
  next_total next -> next_safe next -> next_progress next ->
  stat name <> Panic -> open name <> Panic ->
  exists am e, files_model next open stat name = Ret (am, e).
Proof.
  intros next open stat name Ht Hs Hp Hst Hop. unfold files_model.
  destruct (stat name) as [[|]|e|]; [| |eexists; eexists; reflexivity|contradiction Hst; reflexivity];
    [|eexists; eexists; reflexivity].
  destruct (open name) as [sc|e|]; [|eexists; eexists; reflexivity|contradiction Hop; reflexivity].
  destruct (maps_loop next (2 + length sc) [] sc) as [[vs r]|] eqn:E;
    [|exfalso; revert E; apply (maps_loop_total next Ht Hp); lia].
  pose proof (maps_loop_no_panic next Hs _ _ _ _ E) as Hr. cbn [snd] in Hr.
  cbn [drop_raw conv_out]. destruct r as [u|e|]; [| |contradiction Hr; reflexivity]; eexists; eexists; reflexivity.
Qed.
Print Assumptions files_model_no_crash.

(* the translated functions return (a slice, an error) - no panic, and the loop ends - whenever the reader function
   always answers without a panic and consumes input when it reports no error, and os.Stat / os.Open do not panic *)
Theorem new_maps_from_json_file_code_no_crash : forall next callee open stat st name,
  (forall sc, callee sc = conv_next next sc) ->
  next_total next -> next_safe next -> next_progress next ->
  stat name <> Panic -> open name <> Panic ->
  exists am e, fn_NewMapsFromJsonFile callee open stat st name = Ret (am, e).
Proof.
  intros next callee open stat st name Hc Ht Hs Hp Hst Hop.
  rewrite (new_maps_from_json_file_code_is_model next callee open stat st name Hc).
  now apply files_model_no_crash.
Qed.
Print Assumptions new_maps_from_json_file_code_no_crash.

Theorem new_maps_from_xml_file_code_no_crash : forall next callee open stat st name,
  (forall sc, callee sc [] = conv_next next sc) ->
  next_total next -> next_safe next -> next_progress next ->
  stat name <> Panic -> open name <> Panic ->
  exists am e, fn_NewMapsFromXmlFile callee open stat st name = Ret (am, e).
Proof.
  intros next callee open stat st name Hc Ht Hs Hp Hst Hop.
  rewrite (new_maps_from_xml_file_code_is_model next callee open stat st name Hc).
  now apply files_model_no_crash.
Qed.
Print Assumptions new_maps_from_xml_file_code_no_crash.

(* ---- the hypotheses hold of the model's readers *)

(* a driver whose ReadByte consumes an event whenever it delivers a byte: a result that is not the machine's answer to
   a ReadByte error (good) was produced after at least one byte *)
Lemma drive_progress {R A} (M : machine R) (rb : A -> rbres * A) (src : A -> list rev) (good : R -> bool) :
  (forall a, length (src (snd (rb a))) <= length (src a) /\ (src a <> [] -> length (src (snd (rb a))) < length (src a))) ->
  (forall a, src a = [] -> exists e, fst (rb a) = RBErr e) ->
  (forall st, good (m_eof M st) = false /\ good (m_noprog M st) = false) ->
  forall fuel st a r a', drive M rb fuel st a = Some (r, a') -> good r = true -> length (src a') < length (src a).
Proof.
  intros Hlen Hnil Hbad. induction fuel as [|f IH]; intros st a r a' H Hg; [discriminate H|].
  cbn [drive] in H. destruct (rb a) as [x a1] eqn:E.
  destruct x as [b|[|]].
  - assert (Hlt : length (src a1) < length (src a)).
    { destruct (Hlen a) as [_ H2]. rewrite E in H2. cbn [snd] in H2. apply H2. intro Es.
      destruct (Hnil a Es) as [e He]. rewrite E in He. discriminate He. }
    destruct (m_step M st b) as [st'|r0].
    + pose proof (IH _ _ _ _ H Hg). lia.
    + injection H as <- <-. exact Hlt.
  - injection H as <- _. destruct (Hbad st) as [Hb _]. congruence.
  - injection H as <- _. destruct (Hbad st) as [_ Hb]. congruence.
Qed.

Lemma json_next_progress nmj : next_progress (new_map_json_reader_raw nmj).
Proof.
  intros sc v raw sc' H. unfold new_map_json_reader_raw in H.
  destruct (get_json sc) as [[[b|b e] s1]|] eqn:E; try discriminate H.
  injection H as _ _ <-. unfold get_json in E.
  apply (drive_progress jmachine jr_read_byte (fun a => a) (fun r => match r with JOk _ => true | _ => false end))
    with (fuel := S (length sc)) (st := jinit) (a := sc) (r := JOk b); [| | |exact E|reflexivity].
  - intro a. apply jr_len.
  - intros a ->. eexists. reflexivity.
  - intro st. cbn [m_eof m_noprog jmachine]. unfold jeof. destruct (inJson st && (0 <? parenCnt st)%Z); split; reflexivity.
Qed.
Lemma json_next_total nmj : next_total (new_map_json_reader_raw nmj).
Proof. intro sc. apply (readers_total {| m_st := unit; m_init := tt; m_step := fun _ _ => inr Panic; m_eof := fun _ => Panic; m_noprog := fun _ => Panic |} nmj sc). Qed.

Lemma xml_next_progress (M : xmachine) : eof_is_error M -> next_progress (new_map_xml_reader_raw M).
Proof.
  intros He sc v raw sc' H. unfold new_map_xml_reader_raw in H.
  destruct (drive M tr_read_byte (S (length sc)) (m_init M) (my_tee_reader sc)) as [[r t]|] eqn:E; [|discriminate H].
  injection H as -> _ <-.
  apply (drive_progress M tr_read_byte tr_r is_ok) with (4 := E); [| |exact He|reflexivity].
  - intro a. destruct (tr_loop_len 100 a) as [Ha Hb]. split; [exact Ha|intro Hn; apply Hb; [exact Hn|lia]].
  - intros [w a] Ha. cbn in Ha. subst a. eexists. reflexivity.
Qed.
Lemma xml_next_total (M : xmachine) : next_total (new_map_xml_reader_raw M).
Proof. intro sc. apply (readers_total M (fun _ => Panic) sc). Qed.

(* NewMapsFromJsonFile with the model's NewMapJsonReaderRaw (getJson of json.go over the file, then NewMapJson = nmj):
   a result for every file name, file content and behaviour of os.Stat / os.Open, provided NewMapJson does not panic *)
Theorem json_file_code_no_crash : forall nmj callee open stat st name,
  (forall sc, callee sc = conv_next (new_map_json_reader_raw nmj) sc) ->
  (forall b, nmj b <> Panic) -> stat name <> Panic -> open name <> Panic ->
  exists am e, fn_NewMapsFromJsonFile callee open stat st name = Ret (am, e).
Proof.
  intros nmj callee open stat st name Hc Hn Hst Hop.
  apply (new_maps_from_json_file_code_no_crash (new_map_json_reader_raw nmj)); try assumption.
  - apply json_next_total.
  - intros sc r raw sc' E. apply (json_reader_raw_no_panic nmj sc r raw sc' Hn E).
  - apply json_next_progress.
Qed.
Print Assumptions json_file_code_no_crash.

(* NewMapsFromXmlFile with the model's NewMapXmlReaderRaw over a decoder M that never answers Panic and answers a
   ReadByte error with an error (encoding/xml: io.EOF / a syntax error) *)
Theorem xml_file_code_no_crash : forall (M : xmachine) callee open stat st name,
  (forall sc, callee sc [] = conv_next (new_map_xml_reader_raw M) sc) ->
  machine_safe M -> eof_is_error M -> stat name <> Panic -> open name <> Panic ->
  exists am e, fn_NewMapsFromXmlFile callee open stat st name = Ret (am, e).
Proof.
  intros M callee open stat st name Hc Hm He Hst Hop.
  apply (new_maps_from_xml_file_code_no_crash (new_map_xml_reader_raw M)); try assumption.
  - apply xml_next_total.
  - apply xml_next_raw_safe, Hm.
  - apply xml_next_progress, He.
Qed.
Print Assumptions xml_file_code_no_crash.

(* ------------------------------------------------------------------ files of documents (C13's streams), on the translated code *)

(* the Map a document decodes to *)
Definition doc_map (M : xmachine) (d : str) : entries :=
  match decode_doc M d with Ok (VMap m) => m | _ => [] end.
Definition jdoc_map (nmj : str -> res value) (b : str) : entries :=
  match nmj b with Ok (VMap m) => m | _ => [] end.

Lemma maps_of_doc_val (M : xmachine) d l : is_okmap (decode_doc M d) = true ->
  maps_of (doc_val M d :: l) = doc_map M d :: maps_of l.
Proof. intro H. unfold doc_val, doc_map. destruct (okmap_ok _ H) as [m ->]. reflexivity. Qed.
Lemma maps_of_jdoc_val eh nmj m l : is_okmap (nmj (Json.marshal eh (VMap m))) = true ->
  maps_of (jdoc_val eh nmj m :: l) = jdoc_map nmj (Json.marshal eh (VMap m)) :: maps_of l.
Proof. intro H. unfold jdoc_val, jdoc_map. destruct (okmap_ok _ H) as [mm ->]. reflexivity. Qed.

(* an XML file of documents, blanks before each and after the last one: the documents' Maps, in order, and a nil error *)
Theorem xml_file_code_stream : forall (M : xmachine) ds tail callee open stat st name,
  (forall sc, callee sc [] = conv_next (new_map_xml_reader_raw M) sc) ->
  docs_ok M ds -> eof_on_blanks M -> blank tail = true ->
  stat name = Ok true -> open name = Ok (file_schedule (stream ds tail)) ->
  fn_NewMapsFromXmlFile callee open stat st name = Ret (map (fun wd => doc_map M (snd wd)) ds, None).
Proof.
  intros M ds tail callee open stat st name Hc Hd He Ht Hs Ho.
  rewrite (new_maps_from_xml_file_code_on_file M callee open stat st name _ Hc Hs Ho).
  unfold new_maps_from_xml_file. rewrite (maps_from_xml_file_raw_stream M ds tail Hd He Ht).
  cbn [drop_raw conv_out]. unfold xml_docs. rewrite map_map. cbn [fst]. f_equal. f_equal.
  clear Ho. induction Hd as [|[w d] ds (_ & _ & Hok) _ IH]; [reflexivity|].
  cbn [map snd] in *. rewrite (maps_of_doc_val M d _ Hok). now rewrite IH.
Qed.
Print Assumptions xml_file_code_stream.

(* a JSON file of the texts encoding/json writes for ANY Maps of JSON types, blanks before each and after the last one *)
Theorem json_file_code_stream : forall eh nmj ds tail callee open stat st name,
  (forall sc, callee sc = conv_next (new_map_json_reader_raw nmj) sc) ->
  jdocs_ok eh nmj ds -> blank tail = true ->
  stat name = Ok true -> open name = Ok (file_schedule (jstream eh ds tail)) ->
  fn_NewMapsFromJsonFile callee open stat st name
  = Ret (map (fun wm => jdoc_map nmj (Json.marshal eh (VMap (snd wm)))) ds, None).
Proof.
  intros eh nmj ds tail callee open stat st name Hc Hd Ht Hs Ho.
  rewrite (new_maps_from_json_file_code_on_file nmj callee open stat st name _ Hc Hs Ho).
  unfold new_maps_from_json_file. rewrite (maps_from_json_file_raw_stream eh nmj ds tail Hd Ht).
  cbn [drop_raw conv_out]. unfold json_docs. rewrite map_map. cbn [fst]. f_equal. f_equal.
  clear Ho. induction Hd as [|[w m] ds (_ & _ & Hok) _ IH]; [reflexivity|].
  cbn [map snd] in *. rewrite (maps_of_jdoc_val eh nmj m _ Hok). now rewrite IH.
Qed.
Print Assumptions json_file_code_stream.

(* ------------------------------------------------------------------ non-vacuity: the translated code run on small files *)

Definition ex_nmj (b : str) : res value := Ok (VMap [(s "json", VStr b)]).
Definition ex_env (X : str) (name : str) : res (list rev) := Ok (file_schedule X).
Definition ex_regular (name : str) : res bool := Ok true.

(* two JSON documents and a blank between them; a stray closing brace after the first document: the Map read so far
   together with the error; Stat fails / not a regular file / Open fails: a nil slice and the error *)
Example json_file_code_runs :
  fn_NewMapsFromJsonFile (conv_next (new_map_json_reader_raw ex_nmj)) (ex_env (s "{""a"":1} {""b"":2}")) ex_regular gstate0 (s "f")
    = Ret ([[(s "json", VStr (s "{""a"":1}"))]; [(s "json", VStr (s "{""b"":2}"))]], None) /\
  fn_NewMapsFromJsonFile (conv_next (new_map_json_reader_raw ex_nmj)) (ex_env (s "{""a"":1}} {""b"":2}")) ex_regular gstate0 (s "f")
    = Ret ([[(s "json", VStr (s "{""a"":1}"))]], Some EOther) /\
  fn_NewMapsFromJsonFile (conv_next (new_map_json_reader_raw ex_nmj)) (ex_env (s "{""a"":")) ex_regular gstate0 (s "f")
    = Ret ([], Some EOther) /\
  fn_NewMapsFromJsonFile (conv_next (new_map_json_reader_raw ex_nmj)) (ex_env []) (fun _ => Err ENoRoot) gstate0 (s "f")
    = Ret ([], Some ENoRoot) /\
  fn_NewMapsFromJsonFile (conv_next (new_map_json_reader_raw ex_nmj)) (ex_env []) (fun _ => Ok false) gstate0 (s "f")
    = Ret ([], Some EOther) /\
  fn_NewMapsFromJsonFile (conv_next (new_map_json_reader_raw ex_nmj)) (fun _ => Err ENoRoot) ex_regular gstate0 (s "f")
    = Ret ([], Some ENoRoot).
Proof. repeat split; vm_compute; reflexivity. Qed.

(* the toy decoder of Proofs/C13Top.v: <name> is a document *)
Example xml_file_code_runs :
  fn_NewMapsFromXmlFile (fun sc _ => conv_next (new_map_xml_reader_raw toy) sc) (ex_env (s "<a> <b>")) ex_regular gstate0 (s "f")
    = Ret ([[(s "a", VStr [])]; [(s "b", VStr [])]], None) /\
  fn_NewMapsFromXmlFile (fun sc _ => conv_next (new_map_xml_reader_raw toy) sc) (ex_env (s "<a> <b")) ex_regular gstate0 (s "f")
    = Ret ([[(s "a", VStr [])]], Some EOther).
Proof. repeat split; vm_compute; reflexivity. Qed.

(* the hypothesis eof_is_error of xml_file_code_no_crash is needed: with a decoder that answers the end of the input with
   a nil error the Go loop never ends (the reader function returns (nil, raw, nil) forever); the translation reports the
   exhausted fuel as Crash, the model as None *)
Definition never_eof : xmachine :=
  {| m_st := unit; m_init := tt; m_step := fun _ _ => inl tt; m_eof := fun _ => Ok VNil; m_noprog := fun _ => Ok VNil |}.
Example xml_file_code_needs_eof_error :
  machine_safe never_eof /\
  fn_NewMapsFromXmlFile (fun sc _ => conv_next (new_map_xml_reader_raw never_eof) sc) (ex_env (s "<a>")) ex_regular gstate0 (s "f") = Crash /\
  new_maps_from_xml_file never_eof (s "<a>") = None.
Proof. split; [repeat split; intros; discriminate|]. split; vm_compute; reflexivity. Qed.

(* ------------------------------------------------------------------ nothing is lost in maps_of *)

(* a reader function returns a Map or the nil Map with a nil error (NewMapJson / xmlToMap return Maps) *)
Definition next_maps (next : list rev -> option (res value * str * list rev)) : Prop :=
  forall sc v raw sc', next sc = Some (Ok v, raw, sc') -> v = VNil \/ exists m, v = VMap m.

Lemma maps_loop_all_maps next : next_maps next -> forall fuel am sc out,
  all_maps (map fst am) -> maps_loop next fuel am sc = Some out -> all_maps (map fst (fst out)).
Proof.
  intros Hm. induction fuel as [|f IH]; intros am sc out Ha H; [discriminate H|].
  cbn [maps_loop] in H. destruct (next sc) as [[[r raw] sc']|] eqn:E; [|discriminate H].
  destruct r as [v|e|].
  - apply (IH (if non_nil v then am ++ [(v, raw)] else am) sc' out); [|exact H].
    destruct (Hm _ _ _ _ E) as [->|[m ->]]; cbn [non_nil]; [exact Ha|].
    rewrite map_app. apply Forall_app. split; [exact Ha|]. constructor; [eexists; reflexivity|constructor].
  - destruct e; injection H as <-; exact Ha.
  - injection H as <-; exact Ha.
Qed.

(* for such a reader function the result of the translated code determines the model's: the Maps are the model's values *)
Theorem files_model_exact : forall next open stat name sc am e,
  next_maps next -> stat name = Ok true -> open name = Ok sc ->
  files_model next open stat name = Ret (am, e) ->
  drop_raw (maps_loop next (2 + length sc) [] sc) = Some (map VMap am, match e with None => Ok tt | Some e' => Err e' end).
Proof.
  intros next open stat name sc am e Hm Hs Ho. unfold files_model. rewrite Hs, Ho.
  destruct (maps_loop next (2 + length sc) [] sc) as [[vs r]|] eqn:E; [|discriminate].
  pose proof (maps_loop_all_maps next Hm _ [] _ _ (Forall_nil _) E) as Ha. cbn [fst] in Ha.
  cbn [drop_raw conv_out]. destruct r as [[]|e'|]; intro H; [| |discriminate H];
    injection H as <- <-; now rewrite (all_maps_of _ Ha).
Qed.
Print Assumptions files_model_exact.

(* ------------------------------------------------------------------ tie to Model/Files.v, the model of the C19 theorems *)

From Mxj Require Import Spec.JsonFilesSpec Model.Json Proofs.C13Json Proofs.C19P Proofs.C19ReadsAgree Proofs.C19ReadsDoc.

(* the outcome of a loop without the distinction the two models draw differently (Files.v: LPanic / LFuel; Reader.v: a Panic
   result / None) *)
Definition loop_class {D} (r : loop_res D) : option (list D * bool) :=
  match r with LDone am => Some (am, false) | LErr am => Some (am, true) | _ => None end.
Definition model_class {D} (r : option (list D * res unit)) : option (list D * bool) :=
  match r with Some (am, Ok _) => Some (am, false) | Some (am, Err _) => Some (am, true) | _ => None end.

(* a reader function over schedules and a reader over the unread bytes of a file agree on an *os.File
   (the shape of C19_reader_models_agree) *)
Definition simulates (next : list Reader.rev -> option (res value * str * list Reader.rev)) (take : bytes -> taken bytes mapraw) : Prop :=
  forall b, exists r, next (file_schedule b) = Some (r, snd (t_doc (take b)), file_schedule (t_rest (take b))) /\
                      t_err (take b) = err_class r /\ fst (t_doc (take b)) = map_of r.

(* then so do the two models of the loop, for every fuel *)
Lemma read_loop_is_maps_loop next take : simulates next take -> forall fuel b am,
  loop_class (read_loop take keep_raw fuel b am) = model_class (maps_loop next fuel am (file_schedule b)).
Proof.
  intros Hs. induction fuel as [|f IH]; intros b am; [reflexivity|].
  cbn [read_loop maps_loop]. cbv zeta. destruct (Hs b) as (r & En & Ee & Ed). rewrite En, Ee.
  destruct (t_doc (take b)) as [d raw] eqn:Et. cbn [fst snd] in *. subst d.
  destruct r as [v|e|]; cbn [err_class map_of].
  - unfold keep_raw. cbn [fst]. change (map_not_nil v) with (non_nil v). destruct (non_nil v); apply IH.
  - destruct e; reflexivity.
  - reflexivity.
Qed.

Lemma maps_loop_mono next : forall fuel am sc out,
  maps_loop next fuel am sc = Some out -> maps_loop next (S fuel) am sc = Some out.
Proof.
  induction fuel as [|f IH]; intros am sc out H; [discriminate H|].
  cbn [maps_loop] in H. remember (S f) as g eqn:Eg. cbn [maps_loop]. subst g.
  destruct (next sc) as [[[r raw] sc']|]; [|discriminate H].
  destruct r as [v|e|]; [apply IH; exact H|exact H|exact H].
Qed.

Definition ctl_class (x : ctl unit (list entries * option err)) : option (list entries * bool) :=
  match x with
  | Ret (am, e) => Some (am, match e with Some _ => true | None => false end)
  | _ => None
  end.
Definition fr_class (r : file_res value) : option (list entries * bool) :=
  match r with FR _ am e => Some (maps_of am, e) | _ => None end.

(* NewMapsFromJsonFile as translated, around the model's NewMapJsonReaderRaw (getJson, then NewMapJson over a decoder
   json_dec), on a regular file that opens and holds the bytes b: the Maps and whether there is an error are what the
   C19 theorems' read_all returns on b (Model/Files.v).  The proviso is that of C19_reader_models_agree. *)
Theorem json_file_code_is_files_model : forall json_dec callee open stat st name b,
  (forall j, json_dec j <> Err EEOF) ->
  (forall sc, callee sc = conv_next (Reader.new_map_json_reader_raw (Files.new_map_json json_dec)) sc) ->
  stat name = Ok true -> open name = Ok (file_schedule b) ->
  ctl_class (fn_NewMapsFromJsonFile callee open stat st name)
  = fr_class (read_all (rd_map (json_reader_raw json_dec)) map_not_nil b).
Proof.
  intros dec callee open stat st name b Hd Hc Hs Ho.
  rewrite (new_maps_from_json_file_code_on_file _ callee open stat st name b Hc Hs Ho).
  unfold new_maps_from_json_file, new_maps_from_json_file_raw, Reader.maps_from_file.
  set (next := Reader.new_map_json_reader_raw (Files.new_map_json dec)).
  assert (Hsim : simulates next (json_reader_raw dec)) by (intro b0; apply (readers_agree dec b0 Hd)).
  destruct (maps_loop next (S (length b)) [] (file_schedule b)) as [out|] eqn:E.
  2:{ exfalso. revert E. apply (maps_loop_total next (json_next_total _) (json_next_progress _)).
      rewrite file_schedule_length. lia. }
  change (2 + length b) with (S (S (length b))). rewrite (maps_loop_mono next _ _ _ _ E).
  change (read_all (rd_map (json_reader_raw dec)) map_not_nil b)
    with (new_maps_from_file (json_reader_raw dec) (file_fuel b) (Opened b)).
  rewrite raw_nonraw_agree. unfold new_maps_from_file_raw, Files.maps_from_file, file_fuel.
  pose proof (read_loop_is_maps_loop next (json_reader_raw dec) Hsim (S (length b)) b []) as L.
  unfold mapraw, bytes in *. rewrite E in L.
  destruct out as [vs r].
  match type of L with loop_class ?x = _ => destruct x as [am|am| |] end;
    destruct r as [u|e|]; cbn [loop_class model_class] in L; try discriminate L; try (injection L as <-); reflexivity.
Qed.
Print Assumptions json_file_code_is_files_model.

(* ... and so the round trip of C19 holds of the translated reader: on the file that is the concatenation of the texts of
   ANY Maps of JSON types (Model/Json.v marshal) it returns their decodings, in order, and a nil error *)
Theorem json_file_code_roundtrip : forall json_dec eh (dec : entries -> entries) ms callee open stat st name,
  (forall j, json_dec j <> Err EEOF) ->
  (forall sc, callee sc = conv_next (Reader.new_map_json_reader_raw (Files.new_map_json json_dec)) sc) ->
  Forall (fun m => scan_safe (VMap m) = true /\ json_dec (marshal eh (VMap m)) = Ok (VMap (dec m))) ms ->
  stat name = Ok true -> open name = Ok (file_schedule (concat (map (fun m => marshal eh (VMap m)) ms))) ->
  fn_NewMapsFromJsonFile callee open stat st name = Ret (map dec ms, None).
Proof.
  intros json_dec eh dec ms callee open stat st name Hd Hc Hms Hs Ho.
  pose proof (json_file_code_is_files_model json_dec callee open stat st name _ Hd Hc Hs Ho) as H.
  destruct (json_file_roundtrip json_dec eh dec ms Hms) as [_ R]. rewrite R in H. cbn [fr_class] in H.
  rewrite maps_of_vmaps_map in H.
  destruct (fn_NewMapsFromJsonFile callee open stat st name) as [[am [e|]]| | | |]; try discriminate H.
  injection H as ->. reflexivity.
Qed.
Print Assumptions json_file_code_roundtrip.
