(* mapToXmlSeqIndent (xmlseq.go:609-905, the sequence-preserving encoder behind MapSeq.Xml / XmlIndent / BeautifyXml) as go2v
   translated it (Gen/Pure_gen.v: fn_mapToXmlSeqIndent) from /repo's CURRENT sources, in INDENTED mode (doIndent = true), with
   pretty.Indent / pretty.Outdent (fn_Indent / fn_Outdent) as the pretty functions: it writes the items of the model encoder [senc]
   of Model/SeqEnc.v - the same items as the compact mode (GenProofs/PureG17.v) - with only padding between them (properties
   C04 / C16), for EVERY value of PureG17's domain (text_ok; no_marshal for the error case), with the model's errors and panics.
   NO input was found on which the indented mode writes other items than the compact mode (comments, directives, processing
   instructions, raw "<key" of a nil value and the raw bytes of a scalar under a special key included): the padding is written
   before "<" of a tag / before the raw bytes and before the end tag of an element with sub-elements, the newline after the
   text that precedes sub-elements and after an element when cnt > start - never inside a tag, never between a start tag and
   its text, never between a text and the end tag that follows it directly.  (The Map encoder's defect of PureG28's history -
   padding inside the tag of an empty list member - has no counterpart here: an empty list writes no item at all, in both modes.)

   Definitions.  pdg / pad_ok / nl_str / run_Indent / run_Outdent / pp_reach are PureG28's (imported, not copied).
   [spadded prefix indent its out]: out is the sitems its rendered one by one by semit1 with a pad before every item that is no
   character data and after the last item; character data only directly after its start tag, followed directly by the end tag
   (sp_leaf) or by a newline and what follows (sp_mixed); no padding inside the bytes of any item.

   Method: that of PureG17.v with doIndent = true (pieces si_head, si_mid, si_close, si_map, si_list, si_elem taken out of the
   translated function by Ltac, the recursive occurrence abstracted; PureG17's loop lemmas loop_app / loop_build / loop_attrs /
   loop_snoc, senc_map_eq, kid_list, isort_map reused); the invariant si_conv carries the pretty record (indent, n, pdg n, d, t)
   and the relation spadded; induction on the fuel, which is above the depth of the value (vd).

   Theorems: senc_indent_code_conv (every outcome), senc_indent_code_is_model (any callees with the equations of escapeChars,
   the sort, Indent, Outdent), senc_indent_code_is_model_translated (the translated escapeChars / Less / Indent / Outdent, any
   reachable pretty record), senc_indent_code_returns / _no_panic (every package state), senc_indent_code_marshal_arm (the
   xml.MarshalIndent arm, outside the model), senc_indent_code_gaps (a pad in every gap), senc_indent_code_insert_ws (the bytes are
   semit (insert_ws ws its) of Spec/SeqSpec.v - the form Props/C04.v seq_roundtrip quantifies over - for a prefix and an indent
   made of blanks, tabs, newlines), examples (checked against the real Go code: same bytes). *)
From Coq Require Import Lia.
From Mxj Require Import Gen.GenSupport Gen.Setters_gen Gen.PureSupport Gen.Pure_gen Model.SeqEnc.
From Mxj Require Import GenProofs.PureG GenProofs.PureG3 GenProofs.PureG14 GenProofs.PureG15 GenProofs.PureG17 GenProofs.PureG28.
From Mxj Require Spec.SeqSpec.

(* ------------------------------------------------------------------ 1. spadded *)

Definition is_stext (it : sitem) : bool := match it with SI (IText _) => true | _ => false end.

Section SPad.
Variables prefix indent : str.
Notation pad_ok := (pad_ok prefix indent).

Inductive spadded : list sitem -> str -> Prop :=
| sp_nil w : pad_ok w -> spadded [] w
| sp_item w it its out : pad_ok w -> is_stext it = false -> spadded its out -> spadded (it :: its) (w ++ semit1 it ++ out)
| sp_leaf w n a x n' its out : pad_ok w -> spadded its out ->
    spadded (SI (IOpen n a) :: SI (IText x) :: SI (IClose n') :: its) (w ++ semit [SI (IOpen n a); SI (IText x); SI (IClose n')] ++ out)
| sp_mixed w n a x its out : pad_ok w -> spadded its out ->
    spadded (SI (IOpen n a) :: SI (IText x) :: its) (w ++ semit [SI (IOpen n a); SI (IText x)] ++ nl_str ++ out).

Lemma spadded_pre w0 its out : pad_ok w0 -> spadded its out -> spadded its (w0 ++ out).
Proof.
  intros H0 H. destruct H; try rewrite (app_assoc w0 w).
  - constructor. apply pad_app; assumption.
  - constructor; [apply pad_app| |]; assumption.
  - constructor; [apply pad_app|]; assumption.
  - constructor; [apply pad_app|]; assumption.
Qed.

Lemma spadded_app a oa b ob : spadded a oa -> spadded b ob -> spadded (a ++ b) (oa ++ ob).
Proof.
  intros Ha Hb. induction Ha; cbn [app].
  - apply spadded_pre; assumption.
  - rewrite <- (app_assoc w), <- (app_assoc (semit1 it)). constructor; assumption.
  - rewrite <- (app_assoc w), <- (app_assoc (semit _)). constructor; assumption.
  - rewrite <- (app_assoc w), <- (app_assoc (semit _)), <- (app_assoc nl_str). constructor; assumption.
Qed.

Lemma spadded_one w w' it : pad_ok w -> pad_ok w' -> is_stext it = false -> spadded [it] (w ++ semit [it] ++ w').
Proof.
  intros Hw Hw' Hi. cbn [semit flat_map]. rewrite app_nil_r. apply sp_item; [assumption|assumption|constructor; assumption].
Qed.
Lemma spadded_two w w' it1 it2 : pad_ok w -> pad_ok w' -> is_stext it1 = false -> is_stext it2 = false ->
  spadded [it1; it2] (w ++ semit [it1; it2] ++ w').
Proof.
  intros Hw Hw' H1 H2. cbn [semit flat_map]. rewrite app_nil_r, <- app_assoc.
  apply sp_item; [assumption|assumption|]. apply (sp_item [] it2 [] w'); [constructor|assumption|constructor; assumption].
Qed.
Lemma spadded_three w w' n a x n' : pad_ok w -> pad_ok w' ->
  spadded [SI (IOpen n a); SI (IText x); SI (IClose n')] (w ++ semit [SI (IOpen n a); SI (IText x); SI (IClose n')] ++ w').
Proof. intros Hw Hw'. apply sp_leaf; [assumption|constructor; assumption]. Qed.
Lemma spadded_coe o w w' key attrs : pad_ok w -> pad_ok w' ->
  spadded (map SI (close_or_empty o key attrs)) (w ++ semit (map SI (close_or_empty o key attrs)) ++ w').
Proof.
  intros Hw Hw'. unfold close_or_empty. destruct (useGoXmlEmptyElemSyntax o); cbn [map]; [apply spadded_two|apply spadded_one]; auto.
Qed.
Lemma spadded_scalar o w w' key x : pad_ok w -> pad_ok w' ->
  spadded (scalar_items o key x) (w ++ semit (scalar_items o key x) ++ w').
Proof.
  intros Hw Hw'. unfold scalar_items. destruct (is_special_key o key).
  - apply spadded_one; auto.
  - destruct x; [apply spadded_coe|apply spadded_three]; auto.
Qed.
End SPad.

(* ------------------------------------------------------------------ 2. the pieces of fn_mapToXmlSeqIndent, doIndent = true *)

Section PartsI.
Variable esc : str -> str.
Variable ind outd : str -> Z -> str -> Z -> Z -> pty.
Variable srt : list t_keyval -> list t_keyval.
Variable mar : value -> res str.
Variable mari : value -> str -> str -> res str.

(* the first type switch: the padding, then "<key" unless the key is one of the three special keys *)
Definition si_head (st : gstate) (sb key : str) (v : value) (p : str) : ctl str me_res :=
  ltac:(let t := eval cbv beta iota zeta delta [fn_mapToXmlSeqIndent] in
                 (fn_mapToXmlSeqIndent esc ind outd srt mar mari (S O) st true sb key v [] 0%Z p 0%Z 0%Z) in
        match t with bindc ?h _ => exact h end).

(* the second type switch, with the function's own fixpoint inside *)
Definition si_mid_f (f : nat) (st : gstate) (key : str) (v : value) (i : str) (c : Z) (p : str) (d e : Z) (sb : str)
  : ctl me_state me_res :=
  ltac:(let t := eval cbv beta iota zeta delta [fn_mapToXmlSeqIndent] in
                 (fn_mapToXmlSeqIndent esc ind outd srt mar mari (S f) st true [] key v i c p d e) in
        match t with bindc _ ?k1 =>
          let t2 := eval cbv beta in (k1 sb) in
          match t2 with bindc ?m _ => exact m end
        end).

(* the closing switch, the newline, Outdent and the return *)
Definition si_close (st : gstate) (key : str) (v : value) : me_state -> ctl unit me_res :=
  ltac:(let t := eval cbv beta iota zeta delta [fn_mapToXmlSeqIndent] in
                 (fn_mapToXmlSeqIndent esc ind outd srt mar mari (S O) st true [] key v [] 0%Z [] 0%Z 0%Z) in
        match t with bindc _ ?k1 =>
          let t2 := eval cbv beta in (k1 (@nil ascii)) in
          match t2 with bindc _ ?k => exact k end
        end).

Definition si_mid (rec : me_rec) (st : gstate) (key : str) (v : value) (i : str) (c : Z) (p : str) (d e : Z) (sb : str)
  : ctl me_state me_res :=
  ltac:(let F := eval cbv beta iota zeta delta [fn_mapToXmlSeqIndent] in (fn_mapToXmlSeqIndent esc ind outd srt mar mari) in
        let b := eval cbv beta iota zeta delta [si_mid_f fn_mapToXmlSeqIndent] in (fun f => si_mid_f f st key v i c p d e sb) in
        let b' := eval pattern F in b in
        match b' with ?g _ => let r := eval cbv beta in (g (fun _ : nat => rec) O) in exact r end).

Definition si_map (rec : me_rec) (st : gstate) (key : str) (val : entries) (i : str) (c : Z) (p : str) (d e : Z) (sb : str)
  : ctl me_state me_res :=
  ltac:(let t := eval cbv beta iota delta [si_mid] in (si_mid rec st key (VMap val) i c p d e sb) in exact t).

Definition si_list (rec : me_rec) (st : gstate) (key : str) (l : list value) (i : str) (c : Z) (p : str) (d e : Z) (sb : str)
  : ctl me_state me_res :=
  ltac:(let t := eval cbv beta iota delta [si_mid] in (si_mid rec st key (VList l) i c p d e sb) in exact t).

Lemma si_unfold f st sb key v i c p d e :
  fn_mapToXmlSeqIndent esc ind outd srt mar mari (S f) st true sb key v i c p d e =
  bindc (si_head st sb key v p)
    (fun sb' => bindc (si_mid (fn_mapToXmlSeqIndent esc ind outd srt mar mari f) st key v i c p d e sb') (si_close st key v)).
Proof. reflexivity. Qed.

Lemma si_unfold_list f st sb key l i c p d e :
  fn_mapToXmlSeqIndent esc ind outd srt mar mari (S f) st true sb key (VList l) i c p d e =
  bindc (si_list (fn_mapToXmlSeqIndent esc ind outd srt mar mari f) st key l i c p d e sb) (si_close st key (VList l)).
Proof. reflexivity. Qed.

Lemma si_unfold_map f st sb key val i c p d e :
  fn_mapToXmlSeqIndent esc ind outd srt mar mari (S f) st true sb key (VMap val) i c p d e =
  bindc (si_map (fn_mapToXmlSeqIndent esc ind outd srt mar mari f) st key val i c p d e
           (if negb (str_eqb key (g_commentK st)) && negb (str_eqb key (g_directiveK st)) && negb (str_eqb key (g_procinstK st))
            then ((sb ++ p) ++ s "<") ++ key else sb ++ p))
        (si_close st key (VMap val)).
Proof.
  rewrite si_unfold. unfold si_head. cbn [bindc].
  destruct (str_eqb key (g_commentK st)), (str_eqb key (g_directiveK st)), (str_eqb key (g_procinstK st)); reflexivity.
Qed.

(* the join after the three special-key tests *)
Definition si_elem (rec : me_rec) (st : gstate) (key : str) (val : entries) (i : str) (c : Z) (p : str) (d e : Z)
  : (str * bool + ctl me_state me_res) -> ctl me_state me_res :=
  ltac:(let t := eval cbv beta iota delta [si_map] in (si_map rec st key val i c p d e []) in
        match t with bindc _ ?k1 =>
          let t2 := eval cbv beta iota in (k1 (inl (@nil ascii, false))) in
          match t2 with bindc _ ?k2 =>
            let t3 := eval cbv beta iota in (k2 (inl (@nil ascii, false))) in
            match t3 with bindc _ ?k3 => exact k3 end
          end
        end).

Lemma si_map_eq rec st key val i c p d e sb :
  si_map rec st key val i c p d e sb =
  if str_eqb key (g_commentK st)
  then match str_of (lookup (g_textK st) val) with
       | Some x => Next (((sb ++ s "<!--") ++ x) ++ s "-->", true, [], false, 0%Z, false, d, i, c, p, e, i, c, p, d, e)
       | None => Crash
       end
  else if str_eqb key (g_directiveK st)
  then match str_of (lookup (g_textK st) val) with
       | Some x => Next (((sb ++ s "<!") ++ x) ++ s ">", true, [], false, 0%Z, false, d, i, c, p, e, i, c, p, d, e)
       | None => Crash
       end
  else if str_eqb key (g_procinstK st)
  then match str_of (lookup (g_targetK st) val), str_of (lookup (g_instK st) val) with
       | Some x, Some y => Next (((((sb ++ s "<?") ++ x) ++ s " ") ++ y) ++ s "?>", true, [], false, 0%Z, false, d, i, c, p, e, i, c, p, d, e)
       | _, _ => Crash
       end
  else si_elem rec st key val i c p d e (inl (sb, false)).
Proof.
  unfold si_map, si_elem.
  destruct (str_eqb key (g_commentK st)).
  { destruct (lookup (g_textK st) val) as [[]|]; reflexivity. }
  destruct (str_eqb key (g_directiveK st)).
  { destruct (lookup (g_textK st) val) as [[]|]; reflexivity. }
  destruct (str_eqb key (g_procinstK st)).
  { destruct (lookup (g_targetK st) val) as [[]|]; try reflexivity; destruct (lookup (g_instK st) val) as [[]|]; reflexivity. }
  reflexivity.
Qed.

(* what the closing switch writes: the padding before the end tag of an element that is not simple, the end of the tag,
   a newline when cnt > start *)
Definition close_textI (st : gstate) (key : str) (v : value) (noEndTag endTag : bool) (elen : Z) (isSimple : bool) (p' : str) : str :=
  if noEndTag then []
  else if endTag
       then (if isSimple then [] else p') ++
            (if is_tagged v
             then if Z.gtb elen 0 then s "</" ++ key ++ s ">"
                  else if g_useGoXmlEmptyElemSyntax st then s "></" ++ key ++ s ">" else s "/>"
             else [])
       else if g_useGoXmlEmptyElemSyntax st then s "></" ++ key ++ s ">" else s "/>".
Definition nl_if (c t : Z) : str := if Z.gtb c t then nl_str else [].

Lemma si_close_eq st key v sb noEnd ss endTag elen isSimple d' i' c' p' e' i c p d e : (0 <= elen)%Z ->
  si_close st key v (sb, noEnd, ss, endTag, elen, isSimple, d', i', c', p', e', i, c, p, d, e)
  = Ret (None, (sb ++ close_textI st key v noEnd endTag elen isSimple p' ++ nl_if c' e', i, c, p, d, e)).
Proof.
  intros Hel. unfold si_close, close_textI, nl_if. cbv beta iota.
  destruct (outd i' c' p' d' e') as [[[[x1 x2] x3] x4] x5] eqn:Eo.
  destruct noEnd, endTag; cbn [bindc]; rewrite ?Eo; try (destruct (Z.gtb c' e'); cbn [bindc]; rewrite ?Eo, ?app_nil_r; reflexivity).
  - destruct isSimple; cbn [bindc app];
      (destruct v; cbn [is_tagged bindc]; rewrite ?app_nil_r;
       try (destruct (Z.gtb c' e'); cbn [bindc]; rewrite ?Eo, ?app_nil_r, <- ?app_assoc; reflexivity);
       (destruct (Z.gtb_spec elen 0) as [Hg|Hg];
        [ replace (Z.eqb elen 0) with false by (symmetry; apply Z.eqb_neq; lia); cbn [bindc];
          destruct (Z.gtb c' e'); cbn [bindc]; rewrite ?Eo, ?app_nil_r, <- ?app_assoc; reflexivity
        | destruct (g_useGoXmlEmptyElemSyntax st);
          [ replace (Z.eqb elen 0) with true by (symmetry; apply Z.eqb_eq; lia); cbn [bindc];
            destruct (Z.gtb c' e'); cbn [bindc]; rewrite ?Eo, ?app_nil_r, <- ?app_assoc; reflexivity
          | cbn [bindc]; destruct (Z.gtb c' e'); cbn [bindc]; rewrite ?Eo, ?app_nil_r, <- ?app_assoc; reflexivity ] ])).
  - destruct (g_useGoXmlEmptyElemSyntax st); cbn [bindc]; destruct (Z.gtb c' e'); cbn [bindc]; rewrite ?Eo, ?app_nil_r, <- ?app_assoc; reflexivity.
Qed.
End PartsI.

(* ------------------------------------------------------------------ 3. the correspondence with Model/SeqEnc.v *)
Section MainI.
Variable o : opts.
Variable st : gstate.
Hypothesis Hview : senc_view st o.
Variable esc : str -> str.
Variable ind outd : str -> Z -> str -> Z -> Z -> pty.
Variable srt : list t_keyval -> list t_keyval.
Variable mar : value -> res str.
Variable mari : value -> str -> str -> res str.
Hypothesis Hesc : forall x, esc x = escape_chars x.
Hypothesis Hsrt : forall l, srt l = isort (fun a => seq_num o (keyval_v a)) l.
Variables prefix indent : str.
Hypothesis Hind : forall i c p m t, ind i c p m t = (i, (c + 1)%Z, p ++ i, m, t).
Hypothesis Houtd : forall i c p m t, (0 <= c)%Z -> outd i (c + 1)%Z (p ++ i) m t = (i, c, p, m, t).

Notation F := (fn_mapToXmlSeqIndent esc ind outd srt mar mari).
Notation pdg := (pdg prefix indent).
Notation pad_ok := (pad_ok prefix indent).
Notation spadded := (spadded prefix indent).

Lemma scalar_strI f sb key x i c p d e :
  F (S f) st true sb key (VStr x) i c p d e =
  Ret (None, (sb ++ p ++ semit (scalar_items o key (Model.XmlEnc.esc o x)) ++ nl_if c e, i, c, p, d, e)).
Proof.
  rewrite si_unfold. unfold si_head, si_mid. cbv beta iota zeta.
  rewrite <- (esc_code o st Hview esc Hesc).
  rewrite if_next. generalize (if g_xmlEscapeChars st then esc x else x) as t; intro t.
  rewrite ?if_next; cbn [bindc];
  rewrite len_gtb;
  unfold scalar_items, is_special_key;
  destruct Hview as (Vesc & Vgo & Vtext & Vseq & Vattr & Vcomm & Vdir & Vproc & Vtarg & Vinst);
  rewrite Vcomm, Vdir, Vproc; unfold close_or_empty; rewrite Vgo;
  destruct (str_eqb _ (g_commentK st)); [|destruct (str_eqb _ (g_directiveK st)); [|destruct (str_eqb _ (g_procinstK st))]];
  cbn [negb orb bindc]; (destruct t as [|a t']; cbn [bindc]; (rewrite si_close_eq by (cbn [length]; lia));
  unfold close_textI; cbn [is_tagged length]; rewrite ?len_gtb; cbn [Z.gtb Z.of_nat Z.compare];
  destruct (g_useGoXmlEmptyElemSyntax st); cbn [semit flat_map semit1 emit1 map emit_attrs];
  rewrite <- ?app_assoc, ?app_nil_r; cbn [app]; reflexivity).
Qed.

Lemma scalar_fmtI f sb key v i c p d e :
  match v with VBool _ | VInt _ | VI64 _ | VFlt _ => True | _ => False end ->
  F (S f) st true sb key v i c p d e = Ret (None, (sb ++ p ++ semit (scalar_items o key (fmt_v v)) ++ nl_if c e, i, c, p, d, e)).
Proof.
  intros Hv. rewrite si_unfold. unfold si_head, si_mid.
  destruct v; try destruct Hv; cbv beta iota zeta; unfold go_fmt_v;
    match goal with |- context [fmt_v ?v] => generalize (fmt_v v) as t; intro t end;
  (rewrite ?if_next; cbn [bindc];
  rewrite len_gtb;
  unfold scalar_items, is_special_key;
  destruct Hview as (Vesc & Vgo & Vtext & Vseq & Vattr & Vcomm & Vdir & Vproc & Vtarg & Vinst);
  rewrite Vcomm, Vdir, Vproc; unfold close_or_empty; rewrite Vgo;
  destruct (str_eqb _ (g_commentK st)); [|destruct (str_eqb _ (g_directiveK st)); [|destruct (str_eqb _ (g_procinstK st))]];
  cbn [negb orb bindc]; (destruct t as [|a t']; cbn [bindc]; (rewrite si_close_eq by (cbn [length]; lia));
  unfold close_textI; cbn [is_tagged length]; rewrite ?len_gtb; cbn [Z.gtb Z.of_nat Z.compare];
  destruct (g_useGoXmlEmptyElemSyntax st); cbn [semit flat_map semit1 emit1 map emit_attrs];
  rewrite <- ?app_assoc, ?app_nil_r; cbn [app]; reflexivity)).
Qed.

Lemma nil_caseI f sb key i c p d e :
  F (S f) st true sb key VNil i c p d e = Ret (None, (sb ++ p ++ (s "<" ++ key) ++ nl_if c e, i, c, p, d, e)).
Proof.
  rewrite si_unfold. unfold si_head, si_mid. cbv beta iota zeta. cbn [bindc].
  rewrite si_close_eq by lia. unfold close_textI. cbn [is_tagged]. rewrite <- ?app_assoc. reflexivity.
Qed.

Variable t : Z.      (* pretty.start *)

Lemma ind_S n m : ind indent (Z.of_nat n) (pdg n) m t = (indent, Z.of_nat (S n), pdg (S n), m, t).
Proof. rewrite Hind, pdg_S, Nat2Z.inj_succ. reflexivity. Qed.
Lemma outd_S n m : outd indent (Z.of_nat (S n)) (pdg (S n)) m t = (indent, Z.of_nat n, pdg n, m, t).
Proof. rewrite pdg_S, Nat2Z.inj_succ. apply Houtd. lia. Qed.

Lemma pad_nl_if c : pad_ok (nl_if c t).
Proof. unfold nl_if. destruct (Z.gtb c t); [apply pad_nl1|constructor]. Qed.

(* what the translated encoder returns in indented mode, with the pretty record (indent, n, prefix ++ indent^n, d, t), against
   what the model returns *)
Definition si_conv (nm : Prop) (sb : str) (n : nat) (d : Z) (r : res (list sitem)) (x : ctl unit me_res) : Prop :=
  match r with
  | Ok its => exists out, x = Ret (None, (sb ++ out, indent, Z.of_nat n, pdg n, d, t)) /\ spadded its out
  | Err _ => nm -> exists sb', x = Ret (Some EOther, (sb', indent, Z.of_nat n, pdg n, d, t))
  | Panic => x = Crash
  end.

Lemma si_conv_weaken (nm nm' : Prop) sb n d r x : (nm' -> nm) -> si_conv nm sb n d r x -> si_conv nm' sb n d r x.
Proof. intros H. destruct r; cbn [si_conv]; auto. Qed.

(* a loop over sub-elements: every iteration appends a padded rendering of the items of its element *)
Lemma loop_childrenI {S T} (mk : str -> S) (enc1 : T -> res (list sitem)) (nm1 : T -> Prop)
      (body : S -> T -> ctl S me_res) (i : str) (c : Z) (p : str) (d e : Z) (l : list T) :
  (forall sb x, In x l ->
     match enc1 x with
     | Ok its => exists out, body (mk sb) x = Next (mk (sb ++ out)) /\ spadded its out
     | Err _ => nm1 x -> exists sb', body (mk sb) x = Ret (Some EOther, (sb', i, c, p, d, e))
     | Panic => body (mk sb) x = Crash
     end) ->
  forall sb,
  match sconcat (map enc1 l) with
  | Ok its => exists out, range_loop body l (mk sb) = Next (mk (sb ++ out)) /\ spadded its out
  | Err _ => (forall x, In x l -> nm1 x) -> exists sb', range_loop body l (mk sb) = Ret (Some EOther, (sb', i, c, p, d, e))
  | Panic => range_loop body l (mk sb) = Crash
  end.
Proof.
  induction l as [|x l IH]; intros Hb sb.
  - cbn [map sconcat range_loop]. exists []. rewrite app_nil_r. split; [reflexivity|constructor; constructor].
  - cbn [map sconcat range_loop].
    pose proof (Hb sb x (or_introl eq_refl)) as Hx.
    assert (Hb' : forall sb1 y, In y l ->
       match enc1 y with
       | Ok its => exists out, body (mk sb1) y = Next (mk (sb1 ++ out)) /\ spadded its out
       | Err _ => nm1 y -> exists sb', body (mk sb1) y = Ret (Some EOther, (sb', i, c, p, d, e))
       | Panic => body (mk sb1) y = Crash
       end) by (intros sb1 y Hy; apply Hb; right; exact Hy).
    specialize (IH Hb').
    destruct (enc1 x) as [its|e0|]; cbn [bind].
    + destruct Hx as (out1 & Hx & Hp1). rewrite Hx. specialize (IH (sb ++ out1)).
      destruct (sconcat (map enc1 l)) as [its'|e1|]; cbn [bind].
      * destruct IH as (out2 & IH & Hp2). exists (out1 ++ out2). rewrite IH, <- app_assoc.
        split; [reflexivity|apply spadded_app; assumption].
      * intros Hn. apply IH. intros y Hy. apply Hn. right. exact Hy.
      * exact IH.
    + intros Hn. destruct (Hx (Hn x (or_introl eq_refl))) as [sb' E]. rewrite E. exists sb'. reflexivity.
    + rewrite Hx. reflexivity.
Qed.

(* the list case: every member one level deeper; no newline of its own *)
Lemma list_caseI f (nm : value -> Prop) l sb key n d :
  (forall x, In x l -> forall sb' n' d',
     si_conv (nm x) sb' n' d' (senc o x key) (F f st true sb' key x indent (Z.of_nat n') (pdg n') d' t)) ->
  si_conv (forall x, In x l -> nm x) sb n d (sconcat (map (fun v => senc o v key) l))
    (F (S f) st true sb key (VList l) indent (Z.of_nat n) (pdg n) d t).
Proof.
  intros Hrec.
  rewrite si_unfold_list.
  set (rec := F f) in *. unfold si_list. cbv beta iota.
  set (mk := fun b : str => (indent, Z.of_nat n, pdg n, d, t, b, indent, Z.of_nat n, pdg n, d, t)).
  match goal with |- context [range_loop ?body l ?s0] =>
    set (B := body); change s0 with (mk sb);
    pose proof (loop_childrenI mk (fun v => senc o v key) nm B indent (Z.of_nat n) (pdg n) d t l) as HL end.
  lapply HL; [clear HL; intro HL|].
  - specialize (HL sb). unfold si_conv.
    destruct (sconcat (map (fun v => senc o v key) l)) as [its|e0|].
    + destruct HL as (out & HL & Hp). rewrite HL. exists out. split; [reflexivity|exact Hp].
    + intros Hn. destruct (HL Hn) as [sb' E]. rewrite E. exists sb'. reflexivity.
    + rewrite HL. reflexivity.
  - intros b x Hx. specialize (Hrec x Hx b (S n) d). unfold si_conv in Hrec. unfold B, mk. rewrite ind_S. cbn [bindc].
    fold rec in Hrec.
    destruct (senc o x key) as [its|e0|].
    + destruct Hrec as (out & E & Hp). rewrite E. cbn [bindr bindc negb]. rewrite outd_S. exists out. split; [reflexivity|exact Hp].
    + intros Hn. destruct (Hrec Hn) as [sb' E]. rewrite E. exists sb'. reflexivity.
    + rewrite Hrec. reflexivity.
Qed.

Notation kid_list := (kid_list o).
Notation kid_enc := (kid_enc o).

Ltac fin_simple n :=
  cbn [si_conv];
  match goal with |- exists out, _ /\ spadded ?its out => exists (pdg n ++ semit its ++ nl_if (Z.of_nat n) t) end;
  split; [| first [apply spadded_three | apply spadded_coe]; [apply pad_pdg1|apply pad_nl_if] ].

Lemma map_caseI f (nm : value -> Prop) val sb key n d :
  (forall a, In a (kid_list val) -> forall sb' n' d',
     si_conv (nm (keyval_v a)) sb' n' d' (kid_enc a) (F f st true sb' (keyval_k a) (keyval_v a) indent (Z.of_nat n') (pdg n') d' t)) ->
  match lookup (textK o) val with Some (VMap _) | Some (VList _) => False | _ => True end ->
  si_conv (forall a, In a (kid_list val) -> nm (keyval_v a)) sb n d (senc o (VMap val) key)
    (F (S f) st true sb key (VMap val) indent (Z.of_nat n) (pdg n) d t).
Proof.
  intros Hrec Htext. rewrite si_unfold_map, si_map_eq, senc_map_eq.
  pose proof Hview as (Vesc & Vgo & Vtext & Vseq & Vattr & Vcomm & Vdir & Vproc & Vtarg & Vinst).
  rewrite <- Vcomm, <- Vdir, <- Vproc, <- Vtext, <- Vtarg, <- Vinst.
  destruct (str_eqb key (commentK o)).
  { cbn [negb andb]. destruct (lookup (textK o) val) as [[]|]; cbn [str_of si_conv bindc]; try reflexivity.
    rewrite si_close_eq by lia. unfold close_textI. cbn [app].
    eexists (pdg n ++ semit [SComment _] ++ nl_if (Z.of_nat n) t). split; [|apply spadded_one; [apply pad_pdg1|apply pad_nl_if|reflexivity]].
    cbn [semit flat_map semit1]. rewrite <- !app_assoc, ?app_nil_r. reflexivity. }
  destruct (str_eqb key (directiveK o)).
  { cbn [negb andb]. destruct (lookup (textK o) val) as [[]|]; cbn [str_of si_conv bindc]; try reflexivity.
    rewrite si_close_eq by lia. unfold close_textI. cbn [app].
    eexists (pdg n ++ semit [SDirective _] ++ nl_if (Z.of_nat n) t). split; [|apply spadded_one; [apply pad_pdg1|apply pad_nl_if|reflexivity]].
    cbn [semit flat_map semit1]. rewrite <- !app_assoc, ?app_nil_r. reflexivity. }
  destruct (str_eqb key (procinstK o)).
  { cbn [negb andb]. destruct (lookup (targetK o) val) as [[]|]; cbn [str_of si_conv bindc]; try reflexivity;
      destruct (lookup (instK o) val) as [[]|]; cbn [str_of si_conv bindc]; try reflexivity.
    rewrite si_close_eq by lia. unfold close_textI. cbn [app].
    eexists (pdg n ++ semit [SProcInst _ _] ++ nl_if (Z.of_nat n) t). split; [|apply spadded_one; [apply pad_pdg1|apply pad_nl_if|reflexivity]].
    cbn [semit flat_map semit1]. rewrite <- !app_assoc, ?app_nil_r. reflexivity. }
  cbn [negb andb]. unfold si_elem. cbv beta iota.
  rewrite <- ?Vtext, <- ?Vseq, <- ?Vattr, <- ?Vgo.
  set (sb1 := ((sb ++ pdg n) ++ s "<") ++ key).
  set (NM := forall a : t_keyval, In a (kid_list val) -> nm (keyval_v a)).
  match goal with |- si_conv _ _ _ _ (bind _ ?R) (bindc (let '(l_v, l_ok) := ?M in bindc (@?A l_v l_ok) ?K) ?CL) =>
    set (R0 := R); set (K0 := K) end.
  assert (Hrest : forall ha attrs ss', si_conv NM sb n d (R0 (ha, attrs)) (bindc (K0 (ss', sb1 ++ emit_attrs attrs, ha)) (si_close outd st key (VMap val)))).
  { intros ha attrs ss'. subst R0 K0. cbv beta iota. cbn [fst snd].
    set (sb2 := sb1 ++ emit_attrs attrs).
    match goal with |- si_conv _ _ _ _ _ (bindc (let '(x0, l_seqOK) := ?M1 in let '(l_v_1, l_ok_1) := ?M2 in bindc (@?B x0 l_seqOK l_v_1 l_ok_1) ?KG) _) =>
      set (KG0 := KG) end.
    assert (Hgen : si_conv NM sb n d
              (bind (sconcat (map kid_enc (isort (fun a : t_keyval => seq_num o (keyval_v a)) (kid_list val))))
                 (fun body : list sitem => Ok (SI (IOpen key attrs) :: lead_text o val ++ body ++ [SI (IClose key)])))
              (bindc (KG0 (inl (sb2, false, 0%Z, false))) (si_close outd st key (VMap val)))).
    { unfold KG0. cbv beta iota.
      match goal with |- context [range_loop ?B val []] =>
        replace (range_loop B val []) with (Next (S := list t_keyval) (A := me_res) (kid_list val))
          by (symmetry;
              refine (eq_trans (loop_app (fun kv : str * value =>
                                   if str_eqb (fst kv) (attrK o) || str_eqb (fst kv) (seqK o) || str_eqb (fst kv) (textK o) then []
                                   else match snd kv with
                                        | VList l => map (mk_keyval (fst kv)) l
                                        | _ => [mk_keyval (fst kv) (snd kv)]
                                        end) B _ val []) _);
              [ intros acc [k v]; cbn [fst snd];
                destruct (str_eqb k (attrK o)); [cbn [orb bindc]; rewrite app_nil_r; reflexivity|];
                destruct (str_eqb k (seqK o)); [cbn [orb bindc]; rewrite app_nil_r; reflexivity|];
                destruct (str_eqb k (textK o)); [cbn [orb bindc]; rewrite app_nil_r; reflexivity|];
                cbn [orb bindc]; destruct v; try reflexivity; rewrite loop_snoc; reflexivity
              | reflexivity ]) end.
      cbn [bindc]. cbv beta iota.
      set (sorted := isort (fun a : t_keyval => seq_num o (keyval_v a)) (kid_list val)).
      match goal with |- si_conv _ _ _ _ _ (bindc (let '(l_tv, l_ok_3) := ?M in bindc (@?LT l_tv l_ok_3) ?K) _) => set (K1 := K) end.
      assert (Hkids : forall sb3,
                match sconcat (map kid_enc sorted) with
                | Ok body => exists out,
                    bindc (K1 sb3) (si_close outd st key (VMap val)) =
                    Ret (None, (sb3 ++ nl_str ++ out ++ pdg n ++ (s "</" ++ key ++ s ">") ++ nl_if (Z.of_nat n) t, indent, Z.of_nat n, pdg n, d, t)) /\
                    spadded body out
                | Err _ => NM -> exists sb', bindc (K1 sb3) (si_close outd st key (VMap val)) = Ret (Some EOther, (sb', indent, Z.of_nat n, pdg n, d, t))
                | Panic => bindc (K1 sb3) (si_close outd st key (VMap val)) = Crash
                end).
      { intros sb3. unfold K1. cbv beta iota. cbn [bindc]. rewrite Hsrt. fold sorted.
        set (mk := fun b : str => (indent, Z.of_nat n, pdg n, (d + 1)%Z, t, 0%Z, b, indent, Z.of_nat n, pdg n, d, t)).
        match goal with |- context [range_loop ?B sorted ?s0] =>
          set (CB := B); change s0 with (mk (sb3 ++ nl_str));
          pose proof (loop_childrenI mk kid_enc (fun a => nm (keyval_v a)) CB indent (Z.of_nat n) (pdg n) d t sorted) as HL end.
        lapply HL; [clear HL; intro HL|].
        2:{ intros sbx a Ha. apply isort_in in Ha.
            pose proof (Hrec a Ha sbx (match keyval_v a with VList _ => n | _ => S n end) (d + 1)%Z) as Hr.
            unfold CB, mk. cbv beta iota.
            unfold si_conv in Hr.
            destruct (keyval_v a) eqn:Ev; cbv beta iota; cbn [bindc Z.eqb]; rewrite ?ind_S; cbn [bindc];
              (destruct (kid_enc a) as [its|e0|];
               [ destruct Hr as (out & Hr & Hp); rewrite Hr; cbn [bindr bindc negb]; rewrite ?outd_S; exists out; split; [reflexivity|exact Hp]
               | intros Hn; destruct (Hr Hn) as [sb' E]; rewrite E; exists sb'; reflexivity
               | rewrite Hr; reflexivity ]). }
        specialize (HL (sb3 ++ nl_str)).
        destruct (sconcat (map kid_enc sorted)) as [body|e0|].
        - destruct HL as (out & HL & Hp). rewrite HL. unfold mk. cbn [bindc]. rewrite si_close_eq by lia. unfold close_textI. cbn [is_tagged Z.gtb Z.compare].
          exists out. split; [|exact Hp]. rewrite <- !app_assoc. reflexivity.
        - intros Hn. destruct HL as [sb' HL]; [intros a Ha; apply Hn; apply isort_in in Ha; exact Ha|].
          rewrite HL. exists sb'. reflexivity.
        - rewrite HL. reflexivity. }
      assert (Hfin : forall lt, (lt = [] \/ exists x, lt = [SI (IText x)]) ->
                si_conv NM sb n d
                  (bind (sconcat (map kid_enc sorted)) (fun body : list sitem => Ok (SI (IOpen key attrs) :: lt ++ body ++ [SI (IClose key)])))
                  (bindc (K1 ((sb2 ++ s ">") ++ semit lt)) (si_close outd st key (VMap val)))).
      { intros lt Hlt. specialize (Hkids ((sb2 ++ s ">") ++ semit lt)).
        destruct (sconcat (map kid_enc sorted)) as [body|e0|]; cbn [bind si_conv]; [|exact Hkids|exact Hkids].
        destruct Hkids as (out & Hkids & Hp). rewrite Hkids.
        assert (Hcl : spadded (body ++ [SI (IClose key)]) (out ++ pdg n ++ semit [SI (IClose key)] ++ nl_if (Z.of_nat n) t)).
        { apply spadded_app; [exact Hp|]. apply spadded_one; [apply pad_pdg1|apply pad_nl_if|reflexivity]. }
        destruct Hlt as [->|[x ->]].
        - exists (pdg n ++ semit1 (SI (IOpen key attrs)) ++ nl_str ++ out ++ pdg n ++ semit [SI (IClose key)] ++ nl_if (Z.of_nat n) t).
          split.
          + cbn [semit flat_map semit1 emit1]. unfold sb2, sb1. rewrite <- !app_assoc, ?app_nil_r. reflexivity.
          + cbn [app]. apply sp_item; [apply pad_pdg1|reflexivity|]. apply spadded_pre; [apply pad_nl1|exact Hcl].
        - exists (pdg n ++ semit [SI (IOpen key attrs); SI (IText x)] ++ nl_str ++ out ++ pdg n ++ semit [SI (IClose key)] ++ nl_if (Z.of_nat n) t).
          split.
          + cbn [semit flat_map semit1 emit1]. unfold sb2, sb1. rewrite <- !app_assoc, ?app_nil_r. reflexivity.
          + cbn [app]. apply sp_mixed; [apply pad_pdg1|exact Hcl]. }
      unfold lead_text.
      destruct (lookup (textK o) val) as [[x|b| |z|z|z|fl|x|m'|l']|]; try contradiction; cbv beta iota; cbn [negb bindc];
        rewrite ?if_next; cbn [bindc]; rewrite ?(esc_code o st Hview esc Hesc); unfold go_fmt_v;
        match goal with |- si_conv _ _ _ _ (bind _ (fun body => Ok (_ :: ?lt ++ _))) _ =>
          pose proof (Hfin lt) as H; cbn [semit flat_map semit1 emit1] in H; rewrite ?app_nil_r in H; apply H;
          first [left; reflexivity | right; eexists; reflexivity] end. }
    assert (E3 : Z.eqb (Z.of_nat (length val)) 3 = Nat.eqb (length val) 3)
      by (destruct (Nat.eqb_spec (length val) 3); [apply Z.eqb_eq|apply Z.eqb_neq]; lia).
    assert (E2 : Z.eqb (Z.of_nat (length val)) 2 = Nat.eqb (length val) 2)
      by (destruct (Nat.eqb_spec (length val) 2); [apply Z.eqb_eq|apply Z.eqb_neq]; lia).
    assert (E1 : Z.eqb (Z.of_nat (length val)) 1 = Nat.eqb (length val) 1)
      by (destruct (Nat.eqb_spec (length val) 1); [apply Z.eqb_eq|apply Z.eqb_neq]; lia).
    rewrite E3, E2, E1. clear E3 E2 E1. unfold has_key.
    destruct ha; cbv iota;
      generalize (Nat.eqb (length val) 3) as b3; generalize (Nat.eqb (length val) 2) as b2; generalize (Nat.eqb (length val) 1) as b1;
      intros b1 b2 b3.
    all: destruct (lookup (seqK o) val) as [sv|]; destruct (lookup (textK o) val) as [tv|]; destruct b3, b2, b1; cbv beta iota; cbn [andb];
      try exact Hgen.
    all: try (destruct tv as [x|b| |z|z|z|fl|x|m'|l']; [destruct x as [|a x]|..]); cbv beta iota; cbn [negb str_eqb]; rewrite ?if_next; cbn [bindc]; unfold KG0; cbv beta iota;
      cbn [bindc]; (rewrite si_close_eq by lia); fin_simple n; unfold close_textI, empty_or_broken, close_or_empty; cbn [is_tagged Z.gtb Z.compare];
      rewrite ?Vgo, ?(esc_code o st Hview esc Hesc); try destruct (g_useGoXmlEmptyElemSyntax st); cbn [map semit flat_map semit1 emit1]; unfold sb2, sb1;
      rewrite <- ?app_assoc, ?app_nil_r; cbn [app]; reflexivity. }
  assert (Hno : si_conv NM sb n d (R0 (false, [])) (bindc (K0 ([], sb1, false)) (si_close outd st key (VMap val)))).
  { pose proof (Hrest false [] []) as H0. cbn [emit_attrs flat_map] in H0. rewrite app_nil_r in H0. exact H0. }
  unfold sattrs, seq_sort.
  destruct (lookup (attrK o) val) as [[x|b| |z|z|z|fl|x|av|lv]|]; cbv beta iota; cbn [bind bindc]; try exact Hno.
  replace (Z.ltb (Z.of_nat (length av)) 0) with false by (symmetry; apply Z.ltb_ge; lia).
  rewrite Nat2Z.id.
  match goal with |- context [range_loop ?B av ?s0] =>
    replace (range_loop B av s0) with (Next (S := list t_keyval * Z) (A := me_res) (map (fun x : str * value => mk_keyval (fst x) (snd x)) av, Z.of_nat (length av)))
      by (symmetry; refine (eq_trans (loop_build B (mk_keyval [] VNil) _ av []) _); [intros kv n0 [k v]; reflexivity|reflexivity]) end.
  cbn [bindc]. cbv beta iota. rewrite Hsrt.
  rewrite (isort_map (fun x : str * value => mk_keyval (fst x) (snd x)) (fun kv : str * value => seq_num o (snd kv))) by reflexivity.
  set (L := isort (fun kv : str * value => seq_num o (snd kv)) av).
  match goal with |- context [range_loop ?B (map ?mkf L) ?s0] =>
    pose proof (loop_attrs o B indent (Z.of_nat n) (pdg n) d t) as HA; set (B2 := B) in *; set (s2 := s0) in * end.
  lapply HA; [clear HA; intro HA|].
  2:{ intros ss sb' a. unfold B2. cbv beta iota.
      destruct (keyval_v a) as [x|b| |z|z|z|fl|x|vv|lv]; try reflexivity.
      destruct (lookup (textK o) vv) as [[x|b| |z|z|z|fl|x|m'|l']|]; cbn [sattr_text]; try reflexivity;
        try (eexists; unfold go_fmt_v; rewrite <- !app_assoc; reflexivity).
      exists (Model.XmlEnc.esc o x). rewrite <- (esc_code o st Hview esc Hesc). destruct (g_xmlEscapeChars st); cbn [bindc]; rewrite <- !app_assoc; reflexivity. }
  specialize (HA (map (fun x : str * value => mk_keyval (fst x) (snd x)) L) [] sb1).
  rewrite map_map in HA. cbn [keyval_k keyval_v] in HA.
  replace (map (fun x : str * value => (fst x, snd x)) L) with L in HA
    by (clear; induction L as [|[k v] t0 IH]; [reflexivity|cbn [map fst snd]; rewrite <- IH; reflexivity]).
  fold s2 in HA.
  destruct (sattrs_loop o L) as [attrs|e0|]; cbn [bind].
  - destruct HA as [ss' HA]. rewrite HA. cbn [bindc]. cbv beta iota. apply Hrest.
  - destruct HA as [sb' HA]. rewrite HA. cbn [bindc si_conv]. intros _. exists sb'. reflexivity.
  - rewrite HA. reflexivity.
Qed.

(* the translated encoder in indented mode against the model, every outcome *)
Theorem senc_indent_code_conv : forall f v sb key n d, vd v < f -> text_ok o v = true ->
  si_conv (no_marshal v = true) sb n d (senc o v key) (F f st true sb key v indent (Z.of_nat n) (pdg n) d t).
Proof.
  induction f as [|f IH]; intros v sb key n d Hf Ht; [lia|].
  destruct v as [x|b| |z|z|z|fl|x|m|l].
  - cbn [senc si_conv]. rewrite scalar_strI. eexists. split; [reflexivity|]. apply spadded_scalar; [apply pad_pdg1|apply pad_nl_if].
  - cbn [senc si_conv]. rewrite scalar_fmtI by exact I. eexists. split; [reflexivity|]. apply spadded_scalar; [apply pad_pdg1|apply pad_nl_if].
  - cbn [senc si_conv]. rewrite nil_caseI. exists (pdg n ++ semit [SRaw (s "<" ++ key)] ++ nl_if (Z.of_nat n) t).
    split; [cbn [semit flat_map semit1]; rewrite app_nil_r; reflexivity|]. apply spadded_one; [apply pad_pdg1|apply pad_nl_if|reflexivity].
  - cbn [senc si_conv]. rewrite scalar_fmtI by exact I. eexists. split; [reflexivity|]. apply spadded_scalar; [apply pad_pdg1|apply pad_nl_if].
  - cbn [senc si_conv]. rewrite scalar_fmtI by exact I. eexists. split; [reflexivity|]. apply spadded_scalar; [apply pad_pdg1|apply pad_nl_if].
  - cbn [senc si_conv no_marshal]. discriminate.
  - cbn [senc si_conv]. rewrite scalar_fmtI by exact I. eexists. split; [reflexivity|]. apply spadded_scalar; [apply pad_pdg1|apply pad_nl_if].
  - cbn [senc si_conv no_marshal]. discriminate.
  - cbn [text_ok] in Ht. apply andb_prop in Ht. destruct Ht as [Ht1 Ht2]. rewrite forallb_forall in Ht2.
    apply (si_conv_weaken (forall a, In a (kid_list m) -> no_marshal (keyval_v a) = true)).
    + intros Hn. cbn [no_marshal] in Hn. rewrite forallb_forall in Hn.
      apply (kid_list_prop o (fun x => no_marshal x = true)).
      * intros kv Hkv. apply Hn. exact Hkv.
      * intros l x Hl Hx. cbn [no_marshal] in Hl. rewrite forallb_forall in Hl. apply Hl. exact Hx.
    + apply (map_caseI f (fun x => no_marshal x = true)).
      * intros a Ha sb' n' d'. apply IH.
        -- apply (kid_list_prop o (fun x => vd x < f) m); [| |exact Ha].
           ++ intros kv Hkv. pose proof (vd_entry kv m Hkv). lia.
           ++ intros l x Hl Hx. pose proof (vd_member x l Hx). lia.
        -- apply (kid_list_prop o (fun x => text_ok o x = true) m); [| |exact Ha].
           ++ intros kv Hkv. apply Ht2. exact Hkv.
           ++ intros l x Hl Hx. cbn [text_ok] in Hl. rewrite forallb_forall in Hl. apply Hl. exact Hx.
      * destruct (lookup (textK o) m) as [[]|]; try exact I; discriminate Ht1.
  - cbn [text_ok] in Ht. rewrite forallb_forall in Ht.
    apply (si_conv_weaken (forall x, In x l -> no_marshal x = true)).
    + intros Hn. cbn [no_marshal] in Hn. rewrite forallb_forall in Hn. exact Hn.
    + change (senc o (VList l) key) with (sconcat (map (fun v => senc o v key) l)).
      apply (list_caseI f (fun x => no_marshal x = true)).
      intros x Hx sb' n' d'. apply IH; [pose proof (vd_member x l Hx); lia|apply Ht; exact Hx].
Qed.

(* the xml.MarshalIndent arm (uint64, json.Number: outside Model/SeqEnc.v): no padding, no tag, the bytes xml.MarshalIndent
   returns for (value, p.padding, p.indent), or ">UNKNOWN" when it fails; then the newline when cnt > start; never an error *)
Lemma marshal_armI f sb key v i c p d e :
  match v with VU64 _ | VJNum _ => True | _ => False end ->
  F (S f) st true sb key v i c p d e =
  match mari v p i with
  | Ok x => Ret (None, (sb ++ x ++ nl_if c e, i, c, p, d, e))
  | Err _ => Ret (None, (sb ++ s ">UNKNOWN" ++ nl_if c e, i, c, p, d, e))
  | Panic => Crash
  end.
Proof.
  intros Hv. rewrite si_unfold. unfold si_head, si_mid.
  destruct v; try destruct Hv; cbv beta iota zeta; cbn [bindc];
    (destruct (mari _ _ _) as [y|e0|]; cbn [bindc negb];
     [|rewrite si_close_eq by lia; unfold close_textI; cbn [is_tagged app]; rewrite <- ?app_assoc; reflexivity|reflexivity];
     rewrite len_gtb; destruct y as [|a y]; cbn [bindc]; rewrite si_close_eq by (cbn [length]; lia); unfold close_textI; cbn [is_tagged app];
     rewrite <- ?app_assoc, ?app_nil_r; reflexivity).
Qed.
End MainI.

(* ------------------------------------------------------------------ 4. the theorems *)

(* 1. INDENTED mode writes the items of the compact mode with only padding between them. *)
Theorem senc_indent_code_is_model : forall o st esc ind outd srt mar mari,
  senc_view st o -> (forall x, esc x = escape_chars x) ->
  (forall l, srt l = isort (fun a => seq_num o (keyval_v a)) l) ->
  (forall i c p m t, ind i c p m t = (i, (c + 1)%Z, p ++ i, m, t)) ->
  (forall i c p m t, (0 <= c)%Z -> outd i (c + 1)%Z (p ++ i) m t = (i, c, p, m, t)) ->
  forall prefix indent f v sb key n d t, vd v < f -> text_ok o v = true ->
  (forall its, senc o v key = Ok its ->
     exists out,
       fn_mapToXmlSeqIndent esc ind outd srt mar mari f st true sb key v indent (Z.of_nat n) (pdg prefix indent n) d t =
       Ret (None, (sb ++ out, indent, Z.of_nat n, pdg prefix indent n, d, t)) /\
       spadded prefix indent its out) /\
  (forall e0, senc o v key = Err e0 -> no_marshal v = true ->
     exists sb',
       fn_mapToXmlSeqIndent esc ind outd srt mar mari f st true sb key v indent (Z.of_nat n) (pdg prefix indent n) d t =
       Ret (Some EOther, (sb', indent, Z.of_nat n, pdg prefix indent n, d, t))) /\
  (senc o v key = Panic ->
     fn_mapToXmlSeqIndent esc ind outd srt mar mari f st true sb key v indent (Z.of_nat n) (pdg prefix indent n) d t = Crash).
Proof.
  intros o st esc ind outd srt mar mari Hv He Hs Hind Houtd prefix indent f v sb key n d t Hf Ht.
  pose proof (senc_indent_code_conv o st Hv esc ind outd srt mar mari He Hs prefix indent Hind Houtd t f v sb key n d Hf Ht) as H.
  destruct (senc o v key) as [its|e0|]; cbn [si_conv] in H.
  - split; [intros its' E; injection E as <-; exact H|]. split; [intros e0 E; discriminate E|intro E; discriminate E].
  - split; [intros its' E; discriminate E|]. split; [intros e1 E Hn; exact (H Hn)|intro E; discriminate E].
  - split; [intros its' E; discriminate E|]. split; [intros e1 E; discriminate E|intros _; exact H].
Qed.

(* 2. translated code only: escapeChars, elemListSeq.Less (insertion sort over it), pretty.Indent, pretty.Outdent as go2v translated
   them, from any pretty record reachable from (indent, 0, prefix, m, t) by Indent / Outdent *)
Theorem senc_indent_code_is_model_translated : forall o st mar mari,
  senc_view st o ->
  forall prefix indent m t i c p m' t', pp_reach st prefix indent m t (i, c, p, m', t') ->
  forall f v sb key, vd v < f -> text_ok o v = true ->
  (forall its, senc o v key = Ok its ->
     exists out,
       fn_mapToXmlSeqIndent (run_escapeChars st) (run_Indent st) (run_Outdent st) (run_sort st) mar mari f st true sb key v i c p m' t' =
       Ret (None, (sb ++ out, i, c, p, m', t')) /\
       spadded prefix indent its out) /\
  (forall e0, senc o v key = Err e0 -> no_marshal v = true ->
     exists sb',
       fn_mapToXmlSeqIndent (run_escapeChars st) (run_Indent st) (run_Outdent st) (run_sort st) mar mari f st true sb key v i c p m' t' =
       Ret (Some EOther, (sb', i, c, p, m', t'))) /\
  (senc o v key = Panic ->
     fn_mapToXmlSeqIndent (run_escapeChars st) (run_Indent st) (run_Outdent st) (run_sort st) mar mari f st true sb key v i c p m' t' = Crash).
Proof.
  intros o st mar mari Hv prefix indent m t i c p m' t' Hr f v sb key Hf Ht.
  destruct (pp_reach_shape st prefix indent m t _ Hr) as [n E]. injection E as -> -> -> -> ->.
  apply (senc_indent_code_is_model o st (run_escapeChars st) (run_Indent st) (run_Outdent st) (run_sort st) mar mari Hv
           (run_escapeChars_eq st)); [|apply run_Indent_eq|apply run_Outdent_eq|exact Hf|exact Ht].
  intros l. apply run_sort_is_model. destruct Hv as (_ & _ & _ & Vseq & _). exact Vseq.
Qed.

(* 3. no Crash where the model does not panic, in every package state; the pretty record comes back unchanged *)
Theorem senc_indent_code_returns : forall st mar mari prefix indent m t i c p m' t', pp_reach st prefix indent m t (i, c, p, m', t') ->
  forall f v sb key, vd v < f -> text_ok (state_opts st) v = true -> no_marshal v = true -> senc (state_opts st) v key <> Panic ->
  exists e0 sb', fn_mapToXmlSeqIndent (run_escapeChars st) (run_Indent st) (run_Outdent st) (run_sort st) mar mari f st true sb key v i c p m' t' =
                 Ret (e0, (sb', i, c, p, m', t')).
Proof.
  intros st mar mari prefix indent m t i c p m' t' Hr f v sb key Hf Ht Hn Hp.
  destruct (senc_indent_code_is_model_translated (state_opts st) st mar mari (state_opts_senc_view st) prefix indent m t i c p m' t' Hr f v sb key Hf Ht)
    as (H1 & H2 & H3).
  destruct (senc (state_opts st) v key) as [its|e0|].
  - destruct (H1 its eq_refl) as (out & H & _). eexists _, _. exact H.
  - destruct (H2 e0 eq_refl Hn) as (sb' & H). eexists _, _. exact H.
  - destruct (Hp eq_refl).
Qed.
Corollary senc_indent_code_no_panic : forall st mar mari prefix indent m t i c p m' t', pp_reach st prefix indent m t (i, c, p, m', t') ->
  forall f v sb key, vd v < f -> text_ok (state_opts st) v = true -> no_marshal v = true -> senc (state_opts st) v key <> Panic ->
  fn_mapToXmlSeqIndent (run_escapeChars st) (run_Indent st) (run_Outdent st) (run_sort st) mar mari f st true sb key v i c p m' t' <> Crash.
Proof.
  intros st mar mari prefix indent m t i c p m' t' Hr f v sb key Hf Ht Hn Hp.
  destruct (senc_indent_code_returns st mar mari prefix indent m t i c p m' t' Hr f v sb key Hf Ht Hn Hp) as (e0 & sb' & H). rewrite H. discriminate.
Qed.

(* the xml.MarshalIndent arm, which Model/SeqEnc.v leaves out *)
Theorem senc_indent_code_marshal_arm : forall st esc ind outd srt mar mari f sb key v i c p d e,
  match v with VU64 _ | VJNum _ => True | _ => False end ->
  fn_mapToXmlSeqIndent esc ind outd srt mar mari (S f) st true sb key v i c p d e =
  match mari v p i with
  | Ok x => Ret (None, (sb ++ x ++ nl_if c e, i, c, p, d, e))
  | Err _ => Ret (None, (sb ++ s ">UNKNOWN" ++ nl_if c e, i, c, p, d, e))
  | Panic => Crash
  end.
Proof. intros. apply marshal_armI. assumption. Qed.

(* ------------------------------------------------------------------ 5. the gap forms *)

(* items with a gap after each *)
Fixpoint szipr (its : list sitem) (gs : list str) : str :=
  match its, gs with
  | it :: its', g :: gs' => semit1 it ++ g ++ szipr its' gs'
  | _, _ => []
  end.

(* spadded: a pad before the first item and a pad after every item (empty between a start tag and its text and between the text
   and an end tag that follows it directly) *)
Lemma spadded_szipr prefix indent its out : spadded prefix indent its out ->
  exists g0 gs, length gs = length its /\ pad_ok prefix indent g0 /\ Forall (pad_ok prefix indent) gs /\ out = g0 ++ szipr its gs.
Proof.
  intro H. induction H as [w Hw|w it its out Hw Hi H IH|w n a x n' its out Hw H IH|w n a x its out Hw H IH].
  - exists w, []. split; [reflexivity|]. split; [exact Hw|]. split; [constructor|]. rewrite app_nil_r; reflexivity.
  - destruct IH as (g0 & gs & Hl & H0 & Hgs & ->). exists w, (g0 :: gs).
    split; [cbn [length]; rewrite Hl; reflexivity|]. split; [exact Hw|]. split; [constructor; assumption|reflexivity].
  - destruct IH as (g0 & gs & Hl & H0 & Hgs & ->). exists w, ([] :: [] :: g0 :: gs).
    split; [cbn [length]; rewrite Hl; reflexivity|]. split; [exact Hw|]. split; [repeat constructor; assumption|].
    cbn [semit flat_map szipr app]. rewrite <- ?app_assoc. reflexivity.
  - destruct IH as (g0 & gs & Hl & H0 & Hgs & ->). exists w, ([] :: (nl_str ++ g0) :: gs).
    split; [cbn [length]; rewrite Hl; reflexivity|]. split; [exact Hw|]. split; [repeat constructor; assumption|].
    cbn [semit flat_map szipr app]. rewrite <- ?app_assoc. reflexivity.
Qed.

(* Spec/SeqSpec.v: insert_ws ws its - one run of blanks / tabs / newlines from ws at every boundary between two items, before the
   first and after the last, none in front of character data - is the form under which Props/C04.v (seq_roundtrip) reads the
   indented output.  With a prefix and an indent made of these characters spadded is of that form. *)
Lemma nl_wsc : nl_str = SeqSpec.ws_str [SeqSpec.WNl].
Proof. reflexivity. Qed.
Lemma ws_str_app a b : SeqSpec.ws_str (a ++ b) = SeqSpec.ws_str a ++ SeqSpec.ws_str b.
Proof. apply map_app. Qed.
Lemma pdg_wsc lp li n : pdg (SeqSpec.ws_str lp) (SeqSpec.ws_str li) n = SeqSpec.ws_str (lp ++ concat (repeat li n)).
Proof.
  unfold pdg. rewrite ws_str_app. f_equal.
  induction n as [|n IH]; [reflexivity|]. cbn [repeat concat]. rewrite ws_str_app, IH. reflexivity.
Qed.
Lemma pad_wsc lp li w : pad_ok (SeqSpec.ws_str lp) (SeqSpec.ws_str li) w -> exists l, w = SeqSpec.ws_str l.
Proof.
  intro H. induction H as [|w H [l ->]|n w H [l ->]].
  - exists []. reflexivity.
  - exists (SeqSpec.WNl :: l). reflexivity.
  - exists ((lp ++ concat (repeat li n)) ++ l). rewrite ws_str_app, pdg_wsc. reflexivity.
Qed.

Lemma semit_app a b : semit (a ++ b) = semit a ++ semit b.
Proof. apply flat_map_app. Qed.
Lemma semit_ws_text l : semit (SeqSpec.ws_text l) = SeqSpec.ws_str l.
Proof. destruct l; [reflexivity|]. cbn [SeqSpec.ws_text semit flat_map semit1 emit1]. apply app_nil_r. Qed.

Definition head_not_text (its : list sitem) : Prop := match its with it :: _ => is_stext it = false | [] => True end.
Lemma spadded_head prefix indent its out : spadded prefix indent its out -> head_not_text its.
Proof. intro H. destruct H; cbn [head_not_text is_stext]; auto. Qed.

Lemma insert_ws_pre l its ws : head_not_text its ->
  exists ws2, semit (SeqSpec.insert_ws_from ws2 its) = SeqSpec.ws_str l ++ semit (SeqSpec.insert_ws_from ws its).
Proof.
  intro Hh. destruct its as [|it its'].
  - destruct ws as [|w ws'].
    + exists [l]. cbn [SeqSpec.insert_ws_from]. rewrite semit_ws_text. cbn [semit flat_map]. rewrite app_nil_r. reflexivity.
    + exists [l ++ w]. cbn [SeqSpec.insert_ws_from]. rewrite !semit_ws_text. apply ws_str_app.
  - cbn [head_not_text] in Hh. destruct ws as [|w ws'].
    + exists [l]. cbn [SeqSpec.insert_ws_from]. change (SeqSpec.is_text_item it) with (is_stext it). rewrite Hh.
      rewrite !semit_app, semit_ws_text. reflexivity.
    + exists ((l ++ w) :: ws'). cbn [SeqSpec.insert_ws_from]. change (SeqSpec.is_text_item it) with (is_stext it). rewrite Hh.
      rewrite !semit_app, !semit_ws_text, ws_str_app, <- app_assoc. reflexivity.
Qed.

Lemma spadded_insert_ws lp li its out : spadded (SeqSpec.ws_str lp) (SeqSpec.ws_str li) its out ->
  exists ws, out = semit (SeqSpec.insert_ws ws its).
Proof.
  unfold SeqSpec.insert_ws.
  intro H. induction H as [w Hw|w it its out Hw Hi H IH|w n a x n' its out Hw H IH|w n a x its out Hw H IH];
    destruct (pad_wsc lp li w Hw) as [l ->].
  - exists [l]. cbn [SeqSpec.insert_ws_from]. symmetry. apply semit_ws_text.
  - destruct IH as [ws ->]. exists (l :: ws). cbn [SeqSpec.insert_ws_from]. change (SeqSpec.is_text_item it) with (is_stext it). rewrite Hi.
    rewrite semit_app, semit_ws_text. reflexivity.
  - destruct IH as [ws ->]. exists (l :: [] :: [] :: ws). cbn [SeqSpec.insert_ws_from SeqSpec.is_text_item SeqSpec.ws_text app].
    rewrite semit_app, semit_ws_text. cbn [semit flat_map]. rewrite <- ?app_assoc. reflexivity.
  - destruct IH as [ws ->].
    destruct (insert_ws_pre [SeqSpec.WNl] its ws (spadded_head _ _ _ _ H)) as [ws2 E].
    exists (l :: [] :: ws2). cbn [SeqSpec.insert_ws_from SeqSpec.is_text_item SeqSpec.ws_text app].
    rewrite semit_app, semit_ws_text. cbn [semit flat_map]. fold (semit (SeqSpec.insert_ws_from ws2 its)). rewrite E.
    rewrite <- ?app_assoc. reflexivity.
Qed.

(* 4. the gap form, for every prefix / indent: a pad before the first item and after each item *)
Theorem senc_indent_code_gaps : forall o st mar mari,
  senc_view st o ->
  forall prefix indent m t i c p m' t', pp_reach st prefix indent m t (i, c, p, m', t') ->
  forall f v sb key its, vd v < f -> text_ok o v = true -> senc o v key = Ok its ->
  exists g0 gs,
    fn_mapToXmlSeqIndent (run_escapeChars st) (run_Indent st) (run_Outdent st) (run_sort st) mar mari f st true sb key v i c p m' t' =
    Ret (None, (sb ++ g0 ++ szipr its gs, i, c, p, m', t')) /\
    length gs = length its /\ pad_ok prefix indent g0 /\ Forall (pad_ok prefix indent) gs.
Proof.
  intros o st mar mari Hv prefix indent m t i c p m' t' Hr f v sb key its Hf Ht E.
  destruct (senc_indent_code_is_model_translated o st mar mari Hv prefix indent m t i c p m' t' Hr f v sb key Hf Ht) as (H1 & _).
  destruct (H1 its E) as (out & H & Hp).
  destruct (spadded_szipr prefix indent its out Hp) as (g0 & gs & Hl & H0 & Hgs & ->).
  exists g0, gs. split; [exact H|]. split; [exact Hl|]. split; assumption.
Qed.

(* 5. the gap form of Spec/SeqSpec.v (the one Props/C04.v seq_roundtrip quantifies over), for a prefix and an indent made of
   blanks, tabs and newlines: the indented encoder appends semit (insert_ws ws its) for some ws *)
Theorem senc_indent_code_insert_ws : forall o st mar mari,
  senc_view st o ->
  forall lp li m t i c p m' t', pp_reach st (SeqSpec.ws_str lp) (SeqSpec.ws_str li) m t (i, c, p, m', t') ->
  forall f v sb key its, vd v < f -> text_ok o v = true -> senc o v key = Ok its ->
  exists ws,
    fn_mapToXmlSeqIndent (run_escapeChars st) (run_Indent st) (run_Outdent st) (run_sort st) mar mari f st true sb key v i c p m' t' =
    Ret (None, (sb ++ semit (SeqSpec.insert_ws ws its), i, c, p, m', t')).
Proof.
  intros o st mar mari Hv lp li m t i c p m' t' Hr f v sb key its Hf Ht E.
  destruct (senc_indent_code_is_model_translated o st mar mari Hv _ _ m t i c p m' t' Hr f v sb key Hf Ht) as (H1 & _).
  destruct (H1 its E) as (out & H & Hp).
  destruct (spadded_insert_ws lp li its out Hp) as [ws ->].
  exists ws. exact H.
Qed.

Print Assumptions senc_indent_code_conv.
Print Assumptions senc_indent_code_is_model.
Print Assumptions senc_indent_code_is_model_translated.
Print Assumptions senc_indent_code_returns.
Print Assumptions senc_indent_code_no_panic.
Print Assumptions senc_indent_code_marshal_arm.
Print Assumptions senc_indent_code_gaps.
Print Assumptions senc_indent_code_insert_ws.

(* ------------------------------------------------------------------ 6. non-vacuity *)

Definition no_mar (v : value) : res str := Err EOther.
Definition no_mari (v : value) (a b : str) : res str := Err EOther.
Notation fnI st := (fn_mapToXmlSeqIndent (run_escapeChars st) (run_Indent st) (run_Outdent st) (run_sort st) no_mar no_mari).

(* ex_doc of PureG17.v (attributes in sequence order, text before the sub-elements, a comment, a list interleaved with another
   element, a processing instruction, an empty element), indent "  ", prefix "": every hypothesis holds; the items; the bytes *)
Example senc_indent_example :
  senc_view gstate0 (state_opts gstate0) /\ vd ex_doc < 5 /\ text_ok (state_opts gstate0) ex_doc = true /\ no_marshal ex_doc = true /\
  pp_reach gstate0 (s "") (s "  ") 0%Z 0%Z (s "  ", 0%Z, s "", 0%Z, 0%Z) /\
  senc (state_opts gstate0) ex_doc (s "doc") =
    Ok [SI (IOpen (s "doc") [(s "j", s "w&"); (s "k", s "v")]); SI (IText (s "lead"));
        SComment (s "cm");
        SI (IOpen (s "b") []); SI (IText (s "x")); SI (IClose (s "b"));
        SI (IOpen (s "c") []); SI (IText (s "y")); SI (IClose (s "c"));
        SI (IOpen (s "b") []); SI (IText (s "z")); SI (IClose (s "b"));
        SProcInst (s "t") (s "i");
        SI (IEmpty (s "e") []);
        SI (IClose (s "doc"))] /\
  fnI gstate0 5 gstate0 true (s "<?xml?>") (s "doc") ex_doc (s "  ") 0%Z (s "") 0%Z 0%Z =
    Ret (None, (s "<?xml?><doc j=""w&"" k=""v"">lead" ++ nl_str ++
                s "  <!--cm-->" ++ nl_str ++
                s "  <b>x</b>" ++ nl_str ++
                s "  <c>y</c>" ++ nl_str ++
                s "  <b>z</b>" ++ nl_str ++
                s "  <?t i?>" ++ nl_str ++
                s "  <e/>" ++ nl_str ++
                s "</doc>", s "  ", 0%Z, s "", 0%Z, 0%Z)).
Proof.
  split; [apply state_opts_senc_view|]. split; [vm_compute; lia|]. split; [reflexivity|]. split; [reflexivity|].
  split; [constructor|]. split; vm_compute; reflexivity.
Qed.

(* the same document from a pretty record one Indent deeper, prefix "pp" (no whitespace): the padding is "pp  " and the element
   is followed by a newline (cnt 1 > start 0) *)
Example senc_indent_example_deeper :
  pp_reach gstate0 (s "pp") (s "  ") 0%Z 0%Z (s "  ", 1%Z, s "pp  ", 0%Z, 0%Z) /\
  fnI gstate0 5 gstate0 true [] (s "doc") ex_doc (s "  ") 1%Z (s "pp  ") 0%Z 0%Z =
    Ret (None, (s "pp  <doc j=""w&"" k=""v"">lead" ++ nl_str ++
                s "pp    <!--cm-->" ++ nl_str ++
                s "pp    <b>x</b>" ++ nl_str ++
                s "pp    <c>y</c>" ++ nl_str ++
                s "pp    <b>z</b>" ++ nl_str ++
                s "pp    <?t i?>" ++ nl_str ++
                s "pp    <e/>" ++ nl_str ++
                s "pp  </doc>" ++ nl_str, s "  ", 1%Z, s "pp  ", 0%Z, 0%Z)).
Proof.
  split; [exact (ppr_indent gstate0 (s "pp") (s "  ") 0%Z 0%Z _ _ _ _ _ (ppr_init gstate0 (s "pp") (s "  ") 0%Z 0%Z))|].
  vm_compute. reflexivity.
Qed.

(* values the decoder never produces, inside the domain: nil, a scalar under a special key, a list inside a list, an empty map,
   an empty list: raw bytes are written whole after a pad, the members of the inner list at the depth of their siblings *)
Definition ex_odd : value :=
  VMap [(s "a", VNil); (s "#comment", VStr (s "x")); (s "b", VList [VList [VStr (s "1"); VNil]; VStr (s "2")]); (s "c", VMap []); (s "d", VList [])].
Example senc_indent_example_odd :
  vd ex_odd < 4 /\ text_ok (state_opts gstate0) ex_odd = true /\ no_marshal ex_odd = true /\
  senc (state_opts gstate0) ex_odd (s "r") =
    Ok [SI (IOpen (s "r") []); SI (IOpen (s "c") []); SI (IClose (s "c"));
        SI (IOpen (s "b") []); SI (IText (s "2")); SI (IClose (s "b"));
        SI (IOpen (s "b") []); SI (IText (s "1")); SI (IClose (s "b"));
        SRaw (s "<b"); SRaw (s ">x</#comment>"); SRaw (s "<a"); SI (IClose (s "r"))] /\
  fnI gstate0 4 gstate0 true [] (s "r") ex_odd (s "  ") 0%Z (s "") 0%Z 0%Z =
    Ret (None, (s "<r>" ++ nl_str ++
                s "  <c>" ++ nl_str ++
                s "  </c>" ++ nl_str ++
                s "  <b>2</b>" ++ nl_str ++
                s "  <b>1</b>" ++ nl_str ++
                s "  <b" ++ nl_str ++
                s "  >x</#comment>" ++ nl_str ++
                s "  <a" ++ nl_str ++
                s "</r>", s "  ", 0%Z, s "", 0%Z, 0%Z)).
Proof. split; [vm_compute; lia|]. split; [reflexivity|]. split; [reflexivity|]. split; vm_compute; reflexivity. Qed.

(* an error of the model (an attribute whose value is nil) is an error of the indented run *)
Example senc_indent_example_error :
  let v := VMap [(s "x", VMap [(s "#attr", VMap [(s "k", VMap [(s "#text", VNil)])]); (s "#seq", VInt 0)])] in
  vd v < 5 /\ text_ok (state_opts gstate0) v = true /\ no_marshal v = true /\ senc (state_opts gstate0) v (s "a") = Err EOther /\
  fnI gstate0 5 gstate0 true [] (s "a") v (s "  ") 0%Z (s "") 0%Z 0%Z =
    Ret (Some EOther, (s "<a>" ++ nl_str ++ s "  <x", s "  ", 0%Z, s "", 0%Z, 0%Z)).
Proof. cbv zeta. split; [vm_compute; lia|]. split; [reflexivity|]. split; [reflexivity|]. split; vm_compute; reflexivity. Qed.

(* a panic of the model (a.v.(map[string]interface{}) of an attribute that is a string) is a panic of the indented run *)
Example senc_indent_example_panic :
  let v := VMap [(s "#attr", VMap [(s "k", VStr (s "x"))])] in
  vd v < 5 /\ text_ok (state_opts gstate0) v = true /\ no_marshal v = true /\ senc (state_opts gstate0) v (s "a") = Panic /\
  fnI gstate0 5 gstate0 true [] (s "a") v (s "  ") 0%Z (s "") 0%Z 0%Z = Crash.
Proof. cbv zeta. split; [vm_compute; lia|]. split; [reflexivity|]. split; [reflexivity|]. split; vm_compute; reflexivity. Qed.

(* the bytes of a small document ARE of the gap form of Spec/SeqSpec.v: the gaps, explicitly (none is read in front of text) *)
Example senc_indent_example_gap_form :
  let v := VMap [(s "#text", VStr (s "t")); (s "b", VMap [(s "#seq", VInt 0)]); (s "#comment", VMap [(s "#text", VStr (s "c")); (s "#seq", VInt 1)])] in
  let its := [SI (IOpen (s "a") []); SI (IText (s "t")); SI (IEmpty (s "b") []); SComment (s "c"); SI (IClose (s "a"))] in
  let ws := [[]; []; [SeqSpec.WNl; SeqSpec.WSpace; SeqSpec.WSpace]; [SeqSpec.WNl; SeqSpec.WSpace; SeqSpec.WSpace]; [SeqSpec.WNl]; []] in
  senc (state_opts gstate0) v (s "a") = Ok its /\
  fnI gstate0 5 gstate0 true [] (s "a") v (s "  ") 0%Z (s "") 0%Z 0%Z =
    Ret (None, (s "<a>t" ++ nl_str ++ s "  <b/>" ++ nl_str ++ s "  <!--c-->" ++ nl_str ++ s "</a>", s "  ", 0%Z, s "", 0%Z, 0%Z)) /\
  s "<a>t" ++ nl_str ++ s "  <b/>" ++ nl_str ++ s "  <!--c-->" ++ nl_str ++ s "</a>" = semit (SeqSpec.insert_ws ws its) /\
  s "  " = SeqSpec.ws_str [SeqSpec.WSpace; SeqSpec.WSpace].
Proof. cbv zeta. repeat split; vm_compute; reflexivity. Qed.
