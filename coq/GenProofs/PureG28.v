(* marshalMapToXmlIndent (xml.go:1033-1432) as go2v translated it (Gen/Pure_gen.v: fn_marshalMapToXmlIndent) from /repo's CURRENT
   sources, in INDENTED mode (doIndent = true), with pretty.Indent / pretty.Outdent (fn_Indent / fn_Outdent) as the pretty functions:
   it writes the items of the model encoder [enc] of Model/XmlEnc.v - the same items as the compact mode (GenProofs/PureG18.v) - with
   only padding between them (properties C03 / C16), for EVERY value of the domain text_dom.  (Before /repo 77c834d an empty list
   member was written with p.padding inside its tag, "<e" ++ padding ++ "/>"; the two empty-list arms now set isSimple, and the
   examples at the end record the repaired bytes on the inputs that showed the defect.)

   Definitions.  [pdg prefix indent n] = prefix ++ indent^n: p.padding of every pretty record reachable from
   (indent, 0, prefix, m, t) by Indent / Outdent (pp_reach_shape, pp_reach_all: exactly the records (indent, n, pdg n, m, t)).
   [pad_ok prefix indent w]: w is a concatenation of newlines and padding strings.  [padded prefix indent its out]: out is the
   items its rendered one by one by emit1 with a pad before every tag and after the last item; character data only directly after
   its start tag, followed directly by the end tag (<k>text</k>: nothing inside) or by a newline and the children; no padding inside
   the bytes of any item.

   Method: that of PureG18.v with doIndent = true (pieces mi_end, mi_big, mi_map, mi_list, elem_bodyI, list_bodyI, mi_k1 .. mi_k4 taken
   out of the translated function by Ltac; the attribute / collection loops are PureG18's, reused); the invariant mi_conv carries the
   pretty record (indent, n, pdg n, m, t) and the relation padded; induction on the value (value_ind2).

   Theorems: marshal_map_indent_code_is_enc (any pretty functions with the two equations of Indent / Outdent),
   marshal_map_indent_code_is_enc_translated (the translated escapeChars / Indent / Outdent, any reachable pretty record),
   marshal_map_indent_code_insert_ws (the bytes are emit (insert_ws ws its) of Spec/Items.v, ws made of pads, ws_ok for a blank
   prefix / indent), marshal_map_indent_code_returns / _no_crash (every package state), pad_is_xml_whitespace, examples.
   What remains of layout oddities is inter-element only: an empty-list element is followed by a newline only when cnt > start
   like every element, but it is written one level deeper than its cnt, so a top-level one is not followed by a newline
   ("  <e/>  <z ...>" in marshal_map_indent_example); that is a pad like any other and within the gap form. *)
From Coq Require Import Lia.
From Mxj Require Import Gen.GenSupport Gen.Setters_gen Gen.PureSupport Gen.Pure_gen Model.XmlEnc.
From Mxj Require Import Spec.JsonRT Proofs.StrLemmas Proofs.XmlStr Proofs.XmlRT Proofs.C03P Proofs.C06Struct GenProofs.PureG GenProofs.PureG15.
From Mxj Require Import Spec.Items GenProofs.PureG17 GenProofs.PureG18.

(* ------------------------------------------------------------------ padding, padded *)

Definition nl_str : str := hx"0a".

Section Pad.
Variables prefix indent : str.

(* p.padding of the pretty record (indent, n, padding, _, _) reached from (indent, 0, prefix, _, _) by Indent / Outdent:
   the prefix followed by n copies of the indent *)
Definition pdg (n : nat) : str := prefix ++ concat (repeat indent n).

(* what the code writes between items: newlines and padding strings *)
Inductive pad_ok : str -> Prop :=
| pad_nil : pad_ok []
| pad_nl w : pad_ok w -> pad_ok (nl_str ++ w)
| pad_pdg n w : pad_ok w -> pad_ok (pdg n ++ w).

Definition is_text (it : item) : bool := match it with IText _ => true | _ => false end.

(* [padded its out]: out is the items its, each rendered by emit1, with a pad_ok string before each tag and after the last item;
   character data comes only directly after a start tag (no padding in between), and is followed either directly by the end tag
   (pd_leaf: <k>text</k> is written without any padding inside) or by a newline and what follows (pd_mixed);
   there is NO padding inside the bytes of an item *)
Inductive padded : list item -> str -> Prop :=
| pd_nil w : pad_ok w -> padded [] w
| pd_tag w it its out : pad_ok w -> is_text it = false -> padded its out -> padded (it :: its) (w ++ emit1 it ++ out)
| pd_leaf w n a x n' its out : pad_ok w -> padded its out ->
    padded (IOpen n a :: IText x :: IClose n' :: its) (w ++ emit [IOpen n a; IText x; IClose n'] ++ out)
| pd_mixed w n a x its out : pad_ok w -> padded its out ->
    padded (IOpen n a :: IText x :: its) (w ++ emit [IOpen n a; IText x] ++ nl_str ++ out).

Lemma pdg_S n : pdg (S n) = pdg n ++ indent.
Proof.
  unfold pdg. rewrite <- app_assoc. f_equal.
  change (repeat indent (S n)) with (indent :: repeat indent n). rewrite repeat_cons, concat_app. cbn [concat]. rewrite app_nil_r. reflexivity.
Qed.

Lemma pad_app a b : pad_ok a -> pad_ok b -> pad_ok (a ++ b).
Proof.
  intros Ha Hb. induction Ha as [|w Ha IH|n w Ha IH]; [exact Hb| |]; rewrite <- app_assoc; constructor; exact IH.
Qed.
Lemma pad_pdg1 n : pad_ok (pdg n).
Proof. rewrite <- (app_nil_r (pdg n)). constructor. constructor. Qed.
Lemma pad_nl1 : pad_ok nl_str.
Proof. rewrite <- (app_nil_r nl_str). constructor. constructor. Qed.

(* more padding in front *)
Lemma padded_pre w0 its out : pad_ok w0 -> padded its out -> padded its (w0 ++ out).
Proof.
  intros H0 H. destruct H; try rewrite (app_assoc w0 w).
  - constructor. apply pad_app; assumption.
  - constructor; [apply pad_app| |]; assumption.
  - constructor; [apply pad_app|]; assumption.
  - constructor; [apply pad_app|]; assumption.
Qed.

Lemma padded_app a oa b ob : padded a oa -> padded b ob -> padded (a ++ b) (oa ++ ob).
Proof.
  intros Ha Hb. induction Ha; cbn [app].
  - apply padded_pre; assumption.
  - rewrite <- (app_assoc w), <- (app_assoc (emit1 it)). constructor; assumption.
  - rewrite <- (app_assoc w), <- (app_assoc (emit _)). constructor; assumption.
  - rewrite <- (app_assoc w), <- (app_assoc (emit _)), <- (app_assoc nl_str). constructor; assumption.
Qed.

(* the shapes of leaves *)
Lemma padded_one w w' it : pad_ok w -> pad_ok w' -> is_text it = false -> padded [it] (w ++ emit [it] ++ w').
Proof.
  intros Hw Hw' Hi. cbn [emit flat_map]. rewrite app_nil_r. apply pd_tag; [assumption|assumption|constructor; assumption].
Qed.
Lemma padded_two w w' it1 it2 : pad_ok w -> pad_ok w' -> is_text it1 = false -> is_text it2 = false ->
  padded [it1; it2] (w ++ emit [it1; it2] ++ w').
Proof.
  intros Hw Hw' H1 H2. cbn [emit flat_map]. rewrite app_nil_r, <- app_assoc.
  apply pd_tag; [assumption|assumption|]. apply (pd_tag [] it2 [] w'); [constructor|assumption|constructor; assumption].
Qed.
Lemma padded_three w w' n a x n' : pad_ok w -> pad_ok w' ->
  padded [IOpen n a; IText x; IClose n'] (w ++ emit [IOpen n a; IText x; IClose n'] ++ w').
Proof. intros Hw Hw'. apply pd_leaf; [assumption|constructor; assumption]. Qed.
Lemma padded_coe o w w' key attrs : pad_ok w -> pad_ok w' ->
  padded (close_or_empty o key attrs) (w ++ emit (close_or_empty o key attrs) ++ w').
Proof.
  intros Hw Hw'. unfold close_or_empty. destruct (useGoXmlEmptyElemSyntax o); [apply padded_two|apply padded_one]; auto.
Qed.
End Pad.

(* with a prefix and an indent made of XML whitespace (space, tab, CR, LF) every pad is XML whitespace *)
Definition xml_ws_char (c : ascii) : bool :=
  let n := nat_of_ascii c in Nat.eqb n 32 || Nat.eqb n 9 || Nat.eqb n 13 || Nat.eqb n 10.
Definition xml_wsb (w : str) : bool := forallb xml_ws_char w.

Lemma xml_ws_app a b : xml_wsb (a ++ b) = xml_wsb a && xml_wsb b.
Proof. apply forallb_app. Qed.
Lemma xml_ws_pdg prefix indent n : xml_wsb prefix = true -> xml_wsb indent = true -> xml_wsb (pdg prefix indent n) = true.
Proof.
  intros Hp Hi. unfold pdg. rewrite xml_ws_app, Hp. cbn [andb].
  induction n as [|n IH]; [reflexivity|]. cbn [repeat concat]. rewrite xml_ws_app, Hi, IH. reflexivity.
Qed.
Lemma pad_ok_xml_ws prefix indent w : xml_wsb prefix = true -> xml_wsb indent = true -> pad_ok prefix indent w -> xml_wsb w = true.
Proof.
  intros Hp Hi H. induction H as [|w H IH|n w H IH]; [reflexivity| |]; rewrite xml_ws_app, IH.
  - reflexivity.
  - rewrite xml_ws_pdg by assumption. reflexivity.
Qed.

(* ------------------------------------------------------------------ the pieces of the translated function, doIndent = true *)
Section PiecesI.
Variable esc : str -> str.
Variables ind outd : str -> Z -> str -> Z -> Z -> pp5.
Variable sortA : list (list str) -> list (list str).
Variable sortE : list (list value) -> list (list value).
Variable xm : value -> res str.
Variable xmi : value -> str -> str -> res str.
Variable st : gstate.

Notation fn := (fn_marshalMapToXmlIndent esc ind outd sortA sortE xm xmi).

(* the statements after the big type switch (end tag, newline, Outdent) *)
Definition mi_end (key : str) (i : str) (c : Z) (p : str) (m t : Z) : mm_st15 -> ctl unit mm_res :=
  ltac:(let T := eval cbv beta iota zeta delta [fn_marshalMapToXmlIndent negb] in (fn (S O) st true [] key VNil i c p m t) in
        match T with bindc _ ?k1 =>
          let t2 := eval cbv beta iota zeta in (k1 VNil) in
          match t2 with bindc _ ?k2 =>
            let t3 := eval cbv beta iota zeta in (k2 (VStr [])) in
            match t3 with bindc _ ?k3 =>
              let t4 := eval cbv beta iota zeta in (k3 (@None err, @nil ascii)) in
              match t4 with bindc _ ?k4 =>
                let t5 := eval cbv beta iota zeta in (k4 (@None err, @nil ascii)) in
                match t5 with bindc _ ?k5 => exact k5 end
              end
            end
          end
        end).

(* the big type switch on the (normalised) value, with the function's own fixpoint inside; b is the buffer after padding and "<key" *)
Definition mi_big_f (f : nat) (b key : str) (v : value) (i : str) (c : Z) (p : str) (m t : Z) : ctl mm_st15 mm_res :=
  ltac:(let T := eval cbv beta iota zeta delta [fn_marshalMapToXmlIndent negb] in (fn (S f) st true b key v i c p m t) in
        match T with bindc _ ?k1 =>
          let t2 := eval cbv beta iota zeta in (k1 v) in
          match t2 with bindc _ ?k2 =>
            let t3 := eval cbv beta iota zeta in (k2 v) in
            match t3 with bindc _ ?k3 =>
              let t4 := eval cbv beta iota zeta in (k3 (@None err, b)) in
              match t4 with bindc _ ?k4 =>
                let t5 := eval cbv beta iota zeta in (k4 (@None err, b)) in
                match t5 with bindc ?a5 _ => exact a5 end
              end
            end
          end
        end).

(* the same with the recursive occurrence abstracted *)
Definition mi_big (rec : mm_rec) (b key : str) (v : value) (i : str) (c : Z) (p : str) (m t : Z) : ctl mm_st15 mm_res :=
  ltac:(let F := eval cbv beta iota zeta delta [fn_marshalMapToXmlIndent negb] in fn in
        let b := eval cbv beta iota zeta delta [mi_big_f fn_marshalMapToXmlIndent negb] in (fun f => mi_big_f f b key v i c p m t) in
        let b' := eval pattern F in b in
        match b' with ?g _ => let r := eval cbv beta in (g (fun _ : nat => rec) O) in exact r end).

Lemma mi_unfold_map f b key vv i c p m t :
  fn (S f) st true b key (VMap vv) i c p m t =
  bindc (mi_big (fn f) ((b ++ p) ++ s "<" ++ key) key (VMap vv) i c p m t) (mi_end key i c p m t).
Proof. reflexivity. Qed.
Lemma mi_unfold_list f b key l i c p m t :
  fn (S f) st true b key (VList l) i c p m t =
  bindc (mi_big (fn f) b key (VList l) i c p m t) (mi_end key i c p m t).
Proof. reflexivity. Qed.

Section BodiesI.
Variable rec : mm_rec.
Variables (b key : str) (vv : entries) (l : list value) (i : str) (c : Z) (p : str) (m t : Z).

Definition mi_map : ctl mm_st15 mm_res :=
  ltac:(let T := eval cbv beta iota zeta delta [mi_big] in (mi_big rec b key (VMap vv) i c p m t) in exact T).
Definition mi_list : ctl mm_st15 mm_res :=
  ltac:(let T := eval cbv beta iota zeta delta [mi_big] in (mi_big rec b key (VList l) i c p m t) in exact T).

Definition elem_bodyI : (str * Z * str * Z * Z * Z * str * str * Z * str * Z * Z) -> list value -> ctl (str * Z * str * Z * Z * Z * str * str * Z * str * Z * Z) mm_res :=
  ltac:(let T := eval cbv beta delta [mi_map] in mi_map in
        match T with context [@range_loop (str * Z * str * Z * Z * Z * str * str * Z * str * Z * Z)%type _ _ ?B _ _] => exact B end).
Definition list_bodyI : (str * Z * str * Z * Z * str * str * Z * str * Z * Z) -> value -> ctl (str * Z * str * Z * Z * str * str * Z * str * Z * Z) mm_res :=
  ltac:(let T := eval cbv beta delta [mi_list] in mi_list in
        match T with context [@range_loop (str * Z * str * Z * Z * str * str * Z * str * Z * Z)%type _ _ ?B _ _] => exact B end).
End BodiesI.
End PiecesI.

(* ------------------------------------------------------------------ the Map case, stage by stage *)
Section StagesI.
Variable esc : str -> str.
Variables ind outd : str -> Z -> str -> Z -> Z -> pp5.
Variable sortA : list (list str) -> list (list str).
Variable sortE : list (list value) -> list (list value).
Variable st : gstate.
Variable rec : mm_rec.
Variables (b key : str) (vv : entries) (i : str) (c : Z) (p : str) (m t : Z).

Definition mi_k1 : (str * list (list str) * Z) -> ctl mm_st15 mm_res :=
  ltac:(let T := eval cbv beta delta [mi_map] in (mi_map esc ind outd sortA sortE st rec b key vv i c p m t) in
        match T with (if _ then Crash else bindc _ ?K) => exact K end).
Definition mi_k2 (n : Z) : (list (list str) * option err * str) -> ctl mm_st15 mm_res :=
  ltac:(let T := eval cbv beta iota delta [mi_k1] in (fun (ss : str) (al : list (list str)) => mi_k1 (ss, al, n)) in
        match T with (fun ss al => bindc _ ?K) => exact K end).
Definition mi_k3 (n : Z) : ((option err * str) + ctl mm_st15 mm_res) -> ctl mm_st15 mm_res :=
  ltac:(let T := eval cbv beta iota delta [mi_k2] in (fun al e b => mi_k2 n (al, e, b)) in
        match T with (fun al e b => bindc _ ?K) => exact K end).
Definition mi_k4 : ((value * option err * str * bool * Z * bool * bool) + ctl mm_st15 mm_res) -> ctl mm_st15 mm_res :=
  ltac:(let T := eval cbv beta iota delta [mi_k3] in (fun n e b => mi_k3 n (inl (e, b))) in
        match T with context [@bindc (sum (value * option err * str * bool * Z * bool * bool) _) _ _ _ ?K] => exact K end).
End StagesI.

Definition is_vlist (v : value) : bool := match v with VList _ => true | _ => false end.

(* ------------------------------------------------------------------ the loops over the children, the list case, the scalar cases *)
Section LoopsI.
Variables (st : gstate) (o : opts).
Hypothesis Hview : enc_view st o.
Variable escf : str -> str.
Hypothesis Hesc : forall x, escf x = escape_chars x.
Variables prefix indent : str.
Variables ind outd : str -> Z -> str -> Z -> Z -> pp5.
(* what is needed of pretty.Indent / pretty.Outdent *)
Hypothesis Hind : forall i c p m t, ind i c p m t = (i, (c + 1)%Z, p ++ i, m, t).
Hypothesis Houtd : forall i c p m t, (0 <= c)%Z -> outd i (c + 1)%Z (p ++ i) m t = (i, c, p, m, t).
Variable t : Z.      (* pretty.start *)

Notation pdg := (pdg prefix indent).
Notation padded := (padded prefix indent).
Notation pad_ok := (pad_ok prefix indent).

Lemma ind_S n m : ind indent (Z.of_nat n) (pdg n) m t = (indent, Z.of_nat (S n), pdg (S n), m, t).
Proof. rewrite Hind, pdg_S, Nat2Z.inj_succ. reflexivity. Qed.
Lemma outd_S n m : outd indent (Z.of_nat (S n)) (pdg (S n)) m t = (indent, Z.of_nat n, pdg n, m, t).
Proof. rewrite pdg_S, Nat2Z.inj_succ. apply Houtd. lia. Qed.

(* the newline after an element: written when cnt > start *)
Definition nl_after (n : nat) : str := if (Z.of_nat n >? t)%Z then nl_str else [].
Lemma pad_nl_after n : pad_ok (nl_after n).
Proof. unfold nl_after. destruct (Z.of_nat n >? t)%Z; [apply pad_nl1|constructor]. Qed.

(* what the translated encoder returns, in indented mode with the pretty record (indent, n, prefix ++ indent^n, m, t), against
   what the model returns *)
Definition mi_conv (b : str) (n : nat) (m : Z) (r : res (list item)) (x : ctl unit mm_res) : Prop :=
  match r with
  | Ok its => exists out, x = Ret (None, (b ++ out, indent, Z.of_nat n, pdg n, m, t)) /\ padded its out
  | Err _ => exists e b', x = Ret (Some e, (b', indent, Z.of_nat n, pdg n, m, t))
  | Panic => False
  end.

Section WithRec.
Variable rec : mm_rec.

Lemma elem_stepI k v b n m i0 c0 p0 m0 t0 :
  elem_bodyI ind outd st rec (indent, Z.of_nat n, pdg n, m, t, 0%Z, b, i0, c0, p0, m0, t0) (vrow_of (k, v)) =
  if is_vlist v
  then bindr (rec st true b k v indent (Z.of_nat n) (pdg n) m t)
         (fun '(e, (b1, i1, c1, p1, m1, t1)) =>
          match e with
          | Some _ => Ret (e, (b1, i0, c0, p0, m0, t0))
          | None => Next (i1, c1, p1, m1, t1, 0%Z, b1, i0, c0, p0, m0, t0)
          end)
  else bindr (rec st true b k v indent (Z.of_nat (S n)) (pdg (S n)) m t)
         (fun '(e, (b1, i1, c1, p1, m1, t1)) =>
          match e with
          | Some _ => Ret (e, (b1, i0, c0, p0, m0, t0))
          | None => let '(i2, c2, p2, m2, t2) := outd i1 c1 p1 m1 t1 in Next (i2, c2, p2, m2, t2, 0%Z, b1, i0, c0, p0, m0, t0)
          end).
Proof.
  unfold elem_bodyI. cbv beta iota. unfold vrow_of. cbn [fst snd nth_error].
  destruct v; cbn [is_vlist Z.eqb]; rewrite ?ind_S; cbn [bindc];
  match goal with |- context [rec ?a ?b ?c ?d ?e ?f ?g ?h ?i ?j] => destruct (rec a b c d e f g h i j) as [[e' [[[[[? ?] ?] ?] ?] ?]]| | | |] end;
  try reflexivity; cbn [bindr]; destruct e'; cbn [bindc]; try reflexivity;
  match goal with |- context [outd ?a ?b ?c ?d ?e] => destruct (outd a b c d e) as [[[[? ?] ?] ?] ?] end; reflexivity.
Qed.

Lemma list_stepI key v b n m i0 c0 p0 m0 t0 :
  list_bodyI ind outd st rec key (indent, Z.of_nat n, pdg n, m, t, b, i0, c0, p0, m0, t0) v =
  bindr (rec st true b key v indent (Z.of_nat (S n)) (pdg (S n)) m t)
    (fun '(e, (b1, i1, c1, p1, m1, t1)) =>
     match e with
     | Some _ => Ret (e, (b1, i0, c0, p0, m0, t0))
     | None => let '(i2, c2, p2, m2, t2) := outd i1 c1 p1 m1 t1 in Next (i2, c2, p2, m2, t2, b1, i0, c0, p0, m0, t0)
     end).
Proof.
  unfold list_bodyI. cbv beta iota. rewrite ind_S. cbn [bindc].
  destruct (rec st true b key v indent (Z.of_nat (S n)) (pdg (S n)) m t) as [[e' [[[[[b1 i1] c1] p1] m1] t1]]| | | |]; try reflexivity.
  cbn [bindr]. destruct e'; cbn [bindc]; reflexivity.
Qed.

(* encoding the sub-elements in order: a list member with the pretty record of the Map, any other one level deeper *)
Lemma elem_loopI : forall (l : entries),
  (forall k v, In (k, v) l -> forall b n m, mi_conv b n m (enc o v k) (rec st true b k v indent (Z.of_nat n) (pdg n) m t)) ->
  forall b n m i0 c0 p0 m0 t0,
  match concat_res (map (fun kv => enc o (snd kv) (fst kv)) l) with
  | Ok body => exists out,
      range_loop (elem_bodyI ind outd st rec) (map vrow_of l) (indent, Z.of_nat n, pdg n, m, t, 0%Z, b, i0, c0, p0, m0, t0) =
      Next (indent, Z.of_nat n, pdg n, m, t, 0%Z, b ++ out, i0, c0, p0, m0, t0) /\ padded body out
  | Err _ => exists e b', range_loop (elem_bodyI ind outd st rec) (map vrow_of l) (indent, Z.of_nat n, pdg n, m, t, 0%Z, b, i0, c0, p0, m0, t0) =
                          Ret (Some e, (b', i0, c0, p0, m0, t0))
  | Panic => False
  end.
Proof.
  induction l as [|[k v] l IH]; intros Hrec b n m i0 c0 p0 m0 t0.
  - cbn [map concat_res range_loop]. exists []. rewrite app_nil_r. split; [reflexivity|constructor; constructor].
  - cbn [map concat_res range_loop fst snd].
    assert (H1 := Hrec k v (or_introl eq_refl) b (if is_vlist v then n else S n) m).
    rewrite elem_stepI.
    specialize (IH (fun k' v' Hin => Hrec k' v' (or_intror Hin))).
    destruct (enc o v k) as [its|e|]; cbn [mi_conv bind] in H1 |- *.
    + destruct H1 as (out1 & H1 & Hp1).
      assert (E : (if is_vlist v
                   then bindr (rec st true b k v indent (Z.of_nat n) (pdg n) m t)
                          (fun '(e, (b1, i1, c1, p1, m1, t1)) =>
                           match e with
                           | Some _ => Ret (e, (b1, i0, c0, p0, m0, t0))
                           | None => Next (i1, c1, p1, m1, t1, 0%Z, b1, i0, c0, p0, m0, t0)
                           end)
                   else bindr (rec st true b k v indent (Z.of_nat (S n)) (pdg (S n)) m t)
                          (fun '(e, (b1, i1, c1, p1, m1, t1)) =>
                           match e with
                           | Some _ => Ret (e, (b1, i0, c0, p0, m0, t0))
                           | None => let '(i2, c2, p2, m2, t2) := outd i1 c1 p1 m1 t1 in Next (i2, c2, p2, m2, t2, 0%Z, b1, i0, c0, p0, m0, t0)
                           end)) = Next (S := str * Z * str * Z * Z * Z * str * str * Z * str * Z * Z) (A := mm_res)
                                     (indent, Z.of_nat n, pdg n, m, t, 0%Z, b ++ out1, i0, c0, p0, m0, t0)).
      { destruct (is_vlist v); rewrite H1; cbn [bindr]; [reflexivity|]. rewrite outd_S. reflexivity. }
      unfold mm_res in E |- *. rewrite E. clear E. cbv iota.
      specialize (IH (b ++ out1) n m i0 c0 p0 m0 t0).
      destruct (concat_res (map (fun kv => enc o (snd kv) (fst kv)) l)) as [body|e|]; cbn [bind]; [|exact IH|exact IH].
      destruct IH as (out2 & IH & Hp2). exists (out1 ++ out2). rewrite app_assoc.
      split; [exact IH|apply padded_app; assumption].
    + destruct H1 as (e' & b' & H1). exists e', b'. destruct (is_vlist v); rewrite H1; reflexivity.
    + exact H1.
Qed.

(* encoding the members of a list under the same key, each one level deeper *)
Lemma list_loopI key : forall (l : list value),
  (forall v, In v l -> forall b n m, mi_conv b n m (enc o v key) (rec st true b key v indent (Z.of_nat n) (pdg n) m t)) ->
  forall b n m i0 c0 p0 m0 t0,
  match concat_res (map (fun v => enc o v key) l) with
  | Ok body => exists out,
      range_loop (list_bodyI ind outd st rec key) l (indent, Z.of_nat n, pdg n, m, t, b, i0, c0, p0, m0, t0) =
      Next (indent, Z.of_nat n, pdg n, m, t, b ++ out, i0, c0, p0, m0, t0) /\ padded body out
  | Err _ => exists e b', range_loop (list_bodyI ind outd st rec key) l (indent, Z.of_nat n, pdg n, m, t, b, i0, c0, p0, m0, t0) =
                          Ret (Some e, (b', i0, c0, p0, m0, t0))
  | Panic => False
  end.
Proof.
  induction l as [|v l IH]; intros Hrec b n m i0 c0 p0 m0 t0.
  - cbn [map concat_res range_loop]. exists []. rewrite app_nil_r. split; [reflexivity|constructor; constructor].
  - cbn [map concat_res range_loop].
    assert (H1 := Hrec v (or_introl eq_refl) b (S n) m).
    rewrite list_stepI.
    specialize (IH (fun v' Hin => Hrec v' (or_intror Hin))).
    destruct (enc o v key) as [its|e|]; cbn [mi_conv bind] in H1 |- *.
    + destruct H1 as (out1 & H1 & Hp1). rewrite H1. cbn [bindr]. rewrite outd_S.
      specialize (IH (b ++ out1) n m i0 c0 p0 m0 t0).
      destruct (concat_res (map (fun v => enc o v key) l)) as [body|e|]; cbn [bind]; [|exact IH|exact IH].
      destruct IH as (out2 & IH & Hp2). exists (out1 ++ out2). rewrite IH, app_assoc.
      split; [reflexivity|apply padded_app; assumption].
    + destruct H1 as (e' & b' & H1). rewrite H1. cbn [bindr]. exists e', b'. reflexivity.
    + exact H1.
Qed.

(* the list case: the members one level deeper; an empty list is the empty element at padding(n+1), nothing inside the tag *)
Lemma mi_list_conv key l b n m :
  (forall v, In v l -> forall b n m, mi_conv b n m (enc o v key) (rec st true b key v indent (Z.of_nat n) (pdg n) m t)) ->
  mi_conv b n m (enc o (VList l) key)
    (bindc (mi_list ind outd st rec b key l indent (Z.of_nat n) (pdg n) m t) (mi_end outd st key indent (Z.of_nat n) (pdg n) m t)).
Proof.
  intros Hrec. unfold mi_list.
  destruct l as [|v l].
  - cbn [length Z.of_nat Z.eqb bindc enc mi_conv]. unfold mi_end. cbn [bindc Z.gtb Z.compare Z.eqb].
    assert (Vg : useGoXmlEmptyElemSyntax o = g_useGoXmlEmptyElemSyntax st) by apply Hview.
    exists (pdg (S n) ++ emit (close_or_empty o key []) ++ nl_after n).
    split; [|apply padded_coe; [apply pad_pdg1|apply pad_nl_after]].
    unfold close_or_empty. rewrite Vg.
    destruct (outd indent (Z.of_nat n) (pdg n) m t) as [[[[x1 x2] x3] x4] x5].
    unfold nl_after.
    destruct (g_useGoXmlEmptyElemSyntax st); cbn [bindc]; destruct (Z.of_nat n >? t)%Z; cbn [bindc emit flat_map emit1 emit_attrs];
      rewrite pdg_S, <- ?app_assoc; reflexivity.
  - replace (Z.of_nat (length (v :: l)) =? 0)%Z with false by (symmetry; apply Z.eqb_neq; cbn [length]; lia).
    match goal with |- context [range_loop ?B (v :: l) _] => change B with (list_bodyI ind outd st rec key) end.
    cbn [bindc].
    assert (HL := list_loopI key (v :: l) Hrec b n m indent (Z.of_nat n) (pdg n) m t). unfold mm_res in HL.
    change (enc o (VList (v :: l)) key) with (concat_res (map (fun v => enc o v key) (v :: l))).
    destruct (concat_res (map (fun v => enc o v key) (v :: l))) as [body|e|]; cbn [mi_conv].
    + destruct HL as (out & HL & Hp). rewrite HL. exists out. split; [reflexivity|exact Hp].
    + destruct HL as (e' & b' & HL). rewrite HL. exists e', b'. reflexivity.
    + exact HL.
Qed.

Variable xm : value -> res str.
Variable xmi : value -> str -> str -> res str.
Notation fn := (fn_marshalMapToXmlIndent escf ind outd sort_rows sort_vrows xm xmi).

Ltac fin_scalarI Vg n m :=
  cbn [length Z.of_nat Z.gtb Z.compare Z.eqb enc mi_conv];
  unfold close_or_empty; rewrite ?Vg; try destruct (g_useGoXmlEmptyElemSyntax st);
  destruct (outd indent (Z.of_nat n) (pdg n) m t) as [[[[? ?] ?] ?] ?];
  match goal with |- exists out, _ /\ padded ?its out => exists (pdg n ++ emit its ++ nl_after n) end;
  (split; [unfold nl_after; destruct (Z.of_nat n >? t)%Z; cbn [emit flat_map emit1 emit_attrs]; rewrite <- ?app_assoc; reflexivity
         | first [apply padded_three | apply padded_two | apply padded_one]; try reflexivity; try apply pad_pdg1; try apply pad_nl_after]).

(* a scalar: padding "<key>text</key>" (or the empty element), newline when cnt > start; nothing inside *)
Lemma mi_scalar_conv f b key v n m : is_container v = false ->
  mi_conv b n m (enc o v key) (fn (S f) st true b key v indent (Z.of_nat n) (pdg n) m t).
Proof.
  intros Hc. destruct Hview as (_ & _ & _ & Ve & Vg).
  assert (E : forall x, (if g_xmlEscapeChars st then Next (escf x) else Next x) = Next (S := str) (A := mm_res) (esc o x)).
  { intro x. unfold esc. rewrite Ve, Hesc. destruct (g_xmlEscapeChars st); reflexivity. }
  unfold mm_res in E.
  destruct v; try discriminate Hc; cbv beta iota zeta delta [fn_marshalMapToXmlIndent bindc negb go_fmt_v fmt_v].
  - rewrite E. cbn [enc]. destruct (esc o x) as [|ch e]; fin_scalarI Vg n m.
  - destruct b0; cbn [enc fmt_v]; [change (s "true") with ("t"%char :: s "rue") | change (s "false") with ("f"%char :: s "alse")]; fin_scalarI Vg n m.
  - rewrite E. cbn [enc]. replace (esc o []) with (@nil ascii) by (unfold esc; destruct (xmlEscapeChars o); reflexivity). fin_scalarI Vg n m.
  - cbn [enc fmt_v]. destruct (ztoa z) as [|ch e] eqn:Ez; [destruct (ztoa_nonempty z Ez)|]. fin_scalarI Vg n m.
  - cbn [enc fmt_v]. destruct (ztoa z) as [|ch e] eqn:Ez; [destruct (ztoa_nonempty z Ez)|]. fin_scalarI Vg n m.
  - rewrite E, (esc_special_free _ _ (ztoa_sf z)). cbn [enc fmt_v]. destruct (ztoa z) as [|ch e] eqn:Ez; [destruct (ztoa_nonempty z Ez)|]. fin_scalarI Vg n m.
  - cbn [enc fmt_v]. destruct f0 as [|ch e]; fin_scalarI Vg n m.
  - cbn [enc fmt_v]. destruct x as [|ch e]; fin_scalarI Vg n m.
Qed.

(* ---------------- the Map case *)
Notation k1 := (mi_k1 escf ind outd sort_rows sort_vrows st rec).
Notation k2 := (mi_k2 escf ind outd sort_vrows st rec).
Notation k3 := (mi_k3 escf ind outd sort_vrows st rec).
Notation k4 := (mi_k4 ind outd sort_vrows st rec).

Definition app_nl (c : Z) (b : str) : str := if (c >? t)%Z then b ++ nl_str else b.
Lemma app_nl_after n b : app_nl (Z.of_nat n) b = b ++ nl_after n.
Proof. unfold app_nl, nl_after. destruct (Z.of_nat n >? t)%Z; [reflexivity|rewrite app_nil_r; reflexivity]. Qed.

Lemma mi_map_k1 b key vv i c p m :
  mi_map escf ind outd sort_rows sort_vrows st rec b key vv i c p m t =
  bindc (range_loop (attr_body escf st b i c p m t) vv ([], repeat (repeat [] 2) (Z.to_nat (Z.of_nat (length vv))), 0%Z))
        (k1 b key vv i c p m t).
Proof. unfold mi_map. rewrite len_ltb0 at 1. reflexivity. Qed.

Lemma k1_k2I b key vv i c p m ss ps r :
  exists al, k1 b key vv i c p m t (ss, map row_of ps ++ repeat blank r, Z.of_nat (length ps)) =
             k2 key vv i c p m t (Z.of_nat (length ps)) (al, None, b ++ emit_attrs (sort_by_key ps)).
Proof.
  destruct ps as [|p1 ps]; cbv beta iota delta [mi_k1].
  - exists []. cbn [length Z.of_nat Z.gtb Z.compare bindc sort_by_key fold_right emit_attrs flat_map]. rewrite app_nil_r. reflexivity.
  - rewrite len_gtb0, len_ltb0.
    replace (Z.of_nat (length (map row_of (p1 :: ps) ++ repeat blank r)) <? Z.of_nat (length (p1 :: ps)))%Z with false
      by (symmetry; apply Z.ltb_ge; rewrite app_length, map_length; lia).
    cbn [orb Z.ltb Z.compare]. rewrite Z.sub_0_r, Nat2Z.id. cbn [Z.to_nat skipn].
    rewrite <- (map_length row_of (p1 :: ps)), firstn_app_exact, sort_rows_map, attr_write_loop. cbn [bindc].
    exists []. reflexivity.
Qed.

Lemma k2_allI key vv i c p m al b :
  bindc (k2 key vv i c p m t (Z.of_nat (length vv)) (al, None, b)) (mi_end outd st key i c p m t) =
  Ret (None, (app_nl c (if g_useGoXmlEmptyElemSyntax st then b ++ (s "></" ++ key) ++ s ">" else b ++ s "/>"), i, c, p, m, t)).
Proof.
  cbv beta iota delta [mi_k2]. rewrite Z.eqb_refl. unfold app_nl.
  destruct (g_useGoXmlEmptyElemSyntax st); cbn [bindc mi_end]; destruct (outd i c p m t) as [[[[x1 x2] x3] x4] x5];
    destruct (c >? t)%Z; reflexivity.
Qed.

Lemma k2_moreI key vv i c p m n al b : (n =? Z.of_nat (length vv))%Z = false ->
  k2 key vv i c p m t n (al, None, b) = k3 vv i c p m t n (inl (None, b)).
Proof. intro H. cbv beta iota delta [mi_k2]. rewrite H. reflexivity. Qed.

Lemma k3_noneI vv i c p m n b : lookup (g_textK st) vv = None ->
  k3 vv i c p m t n (inl (None, b)) = k4 vv i c p m t (inl (VNil, None, b, false, 0%Z, false, false)).
Proof. intro H. cbv beta iota delta [mi_k3]. rewrite H. reflexivity. Qed.

Lemma k3_simpleI key vv i c p m n b tv : lookup (g_textK st) vv = Some tv -> is_container tv = false ->
  (n + 1 =? Z.of_nat (length vv))%Z = true ->
  bindc (k3 vv i c p m t n (inl (None, b))) (mi_end outd st key i c p m t) =
  Ret (None, (app_nl c (b ++ s ">" ++ text_text o tv ++ s "</" ++ key ++ s ">"), i, c, p, m, t)).
Proof.
  intros H Hc Hn. cbv beta iota delta [mi_k3]. rewrite H, Hn. cbv beta iota.
  rewrite <- (text_code st o Hview escf Hesc tv Hc). unfold app_nl.
  destruct tv; try discriminate Hc; try (destruct (g_xmlEscapeChars st)); cbn [bindc mi_end Z.gtb Z.compare Z.eqb];
    destruct (outd i c p m t) as [[[[x1 x2] x3] x4] x5]; destruct (c >? t)%Z; cbn [bindc]; rewrite <- ?app_assoc; reflexivity.
Qed.

Lemma k3_complexI vv i c p m n b tv : lookup (g_textK st) vv = Some tv -> is_container tv = false ->
  (n + 1 =? Z.of_nat (length vv))%Z = false ->
  exists v', k3 vv i c p m t n (inl (None, b)) = k4 vv i c p m t (inl (v', None, b ++ s ">" ++ text_text o tv, false, 0%Z, false, true)).
Proof.
  intros H Hc Hn. cbv beta iota delta [mi_k3]. rewrite H, Hn. cbv beta iota.
  rewrite <- (text_code st o Hview escf Hesc tv Hc).
  destruct tv; try discriminate Hc; try (destruct (g_xmlEscapeChars st)); cbn [bindc]; exists VNil; reflexivity.
Qed.

Lemma k4_false_eqI vv i c p m v' b et el sim :
  k4 vv i c p m t (inl (v', None, b, et, el, sim, false)) = k4 vv i c p m t (inl (v', None, b ++ s ">", et, el, sim, true)).
Proof. reflexivity. Qed.

(* the children: a newline, the children, the padding of the element before its end tag *)
Lemma k4_trueI key vv n m v' b et el :
  (forall k v, In (k, v) vv -> forall b n m, mi_conv b n m (enc o v k) (rec st true b k v indent (Z.of_nat n) (pdg n) m t)) ->
  match concat_res (map (fun kv => enc o (snd kv) (fst kv)) (sort_by_key (filter (fun kv => keep_elem o (fst kv)) vv))) with
  | Ok body => exists out,
      bindc (k4 vv indent (Z.of_nat n) (pdg n) m t (inl (v', None, b, et, el, false, true))) (mi_end outd st key indent (Z.of_nat n) (pdg n) m t) =
      Ret (None, (b ++ nl_str ++ out ++ pdg n ++ emit [IClose key] ++ nl_after n, indent, Z.of_nat n, pdg n, m, t)) /\ padded body out
  | Err _ => exists e b', bindc (k4 vv indent (Z.of_nat n) (pdg n) m t (inl (v', None, b, et, el, false, true))) (mi_end outd st key indent (Z.of_nat n) (pdg n) m t) =
                          Ret (Some e, (b', indent, Z.of_nat n, pdg n, m, t))
  | Panic => False
  end.
Proof.
  intro Hrec. cbv beta iota delta [mi_k4]. cbn [bindc]. rewrite len_ltb0.
  match goal with |- context [range_loop ?B vv _] => change B with (coll_body st) end.
  destruct (coll_loop0 st o Hview vv) as [HC Hlen]. cbv zeta in HC, Hlen. unfold mm_res in HC. rewrite HC. clear HC. cbn [bindc].
  set (ps := filter (fun kv => keep_elem o (fst kv)) vv) in *.
  rewrite len_ltb0.
  replace (Z.of_nat (length (map vrow_of ps ++ repeat blankv (length vv - length ps))) <? Z.of_nat (length ps))%Z with false
    by (symmetry; apply Z.ltb_ge; rewrite app_length, map_length; lia).
  cbn [orb Z.ltb Z.compare]. rewrite Z.sub_0_r, Nat2Z.id. cbn [Z.to_nat skipn].
  rewrite <- (map_length vrow_of ps), firstn_app_exact, sort_vrows_map.
  match goal with |- context [range_loop ?B (map vrow_of _) _] => change B with (elem_bodyI ind outd st rec) end.
  assert (Hrec' : forall k v, In (k, v) (sort_by_key ps) -> forall b n m, mi_conv b n m (enc o v k) (rec st true b k v indent (Z.of_nat n) (pdg n) m t)).
  { intros k v Hin. apply Hrec. apply (proj1 (sort_by_key_in ps (k, v))) in Hin. subst ps. apply filter_In in Hin. exact (proj1 Hin). }
  assert (HE := elem_loopI (sort_by_key ps) Hrec' (b ++ hx"0a") n (m + 1)%Z indent (Z.of_nat n) (pdg n) m t). unfold mm_res in HE.
  destruct (concat_res (map (fun kv => enc o (snd kv) (fst kv)) (sort_by_key ps))) as [body|e|].
  - destruct HE as (out & HE & Hp). rewrite HE. exists out. split; [|exact Hp].
    cbn [bindc mi_end Z.gtb Z.compare Z.eqb].
    destruct (outd indent (Z.of_nat n) (pdg n) (m + 1 - 1)%Z t) as [[[[x1 x2] x3] x4] x5].
    unfold nl_after. destruct (Z.of_nat n >? t)%Z; cbn [bindc emit flat_map emit1]; rewrite <- ?app_assoc; reflexivity.
  - destruct HE as (e' & b' & HE). rewrite HE. exists e', b'. reflexivity.
  - exact HE.
Qed.

Lemma mi_map_conv key vv b n m :
  match lookup (textK o) vv with Some tv => negb (is_container tv) | None => true end = true ->
  (forall k v, In (k, v) vv -> forall b n m, mi_conv b n m (enc o v k) (rec st true b k v indent (Z.of_nat n) (pdg n) m t)) ->
  mi_conv b n m (enc o (VMap vv) key)
    (bindc (mi_map escf ind outd sort_rows sort_vrows st rec ((b ++ pdg n) ++ s "<" ++ key) key vv indent (Z.of_nat n) (pdg n) m t)
           (mi_end outd st key indent (Z.of_nat n) (pdg n) m t)).
Proof.
  intros Hd2 Hrec. rewrite enc_map_eq, mi_map_k1.
  assert (HA := attr_loop0 st o Hview escf Hesc ((b ++ pdg n) ++ s "<" ++ key) indent (Z.of_nat n) (pdg n) m t vv).
  destruct (attrs_of o vv) as [ps|e|]; cbn [bind].
  2:{ rewrite HA. cbn [bindc mi_conv]. eexists _, _. reflexivity. }
  2:{ exact HA. }
  destruct HA as (ss' & HA & Hl). rewrite HA. clear HA. cbn [bindc].
  destruct (k1_k2I ((b ++ pdg n) ++ s "<" ++ key) key vv indent (Z.of_nat n) (pdg n) m ss' ps (length vv - length ps)) as [al Hk]. rewrite Hk. clear Hk.
  cbv zeta.
  assert (Vt : g_textK st = textK o) by (symmetry; apply Hview).
  assert (Vg : useGoXmlEmptyElemSyntax o = g_useGoXmlEmptyElemSyntax st) by apply Hview.
  destruct (Nat.eqb (length ps) (length vv)) eqn:En.
  - apply Nat.eqb_eq in En. rewrite En, k2_allI, app_nl_after. cbn [mi_conv].
    exists (pdg n ++ emit (close_or_empty o key (sort_by_key ps)) ++ nl_after n).
    split; [|apply padded_coe; [apply pad_pdg1|apply pad_nl_after]].
    unfold close_or_empty. rewrite Vg.
    destruct (g_useGoXmlEmptyElemSyntax st); cbn [emit flat_map emit1]; rewrite <- ?app_assoc; reflexivity.
  - apply Nat.eqb_neq in En.
    rewrite k2_moreI by (apply Z.eqb_neq; lia).
    specialize (k4_trueI key vv n m) as HK.
    destruct (lookup (textK o) vv) as [tv|] eqn:El.
    + apply negb_true_iff in Hd2. rewrite <- Vt in El.
      destruct (Nat.eqb (S (length ps)) (length vv)) eqn:En1.
      * apply Nat.eqb_eq in En1. rewrite (k3_simpleI key vv indent (Z.of_nat n) (pdg n) m _ _ tv El Hd2) by (apply Z.eqb_eq; lia).
        rewrite app_nl_after. cbn [mi_conv].
        exists (pdg n ++ emit [IOpen key (sort_by_key ps); IText (text_text o tv); IClose key] ++ nl_after n).
        split; [|apply padded_three; [apply pad_pdg1|apply pad_nl_after]].
        cbn [emit flat_map emit1]. rewrite <- ?app_assoc. reflexivity.
      * apply Nat.eqb_neq in En1.
        destruct (k3_complexI vv indent (Z.of_nat n) (pdg n) m (Z.of_nat (length ps)) (((b ++ pdg n) ++ s "<" ++ key) ++ emit_attrs (sort_by_key ps)) tv El Hd2) as [v' Hk3];
          [apply Z.eqb_neq; lia|]. rewrite Hk3. clear Hk3.
        specialize (HK v' ((((b ++ pdg n) ++ s "<" ++ key) ++ emit_attrs (sort_by_key ps)) ++ s ">" ++ text_text o tv) false 0%Z Hrec).
        destruct (concat_res (map (fun kv => enc o (snd kv) (fst kv)) (sort_by_key (filter (fun kv => keep_elem o (fst kv)) vv)))) as [body|e|];
          cbn [bind mi_conv].
        -- destruct HK as (out & HK & Hp).
           exists (pdg n ++ emit [IOpen key (sort_by_key ps); IText (text_text o tv)] ++ nl_str ++ out ++ pdg n ++ emit [IClose key] ++ nl_after n).
           split.
           ++ refine (eq_trans HK _). cbn [emit flat_map emit1]. rewrite <- ?app_assoc. reflexivity.
           ++ apply pd_mixed; [apply pad_pdg1|]. apply padded_app; [exact Hp|].
              apply padded_one; [apply pad_pdg1|apply pad_nl_after|reflexivity].
        -- exact HK.
        -- exact HK.
    + rewrite <- Vt in El. rewrite (k3_noneI vv indent (Z.of_nat n) (pdg n) m _ _ El), k4_false_eqI.
      specialize (HK VNil ((((b ++ pdg n) ++ s "<" ++ key) ++ emit_attrs (sort_by_key ps)) ++ s ">") false 0%Z Hrec).
      destruct (concat_res (map (fun kv => enc o (snd kv) (fst kv)) (sort_by_key (filter (fun kv => keep_elem o (fst kv)) vv)))) as [body|e|];
        cbn [bind mi_conv].
      * destruct HK as (out & HK & Hp).
        exists (pdg n ++ emit1 (IOpen key (sort_by_key ps)) ++ nl_str ++ out ++ pdg n ++ emit [IClose key] ++ nl_after n).
        split.
        -- refine (eq_trans HK _). cbn [emit flat_map emit1]. rewrite <- ?app_assoc. reflexivity.
        -- apply pd_tag; [apply pad_pdg1|reflexivity|]. apply padded_pre; [apply pad_nl1|]. apply padded_app; [exact Hp|].
           apply padded_one; [apply pad_pdg1|apply pad_nl_after|reflexivity].
      * exact HK.
      * exact HK.
Qed.
End WithRec.

(* ---------------- the induction on the value *)
Variable xm : value -> res str.
Variable xmi : value -> str -> str -> res str.
Notation fn := (fn_marshalMapToXmlIndent escf ind outd sort_rows sort_vrows xm xmi).

Lemma mi_is_enc : forall v f key b n m, vdepth v <= f -> text_dom o v = true ->
  mi_conv b n m (enc o v key) (fn f st true b key v indent (Z.of_nat n) (pdg n) m t).
Proof.
  induction v as [x|x| |z|z|z|x|x|mm IH|l IH] using value_ind2; intros f key b n m Hf Hd;
    (destruct f as [|f]; [exfalso; revert Hf; match goal with |- vdepth ?v <= 0 -> _ => generalize (vdepth_pos v) end; lia|]);
    try (apply mi_scalar_conv; reflexivity).
  - rewrite mi_unfold_map.
    cbn [text_dom] in Hd. apply andb_true_iff in Hd. destruct Hd as [Hd2 Hd3].
    apply mi_map_conv; [exact Hd2|].
    intros k v Hin b' n' m'.
    rewrite Forall_forall in IH.
    apply (IH (k, v) Hin).
    + assert (HF := vdepth_map_F f mm Hf). rewrite Forall_forall in HF. exact (HF (k, v) Hin).
    + rewrite forallb_forall in Hd3. exact (Hd3 (k, v) Hin).
  - rewrite mi_unfold_list.
    cbn [text_dom] in Hd.
    apply mi_list_conv.
    intros v Hin b' n' m'.
    rewrite Forall_forall in IH.
    apply (IH v Hin).
    + assert (HF := vdepth_list_F f l Hf). rewrite Forall_forall in HF. exact (HF v Hin).
    + rewrite forallb_forall in Hd. exact (Hd v Hin).
Qed.
End LoopsI.

(* ------------------------------------------------------------------ pretty.Indent / pretty.Outdent as go2v translated them *)
Definition run_Indent (st : gstate) (i : str) (c : Z) (p : str) (m t : Z) : pp5 :=
  match fn_Indent st i c p m t with Ret x => x | _ => (i, c, p, m, t) end.
Definition run_Outdent (st : gstate) (i : str) (c : Z) (p : str) (m t : Z) : pp5 :=
  match fn_Outdent st i c p m t with Ret x => x | _ => (i, c, p, m, t) end.

Lemma run_Indent_eq st i c p m t : run_Indent st i c p m t = (i, (c + 1)%Z, p ++ i, m, t).
Proof. reflexivity. Qed.
Lemma run_Outdent_eq st i c p m t : (0 <= c)%Z -> run_Outdent st i (c + 1)%Z (p ++ i) m t = (i, c, p, m, t).
Proof.
  intro Hc. unfold run_Outdent. rewrite outdent_code.
  replace (Z.gtb (c + 1) 0) with true by (symmetry; apply Z.gtb_lt; lia).
  rewrite app_length. replace (Nat.ltb (length p + length i) (length i)) with false by (symmetry; apply Nat.ltb_ge; lia).
  replace (length p + length i - length i) with (length p) by lia.
  rewrite firstn_app, firstn_all, Nat.sub_diag. cbn [firstn]. rewrite app_nil_r.
  replace (c + 1 - 1)%Z with c by lia. reflexivity.
Qed.

(* the pretty records reachable from (indent, 0, prefix, m0, t) by Indent / Outdent are (indent, n, pdg prefix indent n, m0, t) *)
Inductive pp_reach (st : gstate) (prefix indent : str) (m t : Z) : pp5 -> Prop :=
| ppr_init : pp_reach st prefix indent m t (indent, 0%Z, prefix, m, t)
| ppr_indent i c p m' t' : pp_reach st prefix indent m t (i, c, p, m', t') -> pp_reach st prefix indent m t (run_Indent st i c p m' t')
| ppr_outdent i c p m' t' : pp_reach st prefix indent m t (i, c, p, m', t') -> pp_reach st prefix indent m t (run_Outdent st i c p m' t').
Lemma pp_reach_shape st prefix indent m t pp : pp_reach st prefix indent m t pp ->
  exists n, pp = (indent, Z.of_nat n, pdg prefix indent n, m, t).
Proof.
  intro H. induction H as [|i c p m' t' H [n IH]|i c p m' t' H [n IH]].
  - exists 0. unfold pdg. cbn [repeat concat]. rewrite app_nil_r. reflexivity.
  - injection IH as -> -> -> -> ->. exists (S n). rewrite run_Indent_eq, pdg_S, Nat2Z.inj_succ. reflexivity.
  - injection IH as -> -> -> -> ->. destruct n as [|n].
    + exists 0. reflexivity.
    + exists n. rewrite pdg_S, Nat2Z.inj_succ. apply run_Outdent_eq. lia.
Qed.

(* ------------------------------------------------------------------ statements *)

(* 1. INDENTED mode writes the items of the compact mode with only padding between them.
   For every option record o viewed by the package state st, every value v whose #text members are not containers, every key,
   buffer b, fuel above the depth of v, and every pretty record (indent, n, prefix ++ indent^n, m, t):
   - when the model encoder returns items its (the items the COMPACT mode writes: marshal_map_code_is_enc of PureG18.v), the
     translated encoder with doIndent = true appends a string out with [padded prefix indent its out] and hands the pretty record
     back unchanged;
   - when the model encoder errs the translated encoder returns an error (pretty record unchanged);
   - it never Crashes.
   escapeChars: any function computing escape_chars; sort.Sort: sort_by_key on the rows; pretty.Indent / Outdent: any functions
   with Indent (i,c,p,m,t) = (i,c+1,p++i,m,t) and, for c >= 0, Outdent (i,c+1,p++i,m,t) = (i,c,p,m,t); xml.Marshal(Indent) arbitrary. *)
Theorem marshal_map_indent_code_is_enc : forall o st, enc_view st o ->
  forall escf, (forall x, escf x = escape_chars x) ->
  forall prefix indent ind outd,
  (forall i c p m t, ind i c p m t = (i, (c + 1)%Z, p ++ i, m, t)) ->
  (forall i c p m t, (0 <= c)%Z -> outd i (c + 1)%Z (p ++ i) m t = (i, c, p, m, t)) ->
  forall xm xmi v f key b n m t, vdepth v <= f -> text_dom o v = true ->
  (forall its, enc o v key = Ok its ->
     exists out,
       fn_marshalMapToXmlIndent escf ind outd sort_rows sort_vrows xm xmi f st true b key v indent (Z.of_nat n) (pdg prefix indent n) m t =
       Ret (None, (b ++ out, indent, Z.of_nat n, pdg prefix indent n, m, t)) /\
       padded prefix indent its out) /\
  (forall e, enc o v key = Err e ->
     exists e' b',
       fn_marshalMapToXmlIndent escf ind outd sort_rows sort_vrows xm xmi f st true b key v indent (Z.of_nat n) (pdg prefix indent n) m t =
       Ret (Some e', (b', indent, Z.of_nat n, pdg prefix indent n, m, t))) /\
  enc o v key <> Panic.
Proof.
  intros o st Hview escf Hesc prefix indent ind outd Hind Houtd xm xmi v f key b n m t Hf Hd.
  assert (H := mi_is_enc st o Hview escf Hesc prefix indent ind outd Hind Houtd t xm xmi v f key b n m Hf Hd).
  destruct (enc o v key) as [its|e|]; cbn [mi_conv] in H.
  - split; [intros its' E; injection E as <-; exact H|]. split; [intros e E; discriminate E|discriminate].
  - split; [intros its' E; discriminate E|]. split; [intros e' E; exact H|discriminate].
  - destruct H.
Qed.

(* 2. translated code only: escapeChars, pretty.Indent, pretty.Outdent as go2v translated them, from any pretty record reachable
   from (indent, 0, prefix, m, t) by Indent / Outdent *)
Theorem marshal_map_indent_code_is_enc_translated : forall o st, enc_view st o ->
  forall prefix indent m t i c p m' t', pp_reach st prefix indent m t (i, c, p, m', t') ->
  forall xm xmi v f key b, vdepth v <= f -> text_dom o v = true ->
  (forall its, enc o v key = Ok its ->
     exists out,
       fn_marshalMapToXmlIndent (run_escapeChars st) (run_Indent st) (run_Outdent st) sort_rows sort_vrows xm xmi f st true b key v i c p m' t' =
       Ret (None, (b ++ out, i, c, p, m', t')) /\
       padded prefix indent its out) /\
  (forall e, enc o v key = Err e ->
     exists e' b',
       fn_marshalMapToXmlIndent (run_escapeChars st) (run_Indent st) (run_Outdent st) sort_rows sort_vrows xm xmi f st true b key v i c p m' t' =
       Ret (Some e', (b', i, c, p, m', t'))) /\
  enc o v key <> Panic.
Proof.
  intros o st Hview prefix indent m t i c p m' t' Hr xm xmi v f key b Hf Hd.
  destruct (pp_reach_shape st prefix indent m t _ Hr) as [n E]. injection E as -> -> -> -> ->.
  apply (marshal_map_indent_code_is_enc o st Hview (run_escapeChars st) (run_escapeChars_eq st) prefix indent
           (run_Indent st) (run_Outdent st) (run_Indent_eq st) (run_Outdent_eq st)); assumption.
Qed.

(* 3. no Crash, in every package state: the indented run returns, pretty record unchanged *)
Theorem marshal_map_indent_code_returns : forall st prefix indent m t i c p m' t', pp_reach st prefix indent m t (i, c, p, m', t') ->
  forall xm xmi v f key b, vdepth v <= f -> text_dom (state_opts st) v = true ->
  exists e b', fn_marshalMapToXmlIndent (run_escapeChars st) (run_Indent st) (run_Outdent st) sort_rows sort_vrows xm xmi f st true b key v i c p m' t' =
               Ret (e, (b', i, c, p, m', t')).
Proof.
  intros st prefix indent m t i c p m' t' Hr xm xmi v f key b Hf Hd.
  destruct (marshal_map_indent_code_is_enc_translated (state_opts st) st (state_opts_enc_view st) prefix indent m t i c p m' t' Hr xm xmi v f key b Hf Hd)
    as (H1 & H2 & H3).
  destruct (enc (state_opts st) v key) as [its|e|].
  - destruct (H1 its eq_refl) as (out & H & _). eexists _, _. exact H.
  - destruct (H2 e eq_refl) as (e' & b' & H). eexists _, _. exact H.
  - destruct (H3 eq_refl).
Qed.
Corollary marshal_map_indent_code_no_crash : forall st prefix indent m t i c p m' t', pp_reach st prefix indent m t (i, c, p, m', t') ->
  forall xm xmi v f key b, vdepth v <= f -> text_dom (state_opts st) v = true ->
  fn_marshalMapToXmlIndent (run_escapeChars st) (run_Indent st) (run_Outdent st) sort_rows sort_vrows xm xmi f st true b key v i c p m' t' <> Crash.
Proof.
  intros st prefix indent m t i c p m' t' Hr xm xmi v f key b Hf Hd.
  destruct (marshal_map_indent_code_returns st prefix indent m t i c p m' t' Hr xm xmi v f key b Hf Hd) as (e & b' & H). rewrite H. discriminate.
Qed.

(* 4. with a prefix and an indent of XML whitespace (space, tab, CR, LF) every pad is XML whitespace *)
Corollary pad_is_xml_whitespace : forall prefix indent, xml_wsb prefix = true -> xml_wsb indent = true ->
  (forall w, pad_ok prefix indent w -> xml_wsb w = true) /\ (forall k, xml_wsb (pdg prefix indent k) = true).
Proof.
  intros prefix indent Hp Hi. split; [intros w Hw; exact (pad_ok_xml_ws prefix indent w Hp Hi Hw)|intro k; exact (xml_ws_pdg prefix indent k Hp Hi)].
Qed.

(* ------------------------------------------------------------------ the gap form (Spec/Items.v: insert_ws) *)

(* items with a gap after each *)
Fixpoint zipr (its : list item) (gs : list str) : str :=
  match its, gs with
  | it :: its', g :: gs' => emit1 it ++ g ++ zipr its' gs'
  | _, _ => []
  end.

Lemma padded_zipr prefix indent its out : padded prefix indent its out ->
  exists g0 gs, length gs = length its /\ pad_ok prefix indent g0 /\ Forall (pad_ok prefix indent) gs /\ out = g0 ++ zipr its gs.
Proof.
  intro H. induction H as [w Hw|w it its out Hw Hi H IH|w n a x n' its out Hw H IH|w n a x its out Hw H IH].
  - exists w, []. split; [reflexivity|]. split; [exact Hw|]. split; [constructor|]. rewrite app_nil_r; reflexivity.
  - destruct IH as (g0 & gs & Hl & H0 & Hgs & ->). exists w, (g0 :: gs).
    split; [cbn [length]; rewrite Hl; reflexivity|]. split; [exact Hw|]. split; [constructor; assumption|reflexivity].
  - destruct IH as (g0 & gs & Hl & H0 & Hgs & ->). exists w, ([] :: [] :: g0 :: gs).
    split; [cbn [length]; rewrite Hl; reflexivity|]. split; [exact Hw|]. split; [repeat constructor; assumption|].
    cbn [emit flat_map zipr app]. rewrite <- ?app_assoc. reflexivity.
  - destruct IH as (g0 & gs & Hl & H0 & Hgs & ->). exists w, ([] :: (nl_str ++ g0) :: gs).
    split; [cbn [length]; rewrite Hl; reflexivity|]. split; [exact Hw|]. split; [repeat constructor; assumption|].
    cbn [emit flat_map zipr app]. rewrite <- ?app_assoc. reflexivity.
Qed.

Lemma ins_zipr (ws : nat -> str) : forall its gs g0 i, length gs = length its ->
  (forall j, ws (i + j) = nth j (g0 :: gs) []) ->
  emit (ins ws i its ++ [IText (ws (i + length its))]) = g0 ++ zipr its gs.
Proof.
  induction its as [|it its IH]; intros gs g0 i Hl Hws.
  - destruct gs; [|discriminate Hl]. cbn [ins app emit flat_map emit1 zipr length]. rewrite (Hws 0). reflexivity.
  - destruct gs as [|g gs]; [discriminate Hl|]. cbn [length] in Hl. injection Hl as Hl.
    cbn [ins app emit flat_map emit1 zipr length].
    replace (i + S (length its)) with (S i + length its) by lia.
    change (flat_map emit1 (ins ws (S i) its ++ [IText (ws (S i + length its))])) with (emit (ins ws (S i) its ++ [IText (ws (S i + length its))])).
    rewrite (IH gs g (S i) Hl).
    + assert (E := Hws 0). rewrite Nat.add_0_r in E. cbn [nth] in E. rewrite E. reflexivity.
    + intro j. assert (E := Hws (S j)). replace (i + S j) with (S i + j) in E by lia. exact E.
Qed.

(* padded: the items with a pad_ok string in every gap, emit (insert_ws ws its) *)
Lemma padded_gaps prefix indent its out : padded prefix indent its out ->
  exists ws, (forall i, pad_ok prefix indent (ws i)) /\ out = emit (insert_ws ws its).
Proof.
  intro H. destruct (padded_zipr prefix indent its out H) as (g0 & gs & Hl & H0 & Hgs & ->).
  exists (fun i => nth i (g0 :: gs) []). split.
  - intro i. destruct (Nat.lt_ge_cases i (length (g0 :: gs))) as [Hi|Hi].
    + assert (HF : Forall (pad_ok prefix indent) (g0 :: gs)) by (constructor; assumption).
      rewrite Forall_forall in HF. apply HF. apply nth_In. exact Hi.
    + rewrite nth_overflow by exact Hi. constructor.
  - unfold insert_ws. symmetry. apply (ins_zipr (fun i => nth i (g0 :: gs) []) its gs g0 0 Hl). intro j. reflexivity.
Qed.

(* every pad consists of characters with a property that the prefix, the indent and the newline have *)
Lemma pad_ok_forallb (P : ascii -> bool) prefix indent w :
  forallb P prefix = true -> forallb P indent = true -> forallb P nl_str = true -> pad_ok prefix indent w -> forallb P w = true.
Proof.
  intros Hp Hi Hn H. induction H as [|w H IH|n w H IH]; [reflexivity| |]; rewrite forallb_app, IH.
  - rewrite Hn. reflexivity.
  - unfold pdg. rewrite forallb_app, Hp. cbn [andb]. rewrite andb_true_r.
    induction n as [|n IHn]; [reflexivity|]. cbn [repeat concat]. rewrite forallb_app, Hi, IHn. reflexivity.
Qed.

(* 5. the gap form, for EVERY value of the domain: the indented encoder writes emit (insert_ws ws its) - the items of the compact
   mode with the string ws i in gap i (Spec/Items.v; the form under which Props/C03.v decodes the document) - every ws i being a
   pad; and with a prefix and an indent of blanks the decoder trims (ws_str o'), ws is ws_ok o' *)
Theorem marshal_map_indent_code_insert_ws : forall o st, enc_view st o ->
  forall prefix indent m t i c p m' t', pp_reach st prefix indent m t (i, c, p, m', t') ->
  forall xm xmi v f key b its, vdepth v <= f -> text_dom o v = true -> enc o v key = Ok its ->
  exists ws,
    fn_marshalMapToXmlIndent (run_escapeChars st) (run_Indent st) (run_Outdent st) sort_rows sort_vrows xm xmi f st true b key v i c p m' t' =
    Ret (None, (b ++ emit (insert_ws ws its), i, c, p, m', t')) /\
    (forall j, pad_ok prefix indent (ws j)) /\
    (forall o', ws_str o' prefix = true -> ws_str o' indent = true -> ws_str o' nl_str = true -> ws_ok o' ws).
Proof.
  intros o st Hview prefix indent m t i c p m' t' Hr xm xmi v f key b its Hf Hd E.
  destruct (marshal_map_indent_code_is_enc_translated o st Hview prefix indent m t i c p m' t' Hr xm xmi v f key b Hf Hd) as (H1 & _).
  destruct (H1 its E) as (out & H & Hp).
  destruct (padded_gaps prefix indent its out Hp) as (ws & Hws & ->).
  exists ws. split; [exact H|]. split; [exact Hws|].
  intros o' H1' H2 H3 j. unfold ws_str. apply (pad_ok_forallb _ prefix indent (ws j) H1' H2 H3 (Hws j)).
Qed.

(* the reachable pretty records are exactly these *)
Lemma pp_reach_all st prefix indent m t n : pp_reach st prefix indent m t (indent, Z.of_nat n, pdg prefix indent n, m, t).
Proof.
  induction n as [|n IH].
  - unfold pdg. cbn [repeat concat Z.of_nat]. rewrite app_nil_r. constructor.
  - rewrite pdg_S, Nat2Z.inj_succ. exact (ppr_indent st prefix indent m t _ _ _ _ _ IH).
Qed.

Print Assumptions marshal_map_indent_code_is_enc.
Print Assumptions marshal_map_indent_code_is_enc_translated.
Print Assumptions marshal_map_indent_code_returns.
Print Assumptions marshal_map_indent_code_no_crash.
Print Assumptions pad_is_xml_whitespace.
Print Assumptions marshal_map_indent_code_insert_ws.

(* ------------------------------------------------------------------ non-vacuity; the repaired empty-list bytes *)

Notation fnI st := (fn_marshalMapToXmlIndent (run_escapeChars st) (run_Indent st) (run_Outdent st) sort_rows sort_vrows no_marshal no_marshal_indent).

(* ex_doc of PureG18.v (attributes, #text with children, a list with a scalar / a Map / a number, an EMPTY list, a nested Map),
   indent "  ", prefix "": every hypothesis of the statements holds, and these are the bytes.  The empty list member e is written
   "  <e/>" at padding(1) and is NOT followed by a newline (cnt = start for the list): the next padding follows directly. *)
Example marshal_map_indent_example :
  enc_view gstate0 opts0 /\ text_dom opts0 ex_doc = true /\ vdepth ex_doc <= 4 /\
  pp_reach gstate0 (s "") (s "  ") 0%Z 0%Z (s "  ", 0%Z, s "", 0%Z, 0%Z) /\
  ws_str opts0 (s "") = true /\ ws_str opts0 (s "  ") = true /\ ws_str opts0 nl_str = true /\ xml_wsb (s "  ") = true /\
  enc opts0 ex_doc (s "doc") =
    Ok [IOpen (s "doc") [(s "k", s "v&")]; IText (s "lead");
        IOpen (s "b") []; IText (s "x"); IClose (s "b");
        IOpen (s "b") []; IEmpty (s "c") []; IClose (s "b");
        IOpen (s "b") []; IText (s "1.5"); IClose (s "b");
        IEmpty (s "e") [];
        IOpen (s "z") [(s "q", s "3")]; IOpen (s "n") []; IText (s "7"); IClose (s "n"); IEmpty (s "y") []; IClose (s "z");
        IClose (s "doc")] /\
  fnI gstate0 4 gstate0 true (s "<?xml?>") (s "doc") ex_doc (s "  ") 0%Z (s "") 0%Z 0%Z =
    Ret (None, (s "<?xml?><doc k=""v&"">lead" ++ nl_str ++
                s "  <b>x</b>" ++ nl_str ++
                s "  <b>" ++ nl_str ++
                s "    <c/>" ++ nl_str ++
                s "  </b>" ++ nl_str ++
                s "  <b>1.5</b>" ++ nl_str ++
                s "  <e/>  <z q=""3"">" ++ nl_str ++
                s "    <n>7</n>" ++ nl_str ++
                s "    <y/>" ++ nl_str ++
                s "  </z>" ++ nl_str ++
                s "</doc>", s "  ", 0%Z, s "", 0%Z, 0%Z)).
Proof.
  split; [repeat split|]. split; [reflexivity|]. split; [vm_compute; lia|]. split; [constructor|].
  repeat (split; [reflexivity|]). split; vm_compute; reflexivity.
Qed.

(* an error of the model is an error of the indented run *)
Example marshal_map_indent_example_error :
  let v := VMap [(s "a", VMap [(s "-x", VList [])])] in
  text_dom opts0 v = true /\ enc opts0 v (s "r") = Err EOther /\
  exists b', fnI gstate0 3 gstate0 true [] (s "r") v (s "  ") 0%Z (s "") 0%Z 0%Z = Ret (Some EOther, (b', s "  ", 0%Z, s "", 0%Z, 0%Z)).
Proof. cbv zeta. split; [reflexivity|]. split; [vm_compute; reflexivity|]. eexists. vm_compute. reflexivity. Qed.

(* the inputs on which the code (before /repo 77c834d) wrote padding inside the tag of an empty list member, "<e  />" / "<e  ></e>":
   now the tag is written whole, in both empty-element syntaxes *)
Example marshal_map_indent_empty_list_tag_whole :
  let v := VMap [(s "b", VMap [(s "e", VList [])])] in
  text_dom opts0 v = true /\ vdepth v <= 3 /\
  enc opts0 v (s "a") = Ok [IOpen (s "a") []; IOpen (s "b") []; IEmpty (s "e") []; IClose (s "b"); IClose (s "a")] /\
  fnI gstate0 3 gstate0 true [] (s "a") v (s "  ") 0%Z (s "") 0%Z 0%Z =
    Ret (None, (s "<a>" ++ nl_str ++ s "  <b>" ++ nl_str ++ s "    <e/>" ++ nl_str ++ s "  </b>" ++ nl_str ++ s "</a>", s "  ", 0%Z, s "", 0%Z, 0%Z)) /\
  fnI gstate0 3 (with_useGoXmlEmptyElemSyntax true gstate0) true [] (s "a") v (s "  ") 0%Z (s "") 0%Z 0%Z =
    Ret (None, (s "<a>" ++ nl_str ++ s "  <b>" ++ nl_str ++ s "    <e></e>" ++ nl_str ++ s "  </b>" ++ nl_str ++ s "</a>", s "  ", 0%Z, s "", 0%Z, 0%Z)).
Proof. cbv zeta. split; [reflexivity|]. split; [vm_compute; lia|]. repeat split; vm_compute; reflexivity. Qed.

(* with the prefix "pp" (not whitespace) the name of the empty list member stays e (it was written "<epp/>") *)
Example marshal_map_indent_empty_list_prefix_name_kept :
  let v := VMap [(s "e", VList [])] in
  text_dom opts0 v = true /\ vdepth v <= 2 /\
  enc opts0 v (s "a") = Ok [IOpen (s "a") []; IEmpty (s "e") []; IClose (s "a")] /\
  fnI gstate0 2 gstate0 true [] (s "a") v (s "  ") 0%Z (s "pp") 0%Z 0%Z =
    Ret (None, (s "pp<a>" ++ nl_str ++ s "pp  <e/>pp</a>", s "  ", 0%Z, s "pp", 0%Z, 0%Z)).
Proof. cbv zeta. split; [reflexivity|]. split; [vm_compute; lia|]. split; vm_compute; reflexivity. Qed.

(* the bytes of the first of these inputs ARE of the gap form now: the gaps, explicitly *)
Example marshal_map_indent_empty_list_gap_form :
  let its := [IOpen (s "a") []; IOpen (s "b") []; IEmpty (s "e") []; IClose (s "b"); IClose (s "a")] in
  let ws := fun i => nth i [[]; nl_str ++ s "  "; nl_str ++ s "    "; nl_str ++ s "  "; nl_str; []] [] in
  s "<a>" ++ nl_str ++ s "  <b>" ++ nl_str ++ s "    <e/>" ++ nl_str ++ s "  </b>" ++ nl_str ++ s "</a>" = emit (insert_ws ws its).
Proof. vm_compute. reflexivity. Qed.
