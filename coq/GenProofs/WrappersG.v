(* Thin wrappers: a semantics for the bodies go2v regenerates from /repo on every run
   (Gen/Wrappers_gen.v), and what the wrappers therefore compute in terms of the functions they
   wrap - for EVERY interpretation of those functions (the wrapped functions, io.Writer.Write,
   conversions are parameters of the section).  Used by C16 (writer forms), C17 (Copy goes through
   bytes), C04 (BeautifyXml), C20 (legacy packages). *)
From Mxj Require Import Gen.GenSupport Gen.Wrappers_gen.
Local Open Scope string_scope.

Fixpoint wlookup {A} (k : string) (t : list (string * A)) : option A :=
  match t with [] => None | (k', v) :: t' => if String.eqb k k' then Some v else wlookup k t' end.

Section Sem.
Variable V : Type.
Variable vnil : V.
Variable is_err : V -> bool.                 (* a non-nil error value *)
Variable vlit : string -> V.
Variable vbool : bool -> V.
Variable vglobal : string -> V.
Variable vspread : V -> V.                   (* xs... : the slice passed as the variadic arguments *)
Variable vaddr : V -> V.
Variable vconv : string -> V -> V.
Variable fn : string -> list V -> list V.    (* the results of a call *)

Definition env := list (string * V).
Definition first (l : list V) : V := match l with v :: _ => v | [] => vnil end.

(* all results of an expression (a call may have several) *)
Fixpoint eval (en : env) (e : wexpr) : list V :=
  match e with
  | EVar x => match wlookup x en with Some v => [v] | None => [vnil] end
  | EGlobal x => [vglobal x]
  | ESpread e' => [vspread (first (eval en e'))]
  | ELit s => [vlit s]
  | EBool b => [vbool b]
  | ENil => [vnil]
  | EAddr e' => [vaddr (first (eval en e'))]
  | EConv t e' => [vconv t (first (eval en e'))]
  | ECall f args => fn f (map (fun a => first (eval en a)) args)
  | EBad => [vnil]
  end.

(* positional binding; a missing result reads as nil (recursion on the NAMES only, so that it computes on an opaque result list) *)
Fixpoint bind_all (xs : list string) (vs : list V) (en : env) : env :=
  match xs with
  | x :: xs' => (if String.eqb x "_" then (fun e => e) else cons (x, first vs)) (bind_all xs' (tl vs) en)
  | [] => en
  end.

Definition rets (en : env) (es : list wexpr) : list V :=
  match es with
  | [ECall f args] => eval en (ECall f args)          (* return f(...) passes all results on *)
  | _ => map (fun e => first (eval en e)) es
  end.

Fixpoint exec (en : env) (body : list wstmt) : list V :=
  match body with
  | [] => []
  | SAssign lhs e :: rest => exec (bind_all lhs (eval en e) en) rest
  | SIfErr v rs :: rest =>
      if is_err (match wlookup v en with Some x => x | None => vnil end) then rets en rs else exec en rest
  | SRet rs :: _ => rets en rs
  end.

(* the wrapper f applied to arguments args *)
Definition run_wrapper (f : string) (args : list V) : option (list V) :=
  match wlookup f wrappers with
  | Some (params, body) => Some (exec (combine params args) body)
  | None => None
  end.

(* ---------------- C16: the Writer forms ---------------- *)
(* shape shared by all of them: encode; on error return it; else Write exactly those bytes and return Write's error
   (the Raw forms return the bytes as well) *)
Definition writer_spec (enc : string) (encargs : list V) (w : V) (raw : bool) : list V :=
  let r := fn enc encargs in
  let b := first r in let err := first (tl r) in
  if is_err err then (if raw then [b; err] else [err])
  else let werr := first (tl (fn "(io.Writer).Write" [w; b])) in
       if raw then [b; werr] else [werr].

Theorem xml_writer mv w root :
  run_wrapper "Map.XmlWriter" [mv; w; root] = Some (writer_spec "Map.Xml" [mv; vspread root] w false).
Proof. reflexivity. Qed.
Theorem xml_indent_writer mv w p i root :
  run_wrapper "Map.XmlIndentWriter" [mv; w; p; i; root] = Some (writer_spec "Map.XmlIndent" [mv; p; i; vspread root] w false).
Proof. reflexivity. Qed.
Theorem json_writer mv w safe :
  run_wrapper "Map.JsonWriter" [mv; w; safe] = Some (writer_spec "Map.Json" [mv; vspread safe] w false).
Proof. reflexivity. Qed.
Theorem json_writer_raw mv w safe :
  run_wrapper "Map.JsonWriterRaw" [mv; w; safe] = Some (writer_spec "Map.Json" [mv; vspread safe] w true).
Proof. reflexivity. Qed.
Theorem json_indent_writer mv w p i safe :
  run_wrapper "Map.JsonIndentWriter" [mv; w; p; i; safe] = Some (writer_spec "Map.JsonIndent" [mv; p; i; vspread safe] w false).
Proof. reflexivity. Qed.
Theorem json_indent_writer_raw mv w p i safe :
  run_wrapper "Map.JsonIndentWriterRaw" [mv; w; p; i; safe] = Some (writer_spec "Map.JsonIndent" [mv; p; i; vspread safe] w true).
Proof. reflexivity. Qed.
Theorem seq_xml_writer mv w root :
  run_wrapper "MapSeq.XmlWriter" [mv; w; root] = Some (writer_spec "MapSeq.Xml" [mv; vspread root] w false).
Proof. reflexivity. Qed.
Theorem seq_xml_indent_writer mv w p i root :
  run_wrapper "MapSeq.XmlIndentWriter" [mv; w; p; i; root] = Some (writer_spec "MapSeq.XmlIndent" [mv; p; i; vspread root] w false).
Proof. reflexivity. Qed.

(* ---------------- C17 / C19: Copy is NewMapJson after Json: the only data path from the receiver to the result is a []byte ---------------- *)
Theorem copy_through_bytes mv :
  run_wrapper "Map.Copy" [mv] =
  Some (let r := fn "Map.Json" [mv] in
        if is_err (first (tl r)) then [vnil; first (tl r)] else fn "NewMapJson" [first r]).
Proof. reflexivity. Qed.

(* ---------------- C04: BeautifyXml = XmlIndent after NewMapXmlSeq ---------------- *)
Theorem beautify_is_seq_indent b p i :
  run_wrapper "BeautifyXml" [b; p; i] =
  Some (let r := fn "NewMapXmlSeq" [b] in
        if is_err (first (tl r)) then [vnil; first (tl r)] else fn "MapSeq.XmlIndent" [first r; p; i]).
Proof. reflexivity. Qed.

(* ---------------- C20: decode-then-method compositions of j2x / x2j ---------------- *)
(* decode with dec; on error return (zero..., err); else return everything `meth` returns on the decoded Map *)
Definition decode_then (dec : string) (doc : V) (zeros : list V) (meth : string) (margs : list V) : list V :=
  let r := fn dec [doc] in
  if is_err (first (tl r)) then zeros ++ [first (tl r)] else fn meth (first r :: margs).

Theorem j2x_JsonToXml j : run_wrapper "j2x.JsonToXml" [j] = Some (decode_then "NewMapJson" j [vnil] "Map.Xml" []).
Proof. reflexivity. Qed.
Theorem j2x_MapToJson m safe : run_wrapper "j2x.MapToJson" [m; safe] = Some (fn "Map.Json" [vconv "mxj.Map" m; vspread safe]).
Proof. reflexivity. Qed.
Theorem x2j_XmlToJson x safe :
  run_wrapper "x2j.XmlToJson" [x; safe] = Some (decode_then "NewMapXml" x [vnil] "Map.Json" [vspread safe]).
Proof. reflexivity. Qed.
Theorem x2jw_CastNanInf b : run_wrapper "x2jw.CastNanInf" [b] = Some (exec [("b", b)] [SAssign [] (ECall "CastNanInf" [EVar "b"])]).
Proof. reflexivity. Qed.
End Sem.

(* every wrapper the theorems above name is present in the regenerated file, and the generated terms are well formed *)
Fixpoint expr_ok (e : wexpr) : bool :=
  match e with
  | EBad => false
  | ESpread e' | EAddr e' | EConv _ e' => expr_ok e'
  | ECall _ args => (fix go (l : list wexpr) : bool := match l with [] => true | a :: t => expr_ok a && go t end) args
  | _ => true
  end.
Definition stmt_ok (s : wstmt) : bool :=
  match s with SAssign _ e => expr_ok e | SIfErr _ rs | SRet rs => forallb expr_ok rs end.
Lemma wrappers_well_formed : forallb (fun w => forallb stmt_ok (snd (snd w))) wrappers = true.
Proof. vm_compute. reflexivity. Qed.
