(* Generic theory of effect summaries (parametric in the regenerated table):
   what it means for a function to write a root / assign or read a package variable
   through any finite chain of calls, and the fact that ANY table that is closed under
   one propagation step contains all of it.  The concrete tables are computed and
   checked closed by vm_compute in GenProofs/C17G.v and C18G.v. *)
From Mxj Require Import Gen.GenSupport.
Local Open Scope string_scope.

Fixpoint lookup_s {A} (d : A) (k : string) (t : list (string * A)) : A :=
  match t with [] => d | (k', v) :: t' => if String.eqb k k' then v else lookup_s d k t' end.

Definition mem_root (r : root) (l : list root) : bool := existsb (root_eqb r) l.
Definition mem_str (x : string) (l : list string) : bool := existsb (String.eqb x) l.
Definition incl_roots (a b : list root) : bool := forallb (fun r => mem_root r b) a.
Definition incl_strs (a b : list string) : bool := forallb (fun r => mem_str r b) a.

Fixpoint dedup_roots (l : list root) : list root :=
  match l with [] => [] | r :: t => if mem_root r t then dedup_roots t else r :: dedup_roots t end.
Fixpoint dedup_strs (l : list string) : list string :=
  match l with [] => [] | r :: t => if mem_str r t then dedup_strs t else r :: dedup_strs t end.

(* what a root of the callee is in terms of the caller's roots at one call site *)
Definition map_root (args : argmap) (r : root) : list root :=
  match r with
  | G => [G]
  | Pt j => flat_map (fun a => if Nat.eqb (fst (fst a)) j then snd (fst a) else []) args
  | Pd j => flat_map (fun a => if Nat.eqb (fst (fst a)) j then snd a else []) args
  end.

Lemma root_eqb_eq a b : root_eqb a b = true <-> a = b.
Proof.
  destruct a, b; simpl; split; intro H; try discriminate; try reflexivity;
    try (apply Nat.eqb_eq in H; subst; reflexivity); try (inversion H; subst; apply Nat.eqb_refl).
Qed.
Lemma mem_root_in r l : mem_root r l = true <-> In r l.
Proof.
  unfold mem_root. rewrite existsb_exists. split.
  - intros [x [Hx He]]. apply root_eqb_eq in He. subst. exact Hx.
  - intro H. exists r. split; [exact H | apply root_eqb_eq; reflexivity].
Qed.
Lemma mem_str_in r l : mem_str r l = true <-> In r l.
Proof.
  unfold mem_str. rewrite existsb_exists. split.
  - intros [x [Hx He]]. apply String.eqb_eq in He. subst. exact Hx.
  - intro H. exists r. split; [exact H | apply String.eqb_refl].
Qed.
Lemma incl_roots_spec a b : incl_roots a b = true <-> incl a b.
Proof.
  unfold incl_roots, incl. rewrite forallb_forall. split; intros H x Hx.
  - apply mem_root_in. apply H. exact Hx.
  - apply mem_root_in. apply H. exact Hx.
Qed.
Lemma incl_strs_spec a b : incl_strs a b = true <-> incl a b.
Proof.
  unfold incl_strs, incl. rewrite forallb_forall. split; intros H x Hx.
  - apply mem_str_in. apply H. exact Hx.
  - apply mem_str_in. apply H. exact Hx.
Qed.

Section Effects.
Variable effects : list finfo.

(* ---- heap writes through parameters / package variables ---- *)
(* f stores into root r (of f's own parameters), by a statement of its own or through a chain of calls *)
Inductive writes_root : string -> root -> Prop :=
| wr_direct fi r : In fi effects -> In r (f_writes fi) -> writes_root (f_name fi) r
| wr_call fi c r r' : In fi effects -> In c (f_calls fi) -> writes_root (fst c) r ->
                      In r' (map_root (snd c) r) -> writes_root (f_name fi) r'.

Definition wtable := list (string * list root).
Definition wstep1 (tbl : wtable) (fi : finfo) : list root :=
  f_writes fi ++ flat_map (fun c => flat_map (map_root (snd c)) (lookup_s [] (fst c) tbl)) (f_calls fi).
Definition wstep (tbl : wtable) : wtable := map (fun fi => (f_name fi, dedup_roots (wstep1 tbl fi))) effects.
Definition wclosed (tbl : wtable) : bool :=
  forallb (fun fi => incl_roots (wstep1 tbl fi) (lookup_s [] (f_name fi) tbl)) effects.
Fixpoint witer (n : nat) (tbl : wtable) : wtable :=
  match n with O => tbl | S n' => if wclosed tbl then tbl else witer n' (wstep tbl) end.
Definition wtable0 : wtable := map (fun fi => (f_name fi, @nil root)) effects.

Theorem wclosed_sound tbl : wclosed tbl = true ->
  forall f r, writes_root f r -> In r (lookup_s [] f tbl).
Proof.
  intros Hc f r H. unfold wclosed in Hc. rewrite forallb_forall in Hc.
  induction H as [fi r Hfi Hr | fi c r r' Hfi Hc' _ IH Hr'].
  - specialize (Hc fi Hfi). apply incl_roots_spec in Hc. apply Hc. unfold wstep1. apply in_or_app. left. exact Hr.
  - specialize (Hc fi Hfi). apply incl_roots_spec in Hc. apply Hc. unfold wstep1. apply in_or_app. right.
    apply in_flat_map. exists c. split; [exact Hc'|]. apply in_flat_map. exists r. split; [exact IH | exact Hr'].
Qed.

(* ---- package-level variables assigned / read, transitively ---- *)
Inductive touches_var (sel : finfo -> list string) : string -> string -> Prop :=
| tv_direct fi v : In fi effects -> In v (sel fi) -> touches_var sel (f_name fi) v
| tv_call fi c v : In fi effects -> In c (f_calls fi) -> touches_var sel (fst c) v -> touches_var sel (f_name fi) v.

Definition vtable := list (string * list string).
Definition vstep1 (sel : finfo -> list string) (tbl : vtable) (fi : finfo) : list string :=
  sel fi ++ flat_map (fun c => lookup_s [] (fst c) tbl) (f_calls fi).
Definition vstep sel (tbl : vtable) : vtable := map (fun fi => (f_name fi, dedup_strs (vstep1 sel tbl fi))) effects.
Definition vclosed sel (tbl : vtable) : bool :=
  forallb (fun fi => incl_strs (vstep1 sel tbl fi) (lookup_s [] (f_name fi) tbl)) effects.
Fixpoint viter sel (n : nat) (tbl : vtable) : vtable :=
  match n with O => tbl | S n' => if vclosed sel tbl then tbl else viter sel n' (vstep sel tbl) end.
Definition vtable0 : vtable := map (fun fi => (f_name fi, @nil string)) effects.

Theorem vclosed_sound sel tbl : vclosed sel tbl = true ->
  forall f v, touches_var sel f v -> In v (lookup_s [] f tbl).
Proof.
  intros Hc f v H. unfold vclosed in Hc. rewrite forallb_forall in Hc.
  induction H as [fi v Hfi Hv | fi c v Hfi Hc' _ IH].
  - specialize (Hc fi Hfi). apply incl_strs_spec in Hc. apply Hc. unfold vstep1. apply in_or_app. left. exact Hv.
  - specialize (Hc fi Hfi). apply incl_strs_spec in Hc. apply Hc. unfold vstep1. apply in_or_app. right.
    apply in_flat_map. exists c. split; [exact Hc' | exact IH].
Qed.

(* ---- reaches a user callback / a go statement ---- *)
Inductive reaches (p : finfo -> bool) : string -> Prop :=
| re_direct fi : In fi effects -> p fi = true -> reaches p (f_name fi)
| re_call fi c : In fi effects -> In c (f_calls fi) -> reaches p (fst c) -> reaches p (f_name fi).

Definition rtable := list (string * bool).
Definition rstep1 (p : finfo -> bool) (tbl : rtable) (fi : finfo) : bool :=
  p fi || existsb (fun c => lookup_s false (fst c) tbl) (f_calls fi).
Definition rstep p (tbl : rtable) : rtable := map (fun fi => (f_name fi, rstep1 p tbl fi)) effects.
Definition rclosed p (tbl : rtable) : bool :=
  forallb (fun fi => implb (rstep1 p tbl fi) (lookup_s false (f_name fi) tbl)) effects.
Fixpoint riter p (n : nat) (tbl : rtable) : rtable :=
  match n with O => tbl | S n' => if rclosed p tbl then tbl else riter p n' (rstep p tbl) end.
Definition rtable0 : rtable := map (fun fi => (f_name fi, false)) effects.

Theorem rclosed_sound p tbl : rclosed p tbl = true -> forall f, reaches p f -> lookup_s false f tbl = true.
Proof.
  intros Hc f H. unfold rclosed in Hc. rewrite forallb_forall in Hc.
  induction H as [fi Hfi Hp | fi c Hfi Hc' _ IH].
  - specialize (Hc fi Hfi). unfold rstep1 in Hc. rewrite Hp in Hc. simpl in Hc. exact Hc.
  - specialize (Hc fi Hfi). unfold rstep1 in Hc.
    assert (E : existsb (fun c => lookup_s false (fst c) tbl) (f_calls fi) = true).
    { apply existsb_exists. exists c. split; assumption. }
    rewrite E, orb_true_r in Hc. simpl in Hc. exact Hc.
Qed.
End Effects.
