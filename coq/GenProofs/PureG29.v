(* The JSON encoder entry points go2v translated from /repo's CURRENT sources (Gen/Pure_gen.v):
     marshalJSON(v, escapeHTML)  = json.NewEncoder(&buf), SetEscapeHTML(escapeHTML), Encode(v), the trailing newline trimmed   (json.go)
     Map.JsonIndent              = marshalJSON then json.Indent(&buf, b, prefix, indent)                                         (json.go)
   ARE the models map_json / map_json_indent of Model/EncForms.v (C06, C16, C19), for ANY behaviour of encoding/json's Encoder.Encode
   (ext_json_Encode: what it writes, given the value and the escapeHTML flag) and json.Indent (ext_json_Indent: what it appends). *)
From Coq Require Import Lia.
From Mxj Require Import Gen.GenSupport Gen.Setters_gen Gen.PureSupport Gen.Pure_gen Model.EncForms.
From Mxj Require Import Proofs.StrLemmas GenProofs.PureG5 GenProofs.PureG13.

Lemma str_eqb_single (c d : ascii) : str_eqb [c] [d] = Ascii.eqb c d.
Proof. unfold str_eqb. cbn. destruct (Ascii.eqb c d); reflexivity. Qed.

(* bytes.TrimSuffix(b, "\n") as translated = the model's trim_suffix_nl *)
Lemma trim_suffix_nl_code (b : str) : go_trim_suffix b [nl] = trim_suffix_nl b.
Proof.
  unfold go_trim_suffix, trim_suffix_nl.
  induction b as [|c0 y _] using rev_ind; [reflexivity|].
  rewrite rev_app_distr. cbn [rev app length].
  rewrite app_length. cbn [length].
  replace (length y + 1 - 1) with (length y) by lia.
  replace (Nat.leb 1 (length y + 1)) with true by (symmetry; apply Nat.leb_le; lia).
  rewrite skipn_app, skipn_all, Nat.sub_diag. cbn [skipn app andb].
  rewrite firstn_app, firstn_all, Nat.sub_diag. cbn [firstn]. rewrite app_nil_r.
  rewrite str_eqb_single. rewrite rev_involutive. reflexivity.
Qed.

Theorem marshal_json_code_is_model : forall (encode : value -> bool -> res str) st v escapeHTML,
  fn_marshalJSON encode st v escapeHTML = of_res (map_json (encode v escapeHTML)).
Proof.
  intros E st v esc. unfold fn_marshalJSON. cbv zeta.
  destruct (E v esc) as [w|e|]; cbn [map_json of_res bindc negb app]; try reflexivity.
  change (hx "0a") with [nl]. rewrite trim_suffix_nl_code. reflexivity.
Qed.
Print Assumptions marshal_json_code_is_model.

(* Map.JsonIndent, for any marshalJSON and any json.Indent *)
Theorem json_indent_code : forall (indent : str -> str -> str -> res str) (marshalJSON : value -> bool -> res str) st mv prefix ind safe,
  fn_JsonIndent indent marshalJSON st mv prefix ind safe
  = of_res (bind (marshalJSON (VMap mv) (opt_flag safe)) (fun b => indent b prefix ind)).
Proof.
  intros I M st mv prefix ind safe. unfold fn_JsonIndent. cbv zeta. rewrite flag_select.
  destruct (M (VMap mv) (opt_flag safe)) as [b|e|]; cbn [bind of_res bindc negb]; try reflexivity.
Qed.
Print Assumptions json_indent_code.

(* ... with the translated marshalJSON: the model map_json_indent over what Encoder.Encode writes *)
Definition run_marshalJSON (encode : value -> bool -> res str) (st : gstate) (v : value) (esc : bool) : res str :=
  match fn_marshalJSON encode st v esc with Ret r => r | _ => Panic end.

Lemma run_marshalJSON_eq encode st v esc : run_marshalJSON encode st v esc = map_json (encode v esc).
Proof. unfold run_marshalJSON. rewrite marshal_json_code_is_model. destruct (map_json (encode v esc)); reflexivity. Qed.

Theorem json_indent_code_is_model : forall (indent : str -> str -> str -> res str) (encode : value -> bool -> res str) st mv prefix ind safe,
  fn_JsonIndent indent (run_marshalJSON encode st) st mv prefix ind safe
  = of_res (map_json_indent (fun b => indent b prefix ind) (encode (VMap mv) (opt_flag safe))).
Proof.
  intros I E st mv prefix ind safe. rewrite json_indent_code, run_marshalJSON_eq. reflexivity.
Qed.
Print Assumptions json_indent_code_is_model.

(* Map.Json with the translated marshalJSON *)
Theorem json_code_is_model : forall (encode : value -> bool -> res str) st mv safe,
  fn_Json (run_marshalJSON encode st) st mv safe = of_res (map_json (encode (VMap mv) (opt_flag safe))).
Proof. intros E st mv safe. rewrite json_code, run_marshalJSON_eq. reflexivity. Qed.
Print Assumptions json_code_is_model.

(* non-vacuity: an encoder that writes a text and its newline *)
Example marshal_json_example :
  fn_marshalJSON (fun _ _ => Ok (s "{}" ++ [nl])) gstate0 (VMap []) false = Ret (Ok (s "{}")) /\
  fn_marshalJSON (fun _ _ => Err EOther) gstate0 (VMap []) true = Ret (Err EOther).
Proof. split; reflexivity. Qed.
