package main

// C13 - stream decoding is independent of how the io.Reader delivers bytes.
//
// Scripted io.Readers (a schedule of chunks, (0,nil) reads, io.EOF together with the last
// data or after it) drive the exported reader functions, bulk handlers and file readers of
// mxj.  Each case is printed for coqc with the schedule flattened to one event per one-byte
// Read (the adaptors and getJson read into one-byte buffers; a Read with any other buffer
// length makes the case `RBad`), the observations, and the decode tables obtained by running
// the same exported functions over a bytes.Reader (an io.ByteReader: no adaptor involved).

import (
	"bufio"
	"bytes"
	"encoding/json"
	"fmt"
	"io"
	"os"
	"path/filepath"
	"strconv"
	"strings"

	mxj "github.com/clbanning/mxj/v2"
)

// ---------------------------------------------------------------- scripted readers

// rEv is one step of a reader script: K = "d" data chunk, "e" data chunk whose last byte
// is returned together with io.EOF, "z" a (0, nil) read, "E" a (0, io.EOF) read.
type rEv struct {
	K string `json:"k"`
	D []byte `json:"d,omitempty"`
}

type scriptReader struct {
	evs       []rEv
	i, off    int
	pos       int // one-byte events consumed
	delivered int // data bytes handed out
	nonUnit   bool
	reads     int
}

func (s *scriptReader) Read(p []byte) (int, error) {
	s.reads++
	if len(p) != 1 {
		s.nonUnit = true
	}
	if len(p) == 0 {
		return 0, nil
	}
	if s.i >= len(s.evs) {
		return 0, io.EOF
	}
	e := s.evs[s.i]
	switch e.K {
	case "z":
		s.i++
		s.pos++
		return 0, nil
	case "E":
		s.i++
		s.pos++
		return 0, io.EOF
	}
	n := copy(p, e.D[s.off:])
	s.off += n
	s.pos += n
	s.delivered += n
	if s.off >= len(e.D) {
		s.i++
		s.off = 0
		if e.K == "e" {
			return n, io.EOF
		}
	}
	return n, nil
}

// unit events: 'd' byte, 'e' byte with EOF, 'z', 'E'
type uEv struct {
	k byte
	b byte
}

func unitEvents(evs []rEv) []uEv {
	var out []uEv
	for _, e := range evs {
		switch e.K {
		case "z":
			out = append(out, uEv{'z', 0})
		case "E":
			out = append(out, uEv{'E', 0})
		default:
			for i, b := range e.D {
				if e.K == "e" && i == len(e.D)-1 {
					out = append(out, uEv{'e', b})
				} else {
					out = append(out, uEv{'d', b})
				}
			}
		}
	}
	return out
}

func coqSched(evs []rEv) string {
	var parts []string
	var run []byte
	flush := func() {
		if len(run) > 0 {
			parts = append(parts, "dat "+coqStr(string(run)))
			run = nil
		}
	}
	for _, e := range evs {
		switch e.K {
		case "d":
			run = append(run, e.D...)
		case "e":
			run = append(run, e.D...)
			parts = append(parts, "dat_eof "+coqStr(string(run)))
			run = nil
		case "z":
			flush()
			if n := len(parts); n > 0 && strings.HasPrefix(parts[n-1], "zeros ") {
				var k int
				fmt.Sscanf(parts[n-1], "zeros %d", &k)
				parts[n-1] = fmt.Sprintf("zeros %d", k+1)
			} else {
				parts = append(parts, "zeros 1")
			}
		case "E":
			flush()
			parts = append(parts, "[Eof]")
		}
	}
	flush()
	if len(parts) == 0 {
		return "[]"
	}
	return "(" + strings.Join(parts, " ++ ") + ")"
}

func schedHas(evs []rEv, k string) bool {
	for _, e := range evs {
		if e.K == k {
			return true
		}
	}
	return false
}

// maxZeroRun: byteReader / teeReader give up with io.ErrNoProgress after 100 consecutive (0, nil) reads.
const maxZeroRun = 100

// longZeroRun: the script has at least maxZeroRun consecutive (0, nil) reads.
func longZeroRun(evs []rEv) bool {
	run := 0
	for _, e := range evs {
		if e.K == "z" {
			run++
			if run >= maxZeroRun {
				return true
			}
		} else {
			run = 0
		}
	}
	return false
}

// genSchedule splits stream into a legal script.  class: 0 clean, 1 data+EOF at the end,
// 2 interspersed (0,nil), 3 both, 4 like 3 with one run of 99..101 consecutive (0,nil) reads.
func (r *Rng) genSchedule(stream []byte, class int) []rEv {
	var evs []rEv
	i := 0
	for i < len(stream) {
		n := 1 + r.Intn(7)
		if r.chance(0.15) {
			n = 1 + r.Intn(len(stream))
		}
		if i+n > len(stream) {
			n = len(stream) - i
		}
		if class >= 2 && r.chance(0.25) {
			for k := 1 + r.Intn(2); k > 0; k-- {
				evs = append(evs, rEv{K: "z"})
			}
		}
		evs = append(evs, rEv{K: "d", D: append([]byte{}, stream[i:i+n]...)})
		i += n
	}
	if (class == 1 || class >= 3) && len(evs) > 0 && evs[len(evs)-1].K == "d" && r.chance(0.8) {
		evs[len(evs)-1].K = "e"
	} else if class >= 2 && r.chance(0.3) {
		evs = append(evs, rEv{K: "z"})
	}
	if class == 4 {
		at := r.Intn(len(evs) + 1)
		for at > 0 && evs[at-1].K == "e" {
			at--
		}
		run := make([]rEv, maxZeroRun-1+r.Intn(3))
		for i := range run {
			run[i] = rEv{K: "z"}
		}
		evs = append(evs[:at], append(run, evs[at:]...)...)
	}
	for k := r.Intn(3); k > 0; k-- {
		evs = append(evs, rEv{K: "E"})
	}
	return evs
}

// ---------------------------------------------------------------- results of reader calls

func resCoq(o Outcome) string {
	if o.Panicked {
		return "Panic"
	}
	if o.Err != nil {
		return "(Err " + errClass(o.Err) + ")"
	}
	return "(Ok " + coqVal(o.Ret) + ")"
}

func resText(o Outcome) string {
	if o.Panicked {
		return "panic"
	}
	if o.Err != nil {
		return "error:" + errClass(o.Err)
	}
	return canon(o.Ret)
}

// readerFn calls one exported reader function once: outcome and raw bytes (nil for non-Raw).
type readerFn func(rd io.Reader) (Outcome, []byte)

func asMap(m interface{}) interface{} {
	switch x := m.(type) {
	case mxj.Map:
		return map[string]interface{}(x)
	case mxj.MapSeq:
		return map[string]interface{}(x)
	}
	return m
}

func mkOutcome(m interface{}, err error) Outcome {
	if err != nil {
		return Outcome{Err: err}
	}
	return Outcome{Ret: asMap(m)}
}

var readerFns = map[string]readerFn{
	"xml": func(rd io.Reader) (Outcome, []byte) {
		return protect(func() Outcome { m, err := mxj.NewMapXmlReader(rd); return mkOutcome(m, err) }), nil
	},
	"xmlraw": func(rd io.Reader) (o Outcome, raw []byte) {
		o = protect(func() Outcome {
			m, b, err := mxj.NewMapXmlReaderRaw(rd)
			raw = append([]byte{}, b...)
			return mkOutcome(m, err)
		})
		return
	},
	"seq": func(rd io.Reader) (Outcome, []byte) {
		return protect(func() Outcome { m, err := mxj.NewMapXmlSeqReader(rd); return mkOutcome(m, err) }), nil
	},
	"seqraw": func(rd io.Reader) (o Outcome, raw []byte) {
		o = protect(func() Outcome {
			m, b, err := mxj.NewMapXmlSeqReaderRaw(rd)
			raw = append([]byte{}, b...)
			return mkOutcome(m, err)
		})
		return
	},
	"json": func(rd io.Reader) (Outcome, []byte) {
		return protect(func() Outcome { m, err := mxj.NewMapJsonReader(rd); return mkOutcome(m, err) }), nil
	},
	"jsonraw": func(rd io.Reader) (o Outcome, raw []byte) {
		o = protect(func() Outcome {
			m, b, err := mxj.NewMapJsonReaderRaw(rd)
			raw = append([]byte{}, b...)
			return mkOutcome(m, err)
		})
		return
	},
}

func isJSONFn(fn string) bool { return strings.Contains(fn, "json") }
func isRawFn(fn string) bool  { return strings.HasSuffix(fn, "raw") }
func isSeqFn(fn string) bool  { return strings.HasPrefix(fn, "seq") }

// baseFn: the reader function a handler / file reader is built on.
func baseFn(fn string) string {
	switch fn {
	case "hxml", "fxml":
		return "xml"
	case "hxmlraw", "fxmlraw":
		return "xmlraw"
	case "hjson", "fjson":
		return "json"
	case "hjsonraw", "fjsonraw":
		return "jsonraw"
	}
	return fn
}

type obsCall struct {
	o         Outcome
	raw       []byte
	pos       int
	delivered int
}

const maxCalls = 40

// readAll calls fn until it returns an error or panics.
func readAll(fn string, evs []rEv) ([]obsCall, *scriptReader) {
	sr := &scriptReader{evs: evs}
	var out []obsCall
	for k := 0; k < maxCalls; k++ {
		o, raw := readerFns[fn](sr)
		out = append(out, obsCall{o, raw, sr.pos, sr.delivered})
		if o.Panicked || o.Err != nil {
			break
		}
	}
	return out, sr
}

func coqObs(cs []obsCall) string {
	parts := make([]string, len(cs))
	for i, c := range cs {
		parts[i] = fmt.Sprintf("Obs %s %s %d", resCoq(c.o), coqStr(string(c.raw)), c.pos)
	}
	return "[" + strings.Join(parts, ";") + "]"
}

// ---------------------------------------------------------------- decode tables (the environment)

// directXml decodes through a bytes.Reader (which is an io.ByteReader, so NewMapXmlReader hands it to
// xml.NewDecoder unchanged): outcome and number of bytes the decoder took.
func directXml(seq bool, x []byte) (Outcome, int) {
	br := bytes.NewReader(x)
	o := protect(func() Outcome {
		if seq {
			m, err := mxj.NewMapXmlSeqReader(br)
			return mkOutcome(m, err)
		}
		m, err := mxj.NewMapXmlReader(br)
		return mkOutcome(m, err)
	})
	return o, len(x) - br.Len()
}

// seenFrom: the bytes a decoder behind a freshly made adaptor is given from unit event `from` on, and how the
// supply ends (io.EOF or, after maxZeroRun consecutive (0,nil) reads, io.ErrNoProgress).  This only chooses which
// strings the table is asked about; every table entry is a statement about the decoder over an io.ByteReader
// that is not mxj's, and is true whatever strings are chosen (a wrong choice shows up as a missing entry = mismatch).
func seenFrom(us []uEv, from int) ([]byte, error) {
	var seen []byte
	zeros := 0
	for _, u := range us[from:] {
		switch u.k {
		case 'd', 'e':
			zeros = 0
			seen = append(seen, u.b)
		case 'z':
			zeros++
			if zeros >= maxZeroRun {
				return seen, io.ErrNoProgress
			}
		default:
			return seen, io.EOF
		}
	}
	return seen, io.EOF
}

// endReader is an io.ByteReader of its own (NewMapXmlReader hands an io.ByteReader to xml.NewDecoder unchanged):
// the bytes, then the error `end` forever.
type endReader struct {
	data  []byte
	i     int
	end   error
	atEnd bool
}

func (e *endReader) ReadByte() (byte, error) {
	if e.i < len(e.data) {
		e.i++
		return e.data[e.i-1], nil
	}
	e.atEnd = true
	return 0, e.end
}
func (e *endReader) Read(p []byte) (int, error) {
	if len(p) == 0 {
		return 0, nil
	}
	b, err := e.ReadByte()
	if err != nil {
		return 0, err
	}
	p[0] = b
	return 1, nil
}

type dentry struct {
	kind string // DDone DEof DNoProg
	x    []byte
	o    Outcome
}

func xmlEntry(seq bool, seen []byte, end error) dentry {
	er := &endReader{data: seen, end: end}
	o := protect(func() Outcome {
		if seq {
			m, err := mxj.NewMapXmlSeqReader(er)
			return mkOutcome(m, err)
		}
		m, err := mxj.NewMapXmlReader(er)
		return mkOutcome(m, err)
	})
	switch {
	case !er.atEnd:
		return dentry{"DDone", seen[:er.i], o}
	case end == io.ErrNoProgress:
		return dentry{"DNoProg", seen, o}
	}
	return dentry{"DEof", seen, o}
}

func coqDents(ds []dentry) string {
	seen := map[string]bool{}
	var parts []string
	for _, d := range ds {
		k := d.kind + string(d.x)
		if seen[k] {
			continue
		}
		seen[k] = true
		parts = append(parts, d.kind+" "+coqStr(string(d.x))+" "+resCoq(d.o))
	}
	return "[" + strings.Join(parts, ";") + "]"
}

// xmlTable walks the schedule the way repeated reader calls do and collects the decoder's
// behaviour at every position a call can start from.
func xmlTable(fn string, evs []rEv) []dentry {
	us := unitEvents(evs)
	sr := &scriptReader{evs: evs}
	var ds []dentry
	base := baseFn(fn)
	for k := 0; k < maxCalls; k++ {
		from := sr.pos
		if from > len(us) {
			from = len(us)
		}
		sb, end := seenFrom(us, from)
		ds = append(ds, xmlEntry(isSeqFn(base), sb, end))
		if sr.pos >= len(us) {
			break
		}
		if o, _ := readerFns[base](sr); o.Panicked {
			break
		}
	}
	return ds
}

func directJson(b []byte) Outcome {
	return protect(func() Outcome { m, err := mxj.NewMapJson(b); return mkOutcome(m, err) })
}

// jsonTable: NewMapJson on every byte string getJson hands over (observed through the Raw variant).
func jsonTable(evs []rEv, docs [][]byte) string {
	sr := &scriptReader{evs: evs}
	seen := map[string]bool{}
	var parts []string
	add := func(b []byte) {
		if seen[string(b)] {
			return
		}
		seen[string(b)] = true
		parts = append(parts, "("+coqStr(string(b))+","+resCoq(directJson(b))+")")
	}
	nu := len(unitEvents(evs))
	for k := 0; k < maxCalls && sr.pos < nu; k++ {
		// a panic of the Raw variant (nil *jb) happens after getJson has returned: the walk goes on like the non-Raw callers do
		_, raw := readerFns["jsonraw"](sr)
		add(raw)
	}
	for _, d := range docs {
		add(d)
		add(squeezeJSON(d))
	}
	return "[" + strings.Join(parts, ";") + "]"
}

// squeezeJSON drops blanks outside string literals (what the scanner keeps of a well-formed document).
func squeezeJSON(d []byte) []byte {
	var out []byte
	inq := false
	for i := 0; i < len(d); i++ {
		c := d[i]
		if inq {
			out = append(out, c)
			if c == '\\' && i+1 < len(d) {
				i++
				out = append(out, d[i])
			} else if c == '"' {
				inq = false
			}
			continue
		}
		if c == ' ' || c == '\n' || c == '\r' || c == '\t' {
			continue
		}
		if c == '"' {
			inq = true
		}
		out = append(out, c)
	}
	return out
}

// ---------------------------------------------------------------- streams

type c13Case struct {
	Fn     string   `json:"fn"`
	Docs   [][]byte `json:"docs"`   // the documents of the stream, in order (nil for malformed streams)
	Stream []byte   `json:"stream"` // the whole byte stream
	Ends   []int    `json:"ends"`   // offset just after each document
	Evs    []rEv    `json:"events"`
	Stop   int      `json:"stop"`  // handlers: mapHandler returns false on this call (-1: never)
	EhRet  bool     `json:"ehret"` // handlers: what errHandler returns
	Mal    bool     `json:"malformed,omitempty"`
	Std    string   `json:"stdreader,omitempty"` // non-empty: the stream is read through this standard-library reader (Go-side oracle only)
}

var wsPool = []string{"", "", " ", "\n", "\r\n", " \t\n ", "  "}

var c13Texts = []string{"x", "1", "2.5", "true", "a b", "<&>", "é", "]]>", "l1\nl2", "q\"'"}

func (r *Rng) genXmlStream(c *c13Case, ndocs int) {
	dc := docCfg{maxDepth: 2, maxFan: 2, mixedText: r.chance(0.3), noise: r.chance(0.3), texts: c13Texts}
	var sb bytes.Buffer
	for i := 0; i < ndocs; i++ {
		sb.WriteString(r.pick(wsPool))
		root := r.genElem(dc, 0)
		var d strings.Builder
		r.render(root, &d, dc, false)
		doc := d.String()
		if i := strings.Index(doc, ">"); i > 0 && doc[i-1] != '/' && r.chance(0.1) {
			doc = doc[:i] + " " + doc[i:] // blank before the first '>'
		}
		sb.WriteString(doc)
		c.Docs = append(c.Docs, []byte(doc))
		c.Ends = append(c.Ends, sb.Len())
	}
	sb.WriteString(r.pick(wsPool))
	c.Stream = sb.Bytes()
}

var c13JStrs = []string{"x", "", "a{b", "}", "{", "}{", "q\"uote", "back\\slash", "trail\\", "\\", "\\\"", "{\"k\":1}",
	" sp ace ", "tab\there", "é", "<&>", "\\\\", "x\\\"", "a\\\\\"b", "nl\n"}
var c13JKeys = []string{"a", "b", "k", "list", "k{", "q\"", "b\\", "sp ace", "}"}

func (r *Rng) genJVal(depth int, trailOK bool) interface{} {
	switch x := r.Intn(10); {
	case x < 5 || depth >= 2:
		switch r.Intn(6) {
		case 0:
			return float64(r.Intn(100))
		case 1:
			return r.chance(0.5)
		case 2:
			return nil
		}
		for {
			s := r.pick(c13JStrs)
			if trailOK || !strings.HasSuffix(s, "\\") {
				return s
			}
		}
	case x < 8:
		return r.genJObj(depth+1, trailOK, false)
	default:
		n := r.Intn(3)
		l := make([]interface{}, n)
		for i := range l {
			l[i] = r.genJVal(depth+1, trailOK)
		}
		return l
	}
}

func (r *Rng) genJObj(depth int, trailOK, allowEmpty bool) map[string]interface{} {
	n := 1 + r.Intn(3)
	if allowEmpty && r.chance(0.08) || depth > 0 && r.chance(0.1) {
		n = 0
	}
	m := map[string]interface{}{}
	for i := 0; i < n; i++ {
		k := r.pick(c13JKeys)
		if !trailOK && strings.HasSuffix(k, "\\") {
			k = "a"
		}
		m[k] = r.genJVal(depth, trailOK)
	}
	return m
}

// spreadJSON inserts blanks outside string literals.
func (r *Rng) spreadJSON(d []byte) []byte {
	var out []byte
	inq := false
	for i := 0; i < len(d); i++ {
		c := d[i]
		if inq {
			out = append(out, c)
			if c == '\\' && i+1 < len(d) {
				i++
				out = append(out, d[i])
			} else if c == '"' {
				inq = false
			}
			continue
		}
		if c == '"' {
			inq = true
		}
		if (c == ':' || c == ',' || c == '}' || c == ']') && r.chance(0.3) {
			out = append(out, r.pick([]string{" ", "\n", "\t ", "\r\n"})...)
		}
		out = append(out, c)
		if (c == ':' || c == ',' || c == '{' || c == '[') && r.chance(0.3) {
			out = append(out, ' ')
		}
	}
	return out
}

func (r *Rng) genJsonStream(c *c13Case, ndocs int, trailOK, spread, allowEmpty bool) {
	var sb bytes.Buffer
	for i := 0; i < ndocs; i++ {
		sb.WriteString(r.pick(wsPool))
		m := r.genJObj(0, trailOK, allowEmpty)
		var d []byte
		if r.chance(0.5) {
			d, _ = json.Marshal(m)
		} else {
			var bb bytes.Buffer
			enc := json.NewEncoder(&bb)
			enc.SetEscapeHTML(false)
			enc.Encode(m)
			d = bytes.TrimRight(bb.Bytes(), "\n")
		}
		if spread {
			d = r.spreadJSON(d)
		}
		sb.Write(d)
		c.Docs = append(c.Docs, d)
		c.Ends = append(c.Ends, sb.Len())
	}
	sb.WriteString(r.pick(wsPool))
	c.Stream = sb.Bytes()
}

var malXml = []string{"<a><b></a>", "<a>1</a><b", "<a x=1>2</a>", "</a>", "<a>1</a> x <b>2</b>", "<a>1", "<a/><a></b><c/>", "text only", "<a>&bogus;</a><b/>"}
var malJson = []string{"}", "{\"a\":1}}", " } {\"a\":1}", "{\"a\":}", "{\"a\":1}{\"b\":", "{\"a\":1} x {\"b\":2}", "{\"a\":[1,2}", "{{}", "{\"a\":1e400}{\"b\":2}", "[1,2]{\"a\":1}", "{\"a\" 1}{\"b\":2}"}

// ---------------------------------------------------------------- expected results (decoding each document directly)

func directDoc(fn string, d []byte) Outcome {
	switch {
	case isJSONFn(fn):
		return directJson(d)
	case isSeqFn(baseFn(fn)):
		o, _ := directXml(true, d)
		return o
	}
	return protect(func() Outcome { m, err := mxj.NewMapXml(d); return mkOutcome(m, err) })
}

// ---------------------------------------------------------------- running one case

func jsonHasTrailingBackslashString(docs [][]byte) bool {
	for _, d := range docs {
		if bytes.Contains(d, []byte(`\\"`)) {
			// an even run of backslashes before a quote
			for i := 0; i < len(d); i++ {
				if d[i] == '"' {
					n := 0
					for j := i - 1; j >= 0 && d[j] == '\\'; j-- {
						n++
					}
					if n > 0 && n%2 == 0 {
						return true
					}
				}
			}
		}
	}
	return false
}

func jsonHasOuterBlank(c c13Case) bool {
	if len(bytes.TrimLeft(c.Stream, " \t\r\n")) != len(c.Stream) {
		return true
	}
	prev := 0
	for i, d := range c.Docs {
		if len(squeezeJSON(d)) != len(d) {
			return true
		}
		if c.Ends[i]-len(d) != prev {
			return true // blanks between documents
		}
		prev = c.Ends[i]
	}
	return false
}

func hasEmptyDoc(fn string, docs [][]byte) bool {
	for _, d := range docs {
		o := directDoc(fn, d)
		if m, ok := o.Ret.(map[string]interface{}); o.Err == nil && !o.Panicked && ok && len(m) == 0 {
			return true
		}
	}
	return false
}

// shapeKey names the structural shape of the input that an oracle failure is attributed to.
func shapeKey(c c13Case, clause string) string {
	switch {
	case c.Mal:
		return "malformed:" + clause
	case isJSONFn(c.Fn) && clause == "raw" && jsonHasOuterBlank(c):
		return "json-raw-whitespace"
	}
	return clause
}

func c13Term(c c13Case, withTables bool) (term string, impl string, calls []obsCall, hr *handlerRes, fr *fileRes, bad bool) {
	switch {
	case strings.HasPrefix(c.Fn, "h"):
		hr = runHandler(c)
		bad = hr.nonUnit
		tab := ""
		if !withTables {
		} else if isJSONFn(c.Fn) {
			tab = jsonTable(c.Evs, c.Docs)
		} else {
			tab = coqDents(xmlTable(c.Fn, c.Evs))
		}
		ctor := "RHXml"
		if isJSONFn(c.Fn) {
			ctor = "RHJson"
		}
		stop := "None"
		if c.Stop >= 0 {
			stop = fmt.Sprintf("(Some %d)", c.Stop)
		}
		term = fmt.Sprintf("%s %s %s %s %s %s %s %d %s %d", ctor, coqBool(isRawFn(c.Fn)), coqSched(c.Evs), tab, stop,
			coqBool(c.EhRet), coqCalls(hr.calls), hr.nerr, hr.ret, hr.pos)
		impl = fmt.Sprintf("calls=%d errs=%d ret=%s pos=%d", len(hr.calls), hr.nerr, hr.ret, hr.pos)
	case strings.HasPrefix(c.Fn, "f"):
		fr = runFile(c)
		tab := ""
		ctor := "RFXml"
		if isJSONFn(c.Fn) {
			ctor = "RFJson"
			tab = jsonTable([]rEv{{K: "d", D: c.Stream}}, c.Docs)
		} else {
			tab = coqDents(xmlTable(c.Fn, []rEv{{K: "d", D: c.Stream}}))
		}
		term = fmt.Sprintf("%s %s %s %s %s %s", ctor, coqBool(isRawFn(c.Fn)), coqStr(string(c.Stream)), tab, coqCalls(fr.am), fr.ret)
		impl = fmt.Sprintf("maps=%d ret=%s", len(fr.am), fr.ret)
	default:
		var sr *scriptReader
		calls, sr = readAll(c.Fn, c.Evs)
		bad = sr.nonUnit
		tab := ""
		ctor := "RXml"
		if isJSONFn(c.Fn) {
			ctor = "RJson"
		}
		if !withTables {
		} else if isJSONFn(c.Fn) {
			tab = jsonTable(c.Evs, c.Docs)
		} else {
			tab = coqDents(xmlTable(c.Fn, c.Evs))
		}
		term = fmt.Sprintf("%s %s %s %s %s", ctor, coqBool(isRawFn(c.Fn)), coqSched(c.Evs), tab, coqObs(calls))
		var ts []string
		for _, k := range calls {
			ts = append(ts, resText(k.o))
		}
		impl = strings.Join(ts, " ; ")
	}
	if bad {
		term = "RBad"
	}
	return
}

type hcall struct {
	m   map[string]interface{}
	raw []byte
}

func coqCalls(cs []hcall) string {
	parts := make([]string, len(cs))
	for i, c := range cs {
		parts[i] = "(" + coqVal(c.m) + "," + coqStr(string(c.raw)) + ")"
	}
	return "[" + strings.Join(parts, ";") + "]"
}

type handlerRes struct {
	calls    []hcall
	nerr     int
	ret      string // Gallina res unit
	pos      int
	nonUnit  bool
	panicked bool
}

func runHandler(c c13Case) *handlerRes {
	sr := &scriptReader{evs: c.Evs}
	hr := &handlerRes{}
	mh := func(m mxj.Map, raw []byte) bool {
		hr.calls = append(hr.calls, hcall{deepCopy(map[string]interface{}(m)).(map[string]interface{}), append([]byte{}, raw...)})
		return len(hr.calls)-1 != c.Stop
	}
	eh := func(e error, raw []byte) bool { hr.nerr++; return c.EhRet }
	o := protect(func() Outcome {
		var err error
		switch c.Fn {
		case "hxml":
			err = mxj.HandleXmlReader(sr, func(m mxj.Map) bool { return mh(m, nil) }, func(e error) bool { return eh(e, nil) })
		case "hxmlraw":
			err = mxj.HandleXmlReaderRaw(sr, mh, eh)
		case "hjson":
			err = mxj.HandleJsonReader(sr, func(m mxj.Map) bool { return mh(m, nil) }, func(e error) bool { return eh(e, nil) })
		case "hjsonraw":
			err = mxj.HandleJsonReaderRaw(sr, mh, eh)
		}
		return Outcome{Err: err}
	})
	switch {
	case o.Panicked:
		hr.ret = "Panic"
		hr.panicked = true
	case o.Err != nil:
		hr.ret = "(Err EOther)" // the handlers wrap the error text: "[xmlReader: n] ..."
	default:
		hr.ret = "(Ok tt)"
	}
	hr.pos = sr.pos
	hr.nonUnit = sr.nonUnit
	return hr
}

type fileRes struct {
	am  []hcall
	ret string
	err error
}

var c13TmpDir string

func runFile(c c13Case) *fileRes {
	fr := &fileRes{}
	name := filepath.Join(c13TmpDir, "stream.dat")
	if err := os.WriteFile(name, c.Stream, 0o644); err != nil {
		fr.ret = "Panic"
		return fr
	}
	o := protect(func() Outcome {
		var err error
		switch c.Fn {
		case "fxml":
			var ms mxj.Maps
			ms, err = mxj.NewMapsFromXmlFile(name)
			for _, m := range ms {
				fr.am = append(fr.am, hcall{map[string]interface{}(m), nil})
			}
		case "fxmlraw":
			var ms []mxj.MapRaw
			ms, err = mxj.NewMapsFromXmlFileRaw(name)
			for _, m := range ms {
				fr.am = append(fr.am, hcall{map[string]interface{}(m.M), m.R})
			}
		case "fjson":
			var ms mxj.Maps
			ms, err = mxj.NewMapsFromJsonFile(name)
			for _, m := range ms {
				fr.am = append(fr.am, hcall{map[string]interface{}(m), nil})
			}
		case "fjsonraw":
			var ms []mxj.MapRaw
			ms, err = mxj.NewMapsFromJsonFileRaw(name)
			for _, m := range ms {
				fr.am = append(fr.am, hcall{map[string]interface{}(m.M), m.R})
			}
		}
		return Outcome{Err: err}
	})
	switch {
	case o.Panicked:
		fr.ret = "Panic"
	case o.Err != nil:
		fr.ret = "(Err EOther)" // "error: ... - reading: ..."
		fr.err = o.Err
	default:
		fr.ret = "(Ok tt)"
	}
	return fr
}

// ---------------------------------------------------------------- the property, evaluated on the implementation

func c13Oracle(run *Run, c c13Case, calls []obsCall, hr *handlerRes, fr *fileRes) {
	if !isJSONFn(c.Fn) && longZeroRun(c.Evs) {
		// the adaptors under xml.Decoder give up with io.ErrNoProgress after 100 consecutive (0, nil) reads (as bufio does);
		// such scripts are outside the domain the theorems are stated for (zero_bounded) and only feed the correspondence
		run.count("oracle-skip:no-progress-script")
		return
	}
	run.sum.OracleEvals++
	viol := func(clause, what, got, want string) {
		run.violation(Violation{Key: shapeKey(c, clause), What: what, Input: c, Got: got, Want: want})
	}
	if c.Mal {
		// outside the stated domain (not a concatenation of well-formed documents): the only demand is that the
		// reader functions report an error instead of panicking, so that the handlers can pass it to errHandler
		panicked := hr != nil && hr.panicked || fr != nil && fr.ret == "Panic"
		for _, k := range calls {
			panicked = panicked || k.o.Panicked
		}
		if panicked {
			key := "malformed:panic"
			run.violation(Violation{Key: key, What: "a reader function panicked on a malformed stream instead of returning an error",
				Input: c, Got: "panic", Want: "error"})
		}
		return
	}
	var want []string
	for _, d := range c.Docs {
		want = append(want, resText(directDoc(c.Fn, d)))
	}
	switch {
	case hr != nil:
		exp := want
		if c.Stop >= 0 && c.Stop < len(exp) {
			exp = exp[:c.Stop+1]
		}
		var got []string
		for _, k := range hr.calls {
			got = append(got, canon(k.m))
		}
		if strings.Join(got, " ; ") != strings.Join(exp, " ; ") || hr.nerr != 0 || hr.ret != "(Ok tt)" {
			viol("handler", "mapHandler is not invoked exactly once per document, in order, up to the call that returns false",
				fmt.Sprintf("%s errs=%d ret=%s", strings.Join(got, " ; "), hr.nerr, hr.ret), strings.Join(exp, " ; "))
			return
		}
		if isRawFn(c.Fn) {
			c13RawClause(c, viol, func() [][]byte {
				var rs [][]byte
				for _, k := range hr.calls {
					rs = append(rs, k.raw)
				}
				return rs
			}())
		}
	case fr != nil:
		var got []string
		for _, k := range fr.am {
			got = append(got, canon(k.m))
		}
		if strings.Join(got, " ; ") != strings.Join(want, " ; ") || fr.ret != "(Ok tt)" {
			viol("file", "the file reader does not return the Maps of the documents in order",
				strings.Join(got, " ; ")+" ret="+fr.ret, strings.Join(want, " ; "))
			return
		}
		if isRawFn(c.Fn) {
			var rs [][]byte
			for _, k := range fr.am {
				rs = append(rs, k.raw)
			}
			c13RawClause(c, viol, rs)
		}
	default:
		var got []string
		for _, k := range calls {
			got = append(got, resText(k.o))
		}
		exp := append(append([]string{}, want...), "error:EEOF")
		if strings.Join(got, " ; ") != strings.Join(exp, " ; ") {
			viol("results", "the successive results are not the documents decoded directly, followed by io.EOF",
				strings.Join(got, " ; "), strings.Join(exp, " ; "))
			return
		}
		for i := range c.Docs {
			if calls[i].delivered != c.Ends[i] {
				viol("overread", fmt.Sprintf("after document %d the reader has handed out %d bytes, the document ends at %d", i, calls[i].delivered, c.Ends[i]),
					fmt.Sprint(calls[i].delivered), fmt.Sprint(c.Ends[i]))
				return
			}
		}
		if isRawFn(c.Fn) {
			var rs [][]byte
			for _, k := range calls {
				rs = append(rs, k.raw)
			}
			c13RawClause(c, viol, rs)
		}
	}
}

func c13RawClause(c c13Case, viol func(clause, what, got, want string), raws [][]byte) {
	cat := bytes.Join(raws, nil)
	if !bytes.HasPrefix(c.Stream, cat) {
		viol("raw", "the concatenation of the raw values is not a prefix of the stream", string(cat), string(c.Stream))
		return
	}
	for i, d := range c.Docs {
		if i < len(raws) && !bytes.Contains(raws[i], d) {
			viol("raw", fmt.Sprintf("raw value %d does not contain its document", i), string(raws[i]), string(d))
			return
		}
	}
}

func c13One(run *Run, c c13Case) {
	term, impl, calls, hr, fr, bad := c13Term(c, true)
	run.count("fn:" + c.Fn)
	cls := "clean"
	if longZeroRun(c.Evs) {
		cls = "run-of-100-zero-reads"
	} else if schedHas(c.Evs, "z") && schedHas(c.Evs, "e") {
		cls = "zero+data-with-eof"
	} else if schedHas(c.Evs, "z") {
		cls = "zero-reads"
	} else if schedHas(c.Evs, "e") {
		cls = "data-with-eof"
	}
	if strings.HasPrefix(c.Fn, "f") {
		cls = "file"
	}
	run.count("schedule:" + cls)
	run.count(fmt.Sprintf("docs:%d", len(c.Docs)))
	if c.Mal {
		run.count("malformed-stream")
	}
	if bad {
		run.count("non-unit-read")
	}
	run.add(term, c, impl, len(c.Docs) >= 2 && len(c.Evs) >= 3)
	c13Oracle(run, c, calls, hr, fr)
}

const readerHeader = "From Mxj Require Import Run.RunReader.\nLocal Open Scope string_scope.\n"

func init() {
	props["C13"] = runC13
	replays["C13"] = replayC13
}

var c13Fns = []string{"xml", "xmlraw", "seq", "seqraw", "json", "jsonraw", "hxml", "hxmlraw", "hjson", "hjsonraw", "fxml", "fxmlraw", "fjson", "fjsonraw"}

// allSplits enumerates every split of x into consecutive chunks (2^(len-1) of them).
func allSplits(x []byte, f func(chunks [][]byte)) {
	n := len(x)
	for mask := 0; mask < 1<<uint(n-1); mask++ {
		var chunks [][]byte
		start := 0
		for i := 1; i < n; i++ {
			if mask&(1<<uint(i-1)) != 0 {
				chunks = append(chunks, x[start:i])
				start = i
			}
		}
		chunks = append(chunks, x[start:])
		f(chunks)
	}
}

func runC13(cfg runCfg) error {
	r := newRng(cfg.seed)
	run := newRun("C13", cfg.out, cfg.seed, cfg.shards, readerHeader, "rcase",
		"streams of 1-4 documents (XML: random element trees rendered with random lexical choices; JSON: random objects with string "+
			"values containing braces, quotes, backslashes, trailing escaped backslash, blanks outside literals; arbitrary blanks between "+
			"documents) x 14 exported functions (readers, Raw readers, Seq readers, bulk handlers, file readers) x reader scripts (random "+
			"chunk splits, final data with io.EOF or before it, interspersed (0,nil) reads; every split of short streams exhaustively); plus a "+
			"malformed stream; non-trivial = at least 2 documents and 3 script steps; distinct by (function, stream, script) hash")
	restoreDefaults()
	os.MkdirAll("/verif/build", 0o755)
	tmp, err := os.MkdirTemp("/verif/build", "c13-")
	if err != nil {
		return err
	}
	c13TmpDir = tmp
	defer os.RemoveAll(tmp)

	// ---- every split of short streams, exhaustively (all splits must give the same observations)
	short := []struct {
		fn     string
		docs   []string
		stream string
	}{
		{"xml", []string{"<a/>", "<b>1</b>"}, "<a/> <b>1</b>"},
		{"xmlraw", []string{"<a>x</a>", "<b/>"}, "<a>x</a><b/>\n"},
		{"seqraw", []string{"<a>x</a>", "<b/>"}, " <a>x</a><b/>"},
		{"json", []string{`{"a":"}"}`, `{}`}, `{"a":"}"}{} `},
		{"jsonraw", []string{`{"a":1}`, `{"b":"{"}`}, `{"a":1}{"b":"{"}`},
		{"hxmlraw", []string{"<a>x</a>", "<b/>"}, "<a>x</a> <b/>"},
		{"hjson", []string{`{"a":1}`, `{"b":2}`}, `{"a":1} {"b":2}`},
	}
	for _, sc := range short {
		base := c13Case{Fn: sc.fn, Stream: []byte(sc.stream), Stop: -1, EhRet: true}
		off := 0
		for _, d := range sc.docs {
			i := strings.Index(sc.stream[off:], d) + off
			base.Docs = append(base.Docs, []byte(d))
			off = i + len(d)
			base.Ends = append(base.Ends, off)
		}
		for _, withEOF := range []bool{false, true} {
			first := ""
			n := 0
			allSplits(base.Stream, func(chunks [][]byte) {
				c := base
				c.Evs = nil
				for _, ch := range chunks {
					c.Evs = append(c.Evs, rEv{K: "d", D: ch})
				}
				if withEOF {
					c.Evs[len(c.Evs)-1].K = "e"
				}
				_, impl, calls, hr, fr, _ := c13Term(c, false)
				if n == 0 {
					first = impl
					c13One(run, c) // one Gallina case per family: every split flattens to the same one-byte events
				} else {
					run.sum.OracleEvals++
					run.count("exhaustive-split")
					if impl != first {
						run.violation(Violation{Key: shapeKey(c, "split-dependence"), What: "two splits of the same stream give different observations",
							Input: c, Got: impl, Want: first})
					}
					if n%16 == 0 {
						c13Oracle(run, c, calls, hr, fr)
					}
				}
				n++
			})
		}
	}

	// ---- malformed streams (each function family)
	for _, fn := range []string{"xml", "xmlraw", "seq", "hxml", "hxmlraw", "fxml"} {
		for _, m := range malXml {
			if isSeqFn(fn) && m == "</a>" {
				continue // NewMapXmlSeq("</a>") panics in the sequence parser itself (nil-map write): a decoder defect (C15), not a reader one
			}
			c := c13Case{Fn: fn, Stream: []byte(m), Stop: -1, EhRet: r.chance(0.7), Mal: true}
			c.Evs = r.genSchedule(c.Stream, 0)
			c13One(run, c)
		}
	}
	for _, fn := range []string{"json", "jsonraw", "hjson", "hjsonraw", "fjson", "fjsonraw"} {
		for _, m := range malJson {
			c := c13Case{Fn: fn, Stream: []byte(m), Stop: -1, EhRet: r.chance(0.7), Mal: true}
			c.Evs = r.genSchedule(c.Stream, 0)
			c13One(run, c)
		}
	}

	// ---- long documents through the standard-library readers (Go-side oracle)
	c13LongDocs(run, r)

	// ---- random streams and scripts
	for run.sum.Evaluations < cfg.n {
		c := c13Case{Fn: c13Fns[r.Intn(len(c13Fns))], Stop: -1, EhRet: true}
		ndocs := 1 + r.Intn(4)
		if isJSONFn(c.Fn) {
			r.genJsonStream(&c, ndocs, r.chance(0.15), r.chance(0.35), r.chance(0.4))
		} else {
			r.genXmlStream(&c, ndocs)
		}
		class := 0
		switch x := r.Intn(20); {
		case x < 11:
		case x < 14:
			class = 1
		case x < 17:
			class = 2
		case x < 19:
			class = 3
		default:
			class = 4
		}
		if strings.HasPrefix(c.Fn, "f") {
			class = 0
		}
		c.Evs = r.genSchedule(c.Stream, class)
		if strings.HasPrefix(c.Fn, "h") {
			if r.chance(0.4) {
				c.Stop = r.Intn(ndocs + 1)
			}
			c.EhRet = r.chance(0.7)
		}
		c13One(run, c)
	}
	return run.finish()
}

// ---------------------------------------------------------------- standard-library readers, long documents

var c13StdReaders = []string{"strings.Reader", "bytes.Reader", "bytes.Buffer", "bufio.Reader", "os.File", "iotest.OneByte"}

type oneByteReader struct{ r io.Reader }

func (o oneByteReader) Read(p []byte) (int, error) {
	if len(p) == 0 {
		return 0, nil
	}
	return o.r.Read(p[:1])
}

// c13StdRun reads the stream of c to its end through the named standard-library reader: what each call returned,
// and what the statement prescribes (each document decoded directly, then io.EOF).
func c13StdRun(c c13Case) (got, want []string) {
	var rd io.Reader
	switch c.Std {
	case "strings.Reader":
		rd = strings.NewReader(string(c.Stream))
	case "bytes.Reader":
		rd = bytes.NewReader(c.Stream)
	case "bytes.Buffer":
		rd = bytes.NewBuffer(append([]byte{}, c.Stream...))
	case "bufio.Reader":
		rd = bufio.NewReaderSize(plainReader{bytes.NewReader(c.Stream)}, 16)
	case "iotest.OneByte":
		rd = oneByteReader{bytes.NewReader(c.Stream)}
	case "os.File":
		tmp, err := os.MkdirTemp("/verif/build", "c13s-")
		if err != nil {
			return []string{"mkdir: " + err.Error()}, nil
		}
		defer os.RemoveAll(tmp)
		name := filepath.Join(tmp, "stream.dat")
		if err := os.WriteFile(name, c.Stream, 0o644); err != nil {
			return []string{"write: " + err.Error()}, nil
		}
		f, err := os.Open(name)
		if err != nil {
			return []string{"open: " + err.Error()}, nil
		}
		defer f.Close()
		rd = f
	}
	for k := 0; k <= len(c.Docs)+1; k++ {
		o, _ := readerFns[c.Fn](rd)
		got = append(got, resText(o))
		if o.Panicked || o.Err != nil {
			break
		}
	}
	for _, d := range c.Docs {
		want = append(want, resText(directDoc(c.Fn, d)))
	}
	want = append(want, "error:EEOF")
	return
}

func c13StdOne(run *Run, c c13Case) {
	run.sum.OracleEvals++
	run.count("stdlib-reader:" + c.Std)
	got, want := c13StdRun(c)
	if strings.Join(got, " ; ") != strings.Join(want, " ; ") {
		run.violation(Violation{Key: shapeKey(c, "stdlib-reader-differs:"+c.Std), What: "reading the stream through a " + c.Std +
			" does not give each document decoded directly, then io.EOF", Input: c, Got: clip(strings.Join(got, " ; "), 400), Want: clip(strings.Join(want, " ; "), 400)})
	}
}

func clip(s string, n int) string {
	if len(s) > n {
		return s[:n/2] + " ... " + s[len(s)-n/2:]
	}
	return s
}

// c13LongDocs: documents longer than any buffer a reader may use internally (sizes around the powers of two from 512 to
// 65536), with an escaped quote or a trailing escaped backslash placed on and next to the boundary, counted from the start
// of the stream and from the start of the call; read through the standard-library readers (seed C13-8: a block-wise fast
// path for readers that can Seek lost the backslash count at a block boundary).
func c13LongDocs(run *Run, r *Rng) {
	bounds := []int{512, 1024, 2048, 4096, 8192, 16384, 32768, 65536}
	for _, b := range bounds {
		for _, delta := range []int{-1, 0, 1} {
			for shape := 0; shape < 2; shape++ {
				lead := r.pick([]string{"", " ", "\n", " \t"})
				first := ""
				if r.chance(0.5) {
					first = `{"n":` + strconv.Itoa(r.Intn(1000)) + `}` + r.pick([]string{"", " ", "\n"})
				}
				head := `{"k":"`
				pad := b - 1 + delta - len(lead) - len(head)
				if r.chance(0.5) {
					pad -= len(first) // boundary counted from the start of the stream rather than of the call
				}
				if pad < 0 {
					continue
				}
				body := strings.Repeat("ab cd{[", pad/7) + strings.Repeat("x", pad%7)
				var big string
				if shape == 0 {
					big = head + body + `\"q}","z":[1,"}"]}`
				} else {
					big = head + body + `\\"}`
				}
				last := `{"t":"\\","u":"\""}`
				stream := first + lead + big + r.pick([]string{"", " ", "\r\n"}) + last + r.pick([]string{"", "\n"})
				var docs [][]byte
				if first != "" {
					docs = append(docs, []byte(strings.TrimSpace(first)))
				}
				docs = append(docs, []byte(big), []byte(last))
				fn := r.pick([]string{"json", "jsonraw"})
				for _, std := range c13StdReaders {
					c13StdOne(run, c13Case{Fn: fn, Stream: []byte(stream), Docs: docs, Stop: -1, EhRet: true, Std: std})
				}
				// the XML readers over the same sizes: a long text with markup characters as entities at the boundary
				xhead := "<doc><k>"
				xpad := b - 1 + delta - len(xhead)
				if xpad < 0 {
					continue
				}
				xbig := xhead + strings.Repeat("ab cd ", xpad/6) + strings.Repeat("x", xpad%6) + "&lt;q&amp;</k><z a=\"1\"/></doc>"
				xstream := xbig + r.pick([]string{"", " ", "\n"}) + "<t>1</t>"
				xfn := r.pick([]string{"xml", "xmlraw", "seq"})
				for _, std := range c13StdReaders {
					c13StdOne(run, c13Case{Fn: xfn, Stream: []byte(xstream), Docs: [][]byte{[]byte(xbig), []byte("<t>1</t>")}, Stop: -1, EhRet: true, Std: std})
				}
			}
		}
	}
}

func replayC13(raw []byte) error {
	var c c13Case
	if err := json.Unmarshal(raw, &c); err != nil {
		return err
	}
	restoreDefaults()
	if c.Std != "" {
		got, want := c13StdRun(c)
		fmt.Printf("function: %s through %s\nstream:   %d bytes, documents end at %v\nobserved: %s\nexpected: %s\n", c.Fn, c.Std, len(c.Stream), c.Ends,
			clip(strings.Join(got, " ; "), 600), clip(strings.Join(want, " ; "), 600))
		return nil
	}
	tmp, err := os.MkdirTemp("/verif/build", "c13-")
	if err != nil {
		return err
	}
	c13TmpDir = tmp
	defer os.RemoveAll(tmp)
	_, impl, _, _, _, _ := c13Term(c, false)
	fmt.Printf("function: %s\nstream:   %q\nscript:   %s\n", c.Fn, c.Stream, coqSched(c.Evs))
	for i, d := range c.Docs {
		fmt.Printf("document %d decoded directly: %s\n", i, resText(directDoc(c.Fn, d)))
	}
	fmt.Printf("observed: %s\n", impl)
	return nil
}
