package main

// C04: MapSeq round trip preserves order, attributes, comments and instructions.
// Exercises NewMapXmlSeq, MapSeq.Xml, MapSeq.XmlIndent, BeautifyXml, NewMapFormattedXmlSeq.

import (
	"encoding/json"
	"fmt"
	"math"
	"regexp"
	"strings"

	mxj "github.com/clbanning/mxj/v2"
)

// ---------------------------------------------------------------- abstract documents of the C04 quantifier

type snode struct {
	Kind  string      `json:"kind"` // elem comment directive pi
	Name  string      `json:"name,omitempty"`
	Attrs [][2]string `json:"attrs,omitempty"`
	Text  string      `json:"text,omitempty"` // text run before the children ("" = none)
	Kids  []*snode    `json:"kids,omitempty"`
	Data  string      `json:"data,omitempty"` // comment / directive text, PI target
	Inst  string      `json:"inst,omitempty"`
}

var seqElemNames = []string{"a", "b", "c", "item", "ns:a", "ns:b", "p:item", "A-b", "x_y", "data", "ns:item"}
var seqAttrNames = []string{"id", "x", "ns:k", "xmlns:ns", "xmlns", "xmlns:p", "A-t", "p:z", "Name", "seq"}

// values as in C02: specials, blanks, tabs, newlines, non-ASCII, number / boolean / NaN look-alikes
var seqValuesEsc = []string{"x", "hello world", " u ", "1", "2.5", "true", "T", "NaN", "-inf", "1e3",
	"<&>\"'", "a&amp;b", "&#x41;", "é€", "l1\nl2", "\ttab", "]]>", "<![CDATA[", "0x1F", "007", "-0", "false", "Infinity", "a<b", "q\"q", "it's", "&", "  ", ""}
var seqValuesPlain = []string{"x", "hello world", " u ", "1", "2.5", "true", "T", "NaN", "-inf", "1e3",
	"é€", "l1\nl2", "\ttab", "0x1F", "007", "-0", "false", "Infinity", "a b  c", "  ", ""}
var seqComments = []string{" note ", "c", "a - b", "x<y&z", "", " <old>1</old> <old>2</old> ", "a>\n\t<b"}
var seqDirectives = []string{"DOCTYPE doc", "ELEMENT a (b)", "D x", "DOCTYPE d [<!ENTITY a \"1\"> <!ENTITY b \"2\">]"}
var seqPIs = [][2]string{{"pi", "data"}, {"target", "a=\"1\" b='2'"}, {"php", "echo 1;"}, {"t", ""}, {"render", "sep=\">  <\""}}

type seqGen struct {
	maxDepth, maxFan int
	values           []string
	textBefore       bool // allow text followed by children
}

func (r *Rng) genSeqElem(g seqGen, depth int) *snode {
	n := &snode{Kind: "elem", Name: r.pick(seqElemNames)}
	if r.chance(0.5) {
		na := 1 + r.Intn(4)
		seen := map[string]bool{}
		for i := 0; i < na; i++ {
			an := r.pick(seqAttrNames)
			if seen[an] {
				continue
			}
			seen[an] = true
			n.Attrs = append(n.Attrs, [2]string{an, r.pick(g.values)})
		}
	}
	nk := 0
	if depth < g.maxDepth && r.chance(0.75) {
		nk = r.Intn(g.maxFan + 1)
	}
	names := []string{r.pick(seqElemNames), r.pick(seqElemNames), r.pick(seqElemNames)}
	for i := 0; i < nk; i++ {
		c := r.genSeqElem(g, depth+1)
		c.Name = names[r.Intn(len(names))]
		n.Kids = append(n.Kids, c)
	}
	// at most one comment, one directive, one PI, each at a random position among the children
	ins := func(k *snode) {
		at := r.Intn(len(n.Kids) + 1)
		n.Kids = append(n.Kids[:at:at], append([]*snode{k}, n.Kids[at:]...)...)
	}
	if r.chance(0.25) {
		ins(&snode{Kind: "comment", Data: r.pick(seqComments)})
	}
	if r.chance(0.12) {
		ins(&snode{Kind: "directive", Data: r.pick(seqDirectives)})
	}
	if r.chance(0.15) {
		p := seqPIs[r.Intn(len(seqPIs))]
		ins(&snode{Kind: "pi", Data: p[0], Inst: p[1]})
	}
	if len(n.Kids) == 0 {
		if r.chance(0.7) {
			n.Text = r.pick(g.values)
		}
	} else if g.textBefore && r.chance(0.35) {
		n.Text = r.pick(g.values)
	}
	return n
}

// textBesideKids: some element has a non-blank text run AND children (the shape of the recorded finding)
func (n *snode) textBesideKids() bool {
	if n.Kind != "elem" {
		return false
	}
	if strings.Trim(n.Text, " \t\r\n") != "" && len(n.Kids) > 0 {
		return true
	}
	for _, k := range n.Kids {
		if k.textBesideKids() {
			return true
		}
	}
	return false
}

func (n *snode) size() int {
	c := 1
	for _, k := range n.Kids {
		c += k.size()
	}
	return c
}

// renderSeq writes the tree with random lexical choices; ws = whitespace between markup items.
func (r *Rng) renderSeq(n *snode, sb *strings.Builder, ws bool) {
	switch n.Kind {
	case "comment":
		sb.WriteString("<!--" + n.Data + "-->")
		return
	case "directive":
		sb.WriteString("<!" + n.Data + ">")
		return
	case "pi":
		if n.Inst == "" && r.chance(0.5) {
			sb.WriteString("<?" + n.Data + "?>")
		} else {
			sb.WriteString("<?" + n.Data + " " + n.Inst + "?>")
		}
		return
	}
	sb.WriteString("<" + n.Name)
	for _, a := range n.Attrs {
		q := byte('"')
		if r.chance(0.3) {
			q = '\''
		}
		sb.WriteString(" " + a[0] + "=" + string(q) + xmlEscAttr(a[1], q) + string(q))
	}
	if len(n.Kids) == 0 && n.Text == "" && r.chance(0.5) {
		sb.WriteString("/>")
		return
	}
	sb.WriteString(">")
	if n.Text != "" {
		t := n.Text
		switch {
		case !strings.Contains(t, "]]>") && r.chance(0.2):
			sb.WriteString("<![CDATA[" + t + "]]>")
		case r.chance(0.2):
			sb.WriteString(strings.ReplaceAll(strings.ReplaceAll(xmlEscText(t), "\"", "&quot;"), "'", "&apos;"))
		default:
			sb.WriteString(xmlEscText(t))
		}
	}
	blankText := strings.Trim(n.Text, " \t\r\n") == ""
	for _, k := range n.Kids {
		if ws && blankText && r.chance(0.4) {
			sb.WriteString(r.pick([]string{"\n", "\n  ", " ", "\t"}))
		}
		r.renderSeq(k, sb, ws)
	}
	if ws && blankText && len(n.Kids) > 0 && r.chance(0.4) {
		sb.WriteString("\n")
	}
	sb.WriteString("</" + n.Name + ">")
}

// ---------------------------------------------------------------- normalised RawToken streams (the oracle's observable)

func c04FullName(space, local string) string {
	if space != "" {
		return space + ":" + local
	}
	return local
}

const c04XmlWS = " \t\r\n"

// c04NormToks: names as written, whitespace-only text dropped, text trimmed.
func c04NormToks(ts []gtok) []string {
	var out []string
	for _, t := range ts {
		switch t.Kind {
		case "start":
			var sb strings.Builder
			sb.WriteString("S:" + c04FullName(t.Space, t.Local))
			for _, a := range t.Attrs {
				sb.WriteString(fmt.Sprintf(" %s=%q", c04FullName(a[0], a[1]), a[2]))
			}
			out = append(out, sb.String())
		case "end":
			out = append(out, "E:"+c04FullName(t.Space, t.Local))
		case "char":
			x := strings.Trim(t.Data, c04XmlWS)
			if x != "" {
				out = append(out, fmt.Sprintf("C:%q", x))
			}
		case "comment":
			out = append(out, fmt.Sprintf("!--%q", t.Data))
		case "pi":
			out = append(out, fmt.Sprintf("?%s %q", t.Data, t.Inst))
		case "directive":
			out = append(out, fmt.Sprintf("!%q", t.Data))
		}
	}
	return out
}

func c04NormStream(doc []byte) (string, error) {
	ts, err := tokenize(doc, true)
	return strings.Join(c04NormToks(ts), " | "), err
}

// ---------------------------------------------------------------- implementation calls

func seqDecode(o xOpts, doc []byte, cast, formatted bool) Outcome {
	o.apply()
	defer restoreDefaults()
	return protect(func() Outcome {
		var m mxj.MapSeq
		var err error
		switch {
		case formatted:
			m, err = mxj.NewMapFormattedXmlSeq(doc, cast)
		case cast:
			m, err = mxj.NewMapXmlSeq(doc, true)
		default:
			m, err = mxj.NewMapXmlSeq(doc)
		}
		if err != nil {
			return Outcome{Err: err}
		}
		return Outcome{Ret: map[string]interface{}(m)}
	})
}

func seqEncode(o xOpts, m map[string]interface{}, indent bool, pre, ind string, root []string) Outcome {
	o.apply()
	defer restoreDefaults()
	return protect(func() Outcome {
		var b []byte
		var err error
		if indent {
			b, err = mxj.MapSeq(m).XmlIndent(pre, ind, root...)
		} else {
			b, err = mxj.MapSeq(m).Xml(root...)
		}
		if err != nil {
			return Outcome{Err: err}
		}
		return Outcome{Ret: b}
	})
}

func seqBeautify(o xOpts, doc []byte, pre, ind string) Outcome {
	o.apply()
	defer restoreDefaults()
	return protect(func() Outcome {
		b, err := mxj.BeautifyXml(doc, pre, ind)
		if err != nil {
			return Outcome{Err: err}
		}
		return Outcome{Ret: b}
	})
}

// ---------------------------------------------------------------- Gallina printing

// coqValShuf prints a value with the entries of every map in a random order: the model's
// association-list order stands for the arbitrary hash-iteration order.
func (r *Rng) coqValShuf(v interface{}) string {
	switch x := v.(type) {
	case map[string]interface{}:
		ks := make([]string, 0, len(x))
		for k := range x {
			ks = append(ks, k)
		}
		sortStrings(ks)
		r.Shuffle(len(ks), func(i, j int) { ks[i], ks[j] = ks[j], ks[i] })
		parts := make([]string, len(ks))
		for i, k := range ks {
			parts[i] = "(" + coqStr(k) + "," + r.coqValShuf(x[k]) + ")"
		}
		return "(VMap [" + strings.Join(parts, ";") + "])"
	case []interface{}:
		parts := make([]string, len(x))
		for i, e := range x {
			parts[i] = r.coqValShuf(e)
		}
		return "(VList [" + strings.Join(parts, ";") + "])"
	}
	return coqVal(v)
}

func c04CoqOptStr(root []string) string {
	if len(root) == 0 {
		return "None"
	}
	return "(Some " + coqStr(root[0]) + ")"
}

func c04XoutAny(o Outcome) string {
	if o.Panicked {
		return "XPanicked"
	}
	if o.Err != nil {
		return "(XFail " + errClass(o.Err) + ")"
	}
	if b, ok := o.Ret.([]byte); ok {
		return "(XBytes " + coqStr(string(b)) + ")"
	}
	return "(XRet " + coqVal(o.Ret) + ")"
}

// for indented output only the token stream is compared: the bytes are not printed
func c04XoutNoBytes(o Outcome) string {
	if o.Panicked {
		return "XPanicked"
	}
	if o.Err != nil {
		return "(XFail " + errClass(o.Err) + ")"
	}
	return "(XBytes [])"
}

const seqHeader = "From Mxj Require Import Run.RunSeq.\nLocal Open Scope string_scope.\n"

// ---------------------------------------------------------------- cases

type seqCase struct {
	Kind   string                 `json:"kind"` // roundtrip | malformed | encode
	Opts   xOpts                  `json:"opts"`
	Cast   bool                   `json:"cast,omitempty"`
	Doc    string                 `json:"doc,omitempty"`
	Map    map[string]interface{} `json:"-"`
	MapJ   interface{}            `json:"map,omitempty"` // Map with non-finite floats as strings (JSON has none)
	Root   []string               `json:"root,omitempty"`
	Prefix string                 `json:"prefix"`
	Indent string                 `json:"indent"`
	Tree   *snode                 `json:"tree,omitempty"`
}

// c04JsonSafe copies v, replacing NaN / +-Inf (JSON cannot carry them) by their %v text.
func c04JsonSafe(v interface{}) interface{} {
	switch x := v.(type) {
	case map[string]interface{}:
		m := make(map[string]interface{}, len(x))
		for k, e := range x {
			m[k] = c04JsonSafe(e)
		}
		return m
	case []interface{}:
		l := make([]interface{}, len(x))
		for i, e := range x {
			l[i] = c04JsonSafe(e)
		}
		return l
	case float64:
		if math.IsNaN(x) || math.IsInf(x, 0) {
			return fmt.Sprintf("%v", x)
		}
	}
	return v
}

// c04TokenComparable: every '&' of the output opens one of the five predefined entities (the only
// references the model's unescape knows; the encoder never writes others itself)
func c04TokenComparable(b []byte) bool {
	s := string(b)
	for i := 0; i < len(s); i++ {
		if s[i] != '&' {
			continue
		}
		ok := false
		for _, e := range []string{"&amp;", "&lt;", "&gt;", "&quot;", "&apos;"} {
			if strings.HasPrefix(s[i:], e) {
				ok = true
			}
		}
		if !ok {
			return false
		}
	}
	return true
}

func c04Dec(run *Run, c seqCase) Outcome {
	ts, terr := tokenize([]byte(c.Doc), true)
	o := seqDecode(c.Opts, []byte(c.Doc), c.Cast, false)
	term := fmt.Sprintf("SDec %s %s %s %s %s %s", c.Opts.coq(), coqBool(c.Cast), pfTable(castCands(ts)),
		coqToks(ts), coqTerm(terr), c04XoutAny(o))
	nontrivial := o.Err == nil && !o.Panicked && len(ts) >= 6
	run.count("case:SDec")
	if o.Err != nil {
		run.count("dec-error:" + errClass(o.Err))
	}
	if o.Panicked {
		run.count("dec-panic")
	}
	run.add(term, c, o.text(), nontrivial)
	return o
}

func c04Enc(run *Run, r *Rng, c seqCase) (Outcome, Outcome) {
	c.MapJ = c04JsonSafe(c.Map)
	// compact: bytes
	oc := seqEncode(c.Opts, c.Map, false, "", "", c.Root)
	run.count("case:SEnc")
	if oc.Panicked {
		run.count("enc-panic")
	}
	if oc.Err != nil {
		run.count("enc-error")
	}
	run.add(fmt.Sprintf("SEnc %s %s %s %s", c.Opts.coq(), r.coqValShuf(c.Map), c04CoqOptStr(c.Root), c04XoutAny(oc)),
		c, oc.text(), !oc.Panicked && oc.Err == nil)
	// indented: RawToken stream
	oi := c.Opts
	oi.Chk = false
	ci := c
	ci.Opts = oi
	on := seqEncode(oi, c.Map, true, c.Prefix, c.Indent, c.Root)
	var ts []gtok
	valid := true
	if b, ok := on.Ret.([]byte); ok {
		var terr error
		ts, terr = tokenize(b, true)
		valid = terr == nil
		if !c04TokenComparable(b) {
			run.count("indent-case-skipped:reference-other-than-the-five-entities")
			return oc, on
		}
		// a scalar stored under #comment / #directive / #procinst (only a mutated MapSeq has one: the decoders store maps
		// there) is written as a raw fragment without its start tag; as character data it merges with the indentation
		// around it, so the token stream is not comparable up to whitespace-only text.  The compact bytes above ARE compared.
		if c04ScalarUnderSpecial(c.Map) {
			run.count("indent-case-skipped:raw-fragment-under-special-key")
			return oc, on
		}
	}
	run.count("case:SEncI")
	run.add(fmt.Sprintf("SEncI %s %s %s %s %s %s", oi.coq(), r.coqValShuf(c.Map), c04CoqOptStr(c.Root), coqBool(valid), coqToks(ts), c04XoutNoBytes(on)),
		ci, on.text(), !on.Panicked && on.Err == nil)
	return oc, on
}

// c04ScalarUnderSpecial: is a non-map, non-list value stored under one of the three special keys anywhere?
func c04ScalarUnderSpecial(v interface{}) bool {
	switch x := v.(type) {
	case map[string]interface{}:
		for k, e := range x {
			if k == "#comment" || k == "#directive" || k == "#procinst" {
				switch e.(type) {
				case map[string]interface{}, []interface{}:
				default:
					return true
				}
			}
			if c04ScalarUnderSpecial(e) {
				return true
			}
		}
	case []interface{}:
		for _, e := range x {
			if c04ScalarUnderSpecial(e) {
				return true
			}
		}
	}
	return false
}

func c04Beau(run *Run, c seqCase) Outcome {
	o := c.Opts
	o.Chk = false
	c.Opts = o
	ob := seqBeautify(o, []byte(c.Doc), c.Prefix, c.Indent)
	var ts []gtok
	valid := true
	if b, ok := ob.Ret.([]byte); ok {
		var terr error
		ts, terr = tokenize(b, true)
		valid = terr == nil
		if !c04TokenComparable(b) {
			run.count("beautify-case-skipped:reference-other-than-the-five-entities")
			return ob
		}
	}
	its, terr := tokenize([]byte(c.Doc), true)
	run.count("case:SBeau")
	run.add(fmt.Sprintf("SBeau %s %s %s %s %s %s %s", o.coq(), pfTable(nil), coqToks(its), coqTerm(terr), coqBool(valid), coqToks(ts), c04XoutNoBytes(ob)),
		c, ob.text(), !ob.Panicked && ob.Err == nil)
	return ob
}

// ---------------------------------------------------------------- oracle: the property on the implementation

func c04Oracle(run *Run, c seqCase, dec, comp, ind, beau Outcome) {
	run.sum.OracleEvals++
	want, werr := c04NormStream([]byte(c.Doc))
	if werr != nil {
		run.count("oracle-skip:document-not-tokenizable")
		return
	}
	panicKey := "encode-panic"
	if dec.Panicked || dec.Err != nil {
		run.violation(Violation{Key: "decode-failed", What: "NewMapXmlSeq fails on a well-formed document of the domain", Input: c, Got: dec.text(), Want: "MapSeq"})
		return
	}
	check := func(name, key string, o Outcome) []byte {
		if o.Panicked {
			run.violation(Violation{Key: panicKey, What: name + " panicked on the MapSeq decoded from the document", Input: c, Got: o.text(), Want: want})
			return nil
		}
		if o.Err != nil {
			run.violation(Violation{Key: "encode-error", What: name + " returned an error", Input: c, Got: o.text(), Want: want})
			return nil
		}
		b := o.Ret.([]byte)
		got, gerr := c04NormStream(b)
		if gerr != nil || got != want {
			k := key
			if gerr != nil {
				k = "output-not-well-formed"
			}
			run.violation(Violation{Key: k, What: "RawToken stream of " + name + " output differs from the document's (whitespace-only text dropped, text trimmed)",
				Input: c, Got: got + fmt.Sprintf(" [bytes %q]", b), Want: want})
			return nil
		}
		return b
	}
	bc := check("MapSeq.Xml", "stream-differs-compact", comp)
	bi := check("MapSeq.XmlIndent", "stream-differs-indent", ind)
	check("BeautifyXml", "stream-differs-beautify", beau)
	if bc != nil && bi != nil {
		// NewMapFormattedXmlSeq on the indented output = on the compact one = the MapSeq itself
		mc := seqDecode(c.Opts, bc, false, true)
		mi := seqDecode(c.Opts, bi, false, true)
		if mc.text() != mi.text() {
			run.violation(Violation{Key: "formatted-redecode-differs", What: "NewMapFormattedXmlSeq(indented output) differs from NewMapFormattedXmlSeq(compact output)",
				Input: c, Got: mi.text(), Want: mc.text()})
		}
		// ... and NewMapFormattedXmlSeq(b, cast) = NewMapXmlSeq(b, cast) on bytes the formatting pattern leaves alone, with the
		// cast flag given explicitly and not at all (the observed side of C04_new_map_formatted_xml_seq_code)
		if !c04Formatting.Match(bc) {
			for _, cast := range []bool{false, true} {
				f, p := seqDecode(c.Opts, bc, cast, true), seqDecode(c.Opts, bc, cast, false)
				if f.text() != p.text() {
					run.violation(Violation{Key: "formatted-differs-from-plain", What: fmt.Sprintf("NewMapFormattedXmlSeq(b, %v) differs from NewMapXmlSeq(b, %v) on bytes without inter-element whitespace", cast, cast),
						Input: c, Got: f.text(), Want: p.text()})
				}
			}
		}
	}
}

var c04Formatting = regexp.MustCompile(`>[\n\t\r ]+<`)

// ---------------------------------------------------------------- MapSeq mutations (encoder correspondence outside the decoder's image)

func c04CollectMaps(v interface{}, out *[]map[string]interface{}) {
	switch x := v.(type) {
	case map[string]interface{}:
		*out = append(*out, x)
		ks := make([]string, 0, len(x))
		for k := range x {
			ks = append(ks, k)
		}
		sortStrings(ks)
		for _, k := range ks {
			c04CollectMaps(x[k], out)
		}
	case []interface{}:
		for _, e := range x {
			c04CollectMaps(e, out)
		}
	}
}

// mutateSeq applies one mutation that keeps the sequence numbers of siblings pairwise distinct
// (with ties the output order depends on the hash-iteration order, which is no observable).
func (r *Rng) mutateSeq(m map[string]interface{}) string {
	var maps []map[string]interface{}
	c04CollectMaps(m, &maps)
	if len(maps) == 0 {
		return "none"
	}
	x := maps[r.Intn(len(maps))]
	ks := sortedKeys(x)
	if len(ks) == 0 {
		return "none"
	}
	k := ks[r.Intn(len(ks))]
	switch r.Intn(9) {
	case 0: // int sequence number -> float64 (same or +0.5: still between its neighbours)
		if s, ok := x["#seq"].(int); ok {
			x["#seq"] = float64(s) + []float64{0, 0.5, 0.25}[r.Intn(3)]
			return "seq-float"
		}
	case 1: // a missing sequence number sorts last (9999999)
		if _, ok := x["#seq"]; ok {
			delete(x, "#seq")
			return "seq-deleted"
		}
	case 2: // #text of another type
		if _, ok := x["#text"]; ok {
			x["#text"] = []interface{}{nil, 3, 2.5, true, "", "<&>", int64(7)}[r.Intn(7)]
			return "text-retyped"
		}
	case 3: // an entry replaced by a scalar / nil: no sequence number, sorts last
		if k == "#seq" {
			return "none" // an int here could tie with a sibling's sequence number
		}

		x[k] = []interface{}{"str", nil, 1, false, ""}[r.Intn(5)]
		return "entry-scalar"
	case 4:
		x["extra"] = []interface{}{"v", nil, map[string]interface{}{"#seq": 77, "#text": "e"}, []interface{}{}}[r.Intn(4)]
		return "entry-added"
	case 5:
		if k == "#text" {
			return "none" // %v of a slice: outside the model
		}
		x[k] = []interface{}{x[k]}
		return "entry-wrapped-in-list"
	case 6:
		if _, ok := x["#seq"]; ok {
			x["#seq"] = []interface{}{"0", nil, int64(1)}[r.Intn(3)]
			return "seq-retyped"
		}
	case 7:
		if a, ok := x["#attr"].(map[string]interface{}); ok {
			if r.chance(0.5) {
				x["#attr"] = "notamap"
			} else {
				for _, ak := range sortedKeys(a) {
					a[ak] = "notamap"
					break
				}
			}
			return "attr-broken"
		}
	case 8:
		delete(x, k)
		return "entry-deleted"
	}
	return "none"
}

// c04LessKey is the sequence number elemListSeq.Less sorts a value by.
func c04LessKey(v interface{}) int {
	m, _ := v.(map[string]interface{})
	switch s := m["#seq"].(type) {
	case int:
		return s
	case float64:
		return int(s)
	}
	return 9999999
}

// c04HasSeqTie: some element (or attribute map) holds two entries with the same sort key; the order the
// encoder writes them in then depends on the hash-iteration order, which is no observable.
func c04HasSeqTie(v interface{}) bool {
	switch x := v.(type) {
	case map[string]interface{}:
		seen := map[int]bool{}
		dup := false
		add := func(e interface{}) {
			k := c04LessKey(e)
			if seen[k] {
				dup = true
			}
			seen[k] = true
		}
		for k, e := range x {
			if k == "#attr" || k == "#seq" || k == "#text" {
				continue
			}
			if l, ok := e.([]interface{}); ok {
				for _, le := range l {
					add(le)
				}
			} else {
				add(e)
			}
		}
		if dup {
			return true
		}
		if a, ok := x["#attr"].(map[string]interface{}); ok {
			seenA := map[int]bool{}
			for _, e := range a {
				k := c04LessKey(e)
				if seenA[k] {
					return true
				}
				seenA[k] = true
			}
		}
		for k, e := range x {
			if k == "#comment" || k == "#directive" || k == "#procinst" || k == "#attr" {
				continue // their entries are not sorted
			}
			if c04HasSeqTie(e) {
				return true
			}
		}
	case []interface{}:
		for _, e := range x {
			if c04HasSeqTie(e) {
				return true
			}
		}
	}
	return false
}

// ---------------------------------------------------------------- malformed stream

func (r *Rng) malformSeq(doc string) (string, string) {
	switch r.Intn(9) {
	case 0:
		if len(doc) > 1 {
			return doc[:r.Intn(len(doc))], "truncated"
		}
	case 1:
		return "</" + r.pick(seqElemNames) + ">" + doc, "stray-end-first"
	case 2:
		i := strings.Index(doc, ">")
		if i >= 0 {
			return doc[:i+1] + "</" + r.pick(seqElemNames) + ">" + doc[i+1:], "stray-end-inside"
		}
	case 3:
		return r.pick([]string{"<!-- c -->", "<?xml version=\"1.0\"?>", "<!DOCTYPE doc>", "\n", "text "}) + doc, "prolog"
	case 4:
		return r.pick([]string{"", " ", "text", "<", "<a", "<a b>", "<a b=c>", "&amp;", "<a>&bogus;</a>", "<a><![CDATA[x</a>", "<a><!--x</a>"}), "fragment"
	case 5:
		return doc + doc, "two-roots"
	case 6:
		return doc + "</x>", "stray-end-after"
	case 7:
		i := strings.LastIndex(doc, "</")
		if i >= 0 {
			return doc[:i] + "</zz>", "mismatched-end"
		}
	case 8:
		return "<stream:stream to='x'>" + doc, "xmpp"
	}
	return doc, "unchanged"
}

// ---------------------------------------------------------------- the run

func init() {
	props["C04"] = runC04
	replays["C04"] = replayC04
}

func runC04(cfg runCfg) error {
	r := newRng(cfg.seed)
	run := newRun("C04", cfg.out, cfg.seed, cfg.shards, seqHeader, "scase",
		"random documents of the C04 quantifier (depth<=3, fan-out<=4, names from a pool of 11 with prefixes, interleaved repeated siblings, "+
			"0-4 attributes incl. xmlns / xmlns:p / prefixed in random order, <=1 comment, directive, PI per element at random positions, text alone or "+
			"before children, C02 value pool, random quotes/CDATA/entities/inter-element whitespace) -> NewMapXmlSeq (SDec), MapSeq.Xml bytes (SEnc), "+
			"MapSeq.XmlIndent and BeautifyXml RawToken streams (SEncI, SBeau); plus mutated MapSeqs and a malformed document stream; "+
			"non-trivial = call succeeded on a document with >= 6 tokens / an encodable MapSeq; distinct by input hash")
	blanks := []string{"", " ", "  ", "\t", "    "}
	for run.sum.Evaluations < cfg.n {
		o := defaultXOpts()
		o.Esc = r.chance(0.7)
		g := seqGen{maxDepth: 3, maxFan: 4, values: seqValuesPlain, textBefore: r.chance(0.3)}
		if o.Esc {
			g.values = seqValuesEsc
		}
		tree := r.genSeqElem(g, 0)
		var sb strings.Builder
		r.renderSeq(tree, &sb, r.chance(0.4))
		doc := sb.String()
		c := seqCase{Kind: "roundtrip", Opts: o, Doc: doc, Tree: tree, Prefix: r.pick(blanks), Indent: r.pick(blanks)}
		if run.sum.Evaluations%7 == 0 {
			c04Entry(run, r) // the four entry points of the sequence decoder under a decoder configuration (c01entry.go)
		}
		run.count(fmt.Sprintf("doc-size:%d", c04MinInt(tree.size()/5*5, 40)))
		if tree.textBesideKids() {
			run.count("doc:text-before-children")
		}
		switch x := r.Intn(10); {
		case x < 6: // the property itself: default options (+ XMLEscapeChars), cast off
			dec := c04Dec(run, c)
			var comp, ind Outcome
			if m, ok := dec.Ret.(map[string]interface{}); ok && dec.Err == nil {
				ce := c
				ce.Map = m
				comp, ind = c04Enc(run, r, ce)
			}
			beau := c04Beau(run, c)
			c04Oracle(run, c, dec, comp, ind, beau)
		case x < 7: // decoder under other options
			c.Kind = "decode-options"
			c.Tree = nil
			c.Opts.Snake = r.chance(0.5)
			c.Opts.EscDec = r.chance(0.4)
			c.Opts.XMPP = r.chance(0.3)
			if r.chance(0.3) {
				c.Opts.KP = r.pick([]string{"$", "%", "~"})
			}
			if r.chance(0.5) {
				c.Cast = true
				c.Opts.CInt = r.chance(0.3)
				c.Opts.CFloat = r.chance(0.8)
				c.Opts.CBool = r.chance(0.8)
				c.Opts.CNanInf = r.chance(0.2)
			}
			if c.Opts.XMPP && r.chance(0.5) {
				c.Doc = "<stream:stream a='1'>" + c.Doc
			}
			dec := c04Dec(run, c)
			// cast values are not re-encoded here: the shared printer renders float64 -0 as "0"
			if m, ok := dec.Ret.(map[string]interface{}); ok && dec.Err == nil && !c.Cast {
				ce := c
				ce.Map = m
				c04Enc(run, r, ce)
			}
		case x < 8: // malformed documents
			c.Kind = "malformed"
			c.Tree = nil
			var how string
			c.Doc, how = r.malformSeq(doc)
			run.count("malformed:" + how)
			c.Opts.XMPP = how == "xmpp" || r.chance(0.1)
			c04Dec(run, c)
			c04Beau(run, c)
		default: // mutated MapSeqs through the encoders
			c.Kind = "encode"
			c.Tree = nil
			dec := seqDecode(c.Opts, []byte(doc), false, false)
			m, ok := dec.Ret.(map[string]interface{})
			if !ok || dec.Err != nil {
				continue
			}
			m = deepCopy(m).(map[string]interface{})
			how := r.mutateSeq(m)
			if c04HasSeqTie(m) {
				run.count("mutation-skipped:equal-sort-keys")
				continue
			}
			run.count("mutation:" + how)
			c.Doc = ""
			c.Map = m
			c.Opts.GoEmpty = r.chance(0.25)
			if r.chance(0.2) {
				c.Root = []string{r.pick([]string{"root", "doc", "#comment"})}
			}
			c04Enc(run, r, c)
		}
	}
	return run.finish()
}

func c04MinInt(a, b int) int {
	if a < b {
		return a
	}
	return b
}

func replayC04(raw []byte) error {
	var c seqCase
	dj := json.NewDecoder(strings.NewReader(string(raw)))
	if err := dj.Decode(&c); err != nil {
		return err
	}
	fmt.Printf("options: %s\n", mustJSON(c.Opts))
	m, _ := c.MapJ.(map[string]interface{})
	if c.Doc != "" || m == nil {
		fmt.Printf("document: %q\n", c.Doc)
		want, werr := c04NormStream([]byte(c.Doc))
		fmt.Printf("RawToken stream (normalised): %s (err=%v)\n", want, werr)
		dec := seqDecode(c.Opts, []byte(c.Doc), c.Cast, false)
		fmt.Printf("NewMapXmlSeq: %s\n", dec.text())
		if mm, ok := dec.Ret.(map[string]interface{}); ok && dec.Err == nil {
			m = mm
		}
		b := seqBeautify(c.Opts, []byte(c.Doc), c.Prefix, c.Indent)
		fmt.Printf("BeautifyXml: %s\n", c04OutBytesText(b))
	}
	if m != nil {
		fmt.Printf("MapSeq: %s\n", canon(m))
		fmt.Printf("MapSeq.Xml: %s\n", c04OutBytesText(seqEncode(c.Opts, m, false, "", "", c.Root)))
		fmt.Printf("MapSeq.XmlIndent: %s\n", c04OutBytesText(seqEncode(c.Opts, m, true, c.Prefix, c.Indent, c.Root)))
	}
	return nil
}

func c04OutBytesText(o Outcome) string {
	if b, ok := o.Ret.([]byte); ok && !o.Panicked && o.Err == nil {
		s, err := c04NormStream(b)
		return fmt.Sprintf("%q stream: %s (err=%v)", b, s, err)
	}
	return o.text()
}
