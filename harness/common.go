// Package main: mxjh, the implementation-side half of the correspondence check.
// It generates cases from one PRNG, runs clbanning/mxj (built from /repo's
// working tree) on them, prints the cases with the observed outcomes as Gallina
// terms (evaluated against the model by coqc), and evaluates the property
// directly on the implementation's results (the search for a failing input).
package main

import (
	"encoding/hex"
	"encoding/json"
	"fmt"
	"hash/fnv"
	"math"
	"math/rand"
	"os"
	"path/filepath"
	"reflect"
	"sort"
	"strconv"
	"strings"
)

// ---------------------------------------------------------------- PRNG

type Rng struct{ *rand.Rand }

func newRng(seed int64) *Rng { return &Rng{rand.New(rand.NewSource(seed))} }
func (r *Rng) pick(xs []string) string {
	return xs[r.Intn(len(xs))]
}
func (r *Rng) chance(p float64) bool { return r.Float64() < p }

// ---------------------------------------------------------------- Gallina printing

func plainASCII(s string) bool {
	for i := 0; i < len(s); i++ {
		c := s[i]
		if c < 0x20 || c > 0x7e || c == '"' {
			return false
		}
	}
	return true
}

// coqStr renders a Go string as a Gallina term of type str.
func coqStr(s string) string {
	if s == "" {
		return "[]"
	}
	if plainASCII(s) {
		return `(s"` + s + `")`
	}
	return `(hx"` + hex.EncodeToString([]byte(s)) + `")`
}

func coqStrs(xs []string) string {
	parts := make([]string, len(xs))
	for i, x := range xs {
		parts[i] = coqStr(x)
	}
	return "[" + strings.Join(parts, ";") + "]"
}

func fltText(f float64) string {
	if f == 0 {
		return "0"
	}
	return fmt.Sprintf("%v", f)
}

func flt32Text(f float32) string {
	if f == 0 {
		return "0"
	}
	return fmt.Sprintf("%v", f)
}

// coqVal renders a Go value as a Gallina term of type value; map keys sorted.
func coqVal(v interface{}) string {
	switch x := v.(type) {
	case nil:
		return "VNil"
	case string:
		return "(VStr " + coqStr(x) + ")"
	case bool:
		if x {
			return "(VBool true)"
		}
		return "(VBool false)"
	case int:
		return fmt.Sprintf("(VInt (%d))", x)
	case int64:
		return fmt.Sprintf("(VI64 (%d))", x)
	case int32: // a sized integer: the model keeps one constructor for them
		return fmt.Sprintf("(VI64 (%d))", x)
	case uint64:
		return fmt.Sprintf("(VU64 (%d))", x)
	case float64:
		return "(VFlt " + coqStr(fltText(x)) + ")"
	case float32: // a float is carried as the text Go's fmt prints for it
		return "(VFlt " + coqStr(flt32Text(x)) + ")"
	case json.Number:
		return "(VJNum " + coqStr(string(x)) + ")"
	case map[string]interface{}:
		return coqMap(x)
	case []interface{}:
		parts := make([]string, len(x))
		for i, e := range x {
			parts[i] = coqVal(e)
		}
		return "(VList [" + strings.Join(parts, ";") + "])"
	}
	// mxj.Map, mxj.MapSeq and other named map types
	rv := reflect.ValueOf(v)
	if rv.Kind() == reflect.Map && rv.Type().Key().Kind() == reflect.String {
		m := map[string]interface{}{}
		for _, k := range rv.MapKeys() {
			m[k.String()] = rv.MapIndex(k).Interface()
		}
		return coqMap(m)
	}
	return "(VStr " + coqStr(fmt.Sprintf("<<%T>>", v)) + ")"
}

func coqMap(x map[string]interface{}) string {
	ks := make([]string, 0, len(x))
	for k := range x {
		ks = append(ks, k)
	}
	sort.Strings(ks)
	parts := make([]string, len(ks))
	for i, k := range ks {
		parts[i] = "(" + coqStr(k) + "," + coqVal(x[k]) + ")"
	}
	return "(VMap [" + strings.Join(parts, ";") + "])"
}

func coqBool(b bool) string {
	if b {
		return "true"
	}
	return "false"
}

// pfTable renders the ParseFloat oracle table for the given candidate strings.
func pfTable(cands []string) string {
	seen := map[string]bool{}
	parts := []string{}
	for _, c := range cands {
		if seen[c] {
			continue
		}
		seen[c] = true
		f, err := strconv.ParseFloat(c, 64)
		if err != nil {
			continue // absent from the table = None
		}
		parts = append(parts, "("+coqStr(c)+",Some "+coqStr(fltText(f))+")")
	}
	return "[" + strings.Join(parts, ";") + "]"
}

// ---------------------------------------------------------------- deep copy / canonical text

// maxDepth bounds every traversal: a defect that makes a Map cyclic must not crash the harness.
const maxDepth = 200

func deepCopy(v interface{}) interface{} { return deepCopyD(v, 0) }

func deepCopyD(v interface{}, d int) interface{} {
	if d > maxDepth {
		return "<<too deep or cyclic>>"
	}
	switch x := v.(type) {
	case map[string]interface{}:
		if x == nil {
			return x // a nil map stays nil (it differs from an empty one for reflect.DeepEqual and encoding/json)
		}
		m := make(map[string]interface{}, len(x))
		for k, e := range x {
			m[k] = deepCopyD(e, d+1)
		}
		return m
	case []interface{}:
		if x == nil {
			return x
		}
		l := make([]interface{}, len(x))
		for i, e := range x {
			l[i] = deepCopyD(e, d+1)
		}
		return l
	}
	return v
}

// canon renders a value as canonical text with Go dynamic type tags (sorted keys).
func canon(v interface{}) string {
	switch x := v.(type) {
	case nil:
		return "nil"
	case string:
		return "s" + strconv.Quote(x)
	case bool:
		return fmt.Sprintf("b%v", x)
	case int:
		return fmt.Sprintf("i%d", x)
	case int64:
		return fmt.Sprintf("i64:%d", x)
	case int32:
		return fmt.Sprintf("i32:%d", x)
	case float32:
		return "f32:" + flt32Text(x)
	case uint64:
		return fmt.Sprintf("u64:%d", x)
	case float64:
		if math.IsNaN(x) {
			return "fNaN"
		}
		return "f" + fltText(x)
	case json.Number:
		return "n" + string(x)
	case map[string]interface{}:
		ks := make([]string, 0, len(x))
		for k := range x {
			ks = append(ks, k)
		}
		sort.Strings(ks)
		var sb strings.Builder
		sb.WriteString("{")
		for i, k := range ks {
			if i > 0 {
				sb.WriteString(",")
			}
			sb.WriteString(strconv.Quote(k) + ":" + canon(x[k]))
		}
		sb.WriteString("}")
		return sb.String()
	case []interface{}:
		var sb strings.Builder
		sb.WriteString("[")
		for i, e := range x {
			if i > 0 {
				sb.WriteString(",")
			}
			sb.WriteString(canon(e))
		}
		sb.WriteString("]")
		return sb.String()
	}
	rv := reflect.ValueOf(v)
	if rv.Kind() == reflect.Map && rv.Type().Key().Kind() == reflect.String {
		m := map[string]interface{}{}
		for _, k := range rv.MapKeys() {
			m[k.String()] = rv.MapIndex(k).Interface()
		}
		return canon(m)
	}
	return fmt.Sprintf("<%T>%v", v, v)
}

// canonNil is canon that also tells a nil slice / map from an empty one (JSON writes null for one and [] / {} for the
// other); used where the implementation must leave containers exactly as they were.
func canonNil(v interface{}) string {
	switch x := v.(type) {
	case map[string]interface{}:
		if x == nil {
			return "nil{}"
		}
		ks := make([]string, 0, len(x))
		for k := range x {
			ks = append(ks, k)
		}
		sort.Strings(ks)
		parts := make([]string, len(ks))
		for i, k := range ks {
			parts[i] = strconv.Quote(k) + ":" + canonNil(x[k])
		}
		return "{" + strings.Join(parts, ",") + "}"
	case []interface{}:
		if x == nil {
			return "nil[]"
		}
		parts := make([]string, len(x))
		for i, e := range x {
			parts[i] = canonNil(e)
		}
		return "[" + strings.Join(parts, ",") + "]"
	}
	return canon(v)
}

func canonMultiset(vs []interface{}) string {
	xs := make([]string, len(vs))
	for i, v := range vs {
		xs[i] = canon(v)
	}
	sort.Strings(xs)
	return strings.Join(xs, " | ")
}

func hash64(s string) uint64 {
	h := fnv.New64a()
	h.Write([]byte(s))
	return h.Sum64()
}

// ---------------------------------------------------------------- outcome of one implementation call

type Outcome struct {
	Panicked bool
	PanicMsg string
	Err      error
	Ret      interface{} // encoded result
}

func errClass(e error) string {
	if e == nil {
		return "nil"
	}
	switch e.Error() {
	case "EOF":
		return "EEOF"
	case "no root key":
		return "ENoRoot"
	}
	return "EOther"
}

func (o Outcome) coq() string {
	if o.Panicked {
		return "Panicked"
	}
	if o.Err != nil {
		return "(Fail " + errClass(o.Err) + " " + coqVal(o.Ret) + ")"
	}
	return "(Ret " + coqVal(o.Ret) + ")"
}

func (o Outcome) text() string {
	if o.Panicked {
		return "panic: " + o.PanicMsg
	}
	if o.Err != nil {
		return "error(" + o.Err.Error() + ") " + canon(o.Ret)
	}
	return canon(o.Ret)
}

// protect runs f, converting a panic into an Outcome.
func protect(f func() Outcome) (o Outcome) {
	defer func() {
		if r := recover(); r != nil {
			o = Outcome{Panicked: true, PanicMsg: fmt.Sprint(r)}
		}
	}()
	return f()
}

// ---------------------------------------------------------------- run bookkeeping

// CaseRec is what the driver needs to name a case in a replay file.
type CaseRec struct {
	Shard int         `json:"shard"`
	Index int         `json:"index"`
	Input interface{} `json:"input"`
	Impl  string      `json:"impl"`
}

type Violation struct {
	Key   string      `json:"key"`   // structural shape key (matched against KNOWN_FINDINGS.txt)
	What  string      `json:"what"`  // which clause fails
	Input interface{} `json:"input"` // replayable input
	Got   string      `json:"got"`
	Want  string      `json:"want"`
}

type Summary struct {
	Property    string                 `json:"property"`
	Seed        int64                  `json:"seed"`
	Evaluations int                    `json:"evaluations"`
	Distinct    int                    `json:"distinct_nontrivial"`
	Rule        string                 `json:"rule"`
	Samples     []interface{}          `json:"samples"`
	Dist        map[string]int         `json:"distribution"`
	Violations  []Violation            `json:"oracle_violations"`
	OracleEvals int                    `json:"oracle_evaluations"`
	Shards      int                    `json:"shards"`
	Cases       []CaseRec              `json:"cases"`
	Extra       map[string]interface{} `json:"extra,omitempty"`
}

// Run collects cases for one property and writes shards + summary.
type Run struct {
	prop      string
	outDir    string
	header    string // Gallina header (imports)
	caseType  string
	shards    [][]string
	nshards   int
	sum       Summary
	seen      map[uint64]bool
	next      int
	vioPerKey map[string]int
	// optional: per-shard header / case type (a run whose shards belong to different Run modules)
	headers []string
	types   []string
	nextIn  map[int]int
}

func newRun(prop, outDir string, seed int64, nshards int, header, caseType, rule string) *Run {
	r := &Run{prop: prop, outDir: outDir, header: header, caseType: caseType, nshards: nshards,
		shards: make([][]string, nshards), seen: map[uint64]bool{}}
	r.sum = Summary{Property: prop, Seed: seed, Rule: rule, Dist: map[string]int{}, Shards: nshards}
	return r
}

// add registers one case: term is the Gallina case term, input the replayable
// input, nontrivial whether it counts for distinct_nontrivial.
func (r *Run) add(term string, input interface{}, impl string, nontrivial bool) {
	if r.nshards > 0 {
		sh := r.next % r.nshards
		r.next++
		r.sum.Cases = append(r.sum.Cases, CaseRec{Shard: sh, Index: len(r.shards[sh]), Input: input, Impl: impl})
		r.shards[sh] = append(r.shards[sh], term)
	}
	r.sum.Evaluations++
	if nontrivial {
		b, _ := json.Marshal(input)
		h := hash64(string(b))
		if !r.seen[h] {
			r.seen[h] = true
			r.sum.Distinct++
		}
	}
	if len(r.sum.Samples) < 5 && nontrivial {
		r.sum.Samples = append(r.sum.Samples, map[string]interface{}{"input": input, "impl": impl})
	}
}

// addIn registers a case in shard group g (groups of `per` consecutive shards); see add.
func (r *Run) addIn(g, per int, term string, input interface{}, impl string, nontrivial bool) {
	if r.nextIn == nil {
		r.nextIn = map[int]int{}
	}
	sh := g*per + r.nextIn[g]%per
	r.nextIn[g]++
	r.sum.Cases = append(r.sum.Cases, CaseRec{Shard: sh, Index: len(r.shards[sh]), Input: input, Impl: impl})
	r.shards[sh] = append(r.shards[sh], term)
	r.sum.Evaluations++
	if nontrivial {
		b, _ := json.Marshal(input)
		h := hash64(string(b))
		if !r.seen[h] {
			r.seen[h] = true
			r.sum.Distinct++
		}
	}
	if len(r.sum.Samples) < 5 && nontrivial {
		r.sum.Samples = append(r.sum.Samples, map[string]interface{}{"input": input, "impl": impl})
	}
}

func (r *Run) count(k string) { r.sum.Dist[k]++ }

// violation records an oracle failure; at most 8 per shape key are kept, so that a
// frequent known finding can never crowd out a different violation.
func (r *Run) violation(v Violation) {
	if r.vioPerKey == nil {
		r.vioPerKey = map[string]int{}
	}
	r.vioPerKey[v.Key]++
	r.sum.Dist["oracle-violation:"+v.Key]++
	if r.vioPerKey[v.Key] <= 8 {
		r.sum.Violations = append(r.sum.Violations, v)
	}
}

func (r *Run) finish() error {
	if err := os.MkdirAll(r.outDir, 0o755); err != nil {
		return err
	}
	for i, cs := range r.shards {
		var sb strings.Builder
		hdr, typ := r.header, r.caseType
		if r.headers != nil {
			hdr, typ = r.headers[i], r.types[i]
		}
		sb.WriteString(hdr)
		sb.WriteString("Definition cases : list " + typ + " := [\n")
		sb.WriteString(strings.Join(cs, ";\n"))
		sb.WriteString("\n].\nDefinition M := Eval vm_compute in mismatches cases.\nPrint M.\n")
		name := filepath.Join(r.outDir, fmt.Sprintf("Cases_%s_%d.v", r.prop, i))
		if err := os.WriteFile(name, []byte(sb.String()), 0o644); err != nil {
			return err
		}
	}
	b, err := json.MarshalIndent(r.sum, "", " ")
	if err != nil {
		return err
	}
	return os.WriteFile(filepath.Join(r.outDir, "summary.json"), b, 0o644)
}
