package main

import (
	"strconv"
	"strings"
)

// ---------------------------------------------------------------- the documented conventions, transcribed (C01/C14 oracle)

func specEscape(s string) string {
	s = strings.ReplaceAll(s, "&", "&amp;")
	s = strings.ReplaceAll(s, "<", "&lt;")
	s = strings.ReplaceAll(s, ">", "&gt;")
	s = strings.ReplaceAll(s, `"`, "&quot;")
	s = strings.ReplaceAll(s, "'", "&apos;")
	return s
}

func isNaNInfSpelling(s string) bool {
	l := strings.ToLower(s)
	l = strings.TrimPrefix(strings.TrimPrefix(l, "+"), "-")
	return l == "nan" && !strings.HasPrefix(s, "+") && !strings.HasPrefix(s, "-") || l == "inf" || l == "infinity"
}

// specCast: the number or boolean the text denotes under the enabled cast options, else the identical string.
func specCast(o xOpts, s string, cast bool, tag string) interface{} {
	for _, t := range o.Skip {
		if t == tag && tag != "" {
			return s
		}
	}
	if !cast {
		return s
	}
	if !o.CNanInf && isNaNInfSpelling(s) {
		return s
	}
	if o.CInt {
		if i, err := strconv.ParseInt(s, 10, 64); err == nil {
			return i
		}
		if u, err := strconv.ParseUint(s, 10, 64); err == nil {
			return u
		}
	}
	if o.CFloat {
		if f, err := strconv.ParseFloat(s, 64); err == nil {
			return f
		}
	}
	if o.CBool {
		switch s {
		case "t", "T", "TRUE", "true", "True":
			return true
		case "f", "F", "FALSE", "false", "False":
			return false
		}
	}
	return s
}

func specLocal(name string) string {
	if i := strings.Index(name, ":"); i >= 0 {
		return name[i+1:]
	}
	return name
}

func specElemKey(o xOpts, name string) string {
	k := specLocal(name)
	if o.Lower {
		k = strings.ToLower(k)
	}
	if o.Snake {
		k = strings.ReplaceAll(k, "-", "_")
	}
	return k
}

func specAttrKey(o xOpts, name string) string {
	k := specLocal(name)
	if o.Snake {
		k = strings.ReplaceAll(k, "-", "_")
	}
	if o.Lower {
		// documented: keys are lower-cased; the prefix is the user's own string
		return o.AP + strings.ToLower(k)
	}
	return o.AP + k
}

type specSkip struct{ why string }

// specConv returns the value the conventions prescribe for element n (and ok=false when the
// document is outside the stated domain: colliding keys).
func specConv(o xOpts, cast bool, n *xnode, root bool) (interface{}, *specSkip) {
	trimSet := "\t\r\b\n "
	if o.KeepSp {
		trimSet = "\t\r\b\n"
	}
	type ent struct {
		k string
		v interface{}
	}
	var ents []ent
	find := func(k string) int {
		for i, e := range ents {
			if e.k == k {
				return i
			}
		}
		return -1
	}
	for _, a := range n.Attrs {
		// a namespace declaration is an attribute like any other: xmlns:ns has the local name ns
		k := specAttrKey(o, a[0])
		v := a[1]
		if o.EscDec {
			v = specEscape(v)
		}
		if find(k) >= 0 {
			return nil, &specSkip{"two attributes collide after key transformation"}
		}
		ents = append(ents, ent{k, specCast(o, v, cast, k)})
	}
	nattr := len(ents)
	seq := 0
	var text *string
	for _, c := range n.Kids {
		if c.isText() {
			t := strings.Trim(c.Text, trimSet)
			if o.EscDec {
				t = specEscape(t)
			}
			if t != "" {
				if text != nil {
					return nil, &specSkip{"two text runs"}
				}
				text = &t
			}
			continue
		}
		if c.Kind != "" {
			continue
		}
		k := specElemKey(o, c.Name)
		v, sk := specConv(o, cast, c, false)
		if sk != nil {
			return nil, sk
		}
		if o.TSeq {
			if mm, ok := v.(map[string]interface{}); ok {
				if _, clash := mm["_seq"]; clash {
					return nil, &specSkip{"_seq element"}
				}
				mm["_seq"] = seq
			} else {
				v = map[string]interface{}{o.textK(): v, "_seq": seq}
			}
			seq++
		}
		if i := find(k); i >= 0 {
			if i < nattr {
				return nil, &specSkip{"element key collides with an attribute key"}
			}
			if g, ok := ents[i].v.(groupedList); ok {
				ents[i].v = append(g[:len(g):len(g)], v)
			} else {
				ents[i].v = groupedList{ents[i].v, v}
			}
		} else {
			ents = append(ents, ent{k, v})
		}
	}
	if len(ents) == 0 {
		if text == nil {
			return "", nil
		}
		if o.SimpleMap {
			return map[string]interface{}{o.textK(): specCast(o, *text, cast, o.textK())}, nil
		}
		return specCast(o, *text, cast, specElemKey(o, n.Name)), nil
	}
	m := map[string]interface{}{}
	for _, e := range ents {
		if e.k == o.textK() || (o.TSeq && e.k == "_seq") {
			return nil, &specSkip{"key equal to a generated key"}
		}
		m[e.k] = ungroup(e.v)
	}
	if text != nil {
		m[o.textK()] = specCast(o, *text, cast, o.textK())
	}
	return m, nil
}

// grouped lists are tagged so that a child value that is itself a list is never confused with a group
type groupedList []interface{}

func ungroup(v interface{}) interface{} {
	if g, ok := v.(groupedList); ok {
		return []interface{}(g)
	}
	return v
}

func init() {
	props["C01"] = runC01
}

// runC01: NewMapXml against the conventions, all decoder options.
func runC01(cfg runCfg) error {
	r := newRng(cfg.seed)
	run := newRun("C01", cfg.out, cfg.seed, cfg.shards, xmlHeader, "xcase",
		"random abstract documents (depth<=3, fan-out<=3, names from a pool of 10 with case/hyphen/namespace variants, repeated and "+
			"interleaved siblings, 0-3 attributes, text pool with specials/blanks/number and boolean look-alikes) rendered with random "+
			"quotes/CDATA/entities/whitespace/comments/PIs x random decoder option vectors x cast flag; non-trivial = root has >= 2 entries; distinct by (options, document) hash")
	for i := 0; i < cfg.n; i++ {
		o := r.genDecOpts()
		dc := docCfg{maxDepth: 3, maxFan: 3, mixedText: r.chance(0.5), noise: !o.KeepSp && r.chance(0.6), texts: textPool}
		root := r.genElem(dc, 0)
		doc := r.renderDoc(root, dc)
		cast := r.chance(0.4)
		if cast {
			o.CInt = r.chance(0.3)
			o.CFloat = r.chance(0.8)
			o.CBool = r.chance(0.8)
			o.CNanInf = r.chance(0.2)
		}
		c01One(run, xmlDecCase{Kind: "decode", Opts: o, Cast: cast, Doc: doc}, root)
		if i%5 == 0 {
			c01Entry(run, r) // the four entry points under a decoder configuration (c01entry.go)
		}
	}
	return run.finish()
}

func c01One(run *Run, c xmlDecCase, root *xnode) {
	o, term := c.run()
	m, _ := o.Ret.(map[string]interface{})
	nontrivial := false
	for _, v := range m {
		if mm, ok := v.(map[string]interface{}); ok && len(mm) >= 2 {
			nontrivial = true
		}
	}
	run.count("cast:" + strconv.FormatBool(c.Cast))
	if c.Opts.Lower {
		run.count("lower")
	}
	if c.Opts.Snake {
		run.count("snake")
	}
	if c.Opts.KeepSp {
		run.count("keepspaces")
	}
	if c.Opts.SimpleMap {
		run.count("simplemap")
	}
	if c.Opts.TSeq {
		run.count("tagseq")
	}
	if c.Opts.EscDec {
		run.count("escdec")
	}
	if o.Err != nil {
		run.count("error")
	}
	run.add(term, c, o.text(), nontrivial)
	if root == nil {
		return
	}
	// ---- oracle
	run.sum.OracleEvals++
	if o.Panicked {
		run.violation(Violation{Key: "panic", What: "NewMapXml panicked", Input: c, Got: o.text(), Want: "Map"})
		return
	}
	withNs := *root
	withNs.Attrs = append([][2]string{{"xmlns:ns", "urn:ns"}}, root.Attrs...)
	wantV, sk := specConv(c.Opts, c.Cast, &withNs, true)
	if sk != nil {
		run.count("oracle-skip:" + sk.why)
		return
	}
	want := map[string]interface{}{specElemKey(c.Opts, root.Name): wantV}
	if o.Err != nil || canon(m) != canon(want) {
		key := "conventions-differ"
		if c.Cast && !c.Opts.CNanInf && strings.Contains(canon(m), "Inf") && !strings.Contains(canon(want), "f+Inf") && !strings.Contains(canon(want), "f-Inf") {
			key = "naninf-spelling-cast"
		}
		if c.Opts.Lower && c.Opts.AP != strings.ToLower(c.Opts.AP) {
			key = "uppercase-prefix-lowercased"
		}
		run.violation(Violation{Key: key, What: "decoded Map differs from the Map the conventions prescribe", Input: c, Got: o.text(), Want: canon(want)})
	}
}
