package main

// Held results: the byte slices the encoders return belong to the caller.  A later call of any encoder
// (on the same or another Map) must not change them - an encoder that hands out memory it re-uses
// (a pooled or package-level buffer) passes every "encode, then look at once" test and still corrupts
// data for a caller that keeps several results.  Used by C06 (JSON), C16 (all encoders) and C19 (gob).

import (
	"bytes"
	"fmt"

	mxj "github.com/clbanning/mxj/v2"
)

type heldCase struct {
	Kind string                   `json:"kind"` // "held-results"
	Enc  []string                 `json:"encoders"`
	Maps []map[string]interface{} `json:"maps"`
}

var heldEncoders = map[string]func(m map[string]interface{}) ([]byte, error){
	"Xml":        func(m map[string]interface{}) ([]byte, error) { return mxj.Map(m).Xml() },
	"XmlIndent":  func(m map[string]interface{}) ([]byte, error) { return mxj.Map(m).XmlIndent("", " ") },
	"Json":       func(m map[string]interface{}) ([]byte, error) { return mxj.Map(m).Json() },
	"JsonSafe":   func(m map[string]interface{}) ([]byte, error) { return mxj.Map(m).Json(true) },
	"JsonIndent": func(m map[string]interface{}) ([]byte, error) { return mxj.Map(m).JsonIndent("", " ") },
	"Gob":        func(m map[string]interface{}) ([]byte, error) { return mxj.Map(m).Gob() },
	"SeqXml":     func(m map[string]interface{}) ([]byte, error) { return mxj.MapSeq(m).Xml() },
	"SeqIndent":  func(m map[string]interface{}) ([]byte, error) { return mxj.MapSeq(m).XmlIndent("", " ") },
	"AnyXml":     func(m map[string]interface{}) ([]byte, error) { return mxj.AnyXml(m) },
}

// heldResults encodes every Map with every named encoder, keeps ALL results, and only then compares each
// kept slice with the private copy made right after its call.  Returns the number of comparisons.
func heldResults(c heldCase, report func(key, what, got, want string)) int {
	type kept struct {
		enc  string
		i    int
		b    []byte
		copy []byte
	}
	var all []kept
	for round := 0; round < 2; round++ {
		for i, m := range c.Maps {
			for _, e := range c.Enc {
				f := heldEncoders[e]
				o := protect(func() Outcome {
					b, err := f(m)
					return Outcome{Ret: b, Err: err}
				})
				if o.Panicked || o.Err != nil {
					continue
				}
				b, _ := o.Ret.([]byte)
				all = append(all, kept{e, i, b, append([]byte{}, b...)})
			}
		}
	}
	for _, k := range all {
		if !bytes.Equal(k.b, k.copy) {
			report("held-result-overwritten:"+k.enc, fmt.Sprintf("the bytes returned by %s for Map %d changed after later encoder calls", k.enc, k.i), string(k.b), string(k.copy))
			break
		}
	}
	return len(all)
}

func runHeld(run *Run, c heldCase) {
	n := heldResults(c, func(key, what, got, want string) {
		run.violation(Violation{Key: key, What: what, Input: c, Got: got, Want: want})
	})
	run.sum.OracleEvals += n
	run.count("held-results-cases")
}
