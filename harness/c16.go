package main

// C16 - Encoders are deterministic and all their variants agree.
//
// Every case is generated from its own sub-seed (so a replay file only needs the
// sub-seed): a Map (JSON-shaped, or decoded from a generated document), a MapSeq
// (decoded from a generated document) or a Maps value.  Each Map / MapSeq is REBUILT
// several times - other insertion orders, other make() capacities, junk keys
// inserted and deleted to force growth, delete + reinsert - at every depth, and
// every encoder entry point is called repeatedly on every variant.
//
// Correspondence (Run/RunC16.v): the encoder model on the rebuilt variants, entries
// printed in shuffled order; the indented root rule; Map.Json / JsonIndent on top of
// the encoder's bytes; the Writer forms; the Maps string / file forms.
// Oracle (byte level, on the implementation only): one violation key per clause.

import (
	"bytes"
	"encoding/json"
	"encoding/xml"
	"fmt"
	"io"
	"math"
	"os"
	"path/filepath"
	"sort"
	"strings"

	mxj "github.com/clbanning/mxj/v2"
)

func init() {
	props["C16"] = runC16
	replays["C16"] = replayC16
}

const c16Header = "From Mxj Require Import Run.RunC16.\nLocal Open Scope string_scope.\n"

type c16Input struct {
	Kind     string `json:"kind"` // map-json | map-decoded | seq | maps
	CaseSeed int64  `json:"case_seed"`
	Shape    string `json:"shape"`            // the Map(s) / document, readable
	Opts     *xOpts `json:"opts,omitempty"`   // encoder options in effect
	Root     string `json:"root,omitempty"`   // explicit root tag ("" = none)
	Detail   string `json:"detail,omitempty"` // function, variant, call, arguments
}

// ---------------------------------------------------------------- outcomes of one encoder call

type c16Out struct {
	B        []byte
	Err      error
	Panicked bool
	Msg      string
}

// same: both failed the same way, or both returned the same bytes (the bytes that come back
// together with an error are not an encoding and are not compared; nor is the error text, which
// names whichever offending entry the scan met first)
func (a c16Out) same(b c16Out) bool {
	if a.Panicked || b.Panicked {
		return a.Panicked == b.Panicked
	}
	if a.Err != nil || b.Err != nil {
		return (a.Err != nil) == (b.Err != nil)
	}
	return bytes.Equal(a.B, b.B)
}

func (a c16Out) ok() bool { return !a.Panicked && a.Err == nil }

func (a c16Out) text() string {
	if a.Panicked {
		return "panic: " + a.Msg
	}
	if a.Err != nil {
		return "error: " + a.Err.Error()
	}
	return fmt.Sprintf("%q", c16Clip(string(a.B), 600))
}

func (a c16Out) xout() string {
	if a.Panicked {
		return "XPanicked"
	}
	if a.Err != nil {
		return "(XFail " + errClass(a.Err) + ")"
	}
	return "(XBytes " + c16CoqStr(string(a.B)) + ")"
}

// c16CoqStr: like coqStr, but a long string is printed as an append of pieces: one literal of several
// ten thousand characters makes coqc overflow its stack.
func c16CoqStr(s string) string {
	const piece = 3000
	if len(s) <= piece {
		return coqStr(s)
	}
	return "(app " + coqStr(s[:piece]) + " " + c16CoqStr(s[piece:]) + ")"
}

func c16Clip(s string, n int) string {
	if len(s) > n {
		return s[:n] + fmt.Sprintf("...(%d bytes)", len(s))
	}
	return s
}

func c16Call(f func() ([]byte, error)) (o c16Out) {
	defer func() {
		if r := recover(); r != nil {
			o = c16Out{Panicked: true, Msg: fmt.Sprint(r)}
		}
	}()
	b, err := f()
	// copy: the result must not alias a buffer a later call could touch
	return c16Out{B: append([]byte(nil), b...), Err: err}
}

// c16WithOpts runs f under the option vector and restores the defaults.
func c16WithOpts(o xOpts, f func()) {
	o.apply()
	defer restoreDefaults()
	f()
}

// ---------------------------------------------------------------- rebuilding a Map

func (r *Rng) c16Shuffled(ks []string) []string {
	out := append([]string(nil), ks...)
	r.Shuffle(len(out), func(i, j int) { out[i], out[j] = out[j], out[i] })
	return out
}

// c16Rebuild returns a deep copy of v in which every map was made afresh with another capacity and
// another insertion history.  The content is the same (reflect.DeepEqual).
func (r *Rng) c16Rebuild(v interface{}) interface{} {
	switch x := v.(type) {
	case map[string]interface{}:
		return r.c16RebuildMap(x)
	case []interface{}:
		l := make([]interface{}, len(x), len(x)+r.Intn(3))
		for i, e := range x {
			l[i] = r.c16Rebuild(e)
		}
		return l
	}
	return v
}

func (r *Rng) c16RebuildMap(x map[string]interface{}) map[string]interface{} {
	n := len(x)
	caps := []int{0, 1, n, 2 * n, 9, 64, 1000}
	m := make(map[string]interface{}, caps[r.Intn(len(caps))])
	ks := r.c16Shuffled(sortedKeys(x))
	switch r.Intn(5) {
	case 0: // c16Shuffled insertion
		for _, k := range ks {
			m[k] = r.c16Rebuild(x[k])
		}
	case 1: // junk first (forces growth and evacuation), then the entries, then the junk is deleted
		nj := 1 + r.Intn(3*n+9)
		for i := 0; i < nj; i++ {
			m[fmt.Sprintf("\x00junk%d", i)] = i
		}
		for _, k := range ks {
			m[k] = r.c16Rebuild(x[k])
		}
		for i := 0; i < nj; i++ {
			delete(m, fmt.Sprintf("\x00junk%d", i))
		}
	case 2: // insert, delete a part, reinsert it in another order
		for _, k := range ks {
			m[k] = r.c16Rebuild(x[k])
		}
		part := r.c16Shuffled(ks)[:r.Intn(n+1)]
		saved := map[string]interface{}{}
		for _, k := range part {
			saved[k] = m[k]
			delete(m, k)
		}
		for _, k := range r.c16Shuffled(part) {
			m[k] = saved[k]
		}
	case 3: // descending key order
		sort.Sort(sort.Reverse(sort.StringSlice(ks)))
		for _, k := range ks {
			m[k] = r.c16Rebuild(x[k])
		}
	default: // ascending, overwritten once
		sort.Strings(ks)
		for _, k := range ks {
			m[k] = nil
		}
		for _, k := range r.c16Shuffled(ks) {
			m[k] = r.c16Rebuild(x[k])
		}
	}
	return m
}

// c16CoqValShuffled prints a value with the entries of every map in an order drawn from r: the model is
// evaluated on that entry order (for the model, list order IS the iteration order).
func (r *Rng) c16CoqValShuffled(v interface{}) string {
	switch x := v.(type) {
	case map[string]interface{}:
		ks := r.c16Shuffled(sortedKeys(x))
		parts := make([]string, len(ks))
		for i, k := range ks {
			parts[i] = "(" + coqStr(k) + "," + r.c16CoqValShuffled(x[k]) + ")"
		}
		return "(VMap [" + strings.Join(parts, ";") + "])"
	case []interface{}:
		parts := make([]string, len(x))
		for i, e := range x {
			parts[i] = r.c16CoqValShuffled(e)
		}
		return "(VList [" + strings.Join(parts, ";") + "])"
	}
	if f, ok := v.(float64); ok && f == 0 && math.Signbit(f) {
		return "(VFlt " + coqStr("-0") + ")" // fmt prints the sign; common.go's fltText drops it
	}
	return coqVal(v)
}

// ---------------------------------------------------------------- generators

var c16Strs = []string{"x", "y", "1", "2.5", "true", "", " u ", "a.b", "v:w", "<&>", "a<b", "R&D", "q\"q", "hello world", "é€", "l1\nl2"}

// c16Widen adds entries so that maps have enough keys (>= 8) for the runtime's iteration order to vary
// between runs and between variants: elements w0.., attributes <prefix>q0.., at random depths.
func (r *Rng) c16Widen(v interface{}, o xOpts, depth int) {
	switch x := v.(type) {
	case map[string]interface{}:
		for _, k := range sortedKeys(x) {
			r.c16Widen(x[k], o, depth+1)
		}
		if r.chance(0.45) {
			n := 6 + r.Intn(8)
			if r.chance(0.1) {
				n = 30 + r.Intn(40)
			}
			for i := 0; i < n; i++ {
				k := fmt.Sprintf("w%d", r.Intn(3*n))
				switch r.Intn(8) {
				case 0:
					x[k] = []interface{}{r.c16Scalar(), r.c16Scalar()}
				case 1:
					x[k] = map[string]interface{}{"z": r.c16Scalar(), "y": r.c16Scalar(), o.AP + "p": "1"}
				default:
					x[k] = r.c16Scalar()
				}
			}
		}
		if o.AP != "" && r.chance(0.35) {
			n := 3 + r.Intn(8)
			for i := 0; i < n; i++ {
				x[fmt.Sprintf("%sq%d", o.AP, r.Intn(3*n))] = r.c16AttrScalar()
			}
		}
	case []interface{}:
		for _, e := range x {
			r.c16Widen(e, o, depth+1)
		}
	}
}

func (r *Rng) c16Scalar() interface{} {
	switch r.Intn(12) {
	case 0:
		return nil
	case 1:
		return r.Intn(2) == 0
	case 2, 3:
		return float64(r.Intn(50))
	case 4:
		return 2.5
	default:
		return r.pick(c16Strs)
	}
}

func (r *Rng) c16AttrScalar() interface{} {
	switch r.Intn(6) {
	case 0:
		return r.Intn(2) == 0
	case 1:
		return float64(r.Intn(50))
	default:
		return r.pick(c16Strs)
	}
}

// c16Retag renames the pool's attribute and text keys to the prefixes in effect and replaces the
// pool's strings by the C16 value pool (specials, blanks, newline).
func (r *Rng) c16Retag(v interface{}, o xOpts) interface{} {
	switch x := v.(type) {
	case map[string]interface{}:
		m := make(map[string]interface{}, len(x))
		for _, k := range sortedKeys(x) {
			nk := k
			e := r.c16Retag(x[k], o)
			switch {
			case k == "#text":
				nk = o.textK()
				// the text entry is a scalar in the domain
				switch e.(type) {
				case map[string]interface{}, []interface{}:
					e = r.c16Scalar()
				}
			case strings.HasPrefix(k, "-") && len(k) > 1:
				nk = o.AP + k[1:]
				// attribute entries are non-nil scalars in the domain; a rare container value exercises the error path
				switch e.(type) {
				case map[string]interface{}, []interface{}:
					if !r.chance(0.1) {
						e = r.c16AttrScalar()
					}
				case nil:
					e = "n"
				}
			}
			m[nk] = e
		}
		return m
	case []interface{}:
		l := make([]interface{}, len(x))
		for i, e := range x {
			l[i] = r.c16Retag(e, o)
		}
		return l
	case string:
		if r.chance(0.5) {
			return r.pick(c16Strs)
		}
	}
	return v
}

func (r *Rng) c16EncOpts() xOpts {
	o := defaultXOpts()
	o.AP = r.pick([]string{"-", "-", "-", "@", "attr_", "_"})
	o.KP = r.pick([]string{"#", "#", "#", "$", "~"})
	o.GoEmpty = r.chance(0.3)
	o.Esc = r.chance(0.8)
	o.Chk = r.chance(0.15)
	return o
}

// c16JsonMap: a JSON-shaped Map in the C03 domain (nested/empty/mixed lists, nulls, attribute and text entries).
func (r *Rng) c16JsonMap(o xOpts) map[string]interface{} {
	cfg := genCfg{maxDepth: 1 + r.Intn(4), maxFan: 2 + r.Intn(4), nestedLists: r.chance(0.3), emptyLists: true}
	m := r.c16Retag(r.genMap(cfg, 0), o).(map[string]interface{})
	r.c16Widen(m, o, 0)
	return m
}

// c16Doc: an abstract document (C01/C02 domain) with optional wide elements.
func (r *Rng) c16Doc(seq bool) *xnode {
	dc := docCfg{maxDepth: 1 + r.Intn(3), maxFan: 1 + r.Intn(4), mixedText: (!seq && r.chance(0.4)) || (seq && r.chance(0.08)), texts: textPool}
	root := r.genElem(dc, 0)
	r.c16WidenDoc(root, 0)
	return root
}

func (r *Rng) c16WidenDoc(n *xnode, depth int) {
	if n.isText() || n.Kind != "" {
		return
	}
	for _, k := range n.Kids {
		r.c16WidenDoc(k, depth+1)
	}
	onlyText := len(n.Kids) == 1 && n.Kids[0].isText()
	if !onlyText && r.chance(0.4) {
		cnt := 6 + r.Intn(8)
		for i := 0; i < cnt; i++ {
			c := &xnode{Name: fmt.Sprintf("w%d", r.Intn(2*cnt))}
			if r.chance(0.7) {
				c.Kids = []*xnode{{Text: r.pick(textPool)}}
			}
			if r.chance(0.2) {
				c.Attrs = [][2]string{{"z", "1"}, {"y", "2"}, {"m", "3"}}
			}
			n.Kids = append(n.Kids, c)
		}
		r.Shuffle(len(n.Kids), func(i, j int) { n.Kids[i], n.Kids[j] = n.Kids[j], n.Kids[i] })
		// text stays in front of the child elements (C04 domain: text alone or before the children)
		sort.SliceStable(n.Kids, func(i, j int) bool { return n.Kids[i].isText() && !n.Kids[j].isText() })
	}
	if r.chance(0.3) {
		seen := map[string]bool{}
		for _, a := range n.Attrs {
			seen[a[0]] = true
		}
		cnt := 3 + r.Intn(8)
		for i := 0; i < cnt; i++ {
			an := fmt.Sprintf("q%d", r.Intn(3*cnt))
			if !seen[an] {
				seen[an] = true
				n.Attrs = append(n.Attrs, [2]string{an, r.pick(textPool)})
			}
		}
	}
}

// c16RenderSeqDoc: plain rendering with at most one comment / PI / directive per element (C04 domain).
func (r *Rng) c16RenderSeqDoc(n *xnode, sb *strings.Builder, root bool) {
	if n.isText() {
		sb.WriteString(xmlEscText(n.Text))
		return
	}
	sb.WriteString("<" + n.Name)
	if root {
		sb.WriteString(` xmlns:ns="urn:ns"`)
	}
	for _, a := range n.Attrs {
		sb.WriteString(" " + a[0] + `="` + xmlEscAttr(a[1], '"') + `"`)
	}
	if len(n.Kids) == 0 && r.chance(0.5) {
		sb.WriteString("/>")
		return
	}
	sb.WriteString(">")
	var elems []*xnode
	var text *xnode
	for _, k := range n.Kids {
		if k.isText() {
			if text == nil {
				text = k
			}
		} else {
			elems = append(elems, k)
		}
	}
	if text != nil {
		r.c16RenderSeqDoc(text, sb, false)
	}
	commentAt, piAt, dirAt := -1, -1, -1
	if len(elems) > 0 {
		if r.chance(0.3) {
			commentAt = r.Intn(len(elems) + 1)
		}
		if r.chance(0.2) {
			piAt = r.Intn(len(elems) + 1)
		}
		if r.chance(0.05) {
			dirAt = r.Intn(len(elems) + 1)
		}
	}
	for i := 0; i <= len(elems); i++ {
		if i == commentAt {
			sb.WriteString("<!-- note " + fmt.Sprint(r.Intn(9)) + " -->")
		}
		if i == piAt {
			sb.WriteString("<?pi data?>")
		}
		if i == dirAt {
			sb.WriteString("<!ENTITY e>")
		}
		if i < len(elems) {
			r.c16RenderSeqDoc(elems[i], sb, false)
		}
	}
	sb.WriteString("</" + n.Name + ">")
}

// ---------------------------------------------------------------- token level

func c16Blank(s string) bool { return strings.Trim(s, " \t\n\r") == "" }

func c16RawName(space, local string) string {
	if space != "" {
		return space + ":" + local
	}
	return local
}

func c16TokText(t gtok) string {
	switch t.Kind {
	case "start":
		s := "<" + c16RawName(t.Space, t.Local)
		for _, a := range t.Attrs {
			s += " " + c16RawName(a[0], a[1]) + "=" + fmt.Sprintf("%q", a[2])
		}
		return s + ">"
	case "end":
		return "</" + c16RawName(t.Space, t.Local) + ">"
	case "char":
		return fmt.Sprintf("text%q", t.Data)
	case "comment":
		return "<!--" + t.Data + "-->"
	case "pi":
		return "<?" + t.Data + " " + t.Inst + "?>"
	}
	return "<!" + t.Data + ">"
}

// c16IndentOnlyWhitespace aligns the token stream of an indented encoding with the one of the compact
// encoding: whitespace-only character data at element boundaries may be added, nothing else may change.
// A text that is followed by a child element receives the boundary whitespace at its end (glued).
func c16IndentOnlyWhitespace(ind, cmp []gtok) (ok bool, where string, glued int) {
	i, j := 0, 0
	for i < len(ind) || j < len(cmp) {
		if i < len(ind) && ind[i].Kind == "char" && c16Blank(ind[i].Data) && !(j < len(cmp) && cmp[j].Kind == "char") {
			i++
			continue
		}
		if i >= len(ind) || j >= len(cmp) {
			return false, fmt.Sprintf("streams end at different places (indent %d/%d, compact %d/%d)", i, len(ind), j, len(cmp)), glued
		}
		a, b := ind[i], cmp[j]
		if a.Kind == "char" && b.Kind == "char" {
			switch {
			case a.Data == b.Data:
			case strings.HasPrefix(a.Data, b.Data) && c16Blank(a.Data[len(b.Data):]) && i+1 < len(ind) && ind[i+1].Kind != "char" && ind[i+1].Kind != "end":
				glued++
			default:
				return false, "token " + fmt.Sprint(j) + ": " + c16TokText(a) + " vs " + c16TokText(b), glued
			}
		} else if c16TokText(a) != c16TokText(b) {
			return false, "token " + fmt.Sprint(j) + ": " + c16TokText(a) + " vs " + c16TokText(b), glued
		}
		i++
		j++
	}
	return true, "", glued
}

// c16RawTags: the bytes of every start / end tag of the document, in order, as the tokenizer delimits them
// (nil when the document does not tokenize).
func c16RawTags(doc []byte) []string {
	d := xml.NewDecoder(bytes.NewReader(doc))
	out := []string{}
	for {
		off0 := d.InputOffset()
		t, err := d.RawToken()
		if err == io.EOF {
			return out
		}
		if err != nil {
			return nil
		}
		off1 := d.InputOffset()
		switch t.(type) {
		case xml.StartElement, xml.EndElement:
			out = append(out, string(doc[off0:off1]))
		}
	}
}

// c16AscendingOrder checks the output token stream: attribute names strictly ascending in every start
// tag, sibling element names ascending under every parent.
func c16AscendingOrder(ts []gtok) (attrBad, childBad string) {
	type frame struct {
		last string
		has  bool
	}
	stack := []*frame{{}}
	for _, t := range ts {
		switch t.Kind {
		case "start":
			name := c16RawName(t.Space, t.Local)
			for k := 1; k < len(t.Attrs); k++ {
				p, q := c16RawName(t.Attrs[k-1][0], t.Attrs[k-1][1]), c16RawName(t.Attrs[k][0], t.Attrs[k][1])
				if !(p < q) && attrBad == "" {
					attrBad = fmt.Sprintf("in <%s>: attribute %q written before %q", name, p, q)
				}
			}
			top := stack[len(stack)-1]
			if top.has && !(top.last <= name) && childBad == "" {
				childBad = fmt.Sprintf("element <%s> written after <%s>", name, top.last)
			}
			top.last, top.has = name, true
			stack = append(stack, &frame{})
		case "end":
			if len(stack) > 1 {
				stack = stack[:len(stack)-1]
			}
		}
	}
	return
}

// c16Skeleton: the stream without character data (names, attribute names in order, comments, PIs, directives).
func c16Skeleton(ts []gtok) []string {
	var out []string
	for _, t := range ts {
		switch t.Kind {
		case "char":
		case "start":
			s := "<" + c16RawName(t.Space, t.Local)
			for _, a := range t.Attrs {
				s += " " + c16RawName(a[0], a[1])
			}
			out = append(out, s+">")
		default:
			out = append(out, c16TokText(t))
		}
	}
	return out
}

// ---------------------------------------------------------------- io.Writer sinks

// c16ChunkWriter: a well-behaved io.Writer (never short, never an error) that records every call.
type c16ChunkWriter struct {
	chunks [][]byte
}

func (w *c16ChunkWriter) Write(p []byte) (int, error) {
	w.chunks = append(w.chunks, append([]byte(nil), p...))
	return len(p), nil
}
func (w *c16ChunkWriter) bytes() []byte { return bytes.Join(w.chunks, nil) }

var c16TmpDir = filepath.Join("/verif", "build", fmt.Sprintf("C16_tmp_%d", os.Getpid()))

type c16Sink struct {
	name string
	buf  *bytes.Buffer
	cw   *c16ChunkWriter
	fh   *os.File
	path string
}

func c16NewSink(kind int) (*c16Sink, error) {
	switch kind {
	case 0:
		return &c16Sink{name: "bytes.Buffer", buf: new(bytes.Buffer)}, nil
	case 1:
		return &c16Sink{name: "recording writer", cw: &c16ChunkWriter{}}, nil
	}
	if err := os.MkdirAll(c16TmpDir, 0o755); err != nil {
		return nil, err
	}
	p := filepath.Join(c16TmpDir, "sink.out")
	fh, err := os.Create(p)
	if err != nil {
		return nil, err
	}
	return &c16Sink{name: "os.File", fh: fh, path: p}, nil
}

func (s *c16Sink) w() interface{ Write([]byte) (int, error) } {
	switch {
	case s.buf != nil:
		return s.buf
	case s.cw != nil:
		return s.cw
	}
	return s.fh
}

func (s *c16Sink) written() []byte {
	switch {
	case s.buf != nil:
		return s.buf.Bytes()
	case s.cw != nil:
		return s.cw.bytes()
	}
	s.fh.Close()
	b, _ := os.ReadFile(s.path)
	return b
}

// ---------------------------------------------------------------- one case

type c16Ctx struct {
	run  *Run
	in   c16Input
	emit bool // print Gallina terms (false on replay)
}

func (c *c16Ctx) violate(key, what, detail, got, want string) {
	in := c.in
	in.Detail = detail
	c.run.violation(Violation{Key: key, What: what, Input: in, Got: got, Want: want})
}

func (c *c16Ctx) add(term string, detail string, impl string, nontrivial bool) {
	if !c.emit {
		return
	}
	in := c.in
	in.Detail = detail
	c.run.add(term, in, impl, nontrivial)
}

var c16Indents = [][2]string{{"", "  "}, {"", "\t"}, {" ", ""}, {"  ", "    "}, {"", ""}, {"\t", " "}}

func c16RootArgs(root string) []string {
	if root == "" {
		return nil
	}
	return []string{root}
}

func c16CoqRoot(root string) string {
	if root == "" {
		return "None"
	}
	return "(Some " + coqStr(root) + ")"
}

func c16HasNewline(v interface{}) bool {
	switch x := v.(type) {
	case map[string]interface{}:
		for k, e := range x {
			if strings.Contains(k, "\n") || c16HasNewline(e) {
				return true
			}
		}
	case []interface{}:
		for _, e := range x {
			if c16HasNewline(e) {
				return true
			}
		}
	case string:
		return strings.Contains(x, "\n")
	}
	return false
}

// c16HasSpecials: some string value contains an XML special character.  With value escaping off such a
// value is written as it is and may open a CDATA section or a tag of its own: the output then tokenizes,
// if at all, to something else than what was encoded (C05's subject), so the token-level clauses are
// evaluated only when escaping is on or no value has specials.
func c16HasSpecials(v interface{}) bool {
	switch x := v.(type) {
	case map[string]interface{}:
		for _, e := range x {
			if c16HasSpecials(e) {
				return true
			}
		}
	case []interface{}:
		for _, e := range x {
			if c16HasSpecials(e) {
				return true
			}
		}
	case string:
		return strings.ContainsAny(x, "<>&\"'")
	}
	return false
}

// c16HasBadAttr: some attribute entry (key = prefix + name) has a value that is not a non-nil scalar,
// which the encoder answers with an error.
func c16HasBadAttr(o xOpts, v interface{}) bool {
	switch x := v.(type) {
	case map[string]interface{}:
		for k, e := range x {
			if len(o.AP) > 0 && len(k) > len(o.AP) && strings.HasPrefix(k, o.AP) {
				switch e.(type) {
				case map[string]interface{}, []interface{}, nil:
					return true
				}
			}
			if c16HasBadAttr(o, e) {
				return true
			}
		}
	case []interface{}:
		for _, e := range x {
			if c16HasBadAttr(o, e) {
				return true
			}
		}
	}
	return false
}

// c16NoNewline: a deep copy with "\n" in string values replaced.
func c16NoNewline(v interface{}) interface{} {
	switch x := v.(type) {
	case map[string]interface{}:
		m := make(map[string]interface{}, len(x))
		for k, e := range x {
			m[k] = c16NoNewline(e)
		}
		return m
	case []interface{}:
		l := make([]interface{}, len(x))
		for i, e := range x {
			l[i] = c16NoNewline(e)
		}
		return l
	case string:
		return strings.ReplaceAll(x, "\n", "|")
	}
	return v
}

func c16MaxWidth(v interface{}) int {
	w := 0
	switch x := v.(type) {
	case map[string]interface{}:
		w = len(x)
		for _, e := range x {
			if n := c16MaxWidth(e); n > w {
				w = n
			}
		}
	case []interface{}:
		for _, e := range x {
			if n := c16MaxWidth(e); n > w {
				w = n
			}
		}
	}
	return w
}

// c16RootRulesDiffer: no root tag and one key whose value is a list of maps (Xml: members without a
// common root; XmlIndent: wrapped in <doc>) - outside the C03 domain.
func c16RootRulesDiffer(m map[string]interface{}, root string) bool {
	if root != "" || len(m) != 1 {
		return false
	}
	for _, v := range m {
		l, ok := v.([]interface{})
		if !ok {
			return false
		}
		for _, e := range l {
			if _, isMap := e.(map[string]interface{}); !isMap {
				return false
			}
		}
	}
	return true
}

const c16Variants = 4
const c16Calls = 2

// c16MapCase: one Map, all clauses.
func c16MapCase(c *c16Ctx, r *Rng, o xOpts, m map[string]interface{}, root string) {
	run := c.run
	variants := []map[string]interface{}{m}
	for i := 1; i < c16Variants; i++ {
		variants = append(variants, r.c16RebuildMap(m))
	}
	w := c16MaxWidth(m)
	switch {
	case w >= 30:
		run.count("map-width>=30")
	case w >= 8:
		run.count("map-width 8-29")
	default:
		run.count("map-width<8")
	}
	if root != "" {
		run.count("explicit-root")
	}
	differ := c16RootRulesDiffer(m, root)
	if differ {
		run.count("root-rules-differ (single key, list of maps)")
	}
	ra := c16RootArgs(root)
	nontrivial := w >= 2

	type fn struct {
		key, name string
		call      func(mv mxj.Map) ([]byte, error)
	}
	ind := c16Indents[r.Intn(len(c16Indents))]
	ind2 := c16Indents[r.Intn(len(c16Indents))]
	fns := []fn{
		{"xml-deterministic", "Xml", func(mv mxj.Map) ([]byte, error) { return mv.Xml(ra...) }},
		{"xmlindent-deterministic", fmt.Sprintf("XmlIndent(%q,%q)", ind[0], ind[1]), func(mv mxj.Map) ([]byte, error) { return mv.XmlIndent(ind[0], ind[1], ra...) }},
		{"xmlindent-deterministic", fmt.Sprintf("XmlIndent(%q,%q)", ind2[0], ind2[1]), func(mv mxj.Map) ([]byte, error) { return mv.XmlIndent(ind2[0], ind2[1], ra...) }},
		{"json-deterministic", "Json()", func(mv mxj.Map) ([]byte, error) { return mv.Json() }},
		{"json-deterministic", "Json(true)", func(mv mxj.Map) ([]byte, error) { return mv.Json(true) }},
		{"jsonindent-deterministic", fmt.Sprintf("JsonIndent(%q,%q)", ind[0], ind[1]), func(mv mxj.Map) ([]byte, error) { return mv.JsonIndent(ind[0], ind[1]) }},
		{"jsonindent-deterministic", fmt.Sprintf("JsonIndent(%q,%q,true)", ind2[0], ind2[1]), func(mv mxj.Map) ([]byte, error) { return mv.JsonIndent(ind2[0], ind2[1], true) }},
		{"stringindent-deterministic", "StringIndent", func(mv mxj.Map) ([]byte, error) { return []byte(mv.StringIndent()), nil }},
		{"stringindent-deterministic", "StringIndentNoTypeInfo(1)", func(mv mxj.Map) ([]byte, error) { return []byte(mv.StringIndentNoTypeInfo(1)), nil }},
	}
	// first[f] = the result on the original Map, first call
	first := make([]c16Out, len(fns))
	c16WithOpts(o, func() {
		for fi, f := range fns {
			run.sum.OracleEvals++
			reported := false
			for vi, v := range variants {
				for call := 0; call < c16Calls; call++ {
					out := c16Call(func() ([]byte, error) { return f.call(mxj.Map(v)) })
					if vi == 0 && call == 0 {
						first[fi] = out
						continue
					}
					if !out.same(first[fi]) && !reported {
						reported = true
						c.violate(f.key, f.name+" returns different bytes for equal Maps / repeated calls",
							fmt.Sprintf("%s: rebuilt variant %d, call %d against the original Map, call 0", f.name, vi, call), out.text(), first[fi].text())
					}
				}
			}
		}
	})
	xmlOut, indOut := first[0], first[1]
	if xmlOut.Panicked {
		run.count("Xml panicked")
	} else if xmlOut.Err != nil {
		run.count("Xml error")
	}

	// ---- ascending key order, indentation = whitespace only (on the token streams of the real tokenizer)
	var cmpToks []gtok
	var cmpErr error
	if xmlOut.ok() && !o.Esc && c16HasSpecials(m) {
		run.count("escaping off and a value with XML specials: token clauses skipped")
		cmpErr = fmt.Errorf("not evaluated")
	} else if xmlOut.ok() {
		cmpToks, cmpErr = tokenize(xmlOut.B, true)
		if cmpErr != nil {
			run.count("Xml output not tokenizable (unescaped specials / invalid names): token clauses skipped")
		} else {
			run.sum.OracleEvals++
			ab, cb := c16AscendingOrder(cmpToks)
			if ab != "" {
				c.violate("xml-attrs-ascending", "attributes are not written in ascending key order", "Xml", ab+" in "+c16Clip(string(xmlOut.B), 400), "strictly ascending attribute names")
			}
			if cb != "" {
				c.violate("xml-children-ascending", "child elements are not written in ascending key order", "Xml", cb+" in "+c16Clip(string(xmlOut.B), 400), "ascending sibling element names")
			}
		}
	}
	if xmlOut.ok() && cmpErr == nil && !differ {
		for _, fi := range []int{1, 2} {
			if !first[fi].ok() {
				if !o.Chk {
					c.violate("xmlindent-only-whitespace", "XmlIndent fails where Xml succeeds", fns[fi].name, first[fi].text(), "the items of Xml with whitespace between them")
				}
				continue
			}
			it, err := tokenize(first[fi].B, true)
			if err != nil {
				c.violate("xmlindent-only-whitespace", "XmlIndent output is not tokenizable although the Xml output is", fns[fi].name, err.Error(), "the items of Xml with whitespace between them")
				continue
			}
			run.sum.OracleEvals++
			ok, where, glued := c16IndentOnlyWhitespace(it, cmpToks)
			if glued > 0 {
				run.count("indent: boundary whitespace after a text that precedes a child element")
			}
			if !ok {
				c.violate("xmlindent-only-whitespace", "XmlIndent differs from Xml in more than inter-element whitespace", fns[fi].name,
					where+" in "+c16Clip(string(first[fi].B), 400), c16Clip(string(xmlOut.B), 400))
			} else if ti, tc := c16RawTags(first[fi].B), c16RawTags(xmlOut.B); ti != nil && tc != nil {
				// byte level: every tag is written exactly as in the compact encoding (the tokenizer would not see
				// whitespace put inside a tag)
				run.sum.OracleEvals++
				bad := ""
				if len(ti) != len(tc) {
					bad = fmt.Sprintf("%d tags against %d", len(ti), len(tc))
				} else {
					for k := range ti {
						if ti[k] != tc[k] {
							bad = fmt.Sprintf("tag %d is written %q, in the compact encoding %q", k, ti[k], tc[k])
							break
						}
					}
				}
				if bad != "" {
					c.violate("xmlindent-only-whitespace", "XmlIndent differs from Xml inside a tag (not only in inter-element whitespace)", fns[fi].name,
						bad+" in "+c16Clip(string(first[fi].B), 400), c16Clip(string(xmlOut.B), 400))
				}
			}
		}
	}

	// ---- Writer forms x sinks
	type wform struct {
		name string
		raw  bool
		base int // index in fns of the byte-returning form
		call func(mv mxj.Map, w interface{ Write([]byte) (int, error) }) ([]byte, error)
	}
	wforms := []wform{
		{"XmlWriter", false, 0, func(mv mxj.Map, w interface{ Write([]byte) (int, error) }) ([]byte, error) {
			return nil, mv.XmlWriter(w, ra...)
		}},
		{"XmlIndentWriter", false, 1, func(mv mxj.Map, w interface{ Write([]byte) (int, error) }) ([]byte, error) {
			return nil, mv.XmlIndentWriter(w, ind[0], ind[1], ra...)
		}},
		{"JsonWriter", false, 3, func(mv mxj.Map, w interface{ Write([]byte) (int, error) }) ([]byte, error) {
			return nil, mv.JsonWriter(w)
		}},
		{"JsonWriterRaw", true, 4, func(mv mxj.Map, w interface{ Write([]byte) (int, error) }) ([]byte, error) {
			return mv.JsonWriterRaw(w, true)
		}},
		{"JsonIndentWriter", false, 5, func(mv mxj.Map, w interface{ Write([]byte) (int, error) }) ([]byte, error) {
			return nil, mv.JsonIndentWriter(w, ind[0], ind[1])
		}},
		{"JsonIndentWriterRaw", true, 6, func(mv mxj.Map, w interface{ Write([]byte) (int, error) }) ([]byte, error) {
			return mv.JsonIndentWriterRaw(w, ind2[0], ind2[1], true)
		}},
	}
	termForm := r.Intn(len(wforms))
	fileForm := r.Intn(len(wforms)) // the os.File sink costs a create/read per call: one form per case
	c16WithOpts(o, func() {
		for wi, wf := range wforms {
			for sk := 0; sk < 3; sk++ {
				if sk == 2 && wi != fileForm {
					continue
				}
				s, err := c16NewSink(sk)
				if err != nil {
					run.count("sink unavailable: " + err.Error())
					continue
				}
				run.sum.OracleEvals++
				v := variants[r.Intn(len(variants))]
				ret := c16Call(func() ([]byte, error) { return wf.call(mxj.Map(v), s.w()) })
				written := s.written()
				base := first[wf.base]
				key := "writer-" + wf.name
				detail := wf.name + " on " + s.name
				switch {
				case ret.Panicked != base.Panicked || (ret.Err != nil) != (base.Err != nil):
					c.violate(key, "the Writer form fails differently from the byte-returning form", detail, ret.text(), base.text())
				case !base.ok():
					if len(written) != 0 {
						c.violate(key, "the Writer form wrote bytes although the encoding failed", detail, fmt.Sprintf("%q", c16Clip(string(written), 300)), "nothing written")
					}
				default:
					if !bytes.Equal(written, base.B) {
						c.violate(key, "the Writer form does not write exactly the bytes the byte-returning form returns", detail,
							fmt.Sprintf("%q", c16Clip(string(written), 600)), fmt.Sprintf("%q", c16Clip(string(base.B), 600)))
					}
					if wf.raw && !bytes.Equal(ret.B, base.B) {
						c.violate(key, "the Raw form does not return the bytes it wrote", detail,
							fmt.Sprintf("%q", c16Clip(string(ret.B), 600)), fmt.Sprintf("%q", c16Clip(string(base.B), 600)))
					}
				}
				if wi == termForm && sk == 1 {
					retTerm := "(XBytes [])"
					if wf.raw || !ret.ok() {
						retTerm = ret.xout()
					}
					c.add(fmt.Sprintf("CWriter %s %s %s %s", coqBool(wf.raw), base.xout(), c16CoqStr(string(written)), retTerm),
						detail, ret.text()+" written "+c16Clip(string(written), 80), nontrivial)
				}
			}
		}
	})

	// ---- Gallina terms: the model on the variants, in c16Shuffled entry orders
	if !c.emit {
		return
	}
	accept := func(f func(mv mxj.Map) ([]byte, error), v map[string]interface{}) (bool, c16Out) {
		// what the validity check consults: the real tokenizer on the unchecked output
		un := o
		un.Chk = false
		var raw c16Out
		c16WithOpts(un, func() { raw = c16Call(func() ([]byte, error) { return f(mxj.Map(v)) }) })
		if !raw.ok() {
			return false, raw
		}
		_, err := tokenize(raw.B, false)
		return err == nil, raw
	}
	{
		vi := r.Intn(len(variants))
		v := variants[vi]
		acc, _ := accept(fns[0].call, v)
		var out c16Out
		c16WithOpts(o, func() { out = c16Call(func() ([]byte, error) { return fns[0].call(mxj.Map(v)) }) })
		c.add(fmt.Sprintf("CX (XEnc %s %s %s %s %s)", o.coq(), r.c16CoqValShuffled(v), c16CoqRoot(root), coqBool(acc), out.xout()),
			fmt.Sprintf("Xml on variant %d", vi), out.text(), nontrivial)
	}
	{
		// XmlIndent("", "") writes the items with "\n" between them; with every "\n" inside a value replaced
		// first (another Map of the same shape), removing the "\n" bytes leaves the items' compact bytes
		vi := r.Intn(len(variants))
		v := variants[vi]
		if c16HasNewline(v) {
			run.count("CXI term on the Map with newlines in values replaced by '|'")
			v = c16NoNewline(v).(map[string]interface{})
		}
		f := func(mv mxj.Map) ([]byte, error) { return mv.XmlIndent("", "", ra...) }
		acc, _ := accept(f, v)
		var out c16Out
		c16WithOpts(o, func() { out = c16Call(func() ([]byte, error) { return f(mxj.Map(v)) }) })
		out.B = bytes.ReplaceAll(out.B, []byte("\n"), nil)
		c.add(fmt.Sprintf("CXI %s %s %s %s %s", o.coq(), r.c16CoqValShuffled(v), c16CoqRoot(root), coqBool(acc), out.xout()),
			fmt.Sprintf("XmlIndent(\"\",\"\") without the newlines, variant %d", vi), out.text(), nontrivial)
	}
	if r.chance(0.35) {
		c.add(fmt.Sprintf("CPerm %s %s %s %s", o.coq(), r.c16CoqValShuffled(variants[1]), r.c16CoqValShuffled(variants[2]), c16CoqRoot(root)),
			"variants 1 and 2 in their own entry orders", "", nontrivial)
	}
	if r.chance(0.4) {
		// AnyXml(v, rootTag, elemTag) on a list built from the Map's values (single-entry members name their
		// own tag) or on the Map itself: deterministic, and equal to the model (any_xml_items)
		var v interface{} = variants[r.Intn(len(variants))]
		if r.chance(0.7) {
			var l []interface{}
			for _, k := range sortedKeys(m) {
				switch r.Intn(3) {
				case 0:
					l = append(l, map[string]interface{}{k: m[k]})
				case 1:
					l = append(l, m[k])
				}
			}
			if r.chance(0.3) {
				l = append(l, m)
			}
			v = l
		}
		rt, et := r.pick([]string{"root", "doc", "r-t"}), r.pick([]string{"element", "e", "item"})
		any := func(x interface{}) ([]byte, error) { return mxj.AnyXml(x, rt, et) }
		var out, out2 c16Out
		acc := true
		if mm, isMap := v.(map[string]interface{}); isMap {
			acc, _ = accept(func(mv mxj.Map) ([]byte, error) { return any(map[string]interface{}(mv)) }, mm)
		}
		v2 := r.c16Rebuild(v)
		c16WithOpts(o, func() {
			out = c16Call(func() ([]byte, error) { return any(v) })
			out2 = c16Call(func() ([]byte, error) { return any(v2) })
		})
		run.sum.OracleEvals++
		if !out.same(out2) {
			c.violate("anyxml-deterministic", "AnyXml returns different bytes for equal values", "AnyXml on a rebuilt copy", out2.text(), out.text())
		}
		if _, isList := v.([]interface{}); isList && c16HasBadAttr(o, v) {
			run.count("AnyXml term on a list with an invalid attribute value (the member's error is returned, fix c7dba98)")
		}
		run.count("AnyXml term")
		c.add(fmt.Sprintf("CX (XAny %s %s %s %s %s %s)", o.coq(), r.c16CoqValShuffled(v), coqStr(rt), coqStr(et), coqBool(acc), out.xout()),
			"AnyXml(v, "+rt+", "+et+")", out.text(), nontrivial)
	}
	{
		// Map.Json(safe) / JsonIndent(p, i, safe) against what json.Encoder writes under SetEscapeHTML(safe)
		// (and json.Indent of it): the environment, called here directly
		safe := r.chance(0.5)
		v := variants[r.Intn(len(variants))]
		encoded := c16Call(func() ([]byte, error) {
			var buf bytes.Buffer
			enc := json.NewEncoder(&buf)
			enc.SetEscapeHTML(safe)
			err := enc.Encode(map[string]interface{}(v))
			return buf.Bytes(), err
		})
		if !encoded.ok() {
			encoded.B = nil
		}
		if r.chance(0.5) {
			out := c16Call(func() ([]byte, error) { return mxj.Map(v).Json(safe) })
			c.add(fmt.Sprintf("CJson %s %s", encoded.xout(), out.xout()), fmt.Sprintf("Json(%v) against the encoder's bytes", safe), out.text(), nontrivial)
		} else {
			indIn := bytes.TrimSuffix(encoded.B, []byte("\n"))
			indOut := c16Call(func() ([]byte, error) {
				var buf bytes.Buffer
				err := json.Indent(&buf, indIn, ind[0], ind[1])
				return buf.Bytes(), err
			})
			out := c16Call(func() ([]byte, error) { return mxj.Map(v).JsonIndent(ind[0], ind[1], safe) })
			c.add(fmt.Sprintf("CJsonI %s %s %s %s", encoded.xout(), c16CoqStr(string(indIn)), indOut.xout(), out.xout()),
				fmt.Sprintf("JsonIndent(%q,%q,%v) against json.Indent of the encoder's bytes", ind[0], ind[1], safe), out.text(), nontrivial)
		}
	}
	_ = indOut
}

// c16SeqCase: one MapSeq decoded from doc.
func c16SeqCase(c *c16Ctx, r *Rng, o xOpts, doc string) {
	run := c.run
	var ms mxj.MapSeq
	var derr error
	c16WithOpts(o, func() {
		func() {
			defer func() {
				if rec := recover(); rec != nil {
					derr = fmt.Errorf("panic: %v", rec)
				}
			}()
			ms, derr = mxj.NewMapXmlSeq([]byte(doc))
		}()
	})
	if derr != nil {
		run.count("seq: document not decoded")
		return
	}
	m := map[string]interface{}(ms)
	variants := []map[string]interface{}{m}
	for i := 1; i < c16Variants; i++ {
		variants = append(variants, r.c16RebuildMap(m))
	}
	if c16MaxWidth(m) >= 8 {
		run.count("seq-width>=8")
	} else {
		run.count("seq-width<8")
	}
	ind := c16Indents[r.Intn(len(c16Indents))]
	type fn struct {
		key, name string
		call      func(mv mxj.MapSeq) ([]byte, error)
	}
	fns := []fn{
		{"seq-xml-deterministic", "MapSeq.Xml", func(mv mxj.MapSeq) ([]byte, error) { return mv.Xml() }},
		{"seq-xmlindent-deterministic", fmt.Sprintf("MapSeq.XmlIndent(%q,%q)", ind[0], ind[1]), func(mv mxj.MapSeq) ([]byte, error) { return mv.XmlIndent(ind[0], ind[1]) }},
	}
	first := make([]c16Out, len(fns))
	c16WithOpts(o, func() {
		for fi, f := range fns {
			run.sum.OracleEvals++
			reported := false
			for vi, v := range variants {
				for call := 0; call < c16Calls; call++ {
					out := c16Call(func() ([]byte, error) { return f.call(mxj.MapSeq(v)) })
					if vi == 0 && call == 0 {
						first[fi] = out
						continue
					}
					if !out.same(first[fi]) && !reported {
						reported = true
						c.violate(f.key, f.name+" returns different bytes for equal MapSeqs / repeated calls",
							fmt.Sprintf("%s: rebuilt variant %d, call %d against the decoded MapSeq, call 0", f.name, vi, call), out.text(), first[fi].text())
					}
				}
			}
		}
	})
	if first[0].Panicked {
		run.count("seq: MapSeq.Xml panicked (text before child elements: C04/C15)")
		return
	}
	if !first[0].ok() {
		run.count("seq: MapSeq.Xml error")
		return
	}
	docToks, derr2 := tokenize([]byte(doc), true)
	outToks, oerr := tokenize(first[0].B, true)
	if !o.Esc && c16HasSpecials(m) {
		run.count("seq: escaping off and a value with XML specials: token clauses skipped")
	} else if derr2 != nil || oerr != nil {
		run.count("seq: output not tokenizable: token clauses skipped")
	} else {
		run.sum.OracleEvals++
		want, got := c16Skeleton(docToks), c16Skeleton(outToks)
		if strings.Join(want, "") != strings.Join(got, "") {
			c.violate("seq-sequence-order", "MapSeq.Xml does not write attributes / child elements / comments / instructions in sequence order",
				"MapSeq.Xml", c16Clip(strings.Join(got, ""), 600), c16Clip(strings.Join(want, ""), 600))
		}
		if first[1].ok() {
			it, err := tokenize(first[1].B, true)
			if err != nil {
				c.violate("seq-xmlindent-only-whitespace", "MapSeq.XmlIndent output is not tokenizable although the Xml output is", fns[1].name, err.Error(), "")
			} else {
				run.sum.OracleEvals++
				ok, where, _ := c16IndentOnlyWhitespace(it, outToks)
				if !ok {
					c.violate("seq-xmlindent-only-whitespace", "MapSeq.XmlIndent differs from MapSeq.Xml in more than inter-element whitespace", fns[1].name,
						where+" in "+c16Clip(string(first[1].B), 400), c16Clip(string(first[0].B), 400))
				} else if ti, tc := c16RawTags(first[1].B), c16RawTags(first[0].B); ti != nil && tc != nil {
					run.sum.OracleEvals++
					bad := ""
					if len(ti) != len(tc) {
						bad = fmt.Sprintf("%d tags against %d", len(ti), len(tc))
					} else {
						for k := range ti {
							if ti[k] != tc[k] {
								bad = fmt.Sprintf("tag %d is written %q, in the compact encoding %q", k, ti[k], tc[k])
								break
							}
						}
					}
					if bad != "" {
						c.violate("seq-xmlindent-only-whitespace", "MapSeq.XmlIndent differs from MapSeq.Xml inside a tag (not only in inter-element whitespace)", fns[1].name,
							bad+" in "+c16Clip(string(first[1].B), 400), c16Clip(string(first[0].B), 400))
					}
				}
			}
		} else if !o.Chk {
			c.violate("seq-xmlindent-only-whitespace", "MapSeq.XmlIndent fails where MapSeq.Xml succeeds", fns[1].name, first[1].text(), "")
		}
	}
	// writer forms
	c16WithOpts(o, func() {
		for wi, name := range []string{"MapSeq.XmlWriter", "MapSeq.XmlIndentWriter"} {
			for sk := 0; sk < 3; sk++ {
				s, err := c16NewSink(sk)
				if err != nil {
					continue
				}
				run.sum.OracleEvals++
				v := mxj.MapSeq(variants[r.Intn(len(variants))])
				ret := c16Call(func() ([]byte, error) {
					if wi == 0 {
						return nil, v.XmlWriter(s.w())
					}
					return nil, v.XmlIndentWriter(s.w(), ind[0], ind[1])
				})
				written := s.written()
				base := first[wi]
				key := "seq-writer-" + name[len("MapSeq."):]
				detail := name + " on " + s.name
				switch {
				case ret.Panicked != base.Panicked || (ret.Err != nil) != (base.Err != nil):
					c.violate(key, "the Writer form fails differently from the byte-returning form", detail, ret.text(), base.text())
				case base.ok() && !bytes.Equal(written, base.B):
					c.violate(key, "the Writer form does not write exactly the bytes the byte-returning form returns", detail,
						fmt.Sprintf("%q", c16Clip(string(written), 600)), fmt.Sprintf("%q", c16Clip(string(base.B), 600)))
				}
			}
		}
	})
}

// c16MapsCase: the Maps string and file forms.
func c16MapsCase(c *c16Ctx, r *Rng, o xOpts, maps []map[string]interface{}) {
	run := c.run
	mvs := make(mxj.Maps, len(maps))
	for i, m := range maps {
		mvs[i] = mxj.Map(m)
	}
	run.count(fmt.Sprintf("maps-len %d", len(maps)))
	ind := c16Indents[r.Intn(len(c16Indents))]
	os.MkdirAll(c16TmpDir, 0o755)
	path := filepath.Join(c16TmpDir, "maps.out")

	strOut := func(f func() (string, error)) c16Out {
		return c16Call(func() ([]byte, error) { s, err := f(); return []byte(s), err })
	}
	per := func(f func(mv mxj.Map) ([]byte, error)) []c16Out {
		outs := make([]c16Out, len(mvs))
		for i, mv := range mvs {
			mv := mv
			outs[i] = c16Call(func() ([]byte, error) { return f(mv) })
		}
		return outs
	}
	joined := func(outs []c16Out, sep string) (string, bool) {
		var sb strings.Builder
		for i, e := range outs {
			if !e.ok() {
				return sb.String(), false
			}
			if i > 0 {
				sb.WriteString(sep)
			}
			sb.Write(e.B)
		}
		return sb.String(), true
	}
	fileCalls := 0
	fileOf := func(f func() error) (content *string, err c16Out) {
		// the named file either does not exist or already holds LONGER content, which the documented
		// "if it exists it will be truncated" must make disappear (seed C16-3: file opened without O_TRUNC)
		os.Remove(path)
		prefill := ""
		if fileCalls++; fileCalls%2 == 0 {
			prefill = strings.Repeat("<old>previous content of the file</old>\n", 300)
			os.WriteFile(path, []byte(prefill), 0o644)
		}
		defer func() {
			if content != nil && prefill != "" && *content == prefill {
				content = nil // the call did not touch the file (it failed before opening it): same observable as "no file"
			}
		}()
		err = c16Call(func() ([]byte, error) { return nil, f() })
		if b, rerr := os.ReadFile(path); rerr == nil {
			s := string(b)
			content = &s
		}
		return
	}
	coqOuts := func(outs []c16Out) string {
		parts := make([]string, len(outs))
		for i, e := range outs {
			parts[i] = e.xout()
		}
		return "[" + strings.Join(parts, ";") + "]"
	}
	coqOptStr := func(p *string) string {
		if p == nil {
			return "None"
		}
		return "(Some " + c16CoqStr(*p) + ")"
	}
	// check a string form against the concatenation of the per-Map encodings
	concatClause := func(key, name string, got c16Out, encs []c16Out) {
		run.sum.OracleEvals++
		want, allOK := joined(encs, "")
		switch {
		case got.Panicked:
			c.violate(key, name+" panicked", name, got.text(), "the concatenation of the per-Map encodings")
		case !allOK:
			if got.Err == nil {
				c.violate(key, name+" returns no error although a per-Map encoding fails", name, got.text(), "an error")
			}
		case got.Err != nil:
			c.violate(key, name+" fails although every per-Map encoding succeeds", name, got.text(), fmt.Sprintf("%q", c16Clip(want, 600)))
		case string(got.B) != want:
			c.violate(key, name+" is not the concatenation of the per-Map encodings", name, fmt.Sprintf("%q", c16Clip(string(got.B), 600)), fmt.Sprintf("%q", c16Clip(want, 600)))
		}
	}
	fileClause := func(key, name string, content *string, ferr c16Out, str c16Out) {
		run.sum.OracleEvals++
		switch {
		case ferr.Panicked:
			c.violate(key, name+" panicked", name, ferr.text(), "")
		case (ferr.Err != nil) != (str.Err != nil):
			c.violate(key, name+" and the string form disagree on failure", name, ferr.text(), str.text())
		case str.ok() && (content == nil || *content != string(str.B)):
			g := "<no file>"
			if content != nil {
				g = fmt.Sprintf("%q", c16Clip(*content, 600))
			}
			c.violate(key, name+" does not write exactly the string form", name, g, fmt.Sprintf("%q", c16Clip(string(str.B), 600)))
		}
	}

	c16WithOpts(o, func() {
		// ---- XML
		xs := per(func(mv mxj.Map) ([]byte, error) { return mv.Xml() })
		xstr := strOut(func() (string, error) { return mvs.XmlString() })
		concatClause("maps-xmlstring-concat", "Maps.XmlString", xstr, xs)
		fc, fe := fileOf(func() error { return mvs.XmlFile(path) })
		fileClause("maps-xmlfile-eq-string", "Maps.XmlFile", fc, fe, xstr)
		c.add(fmt.Sprintf("CMaps 0 false %s %s %s %s %s", coqOuts(xs), coqOuts(xs), c16CoqStr(string(xstr.B)), coqBool(xstr.Err != nil), coqOptStr(fc)),
			"Maps.XmlString / XmlFile", xstr.text(), len(maps) >= 2)

		xis := per(func(mv mxj.Map) ([]byte, error) { return mv.XmlIndent(ind[0], ind[1]) })
		xistr := strOut(func() (string, error) { return mvs.XmlStringIndent(ind[0], ind[1]) })
		concatClause("maps-xmlstringindent-concat", "Maps.XmlStringIndent", xistr, xis)
		fc, fe = fileOf(func() error { return mvs.XmlFileIndent(path, ind[0], ind[1]) })
		fileClause("maps-xmlfileindent-eq-string", "Maps.XmlFileIndent", fc, fe, xistr)

		// ---- JSON: every way of passing the flag
		for _, mode := range []string{"none", "false", "true"} {
			safe := mode == "true"
			var args []bool
			if mode != "none" {
				args = []bool{safe}
			}
			js := per(func(mv mxj.Map) ([]byte, error) { return mv.Json(args...) })
			jstr := strOut(func() (string, error) { return mvs.JsonString(args...) })
			name := "Maps.JsonString(" + strings.TrimPrefix(mode, "none") + ")"
			concatClause("maps-jsonstring-concat", name, jstr, js)
			fc, fe := fileOf(func() error { return mvs.JsonFile(path, args...) })
			fileClause("maps-jsonfile-eq-string", "Maps.JsonFile", fc, fe, jstr)
			if mode != "none" {
				jsF := per(func(mv mxj.Map) ([]byte, error) { return mv.Json(false) })
				jsT := per(func(mv mxj.Map) ([]byte, error) { return mv.Json(true) })
				c.add(fmt.Sprintf("CMaps 1 %s %s %s %s %s %s", coqBool(safe), coqOuts(jsF), coqOuts(jsT), c16CoqStr(string(jstr.B)), coqBool(jstr.Err != nil), coqOptStr(fc)),
					name+" / JsonFile", jstr.text(), len(maps) >= 2)
			}

			jis := per(func(mv mxj.Map) ([]byte, error) { return mv.JsonIndent(ind[0], ind[1], args...) })
			jistr := strOut(func() (string, error) { return mvs.JsonStringIndent(ind[0], ind[1], args...) })
			iname := fmt.Sprintf("Maps.JsonStringIndent(%q,%q%s)", ind[0], ind[1], map[string]string{"none": "", "false": ",false", "true": ",true"}[mode])
			plain, iallOK := joined(jis, "")
			explained := false
			if iallOK && jistr.ok() {
				got := string(jistr.B)
				withNL, _ := joined(jis, "\n")
				switch {
				case got == plain:
					run.sum.OracleEvals++
					explained = true
				case got == withNL:
					// the one recorded deviation: a newline between the documents
					run.sum.OracleEvals++
					explained = true
					c.violate("maps-jsonstringindent-newline-separator", "Maps.JsonStringIndent writes a newline between the documents: not the concatenation of the JsonIndent encodings",
						iname, fmt.Sprintf("%q", c16Clip(got, 600)), fmt.Sprintf("%q", c16Clip(plain, 600)))
				}
			}
			if !explained {
				concatClause("maps-jsonstringindent-concat", iname, jistr, jis)
			}
			fc, fe = fileOf(func() error { return mvs.JsonFileIndent(path, ind[0], ind[1], args...) })
			fileClause("maps-jsonfileindent-eq-string", "Maps.JsonFileIndent", fc, fe, jistr)
			if mode == "true" || (mode == "false" && r.chance(0.5)) {
				jiF := per(func(mv mxj.Map) ([]byte, error) { return mv.JsonIndent(ind[0], ind[1], false) })
				jiT := per(func(mv mxj.Map) ([]byte, error) { return mv.JsonIndent(ind[0], ind[1], true) })
				c.add(fmt.Sprintf("CMaps 2 %s %s %s %s %s %s", coqBool(safe), coqOuts(jiF), coqOuts(jiT), c16CoqStr(string(jistr.B)), coqBool(jistr.Err != nil), coqOptStr(fc)),
					iname+" / JsonFileIndent", jistr.text(), len(maps) >= 2)
			}
		}
	})
}

// ---------------------------------------------------------------- driver

func c16ShapeOf(v interface{}) string { return c16Clip(canon(v), 1500) }

// c16One generates and runs the case of one sub-seed.
func c16One(run *Run, caseSeed int64, emit bool) c16Input {
	r := newRng(caseSeed)
	o := r.c16EncOpts()
	c := &c16Ctx{run: run, emit: emit, in: c16Input{CaseSeed: caseSeed, Opts: &o}}
	switch x := r.Intn(100); {
	case x < 40:
		c.in.Kind = "map-json"
		m := r.c16JsonMap(o)
		root := ""
		if r.chance(0.3) {
			root = r.pick([]string{"root", "r-t", "doc"})
		}
		c.in.Shape, c.in.Root = c16ShapeOf(m), root
		run.count("kind:map-json")
		c16MapCase(c, r, o, m, root)
	case x < 62:
		c.in.Kind = "map-decoded"
		dc := docCfg{texts: textPool}
		root := r.c16Doc(false)
		doc := r.renderDoc(root, dc)
		cast := r.chance(0.4)
		out := decodeXml(o, []byte(doc), cast)
		m, _ := out.Ret.(map[string]interface{})
		if out.Panicked || out.Err != nil || m == nil {
			run.count("map-decoded: document not decoded")
			return c.in
		}
		c.in.Shape = c16Clip(doc, 1500)
		run.count("kind:map-decoded")
		c16MapCase(c, r, o, m, "")
	case x < 85:
		c.in.Kind = "seq"
		root := r.c16Doc(true)
		var sb strings.Builder
		r.c16RenderSeqDoc(root, &sb, true)
		o.Chk = false // MapSeq.Xml's validity check is C05's subject
		c.in.Shape = c16Clip(sb.String(), 1500)
		run.count("kind:seq")
		c16SeqCase(c, r, o, sb.String())
	default:
		c.in.Kind = "maps"
		n := r.Intn(5)
		maps := make([]map[string]interface{}, n)
		for i := range maps {
			cfg := genCfg{maxDepth: 1 + r.Intn(2), maxFan: 1 + r.Intn(3), emptyLists: true}
			maps[i] = r.c16Retag(r.genMap(cfg, 0), o).(map[string]interface{})
			if r.chance(0.12) {
				maps[i] = map[string]interface{}{} // an empty Map is a document too (<doc/>, {}); seed C16-8
				continue
			}
			if r.chance(0.5) {
				maps[i]["s"] = r.pick([]string{"a<b", "R&D", "x>y", "<&>"})
			}
			if r.chance(0.08) {
				maps[i][o.AP+"bad"] = map[string]interface{}{"k": "v"} // invalid attribute value: Xml fails
			}
			if r.chance(0.06) {
				maps[i]["nan"] = math.NaN() // json.Marshal fails
			}
		}
		shapes := make([]string, n)
		for i, m := range maps {
			shapes[i] = canon(m)
		}
		o.Chk = false
		c.in.Shape = c16Clip("["+strings.Join(shapes, ", ")+"]", 1500)
		run.count("kind:maps")
		c16MapsCase(c, r, o, maps)
	}
	return c.in
}

func c16CaseSeed(seed int64, i int) int64 { return seed*1000003 + int64(i)*7919 + 17 }

func runC16(cfg runCfg) error {
	run := newRun("C16", cfg.out, cfg.seed, cfg.shards, c16Header, "c16case",
		"each case from its own sub-seed: JSON-shaped Maps (C03 domain: nested/empty/mixed lists, nulls, numbers, booleans, attribute and text "+
			"entries, strings with XML specials / blanks / newline; widened to 8-70 keys per map with prob. 0.45) and Maps decoded from generated documents "+
			"(C01/C02 domain, wide elements) under random encoder options (attribute prefix, key prefix, Go empty-element syntax, value escaping, validity check, "+
			"optional root tag); MapSeqs decoded from generated documents (C04 domain); Maps values of 0-4 Maps incl. failing members. Every Map/MapSeq is rebuilt "+
			"3 times (capacity 0/1/n/2n/9/64/1000; c16Shuffled, descending, junk-then-delete, delete+reinsert, overwrite histories at every depth); every entry point "+
			"is called twice on each of the 4 variants. Gallina terms print map entries in c16Shuffled order. non-trivial = some map has >= 2 entries (Maps: >= 2 members); "+
			"distinct by (sub-seed, term kind) hash")
	defer os.RemoveAll(c16TmpDir)
	for i := 0; i < cfg.n; i++ {
		c16One(run, c16CaseSeed(cfg.seed, i), true)
	}
	run.sum.Extra = map[string]interface{}{
		"entry_points": []string{"Map.Xml", "Map.XmlIndent", "Map.Json", "Map.JsonIndent", "Map.StringIndent", "Map.StringIndentNoTypeInfo",
			"Map.XmlWriter", "Map.XmlIndentWriter", "Map.JsonWriter", "Map.JsonWriterRaw", "Map.JsonIndentWriter", "Map.JsonIndentWriterRaw",
			"MapSeq.Xml", "MapSeq.XmlIndent", "MapSeq.XmlWriter", "MapSeq.XmlIndentWriter",
			"Maps.XmlString", "Maps.XmlStringIndent", "Maps.JsonString", "Maps.JsonStringIndent", "Maps.XmlFile", "Maps.XmlFileIndent", "Maps.JsonFile", "Maps.JsonFileIndent"},
		"not_in_the_tree": "Map.XmlWriterRaw, Map.XmlIndentWriterRaw, MapSeq.XmlWriterRaw, MapSeq.XmlIndentWriterRaw are commented out in xml.go / xmlseq.go",
		"sinks":           []string{"bytes.Buffer", "recording io.Writer (no short writes)", "os.File under /verif/build"},
	}
	for k := 0; k < cfg.n/20+5; k++ {
		hr := newRng(cfg.seed*7919 + int64(k))
		var ms []map[string]interface{}
		for q := 0; q < 3+hr.Intn(3); q++ {
			ms = append(ms, map[string]interface{}{hr.pick([]string{"doc", "other", "r"}): map[string]interface{}{"-id": hr.pick(strPool), "x": hr.pick([]string{"first", "second", "a much longer text value"}), "y": []interface{}{"one", hr.pick(strPool)}, "z": float64(hr.Intn(99))}})
		}
		runHeld(run, heldCase{Kind: "held-results", Enc: []string{"Xml", "XmlIndent", "Json", "JsonIndent", "AnyXml"}, Maps: ms})
	}
	return run.finish()
}

func replayC16(raw []byte) error {
	var in c16Input
	if err := json.Unmarshal(raw, &in); err != nil {
		return err
	}
	defer os.RemoveAll(c16TmpDir)
	run := newRun("C16", "", 0, 1, c16Header, "c16case", "replay")
	re := c16One(run, in.CaseSeed, false)
	fmt.Printf("input:  kind=%s case_seed=%d root=%q options=%s\nshape:  %s\n", re.Kind, re.CaseSeed, re.Root, mustJSON(re.Opts), re.Shape)
	if len(run.sum.Violations) == 0 {
		fmt.Println("result: every clause holds on this run (an order-dependent failure may need another run: Go randomises map iteration)")
		return nil
	}
	for _, v := range run.sum.Violations {
		fmt.Printf("result: [%s] %s\n  at:   %s\n  got:  %s\n  want: %s\n", v.Key, v.What, v.Input.(c16Input).Detail, v.Got, v.Want)
	}
	return nil
}
