package main

// C17 - read-only operations never modify their receiver; Copy shares nothing; concurrent use.
//
// The static half (no store into receiver / package-level storage by any read-only entry point,
// through any chain of calls) is a Coq theorem over the effect summaries go2v regenerates from
// /repo on every run (coq/GenProofs/C17G.v).  This file is the dynamic support and the search for a
// failing input: deep equality of the receiver around every read-only call, Copy independence,
// and goroutines sharing one Map compared with sequential results (run under the race detector
// by bin/check with the -race build of this harness).

import (
	"bytes"
	"encoding/json"
	"fmt"
	"os"
	"sort"
	"strings"
	"sync"
	"sync/atomic"

	mxj "github.com/clbanning/mxj/v2"
)

type roCall struct {
	Fn   string `json:"fn"`
	Path string `json:"path,omitempty"`
	Key  string `json:"key,omitempty"`
}

type c17Case struct {
	Kind  string                 `json:"kind"` // "map" or "seq"
	Map   map[string]interface{} `json:"map"`
	Calls []roCall               `json:"calls"`
}

var roMapFns = []string{"ValuesForKey", "ValuesForPath", "ValueForKey", "ValueForPath", "ValueForPathString", "PathsForKey", "PathForKeyShortest",
	"Exists", "LeafNodes", "LeafPaths", "LeafValues", "LeafNodesNoAttr", "Elements", "Attributes", "Root", "Xml", "XmlIndent", "XmlWriter",
	"XmlIndentWriter", "Json", "JsonSafe", "JsonIndent", "JsonWriter", "JsonIndentWriter", "Gob", "Copy", "StringIndent", "Old", "NewMap", "MapsXmlString", "MapsJsonString"}
var roSeqFns = []string{"SeqXml", "SeqXmlIndent", "SeqXmlWriter", "SeqStringIndent"}

// runRO runs one read-only call and returns a canonical text of its result (order-insensitive where map iteration decides the order).
func runRO(m map[string]interface{}, c roCall) string {
	mv := mxj.Map(m)
	o := protect(func() Outcome {
		switch c.Fn {
		case "ValuesForKey":
			v, err := mv.ValuesForKey(c.Key)
			return Outcome{Ret: canonMultiset(v), Err: err}
		case "ValuesForPath":
			v, err := mv.ValuesForPath(c.Path)
			return Outcome{Ret: canonMultiset(v), Err: err}
		case "ValueForKey":
			_, err := mv.ValueForKey(c.Key)
			return Outcome{Ret: "", Err: err} // which of several values comes first depends on map iteration
		case "ValueForPath":
			_, err := mv.ValueForPath(c.Path)
			return Outcome{Ret: "", Err: err}
		case "ValueForPathString":
			_, err := mv.ValueForPathString(c.Path)
			return Outcome{Ret: "", Err: err}
		case "PathsForKey":
			p := mv.PathsForKey(c.Key)
			sort.Strings(p)
			return Outcome{Ret: strings.Join(p, "|")}
		case "PathForKeyShortest":
			return Outcome{Ret: fmt.Sprint(len(strings.Split(mv.PathForKeyShortest(c.Key), ".")))}
		case "Exists":
			b, err := mv.Exists(c.Path)
			return Outcome{Ret: b, Err: err}
		case "LeafNodes", "LeafNodesNoAttr":
			var ln []mxj.LeafNode
			if c.Fn == "LeafNodes" {
				ln = mv.LeafNodes()
			} else {
				ln = mv.LeafNodes(true)
			}
			xs := make([]string, len(ln))
			for i, n := range ln {
				xs[i] = n.Path + "=" + canon(n.Value)
			}
			sort.Strings(xs)
			return Outcome{Ret: strings.Join(xs, "|")}
		case "LeafPaths":
			p := mv.LeafPaths()
			sort.Strings(p)
			return Outcome{Ret: strings.Join(p, "|")}
		case "LeafValues":
			return Outcome{Ret: canonMultiset(mv.LeafValues())}
		case "Elements":
			e, err := mv.Elements(c.Path)
			if pathHasStar(c.Path) {
				return Outcome{Ret: ""} // which of several values is looked at depends on map iteration
			}
			sort.Strings(e)
			return Outcome{Ret: strings.Join(e, "|"), Err: err}
		case "Attributes":
			e, err := mv.Attributes(c.Path)
			if pathHasStar(c.Path) {
				return Outcome{Ret: ""} // which of several values is looked at depends on map iteration
			}
			sort.Strings(e)
			return Outcome{Ret: strings.Join(e, "|"), Err: err}
		case "Root":
			r, err := mv.Root()
			if len(m) != 1 {
				r = ""
			}
			return Outcome{Ret: r, Err: err}
		case "Xml":
			b, err := mv.Xml()
			return Outcome{Ret: string(b), Err: err}
		case "XmlIndent":
			b, err := mv.XmlIndent("", "  ")
			return Outcome{Ret: string(b), Err: err}
		case "XmlWriter":
			var w bytes.Buffer
			err := mv.XmlWriter(&w)
			return Outcome{Ret: w.String(), Err: err}
		case "XmlIndentWriter":
			var w bytes.Buffer
			err := mv.XmlIndentWriter(&w, "", " ")
			return Outcome{Ret: w.String(), Err: err}
		case "Json":
			b, err := mv.Json()
			return Outcome{Ret: string(b), Err: err}
		case "JsonSafe":
			b, err := mv.Json(true)
			return Outcome{Ret: string(b), Err: err}
		case "JsonIndent":
			b, err := mv.JsonIndent("", " ")
			return Outcome{Ret: string(b), Err: err}
		case "JsonWriter":
			var w bytes.Buffer
			err := mv.JsonWriter(&w)
			return Outcome{Ret: w.String(), Err: err}
		case "JsonIndentWriter":
			var w bytes.Buffer
			err := mv.JsonIndentWriter(&w, "", " ")
			return Outcome{Ret: w.String(), Err: err}
		case "Gob":
			_, err := mv.Gob()
			return Outcome{Ret: "", Err: err}
		case "Copy":
			cp, err := mv.Copy()
			return Outcome{Ret: canon(map[string]interface{}(cp)), Err: err}
		case "StringIndent":
			return Outcome{Ret: fmt.Sprint(len(mv.StringIndent(2)) > 0)}
		case "Old":
			return Outcome{Ret: canon(mv.Old())}
		case "NewMap":
			n, err := mv.NewMap(c.Path+":copy.of", c.Key+":other")
			if err != nil {
				return Outcome{Ret: "", Err: err}
			}
			return Outcome{Ret: fmt.Sprint(len(n))}
		case "MapsXmlString":
			s, err := mxj.Maps{mv, mv}.XmlString()
			return Outcome{Ret: s, Err: err}
		case "MapsJsonString":
			s, err := mxj.Maps{mv, mv}.JsonString()
			return Outcome{Ret: s, Err: err}
		case "SeqXml":
			b, err := mxj.MapSeq(m).Xml()
			return Outcome{Ret: string(b), Err: err}
		case "SeqXmlIndent":
			b, err := mxj.MapSeq(m).XmlIndent("", " ")
			return Outcome{Ret: string(b), Err: err}
		case "SeqXmlWriter":
			var w bytes.Buffer
			err := mxj.MapSeq(m).XmlWriter(&w)
			return Outcome{Ret: w.String(), Err: err}
		case "SeqStringIndent":
			return Outcome{Ret: fmt.Sprint(len(mxj.MapSeq(m).StringIndent(2)) > 0)}
		}
		panic("mxjh: unknown read-only call " + c.Fn)
	})
	if o.Panicked {
		return "panic: " + o.PanicMsg
	}
	return fmt.Sprintf("%v|err=%v", o.Ret, o.Err != nil)
}

// scribble modifies every container reachable from v (used on a Copy: the original must not change)
func scribble(v interface{}, d int) {
	if d > maxDepth {
		return
	}
	switch x := v.(type) {
	case map[string]interface{}:
		for k, e := range x {
			scribble(e, d+1)
			if _, isC := e.(map[string]interface{}); !isC {
				if _, isL := e.([]interface{}); !isL {
					x[k] = "scribbled"
				}
			}
		}
		x["__scribble"] = true
	case []interface{}:
		for i, e := range x {
			scribble(e, d+1)
			switch e.(type) {
			case map[string]interface{}, []interface{}:
			default:
				x[i] = "scribbled"
			}
		}
	}
}

func (r *Rng) genC17() c17Case {
	if r.chance(0.25) {
		// a MapSeq from a decoded document
		dc := docCfg{maxDepth: 3, maxFan: 3, mixedText: false, noise: r.chance(0.5), texts: []string{"x", "hello world", "1", "true", "a b"}}
		doc := r.renderDoc(r.genElem(dc, 0), dc)
		ms, err := mxj.NewMapXmlSeq([]byte(doc))
		if err == nil {
			c := c17Case{Kind: "seq", Map: deepCopy(map[string]interface{}(ms)).(map[string]interface{})}
			// half of them after a trip through JSON: the sequence numbers are then float64, which elemListSeq.Less
			// supports explicitly (seed C17-6: the comparator must not write the converted number back)
			if r.chance(0.5) {
				if j, jerr := mxj.Map(ms).Json(); jerr == nil {
					if m2, jerr := mxj.NewMapJson(j); jerr == nil {
						c.Map = map[string]interface{}(m2)
					}
				}
			}
			for i := 0; i < 4; i++ {
				c.Calls = append(c.Calls, roCall{Fn: r.pick(roSeqFns)})
			}
			return c
		}
	}
	var m map[string]interface{}
	if r.chance(0.4) {
		dc := docCfg{maxDepth: 3, maxFan: 3, mixedText: r.chance(0.3), noise: false, texts: textPool}
		doc := r.renderDoc(r.genElem(dc, 0), dc)
		mv, err := mxj.NewMapXml([]byte(doc), r.chance(0.5))
		if err == nil {
			m = deepCopy(map[string]interface{}(mv)).(map[string]interface{})
		}
	}
	if m == nil {
		m = r.genMap(genCfg{maxDepth: 4, maxFan: 4, nestedLists: r.chance(0.2), emptyLists: true, wide: true}, 0)
	}
	c := c17Case{Kind: "map", Map: m}
	n := 3 + r.Intn(6)
	for i := 0; i < n; i++ {
		rc := roCall{Fn: r.pick(roMapFns)}
		rc.Path = r.genPath(m, r.chance(0.2), r.chance(0.3), false)
		ks := strings.Split(rc.Path, ".")
		rc.Key = strings.Split(ks[len(ks)-1], "[")[0]
		if r.chance(0.2) {
			rc.Key = "*"
		}
		c.Calls = append(c.Calls, rc)
	}
	return c
}

// c17Check runs the three dynamic clauses on one case; report is called for every failure.
func c17Check(c c17Case, goroutines int, report func(key, what, got, want string)) (evals int) {
	before := canon(c.Map)
	// 1. receiver purity, call by call
	seq := make([]string, len(c.Calls))
	for i, rc := range c.Calls {
		seq[i] = runRO(c.Map, rc)
		evals++
		if after := canon(c.Map); after != before {
			report("receiver-modified:"+rc.Fn, "a read-only operation modified its receiver", after, before)
			return
		}
		if strings.HasPrefix(seq[i], "panic:") {
			report("panic:"+rc.Fn, "a read-only operation panicked", seq[i], "no panic")
		}
	}
	// 1b. held query results: the slices the queries return belong to the caller.  On a Map shaped as the JSON decoder
	// shapes it (lists with spare capacity) every result is kept, all queries are run, and only then is each kept
	// result compared with the text it had when it was returned: a query that hands out (or appends into) storage of
	// the receiver lets a LATER query rewrite an EARLIER result although the receiver stays deeply equal.
	if c.Kind == "map" {
		if jb, err := mxj.Map(c.Map).Json(); err == nil {
			if jm, err := mxj.NewMapJson(jb); err == nil {
				jbefore := canon(map[string]interface{}(jm))
				type kept struct {
					fn, arg string
					live    []interface{}
					text    string
				}
				var all []kept
				paths := []string{"*", "*.*", "*.*.*"}
				for _, rc := range c.Calls {
					paths = append(paths, rc.Path)
					if ks := strings.Split(rc.Path, "."); len(ks) > 1 {
						paths = append(paths, strings.Join(ks[:len(ks)-1], ".")+".*", strings.Join(ks[:len(ks)-1], "."))
					}
				}
				for round := 0; round < 2; round++ {
					for _, pth := range paths {
						o := protect(func() Outcome {
							v, err := jm.ValuesForPath(pth)
							return Outcome{Ret: v, Err: err}
						})
						if v, ok := o.Ret.([]interface{}); ok && !o.Panicked && o.Err == nil && len(v) > 0 {
							all = append(all, kept{"ValuesForPath", pth, v, canonList(v)})
						}
					}
					for _, rc := range c.Calls {
						o := protect(func() Outcome {
							v, err := jm.ValuesForKey(rc.Key)
							return Outcome{Ret: v, Err: err}
						})
						if v, ok := o.Ret.([]interface{}); ok && !o.Panicked && o.Err == nil && len(v) > 0 {
							all = append(all, kept{"ValuesForKey", rc.Key, v, canonList(v)})
						}
					}
				}
				evals += len(all)
				for _, k := range all {
					if now := canonList(k.live); now != k.text {
						report("held-result-overwritten:"+k.fn, fmt.Sprintf("the slice %s(%q) returned changed after later queries on the same Map", k.fn, k.arg), now, k.text)
						return
					}
				}
				if after := canon(map[string]interface{}(jm)); after != jbefore {
					report("receiver-modified:queries", "read-only queries modified their (JSON-decoded) receiver", after, jbefore)
					return
				}
			}
		}
	}
	// 2. Copy shares no mutable structure
	if c.Kind == "map" {
		cp, err := mxj.Map(c.Map).Copy()
		evals++
		if err == nil {
			scribble(map[string]interface{}(cp), 0)
			if after := canon(c.Map); after != before {
				report("copy-shares-structure", "modifying the Copy changed the original", after, before)
				return
			}
		}
	}
	// 3. goroutines sharing the Map: same results as sequentially, receiver unchanged
	var wg sync.WaitGroup
	res := make([][]string, goroutines)
	for g := 0; g < goroutines; g++ {
		wg.Add(1)
		go func(g int) {
			defer wg.Done()
			out := make([]string, len(c.Calls))
			for k := range c.Calls {
				i := (k + g) % len(c.Calls) // different goroutines run the calls in different orders
				out[i] = runRO(c.Map, c.Calls[i])
			}
			res[g] = out
		}(g)
	}
	wg.Wait()
	evals += goroutines * len(c.Calls)
	for g := range res {
		for i := range res[g] {
			if res[g][i] != seq[i] {
				report("concurrent-differs:"+c.Calls[i].Fn, "a call sharing the Map with other goroutines returned something else than sequentially", res[g][i], seq[i])
				return
			}
		}
	}
	if after := canon(c.Map); after != before {
		report("receiver-modified-concurrently", "the shared Map changed under concurrent read-only use", after, before)
	}
	return
}

// canonList: the members of a result slice, in order.
func canonList(v []interface{}) string {
	xs := make([]string, len(v))
	for i, e := range v {
		xs[i] = canon(e)
	}
	return strings.Join(xs, "|")
}

func init() {
	props["C17"] = runC17
	props["C17race"] = runC17race
	replays["C17"] = func(raw []byte) error {
		var c c17Case
		if err := json.Unmarshal(raw, &c); err != nil {
			return err
		}
		c17Check(c, 4, func(key, what, got, want string) { fmt.Printf("%s: %s\n got  %s\n want %s\n", key, what, got, want) })
		fmt.Println("replayed", len(c.Calls), "calls")
		return nil
	}
}

func runC17(cfg runCfg) error {
	r := newRng(cfg.seed)
	run := newRun("C17", cfg.out, cfg.seed, 0, "", "", "random JSON-shaped Maps (wide, nested and empty lists), Maps decoded from random documents (cast and un-cast) and MapSeqs, "+
		"each with 3-8 random read-only calls (queries, encoders, writers, gob, Copy, StringIndent, NewMap): receiver deep-equality around every call, Copy scribbled over, "+
		"then 4 goroutines running the same calls in rotated orders on the shared Map, results compared with the sequential ones; non-trivial = Map with >= 4 containers; distinct by case hash")
	for i := 0; i < cfg.n; i++ {
		c := r.genC17()
		run.count("kind:" + c.Kind)
		for _, rc := range c.Calls {
			run.count("fn:" + rc.Fn)
		}
		bad := false
		ev := c17Check(c, 4, func(key, what, got, want string) {
			bad = true
			run.violation(Violation{Key: key, What: what, Input: c, Got: got, Want: want})
		})
		run.sum.OracleEvals += ev
		run.add("", c, fmt.Sprintf("ok=%v", !bad), strings.Count(canon(c.Map), "{")+strings.Count(canon(c.Map), "[") >= 4)
	}
	return run.finish()
}

// runC17race: the stress run of the -race build; a detected race makes the runtime print
// "WARNING: DATA RACE" on stderr (and exit non-zero at the end), which bin/check looks for.
var privateBad atomic.Int64

func runC17race(cfg runCfg) error {
	r := newRng(cfg.seed)
	bad := 0
	for i := 0; i < cfg.n; i++ {
		c := r.genC17()
		c17Check(c, 6, func(key, what, got, want string) {
			bad++
			fmt.Fprintf(os.Stderr, "C17race: %s: %s\n", key, what)
		})
		// private Maps in parallel: independent decode / encode / query pipelines
		var wg sync.WaitGroup
		for g := 0; g < 4; g++ {
			wg.Add(1)
			doc := []byte(fmt.Sprintf(`<d a="%d"><x>1</x><x>two</x><y z="q">t</y></d>`, g))
			go func() {
				defer wg.Done()
				m, err := mxj.NewMapXml(doc, true)
				if err != nil {
					return
				}
				m.ValuesForPath("d.x")
				m.LeafPaths()
				b, _ := m.Xml()
				mxj.NewMapXmlSeq(b)
				j, _ := m.Json()
				mxj.NewMapJson(j)
				// the stream readers, each on its own reader
				jm, _ := mxj.NewMapJsonReader(bytes.NewReader(j))
				jm2, raw, _ := mxj.NewMapJsonReaderRaw(bytes.NewReader(append(append([]byte{}, j...), j...)))
				if canon(map[string]interface{}(jm)) != canon(map[string]interface{}(m)) || canon(map[string]interface{}(jm2)) != canon(map[string]interface{}(m)) || !bytes.Equal(raw, j) {
					fmt.Fprintf(os.Stderr, "C17race: concurrent-differs: private JSON reader pipeline returned %s / %s raw=%s for %s\n", canon(map[string]interface{}(jm)), canon(map[string]interface{}(jm2)), raw, j)
					privateBad.Add(1)
				}
				xm, _ := mxj.NewMapXmlReader(bytes.NewReader(b))
				sm, _ := mxj.NewMapXmlSeqReader(bytes.NewReader(b))
				xm.Xml()
				sm.Xml()
			}()
		}
		wg.Wait()
	}
	fmt.Printf("C17race: %d cases, %d failures, %d private-pipeline failures\n", cfg.n, bad, privateBad.Load())
	if bad > 0 || privateBad.Load() > 0 {
		return fmt.Errorf("C17race: results under concurrent use differ from sequential results")
	}
	return nil
}
