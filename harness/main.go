package main

import (
	"encoding/json"
	"flag"
	"fmt"
	"os"
	"path/filepath"
	"sort"
)

type runCfg struct {
	prop   string
	seed   int64
	n      int
	shards int
	out    string
	tier   string
}

var props = map[string]func(runCfg) error{}
var replays = map[string]func([]byte) error{}

func sortStrings(xs []string) { sort.Strings(xs) }

// corpusDir is /verif/corpus, set from -corpus.
var corpusDir string

// loadCorpus reads the minimised past disagreements of a property (kvCase form).
func loadCorpus(prop string) []kvCase {
	var out []kvCase
	files, _ := filepath.Glob(filepath.Join(corpusDir, prop, "*.json"))
	sort.Strings(files)
	for _, f := range files {
		b, err := os.ReadFile(f)
		if err != nil {
			continue
		}
		var c kvCase
		if json.Unmarshal(b, &c) == nil && c.Op != "" {
			out = append(out, c)
		}
	}
	return out
}

func main() {
	var cfg runCfg
	var replay string
	flag.StringVar(&cfg.prop, "prop", "", "property id")
	flag.Int64Var(&cfg.seed, "seed", 1, "PRNG seed")
	flag.IntVar(&cfg.n, "n", 1000, "number of generated cases")
	flag.IntVar(&cfg.shards, "shards", 16, "number of Gallina case files")
	flag.StringVar(&cfg.out, "out", "", "output directory")
	flag.StringVar(&cfg.tier, "tier", "quick", "quick|thorough")
	flag.StringVar(&corpusDir, "corpus", "", "corpus directory")
	flag.StringVar(&replay, "replay", "", "replay file: re-run its input on the implementation")
	flag.Parse()
	if replay != "" {
		b, err := os.ReadFile(replay)
		if err != nil {
			fmt.Fprintln(os.Stderr, err)
			os.Exit(2)
		}
		if err := doReplay(b); err != nil {
			fmt.Fprintln(os.Stderr, err)
			os.Exit(2)
		}
		return
	}
	f, ok := props[cfg.prop]
	if !ok {
		fmt.Fprintln(os.Stderr, "mxjh: unknown property", cfg.prop)
		os.Exit(2)
	}
	if err := f(cfg); err != nil {
		fmt.Fprintln(os.Stderr, "mxjh:", err)
		os.Exit(2)
	}
}

func init() {
	props["C07"] = runC07
}

// doReplay re-executes the input recorded in a replay file.
func doReplay(b []byte) error {
	var rep struct {
		Property string          `json:"property"`
		Input    json.RawMessage `json:"input"`
	}
	if err := json.Unmarshal(b, &rep); err != nil {
		return err
	}
	if len(rep.Input) == 0 {
		fmt.Println("replay: no concrete input recorded (no-failing-input-found); see 'broken' in the replay file")
		return nil
	}
	var kind struct {
		Kind string `json:"kind"`
	}
	if json.Unmarshal(rep.Input, &kind) == nil && kind.Kind == "held-results" {
		var hc heldCase
		if err := json.Unmarshal(rep.Input, &hc); err != nil {
			return err
		}
		n := heldResults(hc, func(key, what, got, want string) { fmt.Printf("%s: %s\n now  %q\n was  %q\n", key, what, got, want) })
		fmt.Println("held results compared:", n)
		return nil
	}
	if f, ok := replays[rep.Property]; ok {
		return f(rep.Input)
	}
	var c kvCase
	if err := json.Unmarshal(rep.Input, &c); err != nil || c.Op == "" {
		return fmt.Errorf("replay: input is not a tree-walker case")
	}
	o, after := runKV(c)
	fmt.Printf("input:  %s\nresult: %s\nafter:  %s\n", mustJSON(c), o.text(), canon(after))
	return nil
}

func mustJSON(v interface{}) string {
	b, _ := json.Marshal(v)
	return string(b)
}
