package main

// C18 - package options: histories of setter calls.
//
// Correspondence: after every call of a generated history the complete option state
// (mxj.VerifOptionState, hook file verif_hooks.go) is compared with the state the
// REGENERATED model (coq/Gen/Setters_gen.v, translated from the current sources by go2v)
// computes for the same history.
// Oracle: documented semantics of each setter (frame, idempotence, argument-less form),
// restore-to-defaults, behaviour after restoring = behaviour of a fresh process,
// non-interference of options with entry points they do not document.

import (
	"encoding/json"
	"fmt"
	"os"
	"reflect"
	"sort"
	"strings"

	mxj "github.com/clbanning/mxj/v2"
)

type optCall struct {
	Fn    string   `json:"fn"`
	Bools []bool   `json:"bools,omitempty"`
	Strs  []string `json:"strs,omitempty"`
	Str   string   `json:"str,omitempty"`
	Bool  bool     `json:"bool,omitempty"`
	Int   int      `json:"int,omitempty"`
	Set   bool     `json:"set,omitempty"` // function / pointer valued: non-nil
}

var boolSetters = map[string]func(...bool){
	"IncludeTagSeqNum": mxj.IncludeTagSeqNum, "CoerceKeysToLower": mxj.CoerceKeysToLower,
	"CoerceKeysToSnakeCase": mxj.CoerceKeysToSnakeCase, "CastValuesToInt": mxj.CastValuesToInt,
	"HandleXMPPStreamTag": mxj.HandleXMPPStreamTag, "DecodeSimpleValuesAsMap": mxj.DecodeSimpleValuesAsMap,
	"CastNanInf": mxj.CastNanInf, "CastValuesToFloat": mxj.CastValuesToFloat, "CastValuesToBool": mxj.CastValuesToBool,
	"XmlCheckIsValid": mxj.XmlCheckIsValid, "LeafUseDotNotation": mxj.LeafUseDotNotation,
	"DisableTrimWhiteSpace": mxj.DisableTrimWhiteSpace, "XMLEscapeChars": mxj.XMLEscapeChars,
	"XMLEscapeCharsDecoder": mxj.XMLEscapeCharsDecoder,
}

// the variable(s) each setter is documented to change
var docWrites = map[string][]string{
	"IncludeTagSeqNum": {"includeTagSeqNum"}, "CoerceKeysToLower": {"lowerCase"}, "CoerceKeysToSnakeCase": {"snakeCaseKeys"},
	"CastValuesToInt": {"castToInt"}, "HandleXMPPStreamTag": {"handleXMPPStreamTag"}, "DecodeSimpleValuesAsMap": {"decodeSimpleValuesAsMap"},
	"CastNanInf": {"castNanInf"}, "CastValuesToFloat": {"castToFloat"}, "CastValuesToBool": {"castToBool"},
	"XmlCheckIsValid": {"xmlCheckIsValid"}, "LeafUseDotNotation": {"useDotNotation"},
	"DisableTrimWhiteSpace": {"disableTrimWhiteSpace", "trimRunes"}, "XMLEscapeChars": {"xmlEscapeChars"},
	"XMLEscapeCharsDecoder": {"xmlEscapeCharsDecoder", "xmlEscapeChars"},
	"SetAttrPrefix":         {"attrPrefix", "lenAttrPrefix"}, "PrependAttrWithHyphen": {"attrPrefix", "lenAttrPrefix"},
	"SetFieldSeparator": {"fieldSep"}, "SetArraySize": {"defaultArraySize"}, "SetCheckTagToSkipFunc": {"checkTagToSkip"},
	"XmlGoEmptyElemSyntax": {"useGoXmlEmptyElemSyntax"}, "XmlDefaultEmptyElemSyntax": {"useGoXmlEmptyElemSyntax"},
	"SetGlobalKeyMapPrefix": {"textK", "seqK", "commentK", "attrK", "directiveK", "procinstK", "targetK", "instK"},
	"assign_JsonUseNumber":  {"JsonUseNumber"},
}

// the flag a toggle setter toggles (argument-less form)
var toggles = map[string]string{
	"IncludeTagSeqNum": "includeTagSeqNum", "CoerceKeysToLower": "lowerCase", "CoerceKeysToSnakeCase": "snakeCaseKeys",
	"CastValuesToInt": "castToInt", "HandleXMPPStreamTag": "handleXMPPStreamTag", "DecodeSimpleValuesAsMap": "decodeSimpleValuesAsMap",
	"CastNanInf": "castNanInf", "CastValuesToFloat": "castToFloat", "CastValuesToBool": "castToBool",
	"XmlCheckIsValid": "xmlCheckIsValid", "LeafUseDotNotation": "useDotNotation",
}

func (c optCall) apply() {
	if f, ok := boolSetters[c.Fn]; ok {
		f(c.Bools...)
		return
	}
	switch c.Fn {
	case "SetAttrPrefix":
		mxj.SetAttrPrefix(c.Str)
	case "PrependAttrWithHyphen":
		mxj.PrependAttrWithHyphen(c.Bool)
	case "SetFieldSeparator":
		mxj.SetFieldSeparator(c.Strs...)
	case "SetArraySize":
		mxj.SetArraySize(c.Int)
	case "SetCheckTagToSkipFunc":
		if c.Set {
			mxj.SetCheckTagToSkipFunc(func(string) bool { return false })
		} else {
			mxj.SetCheckTagToSkipFunc(nil)
		}
	case "XmlGoEmptyElemSyntax":
		mxj.XmlGoEmptyElemSyntax()
	case "XmlDefaultEmptyElemSyntax":
		mxj.XmlDefaultEmptyElemSyntax()
	case "SetGlobalKeyMapPrefix":
		mxj.SetGlobalKeyMapPrefix(c.Str)
	case "assign_JsonUseNumber":
		mxj.JsonUseNumber = c.Bool
	default:
		panic("mxjh: unknown setter " + c.Fn)
	}
}

func coqBools(bs []bool) string {
	p := make([]string, len(bs))
	for i, b := range bs {
		p[i] = coqBool(b)
	}
	return "[" + strings.Join(p, ";") + "]"
}

func (c optCall) coq() string {
	if _, ok := boolSetters[c.Fn]; ok {
		return "C_" + c.Fn + " " + coqBools(c.Bools)
	}
	switch c.Fn {
	case "SetAttrPrefix", "SetGlobalKeyMapPrefix":
		return "C_" + c.Fn + " " + coqStr(c.Str)
	case "PrependAttrWithHyphen":
		return "C_PrependAttrWithHyphen " + coqBool(c.Bool)
	case "SetFieldSeparator":
		return "C_SetFieldSeparator " + coqStrs(c.Strs)
	case "SetArraySize":
		return fmt.Sprintf("C_SetArraySize (%d)%%Z", c.Int)
	case "SetCheckTagToSkipFunc":
		if c.Set {
			return "C_SetCheckTagToSkipFunc (Some 1)"
		}
		return "C_SetCheckTagToSkipFunc None"
	case "assign_JsonUseNumber":
		return "C_assign_JsonUseNumber " + coqBool(c.Bool)
	}
	return "C_" + c.Fn
}

// snapshot of the option state as (name, fval) pairs, names as in the Go source
func optSnapshot() map[string]interface{} {
	st := mxj.VerifOptionState()
	out := map[string]interface{}{}
	for k, v := range st {
		switch k {
		case "checkTagToSkipSet":
			out["checkTagToSkip"] = tokVal(v.(bool))
		case "xmlCharsetReaderSet":
			out["XmlCharsetReader"] = tokVal(v.(bool))
		case "customDecoderSet":
			out["CustomDecoder"] = tokVal(v.(bool))
		default:
			out[k] = v
		}
	}
	return out
}

type tokVal bool

func coqSnapshot(s map[string]interface{}) string {
	ks := make([]string, 0, len(s))
	for k := range s {
		ks = append(ks, k)
	}
	sort.Strings(ks)
	parts := make([]string, len(ks))
	for i, k := range ks {
		var v string
		switch x := s[k].(type) {
		case bool:
			v = "FB " + coqBool(x)
		case string:
			v = "FS " + coqStr(x)
		case int:
			v = fmt.Sprintf("FZ (%d)", x)
		case tokVal:
			if x {
				v = "FT (Some 0)"
			} else {
				v = "FT None"
			}
		default:
			v = "FS " + coqStr(fmt.Sprintf("<<%T>>", x))
		}
		parts[i] = "(\"" + k + "\", " + v + ")"
	}
	return "[" + strings.Join(parts, ";") + "]"
}

func snapText(s map[string]interface{}) string {
	b, _ := json.Marshal(s)
	return string(b)
}

// the restore sequence: explicit calls that set every option to its default
func restoreCalls() []optCall {
	return []optCall{
		{Fn: "SetAttrPrefix", Str: "-"},
		{Fn: "IncludeTagSeqNum", Bools: []bool{false}}, {Fn: "CoerceKeysToLower", Bools: []bool{false}},
		{Fn: "CoerceKeysToSnakeCase", Bools: []bool{false}}, {Fn: "CastValuesToInt", Bools: []bool{false}},
		{Fn: "HandleXMPPStreamTag", Bools: []bool{false}}, {Fn: "DecodeSimpleValuesAsMap", Bools: []bool{false}},
		{Fn: "CastNanInf", Bools: []bool{false}}, {Fn: "CastValuesToFloat", Bools: []bool{true}}, {Fn: "CastValuesToBool", Bools: []bool{true}},
		{Fn: "XmlCheckIsValid", Bools: []bool{false}}, {Fn: "LeafUseDotNotation", Bools: []bool{false}},
		{Fn: "DisableTrimWhiteSpace", Bools: []bool{false}},
		{Fn: "XMLEscapeCharsDecoder", Bools: []bool{false}}, {Fn: "XMLEscapeChars", Bools: []bool{false}},
		{Fn: "SetGlobalKeyMapPrefix", Str: "#"}, {Fn: "SetFieldSeparator"}, {Fn: "SetArraySize", Int: 32},
		{Fn: "SetCheckTagToSkipFunc"}, {Fn: "XmlDefaultEmptyElemSyntax"}, {Fn: "assign_JsonUseNumber", Bool: false},
	}
}

var punctPool = []string{"#", "$", "%", "~", "@", "_", "!", "^", "&", "+", "="}

func (r *Rng) genBools() []bool {
	switch r.Intn(10) {
	case 0, 1, 2:
		return nil
	case 3:
		return []bool{r.chance(0.5), r.chance(0.5)} // two arguments: documented as ignored by most setters
	case 4:
		return []bool{r.chance(0.5), r.chance(0.5), r.chance(0.5)}
	}
	return []bool{r.chance(0.5)}
}

func (r *Rng) genOptCall() optCall {
	names := make([]string, 0, len(docWrites))
	for k := range docWrites {
		names = append(names, k)
	}
	sort.Strings(names)
	fn := names[r.Intn(len(names))]
	// the escaping switches and the key prefix are the interesting ones: draw them more often
	if r.chance(0.25) {
		fn = r.pick([]string{"XMLEscapeChars", "XMLEscapeCharsDecoder", "SetGlobalKeyMapPrefix", "DisableTrimWhiteSpace", "SetAttrPrefix"})
	}
	c := optCall{Fn: fn}
	if _, ok := boolSetters[fn]; ok {
		c.Bools = r.genBools()
		return c
	}
	switch fn {
	case "SetAttrPrefix":
		c.Str = r.pick([]string{"-", "@", "_", "attr_", "", "A_", "é"})
	case "PrependAttrWithHyphen", "assign_JsonUseNumber":
		c.Bool = r.chance(0.5)
	case "SetFieldSeparator":
		switch r.Intn(4) {
		case 0:
		case 1:
			c.Strs = []string{""}
		case 2:
			c.Strs = []string{r.pick([]string{"|", ";", "::", ":"})}
		default:
			c.Strs = []string{r.pick([]string{"|", ";"}), "x"}
		}
	case "SetArraySize":
		c.Int = r.pick2([]int{0, -5, 1, 31, 32, 33, 100, 4096})
	case "SetCheckTagToSkipFunc":
		c.Set = r.chance(0.5)
	case "SetGlobalKeyMapPrefix":
		c.Str = r.pick(punctPool)
	}
	return c
}

func (r *Rng) pick2(xs []int) int { return xs[r.Intn(len(xs))] }

// behaviour battery: a few decode / encode / query calls whose results must be the same in a fresh process and after restoring defaults
func battery() string {
	var sb strings.Builder
	rec := func(name string, f func() string) {
		o := protect(func() Outcome { return Outcome{Ret: f()} })
		sb.WriteString(name + "=" + o.text() + "\n")
	}
	doc := []byte(`<Doc A-b="1" x=" v "><It-em id="7">  12 </It-em><It-em>true<!--c--></It-em><e/><t>a&amp;b &lt;</t>tail</Doc>`)
	rec("NewMapXml", func() string { m, err := mxj.NewMapXml(doc); return canon(map[string]interface{}(m)) + fmt.Sprint(err) })
	rec("NewMapXmlCast", func() string {
		m, err := mxj.NewMapXml(doc, true)
		return canon(map[string]interface{}(m)) + fmt.Sprint(err)
	})
	rec("NewMapXmlSeq", func() string {
		m, err := mxj.NewMapXmlSeq(doc)
		return canon(map[string]interface{}(m)) + fmt.Sprint(err)
	})
	mv := mxj.Map{"doc": map[string]interface{}{"-a": "x<y", "#text": "t&", "k": []interface{}{"1", nil, map[string]interface{}{"z": ""}}, "n": 2.5}}
	rec("Xml", func() string { b, err := mv.Xml(); return string(b) + fmt.Sprint(err) })
	rec("XmlIndent", func() string { b, err := mv.XmlIndent("", " "); return string(b) + fmt.Sprint(err) })
	rec("Json", func() string { b, err := mv.Json(); return string(b) + fmt.Sprint(err) })
	rec("NewMapJson", func() string {
		m, err := mxj.NewMapJson([]byte(`{"a":1.50,"b":[1,"x"]}`))
		return canon(map[string]interface{}(m)) + fmt.Sprint(err)
	})
	rec("LeafPaths", func() string { l := mv.LeafPaths(); sort.Strings(l); return strings.Join(l, ",") })
	rec("LeafPathsNoAttr", func() string { l := mv.LeafPaths(true); sort.Strings(l); return strings.Join(l, ",") })
	rec("ValuesForPath", func() string {
		v, err := mv.ValuesForPath("doc.k", "z:")
		return canon(ifaceList(v)) + fmt.Sprint(err)
	})
	rec("Update", func() string {
		c, _ := mv.Copy()
		n, err := c.UpdateValuesForPath("n:3", "doc.n")
		return fmt.Sprint(n, err) + canon(map[string]interface{}(c))
	})
	ms, _ := mxj.NewMapXmlSeq(doc)
	rec("SeqXml", func() string { b, err := ms.Xml(); return string(b) + fmt.Sprint(err) })
	return sb.String()
}

// sub-batteries for the non-interference clauses
func seqJsonBattery() string {
	doc := []byte(`<Doc A-b="1"><It-em id="7">12</It-em><e/></Doc>`)
	m, err := mxj.NewMapXmlSeq(doc)
	b, err2 := m.Xml()
	mv := mxj.Map{"Doc": map[string]interface{}{"-A": "1", "K-k": []interface{}{1.5, "x"}}}
	j, err3 := mv.Json()
	mj, err4 := mxj.NewMapJson([]byte(`{"A-b":{"-C":1}}`))
	return canon(map[string]interface{}(m)) + fmt.Sprint(err) + string(b) + fmt.Sprint(err2) + string(j) + fmt.Sprint(err3) + canon(map[string]interface{}(mj)) + fmt.Sprint(err4)
}

func uncastDecodeBattery() string {
	doc := []byte(`<d a="1"><n>2.5</n><b>true</b><i>42</i><x>NaN</x></d>`)
	m, err := mxj.NewMapXml(doc)
	return canon(map[string]interface{}(m)) + fmt.Sprint(err)
}

func decodeBattery() string {
	doc := []byte(`<d a="x&amp;y"><n>  t&lt; </n><e/></d>`)
	m, err := mxj.NewMapXml(doc)
	ms, err2 := mxj.NewMapXmlSeq(doc)
	return canon(map[string]interface{}(m)) + fmt.Sprint(err) + canon(map[string]interface{}(ms)) + fmt.Sprint(err2)
}

// queries depend on no option (SetArraySize is documented as an allocation hint only): a result gathered from several
// lists, one of which straddles the 32 / 40 / 64 boundaries, must be the same in every option state (seed C18-6)
var c18QueryMap = func() mxj.Map {
	var secs []interface{}
	for i := 0; i < 3; i++ {
		var items []interface{}
		for j := 0; j < 15; j++ {
			items = append(items, fmt.Sprintf("v%d.%d", i, j))
		}
		secs = append(secs, map[string]interface{}{"item": items, "n": float64(i)})
	}
	var long []interface{}
	for j := 0; j < 70; j++ {
		long = append(long, map[string]interface{}{"k": float64(j)})
	}
	return mxj.Map{"doc": map[string]interface{}{"section": secs, "long": long}}
}()

func queryBattery() string {
	var sb strings.Builder
	for _, p := range []string{"doc.section.item", "doc.*.item", "doc.long.k", "doc.section[1].item", "*.*.*"} {
		v, err := c18QueryMap.ValuesForPath(p)
		sb.WriteString(fmt.Sprintf("%s:%d:%s:%v;", p, len(v), canonMultiset(v), err))
	}
	for _, k := range []string{"item", "k", "*"} {
		v, err := c18QueryMap.ValuesForKey(k)
		sb.WriteString(fmt.Sprintf("%s:%d:%s:%v;", k, len(v), canonMultiset(v), err))
	}
	// (LeafPaths is not part of the battery: it documents its dependence on LeafUseDotNotation and the attribute prefix)
	return sb.String()
}

type c18Case struct {
	History []optCall `json:"history"`
}

func init() {
	props["C18"] = runC18
	replays["C18"] = func(raw []byte) error {
		var c c18Case
		if err := json.Unmarshal(raw, &c); err != nil {
			return err
		}
		init0 := optSnapshot()
		for i, call := range c.History {
			o := protect(func() Outcome { call.apply(); return Outcome{} })
			fmt.Printf("%2d %s -> %s panic=%v\n", i, mustJSON(call), snapText(optSnapshot()), o.Panicked)
		}
		for _, call := range restoreCalls() {
			protect(func() Outcome { call.apply(); return Outcome{} })
		}
		fmt.Printf("after restore: %s\ninitial:       %s\nequal=%v\n", snapText(optSnapshot()), snapText(init0), reflect.DeepEqual(optSnapshot(), init0))
		return nil
	}
}

func runC18(cfg runCfg) error {
	r := newRng(cfg.seed)
	header := "From Mxj Require Import Run.RunOpts.\nLocal Open Scope string_scope.\n"
	run := newRun("C18", cfg.out, cfg.seed, cfg.shards, header, "ocase",
		"random histories (1-12 calls) of every option setter in explicit, argument-less, repeated and over-long argument forms "+
			"(attribute prefixes incl. empty / upper-case / non-ASCII, punctuation key prefixes, both escaping switches in either order, field separators, array sizes), "+
			"each started from the restored default state; after EVERY call the complete option state (hook VerifOptionState) is recorded; "+
			"non-trivial = at least 3 calls that change the state; distinct by history hash")
	init0 := optSnapshot()
	fresh := battery()
	freshSeqJson, freshUncast, freshDecode, freshQuery := seqJsonBattery(), uncastDecodeBattery(), decodeBattery(), queryBattery()
	viol := func(key, what string, c c18Case, got, want string) {
		run.violation(Violation{Key: key, What: what, Input: c, Got: got, Want: want})
	}
	n := cfg.n
	for i := 0; i < n; i++ {
		hl := 1 + r.Intn(12)
		var c c18Case
		for j := 0; j < hl; j++ {
			c.History = append(c.History, r.genOptCall())
		}
		// ---- run, recording the state after every call
		var obs []string
		changed := 0
		prev := optSnapshot()
		start := coqSnapshot(prev)
		if !reflect.DeepEqual(prev, init0) {
			viol("restore-incomplete", "the state at the start of a history is not the default state (previous restore failed)", c, snapText(prev), snapText(init0))
		}
		panicked := false
		for _, call := range c.History {
			run.count("call:" + call.Fn)
			o := protect(func() Outcome { call.apply(); return Outcome{} })
			if o.Panicked {
				obs = append(obs, "None")
				panicked = true
				viol("setter-panic", "an option setter panicked", c, o.PanicMsg, "no panic")
				break
			}
			cur := optSnapshot()
			dd := map[string]interface{}{}
			for k, v := range cur {
				if !reflect.DeepEqual(v, prev[k]) {
					dd[k] = v
				}
			}
			obs = append(obs, "Some "+coqSnapshot(dd))
			run.sum.OracleEvals++
			// frame: only the documented variables change
			doc := map[string]bool{}
			for _, v := range docWrites[call.Fn] {
				doc[v] = true
			}
			diff := false
			for k, v := range cur {
				if !reflect.DeepEqual(v, prev[k]) {
					diff = true
					if !doc[k] {
						viol("frame:"+call.Fn, "a setter changed an option variable it does not document", c, k+"="+fmt.Sprint(v), k+"="+fmt.Sprint(prev[k]))
					}
				}
			}
			if diff {
				changed++
			}
			// argument-less form of a toggle setter toggles exactly its flag
			if flag, ok := toggles[call.Fn]; ok && len(call.Bools) == 0 {
				if cur[flag] != !prev[flag].(bool) {
					viol("toggle:"+call.Fn, "the argument-less form did not toggle", c, fmt.Sprint(cur[flag]), fmt.Sprint(!prev[flag].(bool)))
				}
			}
			if flag, ok := toggles[call.Fn]; ok && len(call.Bools) == 1 && cur[flag] != call.Bools[0] {
				viol("set:"+call.Fn, "the one-argument form did not set the flag", c, fmt.Sprint(cur[flag]), fmt.Sprint(call.Bools[0]))
			}
			if call.Fn == "DisableTrimWhiteSpace" && len(call.Bools) == 0 && cur["disableTrimWhiteSpace"] != true {
				viol("noarg:DisableTrimWhiteSpace", "DisableTrimWhiteSpace() must disable trimming", c, fmt.Sprint(cur["disableTrimWhiteSpace"]), "true")
			}
			if call.Fn == "SetFieldSeparator" && (len(call.Strs) == 0 || call.Strs[0] == "") && cur["fieldSep"] != ":" {
				viol("noarg:SetFieldSeparator", "SetFieldSeparator() must reset the separator", c, fmt.Sprint(cur["fieldSep"]), ":")
			}
			if cur["xmlEscapeChars"] == true && cur["xmlEscapeCharsDecoder"] == true {
				viol("double-escape-state", "both escaping switches are on", c, snapText(cur), "at most one")
			}
			if cur["lenAttrPrefix"] != len(cur["attrPrefix"].(string)) {
				viol("lenAttrPrefix", "lenAttrPrefix is not the length of attrPrefix", c, snapText(cur), "")
			}
			// idempotence of explicit forms
			explicit := true
			if _, ok := boolSetters[call.Fn]; ok && len(call.Bools) != 1 {
				explicit = false
			}
			if call.Fn == "SetFieldSeparator" && len(call.Strs) != 1 {
				explicit = false
			}
			if explicit {
				call.apply()
				again := optSnapshot()
				if !reflect.DeepEqual(again, cur) {
					viol("idempotent:"+call.Fn, "repeating an explicit setter call changed the state", c, snapText(again), snapText(cur))
				}
			}
			prev = cur
		}
		// ---- non-interference on the state the history reached (before restoring)
		if !panicked && r.chance(0.3) {
			if got := queryBattery(); got != freshQuery {
				viol("interference:options->queries", "an option state (array size, prefixes, switches) changed the result of path / key / leaf queries", c, got, freshQuery)
			}
			run.sum.OracleEvals++
		}
		if !panicked {
			st := optSnapshot()
			// attribute prefix and case folding do not affect the sequence codec or JSON: neutralise everything else
			save := st
			_ = save
			if r.chance(0.3) {
				keep := []optCall{}
				for _, call := range restoreCalls() {
					if call.Fn != "SetAttrPrefix" && call.Fn != "CoerceKeysToLower" {
						keep = append(keep, call)
					}
				}
				for _, call := range keep {
					call.apply()
				}
				if got := seqJsonBattery(); got != freshSeqJson {
					viol("interference:attrprefix-lowercase->seq-json", "attribute prefix / case folding changed the sequence codec or JSON", c, got, freshSeqJson)
				}
				run.sum.OracleEvals++
			}
		}
		if !panicked && r.chance(0.3) {
			// cast options do not affect un-cast decoding; encoder switches do not affect decoding
			for _, call := range restoreCalls() {
				switch call.Fn {
				case "CastValuesToInt", "CastValuesToFloat", "CastValuesToBool", "CastNanInf", "SetCheckTagToSkipFunc",
					"XMLEscapeChars", "XmlCheckIsValid", "XmlDefaultEmptyElemSyntax":
				default:
					call.apply()
				}
			}
			if got := uncastDecodeBattery(); got != freshUncast {
				viol("interference:cast->uncast-decode", "cast options changed un-cast decoding", c, got, freshUncast)
			}
			if got := decodeBattery(); got != freshDecode {
				viol("interference:encoder-switch->decode", "encoder switches changed decoding", c, got, freshDecode)
			}
			run.sum.OracleEvals++
		}
		// ---- restore and compare with the fresh process
		for _, call := range restoreCalls() {
			protect(func() Outcome { call.apply(); return Outcome{} })
		}
		after := optSnapshot()
		run.sum.OracleEvals++
		if !reflect.DeepEqual(after, init0) {
			viol("restore-defaults", "setting every option back to its default does not restore the initial state", c, snapText(after), snapText(init0))
			// force the state back so that later cases are not polluted: best effort through the setters already done
		}
		if i%20 == 0 || !reflect.DeepEqual(after, init0) {
			if got := battery(); got != fresh {
				viol("restore-behaviour", "after restoring defaults decoders / encoders / queries behave differently from a fresh process", c, got, fresh)
			}
			run.sum.OracleEvals++
		}
		term := fmt.Sprintf("{| oc_init := %s; oc_hist := [%s]; oc_obs := [%s] |}", start, joinCalls(c.History), strings.Join(obs, ";"))
		run.add(term, c, strings.Join(obs, " / "), changed >= 3)
	}
	_ = os.Stdout
	return run.finish()
}

func joinCalls(cs []optCall) string {
	p := make([]string, len(cs))
	for i, c := range cs {
		p[i] = c.coq()
	}
	return strings.Join(p, ";")
}
