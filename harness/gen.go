package main

import (
	"fmt"
	"sort"
	"strings"
)

// ---------------------------------------------------------------- JSON/XML-shaped Maps

var keyPool = []string{"a", "b", "c", "k", "list", "items", "sub", "-id", "#text", "d-e", "K"}
var strPool = []string{"x", "y", "1", "2.5", "true", "", " u ", "a.b", "v:w", "<&>"}

type genCfg struct {
	maxDepth    int
	maxFan      int
	nestedLists bool // allow a list directly inside a list
	emptyLists  bool
	oddKeys     bool // keys containing '.', '[', '*', or empty
	wide        bool // occasionally very wide containers (beyond the initial result capacity)
}

func (r *Rng) genScalar() interface{} {
	switch r.Intn(10) {
	case 0:
		return nil
	case 1:
		return r.Intn(2) == 0
	case 2, 3:
		return float64(r.Intn(5))
	case 4:
		return 2.5
	default:
		return r.pick(strPool)
	}
}

func (r *Rng) genKey(cfg genCfg) string {
	if cfg.oddKeys && r.chance(0.08) {
		return r.pick([]string{"", "a.b", "x[0]", "*", "[", "!k", " id", "name ", " ", "k]", "x]y", "]"})
	}
	return r.pick(keyPool)
}

func (r *Rng) genMap(cfg genCfg, depth int) map[string]interface{} {
	n := 1 + r.Intn(cfg.maxFan)
	if cfg.wide && r.chance(0.02) {
		n = 33 + r.Intn(20)
	}
	m := make(map[string]interface{}, n)
	for i := 0; i < n; i++ {
		k := r.genKey(cfg)
		if n > len(keyPool) {
			m[fmt.Sprintf("w%d", i)] = r.genScalar()
			continue
		}
		m[k] = r.genVal(cfg, depth+1, false)
	}
	return m
}

func (r *Rng) genList(cfg genCfg, depth int) []interface{} {
	n := r.Intn(cfg.maxFan + 1)
	if n == 0 && !cfg.emptyLists {
		n = 1
	}
	if cfg.wide && r.chance(0.03) {
		n = 33 + r.Intn(20)
		if r.chance(0.4) {
			n = 65 + r.Intn(80) // beyond twice the initial result capacity
		}
	}
	l := make([]interface{}, 0, n)
	if n > 32 {
		for i := 0; i < n; i++ {
			if r.chance(0.5) {
				l = append(l, map[string]interface{}{"k": r.genScalar()})
			} else {
				l = append(l, r.genScalar())
			}
		}
		return l
	}
	// lists of similar maps are the common XML shape
	homog := r.chance(0.6)
	var shape []string
	if homog {
		for i := 0; i < 1+r.Intn(3); i++ {
			shape = append(shape, r.genKey(cfg))
		}
	}
	for i := 0; i < n; i++ {
		if homog && depth < cfg.maxDepth {
			m := map[string]interface{}{}
			for _, k := range shape {
				if r.chance(0.85) {
					m[k] = r.genVal(cfg, depth+2, false)
				}
			}
			if len(m) == 0 {
				m[shape[0]] = r.genScalar()
			}
			l = append(l, m)
		} else {
			l = append(l, r.genVal(cfg, depth+1, true))
		}
	}
	return l
}

func (r *Rng) genVal(cfg genCfg, depth int, inList bool) interface{} {
	if depth >= cfg.maxDepth {
		return r.genScalar()
	}
	switch x := r.Intn(10); {
	case x < 4:
		return r.genScalar()
	case x < 7:
		if cfg.emptyLists && r.chance(0.06) {
			return map[string]interface{}{} // JSON {} below the top level
		}
		return r.genMap(cfg, depth)
	default:
		if inList && !cfg.nestedLists {
			return r.genMap(cfg, depth)
		}
		return r.genList(cfg, depth)
	}
}

// ---------------------------------------------------------------- paths

// keyPaths lists the dot paths of the tree (lists transparent), as PathsForKey sees them.
func keyPaths(v interface{}, prefix []string, out *[][]string) {
	switch x := v.(type) {
	case map[string]interface{}:
		ks := make([]string, 0, len(x))
		for k := range x {
			ks = append(ks, k)
		}
		sort.Strings(ks)
		for _, k := range ks {
			p := append(append([]string{}, prefix...), k)
			*out = append(*out, p)
			keyPaths(x[k], p, out)
		}
	case []interface{}:
		for _, e := range x {
			keyPaths(e, prefix, out)
		}
	}
}

// genPath returns a path string; indexed says whether [i] steps may appear,
// wild whether "*" steps may.
func (r *Rng) genPath(m map[string]interface{}, indexed, wild, malformed bool) string {
	var all [][]string
	keyPaths(m, nil, &all)
	var segs []string
	if len(all) > 0 && r.chance(0.85) {
		p := all[r.Intn(len(all))]
		segs = append([]string{}, p...)
		if r.chance(0.3) && len(segs) > 1 {
			segs = segs[:1+r.Intn(len(segs)-1)]
		}
	} else {
		n := 1 + r.Intn(3)
		for i := 0; i < n; i++ {
			segs = append(segs, r.pick(keyPool))
		}
	}
	// mutations
	if r.chance(0.15) {
		segs[r.Intn(len(segs))] = r.pick([]string{"zz", "nokey", "a", "k"})
	}
	if wild {
		for i := range segs {
			if r.chance(0.2) {
				segs[i] = "*"
			}
		}
	}
	if indexed {
		p := 0.35
		for i := range segs {
			if segs[i] != "*" && r.chance(p) {
				segs[i] = fmt.Sprintf("%s[%d]", segs[i], r.Intn(3))
			}
		}
	}
	path := strings.Join(segs, ".")
	if malformed {
		switch r.Intn(12) {
		case 0:
			path += "."
		case 1:
			path = "." + path
		case 2:
			path = strings.Replace(path, ".", "..", 1)
		case 3:
			path += "[-1]"
		case 4:
			path += "[99999999999]"
		case 5:
			path += "["
		case 6:
			path += "[]"
		case 7:
			path += "[x]"
		case 8:
			path += "[1"
		case 9:
			path = ""
		case 10:
			path += "[2147483647]"
		case 11:
			path = "*[0]." + path
		}
	}
	return path
}

// subKeyCands collects key:value pairs occurring in maps of the tree.
func subKeyCands(v interface{}, out *[][2]string) {
	switch x := v.(type) {
	case map[string]interface{}:
		for k, e := range x {
			switch s := e.(type) {
			case string:
				*out = append(*out, [2]string{k, s})
			case float64:
				*out = append(*out, [2]string{k, fltText(s) + "\x00float"})
			case bool:
				*out = append(*out, [2]string{k, fmt.Sprint(s) + "\x00bool"})
			}
			subKeyCands(e, out)
		}
	case []interface{}:
		for _, e := range x {
			subKeyCands(e, out)
		}
	}
}

// genSubKeys returns 0..2 sub-key specs using separator sep.
func (r *Rng) genSubKeys(m map[string]interface{}, sep string, malformed bool) []string {
	if r.chance(0.55) {
		return nil
	}
	var cands [][2]string
	subKeyCands(m, &cands)
	sort.Slice(cands, func(i, j int) bool {
		if cands[i][0] != cands[j][0] {
			return cands[i][0] < cands[j][0]
		}
		return cands[i][1] < cands[j][1]
	})
	n := 1
	if r.chance(0.3) {
		n = 2 + r.Intn(2)
	}
	var out []string
	// conditions that an ABSENT key satisfies: a map with fewer entries than conditions can still match
	if !malformed && r.chance(0.2) {
		for i := 0; i < 1+r.Intn(3); i++ {
			out = append(out, "!"+r.pick([]string{"zz", "deleted", "hidden", "yy"})+sep+"*")
		}
	}
	for i := 0; i < n; i++ {
		var k, v, t string
		if len(cands) > 0 && r.chance(0.8) {
			c := cands[r.Intn(len(cands))]
			k = c[0]
			parts := strings.SplitN(c[1], "\x00", 2)
			v = parts[0]
			if len(parts) == 2 {
				t = parts[1]
			}
		} else {
			k = r.pick(keyPool)
			v = r.pick(strPool)
		}
		if r.chance(0.2) {
			v = "*"
			t = ""
		}
		if r.chance(0.15) {
			v = r.pick([]string{"1", "true", "zz", "2.5"})
		}
		if r.chance(0.1) {
			t = r.pick([]string{"string", "text", "float", "num", "bool", "boolean", "numeric"})
		}
		if strings.Contains(v, sep) || strings.Contains(k, sep) {
			continue
		}
		if r.chance(0.25) {
			k = "!" + k
		}
		spec := k + sep + v
		if t != "" {
			spec += sep + t
		}
		if malformed {
			switch r.Intn(8) {
			case 0:
				spec = sep + v // empty sub-key name
			case 1:
				spec = k
			case 2:
				spec = k + sep + v + sep + "zzz"
			case 3:
				spec = k + sep + v + sep + "bool" + sep + "x"
			case 4:
				spec = "!" + sep + v
			case 5:
				spec = k + sep + "notnum" + sep + "float"
			case 6:
				spec = k + sep + "maybe" + sep + "bool"
			}
		}
		out = append(out, spec)
	}
	return out
}

func pathHasStar(path string) bool {
	for _, seg := range strings.Split(path, ".") {
		if seg == "*" || strings.HasPrefix(seg, "*[") {
			return true
		}
	}
	return false
}
