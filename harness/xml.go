package main

import (
	"bytes"
	"encoding/xml"
	"fmt"
	"io"
	"strings"

	mxj "github.com/clbanning/mxj/v2"
)

// ---------------------------------------------------------------- option vectors

type xOpts struct {
	AP        string   `json:"attrPrefix"`
	TSeq      bool     `json:"includeTagSeqNum,omitempty"`
	Lower     bool     `json:"lowerCase,omitempty"`
	Snake     bool     `json:"snakeCase,omitempty"`
	KeepSp    bool     `json:"disableTrimWhiteSpace,omitempty"`
	SimpleMap bool     `json:"decodeSimpleValuesAsMap,omitempty"`
	CInt      bool     `json:"castToInt,omitempty"`
	CFloat    bool     `json:"castToFloat"`
	CBool     bool     `json:"castToBool"`
	CNanInf   bool     `json:"castNanInf,omitempty"`
	XMPP      bool     `json:"xmpp,omitempty"`
	GoEmpty   bool     `json:"goEmptyElemSyntax,omitempty"`
	Chk       bool     `json:"xmlCheckIsValid,omitempty"`
	Esc       bool     `json:"xmlEscapeChars,omitempty"`
	EscDec    bool     `json:"xmlEscapeCharsDecoder,omitempty"`
	KP        string   `json:"globalKeyPrefix"`
	Skip      []string `json:"skipTags,omitempty"`
}

func defaultXOpts() xOpts { return xOpts{AP: "-", CFloat: true, CBool: true, KP: "#"} }

// applyCount selects among EQUIVALENT ways of reaching the same option state (explicit value, toggle form, the
// hyphen switch instead of SetAttrPrefix, a redundant call while the other escaping switch is on): every check that
// sets options thereby also exercises the setters' documented argument-less and coupled forms.
var applyCount int

// apply sets every package-level option through the exported setters.
func (o xOpts) apply() {
	applyCount++
	v := int(hash64(fmt.Sprint("apply", applyCount)) % 1024) // decorrelated from the apply / restore alternation of the callers
	// a PRE-HISTORY every fourth time: other option values are in force and documents with the generators' names and
	// values are decoded before the requested options are set.  Nothing of it may survive (no cache keyed by name, tag
	// or text may outlive the options it was filled under: seeds C01-1, C01-5, C14-2, C14-6, C10-2).
	if v%4 == 0 {
		mxj.CoerceKeysToLower(true)
		mxj.CoerceKeysToSnakeCase(true)
		mxj.CastValuesToInt(true)
		mxj.SetCheckTagToSkipFunc(func(string) bool { return v%8 == 0 })
		for _, d := range []string{`<A-b Name="1" A-t="2" id="7" x="true" seq="2.5"><Ab x_y="3">1</Ab><ns:a ns:k="v">T</ns:a><x_y>2.5</x_y><item>007</item><data>true</data><a>1</a><b>1</b><c>1</c></A-b>`} {
			mxj.NewMapXml([]byte(d), true)
			mxj.NewMapXmlSeq([]byte(d), true)
		}
		mxj.CoerceKeysToLower(o.Lower) // exactly one coercion may stay on: set them one after the other, decoding in between
		mxj.NewMapXml([]byte(`<A-b Name="1" A-t="2"><Ab x_y="3">1</Ab><ns:a ns:k="v">T</ns:a></A-b>`))
	}
	switch {
	case o.AP == "" && v%2 == 0:
		mxj.SetAttrPrefix("zz") // a non-empty prefix first: the hyphen switch must clear whatever was set
		mxj.PrependAttrWithHyphen(false)
	case o.AP == "-" && v%2 == 0:
		mxj.PrependAttrWithHyphen(true)
	default:
		mxj.SetAttrPrefix(o.AP)
	}
	mxj.IncludeTagSeqNum(o.TSeq)
	mxj.CoerceKeysToLower(o.Lower)
	mxj.CoerceKeysToSnakeCase(o.Snake)
	mxj.DisableTrimWhiteSpace(o.KeepSp)
	mxj.DecodeSimpleValuesAsMap(o.SimpleMap)
	mxj.CastValuesToInt(o.CInt)
	mxj.CastValuesToFloat(o.CFloat)
	mxj.CastValuesToBool(o.CBool)
	mxj.CastNanInf(o.CNanInf)
	mxj.HandleXMPPStreamTag(o.XMPP)
	if o.GoEmpty {
		mxj.XmlGoEmptyElemSyntax()
	} else {
		mxj.XmlDefaultEmptyElemSyntax()
	}
	mxj.XmlCheckIsValid(o.Chk)
	switch v % 4 {
	case 1:
		// the decoder switch first; encoder escaping through the argument-less toggle from a known state
		mxj.XMLEscapeCharsDecoder(false)
		mxj.XMLEscapeChars(false)
		mxj.XMLEscapeCharsDecoder(o.EscDec)
		if o.Esc {
			mxj.XMLEscapeChars() // off -> on, unless decoder-side escaping is on (then it stays off)
		}
	default:
		mxj.XMLEscapeCharsDecoder(false)
		mxj.XMLEscapeChars(o.Esc)
		if o.EscDec {
			mxj.XMLEscapeCharsDecoder(true)
			// documented: a request to switch encoder-side escaping on is ignored while decoder-side escaping is on
			if v%4 == 2 {
				mxj.XMLEscapeChars()
			} else if v%4 == 3 {
				mxj.XMLEscapeChars(true)
			}
		}
	}
	mxj.SetGlobalKeyMapPrefix(o.KP)
	if len(o.Skip) > 0 {
		skip := map[string]bool{}
		for _, t := range o.Skip {
			skip[t] = true
		}
		mxj.SetCheckTagToSkipFunc(func(t string) bool { return skip[t] })
	} else {
		mxj.SetCheckTagToSkipFunc(nil)
	}
}

func restoreDefaults() { defaultXOpts().apply() }

func (o xOpts) coq() string {
	return fmt.Sprintf("(mko %s %s %s %s %s %s %s %s %s %s %s %s %s %s %s %s)", coqStr(o.AP),
		coqBool(o.TSeq), coqBool(o.Lower), coqBool(o.Snake), coqBool(o.KeepSp), coqBool(o.SimpleMap),
		coqBool(o.CInt), coqBool(o.CFloat), coqBool(o.CBool), coqBool(o.CNanInf), coqBool(o.XMPP),
		coqBool(o.GoEmpty), coqBool(o.Chk), coqBool(o.Esc && !o.EscDec), coqBool(o.EscDec), coqStr(o.KP))
}

func (o xOpts) textK() string { return o.KP + "text" }

// genDecOpts draws a decoder option vector (all 2^k boolean combinations reachable).
func (r *Rng) genDecOpts() xOpts {
	o := defaultXOpts()
	o.AP = r.pick([]string{"-", "-", "@", "_", "attr_", "", "A_", "--", "@@"})
	o.TSeq = r.chance(0.2)
	o.Lower = r.chance(0.3)
	o.Snake = r.chance(0.3)
	o.KeepSp = r.chance(0.3)
	o.SimpleMap = r.chance(0.3)
	o.EscDec = r.chance(0.25)
	o.KP = r.pick([]string{"#", "#", "#", "$", "%", "~"})
	if o.KP == o.AP {
		o.KP = "#"
	}
	return o
}

// ---------------------------------------------------------------- abstract documents

type xnode struct {
	Name  string      `json:"name,omitempty"` // possibly "ns:local"
	Attrs [][2]string `json:"attrs,omitempty"`
	Kids  []*xnode    `json:"kids,omitempty"`
	Text  string      `json:"text,omitempty"` // text node when Name == ""
	Kind  string      `json:"kind,omitempty"` // "", "comment", "pi", "directive" for non-element, non-text nodes
}

func (n *xnode) isText() bool { return n.Name == "" && n.Kind == "" }

var elemNames = []string{"a", "b", "c", "item", "A-b", "Ab", "x_y", "ns:a", "ns:b", "data"}
var attrNames = []string{"id", "x", "A-t", "ns:k", "seq", "Name"}
var textPool = []string{"x", "hello world", " u ", "1", "2.5", "true", "T", "NaN", "-inf", "1e3",
	"<&>\"'", "a&amp;b", "&#x41;", "é€", "l1\nl2", "\ttab", "]]>", "<![CDATA[", "0x1F", "007", "-0", "9223372036854775808", "false", "Infinity",
	"-9223372036854775808", "18446744073709551615", "-1234567890123456789", "00000000000000000042", "9223372036854775807", "18446744073709551616", "",
	// Unicode white space that is NOT in the decoder's trim set (seed C01-3: strings.TrimSpace instead of Trim(trimRunes))
	"\u00a0x\u00a0", "\u2003y", "z\u0085", "\u3000", " \u00a0 w \u2028",
	// an escapable character FOLLOWED by multi-byte characters (seeds C01-6, C03-1, C05-2: byte / rune confusion in escapeChars)
	"th\u00e9 & caf\u00e9", "<\u00e9>\u20ac", "x'\u20ac\"\u00fc"}

type docCfg struct {
	maxDepth  int
	maxFan    int
	mixedText bool // text beside children allowed (one non-blank run per element)
	noise     bool // comments / PIs / whitespace between elements
	texts     []string
}

func (r *Rng) genElem(cfg docCfg, depth int) *xnode {
	n := &xnode{Name: r.pick(elemNames)}
	na := 0
	if r.chance(0.45) {
		na = 1 + r.Intn(3)
	}
	seen := map[string]bool{}
	for i := 0; i < na; i++ {
		an := r.pick(attrNames)
		if seen[an] {
			continue
		}
		seen[an] = true
		n.Attrs = append(n.Attrs, [2]string{an, r.pick(cfg.texts)})
	}
	nk := 0
	if depth < cfg.maxDepth {
		nk = r.Intn(cfg.maxFan + 1)
	}
	hasText := false
	if nk == 0 {
		if r.chance(0.75) {
			n.Kids = append(n.Kids, &xnode{Text: r.pick(cfg.texts)})
		}
		return n
	}
	// children drawn from a small name set to force repeats and interleavings (a, b, a)
	names := []string{r.pick(elemNames), r.pick(elemNames), r.pick(elemNames)}
	textAt := -1
	if cfg.mixedText && r.chance(0.3) {
		textAt = r.Intn(nk + 1)
	}
	for i := 0; i <= nk; i++ {
		if i == textAt && !hasText {
			n.Kids = append(n.Kids, &xnode{Text: r.pick(cfg.texts)})
			hasText = true
		}
		if i < nk {
			c := r.genElem(cfg, depth+1)
			c.Name = names[r.Intn(len(names))]
			n.Kids = append(n.Kids, c)
		}
	}
	return n
}

func xmlEscText(s string) string {
	s = strings.ReplaceAll(s, "&", "&amp;")
	s = strings.ReplaceAll(s, "<", "&lt;")
	s = strings.ReplaceAll(s, ">", "&gt;")
	return s
}

func xmlEscAttr(s string, q byte) string {
	s = strings.ReplaceAll(s, "&", "&amp;")
	s = strings.ReplaceAll(s, "<", "&lt;")
	s = strings.ReplaceAll(s, ">", "&gt;")
	s = strings.ReplaceAll(s, "\n", "&#xA;")
	s = strings.ReplaceAll(s, "\t", "&#x9;")
	if q == '"' {
		s = strings.ReplaceAll(s, `"`, "&quot;")
	} else {
		s = strings.ReplaceAll(s, "'", "&apos;")
	}
	return s
}

// render writes the tree as XML text with random lexical choices (quotes, CDATA, entities, whitespace, noise).
func (r *Rng) render(n *xnode, sb *strings.Builder, cfg docCfg, root bool) {
	if n.isText() {
		t := n.Text
		switch {
		case !strings.Contains(t, "]]>") && r.chance(0.25):
			sb.WriteString("<![CDATA[" + t + "]]>")
		case r.chance(0.2):
			sb.WriteString(strings.ReplaceAll(xmlEscText(t), "\"", "&quot;"))
		default:
			sb.WriteString(xmlEscText(t))
		}
		return
	}
	sb.WriteString("<" + n.Name)
	if root {
		sb.WriteString(` xmlns:ns="urn:ns"`)
	}
	for _, a := range n.Attrs {
		q := byte('"')
		if r.chance(0.3) {
			q = '\''
		}
		sb.WriteString(" " + a[0] + "=" + string(q) + xmlEscAttr(a[1], q) + string(q))
	}
	if len(n.Kids) == 0 && r.chance(0.5) {
		sb.WriteString("/>")
		return
	}
	sb.WriteString(">")
	onlyText := len(n.Kids) == 1 && n.Kids[0].isText()
	for _, k := range n.Kids {
		if cfg.noise && !onlyText {
			switch r.Intn(8) {
			case 0:
				sb.WriteString("\n  ")
			case 1:
				sb.WriteString("<!-- note -->")
			case 2:
				sb.WriteString("<?pi data?>")
			case 3:
				sb.WriteString(" ")
			}
		}
		r.render(k, sb, cfg, false)
	}
	if cfg.noise && !onlyText && r.chance(0.3) {
		sb.WriteString("\n")
	}
	sb.WriteString("</" + n.Name + ">")
}

func (r *Rng) renderDoc(n *xnode, cfg docCfg) string {
	var sb strings.Builder
	if r.chance(0.3) {
		sb.WriteString(`<?xml version="1.0" encoding="UTF-8"?>` + "\n")
	}
	if cfg.noise && r.chance(0.2) {
		sb.WriteString("<!-- prolog -->\n")
	}
	r.render(n, &sb, cfg, true)
	if r.chance(0.2) {
		sb.WriteString("\n")
	}
	return sb.String()
}

// ---------------------------------------------------------------- tokens (what encoding/xml returns)

type gtok struct {
	Kind  string // start end char comment pi directive
	Space string
	Local string
	Attrs [][3]string
	Data  string
	Inst  string
}

// tokenize runs the real tokenizer (Token or RawToken) to the end of the input.
func tokenize(doc []byte, raw bool) ([]gtok, error) {
	d := xml.NewDecoder(bytes.NewReader(doc))
	var out []gtok
	for {
		var t xml.Token
		var err error
		if raw {
			t, err = d.RawToken()
		} else {
			t, err = d.Token()
		}
		if err != nil {
			if err == io.EOF {
				return out, nil
			}
			return out, err
		}
		switch x := t.(type) {
		case xml.StartElement:
			g := gtok{Kind: "start", Space: x.Name.Space, Local: x.Name.Local}
			for _, a := range x.Attr {
				g.Attrs = append(g.Attrs, [3]string{a.Name.Space, a.Name.Local, a.Value})
			}
			out = append(out, g)
		case xml.EndElement:
			out = append(out, gtok{Kind: "end", Space: x.Name.Space, Local: x.Name.Local})
		case xml.CharData:
			out = append(out, gtok{Kind: "char", Data: string(x)})
		case xml.Comment:
			out = append(out, gtok{Kind: "comment", Data: string(x)})
		case xml.ProcInst:
			out = append(out, gtok{Kind: "pi", Data: x.Target, Inst: string(x.Inst)})
		case xml.Directive:
			out = append(out, gtok{Kind: "directive", Data: string(x)})
		}
	}
}

func coqToks(ts []gtok) string {
	parts := make([]string, len(ts))
	for i, t := range ts {
		switch t.Kind {
		case "start":
			as := make([]string, len(t.Attrs))
			for j, a := range t.Attrs {
				as[j] = "(" + coqStr(a[0]) + "," + coqStr(a[1]) + "," + coqStr(a[2]) + ")"
			}
			parts[i] = "st " + coqStr(t.Space) + " " + coqStr(t.Local) + " [" + strings.Join(as, ";") + "]"
		case "end":
			parts[i] = "en " + coqStr(t.Space) + " " + coqStr(t.Local)
		case "char":
			parts[i] = "TChar " + coqStr(t.Data)
		case "comment":
			parts[i] = "TComment " + coqStr(t.Data)
		case "pi":
			parts[i] = "TProcInst " + coqStr(t.Data) + " " + coqStr(t.Inst)
		case "directive":
			parts[i] = "TDirective " + coqStr(t.Data)
		}
	}
	return "[" + strings.Join(parts, ";") + "]"
}

func coqTerm(err error) string {
	if err == nil {
		return "TermEOF"
	}
	return "TermErr"
}

// xout renders an outcome for RunXml.
func xoutRet(o Outcome) string {
	if o.Panicked {
		return "XPanicked"
	}
	if o.Err != nil {
		return "(XFail " + errClass(o.Err) + ")"
	}
	return "(XRet " + coqVal(o.Ret) + ")"
}

func xoutBytes(o Outcome) string {
	if o.Panicked {
		return "XPanicked"
	}
	if o.Err != nil {
		return "(XFail " + errClass(o.Err) + ")"
	}
	b, _ := o.Ret.([]byte)
	return "(XBytes " + coqStr(string(b)) + ")"
}

const xmlHeader = "From Mxj Require Import Run.RunXml.\nLocal Open Scope string_scope.\n"

// castCands lists every string the decoder may hand to ParseFloat (all attribute values and text runs, trimmed and untrimmed, escaped).
func castCands(ts []gtok) []string {
	var out []string
	add := func(s string) {
		out = append(out, s, strings.Trim(s, "\t\r\b\n "), strings.Trim(s, "\t\r\b\n"))
	}
	for _, t := range ts {
		switch t.Kind {
		case "start":
			for _, a := range t.Attrs {
				add(a[2])
			}
		case "char":
			add(t.Data)
		}
	}
	return out
}

// decodeXml runs NewMapXml under the options.
func decodeXml(o xOpts, doc []byte, cast bool) Outcome {
	o.apply()
	defer restoreDefaults()
	return protect(func() Outcome {
		var m mxj.Map
		var err error
		if cast {
			m, err = mxj.NewMapXml(doc, true)
		} else {
			m, err = mxj.NewMapXml(doc)
		}
		if err != nil {
			return Outcome{Err: err}
		}
		return Outcome{Ret: map[string]interface{}(m)}
	})
}

type xmlDecCase struct {
	Kind string `json:"kind"` // "decode"
	Opts xOpts  `json:"opts"`
	Cast bool   `json:"cast"`
	Doc  string `json:"doc"`
}

func (c xmlDecCase) run() (Outcome, string) {
	ts, terr := tokenize([]byte(c.Doc), false)
	o := decodeXml(c.Opts, []byte(c.Doc), c.Cast)
	term := fmt.Sprintf("XDec %s %s %s %s %s %s %s", c.Opts.coq(), coqBool(c.Cast), pfTable(castCands(ts)),
		coqStrs(c.Opts.Skip), coqToks(ts), coqTerm(terr), xoutRet(o))
	return o, term
}
