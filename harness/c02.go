package main

import (
	"encoding/json"
	"fmt"
	"math"
	"strconv"
	"strings"

	mxj "github.com/clbanning/mxj/v2"
)

// C02: XML -> Map -> XML -> Map is a fixed point; the re-encoded XML is well formed.
//
// Per generated (options, cast, document): m1 = NewMapXml(doc), x1 = m1.Xml(), x2 = m1.XmlIndent(prefix, indent),
// m2 = NewMapXml(x1), m2' = NewMapXml(x2), all under the same symmetric option vector.
// Correspondence (Run/RunXml2.v): both decodes (XDec on the real token streams), the bytes of x1 (XEnc) and the
// real token streams of x1 and x2 (XToks).  Oracle: x well formed, one root, m2 == m1 and m2' == m1.

var c02Texts = []string{"x", "hello world", " u ", "1", "2.5", "1e3", "007", "-0", "0x1F", "true", "T", "false", "NaN", "-inf", "Infinity",
	"9223372036854775808", " 12 ", "<&>\"'", "a&amp;b", "]]>", "&#x41;", "<![CDATA[", "é€", "l1\nl2", "\ttab", "tail\t", "a < b && c > d", "'single' \"double\""}

// some prefixes are proper prefixes of others: a Map key built under one of them must not survive a change to the other (seed C02-8)
var c02AttrPrefixes = []string{"-", "-", "@", "_", "attr_", "A_", "--", "@@", "__"}
var c02KeyPrefixes = []string{"#", "#", "#", "$", "%", "~"}

// genC02Opts: the symmetric option cube (integer cast and tag sequence numbers excluded).
func (r *Rng) genC02Opts() (xOpts, bool) {
	o := defaultXOpts()
	o.AP = r.pick(c02AttrPrefixes)
	o.KP = r.pick(c02KeyPrefixes)
	o.Lower = r.chance(0.3)
	o.Snake = r.chance(0.3)
	o.KeepSp = r.chance(0.3)
	o.SimpleMap = r.chance(0.3)
	o.EscDec = r.chance(0.3)
	o.Esc = !o.EscDec // value escaping enabled: by the encoder, or already done by the decoder
	cast := r.chance(0.5)
	if cast {
		o.CFloat = r.chance(0.8)
		o.CBool = r.chance(0.8)
		o.CNanInf = r.chance(0.3)
	}
	return o, cast
}

// c02NameClash: some element name's key begins with the attribute prefix (outside the C02 domain).
func c02NameClash(o xOpts, n *xnode) bool {
	if n.isText() || n.Kind != "" {
		return false
	}
	k := specElemKey(o, n.Name)
	if len(k) > len(o.AP) && strings.HasPrefix(k, o.AP) {
		return true
	}
	for _, c := range n.Kids {
		if c02NameClash(o, c) {
			return true
		}
	}
	return false
}

// c02CoqVal is coqVal with negative zero kept apart (the encoder prints it as "-0").
func c02CoqVal(v interface{}) string {
	switch x := v.(type) {
	case float64:
		if x == 0 && math.Signbit(x) {
			return "(VFlt " + coqStr("-0") + ")"
		}
		return coqVal(x)
	case map[string]interface{}:
		ks := make([]string, 0, len(x))
		for k := range x {
			ks = append(ks, k)
		}
		sortStrings(ks)
		parts := make([]string, len(ks))
		for i, k := range ks {
			parts[i] = "(" + coqStr(k) + "," + c02CoqVal(x[k]) + ")"
		}
		return "(VMap [" + strings.Join(parts, ";") + "])"
	case []interface{}:
		parts := make([]string, len(x))
		for i, e := range x {
			parts[i] = c02CoqVal(e)
		}
		return "(VList [" + strings.Join(parts, ";") + "])"
	}
	return coqVal(v)
}

type c02Case struct {
	Stage  string `json:"stage"` // decode1 | bytes | toks | toks-indent | decode2-compact | decode2-indent
	Opts   xOpts  `json:"opts"`
	Cast   bool   `json:"cast"`
	Doc    string `json:"doc"`
	Prefix string `json:"prefix"`
	Indent string `json:"indent"`
}

func c02Encode(o xOpts, m map[string]interface{}, indented bool, prefix, indent string) Outcome {
	o.apply()
	defer restoreDefaults()
	return protect(func() Outcome {
		var b []byte
		var err error
		if indented {
			b, err = mxj.Map(m).XmlIndent(prefix, indent)
		} else {
			b, err = mxj.Map(m).Xml()
		}
		return Outcome{Err: err, Ret: b}
	})
}

// c02FloatLeaves: the print/parse assumption on every float64 leaf.
func c02FloatLeaves(v interface{}, bad *[]float64, n *int) {
	switch x := v.(type) {
	case float64:
		*n++
		g, err := strconv.ParseFloat(fmt.Sprintf("%v", x), 64)
		same := math.IsNaN(g) && math.IsNaN(x) || g == x && math.Signbit(g) == math.Signbit(x)
		if err != nil || !same {
			*bad = append(*bad, x)
		}
	case map[string]interface{}:
		for _, e := range x {
			c02FloatLeaves(e, bad, n)
		}
	case []interface{}:
		for _, e := range x {
			c02FloatLeaves(e, bad, n)
		}
	}
}

type c02Feat struct{ lists, attrs, text, mixed, floats, bools, specials bool }

func (f *c02Feat) walk(o xOpts, v interface{}) {
	switch x := v.(type) {
	case float64:
		f.floats = true
	case bool:
		f.bools = true
	case string:
		if strings.ContainsAny(x, "<&>\"'") {
			f.specials = true
		}
	case map[string]interface{}:
		nk := 0
		for k, e := range x {
			if len(k) > len(o.AP) && strings.HasPrefix(k, o.AP) {
				f.attrs = true
			} else if k != o.textK() {
				nk++
			}
			f.walk(o, e)
		}
		if _, ok := x[o.textK()]; ok {
			f.text = true
			if nk > 0 {
				f.mixed = true
			}
		}
	case []interface{}:
		f.lists = true
		for _, e := range x {
			f.walk(o, e)
		}
	}
}

func init() {
	props["C02"] = runC02
	replays["C02"] = replayC02
}

func runC02(cfg runCfg) error {
	r := newRng(cfg.seed)
	run := newRun("C02", cfg.out, cfg.seed, cfg.shards, xml2Header, "xcase2",
		"random abstract documents of the C01 generator (depth<=3, fan-out<=3, 10 element names with case/hyphen/namespace variants, repeated and "+
			"interleaved siblings, 0-3 attributes, at most one text run beside children; values: five XML specials, blanks, tabs, newlines, non-ASCII, "+
			"number/boolean look-alikes; no \\r) rendered with random quotes/CDATA/entities/noise x the symmetric option cube (5 non-empty attribute "+
			"prefixes, 4 key prefixes, lower, snake, simple-values-as-map, keep-spaces, decoder-side escaping, cast with float/bool/NaN-Inf) x "+
			"4 indentations; documents with an element key beginning with the attribute prefix are regenerated; each input yields 6 case terms "+
			"(decode, compact bytes, compact tokens, indented tokens, two second decodes); non-trivial = root element has >= 2 entries")
	for i := 0; i < cfg.n; i++ {
		o, cast := r.genC02Opts()
		var root *xnode
		var dc docCfg
		for {
			dc = docCfg{maxDepth: 3, maxFan: 3, mixedText: r.chance(0.5), noise: !o.KeepSp && r.chance(0.6), texts: c02Texts}
			root = r.genElem(dc, 0)
			if !c02NameClash(o, root) {
				break
			}
			run.count("regenerated:element-key-begins-with-attr-prefix")
		}
		doc := r.renderDoc(root, dc)
		ind := c03Indents[r.Intn(len(c03Indents))]
		c02One(run, c02Case{Opts: o, Cast: cast, Doc: doc, Prefix: ind[0], Indent: ind[1]})
	}
	return run.finish()
}

func c02One(run *Run, c c02Case) {
	o := c.Opts
	stage := func(s string) c02Case { x := c; x.Stage = s; return x }
	run.count("attr-prefix:" + o.AP)
	run.count("key-prefix:" + o.KP)
	run.count("cast:" + strconv.FormatBool(c.Cast))
	run.count(fmt.Sprintf("indent:%q+%q", c.Prefix, c.Indent))
	for name, on := range map[string]bool{"lower": o.Lower, "snake": o.Snake, "keepspaces": o.KeepSp, "simplemap": o.SimpleMap,
		"escdec": o.EscDec, "cast-float": c.Cast && o.CFloat, "cast-bool": c.Cast && o.CBool, "cast-naninf": c.Cast && o.CNanInf} {
		if on {
			run.count(name)
		}
	}

	// ---- first decode
	d1, term := xmlDecCase{Kind: "decode", Opts: o, Cast: c.Cast, Doc: c.Doc}.run()
	m1, _ := d1.Ret.(map[string]interface{})
	nontrivial := false
	for _, v := range m1 {
		if mm, ok := v.(map[string]interface{}); ok && len(mm) >= 2 {
			nontrivial = true
		}
	}
	run.add("X1 ("+term+")", stage("decode1"), d1.text(), nontrivial)
	if d1.Panicked || d1.Err != nil {
		run.sum.OracleEvals++
		key := "decode-error:first"
		if d1.Panicked {
			key = "panic"
		}
		run.violation(Violation{Key: key, What: "NewMapXml fails on a generated document", Input: stage("decode1"), Got: d1.text(), Want: "Map"})
		return
	}
	var f c02Feat
	f.walk(o, m1)
	for name, on := range map[string]bool{"map-has-lists": f.lists, "map-has-attrs": f.attrs, "map-has-text-key": f.text,
		"map-has-text+children": f.mixed, "map-has-float": f.floats, "map-has-bool": f.bools, "map-has-specials": f.specials} {
		if on {
			run.count(name)
		}
	}
	// assumption: %v / ParseFloat round trip on every float leaf of m1
	var bad []float64
	nf := 0
	c02FloatLeaves(m1, &bad, &nf)
	run.sum.Dist["assumption-parsefloat-checked-leaves"] += nf
	if len(bad) > 0 {
		run.violation(Violation{Key: "assumption-parsefloat", What: "strconv.ParseFloat(fmt.Sprintf(\"%v\", f)) != f for a float64 leaf",
			Input: stage("decode1"), Got: fmt.Sprint(bad), Want: "print/parse round trip"})
	}

	// ---- encoders
	mterm := c02CoqVal(m1)
	x1 := c02Encode(o, m1, false, "", "")
	x2 := c02Encode(o, m1, true, c.Prefix, c.Indent)
	b1, _ := x1.Ret.([]byte)
	b2, _ := x2.Ret.([]byte)
	_, aerr := tokenize(b1, false)
	accept := x1.Err == nil && !x1.Panicked && aerr == nil
	run.add(fmt.Sprintf("X1 (XEnc %s %s None %s %s)", o.coq(), mterm, coqBool(accept), xoutBytes(x1)), stage("bytes"), c03OutText(x1), nontrivial)
	t2, ts1, terr1 := toksTerm(o, "(CXml "+mterm+" None)", x1)
	run.add(t2, stage("toks"), c03OutText(x1), nontrivial)
	t3, ts2, terr2 := toksTerm(o, "(CXmlIndent "+mterm+" None)", x2)
	run.add(t3, stage("toks-indent"), c03OutText(x2), nontrivial)

	// ---- second decodes (correspondence of the decoder on the encoders' output)
	if x1.Err == nil && !x1.Panicked {
		d2, term2 := xmlDecCase{Kind: "decode", Opts: o, Cast: c.Cast, Doc: string(b1)}.run()
		run.add("X1 ("+term2+")", stage("decode2-compact"), d2.text(), nontrivial)
	}
	if x2.Err == nil && !x2.Panicked {
		d2, term2 := xmlDecCase{Kind: "decode", Opts: o, Cast: c.Cast, Doc: string(b2)}.run()
		run.add("X1 ("+term2+")", stage("decode2-indent"), d2.text(), nontrivial)
	}

	// ---- oracle
	indentKey := "roundtrip-differs:indent"
	if o.KeepSp && (strings.Contains(c.Indent, " ") || strings.Contains(c.Prefix, " ")) {
		// under DisableTrimWhiteSpace the decoder trims \t \r \b \n but not the blank
		indentKey = "keepspaces-indent"
		run.count("keepspaces+blank-indent")
	}
	encOracle(run, "Map.Xml", o, c.Cast, stage("decode2-compact"), x1, ts1, terr1, m1, "roundtrip-differs:compact")
	encOracle(run, "Map.XmlIndent", o, c.Cast, stage("decode2-indent"), x2, ts2, terr2, m1, indentKey)
	if indentKey == "keepspaces-indent" && x1.Err == nil && x2.Err == nil && !x1.Panicked && !x2.Panicked {
		// the recorded by-design category must not hide a loss of content: with trimming switched back on,
		// the indented output carries exactly what the compact output carries
		ot := o
		ot.KeepSp = false
		run.sum.OracleEvals++
		dc, di := decodeXml(ot, b1, c.Cast), decodeXml(ot, b2, c.Cast)
		if dc.text() != di.text() {
			run.violation(Violation{Key: "indent-content-differs", What: "keep-spaces with blank indentation: decoded with trimming on, Map.XmlIndent's output differs from Map.Xml's output",
				Input: stage("decode2-indent"), Got: c03OutText(x2) + " -> " + di.text(), Want: c03OutText(x1) + " -> " + dc.text()})
		}
	}
}

func replayC02(raw []byte) error {
	var c c02Case
	if err := json.Unmarshal(raw, &c); err != nil {
		return err
	}
	fmt.Printf("input:        %s\n", mustJSON(c))
	d1 := decodeXml(c.Opts, []byte(c.Doc), c.Cast)
	fmt.Printf("m1 = NewMapXml(doc):         %s\n", d1.text())
	m1, ok := d1.Ret.(map[string]interface{})
	if !ok || d1.Err != nil || d1.Panicked {
		return nil
	}
	for _, indented := range []bool{false, true} {
		name := "m1.Xml()"
		if indented {
			name = fmt.Sprintf("m1.XmlIndent(%q,%q)", c.Prefix, c.Indent)
		}
		x := c02Encode(c.Opts, m1, indented, c.Prefix, c.Indent)
		fmt.Printf("%s: %s\n", name, c03OutText(x))
		if b, ok := x.Ret.([]byte); ok && x.Err == nil && !x.Panicked {
			ts, terr := tokenize(b, false)
			roots, stray := rootInfo(ts)
			fmt.Printf("  tokenizer: err=%v roots=%d text-outside-root=%v\n", terr, roots, stray)
			d2 := decodeXml(c.Opts, b, c.Cast)
			fmt.Printf("  NewMapXml: %s\n  equal to m1: %v\n", d2.text(), canon(d2.Ret) == canon(m1))
		}
	}
	return nil
}
