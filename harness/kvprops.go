package main

import (
	"fmt"
	"strconv"
	"strings"
)

// ================================================================ shared spec helpers

// specSat: the declarative sub-key predicate (Spec/SubKeys.v sat_all) on Go values.
type specCond struct {
	neg  bool
	key  string
	val  interface{} // string, bool or float64
	wild bool
}

func specParseSubKeys(specs []string, sep string) ([]specCond, bool) {
	m := map[string]specCond{}
	var order []string
	for _, s := range specs {
		vv := strings.Split(s, sep)
		var c specCond
		switch len(vv) {
		case 2:
			c = specCond{key: vv[0], val: vv[1]}
		case 3:
			switch vv[2] {
			case "string", "char", "text":
				c = specCond{key: vv[0], val: vv[1]}
			case "bool", "boolean":
				b, err := strconv.ParseBool(vv[1])
				if err != nil {
					return nil, false
				}
				c = specCond{key: vv[0], val: b}
			case "float", "float64", "num", "number", "numeric":
				f, err := strconv.ParseFloat(vv[1], 64)
				if err != nil {
					return nil, false
				}
				c = specCond{key: vv[0], val: f}
			default:
				return nil, false
			}
		default:
			return nil, false
		}
		if _, dup := m[c.key]; !dup {
			order = append(order, c.key)
		}
		m[c.key] = c // a later spec for the same name replaces the earlier one
	}
	var out []specCond
	for _, k := range order {
		c := m[k]
		if s, ok := c.val.(string); ok && s == "*" {
			c.wild = true
		}
		if strings.HasPrefix(c.key, "!") {
			c.neg = true
			c.key = c.key[1:]
		}
		out = append(out, c)
	}
	return out, true
}

func specSatAll(conds []specCond, v interface{}) bool {
	if len(conds) == 0 {
		return true
	}
	m, ok := v.(map[string]interface{})
	if !ok {
		return false
	}
	for _, c := range conds {
		vv, present := m[c.key]
		if !present {
			if c.neg && c.wild {
				continue
			}
			return false
		}
		if c.wild {
			if c.neg {
				return false
			}
			continue
		}
		match := false
		switch x := c.val.(type) {
		case string:
			s, ok := vv.(string)
			match = ok && s == x
		case bool:
			b, ok := vv.(bool)
			match = ok && b == x
		case float64:
			f, ok := vv.(float64)
			match = ok && f == x
		}
		if match == c.neg {
			return false
		}
	}
	return true
}

func filterSat(conds []specCond, vs []interface{}) []interface{} {
	out := []interface{}{}
	for _, v := range vs {
		if specSatAll(conds, v) {
			out = append(out, v)
		}
	}
	return out
}

// specValuesForKey: every value stored under key k at any depth, lists expanded, "*" = every key.
func specValuesForKey(k string, v interface{}, out *[]interface{}) {
	switch x := v.(type) {
	case map[string]interface{}:
		for _, kk := range sortedKeys(x) {
			if kk == k || k == "*" {
				*out = append(*out, specFinal(x[kk])...)
			}
		}
		for _, kk := range sortedKeys(x) {
			specValuesForKey(k, x[kk], out)
		}
	case []interface{}:
		for _, e := range x {
			specValuesForKey(k, e, out)
		}
	}
}

func cleanKeys(v interface{}) bool {
	switch x := v.(type) {
	case map[string]interface{}:
		for k, e := range x {
			if k == "" || strings.ContainsAny(k, ".[*") {
				return false
			}
			if !cleanKeys(e) {
				return false
			}
		}
	case []interface{}:
		for _, e := range x {
			if !cleanKeys(e) {
				return false
			}
		}
	}
	return true
}

func toIfaces(ps []string) []interface{} {
	out := make([]interface{}, len(ps))
	for i, p := range ps {
		out[i] = p
	}
	return out
}

// ================================================================ C08

// sepScenario builds a Map and a sub-key TEXT that parses validly but DIFFERENTLY under the two field
// separators "|" and ":" and selects a different record under each ("at|12:30": at == "12:30" under "|",
// "at|12" == "30" under ":"). Used twice in a row, once per separator: nothing remembered from the first
// call (e.g. a parse cache keyed by the text alone) may leak into the second.
func (r *Rng) sepScenario() (map[string]interface{}, string, string) {
	k := r.pick([]string{"at", "k", "b", "id"})
	a, b := r.pick([]string{"12", "x", "7"}), r.pick([]string{"30", "y", "w"})
	who := r.pick([]string{"who", "c", "items"})
	m := map[string]interface{}{"rec": []interface{}{
		map[string]interface{}{who: "ann", k: a + ":" + b},
		map[string]interface{}{who: "bob", k + "|" + a: b},
		map[string]interface{}{who: "cy", k: b},
	}}
	return m, k + "|" + a + ":" + b, who
}

func runC08(cfg runCfg) error {
	r := newRng(cfg.seed)
	run := newRun("C08", cfg.out, cfg.seed, cfg.shards, kvHeader, "case",
		"random Maps (5% with a list directly inside a list) x keys from the Map / absent / '*' x 0..2 sub-key conditions "+
			"(typed, wildcard, negated, alternative separator); non-trivial = non-empty result; distinct by input hash")
	for _, c := range loadCorpus("C08") {
		c08One(run, c)
	}
	for i := 0; i < cfg.n; i++ {
		g := genCfg{maxDepth: 5, maxFan: 4, nestedLists: r.chance(0.05), emptyLists: true, wide: true}
		m := r.genMap(g, 0)
		sep := ":"
		if r.chance(0.15) {
			sep = r.pick([]string{"|", "||", "/"})
		}
		c := kvCase{Map: m, Sep: sep}
		key := r.pick(keyPool)
		if r.chance(0.15) {
			key = "*"
		} else if r.chance(0.1) {
			key = "zz"
		}
		switch x := r.Intn(10); {
		case x < 4:
			c.Op, c.Key = "ValuesForKey", key
			c.SubKeys = r.genSubKeys(m, sep, false)
		case x < 6:
			c.Op, c.Key = "PathsForKey", key
		case x < 7:
			c.Op, c.Key = "PathForKeyShortest", key
		default:
			c.Op = "ValuesForPath"
			c.Path = r.genPath(m, r.chance(0.3), true, false)
			c.SubKeys = r.genSubKeys(m, sep, false)
			if len(c.SubKeys) == 0 {
				c.SubKeys = r.genSubKeys(m, sep, false)
			}
		}
		c08One(run, c)
		// an indexed LAST step together with sub-keys: the index selects first, the sub-keys then filter (seed C08-5:
		// filtering before indexing picks the n-th MATCHING member)
		if r.chance(0.04) {
			var books []interface{}
			for j, nb := 0, 3+r.Intn(3); j < nb; j++ {
				books = append(books, map[string]interface{}{"lang": r.pick([]string{"en", "fr"}), "n": float64(j)})
			}
			sm := map[string]interface{}{"shelf": map[string]interface{}{"book": books}}
			c08One(run, kvCase{Op: "ValuesForPath", Map: sm, Path: fmt.Sprintf("shelf.book[%d]", r.Intn(len(books))), Sep: ":",
				SubKeys: []string{"lang:" + r.pick([]string{"en", "fr"})}})
		}
		// the key at two depths, the shallower occurrence under the LONGER path text (seed C08-3: shortest by characters)
		if r.chance(0.04) {
			k := r.pick([]string{"k", "id", "c"})
			long := r.pick([]string{"items", "list", "configuration"})
			sm := map[string]interface{}{long: map[string]interface{}{k: r.genScalar()},
				"a": map[string]interface{}{"b": map[string]interface{}{k: r.genScalar()}}}
			if r.chance(0.5) {
				sm["a"].(map[string]interface{})["b"] = []interface{}{map[string]interface{}{k: "x"}, "y"}
			}
			c08One(run, kvCase{Op: "PathForKeyShortest", Map: sm, Key: k, Sep: ":"})
			c08One(run, kvCase{Op: "PathsForKey", Map: sm, Key: k, Sep: ":"})
		}
		if r.chance(0.03) {
			sm, stext, _ := r.sepScenario()
			for _, sp := range []string{"|", ":", "|"} {
				c08One(run, kvCase{Op: "ValuesForPath", Map: sm, Path: "rec", SubKeys: []string{stext}, Sep: sp})
				c08One(run, kvCase{Op: "ValuesForKey", Map: sm, Key: "rec", SubKeys: []string{stext}, Sep: sp})
			}
		}
		// the same sub-key TEXT read under another field separator right afterwards (texts that contain both
		// separators parse differently; nothing remembered from the previous call may leak into this one)
		if len(c.SubKeys) > 0 && r.chance(0.2) {
			c2 := c
			c2.SubKeys = append([]string{}, c.SubKeys...)
			if r.chance(0.5) {
				c2.SubKeys[0] = r.pick(keyPool) + "|" + r.pick([]string{"12:30", "v:w", "a:b"})
				c.SubKeys = c2.SubKeys
				c08One(run, c)
			}
			if c.Sep == ":" {
				c2.Sep = "|"
			} else {
				c2.Sep = ":"
			}
			c08One(run, c2)
		}
	}
	return run.finish()
}

func c08One(run *Run, c kvCase) {
	o, after := runKV(c)
	nontrivial := false
	if l, ok := o.Ret.([]interface{}); ok && len(l) > 0 {
		nontrivial = true
	}
	if s, ok := o.Ret.(string); ok && s != "" {
		nontrivial = true
	}
	run.count("op:" + c.Op)
	if len(c.SubKeys) > 0 {
		run.count("with-subkeys")
	}
	if o.Err != nil {
		run.count("error")
	}
	ordered := false
	if c.Op == "ValuesForPath" {
		ordered = !pathHasStar(c.Path)
	}
	run.add(c.term(ordered, o, after), c, o.text(), nontrivial)

	// ---- oracle
	run.sum.OracleEvals++
	if o.Panicked {
		run.violation(Violation{Key: "panic", What: c.Op + " panicked", Input: c, Got: o.text(), Want: "no panic"})
		return
	}
	if canon(after) != canon(c.Map) {
		run.violation(Violation{Key: "receiver-modified", What: c.Op + " modified its receiver", Input: c, Got: canon(after), Want: canon(c.Map)})
	}
	nested := hasNestedLists(c.Map, false)
	shape := func(k string) string {
		if nested {
			return "list-directly-inside-list"
		}
		return k
	}
	switch c.Op {
	case "ValuesForKey":
		got, _ := o.Ret.([]interface{})
		conds, ok := specParseSubKeys(c.SubKeys, c.Sep)
		if !ok {
			if o.Err == nil {
				run.violation(Violation{Key: "bad-subkey-accepted", What: "malformed sub-key accepted", Input: c, Got: o.text(), Want: "error"})
			}
			return
		}
		var all []interface{}
		specValuesForKey(c.Key, c.Map, &all)
		want := filterSat(conds, all)
		if o.Err != nil || canonMultiset(got) != canonMultiset(want) {
			run.violation(Violation{Key: "values-for-key-differ", What: "ValuesForKey is not exactly the (filtered) values stored under the key", Input: c,
				Got: o.text(), Want: canon(want)})
			return
		}
		// consistency with PathsForKey + ValuesForPath (clean keys)
		if len(c.SubKeys) == 0 && cleanKeys(c.Map) && c.Key != "*" {
			pc := c
			pc.Op = "PathsForKey"
			po, _ := runKV(pc)
			var via []interface{}
			for _, p := range po.Ret.([]interface{}) {
				vc := c
				vc.Op, vc.Path = "ValuesForPath", p.(string)
				vo, _ := runKV(vc)
				if l, ok := vo.Ret.([]interface{}); ok {
					via = append(via, l...)
				}
			}
			if canonMultiset(via) != canonMultiset(got) {
				run.violation(Violation{Key: shape("paths-values-inconsistent"), What: "values found through PathsForKey differ from ValuesForKey", Input: c,
					Got: canon(ifaceList(via)), Want: canon(ifaceList(got))})
			}
		}
	case "PathsForKey":
		got, _ := o.Ret.([]interface{})
		var all [][]string
		keyPaths(c.Map, nil, &all)
		set := map[string]bool{}
		for _, p := range all {
			if p[len(p)-1] == c.Key {
				set[strings.Join(p, ".")] = true
			}
		}
		var want []string
		for p := range set {
			want = append(want, p)
		}
		if canonMultiset(got) != canonMultiset(toIfaces(want)) {
			run.violation(Violation{Key: "paths-differ", What: "PathsForKey is not exactly the distinct dot-paths ending in the key", Input: c,
				Got: o.text(), Want: fmt.Sprint(want)})
		}
	case "PathForKeyShortest":
		got, _ := o.Ret.(string)
		pc := c
		pc.Op = "PathsForKey"
		po, _ := runKV(pc)
		ps := po.Ret.([]interface{})
		if len(ps) == 0 {
			if got != "" {
				run.violation(Violation{Key: "shortest-not-empty", What: "PathForKeyShortest non-empty without paths", Input: c, Got: got, Want: ""})
			}
			return
		}
		found, minimal := false, true
		for _, p := range ps {
			if p.(string) == got {
				found = true
			}
			if len(strings.Split(p.(string), ".")) < len(strings.Split(got, ".")) {
				minimal = false
			}
		}
		if !found || !minimal {
			run.violation(Violation{Key: "shortest-wrong", What: "PathForKeyShortest is not a path of minimal length", Input: c, Got: got, Want: fmt.Sprint(ps)})
		}
	case "ValuesForPath":
		conds, ok := specParseSubKeys(c.SubKeys, c.Sep)
		if !ok {
			if o.Err == nil {
				run.violation(Violation{Key: "bad-subkey-accepted", What: "malformed sub-key accepted", Input: c, Got: o.text(), Want: "error"})
			}
			return
		}
		if keys, okp := specParse(c.Path); !okp || hasIndexOnStar(keys) {
			return
		}
		uc := c
		uc.SubKeys = nil
		uo, _ := runKV(uc)
		if uo.Err != nil || uo.Panicked {
			return
		}
		want := filterSat(conds, uo.Ret.([]interface{}))
		got, _ := o.Ret.([]interface{})
		if o.Err != nil || canonMultiset(got) != canonMultiset(want) {
			run.violation(Violation{Key: "subkey-filter-differs", What: "ValuesForPath with sub-keys is not the filtered unfiltered result", Input: c,
				Got: o.text(), Want: canon(want)})
		}
	}
}

// ================================================================ C09

func runC09(cfg runCfg) error {
	r := newRng(cfg.seed)
	run := newRun("C09", cfg.out, cfg.seed, cfg.shards, kvHeader, "case",
		"random Maps (no list directly inside a list; 25% with odd keys: empty, '.', '[', '*') x LeafNodes/LeafPaths/LeafValues x "+
			"no-attributes option x dot-notation option x attribute prefix; non-trivial = at least 2 leaves; distinct by input hash")
	for _, c := range loadCorpus("C09") {
		c09One(run, c)
	}
	for i := 0; i < cfg.n; i++ {
		g := genCfg{maxDepth: 5, maxFan: 4, nestedLists: false, emptyLists: true, oddKeys: r.chance(0.25), wide: r.chance(0.3)}
		m := r.genMap(g, 0)
		c := kvCase{Map: m, Sep: ":", NoAttr: r.chance(0.5), DotN: r.chance(0.25), Prefix: r.pick([]string{"-", "-", "-", "", "a", "#", "--"})}
		c.Op = r.pick([]string{"LeafNodes", "LeafNodes", "LeafNodes", "LeafPaths", "LeafValues"})
		c09One(run, c)
	}
	return run.finish()
}

type specLeaf struct {
	path string
	val  interface{}
}

// specLeaves: one entry per scalar, with the path the statement prescribes.
func specLeaves(v interface{}, path string, noattr bool, prefix, textK string, dotn bool, out *[]specLeaf) {
	switch x := v.(type) {
	case map[string]interface{}:
		for _, k := range sortedKeys(x) {
			if noattr && prefix != "" && strings.HasPrefix(k, prefix) {
				continue
			}
			p := path
			if !(noattr && k == textK) {
				if p != "" {
					p += "."
				}
				p += k
			}
			specLeaves(x[k], p, noattr, prefix, textK, dotn, out)
		}
	case []interface{}:
		for i, e := range x {
			p := path
			if dotn {
				if p != "" {
					p += "."
				}
				p += strconv.Itoa(i)
			} else {
				p += "[" + strconv.Itoa(i) + "]"
			}
			specLeaves(e, p, noattr, prefix, textK, dotn, out)
		}
	default:
		*out = append(*out, specLeaf{path, v})
	}
}

func c09One(run *Run, c kvCase) {
	o, after := runKVLeaf(c)
	n := 0
	if l, ok := o.Ret.([]interface{}); ok {
		n = len(l)
	}
	run.count("op:" + c.Op)
	if c.NoAttr {
		run.count("noattr")
	}
	if c.DotN {
		run.count("dotnotation")
	}
	run.add(c.term(false, o, after), c, o.text(), n >= 2)

	run.sum.OracleEvals++
	if o.Panicked {
		run.violation(Violation{Key: "panic", What: c.Op + " panicked", Input: c, Got: o.text(), Want: "no panic"})
		return
	}
	if canon(after) != canon(c.Map) {
		run.violation(Violation{Key: "receiver-modified", What: c.Op + " modified its receiver", Input: c, Got: canon(after), Want: canon(c.Map)})
	}
	var want []specLeaf
	specLeaves(c.Map, "", c.NoAttr, c.Prefix, "#text", c.DotN, &want)
	got, _ := o.Ret.([]interface{})
	var wantEnc []interface{}
	for _, w := range want {
		switch c.Op {
		case "LeafNodes":
			wantEnc = append(wantEnc, []interface{}{w.path, w.val})
		case "LeafPaths":
			wantEnc = append(wantEnc, w.path)
		case "LeafValues":
			wantEnc = append(wantEnc, w.val)
		}
	}
	if !cleanKeys(c.Map) {
		// arbitrary keys: only the enumeration clause is claimed (one entry per scalar, with the value itself)
		var gv, wv []interface{}
		for _, w := range want {
			wv = append(wv, w.val)
		}
		for _, e := range got {
			switch c.Op {
			case "LeafNodes":
				gv = append(gv, e.([]interface{})[1])
			case "LeafValues":
				gv = append(gv, e)
			}
		}
		if c.Op == "LeafPaths" {
			if len(got) != len(want) {
				run.violation(Violation{Key: "leaf-count", What: "LeafPaths does not have one entry per scalar", Input: c, Got: o.text(), Want: fmt.Sprint(len(want))})
			}
		} else if canonMultiset(gv) != canonMultiset(wv) {
			run.violation(Violation{Key: "leaf-values-differ", What: c.Op + " does not list every scalar exactly once", Input: c, Got: o.text(), Want: canon(ifaceList(wv))})
		}
		return
	}
	if canonMultiset(got) != canonMultiset(wantEnc) {
		key := "leaves-differ"
		if c.Op != "LeafNodes" && c.NoAttr {
			key = "projection-ignores-option"
		}
		run.violation(Violation{Key: key, What: c.Op + " is not one entry per scalar with the prescribed path (or not the projection of LeafNodes for the same option)", Input: c,
			Got: o.text(), Want: canon(ifaceList(wantEnc))})
		return
	}
	// resolution clause: bracket notation, clean keys, all entries
	if c.Op == "LeafNodes" && !c.DotN && !c.NoAttr && cleanKeys(c.Map) {
		for _, e := range got {
			pv := e.([]interface{})
			vc := kvCase{Op: "ValuesForPath", Map: c.Map, Path: pv[0].(string), Sep: ":"}
			vo, _ := runKV(vc)
			l, _ := vo.Ret.([]interface{})
			if vo.Err != nil || vo.Panicked || len(l) != 1 || canon(l[0]) != canon(pv[1]) {
				run.violation(Violation{Key: "leaf-path-does-not-resolve", What: "ValuesForPath(leaf path) is not exactly the leaf value", Input: vc,
					Got: vo.text(), Want: canon([]interface{}{pv[1]})})
				break
			}
		}
	}
}

// ================================================================ C10

func runC10(cfg runCfg) error {
	r := newRng(cfg.seed)
	run := newRun("C10", cfg.out, cfg.seed, cfg.shards, kvHeader, "case",
		"random Maps x (key, new value as single-entry map or 'key:value[:type]' string) x plain/wildcard paths in both addressing forms "+
			"x 0..2 sub-key conditions; non-trivial = count > 0; distinct by input hash")
	for _, c := range loadCorpus("C10") {
		c10One(run, c)
	}
	for i := 0; i < cfg.n; i++ {
		g := genCfg{maxDepth: 5, maxFan: 4, nestedLists: false, emptyLists: true}
		m := r.genMap(g, 0)
		path := r.genPath(m, false, true, false)
		segs := strings.Split(path, ".")
		key := segs[len(segs)-1]
		if key == "*" || r.chance(0.4) {
			key = r.pick(keyPool)
		}
		c := kvCase{Op: "UpdateValuesForPath", Map: m, Path: path, Sep: ":"}
		switch r.Intn(6) {
		case 0:
			c.NewVal = map[string]interface{}{key: r.genScalar()}
		case 1:
			c.NewVal = map[string]interface{}{key: map[string]interface{}{"n": "new"}}
		case 2:
			c.NewVal = key + ":" + r.pick([]string{"1", "2.5", "true", "x"}) + ":" + r.pick([]string{"num", "bool", "float", "int", "boolean", "zzz"})
		default:
			c.NewVal = key + ":new"
		}
		if r.chance(0.3) {
			c.SubKeys = r.genSubKeys(m, ":", false)
		}
		c10One(run, c)
		// member-wise replacement: the path ends in the new value's key, the value there is a list, the sub-keys hold for
		// several members but not for the parent (seed C10-3: the count must be the number of members replaced)
		if r.chance(0.04) {
			k, tag := r.pick([]string{"item", "list", "k"}), r.pick([]string{"tag", "b", "id"})
			var mem []interface{}
			for j, nm := 0, 2+r.Intn(4); j < nm; j++ {
				mem = append(mem, map[string]interface{}{tag: r.pick([]string{"a", "a", "b"}), "n": float64(j)})
			}
			if r.chance(0.3) {
				mem = append(mem, "scalar")
			}
			sm := map[string]interface{}{"doc": map[string]interface{}{k: mem, "x": r.genScalar()}}
			c10One(run, kvCase{Op: "UpdateValuesForPath", Map: sm, Path: "doc." + k, Sep: ":",
				NewVal: map[string]interface{}{k: r.pick([]string{"gone", "new"})}, SubKeys: []string{tag + ":a"}})
		}
		// an EMPTY list under the new value's key, with sub-keys: nothing to replace there, and the list must stay [] (seed C10-6)
		if r.chance(0.03) {
			k := r.pick([]string{"items", "list", "k"})
			sm := map[string]interface{}{"doc": map[string]interface{}{"tag": "t", k: []interface{}{}},
				"e": []interface{}{map[string]interface{}{k: []interface{}{}}, map[string]interface{}{k: []interface{}{map[string]interface{}{"id": "7"}}}}}
			c10One(run, kvCase{Op: "UpdateValuesForPath", Map: sm, Path: r.pick([]string{"doc." + k, "e." + k, "*." + k}), Sep: ":",
				NewVal: k + ":none", SubKeys: []string{"id:7"}})
		}
		// a list directly inside a list below a wildcard step (JSON shape; seed C10-4: update and query must address the same values)
		if r.chance(0.05) {
			g2 := genCfg{maxDepth: 4, maxFan: 3, nestedLists: true, emptyLists: true}
			m2 := r.genMap(g2, 0)
			k2 := r.pick([]string{"cell", "k", "a"})
			m2["grid"] = map[string]interface{}{"rows": []interface{}{
				[]interface{}{map[string]interface{}{k2: "a"}, map[string]interface{}{k2: "b"}},
				map[string]interface{}{k2: map[string]interface{}{k2: "deep"}},
				[]interface{}{map[string]interface{}{"w": float64(4)}}}}
			p2 := r.pick([]string{"grid.rows.*." + k2, "grid.*.*." + k2, "*.rows.*." + k2, "grid.rows.*"})
			c10One(run, kvCase{Op: "UpdateValuesForPath", Map: m2, Path: p2, Sep: ":", NewVal: k2 + ":X"})
		}
		if r.chance(0.03) {
			sm, stext, who := r.sepScenario()
			for _, sp := range []string{"|", ":", "|"} {
				c10One(run, kvCase{Op: "UpdateValuesForPath", Map: sm, Path: "rec." + who, NewVal: who + sp + "dave", SubKeys: []string{stext}, Sep: sp})
			}
		}
		// the same sub-key text under two field separators in a row (see runC08)
		if r.chance(0.08) {
			k2 := r.pick(keyPool)
			c.SubKeys = []string{k2 + "|" + r.pick([]string{"12:30", "v:w", "a:b"})}
			c.Sep = "|"
			if nv, ok := c.NewVal.(string); ok {
				c.NewVal = strings.ReplaceAll(nv, ":", "|")
			}
			c10One(run, c)
			c3 := c
			c3.Sep = ":"
			if nv, ok := c3.NewVal.(string); ok {
				c3.NewVal = strings.ReplaceAll(nv, "|", ":")
			}
			c10One(run, c3)
		}
	}
	return run.finish()
}

// specUpdate: the update the statement prescribes, on a deep copy. Returns count.
func specUpdate(m map[string]interface{}, key string, val interface{}, path string, conds []specCond) int {
	segs := strings.Split(path, ".")
	last := segs[len(segs)-1]
	nodes := []interface{}{m}
	for _, sg := range segs[:len(segs)-1] {
		var next []interface{}
		for _, n := range nodes {
			next = append(next, specSel(sg, n)...)
		}
		nodes = next
	}
	count := 0
	replaceIn := func(p map[string]interface{}, holderOK bool) {
		// replace p[key]; a list-valued entry is replaced member-wise when only members satisfy the conditions
		old, present := p[key]
		if !present {
			return
		}
		if holderOK {
			p[key] = val
			count++
			return
		}
		if l, ok := old.([]interface{}); ok {
			nl := make([]interface{}, len(l))
			changed := false
			for i, e := range l {
				if len(conds) > 0 && specSatAll(conds, e) {
					nl[i] = val
					changed = true
					count++
				} else {
					nl[i] = e
				}
			}
			if changed {
				p[key] = nl
			}
		}
	}
	for _, n := range nodes {
		var parents []map[string]interface{}
		switch x := n.(type) {
		case map[string]interface{}:
			parents = append(parents, x)
		case []interface{}:
			for _, e := range x {
				if mm, ok := e.(map[string]interface{}); ok {
					parents = append(parents, mm)
				}
			}
		}
		for _, p := range parents {
			var cs []string
			if last == "*" {
				cs = sortedKeys(p)
			} else {
				cs = []string{last}
			}
			for _, cc := range cs {
				if cc == key {
					replaceIn(p, specSatAll(conds, p))
					continue
				}
				switch t := p[cc].(type) {
				case map[string]interface{}:
					if _, ok := t[key]; ok && specSatAll(conds, t) {
						t[key] = val
						count++
					}
				case []interface{}:
					for _, e := range t {
						if mm, ok := e.(map[string]interface{}); ok {
							if _, ok := mm[key]; ok && specSatAll(conds, mm) {
								mm[key] = val
								count++
							}
						}
					}
				}
			}
		}
	}
	return count
}

func specNewVal(nv interface{}, sep string) (string, interface{}, bool) {
	switch x := nv.(type) {
	case map[string]interface{}:
		if len(x) != 1 {
			return "", nil, false
		}
		for k, v := range x {
			return k, v, true
		}
	case string:
		ss := strings.Split(x, sep)
		switch len(ss) {
		case 2:
			return ss[0], ss[1], true
		case 3:
			switch ss[2] {
			case "bool", "boolean":
				b, err := strconv.ParseBool(ss[1])
				return ss[0], b, err == nil
			case "num", "numeric", "float", "int":
				f, err := strconv.ParseFloat(ss[1], 64)
				return ss[0], f, err == nil
			}
		}
	}
	return "", nil, false
}

// listNodeBeforeLast reports whether some node the path (without its last key) reaches is a list.
func listNodeBeforeLast(m map[string]interface{}, path string) bool {
	segs := strings.Split(path, ".")
	nodes := []interface{}{m}
	for _, sg := range segs[:len(segs)-1] {
		var next []interface{}
		for _, n := range nodes {
			next = append(next, specSel(sg, n)...)
		}
		nodes = next
	}
	for _, n := range nodes {
		if _, ok := n.([]interface{}); ok {
			return true
		}
	}
	return false
}

func c10One(run *Run, c kvCase) {
	o, after := runKV(c)
	cnt, _ := o.Ret.(int)
	run.count("op:" + c.Op)
	if cnt > 0 {
		run.count("changed")
	}
	if len(c.SubKeys) > 0 {
		run.count("with-subkeys")
	}
	if o.Err != nil {
		run.count("error")
	}
	run.add(c.term(false, o, after), c, o.text()+" after="+canon(after), cnt > 0)

	run.sum.OracleEvals++
	if o.Panicked {
		run.violation(Violation{Key: "panic", What: "UpdateValuesForPath panicked", Input: c, Got: o.text(), Want: "no panic"})
		return
	}
	key, val, okv := specNewVal(c.NewVal, c.Sep)
	conds, oks := specParseSubKeys(c.SubKeys, c.Sep)
	if !okv || !oks {
		if o.Err == nil {
			run.violation(Violation{Key: "bad-argument-accepted", What: "malformed new value / sub-key accepted", Input: c, Got: o.text(), Want: "error"})
		} else if canon(after) != canon(c.Map) {
			run.violation(Violation{Key: "error-modified", What: "error returned but Map modified", Input: c, Got: canon(after), Want: canon(c.Map)})
		}
		return
	}
	if o.Err != nil {
		run.violation(Violation{Key: "unexpected-error", What: "well-formed update rejected", Input: c, Got: o.text(), Want: "count"})
		return
	}
	if cnt == 0 && canonNil(after) != canonNil(deepCopy(c.Map)) {
		run.violation(Violation{Key: "zero-count-modified", What: "count 0 but Map modified (an empty list replaced by a nil one counts)", Input: c, Got: canonNil(after), Want: canonNil(deepCopy(c.Map))})
		return
	}
	want := deepCopy(c.Map).(map[string]interface{})
	wcnt := specUpdate(want, key, val, c.Path, conds)
	if canonNil(after) != canonNil(want) || cnt != wcnt {
		k := "update-differs"
		segs := strings.Split(c.Path, ".")
		last := segs[len(segs)-1]
		if listNodeBeforeLast(c.Map, c.Path) && last != key {
			k = "list-node-last-key-ignored"
		} else if listNodeBeforeLast(c.Map, c.Path) && last == key && len(conds) > 0 && cnt < wcnt {
			// members of a list node: the k entry is replaced as a whole or not at all, never member-wise
			k = "list-node-no-memberwise"
		} else {
			// created an entry that was absent?
			alt := deepCopy(c.Map).(map[string]interface{})
			if specUpdateCreate(alt, key, val, c.Path, conds) == cnt && canon(alt) == canon(after) {
				k = "create-on-absent"
			}
		}
		run.violation(Violation{Key: k, What: "UpdateValuesForPath changed other than the addressed values, or miscounted", Input: c,
			Got: fmt.Sprintf("count=%d after=%s", cnt, canon(after)), Want: fmt.Sprintf("count=%d after=%s", wcnt, canon(want))})
		return
	}
	// update-then-query
	segs := strings.Split(c.Path, ".")
	if segs[len(segs)-1] == key && len(c.SubKeys) == 0 && key != "*" {
		vc := kvCase{Op: "ValuesForPath", Map: after, Path: c.Path, Sep: c.Sep}
		vo, _ := runKV(vc)
		l, _ := vo.Ret.([]interface{})
		exp := []interface{}{}
		for i := 0; i < cnt; i++ {
			exp = append(exp, specFinal(val)...)
		}
		if canonMultiset(l) != canonMultiset(exp) {
			run.violation(Violation{Key: "update-then-query", What: "ValuesForPath after the update is not count copies of the new value", Input: c,
				Got: vo.text(), Want: canon(exp)})
		}
	}
}

// specUpdateCreate: specUpdate plus "a map parent lacking the key gets it" (the implementation's create-on-absent behaviour).
func specUpdateCreate(m map[string]interface{}, key string, val interface{}, path string, conds []specCond) int {
	segs := strings.Split(path, ".")
	last := segs[len(segs)-1]
	nodes := []interface{}{m}
	for _, sg := range segs[:len(segs)-1] {
		var next []interface{}
		for _, n := range nodes {
			next = append(next, specSel(sg, n)...)
		}
		nodes = next
	}
	// the plain spec first (it never touches a parent that lacks the key), then the creations: the conditions of a
	// created entry are evaluated on its parent as it was BEFORE the entry existed (a condition such as "!k:*" on the
	// created key itself holds then and no longer afterwards)
	cnt := specUpdate(m, key, val, path, conds)
	if last == key {
		for _, n := range nodes {
			if p, ok := n.(map[string]interface{}); ok {
				if _, present := p[key]; !present && specSatAll(conds, p) {
					p[key] = val
					cnt++
				}
			}
		}
	}
	return cnt
}

// ================================================================ C11

func runC11(cfg runCfg) error {
	r := newRng(cfg.seed)
	run := newRun("C11", cfg.out, cfg.seed, cfg.shards, kvHeader, "case",
		"random Maps without empty lists x dot-paths (existing, missing, ending at scalars/maps/lists, 1..n segments, some through lists) "+
			"x SetValueForPath / Remove / RenameKey (new names free, existing sibling, same name); non-trivial = the operation succeeds; distinct by input hash")
	for _, c := range loadCorpus("C11") {
		c11One(run, c)
	}
	for i := 0; i < cfg.n; i++ {
		g := genCfg{maxDepth: 5, maxFan: 4, nestedLists: false, emptyLists: false}
		if r.chance(0.5) {
			g.maxFan = 3
		}
		m := r.genMapsOnly(g, 0, r.chance(0.35))
		path := r.genPath(m, false, false, false)
		if r.chance(0.1) {
			path += "." + r.pick(keyPool)
		}
		c := kvCase{Map: m, Path: path, Sep: ":"}
		switch r.Intn(3) {
		case 0:
			c.Op = "SetValueForPath"
			c.NewVal = r.genVal(genCfg{maxDepth: 2, maxFan: 2}, 0, false)
		case 1:
			c.Op = "Remove"
		default:
			c.Op = "RenameKey"
			c.NewName = r.pick(keyPool)
			if r.chance(0.3) {
				c.NewName = "fresh"
			}
		}
		c11One(run, c)
	}
	return run.finish()
}

// genMapsOnly: nested maps (the C11 domain); with lists=true some values are lists of maps.
func (r *Rng) genMapsOnly(cfg genCfg, depth int, lists bool) map[string]interface{} {
	n := 1 + r.Intn(cfg.maxFan)
	m := map[string]interface{}{}
	for i := 0; i < n; i++ {
		k := r.pick(keyPool)
		switch {
		case depth < cfg.maxDepth && r.chance(0.5):
			m[k] = r.genMapsOnly(cfg, depth+1, lists)
		case lists && depth < cfg.maxDepth && r.chance(0.3):
			l := []interface{}{}
			for j := 0; j < 1+r.Intn(3); j++ {
				if r.chance(0.7) {
					l = append(l, r.genMapsOnly(cfg, depth+2, lists))
				} else {
					l = append(l, r.genScalar())
				}
			}
			m[k] = l
		default:
			m[k] = r.genScalar()
		}
	}
	return m
}

// walkMaps follows plain keys through nested maps only; returns the parent map of the last key.
func walkMaps(m map[string]interface{}, segs []string) (map[string]interface{}, bool) {
	cur := m
	for _, sg := range segs[:len(segs)-1] {
		nx, ok := cur[sg].(map[string]interface{})
		if !ok {
			return nil, false
		}
		cur = nx
	}
	return cur, true
}

func c11One(run *Run, c kvCase) {
	o, after := runKV(c)
	run.count("op:" + c.Op)
	if o.Err == nil && !o.Panicked {
		run.count("succeeded")
	}
	run.add(c.term(false, o, after), c, o.text()+" after="+canon(after), o.Err == nil && !o.Panicked)

	run.sum.OracleEvals++
	if o.Panicked {
		run.violation(Violation{Key: "panic:" + c.Op, What: c.Op + " panicked", Input: c, Got: o.text(), Want: "error or no-op"})
		return
	}
	if o.Err != nil {
		if canon(after) != canon(c.Map) {
			run.violation(Violation{Key: "error-modified", What: c.Op + " returned an error but modified the Map", Input: c, Got: canon(after), Want: canon(c.Map)})
		}
	}
	segs := strings.Split(c.Path, ".")
	last := segs[len(segs)-1]
	for _, sg := range segs {
		if sg == "" || sg == "*" {
			return
		}
	}
	parent, through := walkMaps(c.Map, segs)
	want := deepCopy(c.Map).(map[string]interface{})
	wparent, _ := walkMaps(want, segs)
	switch c.Op {
	case "SetValueForPath":
		if !through {
			return // parent reached through a list or missing: only the fail-clean clause applies
		}
		if o.Err != nil {
			run.violation(Violation{Key: "set-rejected", What: "SetValueForPath failed although the parent is a map", Input: c, Got: o.text(), Want: "nil"})
			return
		}
		wparent[last] = c.NewVal
		if canon(after) != canon(want) {
			run.violation(Violation{Key: "set-frame", What: "SetValueForPath changed other than the one entry", Input: c, Got: canon(after), Want: canon(want)})
			return
		}
		vo, _ := runKV(kvCase{Op: "ValueForPath", Map: after, Path: c.Path, Sep: ":"})
		exp := specFinal(c.NewVal)
		if len(exp) > 0 && (vo.Err != nil || canon(vo.Ret) != canon(exp[0])) {
			run.violation(Violation{Key: "set-then-get", What: "ValueForPath after SetValueForPath is not the new value", Input: c, Got: vo.text(), Want: canon(exp[0])})
		}
	case "Remove":
		if !through {
			if o.Err == nil && canon(after) != canon(c.Map) {
				run.violation(Violation{Key: "remove-through-nonmap", What: "Remove modified a Map through a non-map parent", Input: c, Got: canon(after), Want: canon(c.Map)})
			}
			return
		}
		if _, present := parent[last]; !present {
			if o.Err == nil {
				run.violation(Violation{Key: "remove-missing-ok", What: "Remove of a missing path did not fail", Input: c, Got: o.text(), Want: "error"})
			}
			return
		}
		delete(wparent, last)
		if o.Err != nil || canon(after) != canon(want) {
			run.violation(Violation{Key: "remove-frame", What: "Remove did not remove exactly the one entry", Input: c, Got: o.text() + " " + canon(after), Want: canon(want)})
			return
		}
		eo, _ := runKV(kvCase{Op: "Exists", Map: after, Path: c.Path, Sep: ":"})
		if b, _ := eo.Ret.(bool); b {
			run.violation(Violation{Key: "remove-still-exists", What: "path still exists after Remove", Input: c, Got: eo.text(), Want: "false"})
		}
	case "RenameKey":
		if !through {
			return
		}
		old, present := parent[last]
		_, sibling := parent[c.NewName]
		if !present || sibling || strings.Contains(c.NewName, ".") || c.NewName == "" {
			if o.Err == nil {
				k := "rename-overwrites-sibling"
				if len(segs) == 1 {
					k = "rename-overwrites-top-level"
				}
				if !present {
					k = "rename-missing-ok"
				}
				run.violation(Violation{Key: k, What: "RenameKey did not refuse (missing path or existing sibling)", Input: c, Got: o.text() + " " + canon(after), Want: "error, Map unchanged"})
			}
			return
		}
		delete(wparent, last)
		wparent[c.NewName] = old
		if o.Err != nil || canon(after) != canon(want) {
			run.violation(Violation{Key: "rename-frame", What: "RenameKey did not move exactly the one entry", Input: c, Got: o.text() + " " + canon(after), Want: canon(want)})
		}
	}
}

// ================================================================ C12

func runC12(cfg runCfg) error {
	r := newRng(cfg.seed)
	run := newRun("C12", cfg.out, cfg.seed, cfg.shards, kvHeader, "case",
		"random Maps x 1..4 key pairs old:new (old = plain/wildcard/indexed path of the Map or missing; new = dot-path, "+
			"40% of the lists with overlapping new paths, 10% malformed pairs); non-trivial = a non-empty Map is built; distinct by input hash")
	for _, c := range loadCorpus("C12") {
		c12One(run, c)
	}
	for i := 0; i < cfg.n; i++ {
		g := genCfg{maxDepth: 4, maxFan: 4, nestedLists: false, emptyLists: true, oddKeys: r.chance(0.15)}
		m := r.genMap(g, 0)
		if r.chance(0.1) {
			// keys that differ from an existing key only by surrounding blanks
			for _, k := range sortedKeys(m) {
				if r.chance(0.5) {
					m[" "+k] = "padded"
				} else {
					m[k+" "] = "padded"
				}
				break
			}
		}
		np := 1 + r.Intn(4)
		overlap := r.chance(0.4)
		var pairs []string
		newPool := []string{"x", "y", "z", "p.q", "p.r", "u.v.w", "t"}
		if overlap {
			newPool = []string{"x", "x.d", "x.d.e", "y", "x.", "y.k"}
		}
		for j := 0; j < np; j++ {
			// a wildcard old path fills a list in map-iteration order; with overlapping new paths the
			// walk then descends into "the first map member", which that order decides: not a function
			// of the input, so such combinations are not generated
			old := r.genPath(m, r.chance(0.3), !overlap && r.chance(0.3), false)
			nw := newPool[r.Intn(len(newPool))]
			if !overlap {
				nw = newPool[(i+j)%len(newPool)]
			}
			p := old + ":" + nw
			if r.chance(0.08) {
				p = r.pick([]string{" " + old + ":" + nw, old + " :" + nw, old + ": " + nw, old + ":" + nw + " "})
			}
			if r.chance(0.1) {
				p = r.pick([]string{old, "", ":" + nw, old + ":", old + ":*", old + ":a[0]", old + ":a:b", old + ":x*y"})
			}
			pairs = append(pairs, p)
		}
		c12One(run, kvCase{Op: "NewMap", Map: m, Pairs: pairs, Sep: ":"})
		// JSON shape: a list directly inside a list whose inner list has a map member; the inner list is projected to X
		// and a later pair's new path extends X (seed C12-6: the walk must not write into the receiver's inner list)
		if r.chance(0.03) {
			k := r.pick([]string{"rows", "grid", "list"})
			inner := []interface{}{"h", map[string]interface{}{"p": "1"}}
			var sm map[string]interface{}
			var ps []string
			if r.chance(0.5) {
				sm = map[string]interface{}{k: []interface{}{inner}, "extra": r.genScalar()}
				ps = []string{k + ":x", "extra:x." + r.pick([]string{"q", "p", "deep.er"})}
			} else {
				sm = map[string]interface{}{k: []interface{}{[]interface{}{"a"}, inner}, "more": r.genScalar()}
				ps = []string{k + "[1]:y.z", "more:y.z." + r.pick([]string{"q", "deep.er"})}
			}
			c12One(run, kvCase{Op: "NewMap", Map: sm, Pairs: ps, Sep: ":"})
		}
	}
	return run.finish()
}

func c12One(run *Run, c kvCase) {
	o, after := runKV(c)
	res, _ := o.Ret.(map[string]interface{})
	run.count("op:NewMap")
	if o.Err != nil {
		run.count("error")
	}
	ordered := true
	for _, p := range c.Pairs {
		if pathHasStar(strings.SplitN(p, ":", 2)[0]) {
			ordered = false
		}
	}
	idxOnStar := false
	for _, p := range c.Pairs {
		old := strings.SplitN(p, ":", 2)[0]
		if keys, okp := specParse(old); (okp && hasIndexOnStar(keys)) || (!okp && pathHasStar(old) && strings.Contains(old, "[")) {
			idxOnStar = true
		}
	}
	if idxOnStar {
		run.count("index-on-wildcard(no model term)") // selects by map-iteration order
	} else if !ordered && len(c.Pairs) > 1 {
		// a wildcard old path fills a list in map-iteration order; a later pair that nests below it then descends into "the
		// first map member", which that order decides: the result is not a function of the input (a key that literally is
		// "*" reads as a wildcard too).  No model term; the receiver clause below is still evaluated.
		run.count("wildcard-with-several-pairs(no model term)")
	} else {
		run.add(c.term(ordered, o, after), c, o.text(), len(res) > 0)
	}

	run.sum.OracleEvals++
	if o.Panicked {
		run.violation(Violation{Key: "panic", What: "NewMap panicked", Input: c, Got: o.text(), Want: "no panic"})
		return
	}
	if canon(after) != canon(c.Map) {
		run.violation(Violation{Key: "receiver-modified", What: "NewMap modified its receiver", Input: c, Got: canon(after), Want: canon(c.Map)})
		return
	}
	// content clause: well-formed pairs, new paths prefix-free, no wildcard old parts (order of a multi-value list)
	type pr struct{ old, nw string }
	var prs []pr
	malformed := false
	for _, p := range c.Pairs {
		if p == "" {
			continue
		}
		vv := strings.Split(p, ":")
		if len(vv) > 2 {
			malformed = true
			break
		}
		old, nw := vv[0], vv[0]
		if len(vv) == 2 {
			nw = vv[1]
		}
		if old == "" || nw == "" || strings.ContainsAny(nw, "*[") {
			malformed = true
			break
		}
		prs = append(prs, pr{old, strings.TrimSuffix(nw, ".")})
	}
	if malformed {
		if o.Err == nil {
			run.violation(Violation{Key: "malformed-pair-accepted", What: "NewMap accepted a malformed key pair", Input: c, Got: o.text(), Want: "error"})
		}
		return
	}
	for i := range prs {
		for j := range prs {
			if i != j && (prs[i].nw == prs[j].nw || strings.HasPrefix(prs[i].nw, prs[j].nw+".")) {
				return // overlapping new paths: only non-modification is claimed
			}
		}
	}
	want := map[string]interface{}{}
	for _, p := range prs {
		if !ordered {
			return
		}
		vo, _ := runKV(kvCase{Op: "ValuesForPath", Map: c.Map, Path: p.old, Sep: ":"})
		if vo.Err != nil {
			if o.Err == nil {
				run.violation(Violation{Key: "bad-old-path-accepted", What: "NewMap accepted an old path ValuesForPath rejects", Input: c, Got: o.text(), Want: "error"})
			}
			return
		}
		vals, _ := vo.Ret.([]interface{})
		if len(vals) == 0 {
			continue
		}
		var nv interface{} = vals
		if len(vals) == 1 {
			nv = vals[0]
		}
		segs := strings.Split(p.nw, ".")
		cur := want
		for _, sg := range segs[:len(segs)-1] {
			nx, ok := cur[sg].(map[string]interface{})
			if !ok {
				nx = map[string]interface{}{}
				cur[sg] = nx
			}
			cur = nx
		}
		cur[segs[len(segs)-1]] = nv
	}
	if o.Err != nil || canon(res) != canon(want) {
		run.violation(Violation{Key: "content-differs", What: "NewMap result is not exactly the requested projection", Input: c, Got: o.text(), Want: canon(want)})
	}
}

func init() {
	props["C08"] = runC08
	props["C09"] = runC09
	props["C10"] = runC10
	props["C11"] = runC11
	props["C12"] = runC12
}
