package main

// C19 - Maps written to files, gob or Copy are read back equal.
//
// Correspondence (Run/RunFiles.v): the read loop of NewMapsFrom{Xml,Json}File[Raw] fed with the
// results the real one-document readers returned at each file offset; the write loop of
// XmlFile/XmlFileIndent/JsonFile/JsonFileIndent fed with the real per-Map encodings; Json()'s
// rewrite of json.Marshal's bytes; Copy = Json then NewMapJson; Gob/NewMapGob against the
// registration model; the getJson scanner on byte strings.
// Oracle: the clauses of the property on the implementation's own results, and the hypotheses
// of the Coq theorems (hyp-reads, hyp-truncation) on the real readers.

import (
	"bytes"
	"encoding/json"
	"encoding/xml"
	"fmt"
	"io"
	"os"
	"path/filepath"
	"reflect"
	"sort"
	"strings"

	mxj "github.com/clbanning/mxj/v2"
)

const c19BS = "\\"

const c19Header = "From Mxj Require Import Run.RunFiles.\nLocal Open Scope string_scope.\n"

func init() {
	props["C19"] = runC19
	replays["C19"] = replayC19
}

// ---------------------------------------------------------------- inputs

// c19Input is one replayable scenario.
type c19Input struct {
	Kind    string                   `json:"kind"` // xml xmlindent json jsonindent | gob copy unreadable
	Prefix  string                   `json:"prefix,omitempty"`
	Indent  string                   `json:"indent,omitempty"`
	Safe    bool                     `json:"safe,omitempty"`
	Opts    *xOpts                   `json:"opts,omitempty"`
	Docs    []string                 `json:"xml_docs,omitempty"` // XML domain: the Maps are NewMapXml of these
	Maps    []map[string]interface{} `json:"maps,omitempty"`     // JSON domain
	Cut     *int                     `json:"cut,omitempty"`      // truncate the written file to this many bytes
	CorAt   *int                     `json:"corrupt_at,omitempty"`
	CorByte *int                     `json:"corrupt_byte,omitempty"`
	Raw     *bool                    `json:"raw_reader,omitempty"`
	Path    string                   `json:"path,omitempty"` // unreadable: missing dir notdir empty
	noEmit  bool                     // oracle only: the case is not printed for the Coq side
}

func (in c19Input) isXML() bool { return in.Kind == "xml" || in.Kind == "xmlindent" }

var c19Keys = []string{"a", "b", "c", "k", "list", "x y", "{", "}", "\"q\"", "a" + c19BS + "b", "é", "-id", "#text", "", "K", "d-e"}
var c19Strs = []string{"x", "", "hello world", "}", "{", "}{", "{\"k\":1}", "\"", "a\"b", c19BS + "\"", "\"}", c19BS + "\"}{",
	"a" + c19BS + "b", c19BS + "n", "c:" + c19BS + "dir" + c19BS + "f", c19BS + c19BS + "x", "é€", "日本", "l1\nl2", "\ttab", "<&>", "a<b", " u ", "1", "true", "null", "[]", "{}"}
var c19TrigStrs = []string{"x" + c19BS, c19BS, "a" + c19BS + c19BS, c19BS + "u003c", "a" + c19BS + "u0026b", c19BS + "u003e" + "z", "p" + c19BS + "u003c" + c19BS}
var c19Floats = []float64{0, 1, -2, 2.5, 1e21, 1e-7, 123456789, -0.125}

func (r *Rng) c19Str() string {
	if r.chance(0.03) {
		return r.pick(c19TrigStrs)
	}
	return r.pick(c19Strs)
}

func (r *Rng) c19Val(depth int) interface{} {
	x := r.Intn(20)
	switch {
	case x < 10 || depth >= 3:
		if x < 7 || depth < 3 {
			return r.c19Str()
		}
		if x < 9 {
			return c19Floats[r.Intn(len(c19Floats))]
		}
		return r.chance(0.5)
	case x < 13:
		return c19Floats[r.Intn(len(c19Floats))]
	case x < 14:
		return r.chance(0.5)
	case x < 17:
		return r.c19Map(depth+1, false)
	default:
		n := r.Intn(4)
		l := make([]interface{}, 0, n)
		for i := 0; i < n; i++ {
			l = append(l, r.c19Val(depth+1))
		}
		return l
	}
}

func (r *Rng) c19Map(depth int, top bool) map[string]interface{} {
	n := 1 + r.Intn(3)
	if !top && r.chance(0.1) {
		n = 0
	}
	if top && r.chance(0.04) {
		n = 0
	}
	m := make(map[string]interface{}, n)
	for i := 0; i < n; i++ {
		k := r.pick(c19Keys)
		if r.chance(0.01) {
			k = r.pick(c19TrigStrs)
		}
		m[k] = r.c19Val(depth)
	}
	return m
}

// ---------------------------------------------------------------- running the implementation

type c19Step struct {
	Off, Len int
	M        map[string]interface{}
	Raw      []byte
	Err      string // nil eof other panic
	Msg      string
}

func c19ErrClass(err error) string {
	switch {
	case err == nil:
		return "nil"
	case err == io.EOF:
		return "eof"
	}
	return "other"
}

func c19CoqErr(c string) string {
	switch c {
	case "nil":
		return "RNil"
	case "eof":
		return "REOF"
	case "other":
		return "ROther"
	}
	return "RPanic"
}

func c19CoqMap(m map[string]interface{}) string {
	if m == nil {
		return "VNil"
	}
	return coqVal(m)
}

func c19CoqSteps(st []c19Step) string {
	parts := make([]string, len(st))
	for i, x := range st {
		parts[i] = fmt.Sprintf("mkStep %d %d %s %s %s", x.Off, x.Len, c19CoqMap(x.M), coqStr(string(x.Raw)), c19CoqErr(x.Err))
	}
	return "[" + strings.Join(parts, ";") + "]"
}

// c19Steps calls the exported one-document reader on the open file until it reports an error or panics.
func c19Steps(xmlKind bool, path string) []c19Step {
	fh, err := os.Open(path)
	if err != nil {
		return nil
	}
	defer fh.Close()
	fi, _ := fh.Stat()
	limit := int(fi.Size()) + 3
	var out []c19Step
	for i := 0; i < limit; i++ {
		off, _ := fh.Seek(0, io.SeekCurrent)
		st := c19Step{Off: int(off)}
		func() {
			defer func() {
				if rec := recover(); rec != nil {
					st.Err, st.Msg = "panic", fmt.Sprint(rec)
				}
			}()
			var m mxj.Map
			var raw []byte
			var err error
			if xmlKind {
				m, raw, err = mxj.NewMapXmlReaderRaw(fh)
			} else {
				m, raw, err = mxj.NewMapJsonReaderRaw(fh)
			}
			st.M, st.Raw, st.Err = m, append([]byte{}, raw...), c19ErrClass(err)
			if err != nil {
				st.Msg = err.Error()
			}
		}()
		end, _ := fh.Seek(0, io.SeekCurrent)
		st.Len = int(end - off)
		out = append(out, st)
		if st.Err != "nil" {
			break
		}
	}
	return out
}

type c19Obs struct {
	Panicked bool
	PanicMsg string
	Nil      bool
	Maps     []map[string]interface{}
	Raws     [][]byte
	Err      error
}

func c19Read(xmlKind, raw bool, path string) (o c19Obs) {
	defer func() {
		if rec := recover(); rec != nil {
			o = c19Obs{Panicked: true, PanicMsg: fmt.Sprint(rec)}
		}
	}()
	if raw {
		var mr []mxj.MapRaw
		var err error
		if xmlKind {
			mr, err = mxj.NewMapsFromXmlFileRaw(path)
		} else {
			mr, err = mxj.NewMapsFromJsonFileRaw(path)
		}
		o.Nil, o.Err = mr == nil, err
		for _, x := range mr {
			o.Maps = append(o.Maps, x.M)
			o.Raws = append(o.Raws, x.R)
		}
		return o
	}
	var ms mxj.Maps
	var err error
	if xmlKind {
		ms, err = mxj.NewMapsFromXmlFile(path)
	} else {
		ms, err = mxj.NewMapsFromJsonFile(path)
	}
	o.Nil, o.Err = ms == nil, err
	for _, x := range ms {
		o.Maps = append(o.Maps, x)
		o.Raws = append(o.Raws, nil)
	}
	return o
}

func (o c19Obs) coq() string {
	if o.Panicked {
		return "OPanicked"
	}
	parts := make([]string, len(o.Maps))
	for i := range o.Maps {
		parts[i] = "(" + c19CoqMap(o.Maps[i]) + "," + coqStr(string(o.Raws[i])) + ")"
	}
	return fmt.Sprintf("(ORet %s [%s] %s)", coqBool(o.Nil), strings.Join(parts, ";"), coqBool(o.Err != nil))
}

func (o c19Obs) text() string {
	if o.Panicked {
		return "panic: " + o.PanicMsg
	}
	var sb strings.Builder
	fmt.Fprintf(&sb, "%d Maps", len(o.Maps))
	if o.Nil {
		sb.WriteString(" (nil slice)")
	}
	for i, m := range o.Maps {
		sb.WriteString(" | " + canon(m))
		if o.Raws[i] != nil {
			fmt.Fprintf(&sb, " raw=%q", o.Raws[i])
		}
	}
	if o.Err != nil {
		sb.WriteString(" | error: " + o.Err.Error())
	}
	return sb.String()
}

// c19Enc is the per-Map encoder the writer of this kind calls.
func c19Enc(in c19Input, m map[string]interface{}) (b []byte, err error) {
	defer func() {
		if rec := recover(); rec != nil {
			b, err = nil, fmt.Errorf("panic: %v", rec)
		}
	}()
	mv := mxj.Map(m)
	switch in.Kind {
	case "xml":
		return mv.Xml()
	case "xmlindent":
		return mv.XmlIndent(in.Prefix, in.Indent)
	case "json":
		if in.Safe {
			return mv.Json(true)
		}
		return mv.Json()
	default:
		if in.Safe {
			return mv.JsonIndent(in.Prefix, in.Indent, true)
		}
		return mv.JsonIndent(in.Prefix, in.Indent)
	}
}

func c19Write(in c19Input, ms []map[string]interface{}, path string) (err error, panicked bool) {
	defer func() {
		if rec := recover(); rec != nil {
			err, panicked = fmt.Errorf("panic: %v", rec), true
		}
	}()
	mvs := make(mxj.Maps, len(ms))
	for i, m := range ms {
		mvs[i] = mxj.Map(m)
	}
	switch in.Kind {
	case "xml":
		return mvs.XmlFile(path), false
	case "xmlindent":
		return mvs.XmlFileIndent(path, in.Prefix, in.Indent), false
	case "json":
		if in.Safe {
			return mvs.JsonFile(path, true), false
		}
		return mvs.JsonFile(path), false
	default:
		if in.Safe {
			return mvs.JsonFileIndent(path, in.Prefix, in.Indent, true), false
		}
		return mvs.JsonFileIndent(path, in.Prefix, in.Indent), false
	}
}

func c19OwnDecode(xmlKind bool, enc []byte) (m map[string]interface{}, err error) {
	defer func() {
		if rec := recover(); rec != nil {
			m, err = nil, fmt.Errorf("panic: %v", rec)
		}
	}()
	if xmlKind {
		mv, e := mxj.NewMapXml(enc)
		return mv, e
	}
	mv, e := mxj.NewMapJson(enc)
	return mv, e
}

// ---------------------------------------------------------------- the environment of one run

type c19Env struct {
	run     *Run
	r       *Rng
	dir     string
	verbose bool // replay: print what happens
	nfile   int
}

func (e *c19Env) say(format string, a ...interface{}) {
	if e.verbose {
		fmt.Printf(format+"\n", a...)
	}
}

func (e *c19Env) add(term string, in c19Input, impl string, nontrivial bool) {
	if e.run != nil && !in.noEmit {
		e.run.add(term, in, impl, nontrivial)
	}
}
func (e *c19Env) count(k string) {
	if e.run != nil {
		e.run.count(k)
	}
}
func (e *c19Env) oracle() {
	if e.run != nil {
		e.run.sum.OracleEvals++
	}
}
func (e *c19Env) violation(key, what string, in c19Input, got, want string) {
	e.say("ORACLE FAILS [%s] %s\n  got:  %s\n  want: %s", key, what, got, want)
	if e.run != nil {
		e.run.violation(Violation{Key: key, What: what, Input: in, Got: got, Want: want})
	}
}

func (e *c19Env) path(name string) string {
	e.nfile++
	return filepath.Join(e.dir, fmt.Sprintf("%s_%d", name, e.nfile))
}

// the Maps of a scenario
func (e *c19Env) maps(in c19Input) ([]map[string]interface{}, bool) {
	if !in.isXML() {
		out := make([]map[string]interface{}, len(in.Maps))
		for i, m := range in.Maps {
			out[i] = deepCopy(m).(map[string]interface{})
		}
		return out, true
	}
	var out []map[string]interface{}
	for _, d := range in.Docs {
		m, err := c19OwnDecode(true, []byte(d))
		if err != nil || m == nil {
			return nil, false
		}
		out = append(out, m)
	}
	return out, true
}

type c19Doc struct {
	Enc  []byte                 // text the writer's encoder produced for the Map
	Sep  []byte                 // separator written before it
	Dec  map[string]interface{} // what that text decodes to on its own
	DErr error
}

func (d c19Doc) length() int { return len(d.Sep) + len(d.Enc) }

func c19StartByte(xmlKind bool) byte {
	if xmlKind {
		return '<'
	}
	return '{'
}

// fileScenario: write, read back, truncate, corrupt.  Returns false when the scenario is outside the domain.
func (e *c19Env) fileScenario(in c19Input) bool {
	xmlKind := in.isXML()
	if in.Opts != nil {
		in.Opts.apply()
		defer restoreDefaults()
	}
	ms, ok := e.maps(in)
	if !ok {
		e.count("skip:source-document-undecodable")
		return false
	}
	// per-Map texts through the exported encoders (the parameter enc of the writer model)
	docs := make([]c19Doc, len(ms))
	encs := make([]string, len(ms))
	encFail := false
	for i, m := range ms {
		b, err := c19Enc(in, m)
		if err != nil {
			encs[i] = "None"
			encFail = true
			continue
		}
		docs[i].Enc = b
		if in.Kind == "jsonindent" && i > 0 {
			docs[i].Sep = []byte("\n")
		}
		encs[i] = "(Some " + coqStr(string(b)) + ")"
		docs[i].Dec, docs[i].DErr = c19OwnDecode(xmlKind, b)
	}
	path := e.path("w")
	os.Remove(path)
	werr, wpanic := c19Write(in, ms, path)
	content, rerr := os.ReadFile(path)
	contentTerm := "None"
	if rerr == nil {
		contentTerm = "(Some " + coqStr(string(content)) + ")"
	}
	e.say("writer %s(prefix=%q indent=%q) error=%v file=%q", in.Kind, in.Prefix, in.Indent, werr, content)
	if in.Cut == nil && in.CorAt == nil {
		e.count("writer:" + in.Kind)
		e.add(fmt.Sprintf("CWrite %s [%s] true %s %s", coqBool(in.Kind == "jsonindent"), strings.Join(encs, ";"), contentTerm, coqBool(werr != nil)),
			in, fmt.Sprintf("err=%v content=%q", werr, content), len(ms) > 1)
		e.oracle()
		if wpanic {
			e.violation("writer-panic", "the file writer panicked", in, werr.Error(), "a file or an error")
			return true
		}
	}
	if encFail || werr != nil {
		e.count("writer-error")
		if rerr == nil && in.Cut == nil && in.CorAt == nil {
			e.violation("writer-error-leaves-file", "the writer returned an error but created the file", in, fmt.Sprintf("%q", content), "no file")
		}
		return true
	}
	var want bytes.Buffer
	for _, d := range docs {
		want.Write(d.Sep)
		want.Write(d.Enc)
	}
	if in.Cut == nil && in.CorAt == nil && !bytes.Equal(want.Bytes(), content) {
		e.violation("writer-content", "the file does not hold the per-Map encodings in order", in, fmt.Sprintf("%q", content), fmt.Sprintf("%q", want.Bytes()))
		return true
	}
	knownKey := func(dflt string) string { return dflt }
	whole := in.Cut == nil && in.CorAt == nil
	for i, d := range docs {
		if d.DErr != nil {
			if xmlKind {
				e.count("skip:own-xml-encoding-undecodable")
				return false
			}
			if !whole {
				continue
			}
			e.oracle()
			e.violation(knownKey("json-own-decode-fails"), "NewMapJson rejects the text Json() wrote for this Map", in, d.DErr.Error(), canon(ms[i]))
		} else if whole && !xmlKind && canon(d.Dec) != canon(ms[i]) {
			e.violation(knownKey("json-own-decode-differs"), "the text Json() wrote decodes to a different Map", in, canon(d.Dec), canon(ms[i]))
		}
	}
	expected := make([]map[string]interface{}, len(ms))
	for i := range ms {
		if xmlKind {
			expected[i] = docs[i].Dec
		} else {
			expected[i] = ms[i]
		}
	}

	switch {
	case in.Cut != nil:
		e.truncated(in, xmlKind, content, docs, expected, *in.Cut, false)
		return true
	case in.CorAt != nil:
		e.corrupted(in, xmlKind, content, docs, expected, *in.CorAt, byte(*in.CorByte), false)
		return true
	}

	// ---- whole file
	steps := c19Steps(xmlKind, path)
	stepTerm := c19CoqSteps(steps)
	// hypotheses of the round-trip theorems, on the real reader
	readsOK := true
	hyp := make([]string, len(docs))
	off := 0
	find := func(off int) *c19Step {
		for i := range steps {
			if steps[i].Off == off {
				return &steps[i]
			}
		}
		return nil
	}
	for i, d := range docs {
		var dec map[string]interface{}
		if d.DErr == nil {
			dec = d.Dec
		}
		hyp[i] = fmt.Sprintf("(%d,%s,%s)", d.length(), c19CoqMap(dec), coqStr(string(d.Enc)))
	}
	for _, d := range docs {
		var dec map[string]interface{}
		if d.DErr == nil {
			dec = d.Dec
		}
		st := find(off)
		if st == nil {
			readsOK = false
			break
		}
		if !(st.Err == "nil" && st.Len == d.length() && dec != nil && st.M != nil && canon(st.M) == canon(dec)) {
			readsOK = false
		}
		off += d.length()
		if !readsOK {
			break
		}
	}
	if readsOK {
		st := find(off)
		if st == nil || st.Err != "eof" || st.M != nil {
			readsOK = false
		}
	}
	// the Coq side recomputes both answers from the table (reads_ok, raws_ok)
	coqReads, coqRaw := c19HypEval(docs, steps)
	e.add(fmt.Sprintf("CHyp [%s] %s %s %s", strings.Join(hyp, ";"), stepTerm, coqBool(coqReads), coqBool(coqRaw)), in,
		fmt.Sprintf("reads=%v raw=%v", coqReads, coqRaw), len(docs) > 1)
	e.oracle()
	if !readsOK {
		e.violation(knownKey("hyp-reads"), "the one-document reader does not take each written document from the front of the file (hypothesis Reads/AtEOF of the round-trip theorems)",
			in, c19StepsText(steps), fmt.Sprintf("%d documents of lengths %v, then EOF", len(docs), c19Lens(docs)))
	}

	for _, raw := range []bool{false, true} {
		o := c19Read(xmlKind, raw, path)
		e.count(fmt.Sprintf("read:%s:raw=%v", in.Kind, raw))
		e.count(fmt.Sprintf("maps-in-file:%d", len(ms)))
		e.add(fmt.Sprintf("CRead %s FsOk %d %s %s", coqBool(raw), len(content), stepTerm, o.coq()), in, o.text(), len(ms) > 1)
		e.say("reader raw=%v: %s", raw, o.text())
		e.oracle()
		what := "NewMapsFrom" + map[bool]string{true: "Xml", false: "Json"}[xmlKind] + "File" + map[bool]string{true: "Raw", false: ""}[raw]
		wantText := fmt.Sprintf("%d Maps: %s", len(expected), c19CanonList(expected))
		switch {
		case o.Panicked:
			e.violation(knownKey("reader-panic"), what+" panicked on a file the writer wrote", in, o.text(), wantText)
		case o.Err != nil:
			e.violation(knownKey("roundtrip-error"), what+" returned an error for a file the writer wrote", in, o.text(), wantText)
		case len(o.Maps) != len(expected):
			e.violation(knownKey("roundtrip-count"), what+" returned a different number of Maps", in, o.text(), wantText)
		default:
			for i := range expected {
				if canon(o.Maps[i]) != canon(expected[i]) {
					e.violation(knownKey("roundtrip-map-differs"), fmt.Sprintf("%s: Map %d differs from the Map its own encoding decodes to / the original", what, i), in, o.text(), wantText)
					break
				}
				if !reflect.DeepEqual(o.Maps[i], expected[i]) {
					e.violation(knownKey("roundtrip-deepequal-differs"), fmt.Sprintf("%s: Map %d is not reflect.DeepEqual to the Map its own encoding decodes to / the original", what, i), in,
						fmt.Sprintf("%#v", o.Maps[i]), fmt.Sprintf("%#v", expected[i]))
					break
				}
			}
			if raw {
				for i := range expected {
					if !bytes.Contains(o.Raws[i], docs[i].Enc) {
						key := knownKey("raw-lacks-document-text")
						if !xmlKind {
							// the raw value is exactly the compacted document: only white space outside strings is missing
							var cb bytes.Buffer
							if json.Compact(&cb, docs[i].Enc) == nil && bytes.Equal(cb.Bytes(), o.Raws[i]) && !bytes.Equal(cb.Bytes(), docs[i].Enc) {
								key = "json-raw-whitespace-dropped"
							}
						}
						e.violation(key, fmt.Sprintf("%s: the raw value of Map %d does not contain the document's text", what, i), in,
							fmt.Sprintf("%q", o.Raws[i]), fmt.Sprintf("contains %q", docs[i].Enc))
						break
					}
				}
			}
		}
	}
	return true
}

func c19Lens(docs []c19Doc) []int {
	out := make([]int, len(docs))
	for i, d := range docs {
		out[i] = d.length()
	}
	return out
}

func c19CanonList(ms []map[string]interface{}) string {
	parts := make([]string, len(ms))
	for i, m := range ms {
		parts[i] = canon(m)
	}
	return strings.Join(parts, " | ")
}

func c19StepsText(st []c19Step) string {
	parts := make([]string, len(st))
	for i, x := range st {
		parts[i] = fmt.Sprintf("@%d +%d %s %s", x.Off, x.Len, x.Err, canon(x.M))
		if x.Msg != "" {
			parts[i] += " (" + x.Msg + ")"
		}
	}
	return strings.Join(parts, " ; ")
}

// c19HypEval mirrors reads_ok / raws_ok of Run/RunFiles.v (veqb is canon equality here).
func c19HypEval(docs []c19Doc, steps []c19Step) (bool, bool) {
	find := func(off int) *c19Step {
		for i := range steps {
			if steps[i].Off == off {
				return &steps[i]
			}
		}
		return nil
	}
	var reads func(i, off int) bool
	reads = func(i, off int) bool {
		st := find(off)
		if st == nil {
			return false
		}
		if i == len(docs) {
			return st.Err == "eof" && st.M == nil
		}
		d := docs[i]
		var dec map[string]interface{}
		if d.DErr == nil {
			dec = d.Dec
		}
		same := (st.M == nil) == (dec == nil) && (dec == nil || canon(st.M) == canon(dec))
		return st.Err == "nil" && st.Len == d.length() && same && reads(i+1, off+d.length())
	}
	var raws func(i, off int) bool
	raws = func(i, off int) bool {
		if i == len(docs) {
			return true
		}
		st := find(off)
		if st == nil {
			return false
		}
		return bytes.Contains(st.Raw, docs[i].Enc) && raws(i+1, off+docs[i].length())
	}
	return reads(0, 0), raws(0, 0)
}

// locate: i whole documents lie before byte n; k bytes of document i follow them
func c19Locate(docs []c19Doc, n int) (int, int) {
	for i, d := range docs {
		if n < d.length() {
			return i, n
		}
		n -= d.length()
	}
	return len(docs), 0
}

func (e *c19Env) truncated(in c19Input, xmlKind bool, content []byte, docs []c19Doc, expected []map[string]interface{}, cut int, defect bool) {
	if cut > len(content) {
		cut = len(content)
	}
	path := e.path("t")
	os.WriteFile(path, content[:cut], 0o644)
	defer os.Remove(path)
	raw := in.Raw != nil && *in.Raw
	steps := c19Steps(xmlKind, path)
	o := c19Read(xmlKind, raw, path)
	e.count("truncated")
	e.add(fmt.Sprintf("CRead %s FsOk %d %s %s", coqBool(raw), cut, c19CoqSteps(steps), o.coq()), in, o.text(), true)
	e.say("file cut at %d: %q\nsteps: %s\nreader raw=%v: %s", cut, content[:cut], c19StepsText(steps), raw, o.text())
	if defect {
		e.count("truncation-oracle-skipped:known-defect-shape-in-file")
		return
	}
	e.oracle()
	i, k := c19Locate(docs, cut)
	started := false
	if i < len(docs) {
		full := append(append([]byte{}, docs[i].Sep...), docs[i].Enc...)
		started = bytes.IndexByte(full[:k], c19StartByte(xmlKind)) >= 0
	}
	want := fmt.Sprintf("%d Maps: %s; error=%v", i, c19CanonList(expected[:i]), started)
	switch {
	case o.Panicked:
		e.violation("truncated-panic", "reading a truncated file panicked", in, o.text(), want)
	case o.Nil:
		e.violation("truncated-nil", "a truncated file yields a nil slice instead of the Maps read so far", in, o.text(), want)
	case len(o.Maps) != i || c19CanonList(o.Maps) != c19CanonList(expected[:i]):
		e.violation("truncated-prefix", "a truncated file does not yield the Maps that lie wholly before the cut", in, o.text(), want)
	case (o.Err != nil) != started:
		e.violation("hyp-truncation", "a truncated file must yield an error exactly when a document has begun after the last whole one", in, o.text(), want)
	}
}

func (e *c19Env) corrupted(in c19Input, xmlKind bool, content []byte, docs []c19Doc, expected []map[string]interface{}, at int, nb byte, defect bool) {
	if at >= len(content) {
		return
	}
	cor := append([]byte{}, content...)
	cor[at] = nb
	path := e.path("c")
	os.WriteFile(path, cor, 0o644)
	defer os.Remove(path)
	raw := in.Raw != nil && *in.Raw
	steps := c19Steps(xmlKind, path)
	o := c19Read(xmlKind, raw, path)
	e.count("corrupted")
	e.add(fmt.Sprintf("CRead %s FsOk %d %s %s", coqBool(raw), len(cor), c19CoqSteps(steps), o.coq()), in, o.text(), true)
	e.say("file corrupted at %d (%q -> %q): %q\nsteps: %s\nreader raw=%v: %s", at, content[at], nb, cor, c19StepsText(steps), raw, o.text())
	if !xmlKind && len(cor) <= 400 {
		e.scanCase(in, cor)
	}
	if defect {
		e.count("corruption-oracle-skipped:known-defect-shape-in-file")
		return
	}
	e.oracle()
	i, _ := c19Locate(docs, at)
	malformed := c19Malformed(xmlKind, cor)
	if malformed {
		e.count("corrupted:malformed")
	} else {
		e.count("corrupted:still-well-formed")
	}
	want := fmt.Sprintf("first %d Maps: %s; malformed=%v => error", i, c19CanonList(expected[:i]), malformed)
	switch {
	case o.Panicked:
		e.violation("corrupted-panic", "reading a malformed file panicked instead of returning an error with the Maps read so far", in, o.text(), want)
	case o.Nil:
		e.violation("corrupted-nil", "a malformed file yields a nil slice instead of the Maps read so far", in, o.text(), want)
	case len(o.Maps) < i || c19CanonList(o.Maps[:i]) != c19CanonList(expected[:i]):
		e.violation("corrupted-prefix", "the Maps of the documents before the corrupted one are not returned first", in, o.text(), want)
	case malformed && o.Err == nil:
		key := "malformed-accepted"
		if !xmlKind {
			_, k := c19Locate(docs, at)
			sepLen := 0
			if i < len(docs) {
				sepLen = len(docs[i].Sep)
			}
			switch {
			case nb == ' ' || nb == '\n' || nb == '\t' || nb == '\r':
				// white space inside a token: getJson deletes white space outside strings before decoding, the token's halves merge
				key = "json-whitespace-in-token-removed"
			case len(o.Maps) == len(expected) && c19CanonList(o.Maps) == c19CanonList(expected):
				// every Map of the undamaged file is returned: the damaged byte lies outside the documents and is skipped
				key = "json-junk-outside-documents-ignored"
			case nb == '"' && k <= sepLen:
				// a double quote before the opening brace of a document: the scanner is inside a string from there on
				key = "json-quote-outside-document-drops-maps"
			case c19LeadingDocsReturned(cor, o.Maps):
				// every document before the first byte encoding/json rejects is returned; the rest is skipped silently
				key = "json-junk-outside-documents-ignored"
			}
		}
		e.violation(key, "a malformed file is read without an error", in, o.text(), want)
	}
}

// c19LeadingDocsReturned: the objects encoding/json decodes from the front of b, up to the first byte it
// rejects, are the first Maps returned.
func c19LeadingDocsReturned(b []byte, got []map[string]interface{}) bool {
	d := json.NewDecoder(bytes.NewReader(b))
	n := 0
	for {
		var v interface{}
		if err := d.Decode(&v); err != nil {
			return true
		}
		m, ok := v.(map[string]interface{})
		if !ok {
			return true
		}
		if n >= len(got) || canon(got[n]) != canon(m) {
			return false
		}
		n++
	}
}

// c19Malformed: the standard library's own reader of a stream of documents rejects the bytes.
func c19Malformed(xmlKind bool, b []byte) bool {
	if xmlKind {
		d := xml.NewDecoder(bytes.NewReader(b))
		for {
			_, err := d.Token()
			if err == io.EOF {
				return false
			}
			if err != nil {
				return true
			}
		}
	}
	d := json.NewDecoder(bytes.NewReader(b))
	for {
		var v interface{}
		err := d.Decode(&v)
		if err == io.EOF {
			return false
		}
		if err != nil {
			return true
		}
		if _, ok := v.(map[string]interface{}); !ok {
			return true
		}
	}
}

// scanCase: NewMapJsonReaderRaw on a byte string against the transcribed scanner.
func (e *c19Env) scanCase(in c19Input, b []byte) {
	rd := bytes.NewReader(b)
	st := c19Step{}
	func() {
		defer func() {
			if rec := recover(); rec != nil {
				st.Err = "panic"
			}
		}()
		_, raw, err := mxj.NewMapJsonReaderRaw(rd)
		st.Raw, st.Err = raw, c19ErrClass(err)
	}()
	consumed := len(b) - rd.Len()
	e.count("scan:" + st.Err)
	e.add(fmt.Sprintf("CScan %s %s %s %d", coqStr(string(b)), coqStr(string(st.Raw)), c19CoqErr(st.Err), consumed), in,
		fmt.Sprintf("raw=%q err=%s consumed=%d", st.Raw, st.Err, consumed), true)
}

// ---------------------------------------------------------------- unreadable paths

func (e *c19Env) unreadable(in c19Input) {
	var path, fs string
	switch in.Path {
	case "missing":
		path, fs = filepath.Join(e.dir, "does-not-exist"), "FsStat"
	case "dir":
		path, fs = e.dir, "FsNotReg"
	case "notdir":
		f := e.path("plain")
		os.WriteFile(f, []byte("<a/>"), 0o644)
		path, fs = filepath.Join(f, "below"), "FsStat"
	default:
		path, fs = "", "FsStat"
	}
	for _, xmlKind := range []bool{true, false} {
		for _, raw := range []bool{false, true} {
			o := c19Read(xmlKind, raw, path)
			e.count("unreadable:" + in.Path)
			e.add(fmt.Sprintf("CRead %s %s 0 [] %s", coqBool(raw), fs, o.coq()), in, o.text(), false)
			e.say("unreadable path %q xml=%v raw=%v: %s", path, xmlKind, raw, o.text())
			e.oracle()
			if o.Panicked || o.Err == nil || len(o.Maps) != 0 {
				e.violation("unreadable-no-error", "an unreadable path must yield an error and no Maps", in, o.text(), "0 Maps and an error")
			}
		}
	}
}

// ---------------------------------------------------------------- gob, Copy, Json

func c19HasEmptyList(v interface{}) bool {
	switch x := v.(type) {
	case map[string]interface{}:
		for _, e := range x {
			if c19HasEmptyList(e) {
				return true
			}
		}
	case []interface{}:
		if len(x) == 0 {
			return true
		}
		for _, e := range x {
			if c19HasEmptyList(e) {
				return true
			}
		}
	}
	return false
}

func c19Nested(m map[string]interface{}) bool {
	for _, v := range m {
		switch v.(type) {
		case map[string]interface{}, []interface{}:
			return true
		}
	}
	return false
}

func (e *c19Env) gobCase(in c19Input, m map[string]interface{}) {
	orig := canon(m)
	var gb []byte
	var gerr, derr error
	var back mxj.Map
	panicked := ""
	func() {
		defer func() {
			if rec := recover(); rec != nil {
				panicked = fmt.Sprint(rec)
			}
		}()
		gb, gerr = mxj.Map(m).Gob()
		if gerr == nil {
			back, derr = mxj.NewMapGob(gb)
		}
	}()
	dec := "DErr"
	switch {
	case panicked != "":
		dec = "DPanic"
	case gerr == nil && derr == nil:
		dec = "(DOk " + coqVal(map[string]interface{}(back)) + ")"
	}
	e.count(fmt.Sprintf("gob:nested=%v", c19Nested(m)))
	impl := fmt.Sprintf("Gob: %d bytes err=%v; NewMapGob: %s err=%v", len(gb), gerr, canon(map[string]interface{}(back)), derr)
	e.add(fmt.Sprintf("CGob %s %s %s", coqVal(m), coqBool(gerr == nil && panicked == ""), dec), in, impl, len(m) > 1)
	e.say("%s", impl)
	e.oracle()
	key := "gob-roundtrip"
	switch {
	case panicked != "":
		e.violation("gob-panic", "Gob/NewMapGob panicked", in, panicked, orig)
	case gerr != nil:
		e.violation(key, "Gob returns an error for a Map of JSON types", in, gerr.Error(), orig)
	case derr != nil || canon(map[string]interface{}(back)) != orig:
		e.violation(key, "NewMapGob(Gob(m)) is not deeply equal to m", in, impl, orig)
	case canon(m) != orig:
		e.violation("gob-mutates", "Gob changed its receiver", in, canon(m), orig)
	case !reflect.DeepEqual(m, map[string]interface{}(back)):
		// same entries, same dynamic types, yet not reflect.DeepEqual: an empty slice came back as a nil slice
		key = "gob-deepequal-differs"
		if c19HasEmptyList(m) {
			key = "gob-empty-list-becomes-nil"
		}
		e.violation(key, "NewMapGob(Gob(m)) is not reflect.DeepEqual to m", in, fmt.Sprintf("%#v", map[string]interface{}(back)), fmt.Sprintf("%#v", m))
	}
}

// containers lists the addresses of every map and non-empty slice reachable from v.
func c19Containers(v interface{}, out map[uintptr]bool) {
	switch x := v.(type) {
	case map[string]interface{}:
		out[reflect.ValueOf(x).Pointer()] = true
		for _, e := range x {
			c19Containers(e, out)
		}
	case []interface{}:
		if len(x) > 0 {
			out[reflect.ValueOf(x).Pointer()] = true
		}
		for _, e := range x {
			c19Containers(e, out)
		}
	}
}

// c19MutateAll writes into every container of v, at every depth.
func c19MutateAll(v interface{}) {
	switch x := v.(type) {
	case map[string]interface{}:
		for k, e := range x {
			c19MutateAll(e)
			switch e.(type) {
			case map[string]interface{}, []interface{}:
			default:
				x[k] = "MUTATED"
			}
		}
		x["__added__"] = "MUTATED"
	case []interface{}:
		for i, e := range x {
			c19MutateAll(e)
			switch e.(type) {
			case map[string]interface{}, []interface{}:
			default:
				x[i] = "MUTATED"
			}
		}
	}
}

func (e *c19Env) copyCase(in c19Input, m map[string]interface{}) {
	orig := canon(m)
	// what a json.Encoder writes for the Map with the HTML escaping on / off (the parameter encode of the model)
	encOut := func(esc bool) ([]byte, error) {
		var buf bytes.Buffer
		en := json.NewEncoder(&buf)
		en.SetEscapeHTML(esc)
		err := en.Encode(m)
		return buf.Bytes(), err
	}
	for _, safe := range []bool{false, true} {
		var j []byte
		var jerr error
		if safe {
			j, jerr = mxj.Map(m).Json(true)
		} else {
			j, jerr = mxj.Map(m).Json()
		}
		eo, eerr := encOut(safe)
		if eerr == nil && jerr == nil {
			e.add(fmt.Sprintf("CJson %s %s %s", coqStr(string(eo)), coqBool(safe), coqStr(string(j))), in, fmt.Sprintf("%q", j), bytes.ContainsAny(j, "<>&"+c19BS))
			e.count(fmt.Sprintf("json:safe=%v:html-or-backslash=%v", safe, bytes.ContainsAny(j, "<>&"+c19BS)))
		}
	}
	eo, eerr := encOut(false)
	encTerm := "None"
	if eerr == nil {
		encTerm = "(Some " + coqStr(string(eo)) + ")"
	}
	jarg, _ := mxj.Map(m).Json()
	// what the stdlib decoder says about the bytes Copy hands to it: the first value, whatever its kind
	decTerm, decText := "DErr", "error"
	{
		var dv interface{}
		d := json.NewDecoder(bytes.NewReader(jarg))
		if err := d.Decode(&dv); err == nil {
			decTerm, decText = "(DOk "+coqVal(dv)+")", canon(dv)
		} else {
			decText = "error: " + err.Error()
		}
	}
	var cp mxj.Map
	var cerr error
	panicked := ""
	func() {
		defer func() {
			if rec := recover(); rec != nil {
				panicked = fmt.Sprint(rec)
			}
		}()
		cp, cerr = mxj.Map(m).Copy()
	}()
	out := "DErr"
	switch {
	case panicked != "":
		out = "DPanic"
	case cerr == nil:
		out = "(DOk " + coqVal(map[string]interface{}(cp)) + ")"
	}
	impl := fmt.Sprintf("Copy: %s err=%v (decoder on Json(): %s)", canon(map[string]interface{}(cp)), cerr, decText)
	e.add(fmt.Sprintf("CCopy %s %s %s %s", encTerm, coqStr(string(jarg)), decTerm, out), in, impl, len(m) > 1)
	e.count("copy")
	e.say("%s", impl)
	e.oracle()
	key := "copy-differs"
	switch {
	case panicked != "":
		e.violation("copy-panic", "Copy panicked", in, panicked, orig)
	case cerr != nil:
		e.violation(key, "Copy returns an error for a Map of JSON types", in, cerr.Error(), orig)
	case canon(map[string]interface{}(cp)) != orig:
		e.violation(key, "Copy is not deeply equal to the original", in, canon(map[string]interface{}(cp)), orig)
	case !reflect.DeepEqual(m, map[string]interface{}(cp)):
		e.violation("copy-deepequal-differs", "Copy is not reflect.DeepEqual to the original", in, fmt.Sprintf("%#v", map[string]interface{}(cp)), fmt.Sprintf("%#v", m))
	default:
		oc, cc := map[uintptr]bool{}, map[uintptr]bool{}
		c19Containers(m, oc)
		c19Containers(map[string]interface{}(cp), cc)
		for p := range cc {
			if oc[p] {
				e.violation("copy-shares-structure", "the copy shares a map or slice with the original", in, "shared container", "no shared mutable structure")
				return
			}
		}
		c19MutateAll(map[string]interface{}(cp))
		if canon(m) != orig {
			e.violation("copy-shares-structure", "mutating the copy at every depth changed the original", in, canon(m), orig)
		}
	}
}

// ---------------------------------------------------------------- generation

var c19Prefixes = []string{"", "", " ", "\t", "  "}
var c19Indents = []string{"", " ", "  ", "\t", " \t", "    "}

func (r *Rng) c19Scenario() c19Input {
	in := c19Input{}
	n := 1 + r.Intn(4)
	if r.chance(0.5) {
		in.Kind = r.pick([]string{"xml", "xmlindent", "xmlindent"})
		o := defaultXOpts()
		if r.chance(0.5) {
			o = r.genDecOpts()
			o.TSeq, o.EscDec = false, false
		}
		o.Esc = true
		if in.Kind == "xmlindent" {
			// the keep-spaces decoder and indentation do not commute (C02 finding); C19 only asks for the own decoding
			in.Prefix, in.Indent = r.pick(c19Prefixes), r.pick(c19Indents)
			if r.chance(0.08) {
				in.Prefix = "x"
			}
		}
		in.Opts = &o
		dc := docCfg{maxDepth: 2, maxFan: 3, mixedText: r.chance(0.3), noise: !o.KeepSp && r.chance(0.4), texts: textPool}
		for i := 0; i < n; i++ {
			in.Docs = append(in.Docs, r.renderDoc(r.genElem(dc, 0), dc))
		}
		return in
	}
	in.Kind = r.pick([]string{"json", "jsonindent", "jsonindent"})
	if in.Kind == "jsonindent" {
		in.Prefix, in.Indent = r.pick(c19Prefixes), r.pick(c19Indents)
	}
	for i := 0; i < n; i++ {
		in.Maps = append(in.Maps, r.c19Map(0, true))
	}
	// the safeEncoding argument is passed on to Json/JsonIndent (fix da6537e)
	in.Safe = r.chance(0.3)
	return in
}

var c19CorruptBytes = []byte("<>{}\"" + c19BS + " x/&\n[]:,'=")

func runC19(cfg runCfg) error {
	r := newRng(cfg.seed)
	run := newRun("C19", cfg.out, cfg.seed, cfg.shards, c19Header, "fcase",
		"lists of 1-4 Maps: XML domain = NewMapXml of random documents (depth<=2, attributes, mixed text, specials) under random symmetric decoder options with value escaping on; "+
			"JSON domain = random Maps (non-null scalars, nested maps/lists, keys and string values with braces, quotes, backslashes, control and non-ASCII characters; 3% strings ending in a backslash or containing backslash-u003c, 4% empty Maps) "+
			"x 4 writers x 5 prefixes x 6 indents; every file read back with both readers, cut at every byte (<= 48 bytes; all cuts judged by the oracle, about 8 per file printed for the Coq side) or at boundaries+-1 and random points, corrupted at random bytes; "+
			"unreadable paths; Gob/NewMapGob, Copy (+ aliasing), Json vs the encoder output, getJson scanner; non-trivial = more than one Map / entry; distinct by input hash")
	if err := os.MkdirAll("/verif/build", 0o755); err != nil {
		return err
	}
	dir, err := os.MkdirTemp("/verif/build", "c19_")
	if err != nil {
		return err
	}
	defer os.RemoveAll(dir)
	e := &c19Env{run: run, r: r, dir: dir}
	defer restoreDefaults()

	for _, p := range []string{"missing", "dir", "notdir", "empty"} {
		e.unreadable(c19Input{Kind: "unreadable", Path: p})
	}
	e.add("CGobEmpty "+func() string {
		m, err := mxj.NewMapGob(nil)
		if err != nil {
			return "DErr"
		}
		return "(DOk " + coqVal(map[string]interface{}(m)) + ")"
	}(), c19Input{Kind: "gob"}, "NewMapGob(nil)", false)

	// fixed scenarios first: plain ones, and one per shape the pinned tree could not handle
	fixed := []c19Input{
		{Kind: "json", Maps: []map[string]interface{}{{"a": "x"}, {"b": map[string]interface{}{"c": []interface{}{1.0, "}{"}}}}},
		{Kind: "jsonindent", Indent: "  ", Maps: []map[string]interface{}{{"a": "x"}, {"b": "y"}}},
		{Kind: "json", Maps: []map[string]interface{}{{"a": "x" + c19BS}, {"b": "y"}}},
		{Kind: "json", Maps: []map[string]interface{}{{"a": c19BS + "u003c"}, {"b": "y"}}},
		{Kind: "json", Maps: []map[string]interface{}{{"a": "1"}, {}, {"b": "2"}}},
		{Kind: "xml", Opts: func() *xOpts { o := defaultXOpts(); o.Esc = true; return &o }(), Docs: []string{"<a><b>1</b><b>2</b></a>", "<c id=\"1\">&lt;t&gt;</c>"}},
		{Kind: "xmlindent", Prefix: " ", Indent: "  ", Opts: func() *xOpts { o := defaultXOpts(); o.Esc = true; return &o }(), Docs: []string{"<a><b>1</b><b>2</b></a>", "<c id=\"1\">t</c>", "<d/>"}},
	}
	for _, in := range fixed {
		e.fileScenario(in)
		if ms, ok := e.mapsUnder(in); ok {
			for _, m := range ms {
				e.gobCase(c19Input{Kind: "gob", Maps: []map[string]interface{}{m}}, deepCopy(m).(map[string]interface{}))
				e.copyCase(c19Input{Kind: "copy", Maps: []map[string]interface{}{m}}, deepCopy(m).(map[string]interface{}))
			}
		}
	}
	for _, fc := range []struct {
		in c19Input
		at int
		nb int
	}{
		{fixed[0], 9, '}'}, {fixed[0], 9, '"'}, {fixed[1], 14, '"'}, {fixed[1], 14, 'x'}, {fixed[1], 14, '}'}, {fixed[5], 3, '/'},
	} {
		in2, at, nb, raw := fc.in, fc.at, fc.nb, false
		in2.CorAt, in2.CorByte, in2.Raw = &at, &nb, &raw
		e.fileScenario(in2)
	}
	budgetCuts := 6
	if cfg.tier == "thorough" {
		budgetCuts = 14
	}
	for run.sum.Evaluations < cfg.n {
		in := r.c19Scenario()
		if !e.fileScenario(in) {
			continue
		}
		// the written file, to choose cuts and corruptions
		content, docs := e.rewrite(in)
		if content != nil {
			cuts := map[int]bool{}
			if len(content) <= 48 {
				for c := 0; c <= len(content); c++ {
					cuts[c] = true
				}
			} else {
				off := 0
				for _, d := range docs {
					for _, c := range []int{off - 1, off, off + 1, off + len(d.Sep), off + len(d.Sep) + 1} {
						if c >= 0 && c <= len(content) && r.chance(0.5) {
							cuts[c] = true
						}
					}
					off += d.length()
				}
				cuts[len(content)-1] = true
				for i := 0; i < budgetCuts; i++ {
					cuts[r.Intn(len(content))] = true
				}
			}
			cl := make([]int, 0, len(cuts))
			for c := range cuts {
				cl = append(cl, c)
			}
			sort.Ints(cl)
			emitP := 8.0 / float64(len(cl))
			for _, c := range cl {
				cc, raw := c, r.chance(0.5)
				in2 := in
				in2.Cut, in2.Raw = &cc, &raw
				in2.noEmit = !r.chance(emitP)
				e.fileScenario(in2)
			}
			for i := 0; i < 5 && len(content) > 0; i++ {
				at := r.Intn(len(content))
				if i == 0 && len(docs) > 1 {
					// the first or last byte of a document, or the separator
					j := 1 + r.Intn(len(docs)-1)
					at = 0
					for _, d := range docs[:j] {
						at += d.length()
					}
					at += r.Intn(3) - 1
				}
				nb := int(c19CorruptBytes[r.Intn(len(c19CorruptBytes))])
				if byte(nb) == content[at] {
					continue
				}
				raw := r.chance(0.5)
				in2 := in
				in2.CorAt, in2.CorByte, in2.Raw = &at, &nb, &raw
				e.fileScenario(in2)
			}
			if !in.isXML() && len(content) <= 400 {
				e.scanCase(in, content)
			}
		}
		// gob and Copy on the Maps of the scenario
		if ms, ok := e.mapsUnder(in); ok {
			for _, m := range ms {
				gin := c19Input{Kind: "gob", Maps: []map[string]interface{}{m}}
				e.gobCase(gin, deepCopy(m).(map[string]interface{}))
				e.copyCase(c19Input{Kind: "copy", Maps: []map[string]interface{}{m}}, deepCopy(m).(map[string]interface{}))
			}
		}
	}
	run.sum.Extra = map[string]interface{}{"temp_dir": "os.MkdirTemp(/verif/build, c19_*), removed at exit"}
	for k := 0; k < cfg.n/40+5; k++ {
		hr := newRng(cfg.seed*7919 + int64(k))
		var ms []map[string]interface{}
		for q := 0; q < 3+hr.Intn(3); q++ {
			ms = append(ms, map[string]interface{}{"id": float64(q + 1), "name": hr.pick([]string{"aaaa", "bbbb", "cccc", "dddd"}), "sub": map[string]interface{}{"k": hr.pick(strPool)}})
		}
		runHeld(run, heldCase{Kind: "held-results", Enc: []string{"Gob", "Json"}, Maps: ms})
	}
	return run.finish()
}

// mapsUnder returns the Maps of the scenario (decoding the XML documents under the scenario's options).
func (e *c19Env) mapsUnder(in c19Input) ([]map[string]interface{}, bool) {
	if in.Opts != nil {
		in.Opts.apply()
		defer restoreDefaults()
	}
	return e.maps(in)
}

// rewrite writes the scenario's file again and returns its bytes and documents (nil when the writer fails).
func (e *c19Env) rewrite(in c19Input) ([]byte, []c19Doc) {
	if in.Opts != nil {
		in.Opts.apply()
		defer restoreDefaults()
	}
	ms, ok := e.maps(in)
	if !ok {
		return nil, nil
	}
	docs := make([]c19Doc, len(ms))
	for i, m := range ms {
		b, err := c19Enc(in, m)
		if err != nil {
			return nil, nil
		}
		docs[i].Enc = b
		if in.Kind == "jsonindent" && i > 0 {
			docs[i].Sep = []byte("\n")
		}
	}
	path := e.path("r")
	defer os.Remove(path)
	if err, _ := c19Write(in, ms, path); err != nil {
		return nil, nil
	}
	b, err := os.ReadFile(path)
	if err != nil {
		return nil, nil
	}
	return b, docs
}

// ---------------------------------------------------------------- replay

func replayC19(raw []byte) error {
	var in c19Input
	if err := json.Unmarshal(raw, &in); err != nil {
		return err
	}
	dir, err := os.MkdirTemp("/verif/build", "c19_replay_")
	if err != nil {
		return err
	}
	defer os.RemoveAll(dir)
	defer restoreDefaults()
	e := &c19Env{dir: dir, verbose: true}
	fmt.Printf("input: %s\n", mustJSON(in))
	switch in.Kind {
	case "unreadable":
		e.unreadable(in)
	case "gob":
		for _, m := range in.Maps {
			e.gobCase(in, m)
		}
	case "copy":
		for _, m := range in.Maps {
			e.copyCase(in, m)
		}
	default:
		if !e.fileScenario(in) {
			fmt.Println("scenario outside the domain (source or own encoding not decodable)")
		}
	}
	return nil
}
