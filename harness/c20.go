package main

// C20: the legacy x2j, j2x and x2j-wrapper packages agree with the core they wrap.
//
// (a) "walker" cases: the RE-IMPLEMENTED walkers of x2j-wrapper (PathsForKey,
//     PathForKeyShortest, ValuesForKey, ValuesFromKeyPath, ValuesAtKeyPath) run on
//     generated Maps; every case is printed for the correspondence with
//     Model/X2jWrap.v (Run/RunX2j.v) and compared with the core walkers (oracle).
// (b) "thin" cases: every exported function of j2x, x2j and x2j-wrapper with a core
//     counterpart runs next to the documented composition of core functions on the
//     same generated input (oracle only; one violation key per function).

import (
	"bytes"
	"encoding/json"
	"fmt"
	"io"
	"os"
	"path/filepath"
	"regexp"
	"sort"
	"strings"
	"time"

	mxj "github.com/clbanning/mxj/v2"
	"github.com/clbanning/mxj/v2/j2x"
	x2j "github.com/clbanning/mxj/v2/x2j"
	x2jw "github.com/clbanning/mxj/v2/x2j-wrapper"
)

func init() {
	props["C20"] = runC20
	replays["C20"] = replayC20
}

type c20Case struct {
	Kind    string                 `json:"kind"` // "walker" | "thin"
	Fn      string                 `json:"fn"`
	Map     map[string]interface{} `json:"map,omitempty"`
	Doc     string                 `json:"doc,omitempty"` // XML / JSON text, or a stream of documents
	Key     string                 `json:"key,omitempty"`
	Path    string                 `json:"path,omitempty"`
	SubKeys []string               `json:"subkeys,omitempty"`
	Flags   []bool                 `json:"flags,omitempty"` // the variadic bool arguments exactly as passed (safeEncoding / recast / getAttrs)
	NewVal  interface{}            `json:"newval,omitempty"`
	Pairs   []string               `json:"pairs,omitempty"`
	Opts    *xOpts                 `json:"opts,omitempty"`   // package options during both calls (nil = defaults)
	UseNum  bool                   `json:"usenum,omitempty"` // mxj.JsonUseNumber
	Stop    int                    `json:"stop,omitempty"`   // bulk: the message handler returns false at the Stop-th message (0 = never)
	ErrGo   bool                   `json:"errgo,omitempty"`  // bulk: what the error handler returns
}

// flag1 is how every wrapper reads its variadic bool: the value iff exactly one was given.
func flag1(fs []bool) bool { return len(fs) == 1 && fs[0] }

const c20Header = "From Mxj Require Import Run.RunX2j.\nLocal Open Scope string_scope.\n"

// ---------------------------------------------------------------- Go-side specification

func specSelMapF(ga bool, k string, m map[string]interface{}) []interface{} {
	if k == "*" {
		var out []interface{}
		for _, kk := range sortedKeys(m) {
			if !ga && strings.HasPrefix(kk, "-") {
				continue
			}
			out = append(out, m[kk])
		}
		return out
	}
	if v, ok := m[k]; ok {
		return []interface{}{v}
	}
	return nil
}

func specSelF(ga bool, k string, v interface{}) []interface{} {
	switch x := v.(type) {
	case map[string]interface{}:
		return specSelMapF(ga, k, x)
	case []interface{}:
		var out []interface{}
		for _, e := range x {
			if mm, ok := e.(map[string]interface{}); ok {
				out = append(out, specSelMapF(ga, k, mm)...)
			} else if k == "*" {
				out = append(out, e)
			}
		}
		return out
	}
	return nil
}

// specEvalF is Spec/Wrappers.v eval_filtered.
func specEvalF(ga bool, ks []string, v interface{}) []interface{} {
	if len(ks) == 0 {
		return specFinal(v)
	}
	var out []interface{}
	for _, x := range specSelF(ga, ks[0], v) {
		out = append(out, specEvalF(ga, ks[1:], x)...)
	}
	return out
}

// specValuesAt is Spec/Wrappers.v values_at_spec.
func specValuesAt(ga bool, keys []string, m map[string]interface{}) []interface{} {
	key := keys[len(keys)-1]
	parents := []interface{}{m}
	if len(keys) > 1 {
		parents = specEvalF(ga, keys[:len(keys)-1], m)
	}
	if key == "*" {
		return parents
	}
	for _, p := range parents {
		if mm, ok := p.(map[string]interface{}); ok {
			if _, ok := mm[key]; ok {
				return parents
			}
		}
	}
	return nil
}

func keyOccurs(k string, v interface{}) bool {
	switch x := v.(type) {
	case map[string]interface{}:
		if _, ok := x[k]; ok {
			return true
		}
		for _, e := range x {
			if keyOccurs(k, e) {
				return true
			}
		}
	case []interface{}:
		for _, e := range x {
			if keyOccurs(k, e) {
				return true
			}
		}
	}
	return false
}

// keyNested: some map that has k also has k somewhere below it (negation of key_not_nested).
func keyNested(k string, v interface{}) bool {
	switch x := v.(type) {
	case map[string]interface{}:
		_, has := x[k]
		for _, e := range x {
			if has && keyOccurs(k, e) {
				return true
			}
			if !has && keyNested(k, e) {
				return true
			}
		}
	case []interface{}:
		for _, e := range x {
			if keyNested(k, e) {
				return true
			}
		}
	}
	return false
}

func hasEmptyKey(v interface{}) bool {
	switch x := v.(type) {
	case map[string]interface{}:
		for k, e := range x {
			if k == "" || hasEmptyKey(e) {
				return true
			}
		}
	case []interface{}:
		for _, e := range x {
			if hasEmptyKey(e) {
				return true
			}
		}
	}
	return false
}

func flattenFinal(vs []interface{}) []interface{} {
	var out []interface{}
	for _, v := range vs {
		out = append(out, specFinal(v)...)
	}
	return out
}

func segCount(p string) int { return len(strings.Split(p, ".")) }

// shortestVerdict describes a PathForKeyShortest result relative to a path set.
func shortestVerdict(p string, set []string) string {
	if len(set) == 0 {
		return fmt.Sprintf("none:%q", p)
	}
	member := false
	min := segCount(set[0])
	for _, q := range set {
		if q == p {
			member = true
		}
		if segCount(q) < min {
			min = segCount(q)
		}
	}
	return fmt.Sprintf("member=%v minimal=%v", member, member && segCount(p) == min)
}

func shortestWant(set []string) string {
	if len(set) == 0 {
		return fmt.Sprintf("none:%q", "")
	}
	return "member=true minimal=true"
}

func sortedCopy(ss []string) []string {
	out := append([]string{}, ss...)
	sort.Strings(out)
	return out
}

// ---------------------------------------------------------------- (a) the re-implemented walkers

func runC20Walker(c c20Case) (Outcome, map[string]interface{}) {
	m := deepCopy(c.Map).(map[string]interface{})
	o := protect(func() Outcome {
		switch c.Fn {
		case "x2jw.PathsForKey":
			return Outcome{Ret: toIfaces(x2jw.PathsForKey(m, c.Key))}
		case "x2jw.PathForKeyShortest":
			return Outcome{Ret: x2jw.PathForKeyShortest(m, c.Key)}
		case "x2jw.ValuesForKey":
			return Outcome{Ret: ifaceList(x2jw.ValuesForKey(m, c.Key))}
		case "x2jw.ValuesFromKeyPath":
			return Outcome{Ret: ifaceList(x2jw.ValuesFromKeyPath(m, c.Path, c.Flags...))}
		case "x2jw.ValuesAtKeyPath":
			return Outcome{Ret: ifaceList(x2jw.ValuesAtKeyPath(m, c.Path, c.Flags...))}
		}
		panic("mxjh: unknown walker " + c.Fn)
	})
	return o, m
}

func (c c20Case) walkerTerm(ordered bool, o Outcome, after map[string]interface{}) string {
	var op string
	switch c.Fn {
	case "x2jw.PathsForKey":
		op = "(XwPaths " + coqStr(c.Key) + ")"
	case "x2jw.PathForKeyShortest":
		op = "(XwShortest " + coqStr(c.Key) + ")"
	case "x2jw.ValuesForKey":
		op = "(XwVfk " + coqStr(c.Key) + ")"
	case "x2jw.ValuesFromKeyPath":
		op = "(XwFrom " + coqStr(c.Path) + " " + coqBool(flag1(c.Flags)) + ")"
	case "x2jw.ValuesAtKeyPath":
		op = "(XwAt " + coqStr(c.Path) + " " + coqBool(flag1(c.Flags)) + ")"
	}
	return fmt.Sprintf("{| xw_m := %s; xw_op := %s; xw_ordered := %s; xw_unchanged := %s; xw_out := %s |}",
		coqMap(c.Map), op, coqBool(ordered), coqBool(canon(after) == canon(c.Map)), o.coq())
}

// inPathDomain: the paths on which wrapper and core read the same key list
// (the core drops one trailing empty segment and reads "[i]" as an index).
func inPathDomain(path string) bool {
	return !strings.Contains(path, "[") && !strings.HasSuffix(path, ".") && path != ""
}

func c20WalkerOne(run *Run, c c20Case) {
	o, after := runC20Walker(c)
	ordered := false
	nontrivial := false
	switch c.Fn {
	case "x2jw.ValuesFromKeyPath", "x2jw.ValuesAtKeyPath":
		ordered = !pathHasStar(c.Path)
	}
	switch r := o.Ret.(type) {
	case []interface{}:
		nontrivial = len(r) > 0
	case string:
		nontrivial = r != ""
	}
	run.count("walker:" + c.Fn)
	if nontrivial {
		run.count("walker-nonempty")
	}
	if o.Panicked {
		run.count("walker-panic")
	}
	run.add(c.walkerTerm(ordered, o, after), c, o.text(), nontrivial)

	// ---- oracle: agreement with the core walkers on the same Map
	core := mxj.Map(deepCopy(c.Map).(map[string]interface{}))
	if canon(after) != canon(c.Map) {
		run.violation(Violation{Key: c.Fn + "-modifies", What: c.Fn + " modified its argument", Input: c, Got: canon(after), Want: canon(c.Map)})
	}
	switch c.Fn {
	case "x2jw.PathsForKey", "x2jw.PathForKeyShortest":
		run.sum.OracleEvals++
		nested := keyNested(c.Key, c.Map)
		if nested {
			run.count("key-nested")
		}
		key := c.Fn
		cp := core.PathsForKey(c.Key)
		if o.Panicked {
			run.violation(Violation{Key: c.Fn + "-panic", What: c.Fn + " panicked", Input: c, Got: o.text(), Want: "no panic"})
			return
		}
		if c.Fn == "x2jw.PathsForKey" {
			got := make([]string, 0)
			for _, p := range o.Ret.([]interface{}) {
				got = append(got, p.(string))
			}
			g, w := strings.Join(sortedCopy(got), " | "), strings.Join(sortedCopy(cp), " | ")
			if g != w {
				run.violation(Violation{Key: key, What: "x2j-wrapper.PathsForKey differs from Map.PathsForKey (as a set)", Input: c, Got: g, Want: w})
			}
		} else {
			g, w := shortestVerdict(o.Ret.(string), cp), shortestWant(cp)
			if g != w {
				run.violation(Violation{Key: key, What: "x2j-wrapper.PathForKeyShortest is not a shortest member of Map.PathsForKey", Input: c,
					Got: fmt.Sprintf("%q: %s", o.Ret, g), Want: strings.Join(sortedCopy(cp), " | ")})
			}
		}
	case "x2jw.ValuesForKey":
		if c.Key == "*" {
			run.count("oracle-skip:ValuesForKey-star")
			return
		}
		run.sum.OracleEvals++
		if o.Panicked {
			run.violation(Violation{Key: c.Fn + "-panic", What: c.Fn + " panicked", Input: c, Got: o.text(), Want: "no panic"})
			return
		}
		cv, cerr := core.ValuesForKey(c.Key)
		g, w := canonMultiset(flattenFinal(o.Ret.([]interface{}))), canonMultiset(cv)
		if cerr != nil || g != w {
			run.violation(Violation{Key: c.Fn, What: "x2j-wrapper.ValuesForKey (stored lists expanded) differs from Map.ValuesForKey", Input: c, Got: g, Want: w})
		}
	case "x2jw.ValuesFromKeyPath", "x2jw.ValuesAtKeyPath":
		if !inPathDomain(c.Path) {
			run.count("oracle-skip:path-outside-domain")
			return
		}
		run.sum.OracleEvals++
		ga := flag1(c.Flags)
		keys := strings.Split(c.Path, ".")
		star := pathHasStar(c.Path)
		if o.Panicked {
			run.violation(Violation{Key: c.Fn + "-panic", What: c.Fn + " panicked", Input: c, Got: o.text(), Want: "no panic"})
			return
		}
		got := o.Ret.([]interface{})
		cmp := func(a, b []interface{}) bool {
			if ordered {
				return canon(ifaceList(a)) == canon(ifaceList(b))
			}
			return canonMultiset(a) == canonMultiset(b)
		}
		if c.Fn == "x2jw.ValuesFromKeyPath" {
			want := specEvalF(ga, keys, c.Map)
			if !cmp(got, want) {
				run.violation(Violation{Key: c.Fn, What: "x2j-wrapper.ValuesFromKeyPath differs from the values the path denotes (attribute entries skipped at * unless requested)",
					Input: c, Got: canon(got), Want: canon(ifaceList(want))})
			}
			if ga || !star {
				run.count("from-vs-core")
				cv, cerr := core.ValuesForPath(c.Path)
				if cerr != nil || !cmp(got, cv) {
					run.violation(Violation{Key: c.Fn, What: "x2j-wrapper.ValuesFromKeyPath differs from Map.ValuesForPath", Input: c,
						Got: canon(got), Want: canon(ifaceList(cv))})
				}
			}
		} else {
			want := specValuesAt(ga, keys, c.Map)
			if !cmp(got, want) {
				run.violation(Violation{Key: c.Fn, What: "x2j-wrapper.ValuesAtKeyPath differs from its documented relation to the parent path's values",
					Input: c, Got: canon(got), Want: canon(ifaceList(want))})
			}
			if len(keys) > 1 && len(got) > 0 && (ga || !star) && inPathDomain(strings.Join(keys[:len(keys)-1], ".")) {
				cv, cerr := core.ValuesForPath(strings.Join(keys[:len(keys)-1], "."))
				if cerr != nil || !cmp(got, cv) {
					run.violation(Violation{Key: c.Fn, What: "x2j-wrapper.ValuesAtKeyPath differs from Map.ValuesForPath of the parent path", Input: c,
						Got: canon(got), Want: canon(ifaceList(cv))})
				}
			}
		}
	}
}

// ---------------------------------------------------------------- (b) thin wrappers: result texts

func et(err error) string {
	if err == nil {
		return "nil"
	}
	return "error(" + err.Error() + ")"
}
func tBytes(b []byte, err error) string { return fmt.Sprintf("%q %s", string(b), et(err)) }
func tStr(s string, err error) string   { return fmt.Sprintf("%q %s", s, et(err)) }
func tMap(m map[string]interface{}, err error) string {
	if m == nil {
		return "nil-map " + et(err)
	}
	return canon(m) + " " + et(err)
}
func tVals(vs []interface{}, err error, multiset bool) string {
	if multiset {
		return "{" + canonMultiset(vs) + "} " + et(err)
	}
	return canon(ifaceList(vs)) + " " + et(err)
}
func tStrSet(ss []string, err error) string {
	return "{" + strings.Join(sortedCopy(ss), " | ") + "} " + et(err)
}
func tLeaves(ls []mxj.LeafNode, err error) string {
	xs := make([]string, len(ls))
	for i, l := range ls {
		xs[i] = l.Path + "=" + canon(l.Value)
	}
	sort.Strings(xs)
	return "{" + strings.Join(xs, " | ") + "} " + et(err)
}

// plainReader hides every method of the wrapped reader except Read (in particular ReadByte).
type plainReader struct{ io.Reader }

func rest(r io.Reader) string {
	b, _ := io.ReadAll(r)
	return fmt.Sprintf(" rest=%q", string(b))
}

// guard runs one wrapper/composition pair with a panic barrier and a per-call timeout.
func guard(f func() string) string {
	done := make(chan string, 1)
	go func() {
		defer func() {
			if r := recover(); r != nil {
				done <- "panic: " + fmt.Sprint(r)
			}
		}()
		done <- f()
	}()
	select {
	case s := <-done:
		return s
	case <-time.After(20 * time.Second):
		return "timeout: no result after 20s"
	}
}

var c20WsBeforeLt = regexp.MustCompile("[ \t\n\r]*<")
var c20TmpSeq int

func c20TmpFile(content string) string {
	dir := "/verif/build/C20tmp"
	os.MkdirAll(dir, 0o755)
	c20TmpSeq++
	name := filepath.Join(dir, fmt.Sprintf("s_%d_%d.xml", os.Getpid(), c20TmpSeq))
	os.WriteFile(name, []byte(content), 0o644)
	return name
}

// bulkLog runs the handler protocol of the XmlMsgsFrom* functions over next().
func bulkLog(c c20Case, next func() (string, bool, error)) string {
	var log []string
	n, ne := 0, 0
	var ret error
	for iter := 0; iter < 1000; iter++ {
		msg, have, err := next()
		if err != nil && err != io.EOF {
			log = append(log, "E:"+err.Error())
			ne++
			if !(c.ErrGo && ne < 5) {
				ret = err
				break
			}
		}
		if have {
			log = append(log, msg)
			n++
			if (c.Stop != 0 && n >= c.Stop) || n >= 50 {
				break
			}
		}
		if err == io.EOF {
			break
		}
	}
	return strings.Join(log, " ; ") + " -> " + et(ret)
}

// wrapper-side handlers with the same protocol
func (c c20Case) handlers(log *[]string) (func(string) bool, func(error) bool) {
	n, ne := 0, 0
	ph := func(s string) bool {
		*log = append(*log, s)
		n++
		return !((c.Stop != 0 && n >= c.Stop) || n >= 50)
	}
	eh := func(e error) bool {
		*log = append(*log, "E:"+e.Error())
		ne++
		return c.ErrGo && ne < 5
	}
	return ph, eh
}

// thinFn: one exported wrapper with a core counterpart.
type thinFn struct {
	name string
	in   string // input kind: json xml map xmlstream jsonstream xmlfile naninf
	arg  string // extra arguments: "" key path+sub update pairs safe recast attrs path+attrs bulk
	call func(c c20Case) (got, want string)
}

func mapOf(m mxj.Map) map[string]interface{} { return map[string]interface{}(m) }

func decodeJ(c c20Case) (mxj.Map, error) { return mxj.NewMapJson([]byte(c.Doc)) }
func decodeX(c c20Case) (mxj.Map, error) { return mxj.NewMapXml([]byte(c.Doc)) }

// xmlThen / jsonThen: "decode ; f" with the error short-cut every wrapper uses.
func xmlThen(c c20Case, f func(m mxj.Map) string) string {
	m, err := decodeX(c)
	if err != nil {
		return "decode-" + et(err)
	}
	return f(m)
}
func jsonThen(c c20Case, f func(m mxj.Map) string) string {
	m, err := decodeJ(c)
	if err != nil {
		return "decode-" + et(err)
	}
	return f(m)
}
func dErr(err error, s string) string {
	if err != nil {
		return "decode-" + et(err)
	}
	return s
}

var c20Thin []thinFn

func init() {
	star := func(c c20Case) bool { return pathHasStar(c.Path) }
	c20Thin = []thinFn{
		// ------------------------------------------------ package j2x
		{"j2x.JsonToMap", "json", "", func(c c20Case) (string, string) {
			g, ge := j2x.JsonToMap([]byte(c.Doc))
			w, we := mxj.NewMapJson([]byte(c.Doc))
			return tMap(g, ge), tMap(mapOf(w), we)
		}},
		{"j2x.MapToJson", "map", "safe", func(c c20Case) (string, string) {
			g, ge := j2x.MapToJson(deepCopy(c.Map).(map[string]interface{}), c.Flags...)
			w, we := mxj.Map(deepCopy(c.Map).(map[string]interface{})).Json(c.Flags...)
			return tBytes(g, ge), tBytes(w, we)
		}},
		{"j2x.JsonToXml", "json", "", func(c c20Case) (string, string) {
			g, ge := j2x.JsonToXml([]byte(c.Doc))
			return tBytes(g, ge), jsonThenB(c, func(m mxj.Map) ([]byte, error) { return m.Xml() })
		}},
		{"j2x.JsonToXmlWriter", "json", "", func(c c20Case) (string, string) {
			var gb, wb bytes.Buffer
			ge := j2x.JsonToXmlWriter([]byte(c.Doc), &gb)
			return tBytes(gb.Bytes(), ge), jsonThenB(c, func(m mxj.Map) ([]byte, error) { e := m.XmlWriter(&wb); return wb.Bytes(), e })
		}},
		{"j2x.JsonReaderToXml", "jsonstream", "", func(c c20Case) (string, string) {
			gr, wr := strings.NewReader(c.Doc), strings.NewReader(c.Doc)
			raw, x, ge := j2x.JsonReaderToXml(gr)
			got := fmt.Sprintf("raw=%q ", raw) + tBytes(x, ge) + rest(gr)
			m, wraw, we := mxj.NewMapJsonReaderRaw(wr)
			var want string
			if we != nil {
				want = fmt.Sprintf("raw=%q ", wraw) + tBytes(nil, we) + rest(wr)
			} else {
				wx, wxe := m.Xml()
				want = fmt.Sprintf("raw=%q ", wraw) + tBytes(wx, wxe) + rest(wr)
			}
			return got, want
		}},
		{"j2x.JsonReaderToXmlWriter", "jsonstream", "", func(c c20Case) (string, string) {
			gr, wr := strings.NewReader(c.Doc), strings.NewReader(c.Doc)
			var gb, wb bytes.Buffer
			ge := j2x.JsonReaderToXmlWriter(gr, &gb)
			got := tBytes(gb.Bytes(), ge) + rest(gr)
			m, we := mxj.NewMapJsonReader(wr)
			if we == nil {
				we = m.XmlWriter(&wb)
			}
			return got, tBytes(wb.Bytes(), we) + rest(wr)
		}},
		{"j2x.JsonPathsForKey", "json", "key", func(c c20Case) (string, string) {
			g, ge := j2x.JsonPathsForKey([]byte(c.Doc), c.Key)
			return dErr(ge, tStrSet(g, ge)), jsonThen(c, func(m mxj.Map) string { return tStrSet(m.PathsForKey(c.Key), nil) })
		}},
		{"j2x.JsonPathForKeyShortest", "json", "key", func(c c20Case) (string, string) {
			g, ge := j2x.JsonPathForKeyShortest([]byte(c.Doc), c.Key)
			var set []string
			want := jsonThen(c, func(m mxj.Map) string { set = m.PathsForKey(c.Key); return shortestWant(set) })
			return dErr(ge, shortestVerdict(g, set)), want
		}},
		{"j2x.JsonValuesForKey", "json", "key+sub", func(c c20Case) (string, string) {
			g, ge := j2x.JsonValuesForKey([]byte(c.Doc), c.Key, c.SubKeys...)
			return tVals(g, ge, true), jsonThenV(c, func(m mxj.Map) ([]interface{}, error) { return m.ValuesForKey(c.Key, c.SubKeys...) }, true)
		}},
		{"j2x.JsonValuesForKeyPath", "json", "path+sub", func(c c20Case) (string, string) {
			g, ge := j2x.JsonValuesForKeyPath([]byte(c.Doc), c.Path, c.SubKeys...)
			return tVals(g, ge, star(c)), jsonThenV(c, func(m mxj.Map) ([]interface{}, error) { return m.ValuesForPath(c.Path, c.SubKeys...) }, star(c))
		}},
		{"j2x.JsonUpdateValsForPath", "json", "update", func(c c20Case) (string, string) {
			g, ge := j2x.JsonUpdateValsForPath([]byte(c.Doc), deepCopy(c.NewVal), c.Path, c.SubKeys...)
			return tBytes(g, ge), jsonThenB(c, func(m mxj.Map) ([]byte, error) {
				if _, e := m.UpdateValuesForPath(deepCopy(c.NewVal), c.Path, c.SubKeys...); e != nil {
					return nil, e
				}
				return m.Json()
			})
		}},
		{"j2x.JsonNewJson", "json", "pairs", func(c c20Case) (string, string) {
			g, ge := j2x.JsonNewJson([]byte(c.Doc), c.Pairs...)
			return tBytes(g, ge), jsonThenB(c, func(m mxj.Map) ([]byte, error) {
				n, e := m.NewMap(c.Pairs...)
				if e != nil {
					return nil, e
				}
				return n.Json()
			})
		}},
		{"j2x.JsonNewXml", "json", "pairs", func(c c20Case) (string, string) {
			g, ge := j2x.JsonNewXml([]byte(c.Doc), c.Pairs...)
			return tBytes(g, ge), jsonThenB(c, func(m mxj.Map) ([]byte, error) {
				n, e := m.NewMap(c.Pairs...)
				if e != nil {
					return nil, e
				}
				return n.Xml()
			})
		}},
		{"j2x.JsonLeafNodes", "json", "", func(c c20Case) (string, string) {
			g, ge := j2x.JsonLeafNodes([]byte(c.Doc))
			return dErr(ge, tLeaves(g, ge)), jsonThen(c, func(m mxj.Map) string { return tLeaves(m.LeafNodes(), nil) })
		}},
		{"j2x.JsonLeafValues", "json", "", func(c c20Case) (string, string) {
			g, ge := j2x.JsonLeafValues([]byte(c.Doc))
			return dErr(ge, tVals(g, ge, true)), jsonThen(c, func(m mxj.Map) string { return tVals(m.LeafValues(), nil, true) })
		}},
		{"j2x.JsonLeafPath", "json", "", func(c c20Case) (string, string) {
			g, ge := j2x.JsonLeafPath([]byte(c.Doc))
			return dErr(ge, tStrSet(g, ge)), jsonThen(c, func(m mxj.Map) string { return tStrSet(m.LeafPaths(), nil) })
		}},
		// ------------------------------------------------ package x2j
		{"x2j.XmlToMap", "xml", "", func(c c20Case) (string, string) {
			g, ge := x2j.XmlToMap([]byte(c.Doc))
			w, we := mxj.NewMapXml([]byte(c.Doc))
			return tMap(g, ge), tMap(mapOf(w), we)
		}},
		{"x2j.MapToXml", "map", "", func(c c20Case) (string, string) {
			g, ge := x2j.MapToXml(deepCopy(c.Map).(map[string]interface{}))
			w, we := mxj.Map(deepCopy(c.Map).(map[string]interface{})).Xml()
			return tBytes(g, ge), tBytes(w, we)
		}},
		{"x2j.XmlToJson", "xml", "safe", func(c c20Case) (string, string) {
			g, ge := x2j.XmlToJson([]byte(c.Doc), c.Flags...)
			return tBytes(g, ge), xmlThenB(c, func(m mxj.Map) ([]byte, error) { return m.Json(c.Flags...) })
		}},
		{"x2j.XmlToJsonWriter", "xml", "safe", func(c c20Case) (string, string) {
			var gb, wb bytes.Buffer
			g, ge := x2j.XmlToJsonWriter([]byte(c.Doc), &gb, c.Flags...)
			got := tBytes(g, ge) + fmt.Sprintf(" written=%q", gb.String())
			m, we := decodeX(c)
			if we != nil {
				return got, tBytes(nil, we) + fmt.Sprintf(" written=%q", "")
			}
			w, we := m.JsonWriterRaw(&wb, c.Flags...)
			return got, tBytes(w, we) + fmt.Sprintf(" written=%q", wb.String())
		}},
		{"x2j.XmlReaderToJson", "xmlstream", "safe", func(c c20Case) (string, string) {
			gr, wr := strings.NewReader(c.Doc), strings.NewReader(c.Doc)
			raw, j, ge := x2j.XmlReaderToJson(gr, c.Flags...)
			got := fmt.Sprintf("raw=%q ", raw) + tBytes(j, ge) + rest(gr)
			m, wraw, we := mxj.NewMapXmlReaderRaw(wr)
			var wj []byte
			if we == nil {
				wj, we = m.Json(c.Flags...)
			}
			return got, fmt.Sprintf("raw=%q ", wraw) + tBytes(wj, we) + rest(wr)
		}},
		{"x2j.XmlReaderToJsonWriter", "xmlstream", "safe", func(c c20Case) (string, string) {
			gr, wr := strings.NewReader(c.Doc), strings.NewReader(c.Doc)
			var gb, wb bytes.Buffer
			raw, j, ge := x2j.XmlReaderToJsonWriter(gr, &gb, c.Flags...)
			got := fmt.Sprintf("raw=%q ", raw) + tBytes(j, ge) + fmt.Sprintf(" written=%q", gb.String()) + rest(gr)
			m, wraw, we := mxj.NewMapXmlReaderRaw(wr)
			var wj []byte
			if we == nil {
				wj, we = m.JsonWriterRaw(&wb, c.Flags...)
			}
			return got, fmt.Sprintf("raw=%q ", wraw) + tBytes(wj, we) + fmt.Sprintf(" written=%q", wb.String()) + rest(wr)
		}},
		{"x2j.XmlPathsForTag", "xml", "key", func(c c20Case) (string, string) {
			g, ge := x2j.XmlPathsForTag([]byte(c.Doc), c.Key)
			return dErr(ge, tStrSet(g, ge)), xmlThen(c, func(m mxj.Map) string { return tStrSet(m.PathsForKey(c.Key), nil) })
		}},
		{"x2j.XmlPathForTagShortest", "xml", "key", func(c c20Case) (string, string) {
			g, ge := x2j.XmlPathForTagShortest([]byte(c.Doc), c.Key)
			var set []string
			want := xmlThen(c, func(m mxj.Map) string { set = m.PathsForKey(c.Key); return shortestWant(set) })
			return dErr(ge, shortestVerdict(g, set)), want
		}},
		{"x2j.XmlValuesForTag", "xml", "key+sub", func(c c20Case) (string, string) {
			g, ge := x2j.XmlValuesForTag([]byte(c.Doc), c.Key, c.SubKeys...)
			return tVals(g, ge, true), xmlThenV(c, func(m mxj.Map) ([]interface{}, error) { return m.ValuesForKey(c.Key, c.SubKeys...) }, true)
		}},
		{"x2j.XmlValuesForPath", "xml", "path+sub", func(c c20Case) (string, string) {
			g, ge := x2j.XmlValuesForPath([]byte(c.Doc), c.Path, c.SubKeys...)
			return tVals(g, ge, star(c)), xmlThenV(c, func(m mxj.Map) ([]interface{}, error) { return m.ValuesForPath(c.Path, c.SubKeys...) }, star(c))
		}},
		{"x2j.XmlUpdateValsForPath", "xml", "update", func(c c20Case) (string, string) {
			g, ge := x2j.XmlUpdateValsForPath([]byte(c.Doc), deepCopy(c.NewVal), c.Path, c.SubKeys...)
			return tBytes(g, ge), xmlThenB(c, func(m mxj.Map) ([]byte, error) {
				if _, e := m.UpdateValuesForPath(deepCopy(c.NewVal), c.Path, c.SubKeys...); e != nil {
					return nil, e
				}
				return m.Xml()
			})
		}},
		{"x2j.XmlNewXml", "xml", "pairs", func(c c20Case) (string, string) {
			g, ge := x2j.XmlNewXml([]byte(c.Doc), c.Pairs...)
			return tBytes(g, ge), xmlThenB(c, func(m mxj.Map) ([]byte, error) {
				n, e := m.NewMap(c.Pairs...)
				if e != nil {
					return nil, e
				}
				return n.Xml()
			})
		}},
		{"x2j.XmlNewJson", "xml", "pairs", func(c c20Case) (string, string) {
			g, ge := x2j.XmlNewJson([]byte(c.Doc), c.Pairs...)
			return tBytes(g, ge), xmlThenB(c, func(m mxj.Map) ([]byte, error) {
				n, e := m.NewMap(c.Pairs...)
				if e != nil {
					return nil, e
				}
				return n.Json()
			})
		}},
		{"x2j.XmlLeafNodes", "xml", "", func(c c20Case) (string, string) {
			g, ge := x2j.XmlLeafNodes([]byte(c.Doc))
			return dErr(ge, tLeaves(g, ge)), xmlThen(c, func(m mxj.Map) string { return tLeaves(m.LeafNodes(), nil) })
		}},
		{"x2j.XmlLeafValues", "xml", "", func(c c20Case) (string, string) {
			g, ge := x2j.XmlLeafValues([]byte(c.Doc))
			return dErr(ge, tVals(g, ge, true)), xmlThen(c, func(m mxj.Map) string { return tVals(m.LeafValues(), nil, true) })
		}},
		{"x2j.XmlLeafPath", "xml", "", func(c c20Case) (string, string) {
			g, ge := x2j.XmlLeafPath([]byte(c.Doc))
			return dErr(ge, tStrSet(g, ge)), xmlThen(c, func(m mxj.Map) string { return tStrSet(m.LeafPaths(), nil) })
		}},
		// ------------------------------------------------ package x2j-wrapper: conversions
		{"x2jw.DocToMap", "xml", "recast", func(c c20Case) (string, string) {
			g, ge := x2jw.DocToMap(c.Doc, c.Flags...)
			w, we := mxj.NewMapXml([]byte(c.Doc), flag1(c.Flags))
			return tMap(g, ge), tMap(mapOf(w), we)
		}},
		{"x2jw.ByteDocToMap", "xml", "recast", func(c c20Case) (string, string) {
			g, ge := x2jw.ByteDocToMap([]byte(c.Doc), c.Flags...)
			w, we := mxj.NewMapXml([]byte(c.Doc), flag1(c.Flags))
			return tMap(g, ge), tMap(mapOf(w), we)
		}},
		{"x2jw.DocToJson", "xml", "recast", func(c c20Case) (string, string) {
			g, ge := x2jw.DocToJson(c.Doc, c.Flags...)
			return tStr(g, ge), castThenJ(c, func(m mxj.Map) ([]byte, error) { return m.Json() })
		}},
		{"x2jw.ByteDocToJson", "xml", "recast", func(c c20Case) (string, string) {
			g, ge := x2jw.ByteDocToJson([]byte(c.Doc), c.Flags...)
			return tStr(g, ge), castThenJ(c, func(m mxj.Map) ([]byte, error) { return m.Json() })
		}},
		{"x2jw.DocToJsonIndent", "xml", "recast", func(c c20Case) (string, string) {
			g, ge := x2jw.DocToJsonIndent(c.Doc, c.Flags...)
			return tStr(g, ge), castThenJ(c, func(m mxj.Map) ([]byte, error) { return m.JsonIndent("", "  ") })
		}},
		{"x2jw.ToMap", "xmlstream", "recast", func(c c20Case) (string, string) {
			gr, wr := strings.NewReader(c.Doc), strings.NewReader(c.Doc)
			g, ge := x2jw.ToMap(gr, c.Flags...)
			w, we := mxj.NewMapXmlReader(wr, flag1(c.Flags))
			return tMap(g, ge) + rest(gr), tMap(mapOf(w), we) + rest(wr)
		}},
		{"x2jw.ToJson", "xmlstream", "recast", func(c c20Case) (string, string) {
			gr, wr := strings.NewReader(c.Doc), strings.NewReader(c.Doc)
			g, ge := x2jw.ToJson(gr, c.Flags...)
			return tStr(g, ge) + rest(gr), readerThenJ(c, wr, func(m mxj.Map) ([]byte, error) { return m.Json(true) }) + rest(wr)
		}},
		{"x2jw.ToJsonIndent", "xmlstream", "recast", func(c c20Case) (string, string) {
			gr, wr := strings.NewReader(c.Doc), strings.NewReader(c.Doc)
			g, ge := x2jw.ToJsonIndent(gr, c.Flags...)
			return tStr(g, ge) + rest(gr), readerThenJ(c, wr, func(m mxj.Map) ([]byte, error) { return m.JsonIndent("", "  ", true) }) + rest(wr)
		}},
		{"x2jw.XmlBufferToMap", "xmlstream", "recast", func(c c20Case) (string, string) {
			gr, wr := bytes.NewBufferString(c.Doc), bytes.NewBufferString(c.Doc)
			g, ge := x2jw.XmlBufferToMap(gr, c.Flags...)
			w, we := mxj.NewMapXmlReader(wr, flag1(c.Flags))
			return tMap(g, ge) + rest(gr), tMap(mapOf(w), we) + rest(wr)
		}},
		{"x2jw.XmlBufferToJson", "xmlstream", "recast", func(c c20Case) (string, string) {
			gr, wr := bytes.NewBufferString(c.Doc), bytes.NewBufferString(c.Doc)
			g, ge := x2jw.XmlBufferToJson(gr, c.Flags...)
			return tStr(g, ge) + rest(gr), readerThenJ(c, wr, func(m mxj.Map) ([]byte, error) { return m.Json() }) + rest(wr)
		}},
		{"x2jw.Unmarshal-map", "xml", "", func(c c20Case) (string, string) {
			g := map[string]interface{}{"pre-existing": "kept"}
			ge := x2jw.Unmarshal([]byte(c.Doc), &g)
			w, we := mxj.NewMapXml([]byte(c.Doc))
			wm := map[string]interface{}{"pre-existing": "kept"}
			for k, v := range w {
				wm[k] = v
			}
			return tMap(g, ge), tMap(wm, we)
		}},
		{"x2jw.Unmarshal-string", "xml", "", func(c c20Case) (string, string) {
			var g string
			ge := x2jw.Unmarshal([]byte(c.Doc), &g)
			return tStr(g, ge), castThenJ(c, func(m mxj.Map) ([]byte, error) { return m.Json() })
		}},
		{"x2jw.CastNanInf", "naninf", "", func(c c20Case) (string, string) {
			defer mxj.CastNanInf(false)
			defer x2jw.CastNanInf(false)
			x2jw.CastNanInf(flag1(c.Flags))
			g, ge := x2jw.DocToMap(c.Doc, true)
			x2jw.CastNanInf(false)
			mxj.CastNanInf(flag1(c.Flags))
			w, we := mxj.NewMapXml([]byte(c.Doc), true)
			return tMap(g, ge), tMap(mapOf(w), we)
		}},
		// ------------------------------------------------ package x2j-wrapper: key / path functions on documents
		{"x2jw.ValuesForTag", "xml", "key", func(c c20Case) (string, string) {
			g, ge := x2jw.ValuesForTag(c.Doc, c.Key)
			return tVals(flattenFinal(g), ge, true), xmlThenV(c, func(m mxj.Map) ([]interface{}, error) { return m.ValuesForKey(c.Key) }, true)
		}},
		{"x2jw.ReaderValuesForTag", "xmlstream", "key", func(c c20Case) (string, string) {
			gr, wr := strings.NewReader(c.Doc), strings.NewReader(c.Doc)
			g, ge := x2jw.ReaderValuesForTag(gr, c.Key)
			m, we := mxj.NewMapXmlReader(wr)
			var w []interface{}
			if we == nil {
				w, we = m.ValuesForKey(c.Key)
			}
			return tVals(flattenFinal(g), ge, true) + rest(gr), tVals(w, we, true) + rest(wr)
		}},
		{"x2jw.PathsForTag", "xml", "key", func(c c20Case) (string, string) {
			g, ge := x2jw.PathsForTag(c.Doc, c.Key)
			return dErr(ge, tStrSet(g, ge)), xmlThen(c, func(m mxj.Map) string { return tStrSet(m.PathsForKey(c.Key), nil) })
		}},
		{"x2jw.BytePathsForTag", "xml", "key", func(c c20Case) (string, string) {
			g, ge := x2jw.BytePathsForTag([]byte(c.Doc), c.Key)
			return dErr(ge, tStrSet(g, ge)), xmlThen(c, func(m mxj.Map) string { return tStrSet(m.PathsForKey(c.Key), nil) })
		}},
		{"x2jw.PathForTagShortest", "xml", "key", func(c c20Case) (string, string) {
			g, ge := x2jw.PathForTagShortest(c.Doc, c.Key)
			var set []string
			want := xmlThen(c, func(m mxj.Map) string { set = m.PathsForKey(c.Key); return shortestWant(set) })
			return dErr(ge, shortestVerdict(g, set)), want
		}},
		{"x2jw.BytePathForTagShortest", "xml", "key", func(c c20Case) (string, string) {
			g, ge := x2jw.BytePathForTagShortest([]byte(c.Doc), c.Key)
			var set []string
			want := xmlThen(c, func(m mxj.Map) string { set = m.PathsForKey(c.Key); return shortestWant(set) })
			return dErr(ge, shortestVerdict(g, set)), want
		}},
		{"x2jw.ValuesFromTagPath", "xml", "path+attrs", func(c c20Case) (string, string) {
			g, ge := x2jw.ValuesFromTagPath(c.Doc, c.Path, c.Flags...)
			return dErr(ge, tVals(g, ge, star(c))), xmlThen(c, func(m mxj.Map) string { return fromWant(c, m) })
		}},
		{"x2jw.ReaderValuesFromTagPath", "xmlstream", "path+attrs", func(c c20Case) (string, string) {
			gr, wr := strings.NewReader(c.Doc), strings.NewReader(c.Doc)
			g, ge := x2jw.ReaderValuesFromTagPath(gr, c.Path, c.Flags...)
			m, we := mxj.NewMapXmlReader(wr)
			want := "decode-" + et(we)
			if we == nil {
				want = fromWant(c, m)
			}
			return dErr(ge, tVals(g, ge, star(c))) + rest(gr), want + rest(wr)
		}},
		{"x2jw.ValuesAtTagPath", "xml", "path+attrs", func(c c20Case) (string, string) {
			g, ge := x2jw.ValuesAtTagPath(c.Doc, c.Path, c.Flags...)
			return dErr(ge, tVals(g, ge, star(c))), xmlThen(c, func(m mxj.Map) string {
				return tVals(specValuesAt(flag1(c.Flags), strings.Split(c.Path, "."), mapOf(m)), nil, star(c))
			})
		}},
		// ------------------------------------------------ package x2j-wrapper: bulk
		{"x2jw.XmlMsgsFromReader", "xmlstream", "bulk", func(c c20Case) (string, string) {
			var log []string
			ph, eh := c.handlers(&log)
			// a reader that is NOT an io.ByteReader (a file, socket or pipe): after the loop - in particular after a handler
			// stopped it - the wrapper must have consumed exactly what the core loop consumes (seed C20-6: private read-ahead)
			gr := strings.NewReader(c.Doc)
			ge := x2jw.XmlMsgsFromReader(plainReader{gr}, func(m map[string]interface{}) bool { return ph(canon(m)) }, eh, c.Flags...)
			wr := strings.NewReader(c.Doc)
			want := bulkLog(c, func() (string, bool, error) {
				m, e := mxj.NewMapXmlReader(plainReader{wr}, flag1(c.Flags))
				return canon(mapOf(m)), m != nil, e
			})
			return strings.Join(log, " ; ") + " -> " + et(ge) + rest(gr), want + rest(wr)
		}},
		{"x2jw.XmlMsgsFromReaderAsJson", "xmlstream", "bulk", func(c c20Case) (string, string) {
			var log []string
			ph, eh := c.handlers(&log)
			gr := strings.NewReader(c.Doc)
			ge := x2jw.XmlMsgsFromReaderAsJson(plainReader{gr}, ph, eh, c.Flags...)
			wr := strings.NewReader(c.Doc)
			want := bulkLog(c, func() (string, bool, error) {
				m, e := mxj.NewMapXmlReader(plainReader{wr}, flag1(c.Flags))
				if m == nil || e != nil {
					return "", false, e
				}
				j, je := m.Json(true)
				if je != nil {
					return "", false, je
				}
				return string(j), len(j) > 0, nil
			})
			return strings.Join(log, " ; ") + " -> " + et(ge) + rest(gr), want + rest(wr)
		}},
		{"x2jw.XmlMsgsFromFile", "xmlfile", "bulk", func(c c20Case) (string, string) {
			f := c20TmpFile(c.Doc)
			defer os.Remove(f)
			var log []string
			ph, eh := c.handlers(&log)
			ge := x2jw.XmlMsgsFromFile(f, func(m map[string]interface{}) bool { return ph(canon(m)) }, eh, c.Flags...)
			raw, _ := os.ReadFile(f)
			wb := bytes.NewBufferString(c20WsBeforeLt.ReplaceAllString(string(raw), "<"))
			want := bulkLog(c, func() (string, bool, error) {
				m, e := mxj.NewMapXmlReader(wb, flag1(c.Flags))
				return canon(mapOf(m)), m != nil, e
			})
			return strings.Join(log, " ; ") + " -> " + et(ge), want
		}},
		{"x2jw.XmlMsgsFromFileAsJson", "xmlfile", "bulk", func(c c20Case) (string, string) {
			f := c20TmpFile(c.Doc)
			defer os.Remove(f)
			var log []string
			ph, eh := c.handlers(&log)
			ge := x2jw.XmlMsgsFromFileAsJson(f, ph, eh, c.Flags...)
			raw, _ := os.ReadFile(f)
			wb := bytes.NewBufferString(c20WsBeforeLt.ReplaceAllString(string(raw), "<"))
			want := bulkLog(c, func() (string, bool, error) {
				m, e := mxj.NewMapXmlReader(wb, flag1(c.Flags))
				if e != nil {
					return "", false, e
				}
				j, je := m.Json()
				return string(j), len(j) > 0, je
			})
			return strings.Join(log, " ; ") + " -> " + et(ge), want
		}},
	}
}

func jsonThenV(c c20Case, f func(m mxj.Map) ([]interface{}, error), multiset bool) string {
	m, err := decodeJ(c)
	if err != nil {
		return tVals(nil, err, multiset)
	}
	v, e := f(m)
	return tVals(v, e, multiset)
}
func xmlThenV(c c20Case, f func(m mxj.Map) ([]interface{}, error), multiset bool) string {
	m, err := decodeX(c)
	if err != nil {
		return tVals(nil, err, multiset)
	}
	v, e := f(m)
	return tVals(v, e, multiset)
}
func jsonThenB(c c20Case, f func(m mxj.Map) ([]byte, error)) string {
	m, err := decodeJ(c)
	if err != nil {
		return tBytes(nil, err)
	}
	return tBytes(f(m))
}
func xmlThenB(c c20Case, f func(m mxj.Map) ([]byte, error)) string {
	m, err := decodeX(c)
	if err != nil {
		return tBytes(nil, err)
	}
	return tBytes(f(m))
}

// castThenJ: NewMapXml(doc, r) ; encoder, rendered as the string/err pair the x2j-wrapper functions return.
func castThenJ(c c20Case, f func(m mxj.Map) ([]byte, error)) string {
	m, err := mxj.NewMapXml([]byte(c.Doc), flag1(c.Flags))
	if err != nil {
		return tStr("", err)
	}
	b, e := f(m)
	if e != nil {
		return tStr("", e)
	}
	return tStr(string(b), nil)
}
func readerThenJ(c c20Case, rd io.Reader, f func(m mxj.Map) ([]byte, error)) string {
	m, err := mxj.NewMapXmlReader(rd, flag1(c.Flags))
	if err != nil {
		return tStr("", err)
	}
	b, e := f(m)
	if e != nil {
		return tStr("", e)
	}
	return tStr(string(b), nil)
}

// fromWant: what ValuesFromTagPath must return on the decoded document: Map.ValuesForPath when
// attributes are requested or the path has no "*", else the values with attribute entries skipped at "*".
func fromWant(c c20Case, m mxj.Map) string {
	ga := flag1(c.Flags)
	if ga || !pathHasStar(c.Path) {
		v, e := m.ValuesForPath(c.Path)
		return tVals(v, e, pathHasStar(c.Path))
	}
	return tVals(specEvalF(false, strings.Split(c.Path, "."), mapOf(m)), nil, true)
}

// ---------------------------------------------------------------- generators

func (r *Rng) c20Flags() []bool {
	switch r.Intn(8) {
	case 0, 1, 2:
		return nil
	case 3, 4:
		return []bool{true}
	case 5, 6:
		return []bool{false}
	}
	return []bool{true, true} // two values: read as "not given"
}

var c20XmlTexts = []string{"x", "hello world", " u ", "1", "2.5", "true", "T", "1e3", "a<b", "x&y>z", "é€", "007", "false", "NaN", "-inf"}

func (r *Rng) c20XmlDoc(malformedOK bool) string {
	dc := docCfg{maxDepth: 3, maxFan: 3, mixedText: r.chance(0.3), noise: r.chance(0.3), texts: c20XmlTexts}
	doc := r.renderDoc(r.genElem(dc, 0), dc)
	if malformedOK && r.chance(0.08) {
		switch r.Intn(5) {
		case 0:
			doc = doc[:len(doc)/2]
		case 1:
			doc = ""
		case 2:
			doc = "<a><b>1</a>"
		case 3:
			doc = "just text"
		case 4:
			doc = doc + "<"
		}
	}
	return doc
}

func (r *Rng) c20XmlStream() string {
	n := 1 + r.Intn(3)
	var sb strings.Builder
	for i := 0; i < n; i++ {
		if i > 0 || r.chance(0.2) {
			sb.WriteString(r.pick([]string{"", "\n", "  ", "\r\n\t"}))
		}
		if r.chance(0.07) {
			sb.WriteString(r.pick([]string{"<a><b>1</a>", "<x", "stray text ", "<a></b>"}))
		} else {
			sb.WriteString(r.c20XmlDoc(false))
		}
	}
	if r.chance(0.2) {
		sb.WriteString("\n")
	}
	return sb.String()
}

func (r *Rng) c20JsonDoc(m map[string]interface{}, malformedOK bool) string {
	var b []byte
	if r.chance(0.3) {
		b, _ = json.MarshalIndent(m, "", " ")
	} else {
		b, _ = json.Marshal(m)
	}
	doc := string(b)
	if malformedOK && r.chance(0.08) {
		switch r.Intn(5) {
		case 0:
			doc = doc[:len(doc)/2]
		case 1:
			doc = ""
		case 2:
			doc = `[{"a":1},{"b":[true,null]}]`
		case 3:
			doc = "nul"
		case 4:
			doc = `{"a":1}}`
		}
	}
	return doc
}

// c20Keys: the keys occurring in the tree, each once, sorted; keys occurring more often first.
func c20Keys(v interface{}) []string {
	cnt := map[string]int{}
	var walk func(v interface{})
	walk = func(v interface{}) {
		switch x := v.(type) {
		case map[string]interface{}:
			for k, e := range x {
				cnt[k]++
				walk(e)
			}
		case []interface{}:
			for _, e := range x {
				walk(e)
			}
		}
	}
	walk(v)
	ks := make([]string, 0, len(cnt))
	for k := range cnt {
		ks = append(ks, k)
	}
	sort.Slice(ks, func(i, j int) bool {
		if cnt[ks[i]] != cnt[ks[j]] {
			return cnt[ks[i]] > cnt[ks[j]]
		}
		return ks[i] < ks[j]
	})
	return ks
}

func (r *Rng) c20Key(m map[string]interface{}) string {
	ks := c20Keys(m)
	switch x := r.Intn(20); {
	case x < 2 || len(ks) == 0:
		return r.pick([]string{"zz", "nokey", "K"})
	case x < 3:
		return "*"
	case x < 11:
		return ks[r.Intn((len(ks)+2)/3)] // among the most frequent third
	}
	return ks[r.Intn(len(ks))]
}

// c20NestKey forces the shapes the statement names: a key at two depths on one branch, inside lists.
func (r *Rng) c20NestKey(m map[string]interface{}, k string) {
	inner := map[string]interface{}{k: r.genScalar()}
	switch r.Intn(4) {
	case 0:
		m[k] = map[string]interface{}{k: r.genScalar()}
	case 1:
		m[k] = r.genScalar()
		m["b"] = map[string]interface{}{k: r.genScalar(), "c": inner}
	case 2:
		m["list"] = []interface{}{map[string]interface{}{k: inner}, map[string]interface{}{k: "x"}, "s"}
	case 3:
		m["a"] = map[string]interface{}{k: []interface{}{inner, map[string]interface{}{"sub": inner}}}
	}
}

func (r *Rng) c20Map(fromXml bool) map[string]interface{} {
	if fromXml {
		for try := 0; try < 5; try++ {
			m, err := mxj.NewMapXml([]byte(r.c20XmlDoc(false)), r.chance(0.4))
			if err == nil && len(m) > 0 {
				return map[string]interface{}(m)
			}
		}
	}
	g := genCfg{maxDepth: 5, maxFan: 4, nestedLists: r.chance(0.05), emptyLists: true, oddKeys: r.chance(0.15)}
	return r.genMap(g, 0)
}

func (r *Rng) c20Path(m map[string]interface{}) string {
	p := r.genPath(m, false, true, false)
	if r.chance(0.06) {
		switch r.Intn(6) {
		case 0:
			p += "."
		case 1:
			p = "." + p
		case 2:
			p = strings.Replace(p, ".", "..", 1)
		case 3:
			p = ""
		case 4:
			p += "[0]"
		case 5:
			p = "*." + p
		}
	}
	return p
}

func (r *Rng) c20NewVal(path string) interface{} {
	segs := strings.Split(path, ".")
	key := segs[len(segs)-1]
	if key == "*" || r.chance(0.3) {
		key = r.pick(keyPool)
	}
	switch r.Intn(5) {
	case 0:
		return map[string]interface{}{key: r.genScalar()}
	case 1:
		return map[string]interface{}{key: map[string]interface{}{"n": "new"}}
	case 2:
		return key + ":" + r.pick([]string{"1", "2.5", "true", "x"}) + ":" + r.pick([]string{"num", "bool", "float", "zzz"})
	}
	return key + ":new<&>"
}

func (r *Rng) c20Pairs(m map[string]interface{}) []string {
	newPool := []string{"x", "y", "z", "p.q", "p.r", "u.v.w", "t"}
	var pairs []string
	for j := 0; j < 1+r.Intn(3); j++ {
		old := strings.ReplaceAll(r.genPath(m, r.chance(0.2), false, false), "*", "k") // a "*" step fills the new list in map-iteration order
		p := old + ":" + newPool[(j*3+r.Intn(2))%len(newPool)]
		if r.chance(0.08) {
			p = r.pick([]string{old, "", old + ":", old + ":*", old + ":a:b"})
		}
		pairs = append(pairs, p)
	}
	return pairs
}

// c20ThinCase draws the input of one thin wrapper.
func (r *Rng) c20ThinCase(f thinFn) c20Case {
	c := c20Case{Kind: "thin", Fn: f.name}
	var m map[string]interface{} // the Map behind the document, for keys and paths
	switch f.in {
	case "json", "jsonstream":
		g := genCfg{maxDepth: 4, maxFan: 4, emptyLists: true, oddKeys: r.chance(0.1)}
		m = r.genMap(g, 0)
		c.Doc = r.c20JsonDoc(m, true)
		if f.in == "jsonstream" && r.chance(0.5) {
			c.Doc += r.pick([]string{"", "\n", " "}) + r.c20JsonDoc(r.genMap(g, 0), false)
		}
		c.UseNum = r.chance(0.15)
	case "xml":
		c.Doc = r.c20XmlDoc(true)
	case "xmlstream", "xmlfile":
		c.Doc = r.c20XmlStream()
	case "map":
		g := genCfg{maxDepth: 4, maxFan: 4, emptyLists: true}
		m = r.genMap(g, 0)
		c.Map = m
	case "naninf":
		c.Doc = "<doc><a>" + r.pick([]string{"NaN", "Inf", "-Inf", "+Inf", "inf", "1.5", "x"}) + "</a><b>" + r.pick([]string{"2", "NaN", "-inf", "true"}) + "</b></doc>"
		c.Flags = []bool{r.chance(0.7)}
		return c
	}
	if strings.HasPrefix(f.in, "xml") {
		if r.chance(0.25) {
			o := r.genDecOpts()
			o.CInt, o.CFloat, o.CBool = r.chance(0.3), r.chance(0.8), r.chance(0.8)
			c.Opts = &o
			c.Opts.apply()
		}
		// the first document of the input, as the wrappers will see it
		if mm, err := mxj.NewMapXmlReader(strings.NewReader(c.Doc)); err == nil {
			m = map[string]interface{}(mm)
		}
		restoreDefaults()
	}
	if m == nil {
		m = map[string]interface{}{}
	}
	switch f.arg {
	case "key":
		c.Key = r.c20Key(m)
	case "key+sub":
		c.Key = r.c20Key(m)
		if r.chance(0.4) {
			c.SubKeys = r.genSubKeys(m, ":", r.chance(0.1))
		}
	case "path+sub":
		c.Path = strings.ReplaceAll(r.genPath(m, r.chance(0.3), true, r.chance(0.05)), "*[", "k[")
		if r.chance(0.4) {
			c.SubKeys = r.genSubKeys(m, ":", r.chance(0.1))
		}
	case "update":
		c.Path = r.genPath(m, false, true, false)
		c.NewVal = r.c20NewVal(c.Path)
		if r.chance(0.25) {
			c.SubKeys = r.genSubKeys(m, ":", false)
		}
	case "pairs":
		c.Pairs = r.c20Pairs(m)
	case "safe", "recast":
		c.Flags = r.c20Flags()
	case "path+attrs":
		c.Path = r.genPath(m, false, true, false)
		c.Flags = r.c20Flags()
	case "bulk":
		c.Flags = r.c20Flags()
		c.Stop = r.Intn(3)
		c.ErrGo = r.chance(0.5)
	}
	return c
}

// ---------------------------------------------------------------- running a thin case

func c20ThinEval(c c20Case) (got, want string, ok bool) {
	var f *thinFn
	for i := range c20Thin {
		if c20Thin[i].name == c.Fn {
			f = &c20Thin[i]
		}
	}
	if f == nil {
		return "", "", false
	}
	if c.Opts != nil {
		c.Opts.apply()
	}
	mxj.JsonUseNumber = c.UseNum
	defer func() {
		restoreDefaults()
		mxj.JsonUseNumber = false
	}()
	got = guard(func() string {
		g, w := f.call(c)
		want = w
		return g
	})
	return got, want, true
}

func c20ThinKey(c c20Case, got, want string) string {
	if strings.HasPrefix(got, "panic:") {
		return c.Fn + "-panic"
	}
	return c.Fn
}

func c20ThinOne(run *Run, c c20Case) {
	// the ValuesFor* / *TagPath oracles speak about the documented path domain only
	switch c.Fn {
	case "x2jw.ValuesFromTagPath", "x2jw.ReaderValuesFromTagPath", "x2jw.ValuesAtTagPath":
		if !inPathDomain(c.Path) {
			run.count("oracle-skip:path-outside-domain")
			return
		}
	case "x2jw.ValuesForTag", "x2jw.ReaderValuesForTag":
		if c.Key == "*" {
			run.count("oracle-skip:ValuesForKey-star")
			return
		}
	}
	got, want, ok := c20ThinEval(c)
	if !ok {
		return
	}
	run.count("thin:" + c.Fn)
	run.sum.OracleEvals++
	if strings.Contains(want, "error(") {
		run.count("thin-error-path")
	}
	if got != want {
		run.violation(Violation{Key: c20ThinKey(c, got, want), What: c.Fn + " differs from the documented composition of core functions", Input: c, Got: got, Want: want})
	}
}

// ---------------------------------------------------------------- entry points

func runC20(cfg runCfg) error {
	r := newRng(cfg.seed)
	run := newRun("C20", cfg.out, cfg.seed, cfg.shards, c20Header, "xwcase",
		"correspondence: random Maps (70% JSON-shaped depth<=5 fan-out<=4, 15% with odd keys incl. the empty key, 30% decoded from random XML documents "+
			"with attributes/#text, 25% with the key forced at two depths / inside lists) x the five re-implemented x2j-wrapper walkers x keys (frequent, "+
			"any, absent, '*') and dot/wildcard paths derived from the Map (6% outside the domain: trailing/leading/double dot, empty, [i]) x getAttrs "+
			"{absent,true,false,two values}; non-trivial = non-empty result; distinct by input hash.  oracle: the same calls against Map.PathsForKey / "+
			"PathForKeyShortest / ValuesForKey / ValuesForPath, plus every thin wrapper of j2x, x2j, x2j-wrapper against its documented composition")
	walkers := []string{"x2jw.PathsForKey", "x2jw.PathsForKey", "x2jw.PathForKeyShortest", "x2jw.ValuesForKey", "x2jw.ValuesForKey",
		"x2jw.ValuesFromKeyPath", "x2jw.ValuesFromKeyPath", "x2jw.ValuesFromKeyPath", "x2jw.ValuesFromKeyPath", "x2jw.ValuesAtKeyPath", "x2jw.ValuesAtKeyPath"}
	for i := 0; i < cfg.n; i++ {
		fromXml := r.chance(0.3)
		m := r.c20Map(fromXml)
		c := c20Case{Kind: "walker", Fn: walkers[r.Intn(len(walkers))], Map: m}
		switch c.Fn {
		case "x2jw.PathsForKey", "x2jw.PathForKeyShortest", "x2jw.ValuesForKey":
			c.Key = r.c20Key(m)
			if c.Key != "*" && r.chance(0.25) {
				r.c20NestKey(m, c.Key)
			}
		default:
			c.Path = r.c20Path(m)
			c.Flags = r.c20Flags()
			if r.chance(0.04) { // the empty key under a wildcard step
				m[""] = r.genScalar()
				c.Path = r.pick([]string{"*", "*.k", "*.*"})
			}
		}
		if fromXml {
			run.count("map-from-xml")
		}
		if hasEmptyKey(m) {
			run.count("map-with-empty-key")
		}
		c20WalkerOne(run, c)
	}
	// thin wrappers: every function gets the same share
	nthin := cfg.n
	for i := 0; i < nthin; i++ {
		f := c20Thin[i%len(c20Thin)]
		c20ThinOne(run, r.c20ThinCase(f))
	}
	run.sum.Extra = map[string]interface{}{"thin_functions": len(c20Thin), "walker_functions": 5}
	os.RemoveAll("/verif/build/C20tmp")
	return run.finish()
}

func replayC20(raw []byte) error {
	var c c20Case
	if err := json.Unmarshal(raw, &c); err != nil {
		return err
	}
	if c.Kind == "walker" {
		o, after := runC20Walker(c)
		fmt.Printf("input:  %s\nresult: %s\nafter:  %s\n", mustJSON(c), o.text(), canon(after))
		core := mxj.Map(deepCopy(c.Map).(map[string]interface{}))
		switch c.Fn {
		case "x2jw.PathsForKey", "x2jw.PathForKeyShortest":
			fmt.Printf("core:   PathsForKey=%q PathForKeyShortest=%q\n", sortedCopy(core.PathsForKey(c.Key)), core.PathForKeyShortest(c.Key))
		case "x2jw.ValuesForKey":
			v, e := core.ValuesForKey(c.Key)
			fmt.Printf("core:   ValuesForKey=%s %s\n", canon(ifaceList(v)), et(e))
		case "x2jw.ValuesFromKeyPath":
			v, e := core.ValuesForPath(c.Path)
			fmt.Printf("core:   ValuesForPath=%s %s\nspec:   %s\n", canon(ifaceList(v)), et(e), canon(ifaceList(specEvalF(flag1(c.Flags), strings.Split(c.Path, "."), c.Map))))
		case "x2jw.ValuesAtKeyPath":
			fmt.Printf("spec:   %s\n", canon(ifaceList(specValuesAt(flag1(c.Flags), strings.Split(c.Path, "."), c.Map))))
		}
		return nil
	}
	got, want, ok := c20ThinEval(c)
	if !ok {
		return fmt.Errorf("replay: unknown function %q", c.Fn)
	}
	fmt.Printf("input:       %s\nwrapper:     %s\ncomposition: %s\nagree:       %v\n", mustJSON(c), got, want, got == want)
	return nil
}
