package main

import (
	"encoding/json"
	"fmt"
	"sort"
	"strconv"
	"strings"

	mxj "github.com/clbanning/mxj/v2"
)

// C03: encoding any JSON-shaped Map / value as XML preserves all of its data.
//
// Correspondence: the compact encoders' bytes (X1 (XEnc ..) / X1 (XAny ..)) and the REAL token stream
// of the real output of Map.Xml, Map.XmlIndent, AnyXml, AnyXmlIndent (XToks ..) against the item model
// and toks_of_items (Run/RunXml2.v).
// Oracle: NewMapXml(encoder output) == imgGo(value), a transcription of Spec/Img.v.

const xml2Header = "From Mxj Require Import Run.RunXml2.\nLocal Open Scope string_scope.\n"

// ---------------------------------------------------------------- replayable values (Go dynamic types kept)

// jval is a JSON form of a value that keeps int / float64 / json.Number / nil apart.
type jval struct {
	T string `json:"t"` // nil str bool int flt jnum list map
	V string `json:"v,omitempty"`
	L []jval `json:"l,omitempty"`
	M []jent `json:"m,omitempty"`
}

type jent struct {
	K string `json:"k"`
	V jval   `json:"v"`
}

func toJval(v interface{}) jval {
	switch x := v.(type) {
	case nil:
		return jval{T: "nil"}
	case string:
		return jval{T: "str", V: x}
	case bool:
		return jval{T: "bool", V: strconv.FormatBool(x)}
	case int:
		return jval{T: "int", V: strconv.Itoa(x)}
	case int32:
		return jval{T: "i32", V: strconv.FormatInt(int64(x), 10)}
	case int64:
		return jval{T: "i64", V: strconv.FormatInt(x, 10)}
	case float32:
		return jval{T: "f32", V: strconv.FormatFloat(float64(x), 'g', -1, 32)}
	case float64:
		return jval{T: "flt", V: strconv.FormatFloat(x, 'g', -1, 64)}
	case json.Number:
		return jval{T: "jnum", V: string(x)}
	case []interface{}:
		j := jval{T: "list"}
		for _, e := range x {
			j.L = append(j.L, toJval(e))
		}
		return j
	case map[string]interface{}:
		j := jval{T: "map"}
		ks := make([]string, 0, len(x))
		for k := range x {
			ks = append(ks, k)
		}
		sort.Strings(ks)
		for _, k := range ks {
			j.M = append(j.M, jent{K: k, V: toJval(x[k])})
		}
		return j
	}
	return jval{T: "str", V: fmt.Sprintf("<<%T>>", v)}
}

func fromJval(j jval) (interface{}, error) {
	switch j.T {
	case "nil":
		return nil, nil
	case "str":
		return j.V, nil
	case "bool":
		return j.V == "true", nil
	case "int":
		i, err := strconv.Atoi(j.V)
		return i, err
	case "i32":
		i, err := strconv.ParseInt(j.V, 10, 32)
		return int32(i), err
	case "i64":
		i, err := strconv.ParseInt(j.V, 10, 64)
		return i, err
	case "f32":
		f, err := strconv.ParseFloat(j.V, 32)
		return float32(f), err
	case "flt":
		f, err := strconv.ParseFloat(j.V, 64)
		return f, err
	case "jnum":
		return json.Number(j.V), nil
	case "list":
		l := make([]interface{}, 0, len(j.L))
		for _, e := range j.L {
			v, err := fromJval(e)
			if err != nil {
				return nil, err
			}
			l = append(l, v)
		}
		return l, nil
	case "map":
		m := make(map[string]interface{}, len(j.M))
		for _, e := range j.M {
			v, err := fromJval(e.V)
			if err != nil {
				return nil, err
			}
			m[e.K] = v
		}
		return m, nil
	}
	return nil, fmt.Errorf("unknown value tag %q", j.T)
}

// ---------------------------------------------------------------- generator

var c03ElemKeys = []string{"a", "b", "c", "item", "k", "list", "sub", "d-e", "K", "x_y", "data"}
var c03AttrNames = []string{"id", "x", "n", "d-e", "K", "x_y"}
var c03Strs = []string{"", " u ", "  ", "x", "hello world", "1", "true", "l1\nl2", "\ttab", "é€", "y", "2.5", "x ", " lead"}

// strings that need escaping AND contain multi-byte characters (only used when XMLEscapeChars is on)
var c03MixedStrs = []string{"Café & Crème", "日本 <語>", "é\"€'", "a&é"}
var c03Specials = []string{"<&>\"'", "a&amp;b", "]]>", "a<b", "x & y", "'q'", "say \"hi\"", " <t> ", "&"}
var c03Ints = []int{0, 1, -7, 42, 1234567890123, 12}
var c03Floats = []float64{2.5, -0.75, 1e21, 3, 1e-7, 123456789.125, 0, -12}
var c03JNums = []json.Number{"12", "1.50", ""}

// the sized numeric types only hand-built maps carry (the encoders list them beside int and float64)
var c03Sized = []interface{}{int32(-7), int32(2147483647), int64(1) << 40, int64(-9007199254740993), int64(12),
	float32(0.1), float32(2.5), float32(0.7), float32(3.14159), float32(1e-3), float32(16777216), float32(-0.35)}
var c03RootTags = []string{"root", "doc", "r-1", "Top", "a"}
var c03ElemTags = []string{"element", "el", "item", "e_1"}
var c03Indents = [][2]string{{"", "  "}, {"", "\t"}, {" ", " "}, {"", ""}} // (prefix, indent)

const c03MaxDepth = 4 // containers at depth < 4 below the root value
const c03MaxFan = 4

type g3 struct {
	r   *Rng
	esc bool // strings with XML special characters may be drawn
}

func (g *g3) str() string {
	if g.esc && g.r.chance(0.3) {
		if g.r.chance(0.25) {
			return g.r.pick(c03MixedStrs)
		}
		return g.r.pick(c03Specials)
	}
	return g.r.pick(c03Strs)
}

// scalarNN: a non-nil scalar.
func (g *g3) scalarNN() interface{} {
	switch x := g.r.Intn(20); {
	case x < 2:
		return g.r.Intn(2) == 0
	case x < 5:
		return c03Ints[g.r.Intn(len(c03Ints))]
	case x < 8:
		return c03Floats[g.r.Intn(len(c03Floats))]
	case x < 9:
		return c03JNums[g.r.Intn(len(c03JNums))]
	case x < 10:
		return c03Sized[g.r.Intn(len(c03Sized))]
	}
	return g.str()
}

func (g *g3) scalar() interface{} {
	if g.r.chance(0.12) {
		return nil
	}
	return g.scalarNN()
}

func (g *g3) value(depth int) interface{} {
	if depth >= c03MaxDepth {
		return g.scalar()
	}
	pc := 0.62 - 0.1*float64(depth)
	x := g.r.Float64()
	switch {
	case x < pc*0.5:
		return g.mapv(depth)
	case x < pc:
		return g.list(depth)
	}
	return g.scalar()
}

// mapv: 0..4 element entries, sometimes attribute entries, sometimes a text entry (all combinations).
func (g *g3) mapv(depth int) map[string]interface{} {
	m := map[string]interface{}{}
	nk := g.r.Intn(c03MaxFan + 1)
	if g.r.chance(0.1) {
		nk = 0
	}
	for i := 0; i < nk; i++ {
		m[g.r.pick(c03ElemKeys)] = g.value(depth + 1)
	}
	if g.r.chance(0.3) {
		for i := 0; i < 1+g.r.Intn(2); i++ {
			m["-"+g.r.pick(c03AttrNames)] = g.scalarNN()
		}
	}
	if g.r.chance(0.25) {
		m["#text"] = g.scalar()
	}
	return m
}

// list: 0..4 members; scalars / maps / mixed / with directly nested lists.
func (g *g3) list(depth int) []interface{} {
	n := g.r.Intn(c03MaxFan + 1)
	l := make([]interface{}, 0, n)
	kind := g.r.Intn(5)
	for i := 0; i < n; i++ {
		switch kind {
		case 0:
			l = append(l, g.scalar())
		case 1:
			if depth+1 < c03MaxDepth {
				l = append(l, g.mapv(depth+1))
			} else {
				l = append(l, g.scalar())
			}
		case 3:
			if g.r.chance(0.5) && depth+1 < c03MaxDepth {
				l = append(l, g.list(depth+1))
			} else {
				l = append(l, g.value(depth+1))
			}
		default:
			l = append(l, g.value(depth+1))
		}
	}
	return l
}

func c03IsAttrKey(k string) bool { return len(k) > 1 && k[:1] == "-" }
func c03IsElemKey(k string) bool { return !c03IsAttrKey(k) && k != "#text" }

// anyList: the members of a list given to AnyXml: single-key maps (key = tag), multi-key maps, scalars, nested lists.
func (g *g3) anyList() []interface{} {
	n := g.r.Intn(c03MaxFan + 1)
	l := make([]interface{}, 0, n)
	for i := 0; i < n; i++ {
		switch x := g.r.Intn(20); {
		case x < 7:
			l = append(l, map[string]interface{}{g.r.pick(c03ElemKeys): g.value(2)})
		case x < 11:
			l = append(l, g.mapv(1))
		case x < 16:
			l = append(l, g.scalar())
		case x < 19:
			l = append(l, g.list(1))
		default:
			l = append(l, nil)
		}
	}
	// a single-key map member's key is written as a tag: it must be an element name
	for _, e := range l {
		if m, ok := e.(map[string]interface{}); ok && len(m) == 1 {
			for k := range m {
				if !c03IsElemKey(k) {
					m[g.r.pick(c03ElemKeys)] = g.scalar()
				}
			}
		}
	}
	return l
}

// ---------------------------------------------------------------- value inspection

type c03Feat struct {
	specials, nestedList, attr, text, textKids, textAttrs, textOnly, emptyMap, emptyList, nilv, nilInList,
	emptyInner, jnum, fltNonInt, listOfMaps, mixedList, listOfScalars, big bool
	depth int
}

func c03HasSpecial(s string) bool { return strings.ContainsAny(s, "<&>\"'") }

func (f *c03Feat) walk(v interface{}, d int) {
	if d > f.depth {
		f.depth = d
	}
	switch x := v.(type) {
	case nil:
		f.nilv = true
	case string:
		if c03HasSpecial(x) {
			f.specials = true
		}
	case json.Number:
		f.jnum = true
	case float64:
		if x != float64(int64(x)) {
			f.fltNonInt = true
		}
	case map[string]interface{}:
		if len(x) == 0 {
			f.emptyMap = true
		}
		if len(x) >= 2 {
			f.big = true
		}
		na, nc := 0, 0
		_, ht := x["#text"]
		for k, e := range x {
			if c03IsAttrKey(k) {
				na++
			} else if k != "#text" {
				nc++
			}
			f.walk(e, d+1)
		}
		if na > 0 {
			f.attr = true
		}
		if ht {
			f.text = true
			if nc > 0 {
				f.textKids = true
			}
			if na > 0 {
				f.textAttrs = true
			}
			if na == 0 && nc == 0 {
				f.textOnly = true
			}
		}
	case []interface{}:
		if len(x) == 0 {
			f.emptyList = true
		}
		if len(x) >= 2 {
			f.big = true
		}
		nm, ns := 0, 0
		for _, e := range x {
			switch y := e.(type) {
			case map[string]interface{}:
				nm++
			case []interface{}:
				f.nestedList = true
				if len(y) == 0 {
					f.emptyInner = true
				}
			case nil:
				f.nilInList = true
				ns++
			default:
				ns++
			}
			f.walk(e, d+1)
		}
		if nm > 0 && ns == 0 {
			f.listOfMaps = true
		}
		if nm > 0 && ns > 0 {
			f.mixedList = true
		}
		if nm == 0 && ns > 0 {
			f.listOfScalars = true
		}
	}
}

// c03NameOK: name_okb of Spec/Items.v.
func c03NameOK(n string) bool {
	if n == "" {
		return false
	}
	for i := 0; i < len(n); i++ {
		c := n[i]
		start := c >= 'A' && c <= 'Z' || c >= 'a' && c <= 'z' || c == '_' || c >= 128
		if i == 0 && !start {
			return false
		}
		if !start && !(c >= '0' && c <= '9') && c != '-' && c != '.' {
			return false
		}
	}
	return true
}

// c03Dom: dom03 of Spec/Img.v (Go maps have distinct keys by construction).
func c03Dom(v interface{}, esc bool) bool {
	attrScalar := func(v interface{}) bool {
		switch x := v.(type) {
		case string:
			return esc || !c03HasSpecial(x)
		case bool, int, int32, int64, float32, float64, json.Number:
			return true
		}
		return false
	}
	switch x := v.(type) {
	case nil:
		return true
	case map[string]interface{}:
		for k, e := range x {
			switch {
			case c03IsAttrKey(k):
				if !c03NameOK(k[1:]) || !attrScalar(e) {
					return false
				}
			case k == "#text":
				if e != nil && !attrScalar(e) {
					return false
				}
			default:
				if !c03NameOK(k) || !c03Dom(e, esc) {
					return false
				}
			}
		}
		return true
	case []interface{}:
		for _, e := range x {
			if !c03Dom(e, esc) {
				return false
			}
		}
		return true
	}
	return attrScalar(v)
}

// c03AnyDom: any value given to AnyXml; list members per any_member_ok.
func c03AnyDom(v interface{}, esc bool) bool {
	l, ok := v.([]interface{})
	if !ok {
		return c03Dom(v, esc)
	}
	for _, e := range l {
		if m, ok := e.(map[string]interface{}); ok && len(m) == 1 {
			for k, val := range m {
				if !c03NameOK(k) || !c03Dom(val, esc) {
					return false
				}
			}
			continue
		}
		if !c03Dom(e, esc) {
			return false
		}
	}
	return true
}

// ---------------------------------------------------------------- img: Spec/Img.v transcribed (o = defaults)

const c03TrimSet = "\t\r\b\n "

func c03ScalarTxt(v interface{}) string {
	switch x := v.(type) {
	case nil:
		return ""
	case string:
		return x
	}
	return fmt.Sprintf("%v", v)
}

func c03Collapse(xs []interface{}) interface{} {
	if len(xs) == 1 {
		return xs[0]
	}
	return xs
}

// imgsGo: the images of the elements v is written as under one key.
func imgsGo(v interface{}) []interface{} {
	switch x := v.(type) {
	case map[string]interface{}:
		out := map[string]interface{}{}
		nA, nC := 0, 0
		for k, e := range x {
			switch {
			case c03IsAttrKey(k):
				out[k] = c03ScalarTxt(e) // attribute text is not trimmed
				nA++
			case k == "#text":
			default:
				out[k] = c03Collapse(imgsGo(e))
				nC++
			}
		}
		t := ""
		if tv, ok := x["#text"]; ok {
			t = strings.Trim(c03ScalarTxt(tv), c03TrimSet)
		}
		if t == "" {
			if nA+nC == 0 {
				return []interface{}{""}
			}
			return []interface{}{out}
		}
		if nA == 0 && nC == 0 {
			return []interface{}{t}
		}
		out["#text"] = t
		return []interface{}{out}
	case []interface{}:
		if len(x) == 0 {
			return []interface{}{""}
		}
		var out []interface{}
		for _, e := range x {
			out = append(out, imgsGo(e)...)
		}
		return out
	}
	return []interface{}{strings.Trim(c03ScalarTxt(v), c03TrimSet)}
}

func imgGo(v interface{}) interface{} { return c03Collapse(imgsGo(v)) }

// imgMapGo: what NewMapXml(Map.Xml(m)) / NewMapXml(Map.XmlIndent(m)) must return (img_map; explicit tag: the tag).
func imgMapGo(m map[string]interface{}, root *string) map[string]interface{} {
	if root != nil {
		return map[string]interface{}{*root: imgGo(m)}
	}
	if len(m) == 1 {
		for k, v := range m {
			if _, isList := v.([]interface{}); !isList {
				return map[string]interface{}{k: imgGo(v)}
			}
		}
	}
	return map[string]interface{}{"doc": imgGo(m)}
}

type c03Group []interface{}

// imgAnyGo: img_any (a list becomes the children of rt, repeated tags grouped in order).
func imgAnyGo(v interface{}, rt, et string) map[string]interface{} {
	l, ok := v.([]interface{})
	if !ok {
		return map[string]interface{}{rt: imgGo(v)}
	}
	kids := map[string]interface{}{}
	add := func(tag string, vals []interface{}) {
		for _, x := range vals {
			old, seen := kids[tag]
			switch {
			case !seen:
				kids[tag] = x
			default:
				if g, isG := old.(c03Group); isG {
					kids[tag] = append(g, x)
				} else {
					kids[tag] = c03Group{old, x}
				}
			}
		}
	}
	for _, e := range l {
		if m, isMap := e.(map[string]interface{}); isMap && len(m) == 1 {
			for tag, val := range m {
				add(tag, imgsGo(val))
			}
			continue
		}
		add(et, imgsGo(e))
	}
	if len(kids) == 0 {
		return map[string]interface{}{rt: ""}
	}
	for k, x := range kids {
		if g, isG := x.(c03Group); isG {
			kids[k] = []interface{}(g)
		}
	}
	return map[string]interface{}{rt: kids}
}

// ---------------------------------------------------------------- cases

type c03Case struct {
	Kind      string   `json:"kind"` // "map": Map.Xml / Map.XmlIndent; "any": AnyXml / AnyXmlIndent
	Call      string   `json:"call"` // which call this case term records: bytes | toks | toks-indent
	Opts      xOpts    `json:"opts"`
	Val       jval     `json:"value"`
	Root      *string  `json:"rootTag,omitempty"` // map: explicit root tag
	Extra     []string `json:"extraTags,omitempty"` // map: further tags after the root tag (two or more tags: the Go code falls back to the default root tag)
	Tags      []string `json:"tags,omitempty"`    // any: 0, 1 or 2 tags
	Prefix    string   `json:"prefix"`
	Indent    string   `json:"indent"`
	InDomain  bool     `json:"inDomain"`
	Malformed string   `json:"malformed,omitempty"`
}

func (c c03Case) rtet() (string, string) {
	rt, et := "doc", "element"
	if len(c.Tags) >= 1 {
		rt = c.Tags[0]
	}
	if len(c.Tags) == 2 {
		et = c.Tags[1]
	}
	return rt, et
}

// c03Encode runs one encoder under the options; Ret is the []byte returned.
func c03Encode(c c03Case, v interface{}, indent bool) Outcome {
	c.Opts.apply()
	defer restoreDefaults()
	return protect(func() Outcome {
		var b []byte
		var err error
		switch c.Kind {
		case "map":
			m := mxj.Map(v.(map[string]interface{}))
			var rt []string
			if c.Root != nil {
				rt = append([]string{*c.Root}, c.Extra...)
			}
			if indent {
				b, err = m.XmlIndent(c.Prefix, c.Indent, rt...)
			} else {
				b, err = m.Xml(rt...)
			}
		default:
			if indent {
				b, err = mxj.AnyXmlIndent(v, c.Prefix, c.Indent, c.Tags...)
			} else {
				b, err = mxj.AnyXml(v, c.Tags...)
			}
		}
		return Outcome{Err: err, Ret: b}
	})
}

func c03OutText(o Outcome) string {
	if o.Panicked {
		return "panic: " + o.PanicMsg
	}
	b, _ := o.Ret.([]byte)
	if o.Err != nil {
		return "error(" + o.Err.Error() + ") " + strconv.Quote(string(b))
	}
	return strconv.Quote(string(b))
}

// effRoot: the root tag in effect - the single tag given; with two or more tags the default root tag
// (`len(rootTag) == 1` fails and the single-key rule is skipped as well).
func (c c03Case) effRoot() *string {
	if c.Root != nil && len(c.Extra) > 0 {
		d := mxj.DefaultRootTag
		return &d
	}
	return c.Root
}

func coqOptStr(p *string) string {
	if p == nil {
		return "None"
	}
	return "(Some " + coqStr(*p) + ")"
}

// c03CallTerm: the enc_call term of RunXml2.v; vterm is the printed value.
func c03CallTerm(c c03Case, vterm string, indent bool) string {
	if c.Kind == "map" {
		if indent {
			return "(CXmlIndent " + vterm + " " + coqOptStr(c.effRoot()) + ")"
		}
		return "(CXml " + vterm + " " + coqOptStr(c.effRoot()) + ")"
	}
	rt, et := c.rtet()
	if indent {
		return "(CAnyIndent " + vterm + " " + coqStr(rt) + " " + coqStr(et) + ")"
	}
	return "(CAny " + vterm + " " + coqStr(rt) + " " + coqStr(et) + ")"
}

// toksTerm: XToks o call errd ts tm for the outcome of an encoder call.
func toksTerm(o xOpts, call string, out Outcome) (string, []gtok, error) {
	if out.Panicked {
		// no panic constructor in the case language: an accepted empty stream never matches a model that returns items
		return "XToks " + o.coq() + " " + call + " false [] TermErr", nil, fmt.Errorf("panic")
	}
	if out.Err != nil {
		return "XToks " + o.coq() + " " + call + " true [] TermEOF", nil, out.Err
	}
	b, _ := out.Ret.([]byte)
	ts, terr := tokenize(b, false)
	return "XToks " + o.coq() + " " + call + " false " + coqToks(ts) + " " + coqTerm(terr), ts, terr
}

// rootInfo: number of elements opened at depth 0 and whether non-blank text occurs outside them.
func rootInfo(ts []gtok) (roots int, stray bool) {
	depth := 0
	for _, t := range ts {
		switch t.Kind {
		case "start":
			if depth == 0 {
				roots++
			}
			depth++
		case "end":
			depth--
		case "char":
			if depth == 0 && strings.Trim(t.Data, " \t\r\n") != "" {
				stray = true
			}
		}
	}
	return
}

// encOracle: clauses (i)-(iv) for one encoder output. label names the encoder in the key.
func encOracle(run *Run, label string, o xOpts, cast bool, inp interface{}, out Outcome, ts []gtok, terr error,
	want interface{}, diffKey string) {
	run.sum.OracleEvals++
	if out.Panicked {
		run.violation(Violation{Key: "panic", What: label + " panicked", Input: inp, Got: c03OutText(out), Want: "XML"})
		return
	}
	if out.Err != nil {
		run.violation(Violation{Key: "encode-error", What: label + " returned an error for a value in the domain", Input: inp, Got: c03OutText(out), Want: "XML"})
		return
	}
	b, _ := out.Ret.([]byte)
	if terr != nil {
		run.violation(Violation{Key: "not-wellformed", What: "the tokenizer rejects the output of " + label + ": " + terr.Error(), Input: inp, Got: c03OutText(out), Want: "well-formed XML"})
		return
	}
	if roots, stray := rootInfo(ts); roots != 1 || stray {
		run.violation(Violation{Key: "root-count", What: fmt.Sprintf("%s: %d root elements, text outside the root: %v", label, roots, stray), Input: inp, Got: c03OutText(out), Want: "exactly one root"})
		return
	}
	d := decodeXml(o, b, cast)
	if d.Panicked || d.Err != nil {
		run.violation(Violation{Key: "decode-error:" + label, What: "NewMapXml fails on the output of " + label, Input: inp, Got: c03OutText(out) + " -> " + d.text(), Want: canon(want)})
		return
	}
	if canon(d.Ret) != canon(want) {
		run.violation(Violation{Key: diffKey, What: "NewMapXml(" + label + " output) differs from the expected Map", Input: inp, Got: c03OutText(out) + " -> " + d.text(), Want: canon(want)})
	}
}

func init() {
	props["C03"] = runC03
	replays["C03"] = replayC03
}

// injectBadAttr puts an attribute entry with a map / list / nil value into some map of v (v itself when it is one).
func (g *g3) injectBadAttr(v interface{}) bool {
	var maps []map[string]interface{}
	var walk func(x interface{})
	walk = func(x interface{}) {
		switch y := x.(type) {
		case map[string]interface{}:
			maps = append(maps, y)
			ks := make([]string, 0, len(y))
			for k := range y {
				ks = append(ks, k)
			}
			sort.Strings(ks)
			for _, k := range ks {
				walk(y[k])
			}
		case []interface{}:
			for _, e := range y {
				walk(e)
			}
		}
	}
	walk(v)
	if len(maps) == 0 {
		return false
	}
	m := maps[g.r.Intn(len(maps))]
	var bad interface{}
	switch g.r.Intn(3) {
	case 0:
		bad = map[string]interface{}{"k": "v"}
	case 1:
		bad = []interface{}{"1", "2"}
	}
	m["-"+g.r.pick(c03AttrNames)] = bad
	return true
}

func runC03(cfg runCfg) error {
	r := newRng(cfg.seed)
	run := newRun("C03", cfg.out, cfg.seed, cfg.shards, xml2Header, "xcase2",
		"random JSON-shaped values (nesting <= 4 containers below the root, fan-out <= 4: empty maps/lists, nil, int, float64, json.Number, occasionally int32/int64/float32, "+
			"bool, strings with blanks/tabs/newlines/non-ASCII and - under XMLEscapeChars - the five XML specials; lists of scalars / maps / mixed / "+
			"directly nested; attribute and text entries in every combination) x root shapes (multi-key, single-key non-list, empty, explicit tag, "+
			"AnyXml of scalar/nil/list/map with default or explicit tags) x 4 indentations; plus ~8% out-of-domain stream (non-scalar attribute, "+
			"specials without escaping, single-key list root; correspondence only); each input yields 3 case terms (compact bytes, compact tokens, "+
			"indented tokens); non-trivial = some map with >= 2 entries or list with >= 2 members; distinct by input hash")
	for i := 0; i < cfg.n; i++ {
		g := &g3{r: r}
		o := defaultXOpts()
		o.Esc = r.chance(0.6)
		g.esc = o.Esc
		c := c03Case{Opts: o, InDomain: true}
		ind := c03Indents[r.Intn(len(c03Indents))]
		c.Prefix, c.Indent = ind[0], ind[1]
		malformed := ""
		if r.chance(0.08) {
			malformed = r.pick([]string{"attr-nonscalar", "attr-nonscalar", "specials-noesc", "single-key-list-root"})
		}
		if malformed == "specials-noesc" {
			g.esc = true
			c.Opts.Esc = false
		}
		var v interface{}
		shape := ""
		switch x := r.Intn(100); {
		case malformed == "single-key-list-root":
			c.Kind = "map"
			v = map[string]interface{}{r.pick(c03ElemKeys): g.list(1)}
			shape = "root:single-key-list(out-of-domain)"
		case x < 28:
			c.Kind = "map"
			m := g.mapv(0)
			for len(m) < 2 {
				m[r.pick(c03ElemKeys)] = g.value(1)
			}
			v = m
			shape = "root:multi-key"
		case x < 48:
			c.Kind = "map"
			val := g.value(1)
			if _, isList := val.([]interface{}); isList {
				val = g.mapv(1)
			}
			v = map[string]interface{}{r.pick(c03ElemKeys): val}
			shape = "root:single-key"
		case x < 51:
			c.Kind = "map"
			v = map[string]interface{}{}
			shape = "root:empty-map"
		default:
			c.Kind = "any"
			switch y := r.Intn(20); {
			case y < 4:
				v = g.scalarNN()
				shape = "any:scalar"
			case y < 5:
				v = nil
				shape = "any:nil"
			case y < 15:
				v = g.anyList()
				shape = "any:list"
			default:
				v = g.mapv(0)
				shape = "any:map"
			}
			switch y := r.Intn(4); {
			case y == 0:
				c.Tags = []string{r.pick(c03RootTags)}
				run.count("any-tags:root")
			case y == 1:
				c.Tags = []string{r.pick(c03RootTags), r.pick(c03ElemTags)}
				run.count("any-tags:root+element")
			default:
				run.count("any-tags:default")
			}
		}
		if c.Kind == "map" && malformed != "single-key-list-root" && r.chance(0.25) {
			// an explicit root tag: every map, also a single-key map with a list value
			if r.chance(0.2) {
				v = map[string]interface{}{r.pick(c03ElemKeys): g.list(1)}
				shape = "root:single-key-list"
			}
			t := r.pick(c03RootTags)
			c.Root = &t
			shape += "+explicit-tag"
			if r.chance(0.2) {
				// two (or three) tags: not "the explicit root tag" any more
				c.Extra = []string{r.pick(c03RootTags)}
				if r.chance(0.3) {
					c.Extra = append(c.Extra, r.pick(c03ElemTags))
				}
				shape += "+extra-tags"
			}
		}
		switch malformed {
		case "attr-nonscalar":
			if !g.injectBadAttr(v) {
				malformed = ""
			}
		case "specials-noesc":
			var f c03Feat
			f.walk(v, 0)
			if !f.specials {
				// make sure there is something to escape
				sp := r.pick(c03Specials)
				switch x := v.(type) {
				case map[string]interface{}:
					x[r.pick(c03ElemKeys)] = sp
				case []interface{}:
					v = append(x, sp)
				default:
					v = sp
				}
			}
		}
		if malformed != "" {
			c.InDomain = false
			c.Malformed = malformed
			run.count("out-of-domain:" + malformed)
		}
		run.count(shape)
		if c.InDomain {
			ok := false
			if c.Kind == "any" {
				ok = c03AnyDom(v, c.Opts.Esc)
			} else {
				ok = c03Dom(v, c.Opts.Esc)
			}
			if !ok {
				return fmt.Errorf("C03 generator produced a value outside dom03 in the in-domain stream: %s", canon(v))
			}
		}
		c.Val = toJval(v)
		c03One(run, c, v)
	}
	return run.finish()
}

// c03One emits the three case terms of one input and evaluates the oracle on both encoders.
func c03One(run *Run, c c03Case, v interface{}) {
	var f c03Feat
	f.walk(v, 0)
	o := c.Opts
	vterm := coqVal(v)
	// distribution
	run.count("esc:" + strconv.FormatBool(o.Esc))
	run.count(fmt.Sprintf("indent:%q+%q", c.Prefix, c.Indent))
	run.count(fmt.Sprintf("depth:%d", f.depth))
	for name, on := range map[string]bool{"has-specials": f.specials, "nested-list": f.nestedList, "attr": f.attr, "text": f.text,
		"text+children": f.textKids, "text+attrs": f.textAttrs, "text-only-map": f.textOnly, "empty-map": f.emptyMap,
		"empty-list": f.emptyList, "nil": f.nilv, "nil-in-list": f.nilInList, "empty-inner-list": f.emptyInner,
		"json.Number": f.jnum, "float-non-integer": f.fltNonInt, "list-of-maps": f.listOfMaps, "mixed-list": f.mixedList,
		"list-of-scalars": f.listOfScalars} {
		if on {
			run.count(name)
		}
	}

	compact := c03Encode(c, v, false)
	indented := c03Encode(c, v, true)
	cb, _ := compact.Ret.([]byte)
	_, aerr := tokenize(cb, false)
	accept := compact.Err == nil && !compact.Panicked && aerr == nil

	// 1. bytes of the compact encoder
	c1 := c
	c1.Call = "bytes"
	var t1 string
	if c.Kind == "map" {
		t1 = fmt.Sprintf("X1 (XEnc %s %s %s %s %s)", o.coq(), vterm, coqOptStr(c.effRoot()), coqBool(accept), xoutBytes(compact))
	} else {
		rt, et := c.rtet()
		t1 = fmt.Sprintf("X1 (XAny %s %s %s %s %s %s)", o.coq(), vterm, coqStr(rt), coqStr(et), coqBool(accept), xoutBytes(compact))
	}
	run.add(t1, c1, c03OutText(compact), f.big)
	// 2. tokens of the compact encoder's output
	c2 := c
	c2.Call = "toks"
	t2, ts2, terr2 := toksTerm(o, c03CallTerm(c, vterm, false), compact)
	run.add(t2, c2, c03OutText(compact), f.big)
	// 3. tokens of the indented encoder's output
	c3 := c
	c3.Call = "toks-indent"
	t3, ts3, terr3 := toksTerm(o, c03CallTerm(c, vterm, true), indented)
	run.add(t3, c3, c03OutText(indented), f.big)

	if compact.Err != nil || indented.Err != nil {
		run.count("encoder-error")
	}
	if !c.InDomain {
		if c.Malformed == "attr-nonscalar" {
			// ---- oracle clause for the documented error: an attribute entry whose value is not a non-nil scalar must
			// make the encoder return an error, never bytes (AnyXml / AnyXmlIndent on a list used to return truncated XML).
			for _, e := range []struct {
				indent bool
				out    Outcome
				inp    c03Case
			}{{false, compact, c2}, {true, indented, c3}} {
				if !c03ExpectErr(c, v, e.indent) {
					run.count("attr-nonscalar:not-reached-as-attribute")
					continue
				}
				run.sum.OracleEvals++
				if e.out.Panicked || e.out.Err == nil {
					key := "attr-nonscalar-no-error"
					if c.Kind == "any" {
						key = "anyxml-error-swallowed"
					}
					run.violation(Violation{Key: key, What: "an attribute entry with a non-scalar value must make the encoder return an error, never bytes",
						Input: e.inp, Got: c03OutText(e.out), Want: "error (invalid attribute value)"})
				}
			}
		}
		return
	}
	// ---- oracle
	var want map[string]interface{}
	l1, l2, k1, k2 := "Map.Xml", "Map.XmlIndent", "img-differs:compact", "img-differs:indent"
	if c.Kind == "map" {
		want = imgMapGo(v.(map[string]interface{}), c.effRoot())
	} else {
		rt, et := c.rtet()
		want = imgAnyGo(v, rt, et)
		l1, l2, k1, k2 = "AnyXml", "AnyXmlIndent", "img-differs:anyxml", "img-differs:anyxml-indent"
	}
	if compact.Err == nil && !compact.Panicked {
		terr2 = aerr
	}
	encOracle(run, l1, o, false, c2, compact, ts2, terr2, want, k1)
	encOracle(run, l2, o, false, c3, indented, ts3, terr3, want, k2)
}

// c03BadIn: does encoding x (marshalMapToXmlIndent) reach an attribute entry whose value is not a non-nil scalar?
func c03BadIn(x interface{}) bool {
	switch y := x.(type) {
	case map[string]interface{}:
		for k, val := range y {
			if len(k) > 1 && k[0] == '-' {
				switch val.(type) {
				case nil, map[string]interface{}, []interface{}:
					return true
				}
				continue
			}
			if k == "#text" {
				continue
			}
			if c03BadIn(val) {
				return true
			}
		}
	case []interface{}:
		for _, e := range y {
			if c03BadIn(e) {
				return true
			}
		}
	}
	return false
}

// c03ExpectErr mirrors the root selection of the four encoders: is the bad attribute entry written as an attribute?
func c03ExpectErr(c c03Case, v interface{}, indent bool) bool {
	if c.Kind == "map" {
		m := v.(map[string]interface{})
		if c.Root != nil || len(m) != 1 {
			return c03BadIn(m)
		}
		for _, val := range m {
			if l, isList := val.([]interface{}); isList {
				if indent {
					return c03BadIn(m)
				}
				for _, e := range l {
					if _, isMap := e.(map[string]interface{}); !isMap {
						return c03BadIn(m)
					}
				}
			}
			return c03BadIn(val)
		}
	}
	if l, isList := v.([]interface{}); isList {
		for _, e := range l {
			if mm, isMap := e.(map[string]interface{}); isMap && len(mm) == 1 {
				for _, val := range mm {
					if c03BadIn(val) {
						return true
					}
				}
				continue
			}
			if c03BadIn(e) {
				return true
			}
		}
		return false
	}
	return c03BadIn(v)
}

func replayC03(raw []byte) error {
	var c c03Case
	if err := json.Unmarshal(raw, &c); err != nil {
		return err
	}
	v, err := fromJval(c.Val)
	if err != nil {
		return err
	}
	fmt.Printf("input:    %s\nvalue:    %s\n", mustJSON(c), canon(v))
	var want map[string]interface{}
	if c.Kind == "map" {
		m, ok := v.(map[string]interface{})
		if !ok {
			return fmt.Errorf("replay: kind map needs a map value")
		}
		want = imgMapGo(m, c.effRoot())
	} else {
		rt, et := c.rtet()
		want = imgAnyGo(v, rt, et)
	}
	for _, indent := range []bool{false, true} {
		name := map[string]string{"mapfalse": "Map.Xml", "maptrue": "Map.XmlIndent", "anyfalse": "AnyXml", "anytrue": "AnyXmlIndent"}[c.Kind+strconv.FormatBool(indent)]
		out := c03Encode(c, v, indent)
		fmt.Printf("%-13s %s\n", name+":", c03OutText(out))
		if b, ok := out.Ret.([]byte); ok && out.Err == nil && !out.Panicked {
			ts, terr := tokenize(b, false)
			roots, stray := rootInfo(ts)
			fmt.Printf("  tokenizer:  err=%v roots=%d text-outside-root=%v\n", terr, roots, stray)
			d := decodeXml(c.Opts, b, false)
			fmt.Printf("  NewMapXml:  %s\n", d.text())
		}
	}
	fmt.Printf("img (in domain: %v): %s\n", c.InDomain, canon(want))
	return nil
}
