package main

import (
	"fmt"
)

// C07: ValuesForPath / ValueForPath / Exists.
func runC07(cfg runCfg) error {
	r := newRng(cfg.seed)
	run := newRun("C07", cfg.out, cfg.seed, cfg.shards, kvHeader, "case",
		"random JSON/XML-shaped Maps (depth<=5, fan-out<=4, 2% wide >32) x paths derived from the Map's own key paths with mutations "+
			"(wildcards, [i] steps, missing keys); non-trivial = the call returns at least one value; distinct = by hash of the input")
	g := genCfg{maxDepth: 5, maxFan: 4, nestedLists: false, emptyLists: true, wide: true}
	for _, c := range loadCorpus("C07") {
		c07One(run, c, true)
	}
	for i := 0; i < cfg.n; i++ {
		m := r.genMap(g, 0)
		indexed := r.chance(0.5)
		path := r.genPath(m, indexed, true, false)
		c := kvCase{Map: m, Path: path, Sep: ":"}
		switch x := r.Intn(10); {
		case x < 6:
			c.Op = "ValuesForPath"
			if r.chance(0.3) {
				c.SubKeys = r.genSubKeys(m, ":", false)
			}
		case x < 8:
			c.Op = "ValueForPath"
		default:
			c.Op = "Exists"
		}
		c07One(run, c, false)
		// a result gathered from SEVERAL lists that together exceed the initial result capacity (seed C18-6: a list that
		// straddles the buffer boundary must not be cut)
		if r.chance(0.02) {
			var secs []interface{}
			for j, ns := 0, 2+r.Intn(3); j < ns; j++ {
				var items []interface{}
				for q, nq := 0, 9+r.Intn(14); q < nq; q++ {
					items = append(items, float64(100*j+q))
				}
				secs = append(secs, map[string]interface{}{"item": items})
			}
			sm := map[string]interface{}{"doc": map[string]interface{}{"section": secs}}
			c07One(run, kvCase{Op: "ValuesForPath", Map: sm, Path: r.pick([]string{"doc.section.item", "doc.*.item", "*.*.*"}), Sep: ":"}, false)
		}
		// two un-indexed -> indexed transitions in one path, several parents at the outer one and several values under an
		// earlier parent at the inner one (seed C07-5: a buffer shared between the nested look-aheads)
		if r.chance(0.03) {
			mk := func(base int) interface{} {
				var cs []interface{}
				for j, nc := 0, 1+r.Intn(3); j < nc; j++ {
					cs = append(cs, map[string]interface{}{"d": []interface{}{float64(base + 2*j + 1), float64(base + 2*j + 2)}})
				}
				return map[string]interface{}{"b": []interface{}{map[string]interface{}{"c": cs}, map[string]interface{}{"c": "other"}}}
			}
			var as []interface{}
			for j, na := 0, 2+r.Intn(3); j < na; j++ {
				as = append(as, mk(10*j))
			}
			sm := map[string]interface{}{"a": as}
			p := r.pick([]string{"a.b[0].c.d[1]", "a.b[0].c.d[0]", "*.b[0].c.d[1]", "a.b[0].*.d[1]", "a.b[1].c.d[0]"})
			c07One(run, kvCase{Op: "ValuesForPath", Map: sm, Path: p, Sep: ":"}, false)
		}
	}
	return run.finish()
}

func c07One(run *Run, c kvCase, fromCorpus bool) {
	o, after := runKV(c)
	ordered := !pathHasStar(c.Path)
	nontrivial := false
	switch c.Op {
	case "ValuesForPath":
		if l, ok := o.Ret.([]interface{}); ok && len(l) > 0 {
			nontrivial = true
			if len(l) > 32 {
				run.count("results>32")
			}
		}
	case "ValueForPath":
		nontrivial = o.Err == nil && !o.Panicked
	case "Exists":
		if b, ok := o.Ret.(bool); ok && b {
			nontrivial = true
		}
	}
	run.count("op:" + c.Op)
	if nontrivial {
		run.count("matched")
	}
	if o.Err != nil {
		run.count("error")
	}
	if o.Panicked {
		run.count("panic")
	}
	run.add(c.term(ordered, o, after), c, o.text(), nontrivial)

	// ---- oracle: the property evaluated on the implementation's own result
	keys, ok := specParse(c.Path)
	if !ok || hasIndexOnStar(keys) {
		return
	}
	anyIdx := false
	nidx := 0
	for _, k := range keys {
		if k.arr {
			anyIdx = true
			nidx++
		}
	}
	if anyIdx && hasNestedLists(c.Map, false) {
		return
	}
	if nidx >= 2 {
		run.count("indexed>=2")
	}
	run.sum.OracleEvals++
	if o.Panicked {
		run.violation(Violation{Key: "panic", What: c.Op + " panicked", Input: c, Got: o.text(), Want: "no panic"})
		return
	}
	if canon(after) != canon(c.Map) {
		run.violation(Violation{Key: "receiver-modified", What: c.Op + " modified its receiver", Input: c, Got: canon(after), Want: canon(c.Map)})
	}
	want := specEvalX(keys, c.Map)
	switch c.Op {
	case "ValuesForPath":
		if len(c.SubKeys) > 0 {
			return // sub-key filtering is C08's clause
		}
		got, _ := o.Ret.([]interface{})
		bad := false
		if o.Err != nil {
			bad = true
		} else if ordered {
			bad = canon(ifaceList(got)) != canon(ifaceList(want))
		} else {
			bad = canonMultiset(got) != canonMultiset(want)
		}
		if bad {
			key := "values-differ"
			if nidx >= 2 {
				key = "indexed-two-levels"
			}
			run.violation(Violation{Key: key, What: "ValuesForPath differs from the values the path denotes", Input: c,
				Got: o.text(), Want: canon(ifaceList(want))})
		}
	case "ValueForPath":
		if len(want) == 0 {
			if o.Err == nil {
				run.violation(Violation{Key: "value-for-missing", What: "ValueForPath returned a value for a path that denotes none", Input: c, Got: o.text(), Want: "error"})
			}
			return
		}
		if o.Err != nil {
			run.violation(Violation{Key: "value-missing", What: "ValueForPath failed although the path denotes values", Input: c, Got: o.text(), Want: canon(want[0])})
			return
		}
		if ordered {
			if canon(o.Ret) != canon(want[0]) {
				run.violation(Violation{Key: "value-not-first", What: "ValueForPath is not the first value", Input: c, Got: o.text(), Want: canon(want[0])})
			}
		} else {
			found := false
			for _, w := range want {
				if canon(w) == canon(o.Ret) {
					found = true
				}
			}
			if !found {
				run.violation(Violation{Key: "value-not-member", What: "ValueForPath is not one of the denoted values", Input: c, Got: o.text(), Want: canon(ifaceList(want))})
			}
		}
	case "Exists":
		if len(c.SubKeys) > 0 {
			return
		}
		b, _ := o.Ret.(bool)
		if b != (len(want) > 0) || o.Err != nil {
			run.violation(Violation{Key: "exists-inconsistent", What: "Exists disagrees with non-emptiness of the denoted values", Input: c,
				Got: o.text(), Want: fmt.Sprint(len(want) > 0)})
		}
	}
}
