package main

import (
	"fmt"
	"strconv"
	"strings"

	mxj "github.com/clbanning/mxj/v2"
)

// kvCase is one call of a tree-walker API on a receiver Map (replayable as JSON).
type kvCase struct {
	Op      string                 `json:"op"`
	Map     map[string]interface{} `json:"map"`
	Path    string                 `json:"path,omitempty"`
	Key     string                 `json:"key,omitempty"`
	SubKeys []string               `json:"subkeys,omitempty"`
	Sep     string                 `json:"sep"`
	NewVal  interface{}            `json:"newval,omitempty"` // string or single-entry map (Update); any value (Set)
	NewName string                 `json:"newname,omitempty"`
	Pairs   []string               `json:"pairs,omitempty"`
	NoAttr  bool                   `json:"noattr,omitempty"`
	Prefix  string                 `json:"attrprefix,omitempty"`
	DotN    bool                   `json:"dotnotation,omitempty"`
}

func ifaceList(vs []interface{}) []interface{} {
	if vs == nil {
		return []interface{}{}
	}
	return vs
}

// runKV executes the call on a private deep copy and returns the outcome and the receiver afterwards.
func runKV(c kvCase) (Outcome, map[string]interface{}) {
	m := deepCopy(c.Map).(map[string]interface{})
	mv := mxj.Map(m)
	sep := c.Sep
	if sep == "" {
		sep = ":"
	}
	// the default separator is established in one of its equivalent documented ways (explicitly, by the
	// no-argument or ""-argument restore, or by the restore the previous call left behind): a result that
	// depends on which one was used depends on more than the option state (seed C10-7)
	applyCount++
	if sep != ":" {
		mxj.SetFieldSeparator(sep)
	} else {
		switch hash64(fmt.Sprint("sep", applyCount)) % 4 {
		case 0:
			mxj.SetFieldSeparator(":")
		case 1:
			mxj.SetFieldSeparator()
		case 2:
			mxj.SetFieldSeparator("")
		}
	}
	defer mxj.SetFieldSeparator()
	o := protect(func() Outcome {
		switch c.Op {
		case "ValuesForPath":
			vs, err := mv.ValuesForPath(c.Path, c.SubKeys...)
			return Outcome{Err: err, Ret: ifaceList(vs)}
		case "ValueForPath":
			v, err := mv.ValueForPath(c.Path)
			return Outcome{Err: err, Ret: v}
		case "Exists":
			b, err := mv.Exists(c.Path, c.SubKeys...)
			return Outcome{Err: err, Ret: b}
		case "ValuesForKey":
			vs, err := mv.ValuesForKey(c.Key, c.SubKeys...)
			return Outcome{Err: err, Ret: ifaceList(vs)}
		case "PathsForKey":
			ps := mv.PathsForKey(c.Key)
			out := make([]interface{}, len(ps))
			for i, p := range ps {
				out[i] = p
			}
			return Outcome{Ret: out}
		case "PathForKeyShortest":
			return Outcome{Ret: mv.PathForKeyShortest(c.Key)}
		case "LeafNodes", "LeafPaths", "LeafValues":
			applyCount++
			if c.Prefix == "" && hash64(fmt.Sprint("leaf", applyCount))%2 == 0 {
				mxj.PrependAttrWithHyphen(false) // the other documented way to the empty prefix (from the current "-")
			} else {
				mxj.SetAttrPrefix(c.Prefix)
			}
			mxj.LeafUseDotNotation(c.DotN)
			defer mxj.SetAttrPrefix("-")
			defer mxj.LeafUseDotNotation(false)
			var opt []bool
			if c.NoAttr {
				opt = []bool{true}
			}
			switch c.Op {
			case "LeafPaths":
				return Outcome{Ret: toIfaces(mv.LeafPaths(opt...))}
			case "LeafValues":
				return Outcome{Ret: ifaceList(mv.LeafValues(opt...))}
			}
			ln := mv.LeafNodes(opt...)
			out := make([]interface{}, len(ln))
			for i, n := range ln {
				out[i] = []interface{}{n.Path, n.Value}
			}
			return Outcome{Ret: out}
		case "UpdateValuesForPath":
			n, err := mv.UpdateValuesForPath(deepCopy(c.NewVal), c.Path, c.SubKeys...)
			return Outcome{Err: err, Ret: n}
		case "SetValueForPath":
			err := mv.SetValueForPath(deepCopy(c.NewVal), c.Path)
			return Outcome{Err: err}
		case "Remove":
			return Outcome{Err: mv.Remove(c.Path)}
		case "RenameKey":
			return Outcome{Err: mv.RenameKey(c.Path, c.NewName)}
		case "NewMap":
			n, err := mv.NewMap(c.Pairs...)
			return Outcome{Err: err, Ret: deepCopy(map[string]interface{}(n))}
		}
		panic("mxjh: unknown op " + c.Op)
	})
	return o, deepCopy(m).(map[string]interface{})
}

func coqNewVal(v interface{}) string {
	switch x := v.(type) {
	case string:
		return "(NVStr " + coqStr(x) + ")"
	case map[string]interface{}:
		s := coqMap(x) // (VMap [...])
		return "(NVMap " + strings.TrimSuffix(strings.TrimPrefix(s, "(VMap "), ")") + ")"
	}
	return "NVOther"
}

func (c kvCase) opTerm() string {
	switch c.Op {
	case "ValuesForPath":
		return "(OpVfp " + coqStr(c.Path) + " " + coqStrs(c.SubKeys) + ")"
	case "ValueForPath":
		return "(OpVal " + coqStr(c.Path) + ")"
	case "Exists":
		return "(OpExists " + coqStr(c.Path) + " " + coqStrs(c.SubKeys) + ")"
	case "ValuesForKey":
		return "(OpVfk " + coqStr(c.Key) + " " + coqStrs(c.SubKeys) + ")"
	case "PathsForKey":
		return "(OpPaths " + coqStr(c.Key) + ")"
	case "PathForKeyShortest":
		return "(OpShortest " + coqStr(c.Key) + ")"
	case "LeafPaths":
		return "(OpLeafPaths " + coqBool(c.NoAttr) + " " + coqStr(c.Prefix) + " " + coqStr("#text") + " " + coqBool(c.DotN) + ")"
	case "LeafValues":
		return "(OpLeafValues " + coqBool(c.NoAttr) + " " + coqStr(c.Prefix) + " " + coqStr("#text") + " " + coqBool(c.DotN) + ")"
	case "LeafNodes":
		return "(OpLeaf " + coqBool(c.NoAttr) + " " + coqStr(c.Prefix) + " " + coqStr("#text") + " " + coqBool(c.DotN) + ")"
	case "UpdateValuesForPath":
		return "(OpUpdate " + coqNewVal(c.NewVal) + " " + coqStr(c.Path) + " " + coqStrs(c.SubKeys) + ")"
	case "SetValueForPath":
		return "(OpSet " + coqVal(c.NewVal) + " " + coqStr(c.Path) + ")"
	case "Remove":
		return "(OpRemove " + coqStr(c.Path) + ")"
	case "RenameKey":
		return "(OpRename " + coqStr(c.Path) + " " + coqStr(c.NewName) + ")"
	case "NewMap":
		return "(OpNewMap " + coqStrs(c.Pairs) + ")"
	}
	panic("opTerm")
}

// pfCands lists the strings the call may hand to strconv.ParseFloat.
func (c kvCase) pfCands() []string {
	var out []string
	sep := c.Sep
	if sep == "" {
		sep = ":"
	}
	for _, s := range c.SubKeys {
		out = append(out, strings.Split(s, sep)...)
	}
	if s, ok := c.NewVal.(string); ok {
		out = append(out, strings.Split(s, sep)...)
	}
	return out
}

func (c kvCase) term(ordered bool, o Outcome, after map[string]interface{}) string {
	sep := c.Sep
	if sep == "" {
		sep = ":"
	}
	aft := "None"
	if canon(after) != canon(c.Map) {
		aft = "(Some " + coqMap(after) + ")"
	}
	return fmt.Sprintf("{| c_sep := %s; c_pf := %s; c_m := %s; c_op := %s; c_ordered := %s; c_out := %s; c_after := %s |}",
		coqStr(sep), pfTable(c.pfCands()), coqMap(c.Map), c.opTerm(), coqBool(ordered), o.coq(), aft)
}

const kvHeader = "From Mxj Require Import Run.RunKV.\nLocal Open Scope string_scope.\n"

// ---------------------------------------------------------------- Go-side specification of paths (C07 oracle)

func specFinal(v interface{}) []interface{} {
	if l, ok := v.([]interface{}); ok {
		return l
	}
	return []interface{}{v}
}

func sortedKeys(m map[string]interface{}) []string {
	ks := make([]string, 0, len(m))
	for k := range m {
		ks = append(ks, k)
	}
	// order irrelevant for multisets; sort for reproducibility
	sortStrings(ks)
	return ks
}

func specSelMap(k string, m map[string]interface{}) []interface{} {
	if k == "*" {
		var out []interface{}
		for _, kk := range sortedKeys(m) {
			out = append(out, m[kk])
		}
		return out
	}
	if v, ok := m[k]; ok {
		return []interface{}{v}
	}
	return nil
}

func specSel(k string, v interface{}) []interface{} {
	switch x := v.(type) {
	case map[string]interface{}:
		return specSelMap(k, x)
	case []interface{}:
		var out []interface{}
		for _, e := range x {
			if mm, ok := e.(map[string]interface{}); ok {
				out = append(out, specSelMap(k, mm)...)
			} else if k == "*" {
				out = append(out, e)
			}
		}
		return out
	}
	return nil
}

func specEval(ks []string, v interface{}) []interface{} {
	if len(ks) == 0 {
		return specFinal(v)
	}
	var out []interface{}
	for _, x := range specSel(ks[0], v) {
		out = append(out, specEval(ks[1:], x)...)
	}
	return out
}

type specKey struct {
	name string
	arr  bool
	pos  int
}

// specParse parses a well-formed path (plain, "*", name[i]); ok=false otherwise.
func specParse(path string) ([]specKey, bool) {
	path = strings.TrimSuffix(path, ".")
	if path == "" {
		return nil, true
	}
	var out []specKey
	for _, seg := range strings.Split(path, ".") {
		if seg == "" {
			return nil, false
		}
		if i := strings.Index(seg, "["); i >= 0 {
			if !strings.HasSuffix(seg, "]") || strings.Count(seg, "[") != 1 || strings.Count(seg, "]") != 1 {
				return nil, false
			}
			n, err := strconv.Atoi(seg[i+1 : len(seg)-1])
			if err != nil || n < 0 {
				return nil, false
			}
			out = append(out, specKey{seg[:i], true, n})
		} else {
			out = append(out, specKey{seg, false, 0})
		}
	}
	return out, true
}

// specEvalX is the compositional meaning of an indexed path (Spec/PathSem.v evalx).
func specEvalX(keys []specKey, m interface{}) []interface{} {
	// maximal plain prefix
	i := 0
	var pre []string
	for i < len(keys) && !keys[i].arr {
		pre = append(pre, keys[i].name)
		i++
	}
	if i == len(keys) {
		return specEval(pre, m)
	}
	k := keys[i]
	rest := keys[i+1:]
	var parents []interface{}
	if len(pre) == 0 {
		parents = []interface{}{m}
	} else {
		for _, p := range specEval(pre, m) {
			if _, ok := p.(map[string]interface{}); ok {
				parents = append(parents, p)
			}
		}
	}
	var out []interface{}
	for _, p := range parents {
		vs := specEval([]string{k.name}, p)
		if k.pos >= len(vs) {
			continue
		}
		x := vs[k.pos]
		if len(rest) == 0 {
			out = append(out, x)
		} else if _, ok := x.(map[string]interface{}); ok {
			out = append(out, specEvalX(rest, x)...)
		}
	}
	return out
}

func hasNestedLists(v interface{}, inList bool) bool {
	switch x := v.(type) {
	case map[string]interface{}:
		for _, e := range x {
			if hasNestedLists(e, false) {
				return true
			}
		}
	case []interface{}:
		if inList {
			return true
		}
		for _, e := range x {
			if hasNestedLists(e, true) {
				return true
			}
		}
	}
	return false
}

func hasIndexOnStar(keys []specKey) bool {
	for _, k := range keys {
		if k.arr && k.name == "*" {
			return true
		}
	}
	return false
}

func runKVLeaf(c kvCase) (Outcome, map[string]interface{}) { return runKV(c) }
